/-
Helper lemmas for C05 part C (the bound theorems): shape of what `polyPrimal` returns in its two proved
branches, well-formedness of the numeric signomial representative, of the powers of the standard multiplier
and of the modulated Lagrangian `(f − γ)·modulator` (rows, width, no poisoned coefficient).
-/
import SageoptModel.Lemmas.PolyBLagr
import SageoptModel.Lemmas.LagrClean
import SageoptModel.Lemmas.PolyARep
import SageoptModel.Lemmas.PolyAChar
import SageoptModel.Lemmas.RelaxSigDual

namespace Sageopt.Poly
open Sageopt Sageopt.Sig Sageopt.Sig.Hom Sageopt.Sig.LinC Sageopt.Relax Sageopt.RelaxSig Sageopt.Props
  Sageopt.Props.C13

/-! ### the numeric signomial representative -/

theorem pc_sigRepQ_keys (f : SigQ) : keys (sigRepQ f).terms = keys f.terms := by
  unfold sigRepQ keys
  simp only [List.map_map]
  apply List.map_congr_left
  intro t _
  simp only [Function.comp_apply]
  split <;> rfl

theorem pc_sigRepQ_n (f : SigQ) : (sigRepQ f).n = f.n := rfl

/-- the representative keeps the rows, so it is a well-formed signomial -/
theorem pc_sigRepQ_wf (f : SigQ) (hf : PolyWfQ f) (hnd : (keys f.terms).Nodup) : Wf (sigRepQ f) := by
  have hrow : ∀ u ∈ (sigRepQ f).terms, u.1 ∈ keys f.terms := by
    intro u hu
    rw [← pc_sigRepQ_keys]
    exact List.mem_map.2 ⟨u, hu, rfl⟩
  have hsrc : ∀ u ∈ (sigRepQ f).terms, u.1.length = f.n ∧ isPolyExp u.1 = true := by
    intro u hu
    obtain ⟨t, ht, e⟩ := List.mem_map.1 (hrow u hu)
    rw [← e]
    exact hf t ht
  refine ⟨fun u hu => (hsrc u hu).1, fun u hu => pb_isPolyExp_onGrid (hsrc u hu).2, ?_⟩
  rw [pc_sigRepQ_keys]
  exact hnd

/-! ### the two branches of `polyPrimal` -/

theorem pc_polyPrimal_ell0 (f : SigQ) (sigrepEll g : Nat) (chat : List Nat) :
    polyPrimal f 0 sigrepEll g chat = .viaSig (sigPrimal (sigRepQ f) sigrepEll none g) := by
  unfold polyPrimal
  rw [if_pos (by rfl)]

theorem pc_polyPrimal_cone (f : SigQ) (polyEll : Nat) (hpe : 0 < polyEll) (g : Nat) (chat : List Nat) :
    polyPrimal f polyEll 0 g chat =
      .cone (polyCone (modLagrangian f (powNat isZeroQ (stdMultiplier f) polyEll) g) chat) := by
  unfold polyPrimal
  have h1 : (polyEll == 0) = false := by
    rw [beq_eq_false_iff_ne]
    omega
  rw [h1]
  simp

theorem pc_polyCone_side (p : SigL) (chat : List Nat) : (polyCone p chat).side = (sigRep p chat).2 := rfl

/-- the coefficient vector of the cone constraint under an assignment is the evaluated signomial representative -/
theorem pc_polyCone_coeffs (σ : Nat → Rat) (p : SigL) (chat : List Nat) :
    (polyCone p chat).alpha.zip ((polyCone p chat).c.map (Lin.value σ)) = evalL σ (sigRep p chat).1.terms := by
  show (keys (sigRep p chat).1.terms).zip (((sigRep p chat).1.terms.map (·.2)).map (Lin.value σ)) = _
  rw [rs_zip_keys]
  rfl

/-! ### powers of the standard multiplier -/

theorem pc_std_spec (f : SigQ) (hf : PolyWfQ f) :
    Wf (stdMultiplier f) ∧ (stdMultiplier f).n = f.n ∧ pb_Rows (pb_PolyRow f.n) (stdMultiplier f).terms := by
  have h := pa_std_polyWf f hf
  exact ⟨h.wf, h.n_eq, fun t ht => ⟨h.width t ht, h.polyRow t ht⟩⟩

theorem pc_stdPow_spec (f : SigQ) (hf : PolyWfQ f) (k : Nat) :
    Wf (powNat isZeroQ (stdMultiplier f) k) ∧ (powNat isZeroQ (stdMultiplier f) k).n = f.n ∧
      pb_Rows (pb_PolyRow f.n) (powNat isZeroQ (stdMultiplier f) k).terms := by
  obtain ⟨h1, h2, h3⟩ := pc_std_spec f hf
  refine ⟨(powNat_spec isZeroQ isZeroQ_iff f.n (fun _ => 1) (lg_oneChar f.n) _ h1 h2 k).1, ?_, ?_⟩
  · rw [lg_powNat_n, h2]
  · exact pb_rows_powNat (pb_polyRow_closed f.n) _ h2 h3 k

/-! ### the modulated Lagrangian -/

theorem pc_mul_bad_right (x y : Lin) (hy : y.isConstant = true) (hxb : x.bad = false) (hyb : y.bad = false) :
    (x * y).bad = false := by
  cases hb : (x * y).bad with
  | false => rfl
  | true =>
    rcases (Lin.mul_bad_iff x y).1 hb with h | h | ⟨_, h⟩
    · rw [hxb] at h; exact absurd h (by simp)
    · rw [hyb] at h; exact absurd h (by simp)
    · rw [hy] at h; exact absurd h (by simp)

theorem pc_cleanT_product_right (f g : SigT Lin) (hc : ∀ t ∈ g.terms, t.2.isConstant = true)
    (hf : CleanT f.terms) (hg : CleanT g.terms) : CleanT (product f g).terms := by
  unfold product
  apply lg_cleanT_mk
  intro t ht
  obtain ⟨t2, h2, ht⟩ := List.mem_flatMap.1 ht
  obtain ⟨t1, h1, rfl⟩ := List.mem_map.1 ht
  exact pc_mul_bad_right _ _ (hc t2 h2) (hf t1 h1) (hg t2 h2)

theorem pc_modLagrangian_eq (f m : SigQ) (hf : Wf f) (hr : pb_Rows (pb_PolyRow f.n) f.terms) (hmn : m.n = f.n)
    (g : Nat) :
    modLagrangian f m g = withoutZeros Lin.isZero (product (pb_L0 f g) (embed m)) := by
  obtain ⟨_, h2, _, _⟩ := pb_L0_spec f hf hr g (fun _ => 0) []
  have hnn : (pb_L0 f g).n = (embed m).n := by rw [h2, lg_embed_n, hmn]
  show okOr (mul Lin.isZero (pb_L0 f g) (embed m)) (pb_L0 f g) = _
  unfold mul
  rw [if_neg (by simpa using hnn)]
  rfl

/-- `(f − γ)·modulator` is a polynomial in `f.n` variables with no poisoned coefficient -/
theorem pc_modLagrangian_spec (f m : SigQ) (hf : Wf f) (hr : pb_Rows (pb_PolyRow f.n) f.terms) (hmn : m.n = f.n)
    (hmr : pb_Rows (pb_PolyRow f.n) m.terms) (g : Nat) :
    (modLagrangian f m g).n = f.n ∧ PolyWf (modLagrangian f m g) := by
  obtain ⟨_, h2, h3, _⟩ := pb_L0_spec f hf hr g (fun _ => 0) []
  have hn : (modLagrangian f m g).n = f.n := by
    rw [pc_modLagrangian_eq f m hf hr hmn g, Gen.withoutZeros_n, Gen.product_n, h2]
  have hrows : pb_Rows (pb_PolyRow f.n) (modLagrangian f m g).terms := by
    rw [pc_modLagrangian_eq f m hf hr hmn g]
    exact pb_rows_withoutZeros (pb_polyRow_closed f.n) Lin.isZero _ (by rw [Gen.product_n, h2])
      (pb_rows_product (pb_polyRow_closed f.n) _ _ h3 (pb_rows_embed m hmr))
  have hclean : CleanT (modLagrangian f m g).terms := by
    rw [pc_modLagrangian_eq f m hf hr hmn g]
    apply lg_cleanT_withoutZeros
    exact pc_cleanT_product_right _ _ (lg_embed_const m) (lg_L0_clean f g) (lg_cleanT_embed m)
  refine ⟨hn, ?_⟩
  intro t ht
  rw [hn]
  exact ⟨(hrows t ht).1, (hrows t ht).2, hclean t ht⟩

end Sageopt.Poly
