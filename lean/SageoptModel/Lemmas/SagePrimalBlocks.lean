/-
C01 helper lemmas, block structure of `primalRows`: the per-index block as a function of its own,
the decomposition of the compiled system, and the equations of the four kinds of blocks.
-/
import SageoptModel.Lemmas.SagePrimalVec

namespace Sageopt.Sage
open Sageopt Sageopt.Compile Sageopt.Solvers Sageopt.Analysis
open Finset

/-- the body of the `mapM` in `primalRows` -/
def sp_perBlock (inp : PrimalIn) (p : PIds) : M (List CRow × List Cone) := do
  let m := inp.alpha.length
  let N := match inp.X with | some X => X.N | none => inp.n
  let lifted := inp.alpha.map (padTo N)
  let age := ageVector m inp.c inp.ech p
  let cov := trueIdx (coverOf inp.ech p.i)
  if p.nu.isEmpty then
    pure ([nonnegRow (age.getD p.i (constE 0)) inp.dummy], [(⟨.pos, 1⟩ : Cone)])
  else
    let x := nuExprs inp.settings p
    let y := cov.map fun j => age.getD j (constE 0)
    let selfE := age.getD p.i (constE 0)
    match inp.X with
    | none =>
      let (r1, k1) := sumRelent x y (negE selfE) p.epi
      if inp.settings.kernelBasis then pure (r1, k1)
      else
        let mat := transposeQ inp.n (cov.map fun j => subRow (inp.alpha.getD j []) (inp.alpha.getD p.i []))
        pure (r1 ++ matvecRows mat p.nu, k1 ++ [⟨.zero, inp.n⟩])
    | some X =>
      let etaB : List (Nat × Rat) := (p.eta.zip X.b).filterMap fun (id, q) => if q == 0 then none else some (id, q)
      let z : AffE := ⟨(negE selfE).co ++ etaB, (negE selfE).off⟩
      let (r1, k1) := sumRelent x y z p.epi
      let mat1 := transposeQ N (cov.map fun j => subRow (lifted.getD j []) (lifted.getD p.i []))
      let mat2 := (transposeQ N X.A).map fun r => r.map (- ·)
      let eqRows := (List.range N).map fun t =>
        (⟨((mat1.getD t []).zip p.nu).map (fun (q, id) => (id, q)) ++ ((mat2.getD t []).zip p.eta).map (fun (q, id) => (id, q)),
          0, false⟩ : CRow)
      let (r3, k3) ← conRows inp.dummy (.dual (p.eta.map fun id => ⟨[(.var id, 1)], 0⟩) X.K)
      pure (r1 ++ eqRows ++ r3, k1 ++ [⟨.zero, N⟩] ++ k3)

theorem sp_primalRows_eq (inp : PrimalIn) :
    primalRows inp =
      (if (inp.ids.filter fun p => !p.nu.isEmpty).isEmpty then
        pure (inp.c.map (nonnegRow · inp.dummy), [⟨.pos, inp.c.length⟩])
      else do
        let perI ← inp.ids.mapM (sp_perBlock inp)
        pure (perI.flatMap (·.1) ++ (sumToC inp.alpha.length inp.c (inp.ids.map (ageVector inp.alpha.length inp.c inp.ech)) inp.settings.sumAgeForceEquality inp.dummy inp.ech).1,
              perI.flatMap (·.2) ++ (sumToC inp.alpha.length inp.c (inp.ids.map (ageVector inp.alpha.length inp.c inp.ech)) inp.settings.sumAgeForceEquality inp.dummy inp.ech).2)) := by
  rfl

theorem sp_primalRows_degenerate (inp : PrimalIn) (rows : List CRow) (K : List Cone)
    (h : primalRows inp = .ok (rows, K)) (hd : (inp.ids.filter fun p => !p.nu.isEmpty) = []) :
    rows = inp.c.map (nonnegRow · inp.dummy) ∧ K = [⟨.pos, inp.c.length⟩] := by
  rw [sp_primalRows_eq, hd] at h
  simp only [List.isEmpty_nil, if_true, pure, Except.pure, Except.ok.injEq, Prod.mk.injEq] at h
  exact ⟨h.1.symm, h.2.symm⟩

theorem sp_primalRows_ok (inp : PrimalIn) (rows : List CRow) (K : List Cone)
    (h : primalRows inp = .ok (rows, K)) (hd : (inp.ids.filter fun p => !p.nu.isEmpty) ≠ []) :
    ∃ perI, inp.ids.mapM (sp_perBlock inp) = .ok perI ∧
      rows = perI.flatMap (·.1) ++ (sumToC inp.alpha.length inp.c (inp.ids.map (ageVector inp.alpha.length inp.c inp.ech))
        inp.settings.sumAgeForceEquality inp.dummy inp.ech).1 ∧
      K = perI.flatMap (·.2) ++ (sumToC inp.alpha.length inp.c (inp.ids.map (ageVector inp.alpha.length inp.c inp.ech))
        inp.settings.sumAgeForceEquality inp.dummy inp.ech).2 := by
  rw [sp_primalRows_eq] at h
  have hd' : (inp.ids.filter fun p => !p.nu.isEmpty).isEmpty = false := by
    cases hf : (inp.ids.filter fun p => !p.nu.isEmpty) with
    | nil => exact absurd hf hd
    | cons a l => rfl
  rw [hd'] at h
  simp only [Bool.false_eq_true, if_false] at h
  cases hm : inp.ids.mapM (sp_perBlock inp) with
  | error e => rw [hm] at h; cases h
  | ok perI =>
    rw [hm] at h
    simp only [bind, Except.bind, pure, Except.pure, Except.ok.injEq, Prod.mk.injEq] at h
    exact ⟨perI, rfl, h.1.symm, h.2.symm⟩

/-! ### the four kinds of blocks -/

theorem sp_perBlock_triv (inp : PrimalIn) (p : PIds) (hnu : p.nu = []) :
    sp_perBlock inp p = .ok ([nonnegRow ((ageVector inp.alpha.length inp.c inp.ech p).getD p.i (constE 0)) inp.dummy],
      [(⟨.pos, 1⟩ : Cone)]) := by
  unfold sp_perBlock
  simp only [hnu, List.isEmpty_nil, if_true]
  rfl

theorem sp_perBlock_ordK (inp : PrimalIn) (p : PIds) (hnu : p.nu ≠ []) (hX : inp.X = none)
    (hk : inp.settings.kernelBasis = true) :
    sp_perBlock inp p = .ok (sumRelent (nuExprs inp.settings p)
      ((trueIdx (coverOf inp.ech p.i)).map fun j => (ageVector inp.alpha.length inp.c inp.ech p).getD j (constE 0))
      (negE ((ageVector inp.alpha.length inp.c inp.ech p).getD p.i (constE 0))) p.epi) := by
  have hnu' : p.nu.isEmpty = false := by cases h : p.nu with
    | nil => exact absurd h hnu
    | cons a l => rfl
  unfold sp_perBlock
  simp only [hnu', hX, hk, Bool.false_eq_true, if_false, if_true]
  rfl

theorem sp_perBlock_ord (inp : PrimalIn) (p : PIds) (hnu : p.nu ≠ []) (hX : inp.X = none)
    (hk : inp.settings.kernelBasis = false) :
    sp_perBlock inp p = .ok
      ((sumRelent (nuExprs inp.settings p)
        ((trueIdx (coverOf inp.ech p.i)).map fun j => (ageVector inp.alpha.length inp.c inp.ech p).getD j (constE 0))
        (negE ((ageVector inp.alpha.length inp.c inp.ech p).getD p.i (constE 0))) p.epi).1 ++
        matvecRows (transposeQ inp.n ((trueIdx (coverOf inp.ech p.i)).map fun j =>
          subRow (inp.alpha.getD j []) (inp.alpha.getD p.i []))) p.nu,
       (sumRelent (nuExprs inp.settings p)
        ((trueIdx (coverOf inp.ech p.i)).map fun j => (ageVector inp.alpha.length inp.c inp.ech p).getD j (constE 0))
        (negE ((ageVector inp.alpha.length inp.c inp.ech p).getD p.i (constE 0))) p.epi).2 ++ [⟨.zero, inp.n⟩]) := by
  have hnu' : p.nu.isEmpty = false := by cases h : p.nu with
    | nil => exact absurd h hnu
    | cons a l => rfl
  unfold sp_perBlock
  simp only [hnu', hX, hk, Bool.false_eq_true, if_false]
  rfl

/-- `z = -age_i + eta @ b` -/
def sp_condZ (inp : PrimalIn) (X : Dom) (p : PIds) : AffE :=
  ⟨(negE ((ageVector inp.alpha.length inp.c inp.ech p).getD p.i (constE 0))).co ++
      ((p.eta.zip X.b).filterMap fun (id, q) => if q == 0 then none else some (id, q)),
    (negE ((ageVector inp.alpha.length inp.c inp.ech p).getD p.i (constE 0))).off⟩

def sp_condEq (inp : PrimalIn) (X : Dom) (p : PIds) : List CRow :=
  (List.range X.N).map fun t =>
    (⟨(((transposeQ X.N ((trueIdx (coverOf inp.ech p.i)).map fun j =>
          subRow ((inp.alpha.map (padTo X.N)).getD j []) ((inp.alpha.map (padTo X.N)).getD p.i []))).getD t []).zip p.nu).map
        (fun (q, id) => (id, q)) ++
      ((((transposeQ X.N X.A).map fun r => r.map (- ·)).getD t []).zip p.eta).map (fun (q, id) => (id, q)),
      0, false⟩ : CRow)

theorem sp_perBlock_cond (inp : PrimalIn) (p : PIds) (hnu : p.nu ≠ []) (X : Dom) (hX : inp.X = some X)
    (blk : List CRow × List Cone) (h : sp_perBlock inp p = .ok blk) :
    ∃ r3 k3, conRows inp.dummy (.dual (p.eta.map fun id => ⟨[(.var id, 1)], 0⟩) X.K) = .ok (r3, k3) ∧
      blk = ((sumRelent (nuExprs inp.settings p)
          ((trueIdx (coverOf inp.ech p.i)).map fun j => (ageVector inp.alpha.length inp.c inp.ech p).getD j (constE 0))
          (sp_condZ inp X p) p.epi).1 ++ sp_condEq inp X p ++ r3,
        (sumRelent (nuExprs inp.settings p)
          ((trueIdx (coverOf inp.ech p.i)).map fun j => (ageVector inp.alpha.length inp.c inp.ech p).getD j (constE 0))
          (sp_condZ inp X p) p.epi).2 ++ [⟨.zero, X.N⟩] ++ k3) := by
  have hnu' : p.nu.isEmpty = false := by cases h : p.nu with
    | nil => exact absurd h hnu
    | cons a l => rfl
  unfold sp_perBlock at h
  simp only [hnu', hX, Bool.false_eq_true, if_false] at h
  cases hc : conRows inp.dummy (.dual (p.eta.map fun id => ⟨[(.var id, 1)], 0⟩) X.K) with
  | error e => rw [hc] at h; cases h
  | ok r =>
    obtain ⟨r3, k3⟩ := r
    rw [hc] at h
    refine ⟨r3, k3, rfl, ?_⟩
    simp only [bind, Except.bind, pure, Except.pure, Except.ok.injEq] at h
    rw [← h]
    rfl

end Sageopt.Sage
