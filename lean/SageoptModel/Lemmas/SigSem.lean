/-
Semantics used to state the signomial-algebra theorems (C12, C13, C14, C16): the coefficient
function of a term list, evaluation against a character of the exponent monoid, and the grid /
width invariants.  Definitions only.
-/
import SageoptModel.Model.Sig
import Mathlib.Algebra.Ring.Defs
import Mathlib.Algebra.BigOperators.Group.List.Basic

namespace Sageopt.Sig

variable {C : Type}

/-- coefficient of the basis function with exponent `a`: the sum over all terms with that exponent -/
def coeff [AddCommMonoid C] (ts : List (Exp × C)) (a : Exp) : C :=
  ((ts.filter fun t => t.1 == a).map Prod.snd).sum

/-- evaluation against `χ : exponent ↦ value of the basis function` (for signomials
    `χ a = exp (a·x)`, for polynomials `χ a = ∏ x_j ^ a_j`) -/
def eval [Semiring C] (χ : Exp → C) (ts : List (Exp × C)) : C :=
  (ts.map fun t => t.2 * χ t.1).sum

/-- `χ` is multiplicative on rows of width `n` -/
structure IsChar [Semiring C] (n : Nat) (χ : Exp → C) : Prop where
  zero : χ (zeroExp n) = 1
  add : ∀ a b : Exp, a.length = n → b.length = n → χ (addExp a b) = χ a * χ b

/-- exponent entries are multiples of 10⁻⁷ (what the constructor's rounding produces) -/
def OnGrid (a : Exp) : Prop := ∀ q ∈ a, round7 q = q

/-- representation invariant of every constructed signomial: rows of width `n`, on the grid, distinct -/
structure Wf (f : SigT C) : Prop where
  width : ∀ t ∈ f.terms, t.1.length = f.n
  grid : ∀ t ∈ f.terms, OnGrid t.1
  nodup : (keys f.terms).Nodup

end Sageopt.Sig
