/-
C02 helper lemmas, part 4: row values of the blocks of `dualRows` at a moment assignment, and feasibility
of each block.
-/
import SageoptModel.Lemmas.SageDualVals
import SageoptModel.Lemmas.CompileBlocks

namespace Sageopt.Sage
open Sageopt Sageopt.Compile Sageopt.Solvers Sageopt.Analysis

/-! ### single rows -/

theorem sd_crowVal_compactRow (σ : Nat → ℝ) (ai aj : List Rat) (muN : List Nat) (x : List ℝ) (c : ℝ)
    (hlen : ai.length = aj.length) (hmu : muN.map σ = x.map (c * ·)) :
    crowVal σ ⟨(((subRow ai aj).zip muN).filterMap fun (q, id) => if q == 0 then none else some (id, q)).map
        (fun e => (e.1, -e.2)), 0, false⟩ = -(c * (rdot ai x - rdot aj x)) := by
  unfold crowVal
  simp only [Bool.false_eq_true, if_false, one_mul, Rat.cast_zero, add_zero]
  rw [sd_zip_filter_sum, hmu, sd_rdot_scale, sd_rdot_subRow _ _ _ hlen]

theorem sd_crowVal_epiRow (σ : Nat → ℝ) (e : Nat) : crowVal σ ⟨[(e, -1)], 0, false⟩ = -σ e := by
  simp [crowVal]

theorem sd_crowVal_linRow (σ : Nat → ℝ) (ai aj : List Rat) (muN : List Nat) (x : List ℝ) (c : ℝ) (e : Nat)
    (hlen : ai.length = aj.length) (hmu : muN.map σ = x.map (c * ·))
    (he : σ e = c * (rdot ai x - rdot aj x)) :
    crowVal σ ⟨((subRow ai aj).zip muN).map (fun (q, id) => (id, q)) ++ [(e, -1)], 0, false⟩ = 0 := by
  unfold crowVal
  simp only [Bool.false_eq_true, if_false, one_mul, Rat.cast_zero, add_zero, List.map_append, List.sum_append]
  rw [sd_zip_sum, hmu, sd_rdot_scale, sd_rdot_subRow _ _ _ hlen]
  simp [he]

theorem sd_scaled_co_sum (σ : Nat → ℝ) (co : List (Nat × Rat)) (br : Rat) :
    ((co.map fun pc => (pc.1, br * pc.2)).map fun (e : Nat × Rat) => (e.2 : ℝ) * σ e.1).sum
      = (br : ℝ) * (co.map fun p => (p.2 : ℝ) * σ p.1).sum := by
  induction co with
  | nil => simp
  | cons a co ih =>
    simp only [List.map_cons, List.sum_cons, ih]
    push_cast
    ring

theorem sd_crowVal_domRow (σ : Nat → ℝ) (arow : List Rat) (br : Rat) (mu : List Nat) (vi : AffE)
    (xt : List ℝ) (c : ℝ) (hmu : mu.map σ = xt.map (c * ·)) (hvi : argVal σ vi = c) :
    crowVal σ ⟨(arow.zip mu).map (fun (q, id) => (id, q)) ++ vi.co.map (fun pc => (pc.1, br * pc.2)),
        vi.off * br, false⟩ = c * (rdot arow xt + (br : ℝ)) := by
  unfold crowVal
  simp only [Bool.false_eq_true, if_false, one_mul, List.map_append, List.sum_append]
  rw [sd_zip_sum, hmu, sd_rdot_scale, sd_scaled_co_sum, ← hvi]
  unfold argVal
  push_cast
  ring

/-- the perspective rows evaluate to `v_i · (A x̃ + b)` -/
theorem sd_domRows_vals (σ : Nat → ℝ) (A : List (List Rat)) (b : List Rat) (mu : List Nat) (vi : AffE)
    (xt : List ℝ) (c : ℝ) (hmu : mu.map σ = xt.map (c * ·)) (hvi : argVal σ vi = c) :
    ((A.zip b).map fun (arow, br) =>
        crowVal σ ⟨(arow.zip mu).map (fun (q, id) => (id, q)) ++ vi.co.map (fun pc => (pc.1, br * pc.2)),
          vi.off * br, false⟩)
      = (List.zipWith (fun (row : List Rat) (br : Rat) => rdot row xt + (br : ℝ)) A b).map (c * ·) := by
  induction A generalizing b with
  | nil => simp
  | cons arow A ih =>
    cases b with
    | nil => simp
    | cons br b =>
      simp only [List.zip_cons_cons, List.map_cons, List.zipWith_cons_cons, ih]
      rw [sd_crowVal_domRow σ arow br mu vi xt c hmu hvi]

/-! ### the moment point in the closed exponential cone (copy of `Props.C02.moment_exp_row`) -/

theorem sd_moment_exp_row (t ai aj : ℝ) (ht : 0 ≤ t) :
    InExpCone (-(t * Real.exp ai * (ai - aj))) (t * Real.exp aj) (t * Real.exp ai) := by
  rcases eq_or_lt_of_le ht with h0 | hpos
  · subst h0; right; simp
  · left
    refine ⟨by positivity, ?_⟩
    have hne : t * Real.exp ai ≠ 0 := by positivity
    have : -(t * Real.exp ai * (ai - aj)) / (t * Real.exp ai) = aj - ai := by
      field_simp; ring
    rw [this, Real.exp_sub]
    have : t * Real.exp ai * (Real.exp aj / Real.exp ai) = t * Real.exp aj := by
      field_simp
    rw [this]

/-! ### blocks of exponential cones -/

theorem sd_feasBlocks_exp3 {α : Type} (P : CType → List ℝ → Prop) (l : List α) (f : α → List ℝ)
    (hf : ∀ a ∈ l, ∃ x y z, f a = [x, y, z] ∧ P .exp [x, y, z]) :
    FeasBlocks P (List.replicate l.length ⟨.exp, 3⟩) (l.flatMap f) := by
  induction l with
  | nil => trivial
  | cons a l ih =>
    obtain ⟨x, y, z, h1, h2⟩ := hf a (List.mem_cons_self ..)
    rw [List.length_cons, List.replicate_succ, feasBlocks_cons, List.flatMap_cons, h1]
    exact ⟨by simpa using h2, by simpa using ih (fun b hb => hf b (List.mem_cons_of_mem _ hb))⟩

theorem sd_length_flatMap3 {α β : Type} (l : List α) (f : α → List β) (hf : ∀ a ∈ l, (f a).length = 3) :
    (l.flatMap f).length = 3 * l.length := by
  induction l with
  | nil => simp
  | cons a l ih =>
    rw [List.flatMap_cons, List.length_append, hf a (List.mem_cons_self ..),
      ih (fun b hb => hf b (List.mem_cons_of_mem _ hb)), List.length_cons]
    omega

theorem sd_totalLen_replicate (k : Nat) (co : Cone) : totalLen (List.replicate k co) = k * co.len := by
  induction k with
  | zero => simp
  | succ k ih => rw [List.replicate_succ, totalLen_cons, ih]; ring

theorem sd_totalLen_replicate_exp (k : Nat) : totalLen (List.replicate k (⟨.exp, 3⟩ : Cone)) = 3 * k := by
  rw [sd_totalLen_replicate]; simp only; omega

/-! ### indices in a cover -/

theorem sd_mem_trueIdx_lt (cov : List Bool) (j : Nat) (h : j ∈ trueIdx cov) : j < cov.length := by
  unfold trueIdx at h
  rw [List.mem_map] at h
  obtain ⟨⟨b, k⟩, hk, rfl⟩ := h
  rw [List.mem_filter] at hk
  have := List.snd_lt_of_mem_zipIdx hk.1
  simpa using this

theorem sd_getD_mem {α : Type} (l : List α) (k : Nat) (d : α) (hk : k < l.length) : l.getD k d ∈ l := by
  have : l.getD k d = l[k] := by simp [List.getD, hk]
  rw [this]
  exact List.getElem_mem hk

theorem sd_fst_mem_of_mem_zipIdx {α : Type} (l : List α) (j : α) (k : Nat) (d : α) (h : (j, k) ∈ l.zipIdx) :
    j ∈ l ∧ k < l.length ∧ l.getD k d = j := by
  have h1 := List.fst_mem_of_mem_zipIdx h
  have h2 := List.snd_lt_of_mem_zipIdx h
  rw [List.mk_mem_zipIdx_iff_getElem?] at h
  refine ⟨h1, by simpa using h2, ?_⟩
  simp [List.getD, h]

theorem sd_forall₂_exp3 {α : Type} (P : CType → List ℝ → Prop) (R : α → List CRow → Prop) (cv : CRow → ℝ)
    (l : List α) (blocks : List (List CRow)) (h : List.Forall₂ R l blocks)
    (hR : ∀ a ∈ l, ∀ b, R a b → ∃ x y z, b.map cv = [x, y, z] ∧ P .exp [x, y, z]) :
    blocks.flatten.length = 3 * l.length ∧
    FeasBlocks P (List.replicate l.length ⟨.exp, 3⟩) (blocks.flatten.map cv) := by
  induction h with
  | nil => exact ⟨rfl, trivial⟩
  | @cons a b l bs h1 _ ih =>
    obtain ⟨x, y, z, e1, e2⟩ := hR a (List.mem_cons_self ..) b h1
    obtain ⟨ih1, ih2⟩ := ih (fun c hc => hR c (List.mem_cons_of_mem _ hc))
    have hb : b.length = 3 := by
      have := congrArg List.length e1
      simpa using this
    refine ⟨?_, ?_⟩
    · rw [List.flatten_cons, List.length_append, ih1, hb, List.length_cons]; omega
    · rw [List.length_cons, List.replicate_succ, feasBlocks_cons, List.flatten_cons, List.map_append, e1]
      exact ⟨by simpa using e2, by simpa using ih2⟩

end Sageopt.Sage
