/-
C05 helper lemmas, part 1: a monomial `x^a` at a real point without zero coordinates against
`e^{a·log|x|}`, even rows, and the term-by-term comparison of a polynomial with its signomial
representative (numeric coefficients).
-/
import SageoptModel.Lemmas.PolySem
import SageoptModel.Lemmas.SigCalcPoly
import SageoptModel.Lemmas.LinValue
import Mathlib.Analysis.SpecialFunctions.Log.Basic
import Mathlib.Tactic.Linarith

namespace Sageopt.Poly
open Sageopt Sageopt.Sig Sageopt.Relax Sageopt.Sage

/-! ### unfolding the list semantics one entry at a time -/

theorem pa_monoR_nil_left (x : List ℝ) : monoR [] x = 1 := by simp [monoR]

theorem pa_monoR_nil_right (a : Exp) : monoR a [] = 1 := by simp [monoR]

theorem pa_monoR_cons (q : Rat) (a : Exp) (t : ℝ) (x : List ℝ) :
    monoR (q :: a) (t :: x) = t ^ q.num.toNat * monoR a x := by
  simp [monoR]

theorem pa_rdot_nil_left (y : List ℝ) : rdot [] y = 0 := by simp [rdot]

theorem pa_rdot_cons (q : Rat) (a : Exp) (t : ℝ) (y : List ℝ) :
    rdot (q :: a) (t :: y) = (q : ℝ) * t + rdot a y := by
  simp [rdot]

theorem pa_logAbs_cons (t : ℝ) (x : List ℝ) : logAbs (t :: x) = Real.log |t| :: logAbs x := rfl

theorem pa_logAbs_length (x : List ℝ) : (logAbs x).length = x.length := by simp [logAbs]

theorem pa_polyR_nil (x : List ℝ) : polyR [] x = 0 := by simp [polyR]

theorem pa_polyR_cons (t : Exp × Rat) (ts : List (Exp × Rat)) (x : List ℝ) :
    polyR (t :: ts) x = (t.2 : ℝ) * monoR t.1 x + polyR ts x := by
  simp [polyR]

theorem pa_sigR_nil (y : List ℝ) : sigR [] y = 0 := by simp [sigR]

theorem pa_sigR_cons (t : Exp × Rat) (ts : List (Exp × Rat)) (y : List ℝ) :
    sigR (t :: ts) y = (t.2 : ℝ) * Real.exp (rdot t.1 y) + sigR ts y := by
  simp [sigR]

theorem pa_noZero_cons {t : ℝ} {x : List ℝ} (h : NoZero (t :: x)) : t ≠ 0 ∧ NoZero x :=
  ⟨h t (by simp), fun s hs => h s (by simp [hs])⟩

/-! ### monomials -/

/-- `|x^a| = e^{a·log|x|}` away from the coordinate hyperplanes -/
theorem pa_mono_abs (a : Exp) (x : List ℝ) (hx : NoZero x) (hl : a.length = x.length)
    (ha : isPolyExp a = true) : |monoR a x| = Real.exp (rdot a (logAbs x)) := by
  rw [isPolyExp_iff] at ha
  induction a generalizing x with
  | nil => simp [pa_monoR_nil_left, pa_rdot_nil_left]
  | cons q a ih =>
    cases x with
    | nil => simp at hl
    | cons t x =>
      obtain ⟨ht, hx'⟩ := pa_noZero_cons hx
      obtain ⟨k, rfl⟩ := (isNatQ_iff q).1 (ha q (by simp))
      have ih' := ih x hx' (by simpa using hl) (fun q hq => ha q (by simp [hq]))
      rw [pa_monoR_cons, pa_logAbs_cons, pa_rdot_cons, abs_mul, ih', Real.exp_add, natCast_toNat, abs_pow]
      congr 1
      rw [show (((k : ℚ) : ℝ)) = (k : ℝ) by simp, ← Real.log_pow,
        Real.exp_log (pow_pos (abs_pos.2 ht) k)]

theorem pa_even_toNat {q : Rat} (h : (q.den == 1 && q.num % 2 == 0) = true) : Even q.num.toNat := by
  simp only [Bool.and_eq_true, beq_iff_eq] at h
  rw [Nat.even_iff]
  omega

/-- an even row gives a nonnegative monomial at every real point -/
theorem pa_mono_even_nonneg (a : Exp) (x : List ℝ) (ha : isEvenExp a = true) : 0 ≤ monoR a x := by
  unfold isEvenExp at ha
  rw [List.all_eq_true] at ha
  induction a generalizing x with
  | nil => simp [pa_monoR_nil_left]
  | cons q a ih =>
    cases x with
    | nil => simp [pa_monoR_nil_right]
    | cons t x =>
      rw [pa_monoR_cons]
      exact mul_nonneg (Even.pow_nonneg (pa_even_toNat (ha q (by simp))) t)
        (ih x (fun q hq => ha q (by simp [hq])))

theorem pa_mono_even (a : Exp) (x : List ℝ) (hx : NoZero x) (hl : a.length = x.length)
    (ha : isPolyExp a = true) (he : isEvenExp a = true) : monoR a x = Real.exp (rdot a (logAbs x)) := by
  rw [← pa_mono_abs a x hx hl ha, abs_of_nonneg (pa_mono_even_nonneg a x he)]

theorem pa_mono_ne_zero (a : Exp) (x : List ℝ) (hx : NoZero x) (hl : a.length = x.length)
    (ha : isPolyExp a = true) : monoR a x ≠ 0 := by
  intro h
  have := pa_mono_abs a x hx hl ha
  rw [h, abs_zero] at this
  exact absurd this (Real.exp_pos _).ne

/-! ### `absLin` -/

theorem pa_absLin_eq (q : Rat) : absLin q = |q| := by
  unfold absLin
  split
  · rename_i h; rw [abs_of_neg h]
  · rename_i h; rw [abs_of_nonneg (not_lt.1 h)]

theorem pa_absLin_cast (q : Rat) : ((absLin q : Rat) : ℝ) = |(q : ℝ)| := by
  rw [pa_absLin_eq]
  exact Rat.cast_abs q

/-! ### one term of the representative against one term of the polynomial -/

/-- a coefficient at most `−|c|` on `e^{a·log|x|}` stays below `c·x^a` -/
theorem pa_term_le_of_le (a : Exp) (x : List ℝ) (hx : NoZero x) (hl : a.length = x.length)
    (ha : isPolyExp a = true) (c d : ℝ) (hd : d ≤ c) (hd' : d ≤ -c) :
    d * Real.exp (rdot a (logAbs x)) ≤ c * monoR a x := by
  have hE := pa_mono_abs a x hx hl ha
  have hpos := Real.exp_pos (rdot a (logAbs x))
  rw [← hE]
  rcases abs_cases (monoR a x) with ⟨h1, _⟩ | ⟨h1, _⟩
  · rw [h1]
    exact mul_le_mul_of_nonneg_right hd (by rw [← h1, hE]; exact hpos.le)
  · rw [h1]
    have : 0 ≤ -monoR a x := by rw [← h1, hE]; exact hpos.le
    nlinarith [mul_le_mul_of_nonneg_right hd' this]

theorem pa_term_le_abs (a : Exp) (x : List ℝ) (hx : NoZero x) (hl : a.length = x.length)
    (ha : isPolyExp a = true) (c : ℝ) :
    -|c| * Real.exp (rdot a (logAbs x)) ≤ c * monoR a x :=
  pa_term_le_of_le a x hx hl ha c (-|c|) (neg_abs_le c) (by linarith [le_abs_self c])

/-- the numeric representative, one term -/
theorem pa_sigRepQ_term (t : Exp × Rat) (x : List ℝ) (hx : NoZero x) (hl : t.1.length = x.length)
    (ha : isPolyExp t.1 = true) :
    (((if isEvenExp t.1 then t else (t.1, -(absLin t.2))).2 : Rat) : ℝ) *
        Real.exp (rdot (if isEvenExp t.1 then t else (t.1, -(absLin t.2))).1 (logAbs x)) ≤
      (t.2 : ℝ) * monoR t.1 x := by
  by_cases he : isEvenExp t.1 = true
  · rw [if_pos he, pa_mono_even t.1 x hx hl ha he]
  · rw [if_neg he]
    show ((-(absLin t.2) : Rat) : ℝ) * Real.exp (rdot t.1 (logAbs x)) ≤ _
    rw [Rat.cast_neg, pa_absLin_cast]
    exact pa_term_le_abs t.1 x hx hl ha _

theorem pa_sigRepQ_terms (ts : List (Exp × Rat)) (x : List ℝ) (hx : NoZero x)
    (hw : ∀ t ∈ ts, t.1.length = x.length ∧ isPolyExp t.1 = true) :
    sigR (ts.map fun t => if isEvenExp t.1 then t else (t.1, -(absLin t.2))) (logAbs x) ≤ polyR ts x := by
  induction ts with
  | nil => simp [pa_sigR_nil, pa_polyR_nil]
  | cons t ts ih =>
    rw [List.map_cons, pa_sigR_cons, pa_polyR_cons]
    exact add_le_add (pa_sigRepQ_term t x hx (hw t (by simp)).1 (hw t (by simp)).2)
      (ih (fun u hu => hw u (List.mem_cons_of_mem _ hu)))

end Sageopt.Poly
