/-
Helper lemmas for C05 part B, part 2: row invariants.  A predicate `P` on exponent rows that holds for the
zero row of width `n`, is closed under `addExp` and implies "on the grid" is preserved by every operation of
the signomial model (`mk`, `const`, `withoutZeros`, `sumList`, `product`, `smul`, `neg`, `powNat`, `mulQ`) and so
by `qFold`, `hierarchyEk`, `varSig`, `embed`.  Instances: polynomial rows and even polynomial rows of width `n`.
-/
import SageoptModel.Lemmas.PolyBChar
import SageoptModel.Lemmas.LagrIdent

namespace Sageopt.Poly
open Sageopt Sageopt.Sig Sageopt.Relax

/-- `P` holds for the zero row of width `n`, is closed under addition of rows, and implies "on the grid" -/
structure pb_RowClosed (n : Nat) (P : Exp → Prop) : Prop where
  zero : P (zeroExp n)
  add : ∀ a b, P a → P b → P (addExp a b)
  grid : ∀ a, P a → OnGrid a

/-- every row of the term list satisfies `P` -/
def pb_Rows {C : Type} (P : Exp → Prop) (ts : List (Exp × C)) : Prop := ∀ t ∈ ts, P t.1

theorem pb_polyRow_closed (n : Nat) : pb_RowClosed n (pb_PolyRow n) := by
  refine ⟨⟨by simp [zeroExp], pb_isPolyExp_zeroExp n⟩, ?_, fun a h => pb_isPolyExp_onGrid h.2⟩
  intro a b ha hb
  exact ⟨by rw [addExp_length, ha.1, hb.1, Nat.min_self], pb_isPolyExp_addExp ha.2 hb.2⟩

theorem pb_evenRow_closed (n : Nat) : pb_RowClosed n (pb_EvenRow n) := by
  refine ⟨⟨by simp [zeroExp], pb_isPolyExp_zeroExp n, pb_isEvenExp_zeroExp n⟩, ?_,
    fun a h => pb_isPolyExp_onGrid h.2.1⟩
  intro a b ha hb
  exact ⟨by rw [addExp_length, ha.1, hb.1, Nat.min_self], pb_isPolyExp_addExp ha.2.1 hb.2.1,
    pb_isEvenExp_addExp ha.2.2 hb.2.2⟩

theorem pb_rows_mono {C : Type} {P Q : Exp → Prop} (h : ∀ a, P a → Q a) {ts : List (Exp × C)}
    (hts : pb_Rows P ts) : pb_Rows Q ts := fun t ht => h _ (hts t ht)

theorem pb_rows_of_keys {C D : Type} {P : Exp → Prop} {ts : List (Exp × C)} {us : List (Exp × D)}
    (hk : ∀ a ∈ keys us, a ∈ keys ts) (hts : pb_Rows P ts) : pb_Rows P us := by
  intro u hu
  obtain ⟨t, ht, e⟩ := List.mem_map.1 (hk u.1 (List.mem_map.2 ⟨u, hu, rfl⟩))
  rw [← e]
  exact hts t ht

section gen
variable {C : Type} [Add C] [Zero C]

theorem pb_rows_mk {P : Exp → Prop} (hg : ∀ a, P a → OnGrid a) (n : Nat) (ts : List (Exp × C))
    (h : pb_Rows P ts) : pb_Rows P (mk n ts).terms := by
  intro t ht
  rw [Gen.mk_terms] at ht
  have hk := (Gen.mem_keys_consolidate _ _).1 (List.mem_map.2 ⟨t, ht, rfl⟩)
  simp only [keys, rounded, List.map_map, List.mem_map, Function.comp_def] at hk
  obtain ⟨u, hu, e⟩ := hk
  rw [← e, roundExp_of_onGrid (hg _ (h u hu))]
  exact h u hu

theorem pb_rows_const {n : Nat} {P : Exp → Prop} (hP : pb_RowClosed n P) (v : C) :
    pb_Rows P (const n v).terms := by
  intro t ht
  rw [Gen.const_terms, List.mem_singleton] at ht
  rw [ht]
  exact hP.zero

theorem pb_rows_withoutZeros {n : Nat} {P : Exp → Prop} (hP : pb_RowClosed n P) (isZero : C → Bool)
    (f : SigT C) (hfn : f.n = n) (h : pb_Rows P f.terms) : pb_Rows P (withoutZeros isZero f).terms := by
  rcases Gen.withoutZeros_cases isZero f with ⟨_, e⟩ | ⟨_, e⟩ | ⟨_, e⟩ | e
  · rw [e]; exact h
  · rw [e]; exact h
  · rw [e, hfn]; exact pb_rows_const hP 0
  · rw [e]
    apply pb_rows_mk hP.grid
    intro t ht
    exact h t (List.mem_of_mem_filter ht)

theorem pb_rows_sumList {n : Nat} {P : Exp → Prop} (hP : pb_RowClosed n P) (m : Nat) (fs : List (SigT C))
    (h : ∀ f ∈ fs, pb_Rows P f.terms) : pb_Rows P (sumList m fs).terms := by
  rcases Gen.sumList_cases m fs with ⟨f, rfl, e⟩ | e
  · rw [e]; exact h f (by simp)
  · rw [e]
    unfold Gen.sumGen
    apply pb_rows_mk hP.grid
    intro t ht
    obtain ⟨k, hk, rfl⟩ := List.mem_map.1 ht
    obtain ⟨f, hf, hkf⟩ := (mem_sumKeys fs k).1 hk
    obtain ⟨u, hu, rfl⟩ := List.mem_map.1 hkf
    exact h f hf u hu

variable [Mul C]

theorem pb_rows_product {n : Nat} {P : Exp → Prop} (hP : pb_RowClosed n P) (f g : SigT C)
    (hf : pb_Rows P f.terms) (hg : pb_Rows P g.terms) : pb_Rows P (product f g).terms := by
  unfold product
  apply pb_rows_mk hP.grid
  intro t ht
  obtain ⟨t2, h2, ht⟩ := List.mem_flatMap.1 ht
  obtain ⟨t1, h1, rfl⟩ := List.mem_map.1 ht
  have := hP.add _ _ (hf t1 h1) (hg t2 h2)
  show P (roundExp (addExp t1.1 t2.1))
  rw [roundExp_of_onGrid (hP.grid _ this)]
  exact this

theorem pb_rows_smul {n : Nat} {P : Exp → Prop} (hP : pb_RowClosed n P) (isZero : C → Bool)
    (f : SigT C) (hfn : f.n = n) (v : C) (h : pb_Rows P f.terms) : pb_Rows P (smul isZero f v).terms := by
  unfold smul
  apply pb_rows_withoutZeros hP isZero _ (by rw [Gen.product_n, hfn])
  apply pb_rows_product hP f _ h
  rw [hfn]
  exact pb_rows_const hP v

end gen

/-! ### numeric operations -/

theorem pb_rows_neg {n : Nat} {P : Exp → Prop} (hP : pb_RowClosed n P) (f : SigQ) (hfn : f.n = n)
    (h : pb_Rows P f.terms) : pb_Rows P (neg isZeroQ f).terms := by
  unfold neg
  exact pb_rows_smul hP isZeroQ f hfn _ h

theorem pb_rows_mulQ {n : Nat} {P : Exp → Prop} (hP : pb_RowClosed n P) (f g : SigQ) (hfn : f.n = n)
    (hf : pb_Rows P f.terms) (hg : pb_Rows P g.terms) : pb_Rows P (mulQ f g).terms := by
  unfold mulQ
  exact pb_rows_withoutZeros hP isZeroQ _ (by rw [Gen.product_n, hfn]) (pb_rows_product hP f g hf hg)

theorem pb_rows_foldl_mulQ {n : Nat} {P : Exp → Prop} (hP : pb_RowClosed n P) (gs : List SigQ)
    (hgs : ∀ g ∈ gs, pb_Rows P g.terms) (g : SigQ) (hgn : g.n = n) (hg : pb_Rows P g.terms) :
    pb_Rows P (gs.foldl mulQ g).terms := by
  induction gs generalizing g with
  | nil => exact hg
  | cons x gs ih =>
    rw [List.foldl_cons]
    exact ih (fun y hy => hgs y (List.mem_cons_of_mem _ hy)) (mulQ g x) (by rw [lg_mulQ_n, hgn])
      (pb_rows_mulQ hP g x hgn hg (hgs x (by simp)))

theorem pb_rows_powLoop {n : Nat} {P : Exp → Prop} (hP : pb_RowClosed n P) (f : SigQ)
    (hf : pb_Rows P f.terms) (k : Nat) (s : SigQ) (hsn : s.n = n) (hs : pb_Rows P s.terms) :
    pb_Rows P ((List.range k).foldl (fun s _ => withoutZeros isZeroQ (product s f)) s).terms := by
  induction k generalizing s with
  | zero => simpa using hs
  | succ k ih =>
    rw [List.range_succ_eq_map, List.foldl_cons, List.foldl_map]
    apply ih
    · rw [Gen.withoutZeros_n, Gen.product_n, hsn]
    · exact pb_rows_withoutZeros hP isZeroQ _ (by rw [Gen.product_n, hsn]) (pb_rows_product hP s f hs hf)

theorem pb_rows_powNat {n : Nat} {P : Exp → Prop} (hP : pb_RowClosed n P) (f : SigQ) (hfn : f.n = n)
    (hf : pb_Rows P f.terms) (k : Nat) : pb_Rows P (powNat isZeroQ f k).terms := by
  cases k with
  | zero =>
    unfold powNat
    rw [hfn]
    exact pb_rows_const hP 1
  | succ k =>
    unfold powNat
    exact pb_rows_powLoop hP f hf k _ (by rw [Gen.mk_n, hfn]) (pb_rows_mk hP.grid _ _ hf)

/-! ### `embed`, `varSig`, `evalL` -/

theorem pb_rows_embed {P : Exp → Prop} (f : SigQ) (h : pb_Rows P f.terms) : pb_Rows P (embed f).terms := by
  intro t ht
  obtain ⟨u, hu, rfl⟩ := List.mem_map.1 ht
  exact h u hu

theorem pb_rows_evalL {P : Exp → Prop} (σ : Nat → Rat) (ts : List (Exp × Lin)) (h : pb_Rows P ts) :
    pb_Rows P (evalL σ ts) := by
  intro t ht
  obtain ⟨u, hu, rfl⟩ := List.mem_map.1 ht
  exact h u hu

theorem pb_rows_varSig {P : Exp → Prop} (hg : ∀ a, P a → OnGrid a) (n : Nat) (alpha : List Exp)
    (h : ∀ a ∈ alpha, P a) (ids : List Nat) : pb_Rows P (varSig n alpha ids).terms := by
  unfold varSig
  apply pb_rows_mk hg
  intro t ht
  exact h _ (List.of_mem_zip ht).1

/-! ### `qFold` -/

/-- every member of `qFold n cons q` is a left fold of `mulQ` over a multiset of at most `q` members of `cons`
    (`lg_mem_qFold` without the hypothesis `1 ≤ q`) -/
theorem pb_mem_qFold (n : Nat) (cons : List SigQ) (q : Nat) :
    ∀ pr ∈ qFold n cons q, ∃ g gs, (g :: gs).length ≤ q ∧ (∀ x ∈ g :: gs, x ∈ cons) ∧ pr = gs.foldl mulQ g := by
  intro pr hpr
  by_cases hq : 1 ≤ q
  · exact lg_mem_qFold n cons q hq pr hpr
  · have hq0 : q = 0 := by omega
    subst hq0
    unfold qFold at hpr
    split at hpr
    · rename_i hc
      simp only [Bool.or_eq_true, List.isEmpty_iff] at hc
      rcases hc with hc | hc
      · rw [hc] at hpr; simp at hpr
      · simp at hc
    · simp at hpr

theorem pb_qFold_wf (n : Nat) (cons : List SigQ) (hc : ∀ g ∈ cons, Wf g ∧ g.n = n) (q : Nat) :
    ∀ pr ∈ qFold n cons q, Wf pr ∧ pr.n = n := by
  intro pr hpr
  obtain ⟨g, gs, _, hmem, rfl⟩ := pb_mem_qFold n cons q pr hpr
  obtain ⟨h1, h2, _⟩ := lg_foldl_mulQ n (fun _ => 1) (lg_oneChar n).isGridChar gs
    (fun x hx => hc x (hmem x (List.mem_cons_of_mem _ hx))) g (hc g (hmem g (by simp))).1
    (hc g (hmem g (by simp))).2
  exact ⟨h1, h2⟩

theorem pb_rows_qFold {n : Nat} {P : Exp → Prop} (hP : pb_RowClosed n P) (cons : List SigQ)
    (hc : ∀ g ∈ cons, g.n = n ∧ pb_Rows P g.terms) (q : Nat) :
    ∀ pr ∈ qFold n cons q, pb_Rows P pr.terms := by
  intro pr hpr
  obtain ⟨g, gs, _, hmem, rfl⟩ := pb_mem_qFold n cons q pr hpr
  exact pb_rows_foldl_mulQ hP gs (fun x hx => (hc x (hmem x (List.mem_cons_of_mem _ hx))).2) g
    (hc g (hmem g (by simp))).1 (hc g (hmem g (by simp))).2

/-! ### `hierarchyEk`, `polyAlphaMult` -/

theorem pb_hierarchyEk_rows {n : Nat} {P : Exp → Prop} (hP : pb_RowClosed n P) (alphas : List (List Exp))
    (h : ∀ l ∈ alphas, ∀ a ∈ l, P a) (k : Nat) : ∀ a ∈ hierarchyEk n alphas k, P a := by
  intro a ha
  unfold hierarchyEk at ha
  simp only [] at ha
  obtain ⟨t, ht, rfl⟩ := List.mem_map.1 ha
  refine pb_rows_powNat hP _ rfl ?_ k t ht
  apply pb_rows_mk hP.grid
  intro u hu
  obtain ⟨r, hr, rfl⟩ := List.mem_map.1 hu
  obtain ⟨l, hl, hrl⟩ := List.mem_flatten.1 ((mem_sortedKeys _ _).1 hr)
  exact h l hl r hrl

theorem pb_polyAlphaMult_rows (n : Nat) (alphas : List (List Exp))
    (h : ∀ l ∈ alphas, ∀ a ∈ l, pb_PolyRow n a) (p : Nat) :
    ∀ a ∈ polyAlphaMult n alphas p, pb_PolyRow n a := by
  intro a ha
  unfold polyAlphaMult at ha
  simp only [] at ha
  rcases List.mem_append.1 ((mem_sortedKeys _ _).1 ha) with ha | ha
  · obtain ⟨b, hb, rfl⟩ := List.mem_map.1 ha
    obtain ⟨h1, h2⟩ := pb_hierarchyEk_rows (pb_polyRow_closed n) alphas h p b hb
    exact ⟨by rw [List.length_map, h1], pb_isPolyExp_double h2⟩
  · exact pb_hierarchyEk_rows (pb_polyRow_closed n) alphas h p a ha

theorem pb_polyAlphaMult_nodup (n : Nat) (alphas : List (List Exp)) (p : Nat) :
    (polyAlphaMult n alphas p).Nodup := sortedKeys_nodup _

/-- for `k = 1` the hierarchy is the sorted list of the distinct input rows -/
theorem pb_hierarchyEk_one (n : Nat) (alphas : List (List Exp))
    (h : ∀ l ∈ alphas, ∀ a ∈ l, OnGrid a) : hierarchyEk n alphas 1 = sortedKeys alphas.flatten := by
  unfold hierarchyEk powNat
  simp only [List.range_zero, List.foldl_nil]
  have hg : ∀ t ∈ (sortedKeys alphas.flatten).map (fun r => (r, (1 : Rat))), OnGrid t.1 := by
    intro t ht
    obtain ⟨r, hr, rfl⟩ := List.mem_map.1 ht
    obtain ⟨l, hl, hrl⟩ := List.mem_flatten.1 ((mem_sortedKeys _ _).1 hr)
    exact h l hl r hrl
  have hnd : (keys ((sortedKeys alphas.flatten).map (fun r => (r, (1 : Rat))))).Nodup := by
    rw [keys_map_keyfun]
    exact sortedKeys_nodup _
  have e1 : (mk n ((sortedKeys alphas.flatten).map (fun r => (r, (1 : Rat))))).terms =
      (sortedKeys alphas.flatten).map (fun r => (r, (1 : Rat))) := Gen.mk_terms_of_wf hg hnd
  rw [Gen.mk_terms_of_wf (by rw [e1]; exact hg) (by rw [e1]; exact hnd), e1, keys_map_keyfun]

end Sageopt.Poly
