/-
Facts about `rowMatch`, `findRow`, `rowCorrespondence` on grid rows (C16 helper lemmas).
-/
import SageoptModel.Lemmas.SymCorrRound
import Mathlib.Data.List.Nodup

namespace Sageopt.SymCorr
open Sageopt.Sig

/-- the tolerance the code uses, `10^-(7+1)` (same term as `Props.C16.tol8`) -/
def scTol : Rat := 1 / (10 ^ (decimals + 1) : Nat)

theorem sc_tol_pos : (0 : Rat) < scTol := by
  unfold scTol decimals; norm_num

theorem sc_getD_lt {α : Type} (l : List α) (i : Nat) (d : α) (h : i < l.length) : l.getD i d = l[i] := by
  simp [List.getD_eq_getElem?_getD, h]

theorem sc_rowMatch_cons (tol : Rat) (a b : Rat) (as bs : Exp) :
    rowMatch tol (a :: as) (b :: bs) = (decide (absQ (b - a) < tol) && rowMatch tol as bs) := by
  simp [rowMatch]

theorem sc_rowMatch_self (tol : Rat) (htol : 0 < tol) (row : Exp) : rowMatch tol row row = true := by
  induction row with
  | nil => simp [rowMatch]
  | cons a as ih =>
    rw [sc_rowMatch_cons, ih]
    simp [absQ, htol]

theorem sc_rowMatch_iff (r1 r2 : Exp) (h1 : OnGrid r1) (h2 : OnGrid r2) (hl : r1.length = r2.length) :
    rowMatch scTol r1 r2 = true ↔ r1 = r2 := by
  constructor
  · intro h
    induction r1 generalizing r2 with
    | nil => cases r2 with
      | nil => rfl
      | cons _ _ => simp at hl
    | cons a as ih =>
      cases r2 with
      | nil => simp at hl
      | cons b bs =>
        rw [sc_rowMatch_cons, Bool.and_eq_true, decide_eq_true_eq] at h
        have hab : a = b := sc_grid_close_eq (h1 a (by simp)) (h2 b (by simp)) h.1
        have := ih bs (fun q hq => h1 q (by simp [hq])) (fun q hq => h2 q (by simp [hq]))
          (by simpa using hl) h.2
        rw [hab, this]
  · rintro rfl; exact sc_rowMatch_self _ sc_tol_pos _

/-- on grid rows, `findRow` finds the first exact occurrence -/
theorem sc_findRow_some (n : Nat) (row : Exp) (a2 : List Exp) (hr : OnGrid row ∧ row.length = n)
    (h2 : ∀ r ∈ a2, OnGrid r ∧ r.length = n) (loc : Nat) :
    findRow scTol row a2 = some loc ↔
      ∃ h : loc < a2.length, a2[loc] = row ∧ ∀ j (hj : j < loc), a2[j]'(by omega) ≠ row := by
  unfold findRow
  rw [List.findIdx?_eq_some_iff_getElem]
  constructor
  · rintro ⟨h, hm, hfirst⟩
    refine ⟨h, ?_, ?_⟩
    · have hg := h2 a2[loc] (List.getElem_mem h)
      exact ((sc_rowMatch_iff row a2[loc] hr.1 hg.1 (by rw [hr.2, hg.2])).mp hm).symm
    · intro j hj heq
      apply hfirst j hj
      rw [heq]; exact sc_rowMatch_self _ sc_tol_pos _
  · rintro ⟨h, hm, hfirst⟩
    refine ⟨h, ?_, ?_⟩
    · rw [hm]; exact sc_rowMatch_self _ sc_tol_pos _
    · intro j hj hmj
      have hg := h2 (a2[j]'(by omega)) (List.getElem_mem _)
      exact hfirst j hj ((sc_rowMatch_iff row _ hr.1 hg.1 (by rw [hr.2, hg.2])).mp hmj).symm

theorem sc_findRow_isSome_of_mem (row : Exp) (a2 : List Exp) (hm : row ∈ a2) :
    ∃ loc, findRow scTol row a2 = some loc := by
  cases h : findRow scTol row a2 with
  | some loc => exact ⟨loc, rfl⟩
  | none =>
    unfold findRow at h
    rw [List.findIdx?_eq_none_iff] at h
    have := h row hm
    rw [sc_rowMatch_self _ sc_tol_pos] at this
    cases this

/-- the (index in alpha1, index in alpha2) pairs `row_correspondence` builds -/
def scPairs (tol : Rat) (a1 a2 : List Exp) : List (Nat × Nat) :=
  a1.zipIdx.filterMap fun (row, i) => (findRow tol row a2).map fun loc => (i, loc)

theorem sc_rowCorrespondence_eq (tol : Rat) (a1 a2 : List Exp) :
    rowCorrespondence tol a1 a2 = ((scPairs tol a1 a2).map (·.1), (scPairs tol a1 a2).map (·.2)) := rfl

theorem sc_mem_pairs (tol : Rat) (a1 a2 : List Exp) (p : Nat × Nat) :
    p ∈ scPairs tol a1 a2 ↔ ∃ h : p.1 < a1.length, findRow tol a1[p.1] a2 = some p.2 := by
  unfold scPairs
  rw [List.mem_filterMap]
  constructor
  · rintro ⟨⟨row, i⟩, hmem, hf⟩
    rw [List.mem_zipIdx_iff_getElem?] at hmem
    simp only at hmem
    obtain ⟨hi, hrow⟩ := List.getElem?_eq_some_iff.mp hmem
    simp only [Option.map_eq_some_iff] at hf
    obtain ⟨loc, hloc, rfl⟩ := hf
    exact ⟨hi, by simp only; rw [hrow]; exact hloc⟩
  · rintro ⟨h, hf⟩
    refine ⟨(a1[p.1], p.1), ?_, ?_⟩
    · rw [List.mem_zipIdx_iff_getElem?]; simp [h]
    · simp [hf]

theorem sc_zip_pairs (l : List (Nat × Nat)) : (l.map (·.1)).zip (l.map (·.2)) = l := by
  rw [List.zip_map']; simp

end Sageopt.SymCorr
