/-
`linsolve` of `Model/GF2.lean`: soundness and completeness.  Core Lean only.
-/
import SageoptModel.Lemmas.GF2Back
set_option linter.unusedVariables false
set_option linter.unusedSimpArgs false

namespace Sageopt.GF2

/-- `A x = b (mod 2)`, rows of `A` paired with entries of `b` -/
def Solves (A : Mat) (b : Row) (x : Row) : Prop := ∀ p ∈ A.zip b, dotB p.1 x = p.2

instance (A : Mat) (b x : Row) : Decidable (Solves A b x) := by unfold Solves; infer_instance

/-- the augmented matrix `[A | b]` -/
def aug (A : Mat) (b : Row) : Mat := (A.zip b).map fun (r, bi) => r ++ [bi]

/-- `x` cut / zero-padded to length `n` -/
def fit (n : Nat) (x : Row) : Row := (List.range n).map (entry x)

@[simp] theorem length_fit (n : Nat) (x : Row) : (fit n x).length = n := by simp [fit]

theorem entry_fit (n : Nat) (x : Row) (j : Nat) :
    entry (fit n x) j = if j < n then entry x j else false := entry_map_range n _ j

theorem fit_eq_self {n : Nat} {x : Row} (h : x.length = n) : fit n x = x := by
  apply row_ext (by simp [h])
  intro j
  rw [entry_fit]
  by_cases hj : j < n
  · simp [hj]
  · simp [hj]; exact entry_of_length_le (r := x) (k := j) (by omega)

/-! ### more entry lemmas -/

theorem entry_take (a : Row) (m j : Nat) :
    entry (a.take m) j = if j < m then entry a j else false := by
  unfold entry
  by_cases h : j < m <;> simp [List.getD_eq_getElem?_getD, List.getElem?_take, h]

theorem entry_append (a b : Row) (j : Nat) :
    entry (a ++ b) j = if j < a.length then entry a j else entry b (j - a.length) := by
  unfold entry
  by_cases h : j < a.length <;> simp [List.getD_eq_getElem?_getD, List.getElem?_append, h]

theorem entry_set (y : Row) (c : Nat) (v : Bool) (j : Nat) :
    entry (y.set c v) j = if c = j ∧ c < y.length then v else entry y j := by
  unfold entry
  by_cases h : c = j
  · subst h
    by_cases h2 : c < y.length
    · simp [List.getD_eq_getElem?_getD, List.getElem?_set, h2]
    · have : y.length ≤ c := by omega
      simp [List.getD_eq_getElem?_getD, List.getElem?_set, h2, this]
  · simp [List.getD_eq_getElem?_getD, List.getElem?_set, h]

/-- `dotB a ·` only looks at the coordinates where `a` is 1 -/
theorem dotB_congr (a y y' : Row) (h : ∀ j, entry a j = true → entry y j = entry y' j) :
    dotB a y = dotB a y' := by
  rw [dotB_eq_xsum a y a.length (Nat.le_refl _), dotB_eq_xsum a y' a.length (Nat.le_refl _)]
  apply xsum_congr; intro j _
  cases ha : entry a j with
  | false => simp
  | true => simp [h j ha]

theorem dotB_fit (r x : Row) (n : Nat) (hr : r.length ≤ n) : dotB r (fit n x) = dotB r x := by
  apply dotB_congr
  intro j hj
  have := lt_length_of_entry hj
  rw [entry_fit]; simp [show j < n by omega]

theorem dotB_split (m : Nat) (a y : Row) :
    dotB a y = xor (dotB (a.take m) (y.take m)) (dotB (a.drop m) (y.drop m)) := by
  induction m generalizing a y with
  | zero => simp [dotB_nil_left]
  | succ m ih =>
    cases a with
    | nil => simp [dotB_nil_left]
    | cons a as =>
      cases y with
      | nil => simp [dotB_nil_right]
      | cons y ys =>
        simp only [List.take_succ_cons, List.drop_succ_cons, dotB]
        rw [ih as ys]
        cases (a && y) <;> cases dotB (as.take m) (ys.take m) <;>
          cases dotB (as.drop m) (ys.drop m) <;> rfl

/-- the augmented-column trick: `[r | β] · (x, 1) = r·x + β` -/
theorem dotB_aug (r x : Row) (n : Nat) (hr : r.length = n+1) (hx : x.length = n) :
    dotB r (x ++ [true]) = xor (dotB (r.take n) x) (entry r n) := by
  rw [dotB_eq_xsum r _ (n+1) (by omega), List.range_succ, xsum_append,
    dotB_eq_xsum (r.take n) x n (by simp; omega)]
  congr 1
  · apply xsum_congr
    intro j hj
    have hj' : j < n := by simpa using hj
    rw [entry_take, entry_append]; simp [hj', hx]
  · simp [entry_append, hx]

theorem wf_aug {n : Nat} {A : Mat} (b : Row) (hA : WF n A) : WF (n+1) (aug A b) := by
  intro r hr
  simp only [aug, List.mem_map] at hr
  obtain ⟨q, hq, rfl⟩ := hr
  have := hA q.1 (List.of_mem_zip hq).1
  simp [this]

theorem solves_iff_aug {n : Nat} {A : Mat} (b : Row) {x : Row} (hA : WF n A) (hx : x.length = n) :
    Solves A b x ↔ Sol (aug A b) (x ++ [true]) := by
  unfold Solves Sol aug
  simp only [List.mem_map, forall_exists_index, and_imp, forall_apply_eq_imp_iff₂]
  constructor
  · intro h q hq
    have hl := hA q.1 (List.of_mem_zip hq).1
    rw [dotB_aug _ x n (by simp [hl]) hx]
    have := h q hq
    simp [entry_append, hl, this]
  · intro h q hq
    have hl := hA q.1 (List.of_mem_zip hq).1
    have := h q hq
    rw [dotB_aug _ x n (by simp [hl]) hx] at this
    simp [entry_append, hl] at this
    cases h1 : dotB q.1 x <;> cases h2 : q.2 <;> simp_all

theorem solves_fit {n : Nat} {A : Mat} (b x : Row) (hA : WF n A) :
    Solves A b (fit n x) ↔ Solves A b x := by
  unfold Solves
  constructor
  · intro h q hq
    rw [← h q hq, dotB_fit _ _ _ (by rw [hA q.1 (List.of_mem_zip hq).1]; exact Nat.le_refl _)]
  · intro h q hq
    rw [← h q hq, dotB_fit _ _ _ (by rw [hA q.1 (List.of_mem_zip hq).1]; exact Nat.le_refl _)]

/-! ### sorted pivot lists -/

theorem sorted_length_le {p : List Nat} {k n : Nat} (hs : p.Pairwise (· < ·))
    (hb : ∀ c ∈ p, k ≤ c ∧ c < n) : p.length ≤ n - k := by
  induction p generalizing k with
  | nil => simp
  | cons c p ih =>
    simp only [List.pairwise_cons] at hs
    have hc := hb c (by simp)
    have := ih (k := c+1) hs.2 (fun c' hc' => by
      have h1 := hs.1 c' hc'
      have h2 := hb c' (by simp [hc'])
      omega)
    simp; omega

theorem sorted_lt_of_getLast {p : List Nat} {n : Nat} (hs : p.Pairwise (· < ·))
    (hb : ∀ c ∈ p, c < n+1) (hl : p.getLast? ≠ some n) : ∀ c ∈ p, c < n := by
  induction p with
  | nil => simp
  | cons c p ih =>
    cases p with
    | nil =>
      simp at hl
      intro c' hc'
      simp at hc'
      subst hc'
      have := hb c' (by simp)
      omega
    | cons c2 p =>
      rw [List.getLast?_cons_cons] at hl
      rw [List.pairwise_cons] at hs
      have h2 := ih hs.2 (fun c' hc' => hb c' (List.mem_cons_of_mem _ hc')) hl
      intro c' hc'
      simp only [List.mem_cons] at hc'
      rcases hc' with rfl | hc'
      · have := hs.1 c2 (by simp)
        have := h2 c2 (by simp)
        omega
      · exact h2 c' (by simpa using hc')

theorem ech_getLast {k : Nat} {R : List Row} {p : List Nat} {c : Nat} (h : Ech k R p)
    (hl : p.getLast? = some c) : ∃ r ∈ R, Lead r c := by
  induction R generalizing k p with
  | nil =>
    cases p with
    | nil => simp at hl
    | cons c p => simp [Ech] at h
  | cons r R ih =>
    cases p with
    | nil => simp at hl
    | cons c1 p =>
      simp only [Ech] at h
      obtain ⟨_, hlead, he⟩ := h
      cases p with
      | nil =>
        simp at hl
        subst hl
        exact ⟨r, by simp, hlead⟩
      | cons c2 p =>
        rw [List.getLast?_cons_cons] at hl
        obtain ⟨r', hr', hl'⟩ := ih he hl
        exact ⟨r', by simp [hr'], hl'⟩

theorem zip_take_of_le {α β} (n : Nat) (R : List α) (p : List β) (h : p.length ≤ n) :
    (R.take n).zip p = R.zip p := by
  induction n generalizing R p with
  | zero =>
    have : p = [] := by simpa using h
    subst this; simp
  | succ n ih =>
    cases R with
    | nil => simp
    | cons r R =>
      cases p with
      | nil => simp
      | cons c p => simp [ih R p (by simpa using h)]

/-! ### back-solve -/

/-- one step of `backSolve` -/
def bstep (n : Nat) (q : Row × Nat) (x : Row) : Row :=
  setBit x q.2 (xor (entry q.1 n) (dotB ((q.1.take n).drop (q.2+1)) (x.drop (q.2+1))))

theorem backSolve_eq_foldl (n : Nat) (l : List (Row × Nat)) (x : Row) :
    backSolve n l x = l.foldl (fun x q => bstep n q x) x := by
  induction l generalizing x with
  | nil => rfl
  | cons q l ih =>
    obtain ⟨r, pc⟩ := q
    simp only [backSolve, List.foldl_cons, ih]
    rfl

theorem backSolve_reverse (n : Nat) (l : List (Row × Nat)) (x : Row) :
    backSolve n l.reverse x = l.foldr (bstep n) x := by
  rw [backSolve_eq_foldl, List.foldl_reverse]

theorem dotB_take_lead (a y : Row) (c : Nat) (h : ∀ j, j < c → entry a j = false) :
    dotB (a.take (c+1)) (y.take (c+1)) = (entry a c && entry y c) := by
  rw [dotB_single _ _ c]
  · simp [entry_take]
  · intro j hj
    rw [entry_take]
    by_cases hjc : j < c
    · simp [h j hjc]
    · simp [show ¬ j < c + 1 by omega]

theorem backsolve_ech {n k : Nat} {R : List Row} {p : List Nat} {x0 : Row} (he : Ech k R p)
    (hp : ∀ c ∈ p, c < n) (hx : x0.length = n) :
    ((R.zip p).foldr (bstep n) x0).length = n ∧
      ∀ r ∈ R, dotB (r.take n) ((R.zip p).foldr (bstep n) x0) = entry r n := by
  induction R generalizing k p with
  | nil => simp [hx]
  | cons r R ih =>
    cases p with
    | nil =>
      simp only [Ech] at he
      refine ⟨by simpa using hx, ?_⟩
      intro r' hr'
      rw [he r' hr' n]
      apply dotB_zero_left
      intro j; rw [entry_take]; simp [he r' hr' j]
    | cons c p =>
      simp only [Ech] at he
      obtain ⟨_, hlead, he'⟩ := he
      have hcn : c < n := hp c (by simp)
      obtain ⟨hlen, hrows⟩ := ih he' (fun c' hc' => hp c' (by simp [hc']))
      simp only [List.zip_cons_cons, List.foldr_cons]
      generalize (R.zip p).foldr (bstep n) x0 = x' at hlen hrows
      have hz := ech_zeroBelow he'
      refine ⟨by simp [bstep, setBit, hlen], ?_⟩
      intro r' hr'
      simp only [List.mem_cons] at hr'
      rcases hr' with rfl | hr'
      · rw [dotB_split (c+1)]
        simp only [bstep, setBit]
        rw [List.drop_set_of_lt (by omega), dotB_take_lead _ _ c
          (fun j hj => by rw [entry_take]; simp [hlead.2 j hj])]
        rw [entry_take, entry_set]
        simp only [hcn, if_true, hlead.1, hlen, and_self, Bool.true_and]
        cases entry r' n <;> cases dotB ((r'.take n).drop (c+1)) (x'.drop (c+1)) <;> rfl
      · rw [← hrows r' hr']
        apply dotB_congr
        intro j hj
        rw [entry_take] at hj
        have hjc : c ≠ j := by
          intro hcj; subst hcj
          rw [hz r' hr' c (by omega)] at hj
          simp at hj
        simp only [bstep, setBit]
        rw [entry_set]; simp [hjc]

/-! ### `linsolve` -/

theorem linsolve_eq (n : Nat) (A : Mat) (b : Row) :
    linsolve n A b =
      if (fwd (n+1) 0 (aug A b) [] []).2.getLast? = some n then none
      else some (backSolve n ((((fwd (n+1) 0 (aug A b) [] []).1.take n).zip
        (fwd (n+1) 0 (aug A b) [] []).2).reverse) (List.replicate n false)) := by
  rfl

theorem linsolve_sound' (n : Nat) (A : Mat) (b x : Row) (hA : WF n A)
    (h : linsolve n A b = some x) : x.length = n ∧ Solves A b x := by
  rw [linsolve_eq] at h
  obtain ⟨he, hwf, _⟩ := fwd_ech (n+1) (n+1) 0 (aug A b) (by omega) (wf_aug b hA)
    (by intro r _ j hj; omega)
  obtain ⟨hs, hb⟩ := fwd_pivots (n+1) 0 (aug A b)
  generalize hF : fwd (n+1) 0 (aug A b) [] [] = F at h he hwf hs hb
  by_cases hl : F.2.getLast? = some n
  · simp [hl] at h
  · simp only [hl, if_false, Option.some.injEq] at h
    have hlt := sorted_lt_of_getLast hs (fun c hc => by have := hb c hc; omega) hl
    have hlen : F.2.length ≤ n := by
      have := sorted_length_le (k := 0) hs (fun c hc => ⟨by omega, hlt c hc⟩)
      omega
    rw [zip_take_of_le n _ _ hlen, backSolve_reverse] at h
    obtain ⟨h1, h2⟩ := backsolve_ech (x0 := List.replicate n false) he hlt (by simp)
    rw [h] at h1 h2
    refine ⟨h1, ?_⟩
    rw [solves_iff_aug b hA h1]
    have hsol := fwd_sol (n+1) 0 (aug A b) [] [] (x ++ [true])
    rw [hF] at hsol
    apply (hsol.mp ?_).2
    intro r hr
    rw [dotB_aug r x n (hwf r hr) h1, h2 r hr]
    cases entry r n <;> rfl

theorem linsolve_complete' (n : Nat) (A : Mat) (b : Row) (hA : WF n A)
    (h : linsolve n A b = none) (x : Row) : ¬ Solves A b x := by
  rw [linsolve_eq] at h
  obtain ⟨he, hwf, _⟩ := fwd_ech (n+1) (n+1) 0 (aug A b) (by omega) (wf_aug b hA)
    (by intro r _ j hj; omega)
  by_cases hl : (fwd (n+1) 0 (aug A b) [] []).2.getLast? = some n
  · intro hsolves
    obtain ⟨r, hr, hlead⟩ := ech_getLast he hl
    rw [← solves_fit b x hA, solves_iff_aug b hA (length_fit n x)] at hsolves
    have hsol := (fwd_sol (n+1) 0 (aug A b) [] [] (fit n x ++ [true])).mpr
      ⟨by intro r hr; simp at hr, hsolves⟩
    have := hsol r hr
    rw [dotB_aug r _ n (hwf r hr) (length_fit n x), hlead.1, dotB_zero_left] at this
    · simp at this
    · intro j; rw [entry_take]
      by_cases hj : j < n
      · simp [hj, hlead.2 j hj]
      · simp [hj]
  · simp [hl] at h

end Sageopt.GF2
