/-
C15 helper lemmas, part 6: the column reordering of a compiled system (`reorderCols`): a reordered row applied
to `(x, aux)` is the original row applied to the assignment `σ` that reads `x_i` in column `selector[i]` and
`aux_k` in column `used + k`.
-/
import SageoptModel.Lemmas.DomainSem
import Mathlib.Data.List.Perm.Subperm
import Mathlib.Tactic.Ring

namespace Sageopt.Domain
open Sageopt

theorem dm_perm_range (K : List Nat) (n : Nat) (hnd : K.Nodup) (hlt : ∀ k ∈ K, k < n) (hlen : K.length = n) :
    K.Perm (List.range n) := by
  apply List.Subperm.perm_of_length_le
  · apply List.subperm_of_subset hnd
    intro k hk
    exact List.mem_range.2 (hlt k hk)
  · simp [hlen]

/-- a `zipWith` sum as a sum over positions -/
theorem dm_zipWith_sum_range (l : List Rat) (a : List ℝ) (h : l.length = a.length) :
    (List.zipWith (fun (q : Rat) (t : ℝ) => (q : ℝ) * t) l a).sum =
      ((List.range l.length).map fun k => ((l.getD k 0 : Rat) : ℝ) * a.getD k 0).sum := by
  induction l generalizing a with
  | nil => simp
  | cons q l ih =>
    cases a with
    | nil => simp at h
    | cons t a =>
      rw [List.zipWith_cons_cons, List.sum_cons, ih a (by simpa using h), List.length_cons,
        List.range_succ_eq_map, List.map_cons, List.sum_cons, List.map_map]
      simp [Function.comp_def]

/-- the `x` block of a reordered row: absent components (`-1`) contribute nothing -/
theorem dm_zipWith_sel (f : Int → Rat) (hf : f (-1) = 0) (selector : List Int) (x : List ℝ) :
    (List.zipWith (fun (q : Rat) (t : ℝ) => (q : ℝ) * t) (selector.map f) x).sum =
      (((selector.zip x).filter fun p => p.1 != -1).map fun p => ((f p.1 : Rat) : ℝ) * p.2).sum := by
  induction selector generalizing x with
  | nil => simp
  | cons s sel ih =>
    cases x with
    | nil => simp
    | cons t x =>
      rw [List.map_cons, List.zipWith_cons_cons, List.sum_cons, ih x, List.zip_cons_cons, List.filter_cons]
      by_cases hs : s = -1
      · subst hs
        simp [hf]
      · have : ((s, t).1 != -1) = true := by simpa using hs
        rw [if_pos this, List.map_cons, List.sum_cons]

theorem dm_keys_zip (selector : List Int) (x : List ℝ) (hx : x.length = selector.length) :
    ((selector.zip x).filter fun p => p.1 != -1).map (fun p => p.1.toNat) =
      (selector.filter (· != -1)).map Int.toNat := by
  induction selector generalizing x with
  | nil => simp
  | cons s sel ih =>
    cases x with
    | nil => simp at hx
    | cons t x =>
      rw [List.zip_cons_cons, List.filter_cons, List.filter_cons]
      by_cases hs : s = -1
      · subst hs
        simpa using ih x (by simpa using hx)
      · have h1 : ((s, t).1 != -1) = true := by simpa using hs
        have h2 : (s != -1) = true := by simpa using hs
        rw [if_pos h1, if_pos h2, List.map_cons, List.map_cons, ih x (by simpa using hx)]

theorem dm_mem_zip_fst {selector : List Int} {x : List ℝ} {p : Int × ℝ} (h : p ∈ selector.zip x) :
    p.1 ∈ selector := (List.of_mem_zip (a := p.1) (b := p.2) h).1

/-- the lookup in the statement's `σ` finds the pair of the column -/
theorem dm_find_spec (selector : List Int) (x : List ℝ) (hx : x.length = selector.length)
    (hsel : ∀ s ∈ selector, s = -1 ∨ (0 ≤ s ∧ s.toNat < (selector.filter (· != -1)).length))
    (hinj : ((selector.filter (· != -1)).map Int.toNat).Nodup)
    (p : Int × ℝ) (hp : p ∈ (selector.zip x).filter fun p => p.1 != -1) :
    p.1.toNat < (selector.filter (· != -1)).length ∧
    (selector.zip x).find? (fun q => q.1 == (p.1.toNat : Int)) = some p := by
  obtain ⟨hpz, hp1⟩ := List.mem_filter.1 hp
  have hp1' : p.1 ≠ -1 := by simpa using hp1
  have hps := hsel p.1 (dm_mem_zip_fst hpz)
  have hp0 : 0 ≤ p.1 ∧ p.1.toNat < (selector.filter (· != -1)).length := by
    rcases hps with h | h
    · exact absurd h hp1'
    · exact h
  refine ⟨hp0.2, ?_⟩
  rw [Int.toNat_of_nonneg hp0.1]
  have hnd : (((selector.zip x).filter fun p => p.1 != -1).map (fun p => p.1.toNat)).Nodup := by
    rw [dm_keys_zip selector x hx]; exact hinj
  cases hf : (selector.zip x).find? (fun q => q.1 == p.1) with
  | none =>
    have := List.find?_eq_none.1 hf p hpz
    simp at this
  | some q =>
    have hq1 : q.1 = p.1 := by simpa using List.find?_some hf
    have hqz : q ∈ selector.zip x := List.mem_of_find?_eq_some hf
    have hqf : q ∈ (selector.zip x).filter fun p => p.1 != -1 :=
      List.mem_filter.2 ⟨hqz, by rw [hq1]; exact hp1⟩
    have := List.inj_on_of_nodup_map hnd hqf hp (by simp only [hq1])
    rw [this]

/-- the reordered row applied to `(x, aux)` -/
theorem dm_reorder_sum (row : List Rat) (ncols : Nat) (hrow : row.length = ncols) (selector : List Int)
    (hsel : ∀ s ∈ selector, s = -1 ∨ (0 ≤ s ∧ s.toNat < (selector.filter (· != -1)).length))
    (hinj : ((selector.filter (· != -1)).map Int.toNat).Nodup)
    (hused : (selector.filter (· != -1)).length ≤ ncols)
    (x aux : List ℝ) (hx : x.length = selector.length)
    (haux : aux.length = ncols - (selector.filter (· != -1)).length) (σ : Nat → ℝ)
    (hσ1 : ∀ p ∈ (selector.zip x).filter (fun p => p.1 != -1), σ p.1.toNat = p.2)
    (hσ2 : ∀ k, σ ((selector.filter (· != -1)).length + k) = aux.getD k 0) :
    (List.zipWith (fun (q : Rat) (t : ℝ) => (q : ℝ) * t) ((reorderCols [row] ncols selector).headD [])
        (x ++ aux)).sum
      = ((List.range ncols).map fun col => ((row.getD col 0 : Rat) : ℝ) * σ col).sum := by
  generalize hu : (selector.filter (· != -1)).length = used at *
  have hrc : (reorderCols [row] ncols selector).headD [] =
      (selector.map fun s => if s == -1 then (0 : Rat) else row.getD s.toNat 0) ++ row.drop used := by
    simp only [reorderCols, List.map_cons, List.map_nil, List.headD_cons, hu, Nat.sub_sub_self hused]
  rw [hrc, List.zipWith_append (by simp [hx]), List.sum_append]
  have hn : ncols = used + (ncols - used) := by omega
  conv_rhs => rw [hn, List.range_add, List.map_append, List.sum_append, List.map_map]
  congr 1
  · -- the `x` block
    rw [dm_zipWith_sel _ (by simp) selector x]
    have hK : (((selector.zip x).filter fun p => p.1 != -1).map (fun p => p.1.toNat)).Perm (List.range used) := by
      apply dm_perm_range
      · rw [dm_keys_zip selector x hx]; exact hinj
      · intro k hk
        obtain ⟨p, hp, rfl⟩ := List.mem_map.1 hk
        have hp' := (List.mem_filter.1 hp)
        have hp1 : p.1 ≠ -1 := by simpa using hp'.2
        rcases hsel p.1 (dm_mem_zip_fst hp'.1) with h | h
        · exact absurd h hp1
        · exact h.2
      · rw [dm_keys_zip selector x hx, List.length_map, hu]
    have := (hK.map fun col => ((row.getD col 0 : Rat) : ℝ) * σ col).sum_eq
    rw [← this, List.map_map]
    congr 1
    apply List.map_congr_left
    intro p hp
    have hp1 : p.1 ≠ -1 := by simpa using (List.mem_filter.1 hp).2
    simp only [Function.comp_def, hσ1 p hp]
    have : (p.1 == -1) = false := by simpa using hp1
    rw [this]
    simp
  · -- the auxiliary block
    have hl : (row.drop used).length = aux.length := by
      rw [List.length_drop, hrow, haux]
    rw [dm_zipWith_sum_range _ _ hl, hl, haux]
    apply congrArg
    apply List.map_congr_left
    intro k _
    simp only [Function.comp_def, hσ2 k]
    congr 2
    simp [List.getD_eq_getElem?_getD, List.getElem?_drop]

end Sageopt.Domain
