/-
Helper lemmas for C04 (the Lagrangian identity), part 1: `combsWithRep`, `hierarchyEk`, `varSig`,
`embed`, and evaluation of a coefficientwise sum.
-/
import SageoptModel.Model.Relax
import SageoptModel.Props.C13

namespace Sageopt.Relax
open Sageopt Sageopt.Sig Sageopt.Props.C13

/-! ### combsWithRep -/

theorem lg_combsWithRep_spec {α : Type} (k : Nat) (xs : List α) :
    ∀ comb ∈ combsWithRep k xs, comb.length = k ∧ ∀ g ∈ comb, g ∈ xs := by
  induction k, xs using combsWithRep.induct with
  | case1 xs =>
    intro comb hc
    simp only [combsWithRep, List.mem_singleton] at hc
    subst hc
    simp
  | case2 k =>
    intro comb hc
    simp [combsWithRep] at hc
  | case3 k x xs ih1 ih2 =>
    intro comb hc
    simp only [combsWithRep, List.mem_append, List.mem_map] at hc
    rcases hc with ⟨c, hc, rfl⟩ | hc
    · obtain ⟨h1, h2⟩ := ih1 c hc
      refine ⟨by simp [h1], ?_⟩
      intro g hg
      rcases List.mem_cons.1 hg with rfl | hg
      · simp
      · exact h2 g hg
    · obtain ⟨h1, h2⟩ := ih2 comb hc
      exact ⟨h1, fun g hg => List.mem_cons_of_mem _ (h2 g hg)⟩

/-! ### the constant character, `powNat` keeps the number of variables -/

theorem lg_oneChar (n : Nat) : IsChar n (fun _ : Exp => (1 : Rat)) := ⟨rfl, fun _ _ _ _ => by simp⟩

theorem lg_powLoop_n (f : SigQ) (k : Nat) (s : SigQ) :
    ((List.range k).foldl (fun s _ => withoutZeros isZeroQ (product s f)) s).n = s.n := by
  induction k generalizing s with
  | zero => simp
  | succ k ih =>
    rw [List.range_succ_eq_map, List.foldl_cons, List.foldl_map, ih, withoutZeros_n, product_n]

theorem lg_powNat_n (f : SigQ) (k : Nat) : (powNat isZeroQ f k).n = f.n := by
  cases k with
  | zero => rfl
  | succ k =>
    unfold powNat
    simp only []
    rw [lg_powLoop_n]
    rfl

/-! ### hierarchyEk -/

theorem lg_hierarchyEk_wf (n : Nat) (alphas : List (List Exp))
    (hw : ∀ a ∈ alphas, ∀ r ∈ a, r.length = n ∧ OnGrid r) (k : Nat) :
    (hierarchyEk n alphas k).Nodup ∧ ∀ r ∈ hierarchyEk n alphas k, r.length = n ∧ OnGrid r := by
  unfold hierarchyEk
  simp only []
  have hs : Wf (mk n ((sortedKeys alphas.flatten).map fun r => (r, (1 : Rat)))) := by
    apply mk_wf'
    intro t ht
    obtain ⟨r, hr, rfl⟩ := List.mem_map.1 ht
    obtain ⟨a, ha, hra⟩ := List.mem_flatten.1 ((mem_sortedKeys _ _).1 hr)
    exact (hw a ha r hra).1
  obtain ⟨hp, _⟩ := powNat_spec isZeroQ isZeroQ_iff n (fun _ => (1 : Rat)) (lg_oneChar n) _ hs rfl k
  refine ⟨hp.nodup, ?_⟩
  intro r hr
  obtain ⟨t, ht, rfl⟩ := List.mem_map.1 hr
  refine ⟨?_, hp.grid t ht⟩
  rw [hp.width t ht, lg_powNat_n]
  rfl

/-! ### embed -/

theorem lg_embed_n (f : SigQ) : (embed f).n = f.n := rfl

theorem lg_keys_embed (f : SigQ) : keys (embed f).terms = keys f.terms := by
  simp [embed, keys, List.map_map, Function.comp_def]

theorem lg_embed_wf (f : SigQ) (hf : Wf f) : Wf (embed f) := by
  refine ⟨?_, ?_, ?_⟩
  · intro t ht
    obtain ⟨u, hu, rfl⟩ := List.mem_map.1 ht
    exact hf.width u hu
  · intro t ht
    obtain ⟨u, hu, rfl⟩ := List.mem_map.1 ht
    exact hf.grid u hu
  · rw [lg_keys_embed]
    exact hf.nodup

theorem lg_mapσ_embed (σ : Nat → Rat) (f : SigQ) : mapσ σ (embed f) = f := by
  cases f with
  | mk n ts =>
    simp only [mapσ, embed, List.map_map, Function.comp_def, Lin.value_const]
    simp

theorem lg_embed_const (f : SigQ) : ∀ t ∈ (embed f).terms, t.2.isConstant = true := by
  intro t ht
  obtain ⟨u, hu, rfl⟩ := List.mem_map.1 ht
  rfl

/-! ### varSig -/

theorem lg_value_var (σ : Nat → Rat) (i : Nat) : Lin.value σ (Lin.var i) = σ i := by
  simp [Lin.value, Lin.var]

theorem lg_varSig_n (n : Nat) (alpha : List Exp) (ids : List Nat) : (varSig n alpha ids).n = n := rfl

theorem lg_varSig_wf (n : Nat) (alpha : List Exp) (hw : ∀ r ∈ alpha, r.length = n) (ids : List Nat) :
    Wf (varSig n alpha ids) := by
  unfold varSig
  apply Gen.mk_wf
  intro t ht
  exact hw _ (List.of_mem_zip ht).1

theorem lg_eval_zip (χ : Exp → Rat) (σ : Nat → Rat) (alpha : List Exp) (ids : List Nat) :
    eval χ ((alpha.zip (ids.map Lin.var)).map fun t => (t.1, Lin.value σ t.2)) =
      (List.zipWith (fun id a => σ id * χ a) ids alpha).sum := by
  induction alpha generalizing ids with
  | nil => cases ids <;> simp
  | cons a alpha ih =>
    cases ids with
    | nil => simp
    | cons i ids =>
      simp only [List.map_cons, List.zip_cons_cons, List.zipWith_cons_cons, List.sum_cons, eval_cons,
        ih ids, lg_value_var]

theorem lg_varSig_eval (n : Nat) (alphaHat : List Exp) (hnd : alphaHat.Nodup)
    (hgrid : ∀ r ∈ alphaHat, OnGrid r) (ids : List Nat) (hl : ids.length = alphaHat.length)
    (χ : Exp → Rat) (σ : Nat → Rat) :
    eval χ (mapσ σ (varSig n alphaHat ids)).terms =
      (List.zipWith (fun id a => σ id * χ a) ids alphaHat).sum := by
  have hk : keys (alphaHat.zip (ids.map Lin.var)) = alphaHat := by
    unfold keys
    rw [List.map_fst_zip]
    simp [hl]
  have ht : (varSig n alphaHat ids).terms = alphaHat.zip (ids.map Lin.var) := by
    unfold varSig
    apply Gen.mk_terms_of_wf
    · intro t ht
      exact hgrid _ (List.of_mem_zip ht).1
    · rw [hk]; exact hnd
  unfold mapσ
  simp only [ht]
  exact lg_eval_zip χ σ alphaHat ids

/-! ### evaluation of a coefficientwise sum -/

theorem lg_eval_flatMap {ι : Type} (χ : Exp → Rat) (l : List ι) (F : ι → List (Exp × Rat)) :
    eval χ (l.flatMap F) = (l.map fun x => eval χ (F x)).sum := by
  induction l with
  | nil => rfl
  | cons x l ih => rw [List.flatMap_cons, eval_append, ih, List.map_cons, List.sum_cons]

theorem lg_eval_sum_of_coeff {ι : Type} (χ : Exp → Rat) (hs : List (Exp × Rat)) (l : List ι)
    (F : ι → List (Exp × Rat)) (h : ∀ a, coeff hs a = (l.map fun x => coeff (F x) a).sum) :
    eval χ hs = (l.map fun x => eval χ (F x)).sum := by
  rw [← lg_eval_flatMap]
  apply eval_congr_coeff
  intro a
  rw [h a, coeff_flatMap]

theorem lg_eval_neg_of_coeff (χ : Exp → Rat) (ts us : List (Exp × Rat))
    (h : ∀ a, coeff ts a = - coeff us a) : eval χ ts = - eval χ us := by
  have h0 : eval χ ([] : List (Exp × Rat)) = eval χ ts + eval χ us :=
    eval_add_of_coeff χ (fun a => by rw [h a]; simp)
  rw [eval_nil] at h0
  linarith

end Sageopt.Relax
