/-
Real evaluation of rational-coefficient signomials (C03 helper lemmas): the character
`a ↦ exp (a·x)` of the exponent monoid, the coefficient embedding `ℚ → ℝ` as an additive map in the
sense of `Lemmas/SigMapHom.lean`, and the calculus of `eval (rs_chi x) (mapT rs_cast ·)` over
`withoutZeros`, `mk`, `product`, `powNat`.  Plus: the coefficient function of a product is additive in
the coefficient function of its left factor.
-/
import SageoptModel.Props.C13
import SageoptModel.Props.C16
import SageoptModel.Lemmas.SageSem

namespace Sageopt.RelaxSig
open Sageopt Sageopt.Sig Sageopt.Sig.Hom Sageopt.Sage

noncomputable section

/-- the character `a ↦ exp (a·x)` -/
def rs_chi (x : List ℝ) : Exp → ℝ := fun a => Real.exp (rdot a x)

/-- the coefficient embedding `ℚ → ℝ` -/
def rs_cast : Rat → ℝ := fun q => (q : ℝ)

theorem rs_cast_isAddHom : IsAddHom rs_cast :=
  ⟨by simp [rs_cast], fun x y => by simp [rs_cast]⟩

theorem rs_cast_mul (p q : Rat) : rs_cast (p * q) = rs_cast p * rs_cast q := by simp [rs_cast]

theorem rs_cast_isZeroQ : ∀ c, isZeroQ c = true → rs_cast c = 0 := by
  intro c h
  rw [(isZeroQ_iff c).1 h]
  simp [rs_cast]

/-! ### the character -/

theorem rs_rdot_addExp (a b : Exp) (x : List ℝ) (h : a.length = b.length) :
    rdot (addExp a b) x = rdot a x + rdot b x := by
  induction a generalizing b x with
  | nil =>
    cases b with
    | nil => simp [rdot, addExp]
    | cons q b => simp at h
  | cons p a ih =>
    cases b with
    | nil => simp at h
    | cons q b =>
      cases x with
      | nil => simp [rdot, addExp]
      | cons y x =>
        have h' := ih b x (by simpa using h)
        simp only [rdot, addExp, List.zipWith_cons_cons, List.sum_cons] at h' ⊢
        rw [h']
        push_cast
        ring

theorem rs_rdot_zeroExp (n : Nat) (x : List ℝ) : rdot (zeroExp n) x = 0 := by
  induction n generalizing x with
  | zero => simp [rdot, zeroExp]
  | succ n ih =>
    cases x with
    | nil => simp [rdot, zeroExp]
    | cons y x =>
      have h' := ih x
      simp only [rdot, zeroExp, List.replicate_succ, List.zipWith_cons_cons, List.sum_cons] at h' ⊢
      rw [h']
      simp

theorem rs_chi_isChar (n : Nat) (x : List ℝ) : IsChar n (rs_chi x) := by
  refine ⟨?_, ?_⟩
  · simp [rs_chi, rs_rdot_zeroExp]
  · intro a b ha hb
    simp only [rs_chi]
    rw [rs_rdot_addExp a b x (by rw [ha, hb]), Real.exp_add]

theorem rs_chi_pos (x : List ℝ) (a : Exp) : 0 < rs_chi x a := Real.exp_pos _

/-! ### coefficient functions under the embedding -/

theorem rs_coeff_cast (ts : List (Exp × Rat)) (a : Exp) :
    coeff (mapT rs_cast ts) a = rs_cast (coeff ts a) := by
  induction ts with
  | nil => simp [coeff, rs_cast]
  | cons t ts ih =>
    rw [mapT_cons, coeff_cons, coeff_cons, ih]
    by_cases h : t.1 = a <;> simp [rs_cast, h]

/-- evaluation is linear in the coefficient function -/
theorem rs_eval_lin {C : Type} [CommRing C] (χ : Exp → C) {X P T : List (Exp × C)} (γ : C)
    (h : ∀ a, coeff X a = coeff P a - γ * coeff T a) : eval χ X = eval χ P - γ * eval χ T := by
  classical
  have hX : ∀ t ∈ X, t.1 ∈ (keys X ++ keys P ++ keys T).toFinset := by
    intro t ht
    simp only [List.mem_toFinset, List.mem_append, keys, List.mem_map]
    exact Or.inl (Or.inl ⟨t, ht, rfl⟩)
  have hP : ∀ t ∈ P, t.1 ∈ (keys X ++ keys P ++ keys T).toFinset := by
    intro t ht
    simp only [List.mem_toFinset, List.mem_append, keys, List.mem_map]
    exact Or.inl (Or.inr ⟨t, ht, rfl⟩)
  have hT : ∀ t ∈ T, t.1 ∈ (keys X ++ keys P ++ keys T).toFinset := by
    intro t ht
    simp only [List.mem_toFinset, List.mem_append, keys, List.mem_map]
    exact Or.inr ⟨t, ht, rfl⟩
  rw [eval_eq_finset_sum χ X _ hX, eval_eq_finset_sum χ P _ hP, eval_eq_finset_sum χ T _ hT,
    Finset.mul_sum, ← Finset.sum_sub_distrib]
  apply Finset.sum_congr rfl
  intro a _
  rw [h a]
  ring

/-! ### real evaluation through the model operations -/

theorem rs_eval_withoutZeros (x : List ℝ) (f : SigT Rat) (hf : Wf f) :
    eval (rs_chi x) (mapT rs_cast (withoutZeros isZeroQ f).terms) = eval (rs_chi x) (mapT rs_cast f.terms) :=
  eval_congr_coeff _ (coeff_mapT_withoutZeros rs_cast_isAddHom isZeroQ rs_cast_isZeroQ f hf)

theorem rs_eval_product (x : List ℝ) (n : Nat) (f g : SigT Rat) (hf : Wf f) (hg : Wf g)
    (hfn : f.n = n) (hgn : g.n = n) :
    eval (rs_chi x) (mapT rs_cast (product f g).terms) =
      eval (rs_chi x) (mapT rs_cast f.terms) * eval (rs_chi x) (mapT rs_cast g.terms) :=
  eval_mapT_product rs_cast_isAddHom n (rs_chi x) (rs_chi_isChar n x) f g hf hg hfn hgn
    (fun _ _ _ _ => rs_cast_mul _ _)

theorem rs_eval_prodTerms (x : List ℝ) (n : Nat) (ts us : List (Exp × Rat))
    (hw : ∀ t ∈ ts, t.1.length = n) (hu : ∀ t ∈ us, t.1.length = n) :
    eval (rs_chi x) (mapT rs_cast (prodTerms ts us)) =
      eval (rs_chi x) (mapT rs_cast ts) * eval (rs_chi x) (mapT rs_cast us) := by
  have h1 : mapT rs_cast (prodTerms ts us) = prodTerms (mapT rs_cast ts) (mapT rs_cast us) :=
    mapT_prodTerms (φ := rs_cast) ts us (fun t1 _ t2 _ => rs_cast_mul _ _)
  rw [h1]
  apply eval_prodTerms (rs_chi x) n (rs_chi_isChar n x)
  · intro u hu'
    obtain ⟨t, ht, rfl⟩ := (mem_mapT rs_cast).1 hu'
    exact hw t ht
  · intro u hu'
    obtain ⟨t, ht, rfl⟩ := (mem_mapT rs_cast).1 hu'
    exact hu t ht

theorem rs_one_isChar (n : Nat) : IsChar n (fun _ => (1 : Rat)) := ⟨rfl, fun _ _ _ _ => by simp⟩

theorem rs_powLoop (x : List ℝ) (n : Nat) (f : SigT Rat) (hf : Wf f) (hfn : f.n = n) (k : Nat)
    (s : SigT Rat) (hs : Wf s) (hsn : s.n = n) :
    eval (rs_chi x) (mapT rs_cast ((List.range k).foldl (fun s _ => withoutZeros isZeroQ (product s f)) s).terms) =
      eval (rs_chi x) (mapT rs_cast s.terms) * (eval (rs_chi x) (mapT rs_cast f.terms)) ^ k := by
  induction k generalizing s with
  | zero => simp
  | succ k ih =>
    rw [List.range_succ_eq_map, List.foldl_cons, List.foldl_map]
    have hp : Wf (product s f) := product_wf s f hs hf (by rw [hsn, hfn])
    have hs' : Wf (withoutZeros isZeroQ (product s f)) := withoutZeros_wf' isZeroQ _ hp
    have hsn' : (withoutZeros isZeroQ (product s f)).n = n := by
      rw [withoutZeros_n]; exact hsn
    rw [ih _ hs' hsn', rs_eval_withoutZeros x _ hp, rs_eval_product x n s f hs hf hsn hfn]
    ring

theorem rs_powLoop_n (n : Nat) (f : SigT Rat) (k : Nat) (s : SigT Rat) (hsn : s.n = n) :
    ((List.range k).foldl (fun s _ => withoutZeros isZeroQ (product s f)) s).n = n := by
  induction k generalizing s with
  | zero => simpa using hsn
  | succ k ih =>
    rw [List.range_succ_eq_map, List.foldl_cons, List.foldl_map]
    apply ih
    rw [withoutZeros_n]; exact hsn

/-- the number of variables of a power, with no well-formedness assumption -/
theorem rs_powNat_n (f : SigT Rat) (k : Nat) : (powNat isZeroQ f k).n = f.n := by
  cases k with
  | zero => rfl
  | succ k =>
    unfold powNat
    exact rs_powLoop_n f.n f k _ rfl

theorem rs_powNat (x : List ℝ) (n : Nat) (f : SigT Rat) (hf : Wf f) (hfn : f.n = n) (k : Nat) :
    Wf (powNat isZeroQ f k) ∧ (powNat isZeroQ f k).n = n ∧
    eval (rs_chi x) (mapT rs_cast (powNat isZeroQ f k).terms) =
      (eval (rs_chi x) (mapT rs_cast f.terms)) ^ k := by
  refine ⟨(powNat_spec isZeroQ isZeroQ_iff n _ (rs_one_isChar n) f hf hfn k).1, ?_, ?_⟩
  · cases k with
    | zero => unfold powNat; exact hfn
    | succ k =>
      unfold powNat
      simp only []
      rw [mk_id' f hf]
      exact rs_powLoop_n n f k f hfn
  · cases k with
    | zero =>
      unfold powNat
      rw [const_terms, mapT_cons, mapT_nil, eval_cons, hfn, (rs_chi_isChar n x).zero]
      simp [rs_cast, eval]
    | succ k =>
      unfold powNat
      simp only []
      rw [mk_id' f hf, rs_powLoop x n f hf hfn k f hf hfn]
      ring

theorem rs_eval_mk (x : List ℝ) (n : Nat) (ts : List (Exp × Rat)) :
    eval (rs_chi x) (mapT rs_cast (mk n ts).terms) = eval (rs_chi x) (rounded (mapT rs_cast ts)) := by
  rw [eval_congr_coeff _ (coeff_mapT_mk rs_cast_isAddHom n ts), mk_eval']

/-! ### the coefficient function of a product, as a function of the left factor's coefficient function -/

section prod
variable {C : Type} [CommRing C]

theorem rs_coeff_shift_eval (ts : List (Exp × C)) (u : Exp × C) (a : Exp) :
    coeff (ts.map fun t1 => (addExp t1.1 u.1, t1.2 * u.2)) a =
      eval (fun b => if addExp b u.1 = a then u.2 else 0) ts := by
  induction ts with
  | nil => simp [coeff, eval]
  | cons t ts ih =>
    rw [List.map_cons, coeff_cons, eval_cons, ih]
    by_cases h : addExp t.1 u.1 = a <;> simp [h]

theorem rs_coeff_prodTerms_eval (ts us : List (Exp × C)) (a : Exp) :
    coeff (prodTerms ts us) a =
      (us.map fun u => eval (fun b => if addExp b u.1 = a then u.2 else 0) ts).sum := by
  unfold prodTerms
  induction us with
  | nil => simp [coeff]
  | cons u us ih =>
    rw [List.flatMap_cons, coeff_append, ih, rs_coeff_shift_eval, List.map_cons, List.sum_cons]

theorem rs_coeff_prodTerms_lin {hs ts ts' : List (Exp × C)} (γ : C) (us : List (Exp × C))
    (h : ∀ b, coeff hs b = coeff ts b - γ * coeff ts' b) (a : Exp) :
    coeff (prodTerms hs us) a = coeff (prodTerms ts us) a - γ * coeff (prodTerms ts' us) a := by
  rw [rs_coeff_prodTerms_eval, rs_coeff_prodTerms_eval, rs_coeff_prodTerms_eval]
  induction us with
  | nil => simp
  | cons u us ih =>
    simp only [List.map_cons, List.sum_cons]
    rw [ih, rs_eval_lin _ γ h]
    ring

/-- multiplying the constant `v` (the single term `(zeroExp n, v)`) into `us` -/
theorem rs_coeff_prodTerms_const (n : Nat) (v : C) (us : List (Exp × C))
    (hu : ∀ u ∈ us, u.1.length = n) (a : Exp) :
    coeff (prodTerms [(zeroExp n, v)] us) a = v * coeff us a := by
  unfold prodTerms
  induction us with
  | nil => simp [coeff]
  | cons u us ih =>
    rw [List.flatMap_cons, coeff_append, ih (fun t ht => hu t (List.mem_cons_of_mem _ ht)), coeff_cons]
    have hz : addExp (zeroExp n) u.1 = u.1 := by
      have hl : n = u.1.length := (hu u (by simp)).symm
      rw [hl]
      unfold addExp zeroExp
      generalize u.1 = r
      induction r with
      | nil => rfl
      | cons q r ihr => simp [List.replicate_succ, ihr]
    simp only [List.map_cons, List.map_nil, coeff_cons, hz]
    by_cases h : u.1 = a
    · simp [h, coeff]; ring
    · simp [h, coeff]

end prod

end

end Sageopt.RelaxSig
