/-
C01 helper lemmas, list level: list sums as `Finset.range` sums, `rdot`, sums over `zip`s of
coefficient rows with scalar-variable ids (with and without the zero entries), `trueIdx`, `idxOf?`.
-/
import SageoptModel.Lemmas.SageSem
import SageoptModel.Lemmas.CompileBasic
import Mathlib.Algebra.BigOperators.Ring.Finset
import Mathlib.Algebra.Order.BigOperators.Group.Finset
import Mathlib.Algebra.BigOperators.Intervals

namespace Sageopt.Sage
open Sageopt Sageopt.Compile Sageopt.Solvers Sageopt.Analysis
open Finset

/-! ### list sums as range sums -/

theorem sp_sum_map_range (f : ℕ → ℝ) (n : ℕ) :
    ((List.range n).map f).sum = ∑ k ∈ range n, f k := by
  induction n with
  | zero => simp
  | succ n ih => rw [List.range_succ, List.map_append, List.sum_append, ih, Finset.sum_range_succ]; simp

theorem sp_sum_eq_range (l : List ℝ) : l.sum = ∑ k ∈ range l.length, l.getD k 0 := by
  induction l with
  | nil => simp
  | cons a l ih =>
    rw [List.length_cons, Finset.sum_range_succ', List.sum_cons, ih]
    simp [add_comm]

theorem sp_sum_map_eq_range {α : Type} (l : List α) (f : α → ℝ) (d : α) :
    (l.map f).sum = ∑ k ∈ range l.length, f (l.getD k d) := by
  induction l with
  | nil => simp
  | cons a l ih =>
    rw [List.length_cons, Finset.sum_range_succ', List.map_cons, List.sum_cons, ih]
    simp [add_comm]

/-- a sum over a list of a family of range sums: interchange -/
theorem sp_sum_map_comm {α : Type} (l : List α) (n : ℕ) (f : α → ℕ → ℝ) :
    (l.map fun p => ∑ j ∈ range n, f p j).sum = ∑ j ∈ range n, (l.map fun p => f p j).sum := by
  induction l with
  | nil => simp
  | cons a l ih => simp only [List.map_cons, List.sum_cons, ih, Finset.sum_add_distrib]

/-! ### `rdot` -/

theorem sp_rdot_eq (a : List Rat) (x : List ℝ) :
    rdot a x = ∑ t ∈ range x.length, ((a.getD t 0 : Rat) : ℝ) * x.getD t 0 := by
  unfold rdot
  induction x generalizing a with
  | nil => simp
  | cons b x ih =>
    cases a with
    | nil => simp
    | cons q a =>
      rw [List.length_cons, Finset.sum_range_succ', List.zipWith_cons_cons, List.sum_cons, ih]
      simp [add_comm]

/-- the sum may run over any range that covers the shorter of the two lists -/
theorem sp_rdot_eq_of_le (a : List Rat) (x : List ℝ) (N : ℕ) (h : a.length ≤ N ∨ x.length ≤ N) :
    rdot a x = ∑ t ∈ range N, ((a.getD t 0 : Rat) : ℝ) * x.getD t 0 := by
  unfold rdot
  induction x generalizing a N with
  | nil => simp
  | cons b x ih =>
    cases a with
    | nil => simp
    | cons q a =>
      cases N with
      | zero => simp at h
      | succ N =>
        rw [Finset.sum_range_succ', List.zipWith_cons_cons, List.sum_cons,
          ih a N (by simpa using h)]
        simp [add_comm]

/-! ### sums over `zip`s of a coefficient row with ids -/

theorem sp_zip_sum (σ : Nat → ℝ) (row : List Rat) (ids : List Nat) :
    (((row.zip ids).map fun (p : Rat × Nat) => (p.2, p.1)).map fun e => ((e.2 : Rat) : ℝ) * σ e.1).sum
      = ∑ k ∈ range ids.length, ((row.getD k 0 : Rat) : ℝ) * σ (ids.getD k 0) := by
  induction ids generalizing row with
  | nil => simp
  | cons id ids ih =>
    cases row with
    | nil => simp
    | cons q row =>
      rw [List.length_cons, Finset.sum_range_succ']
      simp only [List.zip_cons_cons, List.map_cons, List.sum_cons, ih]
      simp [add_comm]

theorem sp_zip_sum_filter (σ : Nat → ℝ) (row : List Rat) (ids : List Nat) :
    (((row.zip ids).filterMap fun (p : Rat × Nat) => if p.1 == 0 then none else some (p.2, p.1)).map
        fun e => ((e.2 : Rat) : ℝ) * σ e.1).sum
      = ∑ k ∈ range ids.length, ((row.getD k 0 : Rat) : ℝ) * σ (ids.getD k 0) := by
  induction ids generalizing row with
  | nil => simp
  | cons id ids ih =>
    cases row with
    | nil => simp
    | cons q row =>
      rw [List.length_cons, Finset.sum_range_succ']
      simp only [List.zip_cons_cons, List.filterMap_cons]
      by_cases hq : q = 0
      · subst hq
        simp only [beq_self_eq_true, if_true, ih]
        simp
      · have : (q == 0) = false := by simpa using hq
        simp only [this, Bool.false_eq_true, if_false, List.map_cons, List.sum_cons, ih]
        simp [add_comm]

/-- `eta @ b` (ids first, zero coefficients dropped) -/
theorem sp_zip_sum_filter' (σ : Nat → ℝ) (ids : List Nat) (b : List Rat) :
    (((ids.zip b).filterMap fun (p : Nat × Rat) => if p.2 == 0 then none else some (p.1, p.2)).map
        fun e => ((e.2 : Rat) : ℝ) * σ e.1).sum
      = ∑ k ∈ range ids.length, ((b.getD k 0 : Rat) : ℝ) * σ (ids.getD k 0) := by
  induction ids generalizing b with
  | nil => simp
  | cons id ids ih =>
    cases b with
    | nil => simp
    | cons q b =>
      rw [List.length_cons, Finset.sum_range_succ']
      simp only [List.zip_cons_cons, List.filterMap_cons]
      by_cases hq : q = 0
      · subst hq
        simp only [beq_self_eq_true, if_true, ih]
        simp
      · have : (q == 0) = false := by simpa using hq
        simp only [this, Bool.false_eq_true, if_false, List.map_cons, List.sum_cons, ih]
        simp [add_comm]

/-! ### `getD` of mapped ranges -/

theorem sp_getD_map_range {α : Type} (f : ℕ → α) (m j : ℕ) (d : α) (hj : j < m) :
    ((List.range m).map f).getD j d = f j := by
  simp [List.getD_eq_getElem?_getD, hj]

theorem sp_getD_map {α β : Type} (f : α → β) (l : List α) (j : ℕ) (d : α) (d' : β) (hj : j < l.length) :
    (l.map f).getD j d' = f (l.getD j d) := by
  simp [List.getD_eq_getElem?_getD, hj]

theorem sp_getD_mem {α : Type} (l : List α) (j : ℕ) (d : α) (hj : j < l.length) : l.getD j d ∈ l := by
  simp [List.getD_eq_getElem?_getD, hj]

theorem sp_getD_ge {α : Type} (l : List α) (j : ℕ) (d : α) (hj : l.length ≤ j) : l.getD j d = d := by
  simp [List.getD_eq_getElem?_getD, hj]

/-! ### `trueIdx` -/

theorem sp_mem_trueIdx (cov : List Bool) (j : ℕ) : j ∈ trueIdx cov ↔ cov[j]? = some true := by
  unfold trueIdx
  simp only [List.mem_map, List.mem_filter, List.mem_zipIdx_iff_getElem?]
  constructor
  · rintro ⟨⟨b, i⟩, ⟨h1, h2⟩, rfl⟩
    simp only at h1 h2 ⊢
    rw [h1, h2]
  · intro h
    exact ⟨(true, j), ⟨h, rfl⟩, rfl⟩

theorem sp_trueIdx_lt (cov : List Bool) (j : ℕ) (h : j ∈ trueIdx cov) : j < cov.length := by
  rw [sp_mem_trueIdx] at h
  by_contra hn
  rw [List.getElem?_eq_none (by omega)] at h
  cases h

theorem sp_trueIdx_nodup (cov : List Bool) : (trueIdx cov).Nodup := by
  unfold trueIdx
  have h1 : ((cov.zipIdx.filter (·.1)).map (·.2)).Sublist (cov.zipIdx.map (·.2)) :=
    List.Sublist.map _ List.filter_sublist
  have h2 : cov.zipIdx.map (·.2) = List.range' 0 cov.length := List.zipIdx_map_snd 0 cov
  rw [h2] at h1
  exact h1.nodup List.nodup_range'

/-! ### `idxOf?` on duplicate-free lists -/

theorem sp_idxOf?_getD (l : List Nat) (hnd : l.Nodup) (k : ℕ) (hk : k < l.length) :
    List.idxOf? (l.getD k 0) l = some k := by
  rw [List.idxOf?_eq_some_iff]
  have hg : l.getD k 0 = l[k] := by simp [List.getD_eq_getElem?_getD, hk]
  refine ⟨hk, hg.symm, ?_⟩
  intro j hj heq
  rw [hg] at heq
  have := (List.Nodup.getElem_inj_iff hnd).1 heq
  omega

theorem sp_idxOf?_none (l : List Nat) (j : ℕ) (h : j ∉ l) : List.idxOf? j l = none :=
  (idxOf?_none l j).2 h

end Sageopt.Sage
