/-
Calculus methods, polynomial side: the insertion-ordered dictionary `dictAdd`, the rows
`decExp` / `incExp`, and `Polynomial._partial` (`partialPoly`).
-/
import SageoptModel.Lemmas.SigCalcSig
import Mathlib.Data.Rat.Lemmas

namespace Sageopt.Sig

/-! ### nonnegative integer exponents -/

/-- the entry test of `isPolyExp` -/
def IsNatQ (q : Rat) : Prop := q.den = 1 ∧ 0 ≤ q

theorem isNatQ_iff (q : Rat) : IsNatQ q ↔ ∃ n : Nat, q = (n : Rat) := by
  constructor
  · rintro ⟨h1, h2⟩
    have hq : ((q.num : Int) : Rat) = q := (Rat.den_eq_one_iff q).1 h1
    have hn : 0 ≤ q.num := Rat.num_nonneg.2 h2
    refine ⟨q.num.toNat, ?_⟩
    have : ((q.num.toNat : Nat) : Int) = q.num := Int.toNat_of_nonneg hn
    have h3 := congrArg (Int.cast (R := Rat)) this
    rw [Int.cast_natCast] at h3
    exact hq.symm.trans h3.symm
  · rintro ⟨n, rfl⟩
    exact ⟨Rat.den_natCast n, Nat.cast_nonneg n⟩

theorem isPolyExp_iff (a : Exp) : isPolyExp a = true ↔ ∀ q ∈ a, IsNatQ q := by
  unfold isPolyExp IsNatQ
  rw [List.all_eq_true]
  constructor
  · intro h q hq
    have := h q hq
    simp only [Bool.and_eq_true, beq_iff_eq, decide_eq_true_eq] at this
    exact this
  · intro h q hq
    simp only [Bool.and_eq_true, beq_iff_eq, decide_eq_true_eq]
    exact h q hq

theorem natCast_toNat (n : Nat) : ((n : Rat)).num.toNat = n := by
  rw [Rat.num_natCast, Int.toNat_natCast]

theorem round7_natCast (n : Nat) : round7 (n : Rat) = n := by
  rw [round7_fix_iff]
  refine ⟨(n : Int) * 10000000, ?_⟩
  simp only [decimals]
  push_cast
  norm_num

theorem round7_one : round7 1 = 1 := by
  have := round7_natCast 1
  simpa using this

theorem isNatQ_onGrid {q : Rat} (h : IsNatQ q) : round7 q = q := by
  obtain ⟨n, rfl⟩ := (isNatQ_iff q).1 h
  exact round7_natCast n

theorem isNatQ_zero : IsNatQ 0 := (isNatQ_iff 0).2 ⟨0, by simp⟩

theorem isNatQ_add {p q : Rat} (hp : IsNatQ p) (hq : IsNatQ q) : IsNatQ (p + q) := by
  obtain ⟨m, rfl⟩ := (isNatQ_iff p).1 hp
  obtain ⟨n, rfl⟩ := (isNatQ_iff q).1 hq
  exact (isNatQ_iff _).2 ⟨m + n, by push_cast; rfl⟩

theorem isNatQ_pred {q : Rat} (h : IsNatQ q) (hpos : 0 < q) : IsNatQ (q - 1) := by
  obtain ⟨n, rfl⟩ := (isNatQ_iff q).1 h
  cases n with
  | zero => simp at hpos
  | succ m =>
    refine (isNatQ_iff _).2 ⟨m, ?_⟩
    push_cast
    ring

theorem isPolyExp_zeroExp (n : Nat) : isPolyExp (zeroExp n) = true := by
  rw [isPolyExp_iff]
  intro q hq
  simp only [zeroExp, List.mem_replicate] at hq
  rw [hq.2]; exact isNatQ_zero

theorem isPolyExp_onGrid {a : Exp} (h : isPolyExp a = true) : OnGrid a :=
  fun q hq => isNatQ_onGrid ((isPolyExp_iff a).1 h q hq)

theorem isPolyExp_addExp {a b : Exp} (ha : isPolyExp a = true) (hb : isPolyExp b = true) :
    isPolyExp (addExp a b) = true := by
  rw [isPolyExp_iff] at ha hb ⊢
  unfold addExp
  induction a generalizing b with
  | nil => intro q hq; simp at hq
  | cons x xs ih =>
    cases b with
    | nil => intro q hq; simp at hq
    | cons y ys =>
      intro q hq
      simp only [List.zipWith_cons_cons, List.mem_cons] at hq
      rcases hq with rfl | hq
      · exact isNatQ_add (ha x (by simp)) (hb y (by simp))
      · exact ih (fun q hq => ha q (by simp [hq])) (fun q hq => hb q (by simp [hq])) q hq

/-! ### list facts about `set` / `getD` -/

theorem getD_set_self (a : Exp) (i : Nat) (v : Rat) (hi : i < a.length) : (a.set i v).getD i 0 = v := by
  simp [List.getD_eq_getElem?_getD, hi]

theorem getD_set_ne (a : Exp) (i j : Nat) (v : Rat) (hij : i ≠ j) : (a.set i v).getD j 0 = a.getD j 0 := by
  simp [List.getD_eq_getElem?_getD, List.getElem?_set_ne hij]

theorem set_getD_self (a : Exp) (i : Nat) (hi : i < a.length) : a.set i (a.getD i 0) = a := by
  simp [List.getD_eq_getElem?_getD, hi]

theorem getD_mem_or_zero (a : Exp) (i : Nat) : a.getD i 0 ∈ a ∨ a.getD i 0 = 0 := by
  by_cases hi : i < a.length
  · left
    simp [List.getD_eq_getElem?_getD, hi]
  · right
    simp [List.getD_eq_getElem?_getD, not_lt.1 hi]

/-- the row `b + e_i` (in range), `b` otherwise -/
def incExpL (b : Exp) (i : Nat) : Exp := b.set i (b.getD i 0 + 1)

theorem decExp_length (a : Exp) (i : Nat) : (decExp a i).length = a.length := by
  simp [decExp]

theorem incExpL_length (a : Exp) (i : Nat) : (incExpL a i).length = a.length := by
  simp [incExpL]

theorem incExpL_decExp (a : Exp) (i : Nat) (hi : i < a.length) : incExpL (decExp a i) i = a := by
  unfold incExpL
  rw [show (decExp a i).getD i 0 = a.getD i 0 - 1 from getD_set_self a i _ hi]
  unfold decExp
  rw [List.set_set, sub_add_cancel, set_getD_self a i hi]

theorem decExp_incExpL (b : Exp) (i : Nat) (hi : i < b.length) : decExp (incExpL b i) i = b := by
  unfold decExp
  rw [show (incExpL b i).getD i 0 = b.getD i 0 + 1 from getD_set_self b i _ hi]
  unfold incExpL
  rw [List.set_set, add_sub_cancel_right, set_getD_self b i hi]

theorem incExpL_getD_self (b : Exp) (i : Nat) (hi : i < b.length) : (incExpL b i).getD i 0 = b.getD i 0 + 1 :=
  getD_set_self b i _ hi

theorem incExpL_getD_ne (b : Exp) (i j : Nat) (hij : i ≠ j) : (incExpL b i).getD j 0 = b.getD j 0 :=
  getD_set_ne b i j _ hij

theorem incExpL_comm (b : Exp) (i j : Nat) : incExpL (incExpL b i) j = incExpL (incExpL b j) i := by
  by_cases hij : i = j
  · rw [hij]
  · unfold incExpL
    rw [getD_set_ne b i j _ hij, getD_set_ne b j i _ (fun e => hij e.symm)]
    exact List.set_comm _ _ hij

theorem onGrid_set {a : Exp} (ha : OnGrid a) (i : Nat) {v : Rat} (hv : round7 v = v) : OnGrid (a.set i v) := by
  intro q hq
  rcases List.mem_or_eq_of_mem_set hq with h | rfl
  · exact ha q h
  · exact hv

theorem onGrid_getD {a : Exp} (ha : OnGrid a) (i : Nat) : round7 (a.getD i 0) = a.getD i 0 := by
  rcases getD_mem_or_zero a i with h | h
  · exact ha _ h
  · rw [h]; exact round7_zero'

theorem onGrid_decExp {a : Exp} (ha : OnGrid a) (i : Nat) : OnGrid (decExp a i) := by
  apply onGrid_set ha
  rw [sub_eq_add_neg]
  exact round7_add_grid' _ _ (onGrid_getD ha i) (round7_neg_grid _ round7_one)

theorem isNatQ_getD {a : Exp} (ha : isPolyExp a = true) (i : Nat) : IsNatQ (a.getD i 0) := by
  rcases getD_mem_or_zero a i with h | h
  · exact (isPolyExp_iff a).1 ha _ h
  · rw [h]; exact isNatQ_zero

theorem isPolyExp_set {a : Exp} (ha : isPolyExp a = true) (i : Nat) {v : Rat} (hv : IsNatQ v) :
    isPolyExp (a.set i v) = true := by
  rw [isPolyExp_iff] at ha ⊢
  intro q hq
  rcases List.mem_or_eq_of_mem_set hq with h | rfl
  · exact ha q h
  · exact hv

theorem isPolyExp_decExp {a : Exp} (ha : isPolyExp a = true) (i : Nat) (hpos : 0 < a.getD i 0) :
    isPolyExp (decExp a i) = true :=
  isPolyExp_set ha i (isNatQ_pred (isNatQ_getD ha i) hpos)

theorem isPolyExp_incExpL {a : Exp} (ha : isPolyExp a = true) (i : Nat) : isPolyExp (incExpL a i) = true :=
  isPolyExp_set ha i (isNatQ_add (isNatQ_getD ha i) ((isNatQ_iff 1).2 ⟨1, by simp⟩))

/-! ### `dictAdd` -/

theorem any_key_iff (d : List (Exp × Rat)) (k : Exp) : (d.any (·.1 == k)) = true ↔ k ∈ keys d := by
  simp only [List.any_eq_true, beq_iff_eq, keys, List.mem_map]

theorem dictAdd_of_mem {d : List (Exp × Rat)} {k : Exp} (h : k ∈ keys d) (v : Rat) :
    dictAdd d k v = d.map fun p => if p.1 == k then (p.1, p.2 + v) else p := by
  unfold dictAdd
  rw [if_pos ((any_key_iff d k).2 h)]

theorem dictAdd_of_not_mem {d : List (Exp × Rat)} {k : Exp} (h : k ∉ keys d) (v : Rat) :
    dictAdd d k v = d ++ [(k, v)] := by
  unfold dictAdd
  rw [if_neg (fun e => h ((any_key_iff d k).1 e))]

theorem keys_dictMap (d : List (Exp × Rat)) (k : Exp) (v : Rat) :
    keys (d.map fun p => if p.1 == k then (p.1, p.2 + v) else p) = keys d := by
  unfold keys
  rw [List.map_map]
  apply List.map_congr_left
  intro p _
  show (if (p.1 == k) = true then (p.1, p.2 + v) else p).1 = p.1
  split <;> rfl

theorem dictAdd_keys (d : List (Exp × Rat)) (k : Exp) (v : Rat) :
    keys (dictAdd d k v) = if k ∈ keys d then keys d else keys d ++ [k] := by
  by_cases h : k ∈ keys d
  · rw [dictAdd_of_mem h, if_pos h, keys_dictMap]
  · rw [dictAdd_of_not_mem h, if_neg h]
    simp [keys]

theorem dictAdd_nodup {d : List (Exp × Rat)} (hd : (keys d).Nodup) (k : Exp) (v : Rat) :
    (keys (dictAdd d k v)).Nodup := by
  rw [dictAdd_keys]
  by_cases h : k ∈ keys d
  · rw [if_pos h]; exact hd
  · rw [if_neg h, List.nodup_append]
    refine ⟨hd, by simp, ?_⟩
    intro a ha b hb
    simp only [List.mem_singleton] at hb
    rintro rfl
    exact h (hb ▸ ha)

theorem mem_keys_dictAdd (d : List (Exp × Rat)) (k : Exp) (v : Rat) (x : Exp) :
    x ∈ keys (dictAdd d k v) ↔ x ∈ keys d ∨ x = k := by
  rw [dictAdd_keys]
  by_cases h : k ∈ keys d
  · rw [if_pos h]
    constructor
    · exact Or.inl
    · rintro (h' | rfl)
      · exact h'
      · exact h
  · rw [if_neg h, List.mem_append, List.mem_singleton]

theorem dictMap_of_not_mem {d : List (Exp × Rat)} {k : Exp} (h : k ∉ keys d) (v : Rat) :
    (d.map fun p => if p.1 == k then (p.1, p.2 + v) else p) = d := by
  induction d with
  | nil => rfl
  | cons p d ih =>
    simp only [keys, List.map_cons, List.mem_cons, not_or] at h
    rw [List.map_cons]
    have hb : (p.1 == k) = false := by
      rw [beq_eq_false_iff_ne]; exact fun e => h.1 e.symm
    have : (if (p.1 == k) = true then (p.1, p.2 + v) else p) = p := by rw [hb]; rfl
    rw [this, ih h.2]

theorem dictMap_coeff {d : List (Exp × Rat)} (hd : (keys d).Nodup) {k : Exp} (h : k ∈ keys d) (v : Rat)
    (b : Exp) :
    coeff (d.map fun p => if p.1 == k then (p.1, p.2 + v) else p) b =
      coeff d b + (if k = b then v else 0) := by
  induction d with
  | nil => simp [keys] at h
  | cons p d ih =>
    simp only [keys, List.map_cons, List.nodup_cons] at hd
    rw [List.map_cons]
    by_cases hp : p.1 = k
    · have hb : (p.1 == k) = true := by rw [beq_iff_eq]; exact hp
      have e1 : (if (p.1 == k) = true then (p.1, p.2 + v) else p) = (p.1, p.2 + v) := by rw [hb]; rfl
      have hk : k ∉ keys d := hp ▸ hd.1
      rw [e1, dictMap_of_not_mem hk, coeff_cons, coeff_cons]
      simp only [hp]
      by_cases e : k = b
      · simp only [if_pos e]; ring
      · simp only [if_neg e]; ring
    · have hb : (p.1 == k) = false := by rw [beq_eq_false_iff_ne]; exact hp
      have e1 : (if (p.1 == k) = true then (p.1, p.2 + v) else p) = p := by rw [hb]; rfl
      have hk : k ∈ keys d := by
        simp only [keys, List.map_cons, List.mem_cons] at h
        rcases h with h | h
        · exact absurd h.symm hp
        · exact h
      rw [e1, coeff_cons, coeff_cons, ih hd.2 hk]
      ring

theorem dictAdd_coeff {d : List (Exp × Rat)} (hd : (keys d).Nodup) (k : Exp) (v : Rat) (b : Exp) :
    coeff (dictAdd d k v) b = coeff d b + (if k = b then v else 0) := by
  by_cases h : k ∈ keys d
  · rw [dictAdd_of_mem h, dictMap_coeff hd h]
  · rw [dictAdd_of_not_mem h, coeff_append, coeff_cons]
    simp

/-! ### the dictionary built by `Polynomial._partial` -/

def pPolyStep (i : Nat) (d : List (Exp × Rat)) (t : Exp × Rat) : List (Exp × Rat) :=
  if t.1.getD i 0 > 0 then dictAdd d (decExp t.1 i) (t.2 * t.1.getD i 0) else d

def pPolyDict (ts : List (Exp × Rat)) (i : Nat) : List (Exp × Rat) := ts.foldl (pPolyStep i) []

theorem partialPoly_def (f : SigT Rat) (i : Nat) :
    partialPoly f i =
      if (pPolyDict f.terms i).isEmpty then mk f.n [(zeroExp f.n, 0)] else mk f.n (pPolyDict f.terms i) := rfl

/-- the contribution of one term to the coefficient at `b` -/
def pPolyContrib (i : Nat) (b : Exp) (t : Exp × Rat) : Rat :=
  if t.1.getD i 0 > 0 ∧ decExp t.1 i = b then t.2 * t.1.getD i 0 else 0

theorem pPolyStep_nodup (i : Nat) {d : List (Exp × Rat)} (hd : (keys d).Nodup) (t : Exp × Rat) :
    (keys (pPolyStep i d t)).Nodup := by
  unfold pPolyStep
  split
  · exact dictAdd_nodup hd _ _
  · exact hd

theorem pPolyStep_coeff (i : Nat) {d : List (Exp × Rat)} (hd : (keys d).Nodup) (t : Exp × Rat) (b : Exp) :
    coeff (pPolyStep i d t) b = coeff d b + pPolyContrib i b t := by
  unfold pPolyStep pPolyContrib
  by_cases h : t.1.getD i 0 > 0
  · rw [if_pos h, dictAdd_coeff hd]
    by_cases e : decExp t.1 i = b
    · rw [if_pos e, if_pos ⟨h, e⟩]
    · rw [if_neg e, if_neg (fun h' => e h'.2)]
  · rw [if_neg h, if_neg (fun h' => h h'.1), add_zero]

theorem pPolyStep_mem (i : Nat) (d : List (Exp × Rat)) (t : Exp × Rat) (x : Exp)
    (hx : x ∈ keys (pPolyStep i d t)) : x ∈ keys d ∨ (t.1.getD i 0 > 0 ∧ x = decExp t.1 i) := by
  unfold pPolyStep at hx
  by_cases h : t.1.getD i 0 > 0
  · rw [if_pos h, mem_keys_dictAdd] at hx
    rcases hx with hx | hx
    · exact Or.inl hx
    · exact Or.inr ⟨h, hx⟩
  · rw [if_neg h] at hx
    exact Or.inl hx

theorem pPolyFold_spec (i : Nat) (ts : List (Exp × Rat)) (d : List (Exp × Rat)) (hd : (keys d).Nodup) :
    (keys (ts.foldl (pPolyStep i) d)).Nodup ∧
    (∀ b, coeff (ts.foldl (pPolyStep i) d) b = coeff d b + (ts.map (pPolyContrib i b)).sum) ∧
    (∀ x ∈ keys (ts.foldl (pPolyStep i) d),
      x ∈ keys d ∨ ∃ t ∈ ts, t.1.getD i 0 > 0 ∧ x = decExp t.1 i) := by
  induction ts generalizing d with
  | nil =>
    refine ⟨hd, fun b => by simp, fun x hx => Or.inl hx⟩
  | cons t ts ih =>
    simp only [List.foldl_cons]
    obtain ⟨h1, h2, h3⟩ := ih (pPolyStep i d t) (pPolyStep_nodup i hd t)
    refine ⟨h1, fun b => ?_, fun x hx => ?_⟩
    · rw [h2 b, pPolyStep_coeff i hd, List.map_cons, List.sum_cons]
      ring
    · rcases h3 x hx with h | ⟨u, hu, hpos, e⟩
      · rcases pPolyStep_mem i d t x h with h | ⟨hpos, e⟩
        · exact Or.inl h
        · exact Or.inr ⟨t, by simp, hpos, e⟩
      · exact Or.inr ⟨u, List.mem_cons_of_mem _ hu, hpos, e⟩

theorem pPolyDict_nodup (ts : List (Exp × Rat)) (i : Nat) : (keys (pPolyDict ts i)).Nodup :=
  (pPolyFold_spec i ts [] (by simp [keys])).1

theorem pPolyDict_coeff (ts : List (Exp × Rat)) (i : Nat) (b : Exp) :
    coeff (pPolyDict ts i) b = (ts.map (pPolyContrib i b)).sum := by
  have := (pPolyFold_spec i ts [] (by simp [keys])).2.1 b
  rw [coeff_nil, zero_add] at this
  exact this

theorem pPolyDict_mem (ts : List (Exp × Rat)) (i : Nat) (t : Exp × Rat) (ht : t ∈ pPolyDict ts i) :
    ∃ u ∈ ts, u.1.getD i 0 > 0 ∧ t.1 = decExp u.1 i := by
  have := (pPolyFold_spec i ts [] (by simp [keys])).2.2 t.1 (List.mem_map.2 ⟨t, ht, rfl⟩)
  rcases this with h | h
  · simp [keys] at h
  · exact h

/-- the sum of the contributions is the formal-derivative coefficient -/
theorem pPolyContrib_sum (ts : List (Exp × Rat)) (n i : Nat) (hi : i < n) (hw : ∀ t ∈ ts, t.1.length = n)
    (b : Exp) (hb : b.length = n) (hbi : 0 ≤ b.getD i 0) :
    (ts.map (pPolyContrib i b)).sum = (b.getD i 0 + 1) * coeff ts (incExpL b i) := by
  induction ts with
  | nil => simp
  | cons t ts ih =>
    rw [List.map_cons, List.sum_cons, ih (fun t ht => hw t (List.mem_cons_of_mem _ ht)), coeff_cons, mul_add]
    congr 1
    have hlt : i < t.1.length := by rw [hw t (by simp)]; exact hi
    unfold pPolyContrib
    by_cases e : t.1 = incExpL b i
    · have hg : t.1.getD i 0 = b.getD i 0 + 1 := by
        rw [e]; exact incExpL_getD_self b i (hb ▸ hi)
      have hd : decExp t.1 i = b := by rw [e]; exact decExp_incExpL b i (hb ▸ hi)
      rw [if_pos ⟨by rw [hg]; linarith, hd⟩, if_pos e, hg]
      ring
    · have : ¬ (t.1.getD i 0 > 0 ∧ decExp t.1 i = b) := by
        rintro ⟨_, h⟩
        apply e
        rw [← h, incExpL_decExp t.1 i hlt]
      rw [if_neg this, if_neg e, mul_zero]

/-! ### `partialPoly` -/

theorem pPolyDict_grid {ts : List (Exp × Rat)} (hg : ∀ t ∈ ts, OnGrid t.1) (i : Nat) :
    ∀ t ∈ pPolyDict ts i, OnGrid t.1 := by
  intro t ht
  obtain ⟨u, hu, _, e⟩ := pPolyDict_mem ts i t ht
  rw [e]
  exact onGrid_decExp (hg u hu) i

theorem partialPoly_terms (f : SigT Rat) (hf : Wf f) (i : Nat) :
    (partialPoly f i).terms =
      if (pPolyDict f.terms i).isEmpty then [(zeroExp f.n, 0)] else pPolyDict f.terms i := by
  rw [partialPoly_def]
  by_cases h : (pPolyDict f.terms i).isEmpty = true
  · rw [if_pos h, if_pos h, zeroSig_terms]
  · rw [if_neg h, if_neg h]
    exact mk_terms_of_wf (pPolyDict_grid hf.grid i) (pPolyDict_nodup _ _)

theorem partialPoly_n (f : SigT Rat) (i : Nat) : (partialPoly f i).n = f.n := by
  rw [partialPoly_def]
  split <;> rfl

theorem partialPoly_coeff_terms (f : SigT Rat) (hf : Wf f) (i : Nat) (a : Exp) :
    coeff (partialPoly f i).terms a = coeff (pPolyDict f.terms i) a := by
  rw [partialPoly_terms f hf]
  by_cases h : (pPolyDict f.terms i).isEmpty = true
  · rw [if_pos h, List.isEmpty_iff.1 h, coeff_cons]
    simp
  · rw [if_neg h]

theorem partialPoly_coeff' (f : SigT Rat) (hf : Wf f) (i : Nat) (hi : i < f.n)
    (b : Exp) (hb : b.length = f.n) (hbp : isPolyExp b = true) :
    coeff (partialPoly f i).terms b = (b.getD i 0 + 1) * coeff f.terms (incExpL b i) := by
  rw [partialPoly_coeff_terms f hf, pPolyDict_coeff,
    pPolyContrib_sum f.terms f.n i hi hf.width b hb (isNatQ_getD hbp i).2]

theorem partialPoly_wf' (f : SigT Rat) (hf : Wf f) (i : Nat) : Wf (partialPoly f i) := by
  rw [partialPoly_def]
  by_cases h : (pPolyDict f.terms i).isEmpty = true
  · rw [if_pos h]; exact zeroSig_wf _
  · rw [if_neg h]
    apply mk_wf'
    intro t ht
    obtain ⟨u, hu, _, e⟩ := pPolyDict_mem _ _ t ht
    rw [e, decExp_length]; exact hf.width u hu

theorem polyOk_iff (f : SigT Rat) : polyOk f = true ↔ ∀ t ∈ f.terms, isPolyExp t.1 = true := by
  unfold polyOk
  rw [List.all_eq_true]

theorem partialPoly_polyOk (f : SigT Rat) (hf : Wf f) (hp : polyOk f = true) (i : Nat) :
    polyOk (partialPoly f i) = true := by
  rw [polyOk_iff] at hp ⊢
  rw [partialPoly_terms f hf]
  by_cases h : (pPolyDict f.terms i).isEmpty = true
  · rw [if_pos h]
    intro t ht
    simp only [List.mem_singleton] at ht
    rw [ht]; exact isPolyExp_zeroExp _
  · rw [if_neg h]
    intro t ht
    obtain ⟨u, hu, hpos, e⟩ := pPolyDict_mem _ _ t ht
    rw [e]
    exact isPolyExp_decExp (hp u hu) i hpos

theorem partialPoly_comm' (f : SigT Rat) (hf : Wf f) (i j : Nat) (hi : i < f.n) (hj : j < f.n)
    (b : Exp) (hb : b.length = f.n) (hbp : isPolyExp b = true) :
    coeff (partialPoly (partialPoly f i) j).terms b = coeff (partialPoly (partialPoly f j) i).terms b := by
  by_cases hij : i = j
  · rw [hij]
  · have hwi := partialPoly_wf' f hf i
    have hwj := partialPoly_wf' f hf j
    rw [partialPoly_coeff' _ hwi j (by rw [partialPoly_n]; exact hj) b (by rw [partialPoly_n]; exact hb) hbp,
      partialPoly_coeff' _ hwj i (by rw [partialPoly_n]; exact hi) b (by rw [partialPoly_n]; exact hb) hbp,
      partialPoly_coeff' f hf i hi _ (by rw [incExpL_length]; exact hb) (isPolyExp_incExpL hbp j),
      partialPoly_coeff' f hf j hj _ (by rw [incExpL_length]; exact hb) (isPolyExp_incExpL hbp i),
      incExpL_getD_ne b j i (fun e => hij e.symm), incExpL_getD_ne b i j hij, incExpL_comm b j i]
    ring

end Sageopt.Sig
