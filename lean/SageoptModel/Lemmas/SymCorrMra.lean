/-
`momentReductionArray`: shifted copies of `h` are fixed by the constructor `mk`, and each row of the
array reproduces `χ(a) · h` (C16 helper lemmas).
-/
import SageoptModel.Lemmas.SymCorrRcv

namespace Sageopt.SymCorr
open Sageopt.Sig

variable {C : Type}

theorem sc_hasDupKeys_false (ks : List Exp) (h : ks.Nodup) : hasDupKeys ks = false := by
  induction ks with
  | nil => rfl
  | cons k ks ih =>
    rw [List.nodup_cons] at h
    simp only [hasDupKeys, Bool.or_eq_false_iff]
    exact ⟨by simpa using h.1, ih h.2⟩

/-- the constructor is the identity on grid rows with distinct keys -/
theorem sc_mk_terms [Add C] [Zero C] (n : Nat) (ts : List (Exp × C)) (hg : ∀ t ∈ ts, OnGrid t.1)
    (hnd : (keys ts).Nodup) : (mk n ts).terms = ts := by
  have h1 : (ts.map fun t => (roundExp t.1, t.2)) = ts := by
    conv_rhs => rw [← List.map_id ts]
    apply List.map_congr_left
    intro t ht
    rw [sc_roundExp_grid (hg t ht)]; rfl
  unfold mk
  simp only [h1]
  unfold consolidate
  rw [sc_hasDupKeys_false _ hnd]
  simp

/-- `h` with every exponent shifted by `a` -/
def scShift (ts : List (Exp × C)) (a : Exp) : List (Exp × C) := ts.map fun t => (addExp t.1 a, t.2)

theorem sc_shift_rows (n : Nat) (ts : List (Exp × C)) (a : Exp)
    (hw : ∀ t ∈ ts, OnGrid t.1 ∧ t.1.length = n) (ha : OnGrid a ∧ a.length = n) :
    ∀ t ∈ scShift ts a, OnGrid t.1 ∧ t.1.length = n := by
  intro t ht
  unfold scShift at ht
  rw [List.mem_map] at ht
  obtain ⟨u, hu, rfl⟩ := ht
  exact ⟨sc_addExp_grid (hw u hu).1 ha.1, sc_addExp_length (hw u hu).2 ha.2⟩

theorem sc_shift_nodup (n : Nat) (ts : List (Exp × C)) (a : Exp)
    (hw : ∀ t ∈ ts, t.1.length = n) (ha : a.length = n) (hnd : (keys ts).Nodup) :
    (keys (scShift ts a)).Nodup := by
  have : keys (scShift ts a) = (keys ts).map fun r => addExp r a := by
    unfold keys scShift; simp
  rw [this]
  apply List.Nodup.map_on _ hnd
  intro x hx y hy hxy
  unfold keys at hx hy
  rw [List.mem_map] at hx hy
  obtain ⟨u, hu, rfl⟩ := hx
  obtain ⟨v, hv, rfl⟩ := hy
  exact sc_addExp_right_inj (by rw [hw u hu, hw v hv]) (by rw [hw u hu, ha]) hxy

/-- `χ` is multiplicative on GRID rows of width `n` — weaker than `IsChar n χ`, and (unlike `IsChar`
    over `Rat`, whose only instance on width-`n` rows is the trivial character) satisfied by the
    non-trivial `Rat`-valued characters `a ↦ ∏ cⱼ ^ (aⱼ·10⁷)` -/
def scGridChar [Semiring C] (n : Nat) (χ : Exp → C) : Prop :=
  ∀ a b : Exp, OnGrid a → OnGrid b → a.length = n → b.length = n → χ (addExp a b) = χ a * χ b

theorem sc_gridChar_of_isChar [Semiring C] {n : Nat} {χ : Exp → C} (h : IsChar n χ) : scGridChar n χ :=
  fun a b _ _ ha hb => h.add a b ha hb

theorem sc_eval_shift [CommRing C] (n : Nat) (χ : Exp → C) (hχ : scGridChar n χ) (ts : List (Exp × C)) (a : Exp)
    (hw : ∀ t ∈ ts, OnGrid t.1 ∧ t.1.length = n) (ha : OnGrid a ∧ a.length = n) :
    eval χ (scShift ts a) = χ a * eval χ ts := by
  unfold eval scShift
  induction ts with
  | nil => simp
  | cons t ts ih =>
    simp only [List.map_cons, List.sum_cons]
    have ht := hw t (by simp)
    rw [ih (fun u hu => hw u (List.mem_cons_of_mem _ hu)), hχ t.1 a ht.1 ha.1 ht.2 ha.2]
    ring

/-- one row of the moment-reduction array reproduces `χ(a) · h` -/
theorem sc_mra_row [CommRing C] (n : Nat) (χ : Exp → C) (hχ : scGridChar n χ) (ts : List (Exp × C))
    (hw : ∀ t ∈ ts, OnGrid t.1 ∧ t.1.length = n) (hnd : (keys ts).Nodup) (a : Exp)
    (ha : OnGrid a ∧ a.length = n) (L : List Exp) (hL : ∀ r ∈ L, OnGrid r ∧ r.length = n) (hLnd : L.Nodup)
    (hcont : ∀ t ∈ ts, t.2 ≠ 0 → addExp t.1 a ∈ L) :
    (List.zipWith (fun c r => c * χ r) (relativeCoeffVector scTol (mk n (scShift ts a)).terms L) L).sum
      = χ a * eval χ ts := by
  have hrows := sc_shift_rows n ts a hw ha
  have hnd' := sc_shift_nodup n ts a (fun t ht => (hw t ht).2) ha.2 hnd
  rw [sc_mk_terms n _ (fun t ht => (hrows t ht).1) hnd']
  rw [sc_rcv_eval n _ hrows hnd' L hL hLnd ?_ χ]
  · exact sc_eval_shift n χ hχ ts a hw ha
  · intro t ht hne
    unfold scShift at ht
    rw [List.mem_map] at ht
    obtain ⟨u, hu, rfl⟩ := ht
    exact hcont u hu hne

/-- linearity over the rows of the array -/
theorem sc_mra_sum [CommRing C] (F : Exp → C) (χ : Exp → C) (E : C) (shKeys : List Exp)
    (hF : ∀ a ∈ shKeys, F a = χ a * E) (sc : List C) :
    (List.zipWith (fun s a => s * F a) sc shKeys).sum
      = (List.zipWith (fun s a => s * χ a) sc shKeys).sum * E := by
  induction shKeys generalizing sc with
  | nil => simp
  | cons a as ih =>
    cases sc with
    | nil => simp
    | cons s ss =>
      simp only [List.zipWith_cons_cons, List.sum_cons]
      rw [ih (fun b hb => hF b (List.mem_cons_of_mem _ hb)) ss, hF a (by simp)]
      ring

/-- closed form of the moment-reduction array: row `i`, column `k` is the coefficient of `L_k` in
    `h` shifted by `shKeys_i` -/
theorem sc_mra_ok_eq (n : Nat) (shKeys shhKeys : List Exp) (h : SigT Rat) (hh : Wf h) (hhn : h.n = n)
    (Lkeys : List Exp) (hsh : ∀ r ∈ shKeys, OnGrid r ∧ r.length = n)
    (hL : ∀ r ∈ Lkeys, OnGrid r ∧ r.length = n) (hLnd : Lkeys.Nodup)
    (hin : ∀ r ∈ shhKeys, r ∈ Lkeys) :
    momentReductionArray scTol n shKeys shhKeys h Lkeys
      = .ok (shKeys.map fun a => Lkeys.map (coeff (scShift h.terms a))) := by
  unfold momentReductionArray
  rw [if_pos (by simpa using hin)]
  congr 1
  apply List.map_congr_left
  intro a ha
  have hw := sc_wf_rows hh hhn
  have hrows := sc_shift_rows n h.terms a hw (hsh a ha)
  have hnd' := sc_shift_nodup n h.terms a (fun t ht => (hw t ht).2) (hsh a ha).2 hh.nodup
  show relativeCoeffVector scTol (mk n (scShift h.terms a)).terms Lkeys = _
  rw [sc_mk_terms n _ (fun t ht => (hrows t ht).1) hnd']
  exact sc_rcv_eq_map n _ hrows hnd' Lkeys hL hLnd

/-- the moment-reduction identity for every `χ` that is multiplicative on grid rows (stronger than the
    `IsChar` form: fewer demands on `χ`) -/
theorem sc_mra_identity_grid (n : Nat) (χ : Exp → Rat) (hχ : scGridChar n χ)
    (shKeys : List Exp) (h : SigT Rat) (hh : Wf h) (hhn : h.n = n) (Lkeys : List Exp)
    (hsh : ∀ r ∈ shKeys, OnGrid r ∧ r.length = n) (hL : ∀ r ∈ Lkeys, OnGrid r ∧ r.length = n) (hLnd : Lkeys.Nodup)
    (shhKeys : List Exp) (Cm : List (List Rat))
    (hC : momentReductionArray scTol n shKeys shhKeys h Lkeys = .ok Cm)
    (hcontained : ∀ a ∈ shKeys, ∀ t ∈ h.terms, t.2 ≠ 0 → addExp t.1 a ∈ Lkeys)
    (sc : List Rat) :
    Cm.length = shKeys.length ∧
    (List.zipWith (fun s row => s * (List.zipWith (fun c r => c * χ r) row Lkeys).sum) sc Cm).sum
      = (List.zipWith (fun s a => s * χ a) sc shKeys).sum * eval χ h.terms := by
  have hCm : Cm = shKeys.map fun ai =>
      relativeCoeffVector scTol (mk n (scShift h.terms ai)).terms Lkeys := by
    unfold momentReductionArray at hC
    split at hC
    · injection hC with hC; exact hC.symm
    · cases hC
  subst hCm
  refine ⟨by simp, ?_⟩
  rw [List.zipWith_map_right]
  exact sc_mra_sum
    (fun ai => (List.zipWith (fun c r => c * χ r)
      (relativeCoeffVector scTol (mk n (scShift h.terms ai)).terms Lkeys) Lkeys).sum)
    χ (eval χ h.terms) shKeys
    (fun a ha => sc_mra_row n χ hχ h.terms (sc_wf_rows hh hhn) hh.nodup a (hsh a ha) Lkeys hL hLnd
      (hcontained a ha)) sc

end Sageopt.SymCorr
