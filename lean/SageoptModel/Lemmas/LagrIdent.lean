/-
Helper lemmas for C04, part 3: the summands of the Lagrangian and their sum.
-/
import SageoptModel.Lemmas.LagrFold

namespace Sageopt.Relax
open Sageopt Sageopt.Sig Sageopt.Props.C13

theorem lg_qFold_wf (n : Nat) (cons : List SigQ) (hc : ∀ g ∈ cons, Wf g ∧ g.n = n) (q : Nat) (hq : 1 ≤ q) :
    ∀ pr ∈ qFold n cons q, Wf pr ∧ pr.n = n := by
  intro pr hpr
  obtain ⟨g, gs, _, hmem, rfl⟩ := lg_mem_qFold n cons q hq pr hpr
  obtain ⟨h1, h2, _⟩ := lg_foldl_mulQ n (fun _ => 1) (lg_oneChar n).isGridChar gs
    (fun x hx => hc x (hmem x (List.mem_cons_of_mem _ hx))) g (hc g (hmem g (by simp))).1
    (hc g (hmem g (by simp))).2
  exact ⟨h1, h2⟩

/-! ### `L0 = f − γ`: the `add` never raises -/

theorem lg_add_ok (f : SigQ) (x : Lin) :
    add Lin.isZero (embed f) (const f.n x) =
      .ok (withoutZeros Lin.isZero (sumList f.n [embed f, const f.n x])) := by
  unfold add
  rw [if_neg (by simp [lg_embed_n])]
  rfl

theorem lg_eval_map_const (n : Nat) (χ : Exp → Rat) (hχ : IsGridChar n χ) (σ : Nat → Rat) (x : Lin) :
    eval χ (mapσ σ (const n x)).terms = Lin.value σ x := by
  rw [eval_congr_coeff χ (map_const σ n x), const_terms, eval_cons, hχ.zero]
  simp

theorem lg_L0 (f : SigQ) (hf : Wf f) (χ : Exp → Rat) (hχ : IsGridChar f.n χ) (σ : Nat → Rat) (γ : Nat) :
    Wf (okOr (add Lin.isZero (embed f) (const f.n (Lin.scale (-1) (Lin.var γ)))) (embed f)) ∧
    (okOr (add Lin.isZero (embed f) (const f.n (Lin.scale (-1) (Lin.var γ)))) (embed f)).n = f.n ∧
    eval χ (mapσ σ (okOr (add Lin.isZero (embed f) (const f.n (Lin.scale (-1) (Lin.var γ)))) (embed f))).terms =
      eval χ f.terms - σ γ := by
  rw [lg_add_ok]
  simp only [okOr]
  have h := fun a => map_add σ (embed f) (const f.n (Lin.scale (-1) (Lin.var γ))) _ (lg_embed_wf f hf)
    (Gen.const_wf _ _) (lg_add_ok f _) a
  refine ⟨(h []).1, ?_, ?_⟩
  · rw [Gen.withoutZeros_n]
    exact Gen.sumList_n _ _ (by
      intro x hx
      simp only [List.mem_cons, List.not_mem_nil, or_false] at hx
      rcases hx with rfl | rfl <;> rfl)
  · rw [eval_add_of_coeff χ (fun a => (h a).2), lg_mapσ_embed, lg_eval_map_const f.n χ hχ,
      Lin.value_scale, lg_value_var]
    ring

/-! ### the summands `−g · s_g`: the `mul` never raises; one factor is constant -/

theorem lg_mul_ok (n : Nat) (g : SigQ) (hgn : g.n = n) (alphaHat : List Exp) (ids : List Nat) :
    mul Lin.isZero (embed (neg isZeroQ g)) (varSig n alphaHat ids) =
      .ok (withoutZeros Lin.isZero (product (embed (neg isZeroQ g)) (varSig n alphaHat ids))) := by
  unfold mul
  rw [if_neg]
  rw [lg_embed_n, lg_varSig_n, neg, smul_n, hgn]
  simp

theorem lg_summand (n : Nat) (χ : Exp → Rat) (hχ : IsGridChar n χ) (σ : Nat → Rat) (g : SigQ) (hg : Wf g)
    (hgn : g.n = n) (alphaHat : List Exp) (hw : ∀ r ∈ alphaHat, r.length = n) (ids : List Nat) :
    Wf (okOr (mul Lin.isZero (embed (neg isZeroQ g)) (varSig n alphaHat ids)) (embed g)) ∧
    (okOr (mul Lin.isZero (embed (neg isZeroQ g)) (varSig n alphaHat ids)) (embed g)).n = n ∧
    eval χ (mapσ σ (okOr (mul Lin.isZero (embed (neg isZeroQ g)) (varSig n alphaHat ids)) (embed g))).terms =
      - (eval χ (mapσ σ (varSig n alphaHat ids)).terms * eval χ g.terms) := by
  rw [lg_mul_ok n g hgn]
  simp only [okOr]
  have hneg : Wf (neg isZeroQ g) := (Sageopt.Props.C12.neg_hom isZeroQ isZeroQ_iff g hg []).1
  have hnn : (neg isZeroQ g).n = n := by rw [neg, smul_n, hgn]
  have hA : Wf (embed (neg isZeroQ g)) := lg_embed_wf _ hneg
  have hB : Wf (varSig n alphaHat ids) := lg_varSig_wf n alphaHat hw ids
  have hp : Wf (product (embed (neg isZeroQ g)) (varSig n alphaHat ids)) :=
    Gen.product_wf _ _ hA hB (by rw [lg_embed_n, hnn, lg_varSig_n])
  refine ⟨Gen.withoutZeros_wf Lin.isZero _ hp, ?_, ?_⟩
  · rw [Gen.withoutZeros_n, Gen.product_n, lg_embed_n, hnn]
  · have hm : ∀ t1 ∈ (embed (neg isZeroQ g)).terms, ∀ t2 ∈ (varSig n alphaHat ids).terms,
        Lin.value σ (t1.2 * t2.2) = Lin.value σ t1.2 * Lin.value σ t2.2 :=
      fun t1 h1 t2 _ => Lin.value_mul_of_left_const σ t1.2 t2.2 (lg_embed_const _ t1 h1)
    rw [eval_congr_coeff χ (withoutZeros_map σ _ hp)]
    have he := Hom.eval_mapT_product_grid (LinC.value_isAddHom σ) n χ hχ _ _ hA hB
      (by rw [lg_embed_n, hnn]) (lg_varSig_n n alphaHat ids) hm
    have he' : eval χ (mapσ σ (product (embed (neg isZeroQ g)) (varSig n alphaHat ids))).terms =
        eval χ (mapσ σ (embed (neg isZeroQ g))).terms * eval χ (mapσ σ (varSig n alphaHat ids)).terms := he
    rw [he', lg_mapσ_embed,
      lg_eval_neg_of_coeff χ _ g.terms (fun a => (Sageopt.Props.C12.neg_hom isZeroQ isZeroQ_iff g hg a).2)]
    ring

/-! ### the sum of the summands -/

theorem lg_sum_map_neg {ι : Type} (l : List ι) (F G : ι → Rat) (h : ∀ x ∈ l, F x = - G x) :
    (l.map F).sum = - (l.map G).sum := by
  induction l with
  | nil => simp
  | cons x l ih =>
    rw [List.map_cons, List.sum_cons, List.map_cons, List.sum_cons, h x (by simp),
      ih (fun y hy => h y (List.mem_cons_of_mem _ hy))]
    ring

theorem lg_sum_identity (n : Nat) (χ : Exp → Rat) (σ : Nat → Rat) (L0 : SigL) (hL0 : Wf L0 ∧ L0.n = n)
    (S : SigQ × List Nat → SigL) (V : SigQ × List Nat → Rat) (A B : List (SigQ × List Nat))
    (hA : ∀ p ∈ A, (Wf (S p) ∧ (S p).n = n) ∧ eval χ (mapσ σ (S p)).terms = - V p)
    (hB : ∀ p ∈ B, (Wf (S p) ∧ (S p).n = n) ∧ eval χ (mapσ σ (S p)).terms = - V p) :
    eval χ (mapσ σ (sumList n ([L0] ++ A.map S ++ B.map S))).terms =
      eval χ (mapσ σ L0).terms - (A.map V).sum - (B.map V).sum := by
  have hfs : ∀ f ∈ [L0] ++ A.map S ++ B.map S, Wf f ∧ f.n = n := by
    intro f hf
    simp only [List.mem_append, List.mem_singleton, List.mem_map] at hf
    rcases hf with (rfl | ⟨p, hp, rfl⟩) | ⟨p, hp, rfl⟩
    · exact hL0
    · exact (hA p hp).1
    · exact (hB p hp).1
  rw [lg_eval_sum_of_coeff χ _ ([L0] ++ A.map S ++ B.map S) (fun f => (mapσ σ f).terms)
    (fun a => map_sumList σ n _ hfs (by simp) a)]
  rw [List.map_append, List.map_append, List.sum_append, List.sum_append, List.map_map, List.map_map,
    lg_sum_map_neg A ((fun x => eval χ (mapσ σ x).terms) ∘ S) V (fun p hp => (hA p hp).2),
    lg_sum_map_neg B ((fun x => eval χ (mapσ σ x).terms) ∘ S) V (fun p hp => (hB p hp).2)]
  simp only [List.map_cons, List.map_nil, List.sum_cons, List.sum_nil]
  ring

end Sageopt.Relax
