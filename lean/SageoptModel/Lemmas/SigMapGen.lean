/-
The structural part of the signomial-model theory (`Lemmas/SigCons.lean`, `Lemmas/SigOps.lean`)
restated for an arbitrary coefficient type with just the operations the model uses
(`Add`, `Zero`, `Mul`): nothing here needs the ring laws.  Used at `C = Lin` (C13), whose addition
and multiplication are not ring operations.
-/
import SageoptModel.Lemmas.SigOps

namespace Sageopt.Sig.Gen
open Sageopt.Sig

variable {C : Type} [Add C] [Zero C]

/-! ### consolidate / mk / const -/

theorem consolidate_of_nodup {ts : List (Exp × C)} (h : (keys ts).Nodup) : consolidate ts = ts := by
  unfold consolidate
  rw [(hasDupKeys_eq_false_iff _).2 h]
  simp

theorem consolidate_keys_nodup (ts : List (Exp × C)) : (keys (consolidate ts)).Nodup := by
  unfold consolidate
  cases h : hasDupKeys (keys ts) with
  | false => simpa using (hasDupKeys_eq_false_iff _).1 h
  | true =>
    simp only [if_true]
    rw [keys_map_keyfun]
    exact sortedKeys_nodup _

theorem mem_keys_consolidate (ts : List (Exp × C)) (a : Exp) :
    a ∈ keys (consolidate ts) ↔ a ∈ keys ts := by
  unfold consolidate
  cases h : hasDupKeys (keys ts) with
  | false => simp
  | true =>
    simp only [if_true]
    rw [keys_map_keyfun, mem_sortedKeys]

theorem mk_terms (n : Nat) (ts : List (Exp × C)) : (mk n ts).terms = consolidate (rounded ts) := rfl

@[simp] theorem mk_n (n : Nat) (ts : List (Exp × C)) : (mk n ts).n = n := rfl

theorem mk_wf (n : Nat) (ts : List (Exp × C)) (hw : ∀ t ∈ ts, t.1.length = n) : Wf (mk n ts) := by
  have hk : ∀ t ∈ (mk n ts).terms, t.1 ∈ keys (rounded ts) := by
    intro t ht
    rw [mk_terms] at ht
    exact (mem_keys_consolidate _ _).1 (List.mem_map.2 ⟨t, ht, rfl⟩)
  have hk' : ∀ t ∈ (mk n ts).terms, ∃ u ∈ ts, t.1 = roundExp u.1 := by
    intro t ht
    have := hk t ht
    simp only [keys, rounded, List.map_map, List.mem_map, Function.comp_def] at this
    obtain ⟨u, hu, e⟩ := this
    exact ⟨u, hu, e.symm⟩
  refine ⟨?_, ?_, ?_⟩
  · intro t ht
    obtain ⟨u, hu, e⟩ := hk' t ht
    rw [e, roundExp_length, mk_n]
    exact hw u hu
  · intro t ht
    obtain ⟨u, hu, e⟩ := hk' t ht
    rw [e]
    exact roundExp_onGrid _
  · exact consolidate_keys_nodup _

theorem mk_terms_of_wf {n : Nat} {ts : List (Exp × C)} (hg : ∀ t ∈ ts, OnGrid t.1)
    (hnd : (keys ts).Nodup) : (mk n ts).terms = ts := by
  rw [mk_terms, rounded_of_grid hg, consolidate_of_nodup hnd]

theorem mk_id (f : SigT C) (hf : Wf f) : mk f.n f.terms = f := by
  have := mk_terms_of_wf (n := f.n) hf.grid hf.nodup
  cases f with
  | mk n terms => simp only [mk] at this ⊢; rw [this]

theorem const_terms (n : Nat) (v : C) : (const n v).terms = [(zeroExp n, v)] := by
  unfold const
  rw [mk_terms_of_wf]
  · intro t ht
    simp only [List.mem_singleton] at ht
    rw [ht]; exact onGrid_zeroExp n
  · simp [keys]

@[simp] theorem const_n (n : Nat) (v : C) : (const n v).n = n := rfl

theorem const_wf (n : Nat) (v : C) : Wf (const n v) := by
  unfold const
  apply mk_wf
  intro t ht
  simp only [List.mem_singleton] at ht
  rw [ht]; simp [zeroExp]

/-! ### withoutZeros -/

theorem withoutZeros_cases (isZero : C → Bool) (f : SigT C) :
    (f.terms.length = 1 ∧ withoutZeros isZero f = f) ∨
    (keepNZ isZero f = f.terms ∧ withoutZeros isZero f = f) ∨
    (keepNZ isZero f = [] ∧ withoutZeros isZero f = const f.n 0) ∨
    (withoutZeros isZero f = mk f.n (keepNZ isZero f)) := by
  unfold withoutZeros
  by_cases h1 : f.terms.length = 1
  · left; exact ⟨h1, by rw [if_pos h1]⟩
  · right
    rw [if_neg h1]
    simp only []
    by_cases h2 : (f.terms.filter fun t => !isZero t.2).length = f.terms.length
    · left
      rw [if_pos h2]
      exact ⟨List.filter_eq_self.2 (List.length_filter_eq_length_iff.1 h2), rfl⟩
    · right
      rw [if_neg h2]
      by_cases h3 : (f.terms.filter fun t => !isZero t.2).isEmpty = true
      · left
        rw [if_pos h3]
        exact ⟨List.isEmpty_iff.1 h3, rfl⟩
      · right
        rw [if_neg h3]
        rfl

theorem withoutZeros_n (isZero : C → Bool) (f : SigT C) : (withoutZeros isZero f).n = f.n := by
  rcases withoutZeros_cases isZero f with ⟨_, h⟩ | ⟨_, h⟩ | ⟨_, h⟩ | h <;> rw [h] <;> rfl

theorem withoutZeros_wf (isZero : C → Bool) (f : SigT C) (hf : Wf f) : Wf (withoutZeros isZero f) := by
  rcases withoutZeros_cases isZero f with ⟨_, h⟩ | ⟨_, h⟩ | ⟨_, h⟩ | h
  · rw [h]; exact hf
  · rw [h]; exact hf
  · rw [h]; exact const_wf _ _
  · rw [h]
    apply mk_wf
    intro t ht
    exact hf.width t (List.mem_of_mem_filter ht)

/-- the terms of `withoutZeros f` for a well-formed `f`, case by case -/
theorem withoutZeros_terms (isZero : C → Bool) (f : SigT C) (hf : Wf f) :
    (withoutZeros isZero f).terms = f.terms ∨
    (keepNZ isZero f = [] ∧ (withoutZeros isZero f).terms = [(zeroExp f.n, 0)]) ∨
    (withoutZeros isZero f).terms = keepNZ isZero f := by
  rcases withoutZeros_cases isZero f with ⟨_, h⟩ | ⟨_, h⟩ | ⟨hk, h⟩ | h
  · left; rw [h]
  · left; rw [h]
  · right; left; exact ⟨hk, by rw [h, const_terms]⟩
  · right; right
    rw [h, mk_terms_of_wf (keepNZ_grid isZero f hf.grid) (keepNZ_nodup isZero f hf.nodup)]

/-! ### sumList -/

/-- the general (non-singleton) branch of `sumList` -/
def sumGen (n : Nat) (fs : List (SigT C)) : SigT C :=
  mk n ((alignKeys (fs.map fun f => keys f.terms)).map fun k =>
    (k, sumC (fs.map fun f => lookupC f.terms k)))

theorem sumList_cases (n : Nat) (fs : List (SigT C)) :
    (∃ f, fs = [f] ∧ sumList n fs = f) ∨ sumList n fs = sumGen n fs := by
  match fs with
  | [] => right; rfl
  | [f] => left; exact ⟨f, rfl, rfl⟩
  | f :: g :: r => right; rfl

theorem sumGen_terms (n : Nat) (fs : List (SigT C)) (hfs : ∀ f ∈ fs, Wf f) :
    (sumGen n fs).terms = (alignKeys (fs.map fun f => keys f.terms)).map fun k =>
      (k, sumC (fs.map fun f => lookupC f.terms k)) := by
  unfold sumGen
  apply mk_terms_of_wf
  · intro t ht
    obtain ⟨k, hk, rfl⟩ := List.mem_map.1 ht
    obtain ⟨f, hf, hkf⟩ := (mem_sumKeys fs k).1 hk
    exact onGrid_of_mem_keys (hfs f hf).grid hkf
  · rw [keys_map_keyfun]
    exact alignKeys_nodup _

theorem sumGen_wf (n : Nat) (fs : List (SigT C)) (hfs : ∀ f ∈ fs, Wf f ∧ f.n = n) :
    Wf (sumGen n fs) := by
  unfold sumGen
  apply mk_wf
  intro t ht
  obtain ⟨k, hk, rfl⟩ := List.mem_map.1 ht
  obtain ⟨f, hf, hkf⟩ := (mem_sumKeys fs k).1 hk
  obtain ⟨u, hu, rfl⟩ := List.mem_map.1 hkf
  rw [(hfs f hf).1.width u hu, (hfs f hf).2]

theorem sumList_wf (n : Nat) (fs : List (SigT C)) (hfs : ∀ f ∈ fs, Wf f ∧ f.n = n) :
    Wf (sumList n fs) := by
  rcases sumList_cases n fs with ⟨f, rfl, h⟩ | h
  · rw [h]; exact (hfs f (by simp)).1
  · rw [h]; exact sumGen_wf n fs hfs

theorem sumList_n (n : Nat) (fs : List (SigT C)) (hfs : ∀ f ∈ fs, f.n = n) :
    (sumList n fs).n = n := by
  rcases sumList_cases n fs with ⟨f, rfl, h⟩ | h
  · rw [h]; exact hfs f (by simp)
  · rw [h]; rfl

/-! ### product -/

variable [Mul C]

/-- the un-rounded term list of a product (tile/repeat order) -/
def prodTerms (ts us : List (Exp × C)) : List (Exp × C) :=
  us.flatMap fun t2 => ts.map fun t1 => (addExp t1.1 t2.1, t1.2 * t2.2)

theorem product_terms (f g : SigT C) (hf : ∀ t ∈ f.terms, OnGrid t.1) (hg : ∀ t ∈ g.terms, OnGrid t.1) :
    (product f g).terms = consolidate (prodTerms f.terms g.terms) := by
  unfold product
  rw [mk_terms]
  have h1 : (g.terms.flatMap fun t2 => f.terms.map fun t1 =>
      (roundExp (addExp t1.1 t2.1), t1.2 * t2.2)) = prodTerms f.terms g.terms := by
    unfold prodTerms
    apply List.flatMap_congr
    intro t2 h2
    apply List.map_congr_left
    intro t1 h1
    rw [roundExp_of_onGrid (onGrid_addExp (hf t1 h1) (hg t2 h2))]
  rw [h1, rounded_of_grid]
  intro t ht
  unfold prodTerms at ht
  obtain ⟨t2, h2, ht⟩ := List.mem_flatMap.1 ht
  obtain ⟨t1, h1, rfl⟩ := List.mem_map.1 ht
  exact onGrid_addExp (hf t1 h1) (hg t2 h2)

@[simp] theorem product_n (f g : SigT C) : (product f g).n = f.n := rfl

theorem product_wf (f g : SigT C) (hf : Wf f) (hg : Wf g) (hn : f.n = g.n) : Wf (product f g) := by
  unfold product
  apply mk_wf
  intro t ht
  obtain ⟨t2, h2, ht⟩ := List.mem_flatMap.1 ht
  obtain ⟨t1, h1, rfl⟩ := List.mem_map.1 ht
  rw [roundExp_length, addExp_length, hf.width t1 h1, hg.width t2 h2, hn, Nat.min_self]

omit [Add C] [Zero C] in
theorem mem_prodTerms {ts us : List (Exp × C)} {t : Exp × C} :
    t ∈ prodTerms ts us ↔ ∃ t2 ∈ us, ∃ t1 ∈ ts, t = (addExp t1.1 t2.1, t1.2 * t2.2) := by
  unfold prodTerms
  simp only [List.mem_flatMap, List.mem_map]
  constructor
  · rintro ⟨t2, h2, t1, h1, rfl⟩
    exact ⟨t2, h2, t1, h1, rfl⟩
  · rintro ⟨t2, h2, t1, h1, rfl⟩
    exact ⟨t2, h2, t1, h1, rfl⟩

theorem smul_wf (isZero : C → Bool) (f : SigT C) (hf : Wf f) (v : C) : Wf (smul isZero f v) := by
  unfold smul
  exact withoutZeros_wf isZero _ (product_wf f _ hf (const_wf _ _) rfl)

theorem smul_n (isZero : C → Bool) (f : SigT C) (v : C) : (smul isZero f v).n = f.n := by
  unfold smul
  rw [withoutZeros_n]; rfl

end Sageopt.Sig.Gen
