/-
C19 helper lemmas, primal cone: slack absorption at the row level.  A point of the inequality system is moved,
one reached index at a time and on the `c^{(i)}` variables only, to a point of the forced-equality system.
-/
import SageoptModel.Lemmas.OptBlockMono
import SageoptModel.Lemmas.OptForce
import Mathlib.Tactic.FieldSimp

namespace Sageopt.Sage
open Sageopt Sageopt.Compile Sageopt.Solvers Sageopt.Analysis

/-- the ids of the `c^{(i)}` Variables are pairwise distinct and occur neither in `c` nor among the
    `nu`/`epi`/`eta` ids; the indices of `ids` are pairwise distinct -/
def opt_FreshC (inp : PrimalIn) : Prop :=
  (inp.ids.flatMap (·.cvar)).Nodup ∧
  (∀ id ∈ inp.ids.flatMap (·.cvar), (∀ cj ∈ inp.c, id ∉ cj.co.map (·.1)) ∧
      id ∉ inp.ids.flatMap (fun p => p.nu ++ p.epi ++ p.eta)) ∧
  (inp.ids.map (·.i)).Nodup

theorem opt_freshAt_of_freshC (inp : PrimalIn) (h : opt_FreshC inp) (id : Nat)
    (hid : id ∈ inp.ids.flatMap (·.cvar)) : opt_FreshAt inp id := by
  obtain ⟨h1, h2⟩ := h.2.1 id hid
  refine ⟨h1, fun p hp => ⟨fun hm => ?_, fun hm => ?_, fun hm => ?_⟩⟩
  · exact h2 (List.mem_flatMap.2 ⟨p, hp, List.mem_append_left _ (List.mem_append_left _ hm)⟩)
  · exact h2 (List.mem_flatMap.2 ⟨p, hp, List.mem_append_left _ (List.mem_append_right _ hm)⟩)
  · exact h2 (List.mem_flatMap.2 ⟨p, hp, List.mem_append_right _ hm⟩)

/-! ### list facts -/

theorem opt_forall₂_imp {α β : Type} {R : α → β → Prop} {B B' : β → Prop} {l : List α} {out : List β}
    (h : List.Forall₂ R l out) (himp : ∀ x ∈ l, ∀ y, R x y → B y → B' y) (hB : ∀ y ∈ out, B y) :
    ∀ y ∈ out, B' y := by
  induction h with
  | nil => intro y hy; cases hy
  | @cons x y l out h1 _ ih =>
    intro z hz
    rcases List.mem_cons.1 hz with rfl | hz
    · exact himp x (List.mem_cons_self ..) z h1 (hB z (List.mem_cons_self ..))
    · exact ih (fun x' hx' => himp x' (List.mem_cons_of_mem _ hx'))
        (fun y' hy' => hB y' (List.mem_cons_of_mem _ hy')) z hz

theorem opt_sum_ite_key {α : Type} (l : List α) (f : α → Nat) (hnd : (l.map f).Nodup) (k : Nat)
    (hk : k ∈ l.map f) (v : ℝ) : (l.map fun x => if f x = k then v else 0).sum = v := by
  induction l with
  | nil => cases hk
  | cons a l ih =>
    rw [List.map_cons, List.nodup_cons] at hnd
    rw [List.map_cons, List.sum_cons]
    by_cases ha : f a = k
    · rw [if_pos ha]
      have : (l.map fun x => if f x = k then v else 0).sum = 0 := by
        apply List.sum_eq_zero
        intro x hx
        rw [List.mem_map] at hx
        obtain ⟨b, hb, rfl⟩ := hx
        have : f b ≠ k := by
          intro hbk
          apply hnd.1
          rw [ha, ← hbk]
          exact List.mem_map.2 ⟨b, hb, rfl⟩
        rw [if_neg this]
      rw [this, add_zero]
    · rw [if_neg ha, zero_add]
      apply ih hnd.2
      rw [List.map_cons] at hk
      rcases List.mem_cons.1 hk with h | h
      · exact absurd h.symm ha
      · exact h

theorem opt_find_of_mem (l : List (Nat × List Bool)) (hnd : (l.map (·.1)).Nodup) (i : Nat) (cov : List Bool)
    (h : (i, cov) ∈ l) : l.find? (·.1 == i) = some (i, cov) := by
  induction l with
  | nil => cases h
  | cons a l ih =>
    rw [List.map_cons, List.nodup_cons] at hnd
    rcases List.mem_cons.1 h with h | h
    · subst h
      simp
    · have hne : a.1 ≠ i := by
        intro heq
        apply hnd.1
        rw [heq]
        exact List.mem_map.2 ⟨(i, cov), h, rfl⟩
      rw [List.find?_cons_of_neg (by simpa using hne)]
      exact ih hnd.2 h

theorem opt_coverOf_of_mem (e : Ech) (hnd : (e.covers.map (·.1)).Nodup) (i : Nat) (cov : List Bool)
    (h : (i, cov) ∈ e.covers) : coverOf e i = cov := by
  unfold coverOf
  rw [opt_find_of_mem e.covers hnd i cov h]
  rfl

theorem opt_mem_trueIdx_of_getD (cov : List Bool) (j : Nat) (h : cov.getD j false = true) : j ∈ trueIdx cov := by
  unfold trueIdx
  rw [List.mem_map]
  refine ⟨(true, j), ?_, rfl⟩
  rw [List.mem_filter]
  refine ⟨?_, rfl⟩
  rw [List.mk_mem_zipIdx_iff_getElem?]
  by_cases hj : j < cov.length
  · rw [List.getD_eq_getElem?_getD, List.getElem?_eq_getElem hj] at h
    rw [List.getElem?_eq_getElem hj]
    simpa using h
  · rw [List.getD_eq_getElem?_getD, List.getElem?_eq_none (not_lt.1 hj)] at h
    simp at h

/-! ### the hypotheses, bundled -/

structure opt_ForceHyp (inp : PrimalIn) : Prop where
  wf : WfPrimal inp
  fresh : opt_FreshC inp
  cov0 : ∀ p ∈ inp.ids, p.nu = [] → trueIdx (coverOf inp.ech p.i) = []
  keys : inp.ech.covers.map (·.1) = inp.ech.U

theorem opt_hyp_slots_snd (inp : PrimalIn) (H : opt_ForceHyp inp) (p : PIds) (hp : p ∈ inp.ids) :
    (opt_slots inp.ech p).map (·.2) = p.cvar := by
  apply opt_slots_snd
  by_cases hnu : p.nu = []
  · obtain ⟨h1, h2⟩ := (H.wf.sizes p hp).2 hnu
    rw [H.cov0 p hp hnu, if_neg h2, h1]
    rfl
  · exact ((H.wf.sizes p hp).1 hnu).2.2

theorem opt_hyp_unitCo (inp : PrimalIn) (H : opt_ForceHyp inp) (j : Nat) (hj : j < inp.alpha.length) :
    ∀ a ∈ opt_ages inp, opt_UnitCo (a.getD j (constE 0)) := by
  intro a ha
  unfold opt_ages at ha
  rw [List.mem_map] at ha
  obtain ⟨p, _, rfl⟩ := ha
  rcases opt_age_entry inp.alpha.length inp.c inp.ech p j hj with h | ⟨_, hN, h⟩ | ⟨id, h, _⟩
  · rw [h]; exact opt_unitCo_of_nil _ rfl
  · rw [h]
    apply opt_unitCo_of_nil
    apply H.wf.negConst
    simpa using hN
  · rw [h]; exact opt_unitCo_varE id

/-- value of the sum row `j` -/
noncomputable def opt_rowv (inp : PrimalIn) (σ : Nat → ℝ) (j : Nat) : ℝ :=
  crowVal σ (opt_sumRow inp.c (opt_ages inp) inp.dummy j)

theorem opt_rowv_eq (inp : PrimalIn) (H : opt_ForceHyp inp) (σ : Nat → ℝ) (j : Nat) (hj : j < inp.alpha.length) :
    opt_rowv inp σ j = cVal σ inp.c j -
      (inp.ids.map fun p => argVal σ ((ageVector inp.alpha.length inp.c inp.ech p).getD j (constE 0))).sum := by
  unfold opt_rowv
  rw [opt_sumRow_val σ inp.c (opt_ages inp) inp.dummy j (opt_hyp_unitCo inp H j hj)]
  unfold opt_ages
  rw [List.map_map]
  rfl

/-- the effect of raising a fresh id on the sum rows -/
theorem opt_rowv_upd (inp : PrimalIn) (H : opt_ForceHyp inp) (σ : Nat → ℝ) (id : Nat) (hid : opt_FreshAt inp id)
    (s : ℝ) (j : Nat) (hj : j < inp.alpha.length) :
    opt_rowv inp (opt_upd σ id s) j = opt_rowv inp σ j - s *
      (inp.ids.map fun p => opt_coefAt ((ageVector inp.alpha.length inp.c inp.ech p).getD j (constE 0)).co id).sum := by
  rw [opt_rowv_eq inp H _ j hj, opt_rowv_eq inp H σ j hj]
  have hc : cVal (opt_upd σ id s) inp.c j = cVal σ inp.c j := by
    unfold cVal
    apply opt_argVal_upd_of_not_mem
    apply hid.c
    have : j < inp.c.length := by rw [H.wf.clen]; exact hj
    simp [List.getD_eq_getElem?_getD, this]
  rw [hc]
  have : (inp.ids.map fun p => argVal (opt_upd σ id s)
        ((ageVector inp.alpha.length inp.c inp.ech p).getD j (constE 0)))
      = inp.ids.map fun p => argVal σ ((ageVector inp.alpha.length inp.c inp.ech p).getD j (constE 0))
          + s * opt_coefAt ((ageVector inp.alpha.length inp.c inp.ech p).getD j (constE 0)).co id := by
    apply List.map_congr_left
    intro p _
    rw [opt_argVal_upd]
  rw [this, opt_sum_map_add_mul]
  ring

/-! ### one step of absorption -/

/-- the state: all blocks feasible, all sum rows nonnegative -/
def opt_State (Q : CType → List ℝ → Prop) (inp : PrimalIn) (perI : List (List CRow × List Cone)) (σ : Nat → ℝ) :
    Prop :=
  (∀ q ∈ perI, FeasBlocks (conP Q) q.2 (q.1.map (crowVal σ))) ∧ ∀ j, j < inp.alpha.length → 0 ≤ opt_rowv inp σ j

theorem opt_absorb_step (Q : CType → List ℝ → Prop) (inp : PrimalIn) (H : opt_ForceHyp inp)
    (perI : List (List CRow × List Cone))
    (hper : List.Forall₂ (fun p q => opt_pPerI inp p = .ok q) inp.ids perI)
    (σ : Nat → ℝ) (hS : opt_State Q inp perI σ) (j0 : Nat) (hj0 : j0 < inp.alpha.length)
    (hreach : reachedB inp.ech j0 = true) :
    ∃ σ' : Nat → ℝ, (∀ id, id ∉ inp.ids.flatMap (·.cvar) → σ' id = σ id) ∧ opt_State Q inp perI σ' ∧
      opt_rowv inp σ' j0 = 0 ∧ ∀ j, j < inp.alpha.length → j ≠ j0 → opt_rowv inp σ' j = opt_rowv inp σ j := by
  by_cases hA : ∃ p ∈ inp.ids, ∃ id, (ageVector inp.alpha.length inp.c inp.ech p).getD j0 (constE 0) = varE id ∧
      (j0, id) ∈ opt_slots inp.ech p
  · -- a slot sits at `j0`: raise its variable
    obtain ⟨p, hp, id, hvar, hslot⟩ := hA
    have hidmem : id ∈ inp.ids.flatMap (·.cvar) :=
      List.mem_flatMap.2 ⟨p, hp, opt_slot_id_mem inp.ech p (opt_hyp_slots_snd inp H p hp) j0 id hslot⟩
    have hid : opt_FreshAt inp id := opt_freshAt_of_freshC inp H.fresh id hidmem
    set occ : ℝ := (inp.ids.map fun p' =>
      opt_coefAt ((ageVector inp.alpha.length inp.c inp.ech p').getD j0 (constE 0)).co id).sum with hocc
    have hocc1 : 1 ≤ occ := by
      apply opt_le_sum_of_mem
      · intro a ha
        rw [List.mem_map] at ha
        obtain ⟨p', _, rfl⟩ := ha
        exact opt_age_coef_nonneg inp H.wf.clen p' id hid j0 hj0
      · rw [List.mem_map]
        refine ⟨p, hp, ?_⟩
        rw [hvar, opt_coefAt_varE, if_pos rfl]
    have hoccpos : 0 < occ := by linarith
    have hs : 0 ≤ opt_rowv inp σ j0 / occ := div_nonneg (hS.2 j0 hj0) hoccpos.le
    have hother : ∀ j, j < inp.alpha.length → j ≠ j0 →
        opt_rowv inp (opt_upd σ id (opt_rowv inp σ j0 / occ)) j = opt_rowv inp σ j := by
      intro j hj hne
      rw [opt_rowv_upd inp H σ id hid _ j hj]
      have : (inp.ids.map fun p' =>
          opt_coefAt ((ageVector inp.alpha.length inp.c inp.ech p').getD j (constE 0)).co id).sum = 0 := by
        apply List.sum_eq_zero
        intro a ha
        rw [List.mem_map] at ha
        obtain ⟨p', hp', rfl⟩ := ha
        rcases opt_age_entry inp.alpha.length inp.c inp.ech p' j hj with h | ⟨hji, _, h⟩ | ⟨id', h, hsl⟩
        · rw [h, opt_coefAt_constE]
        · rw [h, opt_coefAt_of_not_mem]
          apply hid.c
          have : p'.i < inp.c.length := by rw [H.wf.clen, ← hji]; exact hj
          simp [List.getD_eq_getElem?_getD, this]
        · rw [h, opt_coefAt_varE]
          by_cases hii : id' = id
          · exfalso
            subst hii
            exact hne (opt_slot_unique inp.ech inp.ids H.fresh.1 (opt_hyp_slots_snd inp H) p' hp' p hp j j0 id' hsl hslot)
          · rw [if_neg hii]
      rw [this, mul_zero, sub_zero]
    have hat : opt_rowv inp (opt_upd σ id (opt_rowv inp σ j0 / occ)) j0 = 0 := by
      rw [opt_rowv_upd inp H σ id hid _ j0 hj0, ← hocc]
      field_simp
      ring
    refine ⟨opt_upd σ id (opt_rowv inp σ j0 / occ), ?_, ⟨?_, ?_⟩, hat, hother⟩
    · intro id' hid'
      apply opt_upd_ne
      intro heq
      exact hid' (heq ▸ hidmem)
    · exact opt_forall₂_imp hper
        (fun p' hp' q hq hfe => opt_block_mono Q inp H.wf p' hp' q hq id hid _ hs σ hfe) hS.1
    · intro j hj
      by_cases hjj : j = j0
      · rw [hjj, hat]
      · rw [hother j hj hjj]; exact hS.2 j hj
  · -- no slot at `j0`: the row is `c_j0 − c_j0`
    refine ⟨σ, fun _ _ => rfl, hS, ?_, fun _ _ _ => rfl⟩
    have hnd : (inp.ech.covers.map (·.1)).Nodup := by rw [H.keys, ← H.wf.idsU]; exact H.fresh.2.2
    have hU : inp.ech.U.contains j0 = true := by
      unfold reachedB at hreach
      rw [Bool.or_eq_true] at hreach
      rcases hreach with h | h
      · exact h
      · exfalso
        rw [List.any_eq_true] at h
        obtain ⟨⟨i, cov⟩, hmem, hget⟩ := h
        have hiU : i ∈ inp.ids.map (·.i) := by
          rw [H.wf.idsU, ← H.keys]
          exact List.mem_map.2 ⟨(i, cov), hmem, rfl⟩
        rw [List.mem_map] at hiU
        obtain ⟨p, hp, hpi⟩ := hiU
        have hcov : coverOf inp.ech p.i = cov := by
          rw [hpi]; exact opt_coverOf_of_mem inp.ech hnd i cov hmem
        have hj0c : j0 ∈ trueIdx (coverOf inp.ech p.i) := by
          rw [hcov]; exact opt_mem_trueIdx_of_getD cov j0 hget
        obtain ⟨id, h1, h2⟩ := opt_age_covered inp.alpha.length inp.c inp.ech p j0 hj0 hj0c (H.wf.cover p hp).2.2
        exact hA ⟨p, hp, id, h1, h2⟩
    have hj0U : j0 ∈ inp.ids.map (·.i) := by
      rw [H.wf.idsU]; simpa using hU
    have hN : inp.ech.N.contains j0 = true := by
      by_contra hN
      rw [List.mem_map] at hj0U
      obtain ⟨p, hp, hpi⟩ := hj0U
      have hN' : ¬ inp.ech.N.contains p.i = true := by rw [hpi]; exact hN
      obtain ⟨id, h1, h2⟩ := opt_age_own inp.alpha.length inp.c inp.ech p (by rw [hpi]; exact hj0) hN'
      rw [hpi] at h1 h2
      exact hA ⟨p, hp, id, h1, h2⟩
    rw [opt_rowv_eq inp H σ j0 hj0]
    have : (inp.ids.map fun p => argVal σ ((ageVector inp.alpha.length inp.c inp.ech p).getD j0 (constE 0)))
        = inp.ids.map fun p => if p.i = j0 then cVal σ inp.c j0 else 0 := by
      apply List.map_congr_left
      intro p hp
      by_cases hpi : p.i = j0
      · rw [if_pos hpi, opt_age_getD _ _ _ _ _ hj0]
        have h1 : (j0 == p.i) = true := by simpa using hpi.symm
        have h2 : inp.ech.N.contains p.i = true := by rw [hpi]; exact hN
        rw [h1, if_pos rfl, if_pos h2, hpi]
        rfl
      · rw [if_neg hpi]
        rcases opt_age_entry inp.alpha.length inp.c inp.ech p j0 hj0 with h | ⟨hji, _, _⟩ | ⟨id, h1, h2⟩
        · rw [h]; simp [argVal, constE]
        · exact absurd hji.symm hpi
        · exact absurd ⟨p, hp, id, h1, h2⟩ hA
    rw [this, opt_sum_ite_key inp.ids (·.i) H.fresh.2.2 j0 hj0U]
    ring

/-- all reached indices below `k` made exact -/
theorem opt_absorb_all (Q : CType → List ℝ → Prop) (inp : PrimalIn) (H : opt_ForceHyp inp)
    (perI : List (List CRow × List Cone))
    (hper : List.Forall₂ (fun p q => opt_pPerI inp p = .ok q) inp.ids perI)
    (σ : Nat → ℝ) (hS : opt_State Q inp perI σ) (k : Nat) (hk : k ≤ inp.alpha.length) :
    ∃ σ' : Nat → ℝ, (∀ id, id ∉ inp.ids.flatMap (·.cvar) → σ' id = σ id) ∧ opt_State Q inp perI σ' ∧
      ∀ j, j < k → reachedB inp.ech j = true → opt_rowv inp σ' j = 0 := by
  induction k with
  | zero => exact ⟨σ, fun _ _ => rfl, hS, fun j hj => absurd hj (Nat.not_lt_zero j)⟩
  | succ k ih =>
    obtain ⟨σ1, h1, hS1, hz1⟩ := ih (by omega)
    by_cases hr : reachedB inp.ech k = true
    · obtain ⟨σ2, h2, hS2, hz2, hsame⟩ := opt_absorb_step Q inp H perI hper σ1 hS1 k (by omega) hr
      refine ⟨σ2, fun id hid => by rw [h2 id hid, h1 id hid], hS2, fun j hj hrj => ?_⟩
      by_cases hjk : j = k
      · rw [hjk]; exact hz2
      · rw [hsame j (by omega) hjk]
        exact hz1 j (by omega) hrj
    · refine ⟨σ1, h1, hS1, fun j hj hrj => ?_⟩
      by_cases hjk : j = k
      · rw [hjk] at hrj; exact absurd hrj hr
      · exact hz1 j (by omega) hrj

/-- the row-level converse of `opt_ineq_of_force_eq` -/
theorem opt_force_eq_of_ineq (Q : CType → List ℝ → Prop) (inp : PrimalIn) (H : opt_ForceHyp inp)
    (rowsT : List CRow) (KT : List Cone) (hT : primalRows (opt_withForce inp true) = .ok (rowsT, KT))
    (rowsF : List CRow) (KF : List Cone) (hF : primalRows (opt_withForce inp false) = .ok (rowsF, KF))
    (σ : Nat → ℝ) (hσ : FeasRows Q σ rowsF KF) :
    ∃ σ' : Nat → ℝ, (∀ id, id ∉ inp.ids.flatMap (·.cvar) → σ' id = σ id) ∧ FeasRows Q σ' rowsT KT := by
  rcases opt_primalRows_force inp true rowsT KT hT with ⟨h0, rfl, rfl⟩ | ⟨h0, perI, hper, rfl, rfl⟩
  · rcases opt_primalRows_force inp false rowsF KF hF with ⟨_, rfl, rfl⟩ | ⟨h0', _⟩
    · exact ⟨σ, fun _ _ => rfl, hσ⟩
    · exact absurd h0 h0'
  · rcases opt_primalRows_force inp false rowsF KF hF with ⟨h0', _⟩ | ⟨_, perI', hper', rfl, rfl⟩
    · exact absurd h0' h0
    · have : perI' = perI := by rw [hper] at hper'; cases hper'; rfl
      subst this
      rw [opt_feas_split Q inp H.wf.dom perI' hper, opt_sumToC_false_feas] at hσ
      obtain ⟨σ', h1, hS', hz⟩ := opt_absorb_all Q inp H perI' ((mapM_ok_iff _ _ _).1 hper) σ ⟨hσ.1, hσ.2⟩
        inp.alpha.length (le_refl _)
      refine ⟨σ', h1, ?_⟩
      rw [opt_feas_split Q inp H.wf.dom perI' hper, opt_sumToC_true_feas]
      refine ⟨hS'.1, fun j hj => ?_⟩
      by_cases hr : reachedB inp.ech j = true
      · rw [if_pos hr]; exact hz j hj hr
      · rw [if_neg hr]; exact hS'.2 j hj

end Sageopt.Sage
