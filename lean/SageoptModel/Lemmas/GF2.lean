/-
Helper lemmas about the GF(2) model (`Model/GF2.lean`).  Core Lean only.
Property statements live in `Props/C18.lean`.
-/
import SageoptModel.Model.GF2
set_option linter.unusedVariables false
set_option linter.unusedSimpArgs false

namespace Sageopt.GF2

/-- `x` solves the homogeneous system with rows `rows` -/
def Sol (rows : List Row) (x : Row) : Prop := ∀ r ∈ rows, dotB r x = false

theorem dotB_nil_left (x : Row) : dotB [] x = false := by cases x <;> rfl
theorem dotB_nil_right (a : Row) : dotB a [] = false := by cases a <;> rfl

theorem dotB_addRow (a b x : Row) : dotB (addRow a b) x = xor (dotB a x) (dotB b x) := by
  induction a generalizing b x with
  | nil => cases b <;> simp [addRow, dotB_nil_left]
  | cons a as ih =>
    cases b with
    | nil => simp [addRow, dotB_nil_left]
    | cons b bs =>
      cases x with
      | nil => simp [addRow, dotB]
      | cons x xs =>
        simp only [addRow, dotB, ih]
        cases a <;> cases b <;> cases x <;> cases dotB as xs <;> cases dotB bs xs <;> rfl

theorem sol_cons (r : Row) (rows : List Row) (x : Row) :
    Sol (r :: rows) x ↔ dotB r x = false ∧ Sol rows x := by
  simp [Sol]

theorem sol_append (a b : List Row) (x : Row) : Sol (a ++ b) x ↔ Sol a x ∧ Sol b x := by
  simp [Sol, or_imp, forall_and]

theorem sol_reverse (a : List Row) (x : Row) : Sol a.reverse x ↔ Sol a x := by simp [Sol]

theorem sol_elim (k : Nat) (p : Row) (rows : List Row) (x : Row) (hp : dotB p x = false) :
    Sol (elim k p rows) x ↔ Sol rows x := by
  induction rows with
  | nil => simp [elim, Sol]
  | cons r rs ih =>
    have : elim k p (r :: rs) = (if entry r k then addRow r p else r) :: elim k p rs := by simp [elim]
    rw [this, sol_cons, sol_cons, ih]
    by_cases h : entry r k
    · simp [h, dotB_addRow, hp]
    · simp [h]

theorem sol_pickPivot (k : Nat) (r0 : Row) (rs : List Row) (p : Row) (rs' : List Row)
    (h : pickPivot k r0 rs = some (p, rs')) (x : Row) :
    Sol (p :: rs') x ↔ Sol (r0 :: rs) x := by
  induction rs generalizing p rs' with
  | nil => simp [pickPivot] at h
  | cons r rs ih =>
    unfold pickPivot at h
    by_cases he : entry r k
    · simp [he] at h
      obtain ⟨rfl, rfl⟩ := h
      simp only [sol_cons]; constructor <;> (intro ⟨a, b, c⟩; exact ⟨b, a, c⟩)
    · simp [he] at h
      obtain ⟨q, qs, hq, rfl, rfl⟩ := h
      have := ih q qs hq
      simp only [sol_cons] at this ⊢
      constructor
      · intro ⟨a, b, c⟩; obtain ⟨d, e⟩ := this.mp ⟨a, c⟩; exact ⟨d, b, e⟩
      · intro ⟨a, b, c⟩; obtain ⟨d, e⟩ := this.mpr ⟨a, c⟩; exact ⟨d, b, e⟩

/-- forward elimination preserves the solution set of the homogeneous system -/
theorem fwd_sol (fuel k : Nat) (rem done : List Row) (piv : List Nat) (x : Row) :
    Sol (fwd fuel k rem done piv).1 x ↔ Sol done x ∧ Sol rem x := by
  induction fuel generalizing k rem done piv with
  | zero => simp [fwd, sol_append, sol_reverse]
  | succ d ih =>
    cases rem with
    | nil => simp [fwd, sol_reverse, Sol]
    | cons r0 rest =>
      unfold fwd
      by_cases he : entry r0 k
      · simp only [he, if_true]
        rw [ih, sol_cons, sol_cons]
        constructor
        · intro ⟨⟨a, b⟩, c⟩; exact ⟨b, a, (sol_elim k r0 rest x a).mp c⟩
        · intro ⟨b, a, c⟩; exact ⟨⟨a, b⟩, (sol_elim k r0 rest x a).mpr c⟩
      · simp only [he]
        cases hp : pickPivot k r0 rest with
        | none => simp only [Bool.false_eq_true, if_false]; rw [ih]
        | some q =>
          obtain ⟨p, rest'⟩ := q
          simp only [Bool.false_eq_true, if_false]
          rw [ih, sol_cons]
          have hs := sol_pickPivot k r0 rest p rest' hp x
          rw [sol_cons] at hs
          constructor
          · intro ⟨⟨a, b⟩, c⟩; exact ⟨b, hs.mp ⟨a, (sol_elim k p rest' x a).mp c⟩⟩
          · intro ⟨b, c⟩; obtain ⟨a, d⟩ := hs.mpr c; exact ⟨⟨a, b⟩, (sol_elim k p rest' x a).mpr d⟩


/-! ### entries, lengths, extensionality -/

@[simp] theorem entry_nil (k : Nat) : entry [] k = false := by simp [entry]
@[simp] theorem entry_cons_zero (a : Bool) (as : Row) : entry (a :: as) 0 = a := by simp [entry]
@[simp] theorem entry_cons_succ (a : Bool) (as : Row) (k : Nat) :
    entry (a :: as) (k+1) = entry as k := by simp [entry]

theorem entry_of_length_le {r : Row} {k : Nat} (h : r.length ≤ k) : entry r k = false := by
  induction r generalizing k with
  | nil => simp
  | cons a as ih =>
    cases k with
    | zero => simp at h
    | succ k => simp at h; simp [ih h]

theorem lt_length_of_entry {r : Row} {k : Nat} (h : entry r k = true) : k < r.length := by
  apply Nat.lt_of_not_le
  intro hle
  rw [entry_of_length_le hle] at h
  cases h

theorem entry_addRow (a b : Row) (k : Nat) :
    entry (addRow a b) k = xor (entry a k) (entry b k) := by
  induction a generalizing b k with
  | nil => cases b <;> simp [addRow]
  | cons a as ih =>
    cases b with
    | nil => simp [addRow]
    | cons b bs =>
      cases k with
      | zero => simp [addRow]
      | succ k => simp [addRow, ih]

theorem length_addRow (a b : Row) : (addRow a b).length = max a.length b.length := by
  induction a generalizing b with
  | nil => cases b <;> simp [addRow]
  | cons a as ih =>
    cases b with
    | nil => simp [addRow]
    | cons b bs => simp [addRow, ih]

theorem length_addRow_eq {a b : Row} {n : Nat} (ha : a.length = n) (hb : b.length = n) :
    (addRow a b).length = n := by
  rw [length_addRow, ha, hb]; simp

theorem row_ext {a b : Row} (hl : a.length = b.length) (h : ∀ j, entry a j = entry b j) :
    a = b := by
  induction a generalizing b with
  | nil => cases b with
    | nil => rfl
    | cons _ _ => simp at hl
  | cons a as ih =>
    cases b with
    | nil => simp at hl
    | cons b bs =>
      have h0 := h 0
      simp at h0
      have := ih (b := bs) (by simpa using hl) (fun j => by simpa using h (j+1))
      rw [h0, this]

theorem entry_replicate_false (n k : Nat) : entry (List.replicate n false) k = false := by
  induction n generalizing k with
  | zero => simp
  | succ n ih =>
    cases k with
    | zero => simp [List.replicate_succ]
    | succ k => simp [List.replicate_succ, ih]

theorem eq_replicate_of_entries {x : Row} {n : Nat} (hl : x.length = n)
    (h : ∀ j, entry x j = false) : x = List.replicate n false := by
  apply row_ext
  · simp [hl]
  · intro j; rw [h j, entry_replicate_false]

theorem entry_map_range (n : Nat) (f : Nat → Bool) (j : Nat) :
    entry ((List.range n).map f) j = if j < n then f j else false := by
  unfold entry
  by_cases h : j < n
  · simp [List.getD_eq_getElem?_getD, h]
  · simp [List.getD_eq_getElem?_getD, h]

/-! ### xor-sums over index lists -/

/-- xor of `f j` over the indices `j ∈ l` -/
def xsum (l : List Nat) (f : Nat → Bool) : Bool := l.foldr (fun j acc => xor (f j) acc) false

@[simp] theorem xsum_nil (f : Nat → Bool) : xsum [] f = false := rfl
@[simp] theorem xsum_cons (j : Nat) (l : List Nat) (f : Nat → Bool) :
    xsum (j :: l) f = xor (f j) (xsum l f) := rfl

theorem xsum_append (l₁ l₂ : List Nat) (f : Nat → Bool) :
    xsum (l₁ ++ l₂) f = xor (xsum l₁ f) (xsum l₂ f) := by
  induction l₁ with
  | nil => simp
  | cons j l ih => simp [ih]

theorem xsum_congr {l : List Nat} {f g : Nat → Bool} (h : ∀ j ∈ l, f j = g j) :
    xsum l f = xsum l g := by
  induction l with
  | nil => rfl
  | cons j l ih =>
    simp only [xsum_cons]
    rw [h j (by simp), ih (fun j hj => h j (by simp [hj]))]

theorem xsum_false {l : List Nat} {f : Nat → Bool} (h : ∀ j ∈ l, f j = false) :
    xsum l f = false := by
  induction l with
  | nil => rfl
  | cons j l ih =>
    simp only [xsum_cons]
    rw [h j (by simp), ih (fun j hj => h j (by simp [hj]))]; rfl

theorem xsum_xor (l : List Nat) (f g : Nat → Bool) :
    xsum l (fun j => xor (f j) (g j)) = xor (xsum l f) (xsum l g) := by
  induction l with
  | nil => rfl
  | cons j l ih =>
    simp only [xsum_cons, ih]
    cases f j <;> cases g j <;> cases xsum l f <;> cases xsum l g <;> rfl

theorem xsum_map (l : List Nat) (g : Nat → Nat) (f : Nat → Bool) :
    xsum (l.map g) f = xsum l (fun j => f (g j)) := by
  induction l with
  | nil => rfl
  | cons j l ih => simp [ih]

theorem xsum_filter (l : List Nat) (P : Nat → Bool) (f : Nat → Bool)
    (h : ∀ j ∈ l, f j = true → P j = true) : xsum (l.filter P) f = xsum l f := by
  induction l with
  | nil => rfl
  | cons j l ih =>
    have ih' := ih (fun j hj => h j (by simp [hj]))
    by_cases hp : P j = true
    · simp [List.filter_cons, hp, ih']
    · have hf : f j = false := by
        cases hfj : f j with
        | false => rfl
        | true => exact absurd (h j (by simp) hfj) hp
      simp [List.filter_cons, hp, ih', hf]

theorem dotB_eq_xsum (r y : Row) (n : Nat) (h : r.length ≤ n) :
    dotB r y = xsum (List.range n) (fun j => entry r j && entry y j) := by
  induction r generalizing y n with
  | nil => rw [dotB_nil_left]; symm; apply xsum_false; intro j _; simp
  | cons a as ih =>
    cases n with
    | zero => simp at h
    | succ n =>
      rw [List.range_succ_eq_map, xsum_cons, xsum_map]
      cases y with
      | nil => simp [dotB]; rw [xsum_false]; intro j _; rfl
      | cons b bs =>
        simp only [dotB, entry_cons_zero]
        rw [ih bs n (by simpa using h)]
        simp

/-- a sum with at most one non-zero term -/
theorem xsum_range_single (n c : Nat) (f : Nat → Bool) (hc : c < n)
    (h : ∀ j, j < n → j ≠ c → f j = false) : xsum (List.range n) f = f c := by
  induction n with
  | zero => omega
  | succ n ih =>
    rw [List.range_succ, xsum_append]
    by_cases hcn : c = n
    · subst hcn
      rw [xsum_false (fun j hj => h j (by simp at hj; omega) (by simp at hj; omega))]
      simp
    · rw [ih (by omega) (fun j hj hjc => h j (by omega) hjc)]
      simp [h n (by omega) (fun h => hcn h.symm)]

theorem dotB_single (r y : Row) (c : Nat) (h : ∀ j, j ≠ c → (entry r j && entry y j) = false) :
    dotB r y = (entry r c && entry y c) := by
  rw [dotB_eq_xsum r y (max r.length (c+1)) (by omega)]
  exact xsum_range_single _ c _ (by omega) (fun j _ hj => h j hj)

theorem dotB_zero_left (r y : Row) (h : ∀ j, entry r j = false) : dotB r y = false := by
  rw [dotB_eq_xsum r y r.length (Nat.le_refl _)]
  apply xsum_false; intro j _; simp [h j]

theorem dotB_zero_right (r y : Row) (h : ∀ j, entry y j = false) : dotB r y = false := by
  rw [dotB_eq_xsum r y r.length (Nat.le_refl _)]
  apply xsum_false; intro j _; simp [h j]

/-- `dotB` is additive in the second argument as well (no length conditions: `addRow` pads) -/
theorem dotB_addRow_right (r a b : Row) : dotB r (addRow a b) = xor (dotB r a) (dotB r b) := by
  rw [dotB_eq_xsum r _ r.length (Nat.le_refl _), dotB_eq_xsum r a r.length (Nat.le_refl _),
    dotB_eq_xsum r b r.length (Nat.le_refl _), ← xsum_xor]
  apply xsum_congr; intro j _
  rw [entry_addRow]
  cases entry r j <;> cases entry a j <;> cases entry b j <;> rfl

/-- `dotB` only depends on the entries -/
theorem dotB_congr_right (r y y' : Row) (h : ∀ j, j < r.length → entry y j = entry y' j) :
    dotB r y = dotB r y' := by
  rw [dotB_eq_xsum r y r.length (Nat.le_refl _), dotB_eq_xsum r y' r.length (Nat.le_refl _)]
  apply xsum_congr; intro j hj
  rw [h j (by simpa using hj)]

theorem dotB_congr_left (r r' y : Row) (h : ∀ j, entry r j = entry r' j) :
    dotB r y = dotB r' y := by
  rw [dotB_eq_xsum r y (max r.length r'.length) (by omega),
    dotB_eq_xsum r' y (max r.length r'.length) (by omega)]
  apply xsum_congr; intro j hj
  rw [h j]

end Sageopt.GF2
