/-
Helper lemmas about the GF(2) model (`Model/GF2.lean`).  Core Lean only.
Property statements live in `Props/C18.lean`.
-/
import SageoptModel.Model.GF2
set_option linter.unusedVariables false
set_option linter.unusedSimpArgs false

namespace Sageopt.GF2

/-- `x` solves the homogeneous system with rows `rows` -/
def Sol (rows : List Row) (x : Row) : Prop := ∀ r ∈ rows, dotB r x = false

theorem dotB_nil_left (x : Row) : dotB [] x = false := by cases x <;> rfl
theorem dotB_nil_right (a : Row) : dotB a [] = false := by cases a <;> rfl

theorem dotB_addRow (a b x : Row) : dotB (addRow a b) x = xor (dotB a x) (dotB b x) := by
  induction a generalizing b x with
  | nil => cases b <;> simp [addRow, dotB_nil_left]
  | cons a as ih =>
    cases b with
    | nil => simp [addRow, dotB_nil_left]
    | cons b bs =>
      cases x with
      | nil => simp [addRow, dotB]
      | cons x xs =>
        simp only [addRow, dotB, ih]
        cases a <;> cases b <;> cases x <;> cases dotB as xs <;> cases dotB bs xs <;> rfl

theorem sol_cons (r : Row) (rows : List Row) (x : Row) :
    Sol (r :: rows) x ↔ dotB r x = false ∧ Sol rows x := by
  simp [Sol]

theorem sol_append (a b : List Row) (x : Row) : Sol (a ++ b) x ↔ Sol a x ∧ Sol b x := by
  simp [Sol, or_imp, forall_and]

theorem sol_reverse (a : List Row) (x : Row) : Sol a.reverse x ↔ Sol a x := by simp [Sol]

theorem sol_elim (k : Nat) (p : Row) (rows : List Row) (x : Row) (hp : dotB p x = false) :
    Sol (elim k p rows) x ↔ Sol rows x := by
  induction rows with
  | nil => simp [elim, Sol]
  | cons r rs ih =>
    have : elim k p (r :: rs) = (if entry r k then addRow r p else r) :: elim k p rs := by simp [elim]
    rw [this, sol_cons, sol_cons, ih]
    by_cases h : entry r k
    · simp [h, dotB_addRow, hp]
    · simp [h]

theorem sol_pickPivot (k : Nat) (r0 : Row) (rs : List Row) (p : Row) (rs' : List Row)
    (h : pickPivot k r0 rs = some (p, rs')) (x : Row) :
    Sol (p :: rs') x ↔ Sol (r0 :: rs) x := by
  induction rs generalizing p rs' with
  | nil => simp [pickPivot] at h
  | cons r rs ih =>
    unfold pickPivot at h
    by_cases he : entry r k
    · simp [he] at h
      obtain ⟨rfl, rfl⟩ := h
      simp only [sol_cons]; constructor <;> (intro ⟨a, b, c⟩; exact ⟨b, a, c⟩)
    · simp [he] at h
      obtain ⟨q, qs, hq, rfl, rfl⟩ := h
      have := ih q qs hq
      simp only [sol_cons] at this ⊢
      constructor
      · intro ⟨a, b, c⟩; obtain ⟨d, e⟩ := this.mp ⟨a, c⟩; exact ⟨d, b, e⟩
      · intro ⟨a, b, c⟩; obtain ⟨d, e⟩ := this.mpr ⟨a, c⟩; exact ⟨d, b, e⟩

/-- forward elimination preserves the solution set of the homogeneous system -/
theorem fwd_sol (fuel k : Nat) (rem done : List Row) (piv : List Nat) (x : Row) :
    Sol (fwd fuel k rem done piv).1 x ↔ Sol done x ∧ Sol rem x := by
  induction fuel generalizing k rem done piv with
  | zero => simp [fwd, sol_append, sol_reverse]
  | succ d ih =>
    cases rem with
    | nil => simp [fwd, sol_reverse, Sol]
    | cons r0 rest =>
      unfold fwd
      by_cases he : entry r0 k
      · simp only [he, if_true]
        rw [ih, sol_cons, sol_cons]
        constructor
        · intro ⟨⟨a, b⟩, c⟩; exact ⟨b, a, (sol_elim k r0 rest x a).mp c⟩
        · intro ⟨b, a, c⟩; exact ⟨⟨a, b⟩, (sol_elim k r0 rest x a).mpr c⟩
      · simp only [he]
        cases hp : pickPivot k r0 rest with
        | none => simp only [Bool.false_eq_true, if_false]; rw [ih]
        | some q =>
          obtain ⟨p, rest'⟩ := q
          simp only [Bool.false_eq_true, if_false]
          rw [ih, sol_cons]
          have hs := sol_pickPivot k r0 rest p rest' hp x
          rw [sol_cons] at hs
          constructor
          · intro ⟨⟨a, b⟩, c⟩; exact ⟨b, hs.mp ⟨a, (sol_elim k p rest' x a).mp c⟩⟩
          · intro ⟨b, c⟩; obtain ⟨a, d⟩ := hs.mpr c; exact ⟨⟨a, b⟩, (sol_elim k p rest' x a).mpr d⟩

end Sageopt.GF2
