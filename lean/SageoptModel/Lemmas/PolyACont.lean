/-
C05 helper lemmas, part 4: a polynomial is continuous along the diagonal shift `x + ε·(1,…,1)`, and the
shifted point has no zero coordinate for all small `ε > 0`; hence a lower bound valid away from the
coordinate hyperplanes is valid everywhere.
-/
import SageoptModel.Lemmas.PolyAMono
import Mathlib.Topology.Algebra.Monoid
import Mathlib.Topology.Order.OrderClosed
import Mathlib.Topology.Order.LeftRightNhds

namespace Sageopt.Poly
open Sageopt Sageopt.Sig Sageopt.Relax Sageopt.Sage
open Filter Topology

/-- `x + ε·(1,…,1)` -/
def pa_shift (x : List ℝ) (ε : ℝ) : List ℝ := x.map (· + ε)

theorem pa_shift_length (x : List ℝ) (ε : ℝ) : (pa_shift x ε).length = x.length := by
  simp [pa_shift]

theorem pa_shift_zero (x : List ℝ) : pa_shift x 0 = x := by
  simp [pa_shift]

theorem pa_shift_cons (t : ℝ) (x : List ℝ) (ε : ℝ) : pa_shift (t :: x) ε = (t + ε) :: pa_shift x ε := rfl

theorem pa_monoR_shift_cont (a : Exp) (x : List ℝ) : Continuous fun ε => monoR a (pa_shift x ε) := by
  induction a generalizing x with
  | nil =>
    simp only [pa_monoR_nil_left]
    exact continuous_const
  | cons q a ih =>
    cases x with
    | nil =>
      have : (fun ε => monoR (q :: a) (pa_shift [] ε)) = fun _ => (1 : ℝ) := by
        funext ε
        exact pa_monoR_nil_right _
      rw [this]
      exact continuous_const
    | cons t x =>
      have : (fun ε => monoR (q :: a) (pa_shift (t :: x) ε)) =
          fun ε => (t + ε) ^ q.num.toNat * monoR a (pa_shift x ε) := by
        funext ε
        rw [pa_shift_cons, pa_monoR_cons]
      rw [this]
      exact ((continuous_const.add continuous_id).pow _).mul (ih x)

theorem pa_polyR_shift_cont (ts : List (Exp × Rat)) (x : List ℝ) :
    Continuous fun ε => polyR ts (pa_shift x ε) := by
  induction ts with
  | nil =>
    simp only [pa_polyR_nil]
    exact continuous_const
  | cons t ts ih =>
    simp only [pa_polyR_cons]
    exact (continuous_const.mul (pa_monoR_shift_cont t.1 x)).add ih

theorem pa_shift_noZero (x : List ℝ) : ∀ᶠ ε in 𝓝[>] (0 : ℝ), NoZero (pa_shift x ε) := by
  induction x with
  | nil => exact Eventually.of_forall fun ε s hs => by simp [pa_shift] at hs
  | cons t x ih =>
    have h1 : ∀ᶠ ε in 𝓝[>] (0 : ℝ), t + ε ≠ 0 := by
      by_cases ht : 0 ≤ t
      · refine eventually_nhdsWithin_of_forall fun ε hε => ?_
        have : (0 : ℝ) < ε := hε
        linarith
      · have hm : Set.Iio (-t) ∈ 𝓝[>] (0 : ℝ) :=
          mem_nhdsWithin_of_mem_nhds (Iio_mem_nhds (by linarith))
        filter_upwards [hm] with ε hε
        have : ε < -t := hε
        linarith
    filter_upwards [h1, ih] with ε h1 h2
    intro s hs
    rw [pa_shift_cons, List.mem_cons] at hs
    rcases hs with rfl | hs
    · exact h1
    · exact h2 s hs

/-- a lower bound valid at the shifted points without zero coordinate holds at `x` -/
theorem pa_extend (ts : List (Exp × Rat)) (v : ℝ) (x : List ℝ)
    (h : ∀ ε : ℝ, NoZero (pa_shift x ε) → v ≤ polyR ts (pa_shift x ε)) : v ≤ polyR ts x := by
  have hc : Tendsto (fun ε => polyR ts (pa_shift x ε)) (𝓝[>] (0 : ℝ)) (𝓝 (polyR ts (pa_shift x 0))) :=
    ((pa_polyR_shift_cont ts x).tendsto 0).mono_left nhdsWithin_le_nhds
  rw [pa_shift_zero] at hc
  exact ge_of_tendsto hc ((pa_shift_noZero x).mono h)

end Sageopt.Poly
