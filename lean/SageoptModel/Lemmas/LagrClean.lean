/-
Helper lemmas for C04, part 5: the poison flag of `Lin` never appears in the Lagrangian — every
coefficient product the builder forms has a constant (numeric) factor.
-/
import SageoptModel.Lemmas.LagrIdent

namespace Sageopt.Relax
open Sageopt Sageopt.Sig Sageopt.Sig.LinC Sageopt.Props.C13

theorem lg_cleanT_consolidate {ts : List (Exp × Lin)} (h : CleanT ts) : CleanT (consolidate ts) := by
  unfold consolidate
  cases hd : hasDupKeys (keys ts) with
  | false => simpa using h
  | true =>
    simp only [if_true]
    intro t ht
    obtain ⟨k, _, rfl⟩ := List.mem_map.1 ht
    apply (Lin.bad_sumC _).2
    intro c hc
    obtain ⟨u, hu, rfl⟩ := List.mem_map.1 hc
    exact h u (List.mem_of_mem_filter hu)

theorem lg_cleanT_mk (n : Nat) {ts : List (Exp × Lin)} (h : CleanT ts) : CleanT (mk n ts).terms := by
  rw [Gen.mk_terms]
  apply lg_cleanT_consolidate
  intro t ht
  obtain ⟨u, hu, rfl⟩ := List.mem_map.1 ht
  exact h u hu

theorem lg_cleanT_const (n : Nat) (v : Lin) (hv : v.bad = false) : CleanT (const n v).terms := by
  rw [Gen.const_terms]
  intro t ht
  rw [List.mem_singleton] at ht
  rw [ht]; exact hv

theorem lg_cleanT_withoutZeros (f : SigT Lin) (h : CleanT f.terms) :
    CleanT (withoutZeros Lin.isZero f).terms := by
  rcases Gen.withoutZeros_cases Lin.isZero f with ⟨_, e⟩ | ⟨_, e⟩ | ⟨_, e⟩ | e
  · rwa [e]
  · rwa [e]
  · rw [e]; exact lg_cleanT_const _ _ rfl
  · rw [e]
    apply lg_cleanT_mk
    intro t ht
    exact h t (List.mem_of_mem_filter ht)

theorem lg_lookupC_bad {ts : List (Exp × Lin)} (h : CleanT ts) (k : Exp) : (lookupC ts k).bad = false := by
  unfold lookupC
  split
  · rename_i t ht
    exact h t (List.mem_of_find?_eq_some ht)
  · rfl

theorem lg_cleanT_sumList (n : Nat) (fs : List (SigT Lin)) (h : ∀ f ∈ fs, CleanT f.terms) :
    CleanT (sumList n fs).terms := by
  rcases Gen.sumList_cases n fs with ⟨f, rfl, e⟩ | e
  · rw [e]; exact h f (by simp)
  · rw [e]
    unfold Gen.sumGen
    apply lg_cleanT_mk
    intro t ht
    obtain ⟨k, _, rfl⟩ := List.mem_map.1 ht
    apply (Lin.bad_sumC _).2
    intro c hc
    obtain ⟨f, hf, rfl⟩ := List.mem_map.1 hc
    exact lg_lookupC_bad (h f hf) k

theorem lg_mul_const_bad (x y : Lin) (hx : x.isConstant = true) (hxb : x.bad = false) (hy : y.bad = false) :
    (x * y).bad = false := by
  cases hb : (x * y).bad with
  | false => rfl
  | true =>
    rcases (Lin.mul_bad_iff x y).1 hb with h | h | ⟨h, _⟩
    · rw [hxb] at h; exact absurd h (by simp)
    · rw [hy] at h; exact absurd h (by simp)
    · rw [hx] at h; exact absurd h (by simp)

theorem lg_cleanT_product (f g : SigT Lin) (hc : ∀ t ∈ f.terms, t.2.isConstant = true)
    (hf : CleanT f.terms) (hg : CleanT g.terms) : CleanT (product f g).terms := by
  unfold product
  apply lg_cleanT_mk
  intro t ht
  obtain ⟨t2, h2, ht⟩ := List.mem_flatMap.1 ht
  obtain ⟨t1, h1, rfl⟩ := List.mem_map.1 ht
  exact lg_mul_const_bad _ _ (hc t1 h1) (hf t1 h1) (hg t2 h2)

theorem lg_cleanT_embed (f : SigQ) : CleanT (embed f).terms := by
  intro t ht
  obtain ⟨u, _, rfl⟩ := List.mem_map.1 ht
  rfl

theorem lg_cleanT_varSig (n : Nat) (alpha : List Exp) (ids : List Nat) : CleanT (varSig n alpha ids).terms := by
  unfold varSig
  apply lg_cleanT_mk
  intro t ht
  obtain ⟨i, _, hi⟩ := List.mem_map.1 (List.of_mem_zip ht).2
  rw [← hi]
  rfl

theorem lg_scale_bad (q : Rat) (x : Lin) : (Lin.scale q x).bad = x.bad := by
  unfold Lin.scale
  split <;> rfl

/-- `L0 = f − γ` is clean -/
theorem lg_L0_clean (f : SigQ) (γ : Nat) :
    CleanT (okOr (add Lin.isZero (embed f) (const f.n (Lin.scale (-1) (Lin.var γ)))) (embed f)).terms := by
  rw [lg_add_ok]
  simp only [okOr]
  apply lg_cleanT_withoutZeros
  apply lg_cleanT_sumList
  intro x hx
  simp only [List.mem_cons, List.not_mem_nil, or_false] at hx
  rcases hx with rfl | rfl
  · exact lg_cleanT_embed f
  · exact lg_cleanT_const _ _ (by rw [lg_scale_bad]; rfl)

/-- every summand `−g · s_g` is clean: the numeric factor is constant -/
theorem lg_summand_clean (n : Nat) (g : SigQ) (hgn : g.n = n) (alphaHat : List Exp) (ids : List Nat) :
    CleanT (okOr (mul Lin.isZero (embed (neg isZeroQ g)) (varSig n alphaHat ids)) (embed g)).terms := by
  rw [lg_mul_ok n g hgn]
  simp only [okOr]
  apply lg_cleanT_withoutZeros
  exact lg_cleanT_product _ _ (lg_embed_const _) (lg_cleanT_embed _) (lg_cleanT_varSig _ _ _)

end Sageopt.Relax
