/-
C07 helper lemmas, atoms: the epigraph relation `AtomLe` (monotone, depends only on (kind, args), has a
least element) and the per-atom epigraph rows.
-/
import SageoptModel.Lemmas.CompileBasic
import Mathlib.Analysis.SpecialFunctions.Log.Basic
import Mathlib.Analysis.SpecialFunctions.Sqrt
import Mathlib.Tactic.Positivity
import Mathlib.Tactic.FieldSimp

namespace Sageopt.Compile
open Sageopt Sageopt.Solvers Sageopt.Analysis

theorem atomLe_congr (σ : Nat → ℝ) (a b : NlAtom) (h : a.same b = true) (t : ℝ) :
    AtomLe σ a t ↔ AtomLe σ b t := by
  obtain ⟨k, ar, e⟩ := a
  obtain ⟨k', ar', e'⟩ := b
  rw [same_iff] at h
  obtain ⟨h1, h2⟩ := h
  simp only at h1 h2
  subst h1; subst h2
  exact Iff.rfl

theorem atomLe_mono' (σ : Nat → ℝ) (a : NlAtom) (t t' : ℝ) (h : AtomLe σ a t) (ht : t ≤ t') :
    AtomLe σ a t' := by
  obtain ⟨k, ar, e⟩ := a
  cases k
  · rcases ar with _ | ⟨x, _ | ⟨y, rest⟩⟩
    · exact h.elim
    · exact le_trans (show |argVal σ x| ≤ t from h) ht
    · exact h.elim
  · rcases ar with _ | ⟨x, _ | ⟨y, rest⟩⟩
    · exact h.elim
    · exact le_trans (show max (argVal σ x) 0 ≤ t from h) ht
    · exact h.elim
  · rcases ar with _ | ⟨x, _ | ⟨y, rest⟩⟩
    · exact h.elim
    · exact le_trans (show Real.exp (argVal σ x) ≤ t from h) ht
    · exact h.elim
  · rcases ar with _ | ⟨x, _ | ⟨y, _ | ⟨z, rest⟩⟩⟩
    · exact h.elim
    · exact h.elim
    · rcases (show (0 < argVal σ x ∧ 0 < argVal σ y ∧ argVal σ x * Real.log (argVal σ x / argVal σ y) ≤ t) ∨
          (argVal σ x = 0 ∧ 0 ≤ argVal σ y ∧ 0 ≤ t) from h) with ⟨h1, h2, h3⟩ | ⟨h1, h2, h3⟩
      · exact Or.inl ⟨h1, h2, le_trans h3 ht⟩
      · exact Or.inr ⟨h1, h2, le_trans h3 ht⟩
    · exact h.elim
  · exact le_trans (show Real.sqrt ((ar.map fun x => (argVal σ x) ^ 2).sum) ≤ t from h) ht

theorem isVal_of_le_form (σ : Nat → ℝ) (a : NlAtom) (f : ℝ) (h : ∀ t, AtomLe σ a t ↔ f ≤ t) :
    IsVal σ a f :=
  ⟨(h f).2 (le_refl f), fun t ht => (h t).1 ht⟩

theorem atom_has_value' (σ : Nat → ℝ) (a : NlAtom) (t : ℝ) (h : AtomLe σ a t) : ∃ v, IsVal σ a v := by
  obtain ⟨k, ar, e⟩ := a
  cases k
  · rcases ar with _ | ⟨x, _ | ⟨y, rest⟩⟩
    · exact h.elim
    · exact ⟨_, isVal_of_le_form σ _ |argVal σ x| fun _ => Iff.rfl⟩
    · exact h.elim
  · rcases ar with _ | ⟨x, _ | ⟨y, rest⟩⟩
    · exact h.elim
    · exact ⟨_, isVal_of_le_form σ _ (max (argVal σ x) 0) fun _ => Iff.rfl⟩
    · exact h.elim
  · rcases ar with _ | ⟨x, _ | ⟨y, rest⟩⟩
    · exact h.elim
    · exact ⟨_, isVal_of_le_form σ _ (Real.exp (argVal σ x)) fun _ => Iff.rfl⟩
    · exact h.elim
  · rcases ar with _ | ⟨x, _ | ⟨y, _ | ⟨z, rest⟩⟩⟩
    · exact h.elim
    · exact h.elim
    · rcases (show (0 < argVal σ x ∧ 0 < argVal σ y ∧ argVal σ x * Real.log (argVal σ x / argVal σ y) ≤ t) ∨
          (argVal σ x = 0 ∧ 0 ≤ argVal σ y ∧ 0 ≤ t) from h) with ⟨h1, h2, h3⟩ | ⟨h1, h2, h3⟩
      · refine ⟨argVal σ x * Real.log (argVal σ x / argVal σ y), Or.inl ⟨h1, h2, le_refl _⟩, ?_⟩
        intro s hs
        rcases (show (0 < argVal σ x ∧ 0 < argVal σ y ∧ argVal σ x * Real.log (argVal σ x / argVal σ y) ≤ s) ∨
          (argVal σ x = 0 ∧ 0 ≤ argVal σ y ∧ 0 ≤ s) from hs) with ⟨_, _, h6⟩ | ⟨h4, _, _⟩
        · exact h6
        · rw [h4] at h1; exact absurd h1 (lt_irrefl 0)
      · refine ⟨0, Or.inr ⟨h1, h2, le_refl _⟩, ?_⟩
        intro s hs
        rcases (show (0 < argVal σ x ∧ 0 < argVal σ y ∧ argVal σ x * Real.log (argVal σ x / argVal σ y) ≤ s) ∨
          (argVal σ x = 0 ∧ 0 ≤ argVal σ y ∧ 0 ≤ s) from hs) with ⟨h4, _, _⟩ | ⟨_, _, h6⟩
        · rw [h1] at h4; exact absurd h4 (lt_irrefl 0)
        · exact h6
    · exact h.elim
  · exact ⟨_, isVal_of_le_form σ _ (Real.sqrt ((ar.map fun x => (argVal σ x) ^ 2).sum)) fun _ => Iff.rfl⟩

theorem isVal_unique (σ : Nat → ℝ) (a : NlAtom) (v w : ℝ) (hv : IsVal σ a v) (hw : IsVal σ a w) : v = w :=
  le_antisymm (hv.2 w hw.1) (hw.2 v hv.1)

theorem isVal_congr (σ : Nat → ℝ) (a b : NlAtom) (h : a.same b = true) (v : ℝ) :
    IsVal σ a v ↔ IsVal σ b v := by
  unfold IsVal
  constructor
  · rintro ⟨h1, h2⟩
    exact ⟨(atomLe_congr σ a b h v).1 h1, fun t ht => h2 t ((atomLe_congr σ a b h t).2 ht)⟩
  · rintro ⟨h1, h2⟩
    exact ⟨(atomLe_congr σ a b h v).2 h1, fun t ht => h2 t ((atomLe_congr σ a b h t).1 ht)⟩

/-! ### epigraph rows -/

theorem crowVal_false (σ : Nat → ℝ) (ents : List (Nat × Rat)) (c : Rat) :
    crowVal σ ⟨ents, c, false⟩ = (ents.map fun e => (e.2 : ℝ) * σ e.1).sum + (c : ℝ) := by
  simp [crowVal]

theorem crowVal_true (σ : Nat → ℝ) (ents : List (Nat × Rat)) (c : Rat) :
    crowVal σ ⟨ents, c, true⟩ = Real.exp 1 * ((ents.map fun e => (e.2 : ℝ) * σ e.1).sum + (c : ℝ)) := by
  simp [crowVal]

theorem sum_scaled (σ : Nat → ℝ) (s : Rat) (co : List (Nat × Rat)) :
    ((co.map fun p => (p.1, s * p.2)).map fun e => ((e.2 : Rat) : ℝ) * σ e.1).sum
      = (s : ℝ) * (co.map fun p => (p.2 : ℝ) * σ p.1).sum := by
  induction co with
  | nil => simp
  | cons p co ih =>
    simp only [List.map_cons, List.sum_cons, ih]
    push_cast; ring

theorem sum_negated (σ : Nat → ℝ) (co : List (Nat × Rat)) :
    ((co.map fun p => (p.1, -p.2)).map fun e => ((e.2 : Rat) : ℝ) * σ e.1).sum
      = - (co.map fun p => (p.2 : ℝ) * σ p.1).sum := by
  induction co with
  | nil => simp
  | cons p co ih =>
    simp only [List.map_cons, List.sum_cons, ih]
    push_cast; ring

theorem argEntries_val (σ : Nat → ℝ) (x : AffArg) (dummy : Nat) :
    ((argEntries x dummy).map fun e => ((e.2 : Rat) : ℝ) * σ e.1).sum + (x.off : ℝ) = argVal σ x := by
  unfold argEntries argVal
  by_cases h : x.co.isEmpty = true
  · have : x.co = [] := by simpa using h
    simp [this]
  · simp only [h]
    rw [if_neg (by simp), sum_scaled]; simp

theorem relent_cone_iff (x y t : ℝ) :
    InExpCone (-t) y x ↔ (0 < x ∧ 0 < y ∧ x * Real.log (x / y) ≤ t) ∨ (x = 0 ∧ 0 ≤ y ∧ 0 ≤ t) := by
  unfold InExpCone
  constructor
  · rintro (⟨hx, h⟩ | ⟨hx, ht, hy⟩)
    · left
      have hy : 0 < y := lt_of_lt_of_le (mul_pos hx (Real.exp_pos _)) h
      refine ⟨hx, hy, ?_⟩
      have h1 : Real.exp (-t / x) ≤ y / x := by
        rw [le_div_iff₀ hx]; linarith
      have h2 : -t / x ≤ Real.log (y / x) := by
        rw [Real.le_log_iff_exp_le (div_pos hy hx)]; exact h1
      have h3 : Real.log (x / y) = - Real.log (y / x) := by
        rw [← Real.log_inv]; congr 1; field_simp
      rw [h3]
      have h4 : x * (-t / x) ≤ x * Real.log (y / x) := mul_le_mul_of_nonneg_left h2 hx.le
      have h5 : x * (-t / x) = -t := by field_simp
      linarith
    · right; exact ⟨hx, hy, by linarith⟩
  · rintro (⟨hx, hy, h⟩ | ⟨hx, hy, ht⟩)
    · left
      refine ⟨hx, ?_⟩
      have h3 : Real.log (x / y) = - Real.log (y / x) := by
        rw [← Real.log_inv]; congr 1; field_simp
      rw [h3] at h
      have h2 : -t / x ≤ Real.log (y / x) := by
        rw [div_le_iff₀ hx]; linarith
      rw [Real.le_log_iff_exp_le (div_pos hy hx), le_div_iff₀ hx] at h2
      linarith
    · right; exact ⟨hx, by linarith, hy⟩

theorem epiRows_sem (Q : CType → List ℝ → Prop) (σ : Nat → ℝ) (a : NlAtom) (dummy : Nat)
    (rows : List CRow) (k : Cone) (h : epiRows a dummy = .ok (rows, k)) :
    FeasBlocks (conP Q) [k] (rows.map (crowVal σ)) ↔ AtomLe σ a (σ a.epi) := by
  obtain ⟨kd, ar, e⟩ := a
  cases kd
  · rcases ar with _ | ⟨x, _ | ⟨y, rest⟩⟩
    · cases h
    · simp only [epiRows, pure, Except.pure, Except.ok.injEq, Prod.mk.injEq] at h
      obtain ⟨rfl, rfl⟩ := h
      show conP Q .pos _ ∧ True ↔ |argVal σ x| ≤ σ e
      simp only [conP, realP, List.map_cons, List.map_nil, crowVal_false, List.sum_cons, sum_negated,
        List.take, List.mem_cons, List.not_mem_nil, or_false, forall_eq_or_imp, forall_eq, and_true]
      have hx : argVal σ x = (x.co.map fun p => (p.2 : ℝ) * σ p.1).sum + (x.off : ℝ) := rfl
      rw [abs_le, hx]
      push_cast
      constructor
      · rintro ⟨h1, h2⟩; constructor <;> linarith
      · rintro ⟨h1, h2⟩; constructor <;> linarith
    · cases h
  · rcases ar with _ | ⟨x, _ | ⟨y, rest⟩⟩
    · cases h
    · simp only [epiRows, pure, Except.pure, Except.ok.injEq, Prod.mk.injEq] at h
      obtain ⟨rfl, rfl⟩ := h
      show conP Q .pos _ ∧ True ↔ max (argVal σ x) 0 ≤ σ e
      simp only [conP, realP, List.map_cons, List.map_nil, crowVal_false, List.sum_cons, sum_negated,
        List.take, List.mem_cons, List.not_mem_nil, or_false, forall_eq_or_imp, forall_eq, and_true]
      have hx : argVal σ x = (x.co.map fun p => (p.2 : ℝ) * σ p.1).sum + (x.off : ℝ) := rfl
      rw [max_le_iff, hx]
      push_cast
      simp only [List.sum_nil]
      constructor
      · rintro ⟨h1, h2⟩; constructor <;> linarith
      · rintro ⟨h1, h2⟩; constructor <;> linarith
    · cases h
  · rcases ar with _ | ⟨x, _ | ⟨y, rest⟩⟩
    · cases h
    · simp only [epiRows, pure, Except.pure, Except.ok.injEq, Prod.mk.injEq] at h
      obtain ⟨rfl, rfl⟩ := h
      show conP Q .exp _ ∧ True ↔ Real.exp (argVal σ x) ≤ σ e
      simp only [conP, realP, List.map_cons, List.map_nil, crowVal_false, List.sum_cons, List.sum_nil,
        List.take, and_true, argEntries_val, expR, InExpCone]
      push_cast
      simp
    · cases h
  · rcases ar with _ | ⟨x, _ | ⟨y, _ | ⟨z, rest⟩⟩⟩
    · cases h
    · cases h
    · simp only [epiRows, pure, Except.pure, Except.ok.injEq, Prod.mk.injEq] at h
      obtain ⟨rfl, rfl⟩ := h
      show conP Q .exp _ ∧ True ↔
        (0 < argVal σ x ∧ 0 < argVal σ y ∧ argVal σ x * Real.log (argVal σ x / argVal σ y) ≤ σ e) ∨
        (argVal σ x = 0 ∧ 0 ≤ argVal σ y ∧ 0 ≤ σ e)
      simp only [conP, realP, List.map_cons, List.map_nil, crowVal_false, List.sum_cons, List.sum_nil,
        List.take, and_true, argEntries_val, expR]
      push_cast
      simp only [add_zero, neg_mul, one_mul]
      exact relent_cone_iff _ _ _
    · cases h
  · simp only [epiRows, pure, Except.pure, Except.ok.injEq, Prod.mk.injEq] at h
    obtain ⟨rfl, rfl⟩ := h
    show conP Q .soc _ ∧ True ↔ Real.sqrt ((ar.map fun x => (argVal σ x) ^ 2).sum) ≤ σ e
    rw [Real.sqrt_le_iff]
    simp only [conP, realP, List.map_cons, List.map_map, List.take_succ_cons]
    rw [List.take_of_length_le (by simp)]
    simp only [socR, crowVal_false, List.map_map, and_true]
    have h1 : (List.map (fun e => ((e.2 : Rat) : ℝ) * σ e.1) [(e, (1 : Rat))]).sum + ((0 : Rat) : ℝ) = σ e := by
      simp
    have h2 : ((fun x : ℝ => x ^ 2) ∘ crowVal σ ∘ fun x : AffArg => ({ entries := argEntries x dummy, const := x.off } : CRow))
        = fun x => argVal σ x ^ 2 := by
      funext x
      simp only [Function.comp, crowVal_false, argEntries_val]
    rw [h1, h2]


theorem epiRows_length (a : NlAtom) (dummy : Nat) (rows : List CRow) (k : Cone)
    (h : epiRows a dummy = .ok (rows, k)) : rows.length = k.len := by
  obtain ⟨kd, ar, e⟩ := a
  cases kd
  · rcases ar with _ | ⟨x, _ | ⟨y, rest⟩⟩
    · cases h
    · simp only [epiRows, pure, Except.pure, Except.ok.injEq, Prod.mk.injEq] at h
      obtain ⟨rfl, rfl⟩ := h; rfl
    · cases h
  · rcases ar with _ | ⟨x, _ | ⟨y, rest⟩⟩
    · cases h
    · simp only [epiRows, pure, Except.pure, Except.ok.injEq, Prod.mk.injEq] at h
      obtain ⟨rfl, rfl⟩ := h; rfl
    · cases h
  · rcases ar with _ | ⟨x, _ | ⟨y, rest⟩⟩
    · cases h
    · simp only [epiRows, pure, Except.pure, Except.ok.injEq, Prod.mk.injEq] at h
      obtain ⟨rfl, rfl⟩ := h; rfl
    · cases h
  · rcases ar with _ | ⟨x, _ | ⟨y, _ | ⟨z, rest⟩⟩⟩
    · cases h
    · cases h
    · simp only [epiRows, pure, Except.pure, Except.ok.injEq, Prod.mk.injEq] at h
      obtain ⟨rfl, rfl⟩ := h; rfl
    · cases h
  · simp only [epiRows, pure, Except.pure, Except.ok.injEq, Prod.mk.injEq] at h
    obtain ⟨rfl, rfl⟩ := h
    simp

end Sageopt.Compile
