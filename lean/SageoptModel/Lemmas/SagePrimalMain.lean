/-
C01: assembly of the soundness theorem for `primalRows` from the per-block lemmas.
-/
import SageoptModel.Lemmas.SagePrimalCond

namespace Sageopt.Sage
open Sageopt Sageopt.Compile Sageopt.Solvers Sageopt.Analysis
open Finset

/-- kernel-basis witnesses: the basis lies in the kernel of the balance matrix -/
def sp_KernelOk (inp : PrimalIn) : Prop :=
  inp.settings.kernelBasis = true → ∀ p ∈ inp.ids, p.basis ≠ [] →
    ∀ t, t < inp.n → ∀ l, l < p.nu.length →
      ((trueIdx (coverOf inp.ech p.i)).zipIdx.map fun (j, k) =>
        ((inp.alpha.getD j []).getD t 0 - (inp.alpha.getD p.i []).getD t 0) * ((p.basis.getD k []).getD l 0)).sum = 0

theorem sp_forall₂_left {α β : Type} {R : α → β → Prop} {l : List α} {out : List β}
    (h : List.Forall₂ R l out) : ∀ x ∈ l, ∃ y ∈ out, R x y := by
  induction h with
  | nil => intro x hx; cases hx
  | @cons a b l out h1 _ ih =>
    intro x hx
    rcases List.mem_cons.1 hx with rfl | hx
    · exact ⟨b, List.mem_cons_self .., h1⟩
    · obtain ⟨y, hy, hr⟩ := ih x hx
      exact ⟨y, List.mem_cons_of_mem _ hy, hr⟩

theorem sp_isEmpty_false {α : Type} (l : List α) (h : l ≠ []) : l.isEmpty = false := by
  cases l with
  | nil => exact absurd rfl h
  | cons a l => rfl

/-- every block has as many rows as its cones ask for -/
theorem sp_block_length (inp : PrimalIn) (hwf : WfPrimal inp) (p : PIds) (hp : p ∈ inp.ids)
    (blk : List CRow × List Cone) (hb : sp_perBlock inp p = .ok blk) : blk.1.length = totalLen blk.2 := by
  by_cases hnu : p.nu = []
  · rw [sp_perBlock_triv inp p hnu] at hb
    cases hb; rfl
  · cases hX : inp.X with
    | none =>
      cases hk : inp.settings.kernelBasis with
      | false =>
        rw [sp_perBlock_ord inp p hnu hX hk] at hb
        cases hb
        simp only [List.length_append, totalLen_append, sp_sumRelent_length, sp_matvec_length]
        simp
      | true =>
        rw [sp_perBlock_ordK inp p hnu hX hk] at hb
        cases hb
        exact sp_sumRelent_length ..
    | some X =>
      obtain ⟨r3, k3, hc, rfl⟩ := sp_perBlock_cond inp p hnu X hX blk hb
      obtain ⟨⟨_, _, _, hbK, hKt, _⟩, heta⟩ := hwf.dom X hX
      have hd := (dual_rows_sem (fun _ _ => True) (fun _ => 0) inp.dummy _ X.K hKt
        (by rw [List.length_map, heta p hp hnu, hbK]) r3 k3 hc).1
      simp only [List.length_append, totalLen_append, sp_sumRelent_length, hd]
      simp [sp_condEq]

/-- soundness of one block -/
theorem sp_block_sound (Q : CType → List ℝ → Prop) (inp : PrimalIn) (hwf : WfPrimal inp) (hker : sp_KernelOk inp)
    (hcov0 : ∀ p ∈ inp.ids, p.nu = [] → trueIdx (coverOf inp.ech p.i) = [])
    (hbasis : inp.settings.kernelBasis = true → ∀ p ∈ inp.ids, p.nu ≠ [] → (p.basis ≠ [] ↔ inp.X = none))
    (σ : Nat → ℝ) (p : PIds) (hp : p ∈ inp.ids)
    (blk : List CRow × List Cone) (hb : sp_perBlock inp p = .ok blk)
    (hf : FeasBlocks (conP Q) blk.2 (blk.1.map (crowVal σ))) :
    (∀ j, j < inp.alpha.length → j ≠ p.i → 0 ≤ ageVal σ inp.alpha.length inp.c inp.ech p j) ∧
    ∀ x : List ℝ, InDom Q inp.X inp.n x → 0 ≤ ∑ j ∈ range inp.alpha.length,
      ageVal σ inp.alpha.length inp.c inp.ech p j * Real.exp (rdot (inp.alpha.getD j []) x) := by
  have hpw := sp_pwf_of_wf inp hwf p hp
  by_cases hnu : p.nu = []
  · rw [sp_perBlock_triv inp p hnu] at hb
    cases hb
    obtain ⟨h1, h2⟩ := sp_triv_sound Q σ inp p hpw (hcov0 p hp hnu) hf
    exact ⟨h1, fun x _ => h2 x⟩
  · obtain ⟨hx, he, _⟩ := (hwf.sizes p hp).1 hnu
    cases hX : inp.X with
    | none =>
      cases hk : inp.settings.kernelBasis with
      | false =>
        rw [sp_perBlock_ord inp p hnu hX hk] at hb
        cases hb
        obtain ⟨h1, h2⟩ := sp_ord_sound Q σ inp hwf.width p hpw (by rw [hk]; rfl) hx he hf
        exact ⟨h1, fun x hx => h2 x hx.1⟩
      | true =>
        rw [sp_perBlock_ordK inp p hnu hX hk] at hb
        cases hb
        have hbne : p.basis ≠ [] := ((hbasis hk p hp hnu).2 hX)
        have hkb : (inp.settings.kernelBasis && !p.basis.isEmpty) = true := by
          rw [hk, sp_isEmpty_false _ hbne]; rfl
        obtain ⟨h1, h2⟩ := sp_ordK_sound Q σ inp p hpw hkb (hker hk p hp hbne) hx he hf
        exact ⟨h1, fun x hx => h2 x hx.1⟩
    | some X =>
      obtain ⟨r3, k3, hc, rfl⟩ := sp_perBlock_cond inp p hnu X hX blk hb
      obtain ⟨hdom, heta⟩ := hwf.dom X hX
      have hplain : (inp.settings.kernelBasis && !p.basis.isEmpty) = false := by
        cases hk : inp.settings.kernelBasis with
        | false => rfl
        | true =>
          have : p.basis = [] := by
            by_contra hne
            have := (hbasis hk p hp hnu).1 hne
            rw [hX] at this; cases this
          rw [this]; rfl
      exact sp_cond_sound Q σ inp hwf.width X hdom p hpw hplain hx he (heta p hp hnu) r3 k3 hc hf

/-- a signomial with nonnegative coefficients is nonnegative -/
theorem sp_sum_exp_nonneg (m : ℕ) (f E : ℕ → ℝ) (hf : ∀ j, j < m → 0 ≤ f j) (hE : ∀ j, 0 ≤ E j) :
    0 ≤ ∑ j ∈ range m, f j * E j :=
  Finset.sum_nonneg fun j hj => mul_nonneg (hf j (Finset.mem_range.1 hj)) (hE j)

theorem sp_flatMap_length (l : List (List CRow × List Cone)) (hlen : ∀ blk ∈ l, blk.1.length = totalLen blk.2) :
    (l.flatMap (·.1)).length = totalLen (l.flatMap (·.2)) := by
  induction l with
  | nil => rfl
  | cons b l ih =>
    rw [List.flatMap_cons, List.flatMap_cons, List.length_append, totalLen_append,
      hlen b (List.mem_cons_self ..), ih (fun q hq => hlen q (List.mem_cons_of_mem _ hq))]

theorem sp_primal_sound (Q : CType → List ℝ → Prop) (inp : PrimalIn) (hwf : WfPrimal inp) (hker : sp_KernelOk inp)
    (hcov0 : ∀ p ∈ inp.ids, p.nu = [] → trueIdx (coverOf inp.ech p.i) = [])
    (hbasis : inp.settings.kernelBasis = true → ∀ p ∈ inp.ids, p.nu ≠ [] → (p.basis ≠ [] ↔ inp.X = none))
    (rows : List CRow) (K : List Cone) (h : primalRows inp = .ok (rows, K))
    (σ : Nat → ℝ) (hσ : FeasRows Q σ rows K) :
    ((inp.ids.filter fun p => !p.nu.isEmpty) ≠ [] →
      (∀ j, j < inp.alpha.length →
        (inp.ids.map fun p => ageVal σ inp.alpha.length inp.c inp.ech p j).sum ≤ cVal σ inp.c j) ∧
      (inp.settings.sumAgeForceEquality = true →
        ∀ j, j < inp.alpha.length → reachedB inp.ech j = true →
          (inp.ids.map fun p => ageVal σ inp.alpha.length inp.c inp.ech p j).sum = cVal σ inp.c j) ∧
      (∀ p ∈ inp.ids, ∀ j, j < inp.alpha.length → j ≠ p.i → 0 ≤ ageVal σ inp.alpha.length inp.c inp.ech p j) ∧
      (∀ p ∈ inp.ids, ∀ x, InDom Q inp.X inp.n x →
        0 ≤ sigVal inp.alpha ((List.range inp.alpha.length).map fun j => ageVal σ inp.alpha.length inp.c inp.ech p j) x)) ∧
    (∀ x, InDom Q inp.X inp.n x →
      0 ≤ sigVal inp.alpha ((List.range inp.alpha.length).map fun j => cVal σ inp.c j) x) := by
  by_cases hd : (inp.ids.filter fun p => !p.nu.isEmpty) = []
  · -- degenerate: `c ≥ 0`
    refine ⟨fun hne => absurd hd hne, ?_⟩
    obtain ⟨rfl, rfl⟩ := sp_primalRows_degenerate inp rows K h hd
    unfold FeasRows at hσ
    rw [feasBlocks_single _ _ _ _ (by simp)] at hσ
    simp only [conP, realP, List.map_map, List.mem_map, forall_exists_index, and_imp,
      forall_apply_eq_imp_iff₂, Function.comp, sp_nonnegRow_val] at hσ
    intro x _
    rw [sp_sigVal_range]
    apply sp_sum_exp_nonneg _ _ _ _ (fun j => (Real.exp_pos _).le)
    intro j hj
    exact hσ _ (sp_getD_mem inp.c j (constE 0) (by rw [hwf.clen]; exact hj))
  · obtain ⟨perI, hm, rfl, rfl⟩ := sp_primalRows_ok inp rows K h hd
    rw [mapM_ok_iff] at hm
    have hlen : ∀ blk ∈ perI, blk.1.length = totalLen blk.2 :=
      forall₂_forall_right hm (fun p hp blk hb => sp_block_length inp hwf p hp blk hb)
    have hlenA := sp_flatMap_length perI hlen
    unfold FeasRows at hσ
    rw [List.map_append, feasBlocks_append _ _ _ _ _ (by rw [List.length_map]; exact hlenA),
      feasBlocks_flatMap _ _ _ hlen] at hσ
    obtain ⟨hblocks, hsum⟩ := hσ
    -- per-block facts
    have hper : ∀ p ∈ inp.ids,
        (∀ j, j < inp.alpha.length → j ≠ p.i → 0 ≤ ageVal σ inp.alpha.length inp.c inp.ech p j) ∧
        ∀ x : List ℝ, InDom Q inp.X inp.n x → 0 ≤ ∑ j ∈ range inp.alpha.length,
          ageVal σ inp.alpha.length inp.c inp.ech p j * Real.exp (rdot (inp.alpha.getD j []) x) := by
      intro p hp
      obtain ⟨blk, hblk, hb⟩ := sp_forall₂_left hm p hp
      exact sp_block_sound Q inp hwf hker hcov0 hbasis σ p hp blk hb (hblocks blk hblk)
    -- the sum rows
    rw [sp_sumToC_feas] at hsum
    · have hmap : ∀ j, ((inp.ids.map (ageVector inp.alpha.length inp.c inp.ech)).map
          fun a => argVal σ (a.getD j (constE 0))).sum
          = (inp.ids.map fun p => ageVal σ inp.alpha.length inp.c inp.ech p j).sum := by
        intro j; rw [List.map_map]; rfl
      have hle : ∀ j, j < inp.alpha.length →
          (inp.ids.map fun p => ageVal σ inp.alpha.length inp.c inp.ech p j).sum ≤ cVal σ inp.c j := by
        intro j hj
        have := hsum j hj
        rw [hmap] at this
        split at this
        · exact le_of_eq this
        · exact this
      have hiv : ∀ x, InDom Q inp.X inp.n x →
          0 ≤ sigVal inp.alpha ((List.range inp.alpha.length).map fun j => cVal σ inp.c j) x := by
        intro x hx
        rw [sp_sigVal_range]
        have h1 : 0 ≤ (inp.ids.map fun p => ∑ j ∈ range inp.alpha.length,
            ageVal σ inp.alpha.length inp.c inp.ech p j * Real.exp (rdot (inp.alpha.getD j []) x)).sum := by
          apply List.sum_nonneg
          intro v hv
          rw [List.mem_map] at hv
          obtain ⟨p, hp, rfl⟩ := hv
          exact (hper p hp).2 x hx
        rw [sp_sum_map_comm] at h1
        refine le_trans h1 (Finset.sum_le_sum ?_)
        intro j hj
        have h2 : (inp.ids.map fun p => ageVal σ inp.alpha.length inp.c inp.ech p j
              * Real.exp (rdot (inp.alpha.getD j []) x)).sum
            = (inp.ids.map fun p => ageVal σ inp.alpha.length inp.c inp.ech p j).sum
              * Real.exp (rdot (inp.alpha.getD j []) x) := by
          rw [← List.sum_map_mul_right]
        rw [h2]
        exact mul_le_mul_of_nonneg_right (hle j (Finset.mem_range.1 hj)) (Real.exp_pos _).le
      refine ⟨fun _ => ⟨hle, ?_, fun p hp => (hper p hp).1, ?_⟩, hiv⟩
      · intro hfe j hj hr
        have := hsum j hj
        rw [hmap, hfe, hr] at this
        simpa using this
      · intro p hp x hx
        rw [sp_sigVal_range]
        exact (hper p hp).2 x hx
    · intro a ha j hj
      rw [List.mem_map] at ha
      obtain ⟨p, _, rfl⟩ := ha
      apply sp_age_unit _ _ _ _ _ j hj
      intro hN
      exact hwf.negConst _ (List.contains_iff_mem.1 hN)

end Sageopt.Sage
