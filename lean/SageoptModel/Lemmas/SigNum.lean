/-
Numeric facts about the `Rat` instance of the signomial model (C12): exact roots, integer powers
and the shape of `pow` on non-(natural-number) exponents.
-/
import SageoptModel.Lemmas.SigSem
import Mathlib.Algebra.Order.Field.Rat
import Mathlib.Algebra.Order.Ring.Abs
import Mathlib.Data.Rat.Lemmas

namespace Sageopt.Sig

theorem natRoot_spec (k a r : Nat) (h : natRoot? k a = some r) : r ^ k = a := by
  unfold natRoot? at h
  have := List.find?_some h
  simpa using this

set_option linter.unusedVariables false in
theorem ratPowInt_spec (v : Rat) (hv : v ≠ 0) (p : Int) : ratPowInt v p = v ^ p := by
  unfold ratPowInt
  split
  · rename_i h
    conv_rhs => rw [← Int.toNat_of_nonneg h]
    rw [zpow_natCast]
  · rename_i h
    have h' : 0 ≤ -p := by omega
    have : p = -((-p).toNat : Int) := by rw [Int.toNat_of_nonneg h']; omega
    conv_rhs => rw [this]
    rw [zpow_neg, zpow_natCast, one_div]

set_option linter.unusedVariables false in
theorem ratRoot_spec (k : Nat) (hk : 0 < k) (q r : Rat) (h : ratRoot? k q = some r) : 0 ≤ r ∧ r ^ k = q := by
  unfold ratRoot? at h
  split at h
  · simp at h
  · rename_i hq
    have hq : 0 ≤ q := not_lt.mp hq
    split at h
    · rename_i a b ha hb
      split at h
      · simp at h
      · rename_i hb0
        simp only [Option.some.injEq] at h
        subst h
        have ha := natRoot_spec _ _ _ ha
        have hb := natRoot_spec _ _ _ hb
        refine ⟨div_nonneg (Nat.cast_nonneg _) (Nat.cast_nonneg _), ?_⟩
        rw [div_pow]
        have hn : 0 ≤ q.num := Rat.num_nonneg.mpr hq
        have h1 : ((a : Rat)) ^ k = (q.num : Rat) := by
          have : ((a ^ k : Nat) : Int) = q.num := by rw [ha]; exact Int.toNat_of_nonneg hn
          have := congrArg (Int.cast (R := Rat)) this
          push_cast at this
          exact this
        have h2 : ((b : Rat)) ^ k = (q.den : Rat) := by
          rw [← hb]; push_cast; rfl
        rw [h1, h2]
        exact Rat.num_div_den q
    · simp at h

theorem pow_monomial (f g : SigT Rat) (p : Rat) (hp : ¬ (p.den = 1 ∧ p ≥ 0)) (h : pow f p = .ok g) :
    ∃ a c c', (f.terms.filter fun t => !(isZeroQ t.2)) = [(a, c)] ∧ c ≠ 0 ∧
      g = mk f.n [(a.map (p * ·), c')] ∧ c' ^ p.den = c ^ p.num := by
  unfold pow at h
  rw [if_neg hp] at h
  simp only at h
  split at h
  · rename_i d t hd
    split at h
    · simp at h
    · split at h
      · simp at h
      · rename_i hneg hz
        split at h
        · simp at h
        · rename_i c' hc'
          obtain ⟨a, c⟩ := t
          simp only [Res.ok.injEq] at h
          have hc0 : c ≠ 0 := by
            intro hc; apply hz; simp [hc]
          refine ⟨a, c, c', hd, hc0, h.symm, ?_⟩
          simp only at hc'
          unfold ratPow? at hc'
          split at hc'
          · rename_i hden
            simp only [Option.some.injEq] at hc'
            rw [← hc', hden, pow_one, ratPowInt_spec c hc0]
          · rename_i hden
            cases hr : ratRoot? p.den c with
            | none => simp [hr] at hc'
            | some r =>
              simp only [hr, Option.map_some, Option.some.injEq] at hc'
              obtain ⟨_, hrk⟩ := ratRoot_spec p.den p.den_pos c r hr
              have hr0 : r ≠ 0 := by
                intro h0; apply hc0; rw [← hrk, h0, zero_pow p.den_ne_zero]
              rw [← hc', ratPowInt_spec r hr0, ← hrk, ← zpow_natCast, ← zpow_natCast, ← zpow_mul, ← zpow_mul, mul_comm]
  · simp at h

end Sageopt.Sig
