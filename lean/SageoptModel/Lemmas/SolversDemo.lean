/-
Concrete systems over ℚ (and one over ℝ) used by the non-vacuity examples of `Props/C10.lean`.
-/
import SageoptModel.Lemmas.RealCones
import Mathlib.Algebra.Order.Field.Rat
import Mathlib.Tactic.NormNum

namespace Sageopt.Solvers.Demo
open Sageopt Sageopt.Solvers

/-- `min x₁ + x₂  s.t. (1, x₁) ∈ Q², (1, x₂) ∈ Q², x₁ + x₂ + 3 ≥ 0`: two ADJACENT cones of equal type -/
def K1 : List Cone := [⟨.soc, 2⟩, ⟨.soc, 2⟩, ⟨.pos, 1⟩]
def A1 : Mat ℚ := [[0, 0], [1, 0], [0, 0], [0, 1], [1, 1]]
def b1 : Vec ℚ := [1, 0, 1, 0, 3]
def c1 : Vec ℚ := [1, 1]

theorem wf1 : WFSys 2 A1 b1 K1 := ⟨by decide, by decide, by decide, by decide⟩

/-- all four ECOS cone types, interleaved: e, S, 0, S, + -/
def K2 : List Cone := [⟨.exp, 3⟩, ⟨.soc, 2⟩, ⟨.zero, 1⟩, ⟨.soc, 2⟩, ⟨.pos, 1⟩]
def A2 : Mat ℚ := [[1, 0], [0, 0], [0, 1], [0, 0], [1, 0], [1, -1], [0, 0], [0, 1], [1, 1]]
def b2 : Vec ℚ := [0, 1, 0, 2, 0, 0, 2, 0, 3]
def c2 : Vec ℚ := [1, 1]

theorem wf2 : WFSys 2 A2 b2 K2 := ⟨by decide, by decide, by decide, by decide⟩

/-- MOSEK's cones expressed through a coniclifts cone family (so `hquad`, `hpexp`, `hdexp` hold) -/
def pmOf {R : Type} (P : CType → List R → Prop) : MosekConeKind → List R → Prop
  | .quad, v => P .soc v
  | .pexp, [x1, x2, x3] => P .exp [x3, x1, x2]
  | .dexp, [s1, s2, s3] => P .dexp [s3, s1, s2]
  | _, _ => False

/-- a concrete cone family over ℚ (genuine second-order cones; `e`, `de`, `pow`, `P` empty) -/
def socQ : List ℚ → Prop
  | [] => True
  | t :: x => 0 ≤ t ∧ (x.map (· ^ 2)).sum ≤ t ^ 2

def demoP : CType → List ℚ → Prop
  | .zero, v => ∀ a ∈ v, a = 0
  | .pos, v => ∀ a ∈ v, 0 ≤ a
  | .free, _ => True
  | .soc, v => socQ v
  | _, _ => False

def demoSem : ConeSem ℚ where
  P := demoP
  zero_iff _ := Iff.rfl
  pos_iff _ := Iff.rfl
  free_iff _ := Iff.rfl

/-- the ECOS data of system 1 -/
def d1 : EcosData ℚ :=
  { c := [1, 1], G := [[-1, -1], [-0, -0], [-1, -0], [-0, -0], [-0, -1]], h := [3, 1, 0, 1, 0],
    l := 1, q := [2, 2], e := 0, A := [], b := [] }

/-- a primal/dual optimal pair of system 1 (zero gap) -/
def x1 : Vec ℚ := [-1, -1]
def y1 : Vec ℚ := [1, 1, 1, 1, 0]

theorem pair1 : ∀ co ∈ K1, ∀ s y : List ℚ, s.length = co.len → y.length = co.len →
    demoSem.P co.type s → demoSem.P (dualCone co).type y → 0 ≤ dot s y := by
  intro co hco s y _ _ hs hy
  have hsoc : ∀ s y : List ℚ, socQ s → socQ y → 0 ≤ dot s y := by
    intro s y hs hy
    cases s with
    | nil => simp
    | cons t x =>
      cases y with
      | nil => simp
      | cons u z =>
        rw [dot_cons_cons]
        exact soc_pairing_core t u x z hs.1 hy.1 hs.2 hy.2
  simp only [K1, List.mem_cons, List.not_mem_nil, or_false] at hco
  rcases hco with rfl | rfl | rfl
  · exact hsoc s y hs hy
  · exact hsoc s y hs hy
  · exact pos_pairing s y hs hy

theorem primal_feas1 : FeasBlocks demoSem.P K1 (slack A1 b1 x1) := by
  simp [FeasBlocks, K1, slack, addVec, mulVec, dot, A1, b1, x1, demoSem, demoP, socQ]
  norm_num

theorem dual_feas1 : FeasBlocks demoSem.P (dualize 2 c1 A1 b1 K1).Kd y1 := by
  simp [FeasBlocks, K1, dualize, dualCone, y1, demoSem, demoP, socQ]

theorem dual_eq1 : mulVec (dualize 2 c1 A1 b1 K1).G y1 = (dualize 2 c1 A1 b1 K1).h := by
  simp [dualize, transpose, mulVec, dot, A1, y1, c1, List.range_succ]

theorem gap1 : dot (dualize 2 c1 A1 b1 K1).f y1 = dot c1 x1 := by
  simp [dualize, negVec, dot, b1, y1, c1, x1]

/-- system 3 (over ℝ): `min -x s.t. (x, 1, 1) ∈ K_exp`, i.e. `exp x ≤ 1`; optimal at `x = 0` with the
    dual certificate `(-1, 1, -1) ∈ K_exp*` -/
def K3 : List Cone := [⟨.exp, 3⟩]
noncomputable def A3 : Mat ℝ := [[1], [0], [0]]
noncomputable def b3 : Vec ℝ := [0, 1, 1]
noncomputable def c3 : Vec ℝ := [-1]
noncomputable def x3 : Vec ℝ := [0]
noncomputable def y3 : Vec ℝ := [-1, 1, -1]

theorem wf3 : WFSys 1 A3 b3 K3 := ⟨rfl, rfl, by simp [A3], by decide⟩

theorem primal_feas3 : FeasBlocks primalSemR.P K3 (slack A3 b3 x3) := by
  simp [FeasBlocks, K3, slack, addVec, mulVec, dot, A3, b3, x3, primalSemR, realP, expR,
    Sageopt.Analysis.InExpCone]

theorem dual_feas3 : FeasBlocks dualSemR.P (dualize 1 c3 A3 b3 K3).Kd y3 := by
  have : Sageopt.Analysis.InExpDual (-1) 1 (-1) :=
    Sageopt.Analysis.exp_dual_of_map _ _ _ (Or.inl ⟨by norm_num, by simp⟩)
  simpa [FeasBlocks, K3, dualize, dualCone, y3, dualSemR, realP, dexpR] using this

theorem dual_eq3 : mulVec (dualize 1 c3 A3 b3 K3).G y3 = (dualize 1 c3 A3 b3 K3).h := by
  simp [dualize, transpose, mulVec, dot, A3, y3, c3, List.range_succ]

end Sageopt.Solvers.Demo
