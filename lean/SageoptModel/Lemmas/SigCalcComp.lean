/-
Composition `p(z)` of polynomials (`Polynomial.__call__` with polynomial arguments): characters that
are multiplicative on polynomial rows, the polynomial versions of the product / power theorems, and
the evaluation of `compose`.
-/
import SageoptModel.Lemmas.SigCalcPoly

namespace Sageopt.Sig

/-- multiplicative on polynomial rows of width `n` -/
structure PolyChar (n : Nat) (χ : Exp → Rat) : Prop where
  zero : χ (zeroExp n) = 1
  add : ∀ a b : Exp, a.length = n → b.length = n → isPolyExp a = true → isPolyExp b = true →
    χ (addExp a b) = χ a * χ b

/-! ### `monoAt` -/

theorem monoAt_eq_prod (x : List Rat) (a : Exp) :
    monoAt x a = (List.zipWith (fun xi ai => xi ^ ai.num.toNat) x a).prod := by
  unfold monoAt
  rw [List.prod_eq_foldl]

theorem monoAt_zero (x : List Rat) : monoAt x (zeroExp x.length) = 1 := by
  rw [monoAt_eq_prod]
  unfold zeroExp
  induction x with
  | nil => rfl
  | cons x xs ih =>
    rw [List.length_cons, List.replicate_succ, List.zipWith_cons_cons, List.prod_cons, ih]
    simp

theorem toNat_add_of_isNatQ {p q : Rat} (hp : IsNatQ p) (hq : IsNatQ q) :
    (p + q).num.toNat = p.num.toNat + q.num.toNat := by
  obtain ⟨m, rfl⟩ := (isNatQ_iff p).1 hp
  obtain ⟨n, rfl⟩ := (isNatQ_iff q).1 hq
  rw [← Nat.cast_add, natCast_toNat, natCast_toNat, natCast_toNat]

theorem monoAt_add (x : List Rat) (a b : Exp) (ha : a.length = x.length) (hb : b.length = x.length)
    (hap : isPolyExp a = true) (hbp : isPolyExp b = true) :
    monoAt x (addExp a b) = monoAt x a * monoAt x b := by
  rw [monoAt_eq_prod, monoAt_eq_prod, monoAt_eq_prod]
  rw [isPolyExp_iff] at hap hbp
  unfold addExp
  induction x generalizing a b with
  | nil => simp
  | cons x xs ih =>
    cases a with
    | nil => simp at ha
    | cons a0 as =>
      cases b with
      | nil => simp at hb
      | cons b0 bs =>
        simp only [List.zipWith_cons_cons, List.prod_cons]
        rw [ih as bs (by simpa using ha) (by simpa using hb)
          (fun q hq => hap q (by simp [hq])) (fun q hq => hbp q (by simp [hq])),
          toNat_add_of_isNatQ (hap a0 (by simp)) (hbp b0 (by simp)), pow_add]
        ring

theorem monoAt_polyChar' (x : List Rat) : PolyChar x.length (monoAt x) :=
  ⟨monoAt_zero x, fun a b ha hb hap hbp => monoAt_add x a b ha hb hap hbp⟩

theorem evalWith_monoAt' (x : List Rat) (p : SigT Rat) :
    evalWith (monoAt x) p = (p.terms.map fun t => t.2 * monoAt x t.1).sum := by
  rw [evalWith_eq_eval']
  rfl

/-! ### polynomial representation invariant -/

structure PolyWf (n : Nat) (f : SigT Rat) : Prop where
  wf : Wf f
  n_eq : f.n = n
  poly : polyOk f = true

theorem PolyWf.width {n : Nat} {f : SigT Rat} (h : PolyWf n f) : ∀ t ∈ f.terms, t.1.length = n := by
  intro t ht
  rw [h.wf.width t ht, h.n_eq]

theorem PolyWf.polyRow {n : Nat} {f : SigT Rat} (h : PolyWf n f) : ∀ t ∈ f.terms, isPolyExp t.1 = true :=
  (polyOk_iff f).1 h.poly

theorem mk_polyOk (n : Nat) (ts : List (Exp × Rat)) (hp : ∀ t ∈ ts, isPolyExp t.1 = true) :
    polyOk (mk n ts) = true := by
  rw [polyOk_iff]
  intro t ht
  rw [mk_terms] at ht
  have hk : t.1 ∈ keys (rounded ts) := (mem_keys_consolidate _ _).1 (List.mem_map.2 ⟨t, ht, rfl⟩)
  simp only [keys, rounded, List.map_map, List.mem_map, Function.comp_def] at hk
  obtain ⟨u, hu, e⟩ := hk
  rw [← e, roundExp_of_onGrid (isPolyExp_onGrid (hp u hu))]
  exact hp u hu

theorem const_polyWf (n : Nat) (v : Rat) : PolyWf n (const n v) := by
  refine ⟨const_wf n v, rfl, ?_⟩
  rw [polyOk_iff, const_terms]
  intro t ht
  simp only [List.mem_singleton] at ht
  rw [ht]; exact isPolyExp_zeroExp n

theorem product_polyWf {n : Nat} {f g : SigT Rat} (hf : PolyWf n f) (hg : PolyWf n g) :
    PolyWf n (product f g) := by
  refine ⟨product_wf f g hf.wf hg.wf (by rw [hf.n_eq, hg.n_eq]), hf.n_eq, ?_⟩
  unfold product
  apply mk_polyOk
  intro t ht
  obtain ⟨t2, h2, ht⟩ := List.mem_flatMap.1 ht
  obtain ⟨t1, h1, rfl⟩ := List.mem_map.1 ht
  have hadd := isPolyExp_addExp (hf.polyRow t1 h1) (hg.polyRow t2 h2)
  show isPolyExp (roundExp (addExp t1.1 t2.1)) = true
  rw [roundExp_of_onGrid (isPolyExp_onGrid hadd)]
  exact hadd

theorem withoutZeros_polyWf {n : Nat} {f : SigT Rat} (hf : PolyWf n f) :
    PolyWf n (withoutZeros isZeroQ f) := by
  refine ⟨withoutZeros_wf' isZeroQ f hf.wf, by rw [withoutZeros_n]; exact hf.n_eq, ?_⟩
  rcases withoutZeros_cases isZeroQ f with ⟨_, h⟩ | ⟨_, h⟩ | ⟨_, h⟩ | h
  · rw [h]; exact hf.poly
  · rw [h]; exact hf.poly
  · rw [h]; exact (const_polyWf f.n 0).poly
  · rw [h]
    apply mk_polyOk
    intro t ht
    exact hf.polyRow t (List.mem_of_mem_filter ht)

/-! ### products and powers evaluate multiplicatively against a polynomial character -/

theorem eval_map_mul_poly (χ : Exp → Rat) (n : Nat) (hχ : PolyChar n χ) (ts : List (Exp × Rat))
    (hw : ∀ t ∈ ts, t.1.length = n) (hp : ∀ t ∈ ts, isPolyExp t.1 = true)
    (t2 : Exp × Rat) (h2 : t2.1.length = n) (h2p : isPolyExp t2.1 = true) :
    eval χ (ts.map fun t1 => (addExp t1.1 t2.1, t1.2 * t2.2)) = eval χ ts * (t2.2 * χ t2.1) := by
  induction ts with
  | nil => simp
  | cons t ts ih =>
    rw [List.map_cons, eval_cons, eval_cons,
      ih (fun t ht => hw t (List.mem_cons_of_mem _ ht)) (fun t ht => hp t (List.mem_cons_of_mem _ ht)),
      hχ.add _ _ (hw t (by simp)) h2 (hp t (by simp)) h2p]
    ring

theorem eval_prodTerms_poly (χ : Exp → Rat) (n : Nat) (hχ : PolyChar n χ) (ts us : List (Exp × Rat))
    (hw : ∀ t ∈ ts, t.1.length = n) (hp : ∀ t ∈ ts, isPolyExp t.1 = true)
    (hu : ∀ t ∈ us, t.1.length = n) (hup : ∀ t ∈ us, isPolyExp t.1 = true) :
    eval χ (prodTerms ts us) = eval χ ts * eval χ us := by
  unfold prodTerms
  induction us with
  | nil => simp
  | cons u us ih =>
    rw [List.flatMap_cons, eval_append, eval_cons,
      ih (fun t ht => hu t (List.mem_cons_of_mem _ ht)) (fun t ht => hup t (List.mem_cons_of_mem _ ht)),
      eval_map_mul_poly χ n hχ ts hw hp u (hu u (by simp)) (hup u (by simp))]
    ring

theorem product_eval_poly (n : Nat) (χ : Exp → Rat) (hχ : PolyChar n χ) {f g : SigT Rat}
    (hf : PolyWf n f) (hg : PolyWf n g) :
    eval χ (product f g).terms = eval χ f.terms * eval χ g.terms := by
  rw [product_terms f g hf.wf.grid hg.wf.grid, consolidate_eval]
  exact eval_prodTerms_poly χ n hχ _ _ hf.width hf.polyRow hg.width hg.polyRow

theorem wzProduct_spec (n : Nat) (χ : Exp → Rat) (hχ : PolyChar n χ) {f g : SigT Rat}
    (hf : PolyWf n f) (hg : PolyWf n g) :
    PolyWf n (withoutZeros isZeroQ (product f g)) ∧
    eval χ (withoutZeros isZeroQ (product f g)).terms = eval χ f.terms * eval χ g.terms := by
  have hp := product_polyWf hf hg
  refine ⟨withoutZeros_polyWf hp, ?_⟩
  rw [withoutZeros_eval isZeroQ isZeroQ_iff _ hp.wf.grid, product_eval_poly n χ hχ hf hg]

theorem powLoop_spec_poly (n : Nat) (χ : Exp → Rat) (hχ : PolyChar n χ) {f : SigT Rat} (hf : PolyWf n f)
    (k : Nat) (s : SigT Rat) (hs : PolyWf n s) :
    PolyWf n ((List.range k).foldl (fun s _ => withoutZeros isZeroQ (product s f)) s) ∧
    eval χ ((List.range k).foldl (fun s _ => withoutZeros isZeroQ (product s f)) s).terms =
      eval χ s.terms * (eval χ f.terms) ^ k := by
  induction k generalizing s with
  | zero => simp [hs]
  | succ k ih =>
    rw [List.range_succ_eq_map, List.foldl_cons, List.foldl_map]
    obtain ⟨hs', he⟩ := wzProduct_spec n χ hχ hs hf
    obtain ⟨h1, h2⟩ := ih _ hs'
    refine ⟨h1, ?_⟩
    rw [h2, he]
    ring

theorem powNat_spec_poly (n : Nat) (χ : Exp → Rat) (hχ : PolyChar n χ) {f : SigT Rat} (hf : PolyWf n f)
    (k : Nat) :
    PolyWf n (powNat isZeroQ f k) ∧ eval χ (powNat isZeroQ f k).terms = (eval χ f.terms) ^ k := by
  cases k with
  | zero =>
    unfold powNat
    rw [hf.n_eq]
    refine ⟨const_polyWf n 1, ?_⟩
    rw [const_terms, eval_cons, hχ.zero]
    simp
  | succ k =>
    unfold powNat
    simp only []
    rw [mk_id' f hf.wf]
    obtain ⟨h1, h2⟩ := powLoop_spec_poly n χ hχ hf k f hf
    refine ⟨h1, ?_⟩
    rw [h2]
    ring

theorem smul_spec_poly (n : Nat) (χ : Exp → Rat) (hχ : PolyChar n χ) {f : SigT Rat} (hf : PolyWf n f)
    (v : Rat) :
    PolyWf n (smul isZeroQ f v) ∧ eval χ (smul isZeroQ f v).terms = v * eval χ f.terms := by
  unfold smul
  rw [hf.n_eq]
  obtain ⟨h1, h2⟩ := wzProduct_spec n χ hχ hf (const_polyWf n v)
  refine ⟨h1, ?_⟩
  rw [h2, const_terms, eval_cons, hχ.zero]
  simp only [eval_nil]
  ring

/-! ### `monoOfPolys` -/

theorem zipPow_spec (n : Nat) (χ : Exp → Rat) (hχ : PolyChar n χ) (zs : List (SigT Rat))
    (hz : ∀ z ∈ zs, PolyWf n z) (a : Exp) :
    (∀ q ∈ List.zipWith (fun z (ai : Rat) => powNat isZeroQ z ai.num.toNat) zs a, PolyWf n q) ∧
    (List.zipWith (fun z (ai : Rat) => powNat isZeroQ z ai.num.toNat) zs a).map (fun q => eval χ q.terms) =
      List.zipWith (fun z (ai : Rat) => (eval χ z.terms) ^ ai.num.toNat) zs a := by
  induction zs generalizing a with
  | nil => simp
  | cons z zs ih =>
    cases a with
    | nil => simp
    | cons a0 as =>
      obtain ⟨h1, h2⟩ := ih (fun z hz' => hz z (List.mem_cons_of_mem _ hz')) as
      obtain ⟨p1, p2⟩ := powNat_spec_poly n χ hχ (hz z (by simp)) a0.num.toNat
      simp only [List.zipWith_cons_cons, List.map_cons]
      refine ⟨?_, ?_⟩
      · intro q hq
        rcases List.mem_cons.1 hq with rfl | hq
        · exact p1
        · exact h1 q hq
      · rw [h2, p2]

theorem prodLoop_spec (n : Nat) (χ : Exp → Rat) (hχ : PolyChar n χ) (ps : List (SigT Rat))
    (hps : ∀ q ∈ ps, PolyWf n q) (p : SigT Rat) (hp : PolyWf n p) :
    PolyWf n (ps.foldl (fun acc q => withoutZeros isZeroQ (product acc q)) p) ∧
    eval χ (ps.foldl (fun acc q => withoutZeros isZeroQ (product acc q)) p).terms =
      eval χ p.terms * (ps.map fun q => eval χ q.terms).prod := by
  induction ps generalizing p with
  | nil => simp [hp]
  | cons q ps ih =>
    rw [List.foldl_cons]
    obtain ⟨h1, h2⟩ := wzProduct_spec n χ hχ hp (hps q (by simp))
    obtain ⟨h3, h4⟩ := ih (fun q hq => hps q (List.mem_cons_of_mem _ hq)) _ h1
    refine ⟨h3, ?_⟩
    rw [h4, h2, List.map_cons, List.prod_cons]
    ring

theorem monoOfPolys_spec (n : Nat) (χ : Exp → Rat) (hχ : PolyChar n χ) (zs : List (SigT Rat))
    (hz : ∀ z ∈ zs, PolyWf n z) (a : Exp) (m : SigT Rat) (hm : monoOfPolys zs a = some m) :
    PolyWf n m ∧
    eval χ m.terms = (List.zipWith (fun z (ai : Rat) => (eval χ z.terms) ^ ai.num.toNat) zs a).prod := by
  obtain ⟨h1, h2⟩ := zipPow_spec n χ hχ zs hz a
  unfold monoOfPolys at hm
  rw [← h2]
  split at hm
  · simp at hm
  · rename_i p ps hzip
    simp only [Option.some.injEq] at hm
    rw [hzip] at h1 ⊢
    obtain ⟨h3, h4⟩ := prodLoop_spec n χ hχ ps (fun q hq => h1 q (List.mem_cons_of_mem _ hq)) p (h1 p (by simp))
    rw [← hm]
    refine ⟨h3, ?_⟩
    rw [h4, List.map_cons, List.prod_cons]

/-! ### `Signomial.sum` evaluates to the sum -/

theorem eval_flatMap_terms (χ : Exp → Rat) (fs : List (SigT Rat)) :
    eval χ (fs.flatMap fun f => f.terms) = (fs.map fun f => eval χ f.terms).sum := by
  induction fs with
  | nil => rfl
  | cons f fs ih => rw [List.flatMap_cons, eval_append, ih, List.map_cons, List.sum_cons]

theorem sumList_eval (n : Nat) (fs : List (SigT Rat)) (hfs : ∀ f ∈ fs, Wf f) (χ : Exp → Rat) :
    eval χ (sumList n fs).terms = (fs.map fun f => eval χ f.terms).sum := by
  rw [← eval_flatMap_terms]
  apply eval_congr_coeff
  intro a
  rw [sumList_coeff' n fs hfs a, coeff_flatMap]

/-! ### `compose` -/

theorem mapM_cons_some {α β : Type} (g : α → Option β) (x : α) (l : List α) (ys : List β)
    (h : (x :: l).mapM g = some ys) :
    ∃ y ys', g x = some y ∧ l.mapM g = some ys' ∧ ys = y :: ys' := by
  rw [List.mapM_cons] at h
  cases hg : g x with
  | none => rw [hg] at h; simp at h
  | some y =>
    cases hl : l.mapM g with
    | none => rw [hg, hl] at h; simp at h
    | some ys' =>
      rw [hg, hl] at h
      simp at h
      exact ⟨y, ys', rfl, rfl, h.symm⟩

theorem summands_spec (n : Nat) (χ : Exp → Rat) (hχ : PolyChar n χ) (zs : List (SigT Rat))
    (hz : ∀ z ∈ zs, PolyWf n z) (ts : List (Exp × Rat)) (ss : List (SigT Rat))
    (h : ts.mapM (fun t => (monoOfPolys zs t.1).map fun m => smul isZeroQ m t.2) = some ss) :
    (∀ s ∈ ss, PolyWf n s) ∧
    (ss.map fun s => eval χ s.terms).sum =
      (ts.map fun t => t.2 *
        (List.zipWith (fun z (ai : Rat) => (eval χ z.terms) ^ ai.num.toNat) zs t.1).prod).sum := by
  induction ts generalizing ss with
  | nil =>
    rw [List.mapM_nil] at h
    simp only [pure, Option.some.injEq] at h
    subst h
    simp
  | cons t ts ih =>
    obtain ⟨y, ys', hy, hys, rfl⟩ := mapM_cons_some _ t ts ss h
    obtain ⟨h1, h2⟩ := ih ys' hys
    cases hm : monoOfPolys zs t.1 with
    | none => rw [hm] at hy; simp at hy
    | some m =>
      rw [hm] at hy
      simp only [Option.map_some, Option.some.injEq] at hy
      obtain ⟨m1, m2⟩ := monoOfPolys_spec n χ hχ zs hz t.1 m hm
      obtain ⟨s1, s2⟩ := smul_spec_poly n χ hχ m1 t.2
      refine ⟨?_, ?_⟩
      · intro s hs
        rcases List.mem_cons.1 hs with rfl | hs
        · rw [← hy]; exact s1
        · exact h1 s hs
      · rw [List.map_cons, List.sum_cons, List.map_cons, List.sum_cons, h2, ← hy, s2, m2]

theorem compose_eval' (nz : Nat) (χ : Exp → Rat) (hχ : PolyChar nz χ) (p : SigT Rat)
    (zs : List (SigT Rat)) (hz : ∀ z ∈ zs, Wf z ∧ z.n = nz ∧ polyOk z = true)
    (r : SigT Rat) (hr : compose p zs = some r) :
    evalWith χ r =
      (p.terms.map fun t => t.2 * (List.zipWith (fun z ai => (evalWith χ z) ^ ai.num.toNat) zs t.1).prod).sum := by
  have hz' : ∀ z ∈ zs, PolyWf nz z := fun z h => ⟨(hz z h).1, (hz z h).2.1, (hz z h).2.2⟩
  have hev : (fun (z : SigT Rat) (ai : Rat) => (evalWith χ z) ^ ai.num.toNat) =
      fun z ai => (eval χ z.terms) ^ ai.num.toNat := by
    funext z ai
    rw [evalWith_eq_eval']
  rw [hev, evalWith_eq_eval']
  unfold compose at hr
  cases zs with
  | nil => simp at hr
  | cons z0 zt =>
    simp only [] at hr
    cases hs : p.terms.mapM (fun t => (monoOfPolys (z0 :: zt) t.1).map fun m => smul isZeroQ m t.2) with
    | none => rw [hs] at hr; simp at hr
    | some ss =>
      rw [hs] at hr
      simp only [Option.map_some, Option.some.injEq] at hr
      obtain ⟨h1, h2⟩ := summands_spec nz χ hχ (z0 :: zt) hz' p.terms ss hs
      rw [← hr, sumList_eval z0.n ss (fun s hs => (h1 s hs).wf), h2]

end Sageopt.Sig
