/-
Completeness of the AGE certificate where the minimum of the normalised function is attained: first-order optimality of
`g(x) = c_i + Σ_{j∈S} c_j e^{(α_j − α_i)·x}` at a minimiser over a set that is star-shaped around it, and the explicit
certificate `ν_j = c_j e^{(α_j − α_i)·x*}` it yields (all of ℝⁿ: ordinary certificate; a box: conditional certificate with
the multipliers of the active bounds).  Helper lemmas for `Props/C06Complete.lean`.
-/
import SageoptModel.Lemmas.AgeCert
import Mathlib.Analysis.SpecialFunctions.ExpDeriv
import Mathlib.Topology.Order.Compact

namespace Sageopt.Analysis
open scoped BigOperators
open Filter Topology

set_option linter.unusedVariables false
set_option linter.unusedSectionVars false

variable {ι : Type} {N : ℕ}

/-- the normalised function of a one-negative-term signomial: `f(x) = e^{α_i·x} g(x)` -/
noncomputable def gfun (α : ι → Fin N → ℝ) (i : ι) (S : Finset ι) (c : ι → ℝ) (x : Fin N → ℝ) : ℝ :=
  c i + ∑ j ∈ S, c j * Real.exp (dotp (α j) x - dotp (α i) x)

/-- the signomial itself -/
noncomputable def ffun (α : ι → Fin N → ℝ) (i : ι) (S : Finset ι) (c : ι → ℝ) (x : Fin N → ℝ) : ℝ :=
  c i * Real.exp (dotp (α i) x) + ∑ j ∈ S, c j * Real.exp (dotp (α j) x)

theorem ffun_eq (α : ι → Fin N → ℝ) (i : ι) (S : Finset ι) (c : ι → ℝ) (x : Fin N → ℝ) :
    ffun α i S c x = Real.exp (dotp (α i) x) * gfun α i S c x := by
  unfold ffun gfun
  rw [mul_add, Finset.mul_sum]; congr 1
  · ring
  · apply Finset.sum_congr rfl; intro j _
    rw [Real.exp_sub]; field_simp

theorem ffun_nonneg_iff (α : ι → Fin N → ℝ) (i : ι) (S : Finset ι) (c : ι → ℝ) (x : Fin N → ℝ) :
    0 ≤ ffun α i S c x ↔ 0 ≤ gfun α i S c x := by
  rw [ffun_eq]
  constructor
  · intro h
    by_contra hn; push Not at hn
    have := mul_neg_of_pos_of_neg (Real.exp_pos (dotp (α i) x)) hn
    linarith
  · intro h; exact mul_nonneg (Real.exp_pos _).le h

/-- a function on the line with derivative `d` at `0` that does not go below its value at `0` on `[0, 1]` has `d ≥ 0` -/
theorem deriv_nonneg_of_right_min (φ : ℝ → ℝ) (d : ℝ) (hd : HasDerivAt φ d 0)
    (hmin : ∀ t, 0 ≤ t → t ≤ 1 → φ 0 ≤ φ t) : 0 ≤ d := by
  by_contra hneg; push Not at hneg
  have hlo := hd.isLittleO
  have hpos : (0 : ℝ) < -d / 2 := by linarith
  have hev := hlo.def hpos
  rw [Metric.eventually_nhds_iff] at hev
  obtain ⟨ε, hε, hball⟩ := hev
  set t := min (ε / 2) 1 with ht
  have ht0 : 0 < t := lt_min (by linarith) one_pos
  have ht1 : t ≤ 1 := min_le_right _ _
  have htε : dist t 0 < ε := by
    rw [Real.dist_eq, sub_zero, abs_of_pos ht0]
    have : t ≤ ε / 2 := min_le_left _ _
    linarith
  have h := hball htε
  simp only [sub_zero, smul_eq_mul, Real.norm_eq_abs] at h
  rw [abs_of_pos ht0] at h
  have h2 := (abs_le.mp h).2
  have h3 := hmin t ht0.le ht1
  nlinarith

/-- the derivative of `t ↦ c_i + Σ c_j e^{e_j + t s_j}` at `0` -/
theorem hasDerivAt_line (S : Finset ι) (c0 : ℝ) (w e s : ι → ℝ) :
    HasDerivAt (fun t : ℝ => c0 + ∑ j ∈ S, w j * Real.exp (e j + t * s j))
      (∑ j ∈ S, w j * Real.exp (e j) * s j) 0 := by
  have h1 : ∀ j ∈ S, HasDerivAt (fun t : ℝ => w j * Real.exp (e j + t * s j)) (w j * Real.exp (e j) * s j) 0 := by
    intro j _
    have ha : HasDerivAt (fun t : ℝ => e j + t * s j) (s j) 0 := by
      have := ((hasDerivAt_id (0 : ℝ)).mul_const (s j)).const_add (e j)
      simpa using this
    have hb := (ha.exp).const_mul (w j)
    simp only [zero_mul, add_zero] at hb
    have e3 : w j * Real.exp (e j) * s j = w j * (Real.exp (e j) * s j) := by ring
    rw [e3]; exact hb
  exact (HasDerivAt.fun_sum h1).const_add c0

/-- FIRST-ORDER OPTIMALITY: at a minimiser `xs` of `g` over a set that contains the segments from `xs` to its points, the
    gradient `d_l = Σ_j c_j e^{(α_j − α_i)·xs} (α_jl − α_il)` satisfies `d·(x − xs) ≥ 0` for every `x` of the set -/
theorem first_order (α : ι → Fin N → ℝ) (i : ι) (S : Finset ι) (c : ι → ℝ) (X : Set (Fin N → ℝ))
    (xs : Fin N → ℝ)
    (hseg : ∀ x ∈ X, ∀ t : ℝ, 0 ≤ t → t ≤ 1 → (fun l => xs l + t * (x l - xs l)) ∈ X)
    (hmin : ∀ x ∈ X, gfun α i S c xs ≤ gfun α i S c x) (x : Fin N → ℝ) (hx : x ∈ X) :
    0 ≤ ∑ l, (∑ j ∈ S, c j * Real.exp (dotp (α j) xs - dotp (α i) xs) * (α j l - α i l)) * (x l - xs l) := by
  set e : ι → ℝ := fun j => dotp (α j) xs - dotp (α i) xs with he
  set s : ι → ℝ := fun j => ∑ l, (α j l - α i l) * (x l - xs l) with hs
  have hline : ∀ t : ℝ, gfun α i S c (fun l => xs l + t * (x l - xs l))
      = c i + ∑ j ∈ S, c j * Real.exp (e j + t * s j) := by
    intro t
    unfold gfun
    congr 1
    apply Finset.sum_congr rfl; intro j _
    congr 2
    simp only [he, hs, dotp]
    rw [← Finset.sum_sub_distrib, ← Finset.sum_sub_distrib, Finset.mul_sum, ← Finset.sum_add_distrib]
    apply Finset.sum_congr rfl; intro l _; ring
  have hd := hasDerivAt_line S (c i) c e s
  have hφ : HasDerivAt (fun t : ℝ => gfun α i S c (fun l => xs l + t * (x l - xs l)))
      (∑ j ∈ S, c j * Real.exp (e j) * s j) 0 := by
    have : (fun t : ℝ => gfun α i S c (fun l => xs l + t * (x l - xs l)))
        = fun t : ℝ => c i + ∑ j ∈ S, c j * Real.exp (e j + t * s j) := funext hline
    rw [this]; exact hd
  have h0 := deriv_nonneg_of_right_min _ _ hφ (by
    intro t ht0 ht1
    have hmem := hseg x hx t ht0 ht1
    have := hmin _ hmem
    simpa using this)
  have heq : ∑ j ∈ S, c j * Real.exp (e j) * s j
      = ∑ l, (∑ j ∈ S, c j * Real.exp (e j) * (α j l - α i l)) * (x l - xs l) := by
    simp only [hs]
    simp_rw [Finset.mul_sum, Finset.sum_mul]
    rw [Finset.sum_comm]
    apply Finset.sum_congr rfl; intro l _
    apply Finset.sum_congr rfl; intro j _; ring
  rw [heq] at h0
  exact h0

/-- the exp-cone row of the explicit certificate: `ν = c e^{u}`, `epi = ν (u − 1)` -/
theorem explicit_row (cj u : ℝ) (hc : 0 ≤ cj) :
    InExpCone (-(cj * Real.exp u * (u - 1))) (Real.exp 1 * cj) (cj * Real.exp u) := by
  rcases hc.lt_or_eq with hpos | hzero
  · left
    refine ⟨mul_pos hpos (Real.exp_pos _), ?_⟩
    have hne : cj * Real.exp u ≠ 0 := (mul_pos hpos (Real.exp_pos _)).ne'
    have : -(cj * Real.exp u * (u - 1)) / (cj * Real.exp u) = 1 - u := by
      field_simp; ring
    rw [this, Real.exp_sub]
    have hu : Real.exp u ≠ 0 := (Real.exp_pos u).ne'
    have : cj * Real.exp u * (Real.exp 1 / Real.exp u) = Real.exp 1 * cj := by
      field_simp
    rw [this]
  · right
    subst hzero
    simp

/-- the sum of the explicit `epi` -/
theorem explicit_epi_sum (α : ι → Fin N → ℝ) (i : ι) (S : Finset ι) (c : ι → ℝ) (xs : Fin N → ℝ) :
    ∑ j ∈ S, c j * Real.exp (dotp (α j) xs - dotp (α i) xs) * ((dotp (α j) xs - dotp (α i) xs) - 1)
      = (∑ l, (∑ j ∈ S, c j * Real.exp (dotp (α j) xs - dotp (α i) xs) * (α j l - α i l)) * xs l)
        - (gfun α i S c xs - c i) := by
  unfold gfun
  rw [add_sub_cancel_left]
  simp_rw [Finset.sum_mul]
  rw [Finset.sum_comm, ← Finset.sum_sub_distrib]
  apply Finset.sum_congr rfl; intro j _
  have : dotp (α j) xs - dotp (α i) xs = ∑ l, (α j l - α i l) * xs l := by
    unfold dotp; rw [← Finset.sum_sub_distrib]; apply Finset.sum_congr rfl; intro l _; ring
  rw [mul_sub, mul_one]
  congr 1
  rw [this, Finset.mul_sum]
  apply Finset.sum_congr rfl; intro l _; ring

end Sageopt.Analysis
