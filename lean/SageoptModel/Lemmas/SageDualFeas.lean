/-
C02 helper lemmas, part 5: at a moment assignment every block of `dualRows` is feasible; assembly.
-/
import SageoptModel.Lemmas.SageDualBlocks

namespace Sageopt.Sage
open Sageopt Sageopt.Compile Sageopt.Solvers Sageopt.Analysis

/-- `σ` is the moment assignment at `(x, x̃, t)`: `v_j = t·exp(α_j·x)`, `μ_i = v_i·x̃`,
    `epi_ik = v_i·(α_i − α_{cov k})·x` -/
structure sd_Moment (inp : DualIn) (x xt : List ℝ) (t : ℝ) (σ : Nat → ℝ) : Prop where
  v : ∀ j, j < inp.alpha.length →
    argVal σ (inp.v.getD j (constE 0)) = t * Real.exp (rdot (inp.alpha.getD j []) x)
  mu : ∀ p ∈ inp.ids, ∀ k, k < p.mu.length →
    σ (p.mu.getD k 0) = (t * Real.exp (rdot (inp.alpha.getD p.i []) x)) * xt.getD k 0
  epi : ∀ p ∈ inp.ids, ∀ k, k < p.epi.length →
    σ (p.epi.getD k 0) = (t * Real.exp (rdot (inp.alpha.getD p.i []) x)) *
      (rdot (inp.alpha.getD p.i []) x
        - rdot (inp.alpha.getD ((trueIdx (coverOf inp.ech p.i)).getD k 0) []) x)

theorem sd_conP_exp (Q : CType → List ℝ → Prop) (x y z : ℝ) (h : InExpCone x y z) :
    conP Q .exp [x, y, z] := h

/-- the relative-entropy rows of one index, both forms -/
theorem sd_relRows_feas (Q : CType → List ℝ → Prop) (inp : DualIn) (p : DIds) (hp : p ∈ inp.ids)
    (x xt : List ℝ) (t : ℝ) (ht : 0 ≤ t) (σ : Nat → ℝ) (hM : sd_Moment inp x xt t σ)
    (hwidth : ∀ r ∈ inp.alpha, r.length = inp.n)
    (hcov : (coverOf inp.ech p.i).length = inp.alpha.length) (hpi : p.i < inp.alpha.length)
    (hepi : inp.settings.compactDual = false → p.epi.length = (trueIdx (coverOf inp.ech p.i)).length)
    (hmulen : p.mu.length = xt.length) (hxt : xt.take inp.n = x)
    (r1 : List CRow) (k1 : List Cone) (h : sd_relRows inp p = .ok (r1, k1)) :
    r1.length = totalLen k1 ∧ FeasBlocks (conP Q) k1 (r1.map (crowVal σ)) := by
  have hmuN := sd_muN_vals σ p.mu xt x inp.n _ hmulen hxt (hM.mu p hp)
  have hj : ∀ j ∈ trueIdx (coverOf inp.ech p.i), j < inp.alpha.length ∧
      (inp.alpha.getD p.i []).length = (inp.alpha.getD j []).length := by
    intro j hj
    have h1 : j < inp.alpha.length := hcov ▸ sd_mem_trueIdx_lt _ j hj
    exact ⟨h1, by rw [hwidth _ (sd_getD_mem _ _ _ hpi), hwidth _ (sd_getD_mem _ _ _ h1)]⟩
  cases hc : inp.settings.compactDual with
  | true =>
    obtain ⟨blocks, hb, rfl, rfl⟩ := sd_relRows_compact inp p hc r1 k1 h
    rw [mapM_ok_iff] at hb
    have := sd_forall₂_exp3 (conP Q) _ (crowVal σ) _ blocks hb (by
      rintro ⟨j, k⟩ hjk b hb
      obtain ⟨hjc, _, _⟩ := sd_fst_mem_of_mem_zipIdx _ j k 0 hjk
      obtain ⟨hjm, hlen⟩ := hj j hjc
      rw [sd_compactBlock_ok inp p j k hjk b hb]
      refine ⟨_, _, _, rfl, ?_⟩
      rw [sd_crowVal_compactRow σ _ _ _ x _ hlen hmuN, sd_crowVal_aff, sd_crowVal_aff, hM.v j hjm, hM.v p.i hpi]
      exact sd_conP_exp Q _ _ _ (sd_moment_exp_row t _ _ ht))
    rw [List.length_zipIdx] at this
    refine ⟨?_, this.2⟩
    rw [this.1, sd_totalLen_replicate_exp]
  | false =>
    obtain ⟨rfl, rfl⟩ := sd_relRows_epi inp p hc r1 k1 h
    have hlenB : (sd_epiBlocks inp p).length = 3 * (trueIdx (coverOf inp.ech p.i)).length := by
      unfold sd_epiBlocks
      rw [sd_length_flatMap3 _ _ (by rintro ⟨j, k⟩ _; rfl), List.length_zipIdx]
    have hlenL : (sd_epiLin inp p).length = (trueIdx (coverOf inp.ech p.i)).length := by
      unfold sd_epiLin
      rw [List.length_map, List.length_zipIdx]
    have htl : totalLen (List.replicate (trueIdx (coverOf inp.ech p.i)).length (⟨.exp, 3⟩ : Cone))
        = 3 * (trueIdx (coverOf inp.ech p.i)).length := by
      rw [sd_totalLen_replicate_exp]
    refine ⟨?_, ?_⟩
    · rw [List.length_append, totalLen_append, hlenB, hlenL, htl]; simp
    · rw [List.map_append, feasBlocks_append _ _ _ _ _ (by rw [List.length_map, hlenB, htl])]
      refine ⟨?_, ?_⟩
      · unfold sd_epiBlocks
        rw [List.map_flatMap]
        have := sd_feasBlocks_exp3 (conP Q) (trueIdx (coverOf inp.ech p.i)).zipIdx
          (fun jk => List.map (crowVal σ)
            [ (⟨[(p.epi.getD jk.2 0, -1)], 0, false⟩ : CRow),
              ⟨(inp.v.getD jk.1 (constE 0)).co, (inp.v.getD jk.1 (constE 0)).off, false⟩,
              ⟨(inp.v.getD p.i (constE 0)).co, (inp.v.getD p.i (constE 0)).off, false⟩ ]) (by
          rintro ⟨j, k⟩ hjk
          obtain ⟨hjc, hk, hget⟩ := sd_fst_mem_of_mem_zipIdx _ j k 0 hjk
          obtain ⟨hjm, hlen⟩ := hj j hjc
          refine ⟨_, _, _, rfl, ?_⟩
          rw [sd_crowVal_epiRow, sd_crowVal_aff, sd_crowVal_aff, hM.v j hjm, hM.v p.i hpi,
            hM.epi p hp k (by rw [hepi hc]; exact hk), hget]
          exact sd_conP_exp Q _ _ _ (sd_moment_exp_row t _ _ ht))
        rw [List.length_zipIdx] at this
        exact this
      · rw [feasBlocks_single _ _ _ _ (by rw [List.length_map, hlenL])]
        show ∀ a ∈ _, 0 ≤ a
        intro a ha
        rw [List.mem_map] at ha
        obtain ⟨r, hr, rfl⟩ := ha
        unfold sd_epiLin at hr
        rw [List.mem_map] at hr
        obtain ⟨⟨j, k⟩, hjk, rfl⟩ := hr
        obtain ⟨hjc, hk, hget⟩ := sd_fst_mem_of_mem_zipIdx _ j k 0 hjk
        obtain ⟨hjm, hlen⟩ := hj j hjc
        have he := hM.epi p hp k (by rw [hepi hc]; exact hk)
        rw [hget] at he
        rw [sd_crowVal_linRow σ _ _ _ x _ _ hlen hmuN he]

/-- all rows of one index -/
theorem sd_perI_feas (Q : CType → List ℝ → Prop) (inp : DualIn) (p : DIds) (hp : p ∈ inp.ids)
    (x xt : List ℝ) (t : ℝ) (ht : 0 ≤ t) (σ : Nat → ℝ) (hM : sd_Moment inp x xt t σ)
    (hwidth : ∀ r ∈ inp.alpha, r.length = inp.n)
    (hcov : (coverOf inp.ech p.i).length = inp.alpha.length) (hpi : p.i < inp.alpha.length)
    (hepi : inp.settings.compactDual = false → p.epi.length = (trueIdx (coverOf inp.ech p.i)).length)
    (hmulen : p.mu.length = xt.length) (hxt : xt.take inp.n = x)
    (hdom : ∀ X, inp.X = some X → domWf inp.n X ∧ FeasBlocks (conP Q) X.K (domSlack X xt))
    (q : List CRow × List Cone) (h : sd_perI inp p = .ok q) :
    q.1.length = totalLen q.2 ∧ FeasBlocks (conP Q) q.2 (q.1.map (crowVal σ)) := by
  by_cases hc : trueIdx (coverOf inp.ech p.i) = []
  · rw [sd_perI_empty inp p hc] at h
    cases h
    exact ⟨rfl, trivial⟩
  · obtain ⟨r1, k1, hr, hq⟩ := sd_perI_nonempty inp p hc q h
    obtain ⟨h1, h2⟩ := sd_relRows_feas Q inp p hp x xt t ht σ hM hwidth hcov hpi hepi hmulen hxt r1 k1 hr
    cases hX : inp.X with
    | none =>
      rw [hX] at hq
      subst hq
      exact ⟨h1, h2⟩
    | some X =>
      rw [hX] at hq
      subst hq
      obtain ⟨⟨_, hAb, _, hbK, hKty, _⟩, hfeas⟩ := hdom X hX
      have hV : 0 ≤ t * Real.exp (rdot (inp.alpha.getD p.i []) x) := mul_nonneg ht (Real.exp_pos _).le
      have hmu := sd_map_eq_scale σ p.mu xt _ hmulen (hM.mu p hp)
      have hvals : (sd_domRows inp p X).map (crowVal σ)
          = (domSlack X xt).map (t * Real.exp (rdot (inp.alpha.getD p.i []) x) * ·) := by
        unfold domSlack
        rw [← sd_domRows_vals σ X.A X.b p.mu (inp.v.getD p.i (constE 0)) xt _ hmu (hM.v p.i hpi)]
        unfold sd_domRows
        rw [List.map_map]
        apply List.map_congr_left
        rintro ⟨arow, br⟩ _
        rfl
      have hlenD : (sd_domRows inp p X).length = totalLen X.K := by
        unfold sd_domRows totalLen
        rw [List.length_map, List.length_zip, hAb, Nat.min_self, hbK]
      refine ⟨?_, ?_⟩
      · show (r1 ++ sd_domRows inp p X).length = totalLen (k1 ++ X.K)
        rw [List.length_append, totalLen_append, h1, hlenD]
      · show FeasBlocks (conP Q) (k1 ++ X.K) ((r1 ++ sd_domRows inp p X).map (crowVal σ))
        rw [List.map_append, feasBlocks_append _ _ _ _ _ (by rw [List.length_map, h1]), hvals]
        exact ⟨h2, sd_feasBlocks_scale Q X.K hKty _ _ hV hfeas⟩

theorem sd_argVal_constE (σ : Nat → ℝ) (q : Rat) : argVal σ (constE q) = (q : ℝ) := by
  simp [argVal, constE]

/-- every `v_j` row is nonnegative at a moment assignment (also for out-of-range indices, where the
    entry is the constant 0) -/
theorem sd_v_nonneg (inp : DualIn) (x xt : List ℝ) (t : ℝ) (ht : 0 ≤ t) (σ : Nat → ℝ)
    (hM : sd_Moment inp x xt t σ) (hvlen : inp.v.length = inp.alpha.length) (i : Nat) :
    0 ≤ crowVal σ (nonnegRow (inp.v.getD i (constE 0)) inp.dummy) := by
  rw [sd_crowVal_nonnegRow]
  by_cases hi : i < inp.alpha.length
  · rw [hM.v i hi]
    exact mul_nonneg ht (Real.exp_pos _).le
  · have : inp.v.getD i (constE 0) = constE 0 := by
      simp [List.getD, List.getElem?_eq_none (show inp.v.length ≤ i by omega)]
    rw [this, sd_argVal_constE]
    simp

/-- THE KEY LEMMA: every moment assignment satisfies the compiled dual SAGE constraint -/
theorem sd_dualRows_feas (Q : CType → List ℝ → Prop) (inp : DualIn)
    (hwidth : ∀ r ∈ inp.alpha, r.length = inp.n)
    (hvlen : inp.v.length = inp.alpha.length)
    (hcover : ∀ p ∈ inp.ids, (coverOf inp.ech p.i).length = inp.alpha.length ∧ p.i < inp.alpha.length)
    (hsizes : ∀ p ∈ inp.ids,
      p.mu.length = (match inp.X with | some X => X.N | none => inp.n) ∧
      (inp.settings.compactDual = false → p.epi.length = (trueIdx (coverOf inp.ech p.i)).length))
    (hdom : ∀ X, inp.X = some X → domWf inp.n X)
    (rows : List CRow) (K : List Cone) (h : dualRows inp = .ok (rows, K))
    (x xt : List ℝ) (hx : x.length = inp.n)
    (hxt : match inp.X with
      | none => xt = x
      | some X => xt.length = X.N ∧ xt.take inp.n = x ∧ FeasBlocks (conP Q) X.K (domSlack X xt))
    (t : ℝ) (ht : 0 ≤ t) (σ : Nat → ℝ) (hM : sd_Moment inp x xt t σ) :
    FeasRows Q σ rows K := by
  -- facts about x̃
  have hfacts : xt.take inp.n = x ∧ (∀ p ∈ inp.ids, p.mu.length = xt.length) ∧
      ∀ X, inp.X = some X → domWf inp.n X ∧ FeasBlocks (conP Q) X.K (domSlack X xt) := by
    cases hX : inp.X with
    | none =>
      simp only [hX] at hxt hsizes
      subst hxt
      refine ⟨by rw [← hx, List.take_length], fun p hp => ?_, fun X h => by cases h⟩
      rw [(hsizes p hp).1, hx]
    | some X =>
      simp only [hX] at hxt hsizes
      refine ⟨hxt.2.1, fun p hp => ?_, fun X' h => ?_⟩
      · rw [(hsizes p hp).1, hxt.1]
      · cases h
        exact ⟨hdom X hX, hxt.2.2⟩
  obtain ⟨hxt', hmulen, hdom'⟩ := hfacts
  unfold FeasRows
  by_cases hm : inp.alpha.length ≤ 1
  · obtain ⟨rfl, rfl⟩ := sd_dualRows_small inp hm rows K h
    rw [feasBlocks_single _ _ _ _ (by simp)]
    show ∀ a ∈ _, 0 ≤ a
    intro a ha
    rw [List.map_map, List.mem_map] at ha
    obtain ⟨vj, hvj, rfl⟩ := ha
    obtain ⟨j, hj, rfl⟩ := List.getElem_of_mem hvj
    have := sd_v_nonneg inp x xt t ht σ hM hvlen j
    have e : inp.v.getD j (constE 0) = inp.v[j] := by simp [List.getD, hj]
    rw [e] at this
    exact this
  · obtain ⟨perI, hper, rfl, rfl⟩ := sd_dualRows_big inp hm rows K h
    rw [mapM_ok_iff] at hper
    have hall : ∀ q ∈ perI, q.1.length = totalLen q.2 ∧ FeasBlocks (conP Q) q.2 (q.1.map (crowVal σ)) :=
      forall₂_forall_right hper (fun p hp q hq =>
        sd_perI_feas Q inp p hp x xt t ht σ hM hwidth (hcover p hp).1 (hcover p hp).2 (hsizes p hp).2
          (hmulen p hp) hxt' hdom' q hq)
    rw [List.map_append, feasBlocks_append _ _ _ _ _ (by simp [totalLen]),
      feasBlocks_single _ _ _ _ (by simp), feasBlocks_flatMap _ _ _ (fun q hq => (hall q hq).1)]
    refine ⟨?_, fun q hq => (hall q hq).2⟩
    show ∀ a ∈ _, 0 ≤ a
    intro a ha
    rw [List.map_map, List.mem_map] at ha
    obtain ⟨i, _, rfl⟩ := ha
    exact sd_v_nonneg inp x xt t ht σ hM hvlen i

end Sageopt.Sage
