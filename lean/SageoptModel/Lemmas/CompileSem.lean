/-
Semantics used to state the C07 theorems: real values of parsed affine arguments, of nonlinear atoms
(by their mathematical definitions), of ScalarExpressions and of compiled rows; what it means for a
high-level constraint to hold; feasibility of a compiled block list.  Definitions only.
-/
import SageoptModel.Model.Compile
import SageoptModel.Lemmas.RealCones
import Mathlib.Analysis.SpecialFunctions.Log.Basic
import Mathlib.Analysis.SpecialFunctions.Sqrt

namespace Sageopt.Compile
open Sageopt Sageopt.Solvers Sageopt.Analysis

noncomputable section

/-- value of a parsed affine argument under an assignment of the scalar variables -/
def argVal (σ : Nat → ℝ) (x : AffArg) : ℝ := (x.co.map fun p => (p.2 : ℝ) * σ p.1).sum + (x.off : ℝ)

/-- `atom(σ) ≤ t`, by the atom's mathematical definition (relative entropy is `+∞` outside its domain,
    so the relation is stated directly) -/
def AtomLe (σ : Nat → ℝ) (a : NlAtom) (t : ℝ) : Prop :=
  match a.kind, a.args with
  | .abs, [x] => |argVal σ x| ≤ t
  | .pos, [x] => max (argVal σ x) 0 ≤ t
  | .exp, [x] => Real.exp (argVal σ x) ≤ t
  | .relent, [x, y] =>
    (0 < argVal σ x ∧ 0 < argVal σ y ∧ argVal σ x * Real.log (argVal σ x / argVal σ y) ≤ t) ∨
    (argVal σ x = 0 ∧ 0 ≤ argVal σ y ∧ 0 ≤ t)
  | .norm2, args => Real.sqrt ((args.map fun x => (argVal σ x) ^ 2).sum) ≤ t
  | _, _ => False

/-- a ScalarExpression `Σ c_a·atom_a + Σ c_v·v + off` is `≤ 0` (resp. `= 0` for affine rows) at `σ`:
    there are values `τ a` with `atom_a(σ) ≤ τ a` … with equality forced for the *least* such values.
    For rows whose nonlinear atoms all have positive coefficients (`ConvexRow`) this is the same as
    "the expression evaluated with the atoms' true values is ≤ 0": the left side is monotone in τ. -/
def rowValWith (σ : Nat → ℝ) (τ : NlAtom → ℝ) (r : SRow) : ℝ :=
  (r.terms.map fun t => (t.2 : ℝ) * (match t.1 with | .var id => σ id | .nl a => τ a)).sum + (r.off : ℝ)

/-- the mathematical meaning of `expr ≤ 0` for a convex row: the expression is finite and `≤ 0`, i.e.
    some exact atom values `τ` (`IsVal`) make the sum `≤ 0` -/
def IsVal (σ : Nat → ℝ) (a : NlAtom) (v : ℝ) : Prop := AtomLe σ a v ∧ ∀ t, AtomLe σ a t → v ≤ t

def RowLe (σ : Nat → ℝ) (r : SRow) : Prop :=
  ∃ τ : NlAtom → ℝ, (∀ a ∈ rowAtoms r, IsVal σ a (τ a)) ∧ rowValWith σ τ r ≤ 0

def RowEq (σ : Nat → ℝ) (r : SRow) : Prop :=
  rowAtoms r = [] ∧ rowValWith σ (fun _ => 0) r = 0

/-- value of an affine ScalarExpression (no nonlinear atoms) -/
def affVal (σ : Nat → ℝ) (r : SRow) : ℝ := rowValWith σ (fun _ => 0) r

/-- cone predicates over ℝ for the high-level constraints; `pow`/`psd` stay abstract (`Q`) -/
def conP (Q : CType → List ℝ → Prop) (t : CType) (v : List ℝ) : Prop :=
  match t with
  | .pow | .psd => Q t v
  | t => realP t v

/-- membership in the DUAL of the cone with tag `t` (`S`, `+` self-dual; `0` ↦ everything;
    `e` ↦ the dual exponential cone, defined by the pairing in `Lemmas/ExpCone.lean`) -/
def dualP (Q : CType → List ℝ → Prop) (t : CType) (v : List ℝ) : Prop :=
  match t with
  | .zero => True
  | .exp => dexpR v
  | .pow | .psd => Q t v
  | t => realP t v

def Holds (Q : CType → List ℝ → Prop) (σ : Nat → ℝ) : Con → Prop
  | .elem true rows => ∀ r ∈ rows, RowEq σ r
  | .elem false rows => ∀ r ∈ rows, RowLe σ r
  | .primal y K => (∀ r ∈ y, rowAtoms r = []) ∧ FeasBlocks (conP Q) K (y.map (affVal σ))
  | .dual y K => (∀ r ∈ y, rowAtoms r = []) ∧ FeasBlocks (dualP Q) K (y.map (affVal σ))
  | .pow w z => (∀ r ∈ w ++ z, rowAtoms r = []) ∧ Q .pow ((w ++ z).map (affVal σ))
  | .psd arg => (∀ r ∈ triuEntries arg, rowAtoms r = []) ∧ Q .psd ((triuEntries arg).map (affVal σ))

/-- value of a compiled row -/
def crowVal (σ : Nat → ℝ) (r : CRow) : ℝ :=
  (if r.eScale then Real.exp 1 else 1) * ((r.entries.map fun e => (e.2 : ℝ) * σ e.1).sum + (r.const : ℝ))

/-- `A x + b ∈ K` for the compiled rows, `x = σ` -/
def FeasRows (Q : CType → List ℝ → Prop) (σ : Nat → ℝ) (rows : List CRow) (K : List Cone) : Prop :=
  FeasBlocks (conP Q) K (rows.map (crowVal σ))

/-- the decidable side condition the proof needs (curvature): in `≤` rows every nonlinear atom has a
    positive coefficient; `==` rows are affine -/
def ConvexRow (r : SRow) : Bool := r.terms.all fun t => match t.1 with | .var _ => true | .nl _ => decide (0 < t.2)

def Convex : Con → Bool
  | .elem true rows => rows.all fun r => (rowAtoms r).isEmpty
  | .elem false rows => rows.all ConvexRow
  | _ => true

/-- ids used as user variables anywhere (rows and atom arguments) -/
def rowVarIds (r : SRow) : List Nat :=
  r.terms.flatMap fun t => match t.1 with | .var id => [id] | .nl a => a.args.flatMap fun x => x.co.map (·.1)

def conVarIds : Con → List Nat
  | .elem _ rows => rows.flatMap rowVarIds
  | .primal y _ => y.flatMap rowVarIds
  | .dual y _ => y.flatMap rowVarIds
  | .pow w z => (w ++ z).flatMap rowVarIds
  | .psd arg => (triuEntries arg).flatMap rowVarIds

/-- epigraph variables are fresh: distinct for distinct atoms, and not used as ordinary variables -/
def EpiFresh (cons : List Con) : Prop :=
  let atoms := collectAtoms ((cons.filter isElem).flatMap elemRowsOf)
  (∀ a ∈ atoms, a.epi ∉ cons.flatMap conVarIds) ∧
  (atoms.map (·.epi)).Nodup

end

end Sageopt.Compile
