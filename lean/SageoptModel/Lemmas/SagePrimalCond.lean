/-
C01 helper lemmas: soundness of a conditional block of `primalRows` (X in conic form, possibly lifted).
-/
import SageoptModel.Lemmas.SagePrimalSound

namespace Sageopt.Sage
open Sageopt Sageopt.Compile Sageopt.Solvers Sageopt.Analysis
open Finset

theorem sp_condZ_val (σ : Nat → ℝ) (inp : PrimalIn) (X : Dom) (p : PIds) :
    argVal σ (sp_condZ inp X p) = - ageVal σ inp.alpha.length inp.c inp.ech p p.i
      + ∑ s ∈ range p.eta.length, ((X.b.getD s 0 : Rat) : ℝ) * σ (p.eta.getD s 0) := by
  have h1 := sp_zip_sum_filter' σ p.eta X.b
  have h2 := sp_argVal_negE σ ((ageVector inp.alpha.length inp.c inp.ech p).getD p.i (constE 0))
  rw [sp_ageVal_self] at h2
  rw [← h2, ← h1]
  unfold sp_condZ argVal
  simp only [List.map_append, List.sum_append]
  ring

theorem sp_eta_vals (σ : Nat → ℝ) (eta : List Nat) :
    (eta.map fun id => (⟨[(.var id, 1)], 0⟩ : SRow)).map (affVal σ) = eta.map σ := by
  rw [List.map_map]
  apply List.map_congr_left
  intro id _
  simp [affVal, rowValWith]

theorem sp_domSlack_getD (X : Dom) (xt : List ℝ) (s : Nat) (h1 : s < X.A.length) (h2 : s < X.b.length) :
    (domSlack X xt).getD s 0 = rdot (X.A.getD s []) xt + ((X.b.getD s 0 : Rat) : ℝ) := by
  unfold domSlack
  simp [List.getD_eq_getElem?_getD, h1, h2]

theorem sp_lifted_getD (alpha : List (List Rat)) (N j : Nat) (hj : j < alpha.length) :
    (alpha.map (padTo N)).getD j [] = padTo N (alpha.getD j []) :=
  sp_getD_map (padTo N) alpha j [] [] hj

theorem sp_cond_sound (Q : CType → List ℝ → Prop) (σ : Nat → ℝ) (inp : PrimalIn)
    (hwidth : ∀ r ∈ inp.alpha, r.length = inp.n) (X : Dom) (hdom : domWf inp.n X)
    (p : PIds) (hpw : sp_PWf inp p)
    (hplain : (inp.settings.kernelBasis && !p.basis.isEmpty) = false)
    (hx : (nuExprs inp.settings p).length = (trueIdx (coverOf inp.ech p.i)).length)
    (he : p.epi.length = (trueIdx (coverOf inp.ech p.i)).length)
    (heta : p.eta.length = X.b.length)
    (r3 : List CRow) (k3 : List Cone)
    (hc : conRows inp.dummy (.dual (p.eta.map fun id => ⟨[(.var id, 1)], 0⟩) X.K) = .ok (r3, k3))
    (hf : FeasBlocks (conP Q)
      ((sumRelent (nuExprs inp.settings p)
          ((trueIdx (coverOf inp.ech p.i)).map fun j => (ageVector inp.alpha.length inp.c inp.ech p).getD j (constE 0))
          (sp_condZ inp X p) p.epi).2 ++ [⟨.zero, X.N⟩] ++ k3)
      (((sumRelent (nuExprs inp.settings p)
          ((trueIdx (coverOf inp.ech p.i)).map fun j => (ageVector inp.alpha.length inp.c inp.ech p).getD j (constE 0))
          (sp_condZ inp X p) p.epi).1 ++ sp_condEq inp X p ++ r3).map (crowVal σ))) :
    (∀ j, j < inp.alpha.length → j ≠ p.i → 0 ≤ ageVal σ inp.alpha.length inp.c inp.ech p j) ∧
    ∀ x : List ℝ, InDom Q (some X) inp.n x → 0 ≤ ∑ j ∈ range inp.alpha.length,
      ageVal σ inp.alpha.length inp.c inp.ech p j * Real.exp (rdot (inp.alpha.getD j []) x) := by
  obtain ⟨hnN, hAb, hAw, hbK, hKt, _⟩ := hdom
  have hl1 := sp_sumRelent_length (nuExprs inp.settings p)
    ((trueIdx (coverOf inp.ech p.i)).map fun j => (ageVector inp.alpha.length inp.c inp.ech p).getD j (constE 0))
    (sp_condZ inp X p) p.epi
  have hl2 : (sp_condEq inp X p).length = X.N := by simp [sp_condEq]
  rw [List.map_append, feasBlocks_append _ _ _ _ _ (by
      rw [List.length_map, List.length_append, totalLen_append, hl1, hl2]; simp),
    List.map_append, feasBlocks_append _ _ _ _ _ (by rw [List.length_map]; exact hl1)] at hf
  obtain ⟨⟨hf1, hf2⟩, hf3⟩ := hf
  -- relative entropy rows
  obtain ⟨hlin, hrows⟩ := sp_relent_unpack Q σ inp p hpw _ he hx hf1
  rw [sp_condZ_val] at hlin
  -- balance rows
  unfold sp_condEq at hf2
  rw [sp_eq_feas] at hf2
  obtain ⟨hnl, hnv⟩ := sp_nu_plain σ inp.settings p hplain
  have hK : p.nu.length = (trueIdx (coverOf inp.ech p.i)).length := by rw [← hnl]; exact hx
  -- eta in the dual cone
  have hd := (dual_rows_sem Q σ inp.dummy _ X.K hKt (by rw [List.length_map, heta, hbK]) r3 k3 hc).2
  rw [hd, sp_eta_vals] at hf3
  refine ⟨sp_age_nonneg σ inp p hpw _ _ hrows, ?_⟩
  rintro x ⟨hxl, xt, hxt, htake, hfe⟩
  -- pairing
  have hsl : (domSlack X xt).length = totalLen X.K := by
    unfold domSlack totalLen
    rw [List.length_zipWith, hAb, Nat.min_self, hbK]
  have hpair := sp_pairing Q X.K hKt _ _ hfe hf3 hsl
  rw [sp_dot_eq, List.length_map] at hpair
  have key := sp_cert_sig σ inp.alpha inp.c inp.ech p hpw.hi hpw.hlt hpw.hni X.N p.eta.length
    (fun s t => (((X.A.getD s []).getD t 0 : Rat) : ℝ)) (fun s => ((X.b.getD s 0 : Rat) : ℝ))
    (fun s => σ (p.eta.getD s 0)) (fun k => argVal σ ((nuExprs inp.settings p).getD k (constE 0)))
    p.epi xt hxt ?_ hrows ?_ ?_
  · -- from `xt` to `x`
    have : ∀ j ∈ range inp.alpha.length,
        ageVal σ inp.alpha.length inp.c inp.ech p j * Real.exp (rdot (inp.alpha.getD j []) x)
        = ageVal σ inp.alpha.length inp.c inp.ech p j * Real.exp (rdot (inp.alpha.getD j []) xt) := by
      intro j hj
      rw [← htake, sp_rdot_take _ _ _ (le_of_eq (sp_alpha_getD_length inp.alpha inp.n hwidth j (Finset.mem_range.1 hj)))]
    rw [Finset.sum_congr rfl this]
    exact key
  · -- pairing in range form
    refine le_of_le_of_eq hpair ?_
    apply Finset.sum_congr rfl
    intro s hs
    rw [Finset.mem_range] at hs
    rw [sp_domSlack_getD X xt s (by rw [hAb, ← heta]; exact hs) (by rw [← heta]; exact hs),
      sp_getD_map σ p.eta s 0 0 hs, sp_rdot_eq, hxt]
    ring
  · -- the linear row
    have : ∑ s ∈ range p.eta.length, σ (p.eta.getD s 0) * ((X.b.getD s 0 : Rat) : ℝ)
        = ∑ s ∈ range p.eta.length, ((X.b.getD s 0 : Rat) : ℝ) * σ (p.eta.getD s 0) := by
      apply Finset.sum_congr rfl; intro s _; ring
    rw [this]
    linarith
  · -- the balance rows
    intro t ht
    have h2 := hf2 t ht
    rw [hK] at h2
    have : ∑ s ∈ range p.eta.length, (((X.A.getD s []).getD t 0 : Rat) : ℝ) * σ (p.eta.getD s 0) = _ := h2.symm
    rw [this]
    apply Finset.sum_congr rfl
    intro k hk
    rw [Finset.mem_range] at hk
    have hck := hpw.hlt _ (sp_getD_mem (trueIdx (coverOf inp.ech p.i)) k 0 hk)
    have hlen : ∀ j, j < inp.alpha.length → (padTo X.N (inp.alpha.getD j [])).length = X.N := by
      intro j hj
      exact sp_padTo_length _ _ (by rw [sp_alpha_getD_length inp.alpha inp.n hwidth j hj]; exact hnN)
    rw [hnv k (by rw [hK]; exact hk), sp_getD_map _ (trueIdx (coverOf inp.ech p.i)) k 0 [] hk,
      sp_lifted_getD _ _ _ hck, sp_lifted_getD _ _ _ hpw.hi,
      sp_subRow_getD _ _ (by rw [hlen _ hck, hlen _ hpw.hi]) t, sp_padTo_getD, sp_padTo_getD]
    push_cast; ring

end Sageopt.Sage
