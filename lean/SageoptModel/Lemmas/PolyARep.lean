/-
C05 helper lemmas, part 2: the signomial representative with affine coefficients (`sigRepTerms`):
its equations, the minorant property under the side constraints, the list of side constraints, and
the index bookkeeping of `needVars` / `createCovers`.
-/
import SageoptModel.Lemmas.PolyAMono

namespace Sageopt.Poly
open Sageopt Sageopt.Sig Sageopt.Relax Sageopt.Sage

/-- the row gets a fresh variable -/
def pa_need (t : Exp × Lin) : Bool := !isEvenExp t.1 && !t.2.isConstant

/-! ### equations of `sigRepTerms` -/

theorem pa_sigRepTerms_nil (ids : List Nat) : sigRepTerms [] ids = ([], []) := by
  simp [sigRepTerms]

theorem pa_sigRepTerms_even (a : Exp) (c : Lin) (ts : List (Exp × Lin)) (ids : List Nat)
    (he : isEvenExp a = true) :
    sigRepTerms ((a, c) :: ts) ids = ((a, c) :: (sigRepTerms ts ids).1, (sigRepTerms ts ids).2) := by
  simp [sigRepTerms, he]

theorem pa_sigRepTerms_const (a : Exp) (c : Lin) (ts : List (Exp × Lin)) (ids : List Nat)
    (he : isEvenExp a = false) (hc : c.isConstant = true) :
    sigRepTerms ((a, c) :: ts) ids =
      ((a, Lin.const (-(absLin c.off))) :: (sigRepTerms ts ids).1, (sigRepTerms ts ids).2) := by
  simp [sigRepTerms, he, hc]

theorem pa_sigRepTerms_poison (a : Exp) (c : Lin) (ts : List (Exp × Lin))
    (he : isEvenExp a = false) (hc : c.isConstant = false) :
    sigRepTerms ((a, c) :: ts) [] =
      ((a, { c with bad := true }) :: (sigRepTerms ts []).1, (sigRepTerms ts []).2) := by
  simp [sigRepTerms, he, hc]

theorem pa_sigRepTerms_var (a : Exp) (c : Lin) (ts : List (Exp × Lin)) (id : Nat) (rest : List Nat)
    (he : isEvenExp a = false) (hc : c.isConstant = false) :
    sigRepTerms ((a, c) :: ts) (id :: rest) =
      ((a, Lin.var id) :: (sigRepTerms ts rest).1, ⟨id, c⟩ :: (sigRepTerms ts rest).2) := by
  simp [sigRepTerms, he, hc]

theorem pa_value_var (σ : Nat → Rat) (i : Nat) : Lin.value σ (Lin.var i) = σ i := by
  simp [Lin.value, Lin.var]

theorem pa_evalL_cons (σ : Nat → Rat) (t : Exp × Lin) (ts : List (Exp × Lin)) :
    evalL σ (t :: ts) = (t.1, Lin.value σ t.2) :: evalL σ ts := rfl

/-! ### the minorant property -/

theorem pa_sigRepTerms_minorant (ts : List (Exp × Lin)) (ids : List Nat)
    (hc : (ts.filter pa_need).length ≤ ids.length) (σ : Nat → Rat)
    (hside : SideOk σ (sigRepTerms ts ids).2) (x : List ℝ) (hx : NoZero x)
    (hw : ∀ t ∈ ts, t.1.length = x.length ∧ isPolyExp t.1 = true) :
    sigR (evalL σ (sigRepTerms ts ids).1) (logAbs x) ≤ polyR (evalL σ ts) x := by
  induction ts generalizing ids with
  | nil => simp [pa_sigRepTerms_nil, evalL, pa_sigR_nil, pa_polyR_nil]
  | cons t ts ih =>
    obtain ⟨a, c⟩ := t
    have hw' : ∀ t ∈ ts, t.1.length = x.length ∧ isPolyExp t.1 = true :=
      fun u hu => hw u (List.mem_cons_of_mem _ hu)
    obtain ⟨hal, hap⟩ := hw (a, c) (by simp)
    simp only at hal hap
    cases he : isEvenExp a with
    | true =>
      have hn : pa_need (a, c) = false := by simp [pa_need, he]
      rw [List.filter_cons_of_neg (by simp [hn])] at hc
      rw [pa_sigRepTerms_even a c ts ids he] at hside ⊢
      rw [pa_evalL_cons, pa_evalL_cons, pa_sigR_cons, pa_polyR_cons]
      refine add_le_add ?_ (ih ids hc hside hw')
      show _ * Real.exp (rdot a (logAbs x)) ≤ _ * monoR a x
      rw [pa_mono_even a x hx hal hap he]
    | false =>
      cases hk : c.isConstant with
      | true =>
        have hn : pa_need (a, c) = false := by simp [pa_need, hk]
        rw [List.filter_cons_of_neg (by simp [hn])] at hc
        rw [pa_sigRepTerms_const a c ts ids he hk] at hside ⊢
        rw [pa_evalL_cons, pa_evalL_cons, pa_sigR_cons, pa_polyR_cons]
        refine add_le_add ?_ (ih ids hc hside hw')
        show ((Lin.value σ (Lin.const (-(absLin c.off))) : Rat) : ℝ) * Real.exp (rdot a (logAbs x)) ≤
          ((Lin.value σ c : Rat) : ℝ) * monoR a x
        rw [Lin.value_const, Lin.value_of_isConstant σ c hk, Rat.cast_neg, pa_absLin_cast]
        exact pa_term_le_abs a x hx hal hap _
      | false =>
        have hn : pa_need (a, c) = true := by simp [pa_need, he, hk]
        rw [List.filter_cons_of_pos hn] at hc
        cases ids with
        | nil => simp at hc
        | cons id rest =>
          rw [pa_sigRepTerms_var a c ts id rest he hk] at hside ⊢
          rw [pa_evalL_cons, pa_evalL_cons, pa_sigR_cons, pa_polyR_cons]
          have hs1 := hside ⟨id, c⟩ (by simp)
          refine add_le_add ?_ (ih rest (by simpa using hc)
            (fun s hs => hside s (List.mem_cons_of_mem _ hs)) hw')
          show ((Lin.value σ (Lin.var id) : Rat) : ℝ) * Real.exp (rdot a (logAbs x)) ≤
            ((Lin.value σ c : Rat) : ℝ) * monoR a x
          rw [pa_value_var]
          apply pa_term_le_of_le a x hx hal hap
          · exact_mod_cast hs1.1
          · exact_mod_cast hs1.2

/-! ### the side constraints -/

theorem pa_sigRepTerms_side (ts : List (Exp × Lin)) (ids : List Nat)
    (hc : (ts.filter pa_need).length ≤ ids.length) :
    (sigRepTerms ts ids).2.map (·.chat) = ids.take (ts.filter pa_need).length ∧
    (sigRepTerms ts ids).2.map (·.c) = (ts.filter pa_need).map (·.2) := by
  induction ts generalizing ids with
  | nil => simp [pa_sigRepTerms_nil]
  | cons t ts ih =>
    obtain ⟨a, c⟩ := t
    cases he : isEvenExp a with
    | true =>
      have hn : pa_need (a, c) = false := by simp [pa_need, he]
      rw [List.filter_cons_of_neg (by simp [hn])] at hc ⊢
      rw [pa_sigRepTerms_even a c ts ids he]
      exact ih ids hc
    | false =>
      cases hk : c.isConstant with
      | true =>
        have hn : pa_need (a, c) = false := by simp [pa_need, hk]
        rw [List.filter_cons_of_neg (by simp [hn])] at hc ⊢
        rw [pa_sigRepTerms_const a c ts ids he hk]
        exact ih ids hc
      | false =>
        have hn : pa_need (a, c) = true := by simp [pa_need, he, hk]
        rw [List.filter_cons_of_pos hn] at hc ⊢
        cases ids with
        | nil => simp at hc
        | cons id rest =>
          rw [pa_sigRepTerms_var a c ts id rest he hk]
          obtain ⟨h1, h2⟩ := ih rest (by simpa using hc)
          simp only [List.map_cons, List.length_cons, List.take_succ_cons, h1, h2]
          exact ⟨trivial, trivial⟩

/-! ### indices selected from `zipIdx` -/

theorem pa_zipIdx_filter_fst {α : Type} (P : α → Bool) (l : List α) (k : Nat) :
    ((l.zipIdx k).filter fun p => P p.1).map Prod.fst = l.filter P := by
  induction l generalizing k with
  | nil => simp
  | cons a l ih =>
    rw [List.zipIdx_cons]
    by_cases h : P a = true
    · rw [List.filter_cons_of_pos (by simpa using h), List.filter_cons_of_pos h, List.map_cons, ih]
    · rw [List.filter_cons_of_neg (by simpa using h), List.filter_cons_of_neg h, ih]

theorem pa_zipIdx_getD {α : Type} (l : List α) (d : α) (p : α × Nat) (h : p ∈ l.zipIdx) :
    l.getD p.2 d = p.1 := by
  rw [List.getD_eq_getElem?_getD, List.mem_zipIdx_iff_getElem?.1 h]
  rfl

theorem pa_needVars_eq (p : SigL) :
    needVars p = ((p.terms.zipIdx.filter fun q => pa_need q.1).map Prod.snd) := rfl

theorem pa_needVars_length (p : SigL) : (needVars p).length = (p.terms.filter pa_need).length := by
  rw [pa_needVars_eq, List.length_map, ← pa_zipIdx_filter_fst pa_need p.terms 0, List.length_map]

theorem pa_needVars_map (p : SigL) (d : Exp × Lin) :
    (needVars p).map (fun i => (p.terms.getD i d).2) = (p.terms.filter pa_need).map (·.2) := by
  rw [pa_needVars_eq, ← pa_zipIdx_filter_fst pa_need p.terms 0, List.map_map, List.map_map]
  apply List.map_congr_left
  intro q hq
  have := pa_zipIdx_getD p.terms d q (List.mem_of_mem_filter hq)
  simp only [Function.comp_def, this]

/-! ### `createCovers` -/

/-- the index has no AGE cone -/
def pa_skip (t : Exp × Lin) : Bool := t.2.isConstant && decide (0 ≤ t.2.off) && isEvenExp t.1

def pa_coverRow (sr : SigL) (i : Nat) : List Bool :=
  (List.range sr.terms.length).map fun j => j != i && (sr.terms.map fun t => isEvenExp t.1).getD j false

theorem pa_createCovers_eq (sr : SigL) :
    createCovers sr = sr.terms.zipIdx.filterMap fun q =>
      if pa_skip q.1 then none else some (q.2, pa_coverRow sr q.2) := rfl

theorem pa_mem_createCovers (sr : SigL) (pr : Nat × List Bool) :
    pr ∈ createCovers sr ↔ ∃ q ∈ sr.terms.zipIdx, pa_skip q.1 = false ∧ pr = (q.2, pa_coverRow sr q.2) := by
  rw [pa_createCovers_eq, List.mem_filterMap]
  constructor
  · rintro ⟨q, hq, h⟩
    refine ⟨q, hq, ?_⟩
    cases hs : pa_skip q.1 with
    | true => simp [hs] at h
    | false =>
      simp only [hs, Bool.false_eq_true, if_false, Option.some.injEq] at h
      exact ⟨rfl, h.symm⟩
  · rintro ⟨q, hq, hs, rfl⟩
    exact ⟨q, hq, by simp [hs]⟩

theorem pa_coverRow_getD (sr : SigL) (i j : Nat) :
    (pa_coverRow sr i).getD j false =
      (decide (j < sr.terms.length) && (j != i && isEvenExp ((sr.terms.getD j ([], Lin.const 0)).1))) := by
  unfold pa_coverRow
  rw [List.getD_eq_getElem?_getD, List.getElem?_map]
  by_cases hj : j < sr.terms.length
  · rw [List.getElem?_range hj]
    simp only [Option.map_some, Option.getD_some, hj, decide_true, Bool.true_and]
    congr 1
    rw [List.getD_eq_getElem?_getD, List.getD_eq_getElem?_getD, List.getElem?_map,
      List.getElem?_eq_getElem hj]
    rfl
  · rw [List.getElem?_eq_none (by simpa using hj)]
    simp [hj]

end Sageopt.Poly

namespace Sageopt.Poly
open Sageopt Sageopt.Sig Sageopt.Relax

theorem pa_sigRep_eq (p : SigL) (chat : List Nat) :
    sigRep p chat = (⟨p.n, (sigRepTerms p.terms chat).1⟩, (sigRepTerms p.terms chat).2) := rfl

end Sageopt.Poly
