/-
Helper lemmas for C17: the list of survivors inside `select`, membership in `select`, order of `select`.
Core Lean only.
-/
import SageoptModel.Lemmas.SolrecBasic

namespace Sageopt.Solrec

/-- the list that `select` sorts: (index, objective value) of every candidate that passes the filter -/
def srKept (itol etol : Rat) (cands : List Cand) : List (Nat × FV) :=
  (cands.zipIdx.filter fun p => isFeasible itol etol p.1.gt p.1.eq).map fun p => (p.2, p.1.obj)

theorem sr_select_eq (itol etol : Rat) (cands : List Cand) :
    select itol etol cands = (sortStable (srKept itol etol cands)).map (·.1) := rfl

theorem sr_mem_kept (itol etol : Rat) (cands : List Cand) (y : Nat × FV) :
    y ∈ srKept itol etol cands ↔
      ∃ c, cands[y.1]? = some c ∧ isFeasible itol etol c.gt c.eq = true ∧ y.2 = c.obj := by
  simp only [srKept, List.mem_map, List.mem_filter, List.mem_zipIdx_iff_getElem?]
  constructor
  · rintro ⟨⟨c, i⟩, ⟨h1, h2⟩, rfl⟩
    exact ⟨c, h1, h2, rfl⟩
  · rintro ⟨c, h1, h2, h3⟩
    refine ⟨(c, y.1), ⟨h1, h2⟩, ?_⟩
    cases y
    simp_all

theorem sr_mem_select (itol etol : Rat) (cands : List Cand) (i : Nat) :
    i ∈ select itol etol cands ↔ ∃ c, cands[i]? = some c ∧ isFeasible itol etol c.gt c.eq = true := by
  rw [sr_select_eq, List.mem_map]
  constructor
  · rintro ⟨y, hy, rfl⟩
    obtain ⟨c, h1, h2, _⟩ := (sr_mem_kept ..).1 ((sr_mem_sortStable ..).1 hy)
    exact ⟨c, h1, h2⟩
  · rintro ⟨c, h1, h2⟩
    exact ⟨(i, c.obj), (sr_mem_sortStable ..).2 ((sr_mem_kept ..).2 ⟨c, h1, h2, rfl⟩), rfl⟩

theorem sr_kept_fst_sublist (itol etol : Rat) (cands : List Cand) :
    ((srKept itol etol cands).map (·.1)).Sublist (List.range' 0 cands.length) := by
  have h : (srKept itol etol cands).map (·.1) =
      (cands.zipIdx.filter fun p => isFeasible itol etol p.1.gt p.1.eq).map Prod.snd := by
    simp [srKept, List.map_map, Function.comp_def]
  rw [h, ← List.zipIdx_map_snd 0 cands]
  exact List.filter_sublist.map _

theorem sr_kept_fst_lt (itol etol : Rat) (cands : List Cand) :
    (srKept itol etol cands).Pairwise fun a b => a.1 < b.1 := by
  have := List.Pairwise.sublist (sr_kept_fst_sublist itol etol cands)
    (List.pairwise_lt_range' (s := 0) (n := cands.length))
  exact List.pairwise_map.1 this

theorem sr_select_nodup (itol etol : Rat) (cands : List Cand) : (select itol etol cands).Nodup := by
  rw [sr_select_eq, ((sr_sortStable_perm (srKept itol etol cands)).map (·.1)).nodup_iff]
  exact (sr_kept_fst_sublist itol etol cands).nodup (List.nodup_range' (s := 0) (n := cands.length))

/-- the key stored next to a surviving index is the objective value of that candidate -/
theorem sr_key_eq (itol etol : Rat) (cands : List Cand) (d : Cand) (y : Nat × FV)
    (hy : y ∈ sortStable (srKept itol etol cands)) : y.2 = (cands.getD y.1 d).obj := by
  obtain ⟨c, h1, _, h3⟩ := (sr_mem_kept ..).1 ((sr_mem_sortStable ..).1 hy)
  rw [List.getD_eq_getElem?_getD, h1, h3]
  rfl

/-- order of the returned list: no later objective value is smaller than an earlier one, and equal objective values
    appear in order of index (holds with no assumption on NaN objective values) -/
theorem sr_select_order (itol etol : Rat) (cands : List Cand) (d : Cand) :
    (select itol etol cands).Pairwise fun i j =>
      fvLt (cands.getD j d).obj (cands.getD i d).obj = false ∧ ((cands.getD i d).obj = (cands.getD j d).obj → i < j) := by
  rw [sr_select_eq, List.pairwise_map]
  have h := sr_sortStable_inv _ (sr_kept_fst_lt itol etol cands)
  refine List.Pairwise.imp_of_mem ?_ h
  intro a b ha hb hab
  rw [← sr_key_eq itol etol cands d a ha, ← sr_key_eq itol etol cands d b hb]
  exact hab

end Sageopt.Solrec
