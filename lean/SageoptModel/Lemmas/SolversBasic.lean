/-
Basic list lemmas for the C10 proofs: `selectBy`, `selector`, `dot`, block decomposition of
`FeasBlocks` by cone type.
-/
import SageoptModel.Lemmas.SolversSem
import Mathlib.Tactic.Ring
import Mathlib.Tactic.Linarith

namespace Sageopt.Solvers
open Sageopt

variable {R : Type} {α β γ : Type}

instance : LawfulBEq CType where
  eq_of_beq := by intro a b h; cases a <;> cases b <;> first | rfl | cases h
  rfl := by intro a; cases a <;> rfl

/-! ### selectBy -/

@[simp] theorem selectBy_nil_left (l : List α) : selectBy [] l = [] := by
  cases l <;> rfl

@[simp] theorem selectBy_nil_right (m : List Bool) : selectBy m ([] : List α) = [] := by
  cases m with
  | nil => rfl
  | cons b m => cases b <;> rfl

@[simp] theorem selectBy_cons_true (m : List Bool) (x : α) (l : List α) :
    selectBy (true :: m) (x :: l) = x :: selectBy m l := rfl

@[simp] theorem selectBy_cons_false (m : List Bool) (x : α) (l : List α) :
    selectBy (false :: m) (x :: l) = selectBy m l := rfl

theorem selectBy_map (f : α → β) (m : List Bool) (l : List α) :
    selectBy m (l.map f) = (selectBy m l).map f := by
  induction m generalizing l with
  | nil => simp
  | cons b m ih =>
    cases l with
    | nil => simp
    | cons x l => cases b <;> simp [ih]

theorem selectBy_zipWith (f : α → β → γ) (m : List Bool) (a : List α) (b : List β) :
    selectBy m (List.zipWith f a b) = List.zipWith f (selectBy m a) (selectBy m b) := by
  induction m generalizing a b with
  | nil => simp
  | cons c m ih =>
    cases a with
    | nil => simp
    | cons x a =>
      cases b with
      | nil => simp
      | cons y b => cases c <;> simp [ih]

theorem selectBy_append (m1 m2 : List Bool) (l1 l2 : List α) (h : m1.length = l1.length) :
    selectBy (m1 ++ m2) (l1 ++ l2) = selectBy m1 l1 ++ selectBy m2 l2 := by
  induction m1 generalizing l1 with
  | nil =>
    cases l1 with
    | nil => simp
    | cons x l1 => simp at h
  | cons c m ih =>
    cases l1 with
    | nil => simp at h
    | cons x l1 =>
      simp at h
      cases c <;> simp [ih l1 h]

theorem selectBy_replicate_true (n : Nat) (l : List α) (h : l.length = n) :
    selectBy (List.replicate n true) l = l := by
  induction n generalizing l with
  | zero => cases l with
    | nil => rfl
    | cons x l => simp at h
  | succ n ih =>
    cases l with
    | nil => simp at h
    | cons x l => simp at h; simp [List.replicate_succ, ih l h]

theorem selectBy_replicate_false (n : Nat) (l : List α) :
    selectBy (List.replicate n false) l = [] := by
  induction n generalizing l with
  | zero => simp
  | succ n ih =>
    cases l with
    | nil => simp
    | cons x l => simp [List.replicate_succ, ih l]

theorem length_selectBy (m : List Bool) (l : List α) (h : m.length = l.length) :
    (selectBy m l).length = countTrue m := by
  induction m generalizing l with
  | nil => simp [countTrue]
  | cons c m ih =>
    cases l with
    | nil => simp at h
    | cons x l =>
      simp at h
      cases c <;> simp [countTrue, ih l h]

/-! ### selector -/

def totalLen (K : List Cone) : Nat := (K.map (·.len)).sum

@[simp] theorem totalLen_nil : totalLen [] = 0 := rfl
@[simp] theorem totalLen_cons (co : Cone) (K : List Cone) :
    totalLen (co :: K) = co.len + totalLen K := by simp [totalLen]

@[simp] theorem selector_nil (t : CType) : selector [] t = [] := rfl

theorem selector_cons (co : Cone) (K : List Cone) (t : CType) :
    selector (co :: K) t = List.replicate co.len (co.type == t) ++ selector K t := by
  simp [selector]

theorem length_selector (K : List Cone) (t : CType) : (selector K t).length = totalLen K := by
  induction K with
  | nil => rfl
  | cons co K ih => simp [selector_cons, ih]

/-- the rows of type `t` of a system starting with the cone `co` -/
theorem selectBy_selector_cons (co : Cone) (K : List Cone) (t : CType) (s : List α)
    (h : co.len ≤ s.length) :
    selectBy (selector (co :: K) t) s =
      (if co.type = t then s.take co.len else []) ++ selectBy (selector K t) (s.drop co.len) := by
  rw [selector_cons]
  conv => lhs; rw [← List.take_append_drop co.len s]
  rw [selectBy_append _ _ _ _ (by simp; omega)]
  by_cases hc : co.type = t
  · subst hc
    simp [selectBy_replicate_true _ _ (show (s.take co.len).length = co.len by simp; omega)]
  · have : (co.type == t) = false := by simpa using hc
    simp [hc, this, selectBy_replicate_false]

theorem countTrue_append (a b : List Bool) : countTrue (a ++ b) = countTrue a + countTrue b := by
  simp [countTrue]

theorem countTrue_replicate (n : Nat) (c : Bool) :
    countTrue (List.replicate n c) = if c then n else 0 := by
  cases c <;> simp [countTrue]

theorem countTrue_selector (K : List Cone) (t : CType) :
    countTrue (selector K t) = totalLen (K.filter (·.type == t)) := by
  induction K with
  | nil => rfl
  | cons co K ih =>
    rw [selector_cons, countTrue_append, countTrue_replicate, ih]
    by_cases hc : co.type = t
    · simp [hc]
    · have : (co.type == t) = false := by simpa using hc
      simp [this]

/-! ### FeasBlocks, decomposition by type -/

@[simp] theorem feasBlocks_nil (P : CType → List R → Prop) (s : List R) :
    FeasBlocks P [] s ↔ True := Iff.rfl

theorem feasBlocks_cons (P : CType → List R → Prop) (co : Cone) (K : List Cone) (s : List R) :
    FeasBlocks P (co :: K) s ↔ P co.type (s.take co.len) ∧ FeasBlocks P K (s.drop co.len) := Iff.rfl

/-- a blockwise-feasible vector is feasible type by type: for each type `t`, the sub-list of the
    cones of type `t` (in order) holds on the concatenation of their blocks -/
theorem feasBlocks_by_type (P : CType → List R → Prop) (K : List Cone) (s : List R)
    (h : totalLen K ≤ s.length) :
    FeasBlocks P K s ↔
      ∀ t, FeasBlocks P (K.filter (·.type == t)) (selectBy (selector K t) s) := by
  induction K generalizing s with
  | nil => simp
  | cons co K ih =>
    simp only [totalLen_cons] at h
    have hlen : co.len ≤ s.length := by omega
    have htk : (s.take co.len).length = co.len := by simp; omega
    have ih' := ih (s.drop co.len) (by simp; omega)
    rw [feasBlocks_cons, ih']
    constructor
    · rintro ⟨h1, h2⟩ t
      rw [selectBy_selector_cons co K t s hlen]
      by_cases hc : co.type = t
      · subst hc
        simp only [beq_self_eq_true, List.filter_cons_of_pos, if_true, feasBlocks_cons]
        rw [List.take_left' htk, List.drop_left' htk]
        exact ⟨h1, h2 _⟩
      · have hb : (co.type == t) = false := by simpa using hc
        simp only [hb, hc, List.filter_cons, if_false, List.nil_append]
        simpa using h2 t
    · intro hall
      constructor
      · have := hall co.type
        rw [selectBy_selector_cons co K _ s hlen] at this
        simp only [beq_self_eq_true, List.filter_cons_of_pos, if_true, feasBlocks_cons] at this
        rw [List.take_left' htk] at this
        exact this.1
      · intro t
        have := hall t
        rw [selectBy_selector_cons co K t s hlen] at this
        by_cases hc : co.type = t
        · subst hc
          simp only [beq_self_eq_true, List.filter_cons_of_pos, if_true, feasBlocks_cons] at this
          rw [List.drop_left' htk] at this
          exact this.2
        · have hb : (co.type == t) = false := by simpa using hc
          simp only [hb, hc, List.filter_cons, if_false, List.nil_append] at this
          simpa using this

/-- homogeneous blocks of an entrywise cone -/
theorem feasBlocks_entrywise (P : CType → List R → Prop) (t : CType) (Q : R → Prop)
    (hP : ∀ v, P t v ↔ ∀ a ∈ v, Q a) (K : List Cone) (s : List R)
    (hK : ∀ co ∈ K, co.type = t) (h : s.length ≤ totalLen K) :
    FeasBlocks P K s ↔ ∀ a ∈ s, Q a := by
  induction K generalizing s with
  | nil =>
    have : s = [] := by simpa using h
    simp [this]
  | cons co K ih =>
    simp only [totalLen_cons] at h
    rw [feasBlocks_cons, hK co (by simp), hP, ih (s.drop co.len) (fun c hc => hK c (by simp [hc]))
      (by simp; omega)]
    conv => rhs; rw [← List.take_append_drop co.len s]
    simp only [List.forall_mem_append]

theorem feasBlocks_of_nil_filter (P : CType → List R → Prop) (K : List Cone) (t : CType) (s : List R)
    (h : ∀ co ∈ K, co.type ≠ t) : FeasBlocks P (K.filter (·.type == t)) s := by
  have : K.filter (·.type == t) = [] := by
    simp only [List.filter_eq_nil_iff]
    intro co hco
    simpa using h co hco
  simp [this]

/-! ### dot -/

section Ring
variable [CommRing R]

@[simp] theorem dot_nil_left (x : List R) : dot [] x = 0 := by simp [dot]
@[simp] theorem dot_nil_right (a : List R) : dot a [] = 0 := by simp [dot]
@[simp] theorem dot_cons_cons (a b : R) (r x : List R) : dot (a :: r) (b :: x) = a * b + dot r x := by
  simp [dot]

theorem dot_comm (a x : List R) : dot a x = dot x a := by
  induction a generalizing x with
  | nil => simp
  | cons a r ih => cases x with
    | nil => simp
    | cons b x => simp [ih x, mul_comm]

theorem dot_neg_left (a x : List R) : dot (negVec a) x = - dot a x := by
  induction a generalizing x with
  | nil => simp [negVec]
  | cons a r ih => cases x with
    | nil => simp
    | cons b x =>
      have := ih x
      simp only [negVec] at this
      simp [negVec, this]; ring

theorem dot_append (a1 a2 x1 x2 : List R) (h : a1.length = x1.length) :
    dot (a1 ++ a2) (x1 ++ x2) = dot a1 x1 + dot a2 x2 := by
  induction a1 generalizing x1 with
  | nil => cases x1 with
    | nil => simp
    | cons b x => simp at h
  | cons a r ih => cases x1 with
    | nil => simp at h
    | cons b x => simp at h; simp [ih x h]; ring

theorem dot_take_drop (k : Nat) (a x : List R) :
    dot a x = dot (a.take k) (x.take k) + dot (a.drop k) (x.drop k) := by
  induction k generalizing a x with
  | zero => simp
  | succ k ih => cases a with
    | nil => simp
    | cons a r => cases x with
      | nil => simp
      | cons b x => simp [ih r x]; ring

end Ring

end Sageopt.Solvers
