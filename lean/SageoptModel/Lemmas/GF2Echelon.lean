/-
Echelon-form invariant of the forward elimination `fwd` of `Model/GF2.lean`.  Core Lean only.
-/
import SageoptModel.Lemmas.GF2
set_option linter.unusedVariables false
set_option linter.unusedSimpArgs false

namespace Sageopt.GF2

/-- all rows have length n -/
def WF (n : Nat) (A : Mat) : Prop := ∀ r ∈ A, r.length = n

instance (n : Nat) (A : Mat) : Decidable (WF n A) := by unfold WF; infer_instance

theorem wf_cons {n : Nat} {r : Row} {A : Mat} : WF n (r :: A) ↔ r.length = n ∧ WF n A := by
  simp [WF]

theorem wf_nil (n : Nat) : WF n [] := by simp [WF]

def ZeroRow (r : Row) : Prop := ∀ j, entry r j = false

/-- `r` has its leading one in column `c` -/
def Lead (r : Row) (c : Nat) : Prop := entry r c = true ∧ ∀ j, j < c → entry r j = false

/-- all rows are zero in the columns `< k` -/
def ZeroBelow (k : Nat) (rows : List Row) : Prop := ∀ r ∈ rows, ∀ j, j < k → entry r j = false

/-- row echelon form with pivot columns `p` (all `≥ k`): row `i` leads in column `p[i]`, the pivot
    columns increase strictly, rows past the pivots are zero -/
def Ech : Nat → List Row → List Nat → Prop
  | _, R, [] => ∀ r ∈ R, ZeroRow r
  | _, [], _ :: _ => False
  | k, r :: R, c :: p => k ≤ c ∧ Lead r c ∧ Ech (c+1) R p

/-! ### the accumulators of `fwd` are only output prefixes -/

theorem fwd_acc (fuel k : Nat) (rem done : List Row) (piv : List Nat) :
    fwd fuel k rem done piv =
      (done.reverse ++ (fwd fuel k rem [] []).1, piv.reverse ++ (fwd fuel k rem [] []).2) := by
  induction fuel generalizing k rem done piv with
  | zero => simp [fwd]
  | succ d ih =>
    cases rem with
    | nil => simp [fwd]
    | cons r0 rest =>
      unfold fwd
      by_cases he : entry r0 k
      · simp only [he, if_true]
        rw [ih (k+1) _ (r0 :: done) (k :: piv), ih (k+1) _ [r0] [k]]
        simp
      · simp only [he]
        cases hp : pickPivot k r0 rest with
        | none => simp only [Bool.false_eq_true, if_false]; rw [ih]
        | some q =>
          obtain ⟨p, rest'⟩ := q
          simp only [Bool.false_eq_true, if_false]
          rw [ih (k+1) _ (p :: done) (k :: piv), ih (k+1) _ [p] [k]]
          simp

/-- accumulator-free recursion equations -/
theorem fwd_zero (k : Nat) (rem : List Row) : fwd 0 k rem [] [] = (rem, []) := by simp [fwd]

theorem fwd_nil (fuel k : Nat) : fwd fuel k [] [] [] = ([], []) := by cases fuel <;> simp [fwd]

theorem fwd_succ_pivot (fuel k : Nat) (r0 : Row) (rest : List Row) (he : entry r0 k = true) :
    fwd (fuel+1) k (r0 :: rest) [] [] =
      (r0 :: (fwd fuel (k+1) (elim k r0 rest) [] []).1,
        k :: (fwd fuel (k+1) (elim k r0 rest) [] []).2) := by
  have : fwd (fuel+1) k (r0 :: rest) [] [] = fwd fuel (k+1) (elim k r0 rest) [r0] [k] := by
    rw [fwd]; simp [he]
  rw [this, fwd_acc]; simp

theorem fwd_succ_none (fuel k : Nat) (r0 : Row) (rest : List Row) (he : entry r0 k = false)
    (hp : pickPivot k r0 rest = none) :
    fwd (fuel+1) k (r0 :: rest) [] [] = fwd fuel (k+1) (r0 :: rest) [] [] := by
  rw [fwd]; simp [he, hp]

theorem fwd_succ_some (fuel k : Nat) (r0 : Row) (rest : List Row) (he : entry r0 k = false)
    (p : Row) (rest' : List Row) (hp : pickPivot k r0 rest = some (p, rest')) :
    fwd (fuel+1) k (r0 :: rest) [] [] =
      (p :: (fwd fuel (k+1) (elim k p rest') [] []).1,
        k :: (fwd fuel (k+1) (elim k p rest') [] []).2) := by
  have : fwd (fuel+1) k (r0 :: rest) [] [] = fwd fuel (k+1) (elim k p rest') [p] [k] := by
    rw [fwd]; simp [he, hp]
  rw [this, fwd_acc]; simp

/-! ### pickPivot / elim -/

theorem pickPivot_none {k : Nat} {r0 : Row} {rs : List Row} (h : pickPivot k r0 rs = none) :
    ∀ r ∈ rs, entry r k = false := by
  induction rs with
  | nil => simp
  | cons r rs ih =>
    unfold pickPivot at h
    by_cases he : entry r k
    · simp [he] at h
    · simp [he] at h
      intro r' hr'
      simp at hr'
      rcases hr' with rfl | hr'
      · simpa using he
      · exact ih h r' hr'

theorem pickPivot_some {k : Nat} {r0 : Row} {rs : List Row} {p : Row} {rs' : List Row}
    (h : pickPivot k r0 rs = some (p, rs')) :
    entry p k = true ∧ rs'.length = rs.length ∧
      ∀ P : Row → Prop, (∀ r ∈ r0 :: rs, P r) → P p ∧ ∀ r ∈ rs', P r := by
  induction rs generalizing p rs' with
  | nil => simp [pickPivot] at h
  | cons r rs ih =>
    unfold pickPivot at h
    by_cases he : entry r k
    · simp [he] at h
      obtain ⟨rfl, rfl⟩ := h
      refine ⟨he, by simp, ?_⟩
      intro P hP
      refine ⟨hP _ (by simp), ?_⟩
      intro r' hr'
      simp at hr'
      rcases hr' with rfl | hr'
      · exact hP _ (by simp)
      · exact hP _ (by simp [hr'])
    · simp [he] at h
      obtain ⟨q, qs, hq, rfl, rfl⟩ := h
      obtain ⟨h1, h2, h3⟩ := ih hq
      refine ⟨h1, by simp [h2], ?_⟩
      intro P hP
      obtain ⟨h4, h5⟩ := h3 P (fun r' hr' => by
        simp at hr'
        rcases hr' with rfl | hr'
        · exact hP _ (by simp)
        · exact hP _ (by simp [hr']))
      refine ⟨h4, ?_⟩
      intro r' hr'
      simp at hr'
      rcases hr' with rfl | hr'
      · exact hP _ (by simp)
      · exact h5 _ hr'

theorem length_elim (k : Nat) (p : Row) (rows : List Row) : (elim k p rows).length = rows.length := by
  simp [elim]

theorem wf_elim {n k : Nat} {p : Row} {rows : List Row} (hp : p.length = n) (h : WF n rows) :
    WF n (elim k p rows) := by
  intro r hr
  simp [elim] at hr
  obtain ⟨r', hr', rfl⟩ := hr
  by_cases he : entry r' k
  · simp [he]; exact length_addRow_eq (h r' hr') hp
  · simp [he]; exact h r' hr'

theorem zeroBelow_elim {k : Nat} {p : Row} {rows : List Row} (hpk : entry p k = true)
    (hp : ∀ j, j < k → entry p j = false) (h : ZeroBelow k rows) :
    ZeroBelow (k+1) (elim k p rows) := by
  intro r hr j hj
  simp [elim] at hr
  obtain ⟨r', hr', rfl⟩ := hr
  by_cases he : entry r' k
  · simp only [he, if_true, entry_addRow]
    by_cases hjk : j = k
    · subst hjk; simp [he, hpk]
    · simp [h r' hr' j (by omega), hp j (by omega)]
  · simp only [he]
    by_cases hjk : j = k
    · subst hjk; simpa using he
    · simpa using h r' hr' j (by omega)

/-! ### the echelon invariant -/

theorem ech_mono {k k' : Nat} {R : List Row} {p : List Nat} (hk : k' ≤ k) (h : Ech k R p) :
    Ech k' R p := by
  cases p with
  | nil => simpa [Ech] using h
  | cons c p =>
    cases R with
    | nil => simp [Ech] at h
    | cons r R =>
      simp only [Ech] at h ⊢
      exact ⟨by omega, h.2⟩

theorem ech_zeroBelow {k : Nat} {R : List Row} {p : List Nat} (h : Ech k R p) : ZeroBelow k R := by
  induction R generalizing k p with
  | nil => intro r hr; simp at hr
  | cons r R ih =>
    cases p with
    | nil =>
      simp only [Ech] at h
      intro r' hr' j _; exact h r' hr' j
    | cons c p =>
      simp only [Ech] at h
      obtain ⟨hkc, hl, he⟩ := h
      intro r' hr' j hj
      simp at hr'
      rcases hr' with rfl | hr'
      · exact hl.2 j (by omega)
      · exact ih he r' hr' j (by omega)

/-- output of the forward pass: echelon form, same shape -/
theorem fwd_ech (n fuel k : Nat) (rem : List Row) (hk : k + fuel = n) (hwf : WF n rem)
    (hz : ZeroBelow k rem) :
    Ech k (fwd fuel k rem [] []).1 (fwd fuel k rem [] []).2 ∧
    WF n (fwd fuel k rem [] []).1 ∧ (fwd fuel k rem [] []).1.length = rem.length := by
  induction fuel generalizing k rem with
  | zero =>
    rw [fwd_zero]
    refine ⟨?_, hwf, rfl⟩
    simp only [Ech]
    intro r hr j
    by_cases hj : j < k
    · exact hz r hr j hj
    · exact entry_of_length_le (by rw [hwf r hr]; omega)
  | succ d ih =>
    cases rem with
    | nil => rw [fwd_nil]; simp [Ech, WF]
    | cons r0 rest =>
      have hr0 : r0.length = n := hwf r0 (by simp)
      have hrest : WF n rest := fun r hr => hwf r (by simp [hr])
      have hz0 : ∀ j, j < k → entry r0 j = false := hz r0 (by simp)
      have hzr : ZeroBelow k rest := fun r hr => hz r (by simp [hr])
      by_cases he : entry r0 k = true
      · rw [fwd_succ_pivot d k r0 rest he]
        obtain ⟨h1, h2, h3⟩ := ih (k+1) (elim k r0 rest) (by omega) (wf_elim hr0 hrest)
          (zeroBelow_elim he hz0 hzr)
        refine ⟨?_, ?_, ?_⟩
        · simp only [Ech]; exact ⟨Nat.le_refl _, ⟨he, hz0⟩, h1⟩
        · exact wf_cons.mpr ⟨hr0, h2⟩
        · simp [h3, length_elim]
      · have he' : entry r0 k = false := by simpa using he
        cases hp : pickPivot k r0 rest with
        | none =>
          rw [fwd_succ_none d k r0 rest he' hp]
          have hz' : ZeroBelow (k+1) (r0 :: rest) := by
            intro r hr j hj
            by_cases hjk : j = k
            · subst hjk
              simp at hr
              rcases hr with rfl | hr
              · exact he'
              · exact pickPivot_none hp r hr
            · exact hz r hr j (by omega)
          obtain ⟨h1, h2, h3⟩ := ih (k+1) (r0 :: rest) (by omega) hwf hz'
          exact ⟨ech_mono (by omega) h1, h2, h3⟩
        | some q =>
          obtain ⟨p, rest'⟩ := q
          rw [fwd_succ_some d k r0 rest he' p rest' hp]
          obtain ⟨hpk, hlen, hP⟩ := pickPivot_some hp
          obtain ⟨⟨hpl, hpz⟩, hrest'⟩ :=
            hP (fun r => r.length = n ∧ ∀ j, j < k → entry r j = false)
              (fun r hr => ⟨hwf r hr, hz r hr⟩)
          obtain ⟨h1, h2, h3⟩ := ih (k+1) (elim k p rest') (by omega)
            (wf_elim hpl (fun r hr => (hrest' r hr).1))
            (zeroBelow_elim hpk hpz (fun r hr => (hrest' r hr).2))
          refine ⟨?_, ?_, ?_⟩
          · simp only [Ech]; exact ⟨Nat.le_refl _, ⟨hpk, hpz⟩, h1⟩
          · exact wf_cons.mpr ⟨hpl, h2⟩
          · simp [h3, length_elim, hlen]

/-- pivot columns of the forward pass: strictly increasing, in `[k, k + fuel)`; no shape
    hypothesis needed -/
theorem fwd_pivots (fuel k : Nat) (rem : List Row) :
    (fwd fuel k rem [] []).2.Pairwise (· < ·) ∧
      ∀ c ∈ (fwd fuel k rem [] []).2, k ≤ c ∧ c < k + fuel := by
  induction fuel generalizing k rem with
  | zero => rw [fwd_zero]; simp
  | succ d ih =>
    cases rem with
    | nil => rw [fwd_nil]; simp
    | cons r0 rest =>
      by_cases he : entry r0 k = true
      · rw [fwd_succ_pivot d k r0 rest he]
        obtain ⟨h1, h2⟩ := ih (k+1) (elim k r0 rest)
        refine ⟨?_, ?_⟩
        · simp only [List.pairwise_cons]
          exact ⟨fun c hc => by have := h2 c hc; omega, h1⟩
        · intro c hc
          simp at hc
          rcases hc with rfl | hc
          · omega
          · have := h2 c hc; omega
      · have he' : entry r0 k = false := by simpa using he
        cases hp : pickPivot k r0 rest with
        | none =>
          rw [fwd_succ_none d k r0 rest he' hp]
          obtain ⟨h1, h2⟩ := ih (k+1) (r0 :: rest)
          exact ⟨h1, fun c hc => by have := h2 c hc; omega⟩
        | some q =>
          obtain ⟨p, rest'⟩ := q
          rw [fwd_succ_some d k r0 rest he' p rest' hp]
          obtain ⟨h1, h2⟩ := ih (k+1) (elim k p rest')
          refine ⟨?_, ?_⟩
          · simp only [List.pairwise_cons]
            exact ⟨fun c hc => by have := h2 c hc; omega, h1⟩
          · intro c hc
            simp at hc
            rcases hc with rfl | hc
            · omega
            · have := h2 c hc; omega

end Sageopt.GF2
