/-
The arithmetic of `Lin` keeps coefficient lists in normal form: keys strictly increasing and no
zero coefficient.  Helper lemmas for `Props/C08.lean`.
-/
import SageoptModel.Model.Wiring
import SageoptModel.Lemmas.LinValue

namespace Sageopt.Wiring
open Sageopt Sageopt.Lin

/-- keys strictly increasing -/
def Sorted (co : List (Nat × Rat)) : Prop := co.Pairwise (fun p q => p.1 < q.1)

/-- no zero coefficient -/
def NoZero (co : List (Nat × Rat)) : Prop := ∀ p ∈ co, p.2 ≠ 0

theorem merge_nil_right (xs : List (Nat × Rat)) : merge xs [] = xs := by
  cases xs <;> simp [merge]

/-- every key of a merge is a key of one of the arguments -/
theorem merge_key (xs ys : List (Nat × Rat)) :
    ∀ p ∈ merge xs ys, (∃ q ∈ xs, q.1 = p.1) ∨ (∃ q ∈ ys, q.1 = p.1) := by
  induction xs, ys using merge.induct with
  | case1 ys =>
    intro p hp
    rw [merge] at hp
    exact Or.inr ⟨p, hp, rfl⟩
  | case2 xs h =>
    intro p hp
    rw [merge_nil_right] at hp
    exact Or.inl ⟨p, hp, rfl⟩
  | case3 i a xs j b ys hij ih =>
    intro p hp
    rw [merge, if_pos hij, List.mem_cons] at hp
    rcases hp with rfl | hp
    · exact Or.inl ⟨(i, a), List.mem_cons_self, rfl⟩
    · rcases ih p hp with ⟨q, hq, e⟩ | h
      · exact Or.inl ⟨q, List.mem_cons_of_mem _ hq, e⟩
      · exact Or.inr h
  | case4 i a xs j b ys hij hji ih =>
    intro p hp
    rw [merge, if_neg hij, if_pos hji, List.mem_cons] at hp
    rcases hp with rfl | hp
    · exact Or.inr ⟨(j, b), List.mem_cons_self, rfl⟩
    · rcases ih p hp with h | ⟨q, hq, e⟩
      · exact Or.inl h
      · exact Or.inr ⟨q, List.mem_cons_of_mem _ hq, e⟩
  | case5 i a xs j b ys hij hji hab ih =>
    intro p hp
    rw [merge, if_neg hij, if_neg hji, if_pos hab] at hp
    rcases ih p hp with ⟨q, hq, e⟩ | ⟨q, hq, e⟩
    · exact Or.inl ⟨q, List.mem_cons_of_mem _ hq, e⟩
    · exact Or.inr ⟨q, List.mem_cons_of_mem _ hq, e⟩
  | case6 i a xs j b ys hij hji hab ih =>
    intro p hp
    rw [merge, if_neg hij, if_neg hji, if_neg hab, List.mem_cons] at hp
    rcases hp with rfl | hp
    · exact Or.inl ⟨(i, a), List.mem_cons_self, rfl⟩
    · rcases ih p hp with ⟨q, hq, e⟩ | ⟨q, hq, e⟩
      · exact Or.inl ⟨q, List.mem_cons_of_mem _ hq, e⟩
      · exact Or.inr ⟨q, List.mem_cons_of_mem _ hq, e⟩

theorem sorted_cons {p : Nat × Rat} {co : List (Nat × Rat)} :
    Sorted (p :: co) ↔ (∀ q ∈ co, p.1 < q.1) ∧ Sorted co := List.pairwise_cons

theorem merge_sorted (xs ys : List (Nat × Rat)) (hx : Sorted xs) (hy : Sorted ys) :
    Sorted (merge xs ys) := by
  induction xs, ys using merge.induct with
  | case1 ys => rw [merge]; exact hy
  | case2 xs h =>
    rw [merge_nil_right]; exact hx
  | case3 i a xs j b ys hij ih =>
    rw [merge, if_pos hij]
    obtain ⟨hx1, hx2⟩ := sorted_cons.1 hx
    obtain ⟨hy1, _⟩ := sorted_cons.1 hy
    refine sorted_cons.2 ⟨?_, ih hx2 hy⟩
    intro q hq
    rcases merge_key _ _ q hq with ⟨r, hr, e⟩ | ⟨r, hr, e⟩
    · rw [← e]; exact hx1 r hr
    · rw [← e]
      rcases List.mem_cons.1 hr with rfl | hr
      · exact hij
      · exact Nat.lt_trans hij (hy1 r hr)
  | case4 i a xs j b ys hij hji ih =>
    rw [merge, if_neg hij, if_pos hji]
    obtain ⟨hx1, _⟩ := sorted_cons.1 hx
    obtain ⟨hy1, hy2⟩ := sorted_cons.1 hy
    refine sorted_cons.2 ⟨?_, ih hx hy2⟩
    intro q hq
    rcases merge_key _ _ q hq with ⟨r, hr, e⟩ | ⟨r, hr, e⟩
    · rw [← e]
      rcases List.mem_cons.1 hr with rfl | hr
      · exact hji
      · exact Nat.lt_trans hji (hx1 r hr)
    · rw [← e]; exact hy1 r hr
  | case5 i a xs j b ys hij hji hab ih =>
    rw [merge, if_neg hij, if_neg hji, if_pos hab]
    exact ih (sorted_cons.1 hx).2 (sorted_cons.1 hy).2
  | case6 i a xs j b ys hij hji hab ih =>
    rw [merge, if_neg hij, if_neg hji, if_neg hab]
    have e : i = j := Nat.le_antisymm (Nat.not_lt.1 hji) (Nat.not_lt.1 hij)
    subst e
    obtain ⟨hx1, hx2⟩ := sorted_cons.1 hx
    obtain ⟨hy1, hy2⟩ := sorted_cons.1 hy
    refine sorted_cons.2 ⟨?_, ih hx2 hy2⟩
    intro q hq
    rcases merge_key _ _ q hq with ⟨r, hr, e⟩ | ⟨r, hr, e⟩
    · rw [← e]; exact hx1 r hr
    · rw [← e]; exact hy1 r hr

theorem merge_noZero (xs ys : List (Nat × Rat)) (hx : NoZero xs) (hy : NoZero ys) :
    NoZero (merge xs ys) := by
  induction xs, ys using merge.induct with
  | case1 ys => rw [merge]; exact hy
  | case2 xs h =>
    rw [merge_nil_right]; exact hx
  | case3 i a xs j b ys hij ih =>
    rw [merge, if_pos hij]
    intro p hp
    rcases List.mem_cons.1 hp with rfl | hp
    · exact hx _ List.mem_cons_self
    · exact ih (fun q hq => hx q (List.mem_cons_of_mem _ hq)) hy p hp
  | case4 i a xs j b ys hij hji ih =>
    rw [merge, if_neg hij, if_pos hji]
    intro p hp
    rcases List.mem_cons.1 hp with rfl | hp
    · exact hy _ List.mem_cons_self
    · exact ih hx (fun q hq => hy q (List.mem_cons_of_mem _ hq)) p hp
  | case5 i a xs j b ys hij hji hab ih =>
    rw [merge, if_neg hij, if_neg hji, if_pos hab]
    exact ih (fun q hq => hx q (List.mem_cons_of_mem _ hq))
      (fun q hq => hy q (List.mem_cons_of_mem _ hq))
  | case6 i a xs j b ys hij hji hab ih =>
    rw [merge, if_neg hij, if_neg hji, if_neg hab]
    intro p hp
    rcases List.mem_cons.1 hp with rfl | hp
    · exact hab
    · exact ih (fun q hq => hx q (List.mem_cons_of_mem _ hq))
        (fun q hq => hy q (List.mem_cons_of_mem _ hq)) p hp

theorem map_scale_sorted (q : Rat) (co : List (Nat × Rat)) (h : Sorted co) :
    Sorted (co.map fun p => (p.1, q * p.2)) := by
  unfold Sorted at *
  rw [List.pairwise_map]
  exact h

theorem map_scale_noZero (q : Rat) (hq : q ≠ 0) (co : List (Nat × Rat)) (h : NoZero co) :
    NoZero (co.map fun p => (p.1, q * p.2)) := by
  intro p hp
  obtain ⟨r, hr, rfl⟩ := List.mem_map.1 hp
  exact mul_ne_zero hq (h r hr)

/-- bundled normal form (the same predicate as `Props.C08.NF`) -/
def NFco (x : Lin) : Prop := Sorted x.co ∧ NoZero x.co ∧ x.bad = false

theorem add_nfco (x y : Lin) (hx : NFco x) (hy : NFco y) : NFco (Lin.add x y) := by
  obtain ⟨hx1, hx2, hx3⟩ := hx
  obtain ⟨hy1, hy2, hy3⟩ := hy
  refine ⟨merge_sorted _ _ hx1 hy1, merge_noZero _ _ hx2 hy2, ?_⟩
  show (x.bad || y.bad) = false
  rw [hx3, hy3]
  rfl

theorem scale_nfco (q : Rat) (x : Lin) (hx : NFco x) : NFco (Lin.scale q x) := by
  obtain ⟨hx1, hx2, hx3⟩ := hx
  unfold Lin.scale
  by_cases hq : q = 0
  · rw [if_pos hq]
    exact ⟨List.Pairwise.nil, fun _ hp => absurd hp List.not_mem_nil, hx3⟩
  · rw [if_neg hq]
    exact ⟨map_scale_sorted q _ hx1, map_scale_noZero q hq _ hx2, hx3⟩

theorem const_nfco (q : Rat) : NFco (Lin.const q) :=
  ⟨List.Pairwise.nil, fun _ hp => absurd hp List.not_mem_nil, rfl⟩

theorem getD_nfco (ins : List Lin) (h : ∀ x ∈ ins, NFco x) (i : Nat) :
    NFco (ins.getD i (Lin.const 0)) := by
  rw [List.getD_eq_getElem?_getD]
  cases hi : ins[i]? with
  | none => exact const_nfco 0
  | some x => exact h x (List.mem_of_getElem? hi)

theorem rowfold_nfco (ins : List Lin) (h : ∀ x ∈ ins, NFco x) (row : List (Nat × Rat))
    (init : Lin) (hinit : NFco init) :
    NFco (row.foldl
      (fun acc p => Lin.add acc (Lin.scale p.2 (ins.getD p.1 (Lin.const 0)))) init) := by
  induction row generalizing init with
  | nil => exact hinit
  | cons p row ih =>
    rw [List.foldl_cons]
    exact ih _ (add_nfco _ _ hinit (scale_nfco _ _ (getD_nfco ins h p.1)))

theorem applyLin_nfco (w : Wire) (ins : List Lin) (h : ∀ x ∈ ins, NFco x) :
    ∀ y ∈ applyLin w ins, NFco y := by
  intro y hy
  unfold applyLin at hy
  obtain ⟨ro, _, rfl⟩ := List.mem_map.1 hy
  obtain ⟨row, o⟩ := ro
  exact rowfold_nfco ins h row _ (const_nfco o)

end Sageopt.Wiring
