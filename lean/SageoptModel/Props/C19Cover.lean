/-
C19 — the automatic cover reductions that are proved lossless (X = ℝⁿ).
`ExpCoverHelper.__init__`: "if exactly one index is left in the cover of i, the AGE cone is trivial" — the cover is emptied.
-/
import SageoptModel.Lemmas.AgeCert

namespace Sageopt.Props.C19
open Sageopt.Analysis
open scoped BigOperators

variable {ι : Type} {n : ℕ}

/-- an AGE certificate whose cover is a single index `j` with `α_j ≠ α_i` forces `ν_j = 0`: it only says `c_i ≥ 0` and
    `c_j ≥ 0`, which is what the emptied cover imposes -/
theorem single_cover_trivial (α : ι → Fin n → ℝ) (i j : ι) (hne : α j ≠ α i) (c : ι → ℝ)
    (h : OrdAgeCert α i {j} c) : 0 ≤ c i ∧ 0 ≤ c j := by
  obtain ⟨ν, epi, hrows, hlin, hbal⟩ := h
  have hν : ν j = 0 := by
    by_contra hν
    apply hne
    funext k
    have := hbal k
    simp only [Finset.sum_singleton] at this
    have h2 : α j k - α i k = 0 := by
      rcases mul_eq_zero.mp this with h | h
      · exact absurd h hν
      · exact h
    linarith
  have hrow := hrows j (Finset.mem_singleton_self j)
  rw [hν] at hrow
  simp only [Finset.sum_singleton] at hlin
  rcases hrow with ⟨hz, _⟩ | ⟨_, hx, hy⟩
  · exact absurd hz (lt_irrefl 0)
  · have he : 0 < Real.exp 1 := Real.exp_pos 1
    have hcj : 0 ≤ c j := by
      by_contra hneg
      have : Real.exp 1 * c j < 0 := mul_neg_of_pos_of_neg he (lt_of_not_ge hneg)
      linarith
    constructor
    · linarith
    · exact hcj

/-- conversely the trivial cone is contained in every AGE cone: emptying a cover never certifies more -/
theorem empty_cover_le (α : ι → Fin n → ℝ) (i : ι) (S : Finset ι) (c : ι → ℝ) (hi : 0 ≤ c i) (hS : ∀ j ∈ S, 0 ≤ c j) :
    OrdAgeCert α i S c := by
  refine ⟨fun _ => 0, fun _ => 0, ?_, ?_, ?_⟩
  · intro j hj
    right
    refine ⟨rfl, by simp, ?_⟩
    exact mul_nonneg (Real.exp_pos 1).le (hS j hj)
  · simpa using hi
  · intro k; simp

end Sageopt.Props.C19
