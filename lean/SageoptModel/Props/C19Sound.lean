/-
C19 — every settings combination is sound: corollaries of C01 / C02 with the settings explicitly quantified.
"The heuristic options can only lower a bound, never push it above the true minimum": whatever the five flags
and whatever the covers (automatic, presolved with any answers, heuristically reduced, user supplied), a
feasible point of the compiled primal rows certifies nonnegativity on X, and the compiled dual rows admit
every moment vector of X.
-/
import SageoptModel.Props.C01
import SageoptModel.Props.C02

namespace Sageopt.Props.C19
open Sageopt Sageopt.Sage Sageopt.Compile Sageopt.Solvers Sageopt.Analysis

/-- for ALL settings `s` and all cover families: feasibility of the compiled primal rows implies nonnegativity of the
    certified signomial on X -/
theorem primal_sound_all_settings (Q : CType → List ℝ → Prop) (inp : PrimalIn) (s : Settings)
    (hwf : WfPrimal { inp with settings := s }) (hker : C01.KernelOk { inp with settings := s })
    (hcov0 : ∀ p ∈ inp.ids, p.nu = [] → trueIdx (coverOf inp.ech p.i) = [])
    (hbasis : s.kernelBasis = true → ∀ p ∈ inp.ids, p.nu ≠ [] → (p.basis ≠ [] ↔ inp.X = none))
    (rows : List CRow) (K : List Cone) (h : primalRows { inp with settings := s } = .ok (rows, K))
    (σ : Nat → ℝ) (hσ : FeasRows Q σ rows K) :
    ∀ x, InDom Q inp.X inp.n x →
      0 ≤ sigVal inp.alpha ((List.range inp.alpha.length).map fun j => cVal σ inp.c j) x :=
  (C01.primal_sound Q { inp with settings := s } hwf hker hcov0 hbasis rows K h σ hσ).2

/-- for ALL settings `s` and all cover families: the compiled dual rows admit the moment vector of every point of X -/
theorem dual_admits_moments_all_settings (Q : CType → List ℝ → Prop) (inp : DualIn) (s : Settings)
    (hwf : C02.WfDual { inp with settings := s })
    (rows : List CRow) (K : List Cone) (h : dualRows { inp with settings := s } = .ok (rows, K))
    (x xt : List ℝ) (hx : x.length = inp.n)
    (hxt : match inp.X with
      | none => xt = x
      | some X => xt.length = X.N ∧ xt.take inp.n = x ∧ FeasBlocks (conP Q) X.K (domSlack X xt))
    (t : ℝ) (ht : 0 ≤ t) (σ₀ : Nat → ℝ)
    (hv : ∀ j, j < inp.alpha.length →
      argVal σ₀ (inp.v.getD j (constE 0)) = t * Real.exp (rdot (inp.alpha.getD j []) x)) :
    ∃ σ : Nat → ℝ, FeasRows Q σ rows K :=
  let ⟨σ, hσ⟩ := C02.dual_admits_moments Q { inp with settings := s } hwf rows K h x xt hx hxt t ht σ₀ hv
  ⟨σ, by first | exact hσ | exact hσ.2 | exact hσ.2.2 | exact hσ.1⟩

end Sageopt.Props.C19
