/-
C13 — arithmetic on symbolic coefficients commutes with substituting values.
Property theorems about `Model/Sig.lean` at coefficient type `Lin` (`Model/Lin.lean`).
-/
import SageoptModel.Model.Sig
import SageoptModel.Model.Lin
import SageoptModel.Lemmas.LinSig
import SageoptModel.Lemmas.SigMapGrid
import SageoptModel.Props.C12

namespace Sageopt.Props.C13
open Sageopt Sageopt.Sig

/-- History independence is structural: the zero test used by `without_zeros` on symbolic
    coefficients is a function of the affine form alone — it has no access to any value store — and it
    accepts only the identically-zero form. -/
theorem isZero_iff (x : Lin) : Lin.isZero x = true ↔ x.bad = false ∧ x.co = [] ∧ x.off = 0 := by
  simp [Lin.isZero, List.isEmpty_iff, and_assoc]

/-- substitute values for the scalar variables in every coefficient -/
def mapσ (σ : Nat → Rat) (f : SigT Lin) : SigT Rat := ⟨f.n, f.terms.map fun t => (t.1, Lin.value σ t.2)⟩

/-- no coefficient carries the poison flag (product of two non-constant expressions) -/
def Clean (f : SigT Lin) : Prop := ∀ t ∈ f.terms, t.2.bad = false

/-- representation invariant on the Lin side (the same as `Sig.Wf`, which is stated for any C) -/
abbrev WfL (f : SigT Lin) : Prop := Wf f

/-! the affine-form operations mean what they say, under every assignment -/
theorem value_const (σ : Nat → Rat) (q : Rat) : Lin.value σ (Lin.const q) = q := Lin.value_const σ q

theorem value_add (σ : Nat → Rat) (x y : Lin) : Lin.value σ (x + y) = Lin.value σ x + Lin.value σ y :=
  Lin.value_add σ x y

theorem value_scale (σ : Nat → Rat) (q : Rat) (x : Lin) : Lin.value σ (Lin.scale q x) = q * Lin.value σ x :=
  Lin.value_scale σ q x

theorem value_neg (σ : Nat → Rat) (x : Lin) : Lin.value σ (-x) = - Lin.value σ x := Lin.value_neg σ x

theorem value_mul (σ : Nat → Rat) (x y : Lin) (h : (x * y).bad = false) :
    Lin.value σ (x * y) = Lin.value σ x * Lin.value σ y := Lin.value_mul σ x y h

/-- the product is rejected (poisoned) exactly when both factors are non-constant (or an operand already was) -/
theorem mul_bad_iff (x y : Lin) :
    (x * y).bad = true ↔ (x.bad = true ∨ y.bad = true ∨ (x.isConstant = false ∧ y.isConstant = false)) :=
  Lin.mul_bad_iff x y

/-! terms are dropped only when identically zero — and the test has no access to variable values -/
theorem isZero_sound (x : Lin) (h : Lin.isZero x = true) : ∀ σ : Nat → Rat, Lin.value σ x = 0 :=
  fun σ => Lin.isZero_value σ x h

/-- every term that `without_zeros` removes has an identically-zero coefficient (the zero affine form) -/
theorem drop_only_identically_zero (f : SigT Lin) (hf : Wf f) (t : Exp × Lin)
    (ht : t ∈ f.terms) (hdrop : ∀ c, (t.1, c) ∉ (withoutZeros Lin.isZero f).terms) :
    t.2.co = [] ∧ t.2.off = 0 ∧ t.2.bad = false := by
  have hz : Lin.isZero t.2 = true := by
    by_contra hnz
    have hkeep : t ∈ keepNZ Lin.isZero f := by
      unfold keepNZ
      exact List.mem_filter.2 ⟨ht, by simpa using hnz⟩
    rcases Gen.withoutZeros_terms Lin.isZero f hf with e | ⟨hk, _⟩ | e
    · exact hdrop t.2 (by rw [e]; exact ht)
    · rw [hk] at hkeep
      simp at hkeep
    · exact hdrop t.2 (by rw [e]; exact hkeep)
  obtain ⟨h1, h2, h3⟩ := (isZero_iff t.2).1 hz
  exact ⟨h2, h3, h1⟩

private theorem mapσ_wf (σ : Nat → Rat) (f : SigT Lin) (hf : Wf f) : Wf (mapσ σ f) :=
  Hom.wf_mapT (Lin.value σ) hf

/-- `without_zeros` preserves the represented function under every assignment -/
theorem withoutZeros_map (σ : Nat → Rat) (f : SigT Lin) (hf : Wf f) (a : Exp) :
    coeff (mapσ σ (withoutZeros Lin.isZero f)).terms a = coeff (mapσ σ f).terms a :=
  Hom.coeff_mapT_withoutZeros (LinC.value_isAddHom σ) Lin.isZero (LinC.isZero_value σ) f hf a

/-! arithmetic, then substitution  =  substitution, then arithmetic   (as coefficient functions) -/
theorem map_mk (σ : Nat → Rat) (n : Nat) (ts : List (Exp × Lin)) (a : Exp) :
    coeff (mapσ σ (mk n ts)).terms a = coeff (mk n (ts.map fun t => (t.1, Lin.value σ t.2))).terms a :=
  Hom.coeff_mapT_mk (LinC.value_isAddHom σ) n ts a

theorem map_const (σ : Nat → Rat) (n : Nat) (x : Lin) (a : Exp) :
    coeff (mapσ σ (const n x)).terms a = coeff (const n (Lin.value σ x)).terms a :=
  map_mk σ n [(zeroExp n, x)] a

set_option linter.unusedVariables false in
theorem map_sumList (σ : Nat → Rat) (n : Nat) (fs : List (SigT Lin)) (hfs : ∀ f ∈ fs, Wf f ∧ f.n = n)
    (hne : fs ≠ []) (a : Exp) :
    coeff (mapσ σ (sumList n fs)).terms a = (fs.map fun f => coeff (mapσ σ f).terms a).sum :=
  Hom.coeff_mapT_sumList (LinC.value_isAddHom σ) n fs (fun f hf => (hfs f hf).1) a

theorem map_add (σ : Nat → Rat) (f g h : SigT Lin) (hf : Wf f) (hg : Wf g)
    (hadd : add Lin.isZero f g = .ok h) (a : Exp) :
    Wf h ∧ coeff (mapσ σ h).terms a = coeff (mapσ σ f).terms a + coeff (mapσ σ g).terms a := by
  unfold add at hadd
  split at hadd
  · exact absurd hadd (by simp)
  · rename_i hn
    have hn : f.n = g.n := not_not.1 hn
    simp only [Res.ok.injEq] at hadd
    subst hadd
    have hfs : ∀ x ∈ [f, g], Wf x ∧ x.n = f.n := by
      intro x hx
      simp only [List.mem_cons, List.not_mem_nil, or_false] at hx
      rcases hx with rfl | rfl
      · exact ⟨hf, rfl⟩
      · exact ⟨hg, hn.symm⟩
    have hs : Wf (sumList f.n [f, g]) := Gen.sumList_wf f.n [f, g] hfs
    refine ⟨Gen.withoutZeros_wf Lin.isZero _ hs, ?_⟩
    rw [withoutZeros_map σ _ hs, map_sumList σ f.n [f, g] hfs (by simp)]
    simp

theorem map_sub (σ : Nat → Rat) (f g h : SigT Lin) (hf : Wf f) (hg : Wf g)
    (hsub : sub Lin.isZero f g = .ok h) (a : Exp) :
    Wf h ∧ coeff (mapσ σ h).terms a = coeff (mapσ σ f).terms a - coeff (mapσ σ g).terms a := by
  unfold sub at hsub
  obtain ⟨h1, h2⟩ := map_add σ f _ h hf (Gen.smul_wf Lin.isZero g hg (-1)) hsub a
  refine ⟨h1, ?_⟩
  have hs : coeff (mapσ σ (smul Lin.isZero g (-1))).terms a =
      coeff (mapσ σ g).terms a * Lin.value σ (-(1 : Lin)) :=
    Hom.coeff_mapT_smul (LinC.value_isAddHom σ) Lin.isZero (LinC.isZero_value σ) g hg (-1)
      (fun t _ => Lin.value_mul_of_right_const σ t.2 _ Lin.neg_one_isConstant) a
  rw [h2, hs, Lin.value_neg_one]
  ring

/-- products (one factor numeric, as in `s_g * g`): evaluation against any character (multiplicative
    on the grid rows the model forms) commutes, provided the code did not reject the product -/
theorem map_mul (σ : Nat → Rat) (n : Nat) (χ : Exp → Rat) (hχ : IsGridChar n χ) (f g h : SigT Lin)
    (hf : Wf f) (hg : Wf g) (hfn : f.n = n) (hmul : mul Lin.isZero f g = .ok h) (hclean : Clean h) :
    Wf h ∧ eval χ (mapσ σ h).terms = eval χ (mapσ σ f).terms * eval χ (mapσ σ g).terms := by
  unfold mul at hmul
  split at hmul
  · exact absurd hmul (by simp)
  · rename_i hn
    have hn : f.n = g.n := not_not.1 hn
    simp only [Res.ok.injEq] at hmul
    subst hmul
    have hp : Wf (product f g) := Gen.product_wf f g hf hg hn
    refine ⟨Gen.withoutZeros_wf Lin.isZero _ hp, ?_⟩
    have hcp : LinC.CleanT (product f g).terms := LinC.cleanT_of_withoutZeros hp hclean
    have hm : ∀ t1 ∈ f.terms, ∀ t2 ∈ g.terms,
        Lin.value σ (t1.2 * t2.2) = Lin.value σ t1.2 * Lin.value σ t2.2 :=
      fun t1 h1 t2 h2 => Lin.value_mul σ _ _ (LinC.clean_products_of_product hf hg hcp t1 h1 t2 h2)
    rw [eval_congr_coeff χ (withoutZeros_map σ _ hp)]
    exact Hom.eval_mapT_product_grid (LinC.value_isAddHom σ) n χ hχ f g hf hg hfn (hn ▸ hfn) hm

/-- commutation with the numeric operation itself: computing `f + g` symbolically and substituting
    gives the same coefficient function as substituting and adding numerically -/
theorem add_commutes (σ : Nat → Rat) (f g h : SigT Lin) (h' : SigT Rat) (hf : Wf f) (hg : Wf g)
    (hadd : add Lin.isZero f g = .ok h) (hadd' : add isZeroQ (mapσ σ f) (mapσ σ g) = .ok h') (a : Exp) :
    coeff (mapσ σ h).terms a = coeff h'.terms a := by
  rw [(map_add σ f g h hf hg hadd a).2,
    (C12.add_hom isZeroQ isZeroQ_iff _ _ h' (mapσ_wf σ f hf) (mapσ_wf σ g hg) hadd').2.1 a]

theorem mul_commutes (σ : Nat → Rat) (n : Nat) (χ : Exp → Rat) (hχ : IsGridChar n χ) (f g h : SigT Lin) (h' : SigT Rat)
    (hf : Wf f) (hg : Wf g) (hfn : f.n = n)
    (hmul : mul Lin.isZero f g = .ok h) (hclean : Clean h) (hmul' : mul isZeroQ (mapσ σ f) (mapσ σ g) = .ok h') :
    eval χ (mapσ σ h).terms = eval χ h'.terms := by
  rw [(map_mul σ n χ hχ f g h hf hg hfn hmul hclean).2,
    (mul_hom_grid n χ hχ _ _ h' (mapσ_wf σ f hf) (mapσ_wf σ g hg) hfn hmul').2]

/-! ### non-vacuity: the hypotheses of the theorems above are satisfiable, with coefficients that
really contain scalar variables (concrete values are checked by `decide` on the executable model;
core `Rat` operations and the well-founded `Lin.merge` are irreducible, hence `with_unfolding_all`) -/
section NonVacuity

@[instance_reducible] private def decEqSig {C : Type} [DecidableEq C] : DecidableEq (SigT C) := fun a b =>
  match a, b with
  | ⟨n1, t1⟩, ⟨n2, t2⟩ =>
    if h : n1 = n2 ∧ t1 = t2 then isTrue (by rw [h.1, h.2])
    else isFalse (fun e => h (by cases e; exact ⟨rfl, rfl⟩))

@[instance_reducible] private def decEqRes {C : Type} [DecidableEq C] : DecidableEq (Res (SigT C)) := fun a b =>
  match a, b with
  | .ok x, .ok y =>
    match decEqSig x y with
    | isTrue h => isTrue (by rw [h])
    | isFalse h => isFalse (fun e => h (by cases e; rfl))
  | .raises x, .raises y =>
    if h : x = y then isTrue (by rw [h]) else isFalse (fun e => h (by cases e; rfl))
  | .ok _, .raises _ => isFalse (fun e => by cases e)
  | .raises _, .ok _ => isFalse (fun e => by cases e)

attribute [local instance] decEqSig decEqRes

/-- `x₀·e^{y₁} + 3·e^{y₂/2}`: the first coefficient is the scalar variable `x₀` -/
private def fL : SigT Lin := ⟨2, [([1, 0], Lin.var 0), ([0, 1/2], Lin.const 3)]⟩
/-- `−3·e^{y₂/2} + (1 + 2x₁)·e^{2y₁}` -/
private def gL : SigT Lin := ⟨2, [([0, 1/2], Lin.const (-3)), ([2, 0], ⟨1, [(1, 2)], false⟩)]⟩
/-- a numeric signomial (all coefficients constant): `−3·e^{y₂/2} + 2·e^{2y₁}` -/
private def cL : SigT Lin := ⟨2, [([0, 1/2], Lin.const (-3)), ([2, 0], Lin.const 2)]⟩
/-- an assignment: `x₀ = 1/3`, `x₁ = 4/3`, … -/
private def σEx : Nat → Rat := fun i => (i : Rat) + 1/3

private theorem grid_of {ts : List (Exp × Lin)} (h : ∀ t ∈ ts, ∀ q ∈ t.1, round7 q = q) :
    ∀ t ∈ ts, OnGrid t.1 := h

private theorem fL_wf : WfL fL := ⟨by decide, grid_of (by with_unfolding_all decide), by decide⟩
private theorem gL_wf : WfL gL := ⟨by decide, grid_of (by with_unfolding_all decide), by decide⟩
private theorem cL_wf : WfL cL := ⟨by decide, grid_of (by with_unfolding_all decide), by decide⟩

-- affine forms: un-normalised inputs are covered as well (`value_add` has no hypotheses)
example : Lin.value σEx (Lin.var 1 + Lin.const 2) = 10/3 := by with_unfolding_all decide
example : Lin.value σEx (⟨1, [(3, 2), (1, 5), (3, -2), (2, 0)], false⟩ + ⟨2, [(2, 7), (3, 0), (1, -5)], true⟩) =
    Lin.value σEx ⟨1, [(3, 2), (1, 5), (3, -2), (2, 0)], false⟩ + Lin.value σEx ⟨2, [(2, 7), (3, 0), (1, -5)], true⟩ :=
  value_add _ _ _
example : (Lin.var 0 * Lin.var 1).bad = true := (mul_bad_iff _ _).2 (Or.inr (Or.inr ⟨rfl, rfl⟩))
example : Lin.value σEx (Lin.var 0 * Lin.const 2) = Lin.value σEx (Lin.var 0) * Lin.value σEx (Lin.const 2) :=
  value_mul _ _ _ (by with_unfolding_all decide)
example : Lin.isZero (Lin.var 0 + Lin.neg (Lin.var 0)) = true := by with_unfolding_all decide
example : Lin.isZero (Lin.var 0) = false := by with_unfolding_all decide

-- sums: the cancelling term `3·e^{y₂/2} − 3·e^{y₂/2}` is dropped, the symbolic ones are kept
private theorem addEx : add Lin.isZero fL gL =
    .ok ⟨2, [([1, 0], Lin.var 0), ([2, 0], ⟨1, [(1, 2)], false⟩)]⟩ := by with_unfolding_all decide
example (σ : Nat → Rat) (a : Exp) :
    coeff (mapσ σ ⟨2, [([1, 0], Lin.var 0), ([2, 0], ⟨1, [(1, 2)], false⟩)]⟩).terms a =
      coeff (mapσ σ fL).terms a + coeff (mapσ σ gL).terms a :=
  (map_add σ fL gL _ fL_wf gL_wf addEx a).2
private theorem addEx' : add isZeroQ (mapσ σEx fL) (mapσ σEx gL) =
    .ok ⟨2, [([1, 0], 1/3), ([2, 0], 11/3)]⟩ := by with_unfolding_all decide
example (a : Exp) :
    coeff (mapσ σEx ⟨2, [([1, 0], Lin.var 0), ([2, 0], ⟨1, [(1, 2)], false⟩)]⟩).terms a =
      coeff [([1, 0], (1/3 : Rat)), ([2, 0], 11/3)] a :=
  add_commutes σEx fL gL _ _ fL_wf gL_wf addEx addEx' a
example (σ : Nat → Rat) (a : Exp) :
    coeff (mapσ σ (sumList 2 [fL, gL, fL])).terms a =
      ([fL, gL, fL].map fun f => coeff (mapσ σ f).terms a).sum :=
  map_sumList σ 2 [fL, gL, fL] (by
    intro f hf
    simp only [List.mem_cons, List.not_mem_nil, or_false] at hf
    rcases hf with rfl | rfl | rfl
    · exact ⟨fL_wf, rfl⟩
    · exact ⟨gL_wf, rfl⟩
    · exact ⟨fL_wf, rfl⟩) (by simp) a

-- the term `without_zeros` removes from `f + g` is the zero affine form
private def sL : SigT Lin := sumList 2 [fL, gL]
private theorem sL_terms : sL.terms =
    [([1, 0], Lin.var 0), ([0, 1/2], ⟨0, [], false⟩), ([2, 0], ⟨1, [(1, 2)], false⟩)] := by
  with_unfolding_all decide
private theorem sL_wf : WfL sL := ⟨by rw [sL_terms]; decide,
  by rw [sL_terms]; exact grid_of (by with_unfolding_all decide), by rw [sL_terms]; decide⟩
private theorem sL_wz : (withoutZeros Lin.isZero sL).terms =
    [([1, 0], Lin.var 0), ([2, 0], ⟨1, [(1, 2)], false⟩)] := by with_unfolding_all decide
example : (⟨0, [], false⟩ : Lin).co = [] ∧ (⟨0, [], false⟩ : Lin).off = 0 ∧ (⟨0, [], false⟩ : Lin).bad = false :=
  drop_only_identically_zero sL sL_wf ([0, 1/2], ⟨0, [], false⟩) (by rw [sL_terms]; simp) (by
    intro c hc
    rw [sL_wz] at hc
    simp at hc)
example (σ : Nat → Rat) (a : Exp) :
    coeff (mapσ σ (withoutZeros Lin.isZero sL)).terms a = coeff (mapσ σ sL).terms a :=
  withoutZeros_map σ sL sL_wf a

-- differences
private theorem subEx : sub Lin.isZero fL gL =
    .ok ⟨2, [([1, 0], Lin.var 0), ([0, 1/2], Lin.const 6), ([2, 0], ⟨-1, [(1, -2)], false⟩)]⟩ := by
  with_unfolding_all decide
example (σ : Nat → Rat) (a : Exp) :
    coeff (mapσ σ ⟨2, [([1, 0], Lin.var 0), ([0, 1/2], Lin.const 6), ([2, 0], ⟨-1, [(1, -2)], false⟩)]⟩).terms a =
      coeff (mapσ σ fL).terms a - coeff (mapσ σ gL).terms a :=
  (map_sub σ fL gL _ fL_wf gL_wf subEx a).2

-- products: symbolic × numeric is accepted and clean; symbolic × symbolic is poisoned
private def mL : SigT Lin :=
  ⟨2, [([1, 1/2], ⟨0, [(0, -3)], false⟩), ([0, 1], Lin.const (-9)), ([3, 0], ⟨0, [(0, 2)], false⟩),
    ([2, 1/2], Lin.const 6)]⟩
private theorem mulEx : mul Lin.isZero fL cL = .ok mL := by with_unfolding_all decide
private theorem mL_clean : Clean mL := by
  unfold Clean
  with_unfolding_all decide
example (σ : Nat → Rat) :
    eval pow2Char (mapσ σ mL).terms = eval pow2Char (mapσ σ fL).terms * eval pow2Char (mapσ σ cL).terms :=
  (map_mul σ 2 pow2Char (pow2Char_isGridChar 2) fL cL mL fL_wf cL_wf rfl mulEx mL_clean).2
private theorem mulEx' : mul isZeroQ (mapσ σEx fL) (mapσ σEx cL) =
    .ok ⟨2, [([1, 1/2], -1), ([0, 1], -9), ([3, 0], 2/3), ([2, 1/2], 6)]⟩ := by with_unfolding_all decide
example : eval pow2Char (mapσ σEx mL).terms =
    eval pow2Char [([1, 1/2], (-1 : Rat)), ([0, 1], -9), ([3, 0], 2/3), ([2, 1/2], 6)] :=
  mul_commutes σEx 2 pow2Char (pow2Char_isGridChar 2) fL cL mL _ fL_wf cL_wf rfl mulEx mL_clean mulEx'
example : ∃ h, mul Lin.isZero fL gL = .ok h ∧ ¬ Clean h := by
  refine ⟨⟨2, [([1, 1/2], ⟨0, [(0, -3)], false⟩), ([0, 1], Lin.const (-9)), ([3, 0], ⟨0, [], true⟩),
    ([2, 1/2], ⟨3, [(1, 6)], false⟩)]⟩, by with_unfolding_all decide, ?_⟩
  intro hc
  exact absurd (hc ([3, 0], ⟨0, [], true⟩) (by simp)) (by simp)

-- constants and the constructor
example (σ : Nat → Rat) (a : Exp) :
    coeff (mapσ σ (const 2 (Lin.var 3))).terms a = coeff (const 2 (σ 3)).terms a := by
  have h := map_const σ 2 (Lin.var 3) a
  have hv : Lin.value σ (Lin.var 3) = σ 3 := by simp [Lin.value, Lin.var]
  rwa [hv] at h
example : mk 1 [([1/3], Lin.var 0), ([0.33333333], Lin.var 1), ([0], Lin.const 7)] =
    ⟨1, [([0], Lin.const 7), ([0.3333333], ⟨0, [(0, 1), (1, 1)], false⟩)]⟩ := by with_unfolding_all decide

end NonVacuity

end Sageopt.Props.C13
