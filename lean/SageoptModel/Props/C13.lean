/-
C13 — arithmetic on symbolic coefficients commutes with substituting values.
Property theorems about `Model/Sig.lean` at coefficient type `Lin` (`Model/Lin.lean`).
-/
import SageoptModel.Model.Sig
import SageoptModel.Model.Lin

namespace Sageopt.Props.C13
open Sageopt Sageopt.Sig

/-- History independence is structural: the zero test used by `without_zeros` on symbolic
    coefficients is a function of the affine form alone — it has no access to any value store — and it
    accepts only the identically-zero form. -/
theorem isZero_iff (x : Lin) : Lin.isZero x = true ↔ x.bad = false ∧ x.co = [] ∧ x.off = 0 := by
  simp [Lin.isZero, List.isEmpty_iff, and_assoc]

end Sageopt.Props.C13
