/-
C02 — the dual SAGE constraint admits every moment vector of X.
Property theorems about `Model/Sage.lean` (dual rows).
-/
import SageoptModel.Model.Sage
import SageoptModel.Lemmas.ExpCone

namespace Sageopt.Props.C02
open Sageopt Sageopt.Sage Sageopt.Analysis

/-- the relative-entropy row of the dual cone at a moment vector: with `v_i = t e^{a_i}`, `v_j = t e^{a_j}`
    and `z = v_i (a_i − a_j)` the point `(−z, v_j, v_i)` lies in the closed exponential cone — including the
    corner `t = 0` -/
theorem moment_exp_row (t ai aj : ℝ) (ht : 0 ≤ t) :
    InExpCone (-(t * Real.exp ai * (ai - aj))) (t * Real.exp aj) (t * Real.exp ai) := by
  rcases eq_or_lt_of_le ht with h0 | hpos
  · subst h0; right; simp
  · left
    refine ⟨by positivity, ?_⟩
    have hne : t * Real.exp ai ≠ 0 := by positivity
    have : -(t * Real.exp ai * (ai - aj)) / (t * Real.exp ai) = aj - ai := by
      field_simp; ring
    rw [this, Real.exp_sub]
    have : t * Real.exp ai * (Real.exp aj / Real.exp ai) = t * Real.exp aj := by
      field_simp
    rw [this]

end Sageopt.Props.C02
