/-
C02 — the dual SAGE constraint admits every moment vector of X.
Property theorems about `Model/Sage.lean` (dual rows).
-/
import SageoptModel.Model.Sage
import SageoptModel.Lemmas.ExpCone
import SageoptModel.Lemmas.SageSem
import SageoptModel.Lemmas.SageDualScale
import SageoptModel.Lemmas.SageDualFeas
import SageoptModel.Lemmas.SageDualExt

namespace Sageopt.Props.C02
open Sageopt Sageopt.Sage Sageopt.Compile Sageopt.Solvers Sageopt.Analysis

-- `conP_scale` keeps the hypothesis `hQ` of the target statement although the four allowed tags never
-- reach the abstract predicate `Q`
set_option linter.unusedVariables false

/-- the relative-entropy row of the dual cone at a moment vector: with `v_i = t e^{a_i}`, `v_j = t e^{a_j}`
    and `z = v_i (a_i − a_j)` the point `(−z, v_j, v_i)` lies in the closed exponential cone — including the
    corner `t = 0` -/
theorem moment_exp_row (t ai aj : ℝ) (ht : 0 ≤ t) :
    InExpCone (-(t * Real.exp ai * (ai - aj))) (t * Real.exp aj) (t * Real.exp ai) := by
  rcases eq_or_lt_of_le ht with h0 | hpos
  · subst h0; right; simp
  · left
    refine ⟨by positivity, ?_⟩
    have hne : t * Real.exp ai ≠ 0 := by positivity
    have : -(t * Real.exp ai * (ai - aj)) / (t * Real.exp ai) = aj - ai := by
      field_simp; ring
    rw [this, Real.exp_sub]
    have : t * Real.exp ai * (Real.exp aj / Real.exp ai) = t * Real.exp aj := by
      field_simp
    rw [this]

/-- well-formed dual input -/
structure WfDual (inp : DualIn) : Prop where
  width : ∀ r ∈ inp.alpha, r.length = inp.n
  vlen : inp.v.length = inp.alpha.length
  idsU : inp.ids.map (·.i) = inp.ech.U
  cover : ∀ p ∈ inp.ids,
    (coverOf inp.ech p.i).length = inp.alpha.length ∧ p.i < inp.alpha.length ∧ p.i ∉ trueIdx (coverOf inp.ech p.i)
  sizes : ∀ p ∈ inp.ids,
    p.mu.length = (match inp.X with | some X => X.N | none => inp.n) ∧
    (inp.settings.compactDual = false → p.epi.length = (trueIdx (coverOf inp.ech p.i)).length)
  dom : ∀ X, inp.X = some X → domWf inp.n X
  /-- the auxiliary Variables are fresh: their ids are pairwise distinct and do not occur in `v` -/
  fresh : ((inp.ids.flatMap fun p => p.mu ++ p.epi)).Nodup ∧
    ∀ id ∈ (inp.ids.flatMap fun p => p.mu ++ p.epi), ∀ vj ∈ inp.v, id ∉ vj.co.map (·.1)
  idx : (inp.ids.map (·.i)).Nodup

/-- cones over ℝ are closed under nonnegative scaling (used for the perspective rows `A μ_i + v_i b ∈ K`) -/
theorem conP_scale (Q : CType → List ℝ → Prop) (hQ : ∀ t v (a : ℝ), 0 ≤ a → Q t v → Q t (v.map (a * ·)))
    (ty : CType) (hty : ty ∈ [CType.zero, .pos, .soc, .exp]) (v : List ℝ) (a : ℝ) (ha : 0 ≤ a) (h : conP Q ty v) :
    conP Q ty (v.map (a * ·)) :=
  sd_conP_scale Q ty hty v a ha h

/-- the explicit extension used in both theorems: it is a moment assignment, agrees with `σ₀` off the
    auxiliary ids, and satisfies the compiled rows -/
theorem dual_moment_extension (Q : CType → List ℝ → Prop) (inp : DualIn) (hwf : WfDual inp)
    (rows : List CRow) (K : List Cone) (h : dualRows inp = .ok (rows, K))
    (x xt : List ℝ) (hx : x.length = inp.n)
    (hxt : match inp.X with
      | none => xt = x
      | some X => xt.length = X.N ∧ xt.take inp.n = x ∧ FeasBlocks (conP Q) X.K (domSlack X xt))
    (t : ℝ) (ht : 0 ≤ t) (σ₀ : Nat → ℝ)
    (hv : ∀ j, j < inp.alpha.length →
      argVal σ₀ (inp.v.getD j (constE 0)) = t * Real.exp (rdot (inp.alpha.getD j []) x)) :
    sd_Moment inp x xt t (sd_ext (sd_assoc inp σ₀ x xt) σ₀) ∧
    (∀ id, id ∉ (inp.ids.flatMap fun p => p.mu ++ p.epi) → sd_ext (sd_assoc inp σ₀ x xt) σ₀ id = σ₀ id) ∧
    FeasRows Q (sd_ext (sd_assoc inp σ₀ x xt) σ₀) rows K := by
  have hM := sd_ext_moment inp hwf.vlen (fun p hp => (hwf.cover p hp).2.1) hwf.fresh.1 hwf.fresh.2 x xt t σ₀ hv
  refine ⟨hM, fun id hid => ?_, ?_⟩
  · apply sd_ext_not_mem
    rw [sd_assoc_keys]
    exact hid
  · exact sd_dualRows_feas Q inp hwf.width hwf.vlen
      (fun p hp => ⟨(hwf.cover p hp).1, (hwf.cover p hp).2.1⟩) hwf.sizes hwf.dom rows K h x xt hx hxt t ht _ hM

/-- THE PROPERTY.  For every exponent matrix, every X in conic form over {+,0,S,e} (possibly lifted), every
    point x of X (with lift x̃), every scale t ≥ 0, all sign information, all covers, both values of
    `compact_dual` (and of the other settings), and every assignment σ₀ of the user's variables under which
    `v` evaluates to the moment vector `t·exp(α x)` (v a Variable, or any affine image that reaches it):
    σ₀ extends — by `μ_i = v_i·x̃` and, in the epigraph form, `epi_ij = v_i (α_i − α_j)·x` — to an assignment
    satisfying the compiled dual SAGE constraint.  In particular the corner t = 0 uses the closed cone. -/
theorem dual_admits_moments (Q : CType → List ℝ → Prop) (inp : DualIn) (hwf : WfDual inp)
    (rows : List CRow) (K : List Cone) (h : dualRows inp = .ok (rows, K))
    (x xt : List ℝ) (hx : x.length = inp.n)
    (hxt : match inp.X with
      | none => xt = x
      | some X => xt.length = X.N ∧ xt.take inp.n = x ∧ FeasBlocks (conP Q) X.K (domSlack X xt))
    (t : ℝ) (ht : 0 ≤ t) (σ₀ : Nat → ℝ)
    (hv : ∀ j, j < inp.alpha.length →
      argVal σ₀ (inp.v.getD j (constE 0)) = t * Real.exp (rdot (inp.alpha.getD j []) x)) :
    ∃ σ : Nat → ℝ,
      (∀ id, id ∉ (inp.ids.flatMap fun p => p.mu ++ p.epi) → σ id = σ₀ id) ∧
      (∀ p ∈ inp.ids, ∀ k, k < p.mu.length →
        σ (p.mu.getD k 0) = argVal σ₀ (inp.v.getD p.i (constE 0)) * xt.getD k 0) ∧
      FeasRows Q σ rows K := by
  obtain ⟨hM, hoff, hfeas⟩ := dual_moment_extension Q inp hwf rows K h x xt hx hxt t ht σ₀ hv
  refine ⟨_, hoff, fun p hp k hk => ?_, hfeas⟩
  rw [hM.mu p hp k hk, hv p.i (hwf.cover p hp).2.1]

/-- consequence: minimising any linear functional over the dual SAGE constraint can never cut off a moment
    vector of X — `inf {ℓ·v | v in the model} ≤ ℓ·(t·exp(α x))` -/
theorem dual_never_cuts (Q : CType → List ℝ → Prop) (inp : DualIn) (hwf : WfDual inp)
    (rows : List CRow) (K : List Cone) (h : dualRows inp = .ok (rows, K))
    (x xt : List ℝ) (hx : x.length = inp.n)
    (hxt : match inp.X with
      | none => xt = x
      | some X => xt.length = X.N ∧ xt.take inp.n = x ∧ FeasBlocks (conP Q) X.K (domSlack X xt))
    (t : ℝ) (ht : 0 ≤ t) (σ₀ : Nat → ℝ)
    (hv : ∀ j, j < inp.alpha.length →
      argVal σ₀ (inp.v.getD j (constE 0)) = t * Real.exp (rdot (inp.alpha.getD j []) x))
    (ℓ : List ℝ) :
    ∃ σ : Nat → ℝ, FeasRows Q σ rows K ∧
      (List.zipWith (fun l (vj : AffE) => l * argVal σ vj) ℓ inp.v).sum
        = (List.zipWith (fun l (a : List Rat) => l * (t * Real.exp (rdot a x))) ℓ inp.alpha).sum := by
  obtain ⟨hM, _, hfeas⟩ := dual_moment_extension Q inp hwf rows K h x xt hx hxt t ht σ₀ hv
  refine ⟨_, hfeas, ?_⟩
  apply sd_zipWith_sum_congr ℓ inp.v inp.alpha (argVal _) (fun a => t * Real.exp (rdot a x))
  apply List.ext_getElem
  · simp [hwf.vlen]
  · intro j h1 h2
    have hj : j < inp.alpha.length := by simpa using h2
    have hj' : j < inp.v.length := by simpa using h1
    have := hM.v j hj
    simp only [List.getD, List.getElem?_eq_getElem hj, List.getElem?_eq_getElem hj', Option.getD_some] at this
    simp [this]

/-! ### non-vacuity: concrete instances -/

def exAlpha : List (List Rat) := [[0], [1], [2]]
def exV : List AffE := [varE 0, varE 1, varE 2]
def exIds : List DIds := [⟨0, [3], []⟩, ⟨1, [4], []⟩, ⟨2, [5], []⟩]
/-- `U = [0,1,2]` (no sign information), full default covers -/
def exEch : Ech := ⟨[0, 1, 2], [], [], [(0, [false, true, true]), (1, [true, false, true]), (2, [true, true, false])]⟩

/-- these are the covers `ExpCoverHelper` computes (without and with a domain) -/
example : defaultEch exAlpha none false {} [] = exEch := by with_unfolding_all rfl
example : defaultEch exAlpha none true {} [] = exEch := by with_unfolding_all rfl

/-- ordinary dual SAGE cone for `α = (0, 1, 2)ᵀ`, `v` a Variable, compact form -/
def exOrd : DualIn :=
  { n := 1, alpha := exAlpha, v := exV, X := none, settings := {}, ech := exEch, ids := exIds, dummy := 6 }

theorem exOrd_wf : WfDual exOrd where
  width := by decide
  vlen := rfl
  idsU := rfl
  cover := by decide
  sizes := by decide
  dom := by intro X h; cases h
  fresh := by decide
  idx := by decide

def exOrdRows : List CRow :=
  [⟨[(0, 1)], 0, false⟩, ⟨[(1, 1)], 0, false⟩, ⟨[(2, 1)], 0, false⟩,
   ⟨[(3, 1)], 0, false⟩, ⟨[(1, 1)], 0, false⟩, ⟨[(0, 1)], 0, false⟩,
   ⟨[(3, 2)], 0, false⟩, ⟨[(2, 1)], 0, false⟩, ⟨[(0, 1)], 0, false⟩,
   ⟨[(4, -1)], 0, false⟩, ⟨[(0, 1)], 0, false⟩, ⟨[(1, 1)], 0, false⟩,
   ⟨[(4, 1)], 0, false⟩, ⟨[(2, 1)], 0, false⟩, ⟨[(1, 1)], 0, false⟩,
   ⟨[(5, -2)], 0, false⟩, ⟨[(0, 1)], 0, false⟩, ⟨[(2, 1)], 0, false⟩,
   ⟨[(5, -1)], 0, false⟩, ⟨[(1, 1)], 0, false⟩, ⟨[(2, 1)], 0, false⟩]

theorem exOrd_rows : dualRows exOrd = .ok (exOrdRows, ⟨.pos, 3⟩ :: List.replicate 6 ⟨.exp, 3⟩) := by
  with_unfolding_all decide

/-- the theorem applies: every moment vector `t·(1, eˣ, e²ˣ)` extends to a point of the compiled system -/
example (Q : CType → List ℝ → Prop) (x t : ℝ) (ht : 0 ≤ t) :
    ∃ σ : Nat → ℝ, σ 0 = t ∧ σ 1 = t * Real.exp x ∧ σ 2 = t * Real.exp (2 * x) ∧ σ 3 = t * x ∧
      FeasRows Q σ exOrdRows (⟨.pos, 3⟩ :: List.replicate 6 ⟨.exp, 3⟩) := by
  obtain ⟨σ, h1, h2, h3⟩ := dual_admits_moments Q exOrd exOrd_wf _ _ exOrd_rows [x] [x] rfl rfl t ht
    (fun id => t * Real.exp ((id : ℝ) * x)) (by
      intro j hj
      have hj' : j = 0 ∨ j = 1 ∨ j = 2 := by have : j < 3 := hj; omega
      rcases hj' with rfl | rfl | rfl <;> simp [exOrd, exV, exAlpha, varE, argVal, rdot])
  refine ⟨σ, ?_, ?_, ?_, ?_, h3⟩
  · rw [h1 0 (by decide)]; simp
  · rw [h1 1 (by decide)]; simp
  · rw [h1 2 (by decide)]; simp
  · have := h2 ⟨0, [3], []⟩ List.mem_cons_self 0 (by decide)
    simpa [exOrd, exV, varE, argVal] using this

/-- the domain `X = {x ≤ 1}` in conic form: `−x + 1 ∈ ℝ₊` -/
def exDom : Dom := { A := [[-1]], b := [1], K := [⟨.pos, 1⟩], N := 1 }

/-- conditional dual SAGE cone over `X`, compact form -/
def exCond : DualIn := { exOrd with X := some exDom }

theorem exCond_wf : WfDual exCond where
  width := by decide
  vlen := rfl
  idsU := rfl
  cover := by decide
  sizes := by decide
  dom := by
    intro X h
    have : X = exDom := by cases h; rfl
    subst this
    unfold domWf
    decide
  fresh := by decide
  idx := by decide

def exCondRows : List CRow :=
  [⟨[(0, 1)], 0, false⟩, ⟨[(1, 1)], 0, false⟩, ⟨[(2, 1)], 0, false⟩,
   ⟨[(3, 1)], 0, false⟩, ⟨[(1, 1)], 0, false⟩, ⟨[(0, 1)], 0, false⟩,
   ⟨[(3, 2)], 0, false⟩, ⟨[(2, 1)], 0, false⟩, ⟨[(0, 1)], 0, false⟩,
   ⟨[(3, -1), (0, 1)], 0, false⟩,
   ⟨[(4, -1)], 0, false⟩, ⟨[(0, 1)], 0, false⟩, ⟨[(1, 1)], 0, false⟩,
   ⟨[(4, 1)], 0, false⟩, ⟨[(2, 1)], 0, false⟩, ⟨[(1, 1)], 0, false⟩,
   ⟨[(4, -1), (1, 1)], 0, false⟩,
   ⟨[(5, -2)], 0, false⟩, ⟨[(0, 1)], 0, false⟩, ⟨[(2, 1)], 0, false⟩,
   ⟨[(5, -1)], 0, false⟩, ⟨[(1, 1)], 0, false⟩, ⟨[(2, 1)], 0, false⟩,
   ⟨[(5, -1), (2, 1)], 0, false⟩]

def exCondK : List Cone :=
  [⟨.pos, 3⟩, ⟨.exp, 3⟩, ⟨.exp, 3⟩, ⟨.pos, 1⟩, ⟨.exp, 3⟩, ⟨.exp, 3⟩, ⟨.pos, 1⟩, ⟨.exp, 3⟩, ⟨.exp, 3⟩, ⟨.pos, 1⟩]

theorem exCond_rows : dualRows exCond = .ok (exCondRows, exCondK) := by
  with_unfolding_all decide

/-- the theorem applies on the domain: for `x ≤ 1` the moment vector extends -/
example (Q : CType → List ℝ → Prop) (x t : ℝ) (hx : x ≤ 1) (ht : 0 ≤ t) :
    ∃ σ : Nat → ℝ, σ 0 = t ∧ σ 1 = t * Real.exp x ∧ σ 2 = t * Real.exp (2 * x) ∧
      FeasRows Q σ exCondRows exCondK := by
  obtain ⟨σ, h1, _, h3⟩ := dual_admits_moments Q exCond exCond_wf _ _ exCond_rows [x] [x] rfl
    ⟨rfl, rfl, by
      simp only [exDom, domSlack, rdot, FeasBlocks, conP, realP]
      simp
      linarith⟩ t ht
    (fun id => t * Real.exp ((id : ℝ) * x)) (by
      intro j hj
      have hj' : j = 0 ∨ j = 1 ∨ j = 2 := by have : j < 3 := hj; omega
      rcases hj' with rfl | rfl | rfl <;> simp [exCond, exOrd, exV, exAlpha, varE, argVal, rdot])
  refine ⟨σ, ?_, ?_, ?_, h3⟩
  · rw [h1 0 (by decide)]; simp
  · rw [h1 1 (by decide)]; simp
  · rw [h1 2 (by decide)]; simp

/-- epigraph form (`compact_dual = False`): `_relent_epi_` Variables with ids 6…11 -/
def exEpi : DualIn :=
  { exOrd with settings := { compactDual := false },
               ids := [⟨0, [3], [6, 7]⟩, ⟨1, [4], [8, 9]⟩, ⟨2, [5], [10, 11]⟩], dummy := 12 }

theorem exEpi_wf : WfDual exEpi where
  width := by decide
  vlen := rfl
  idsU := rfl
  cover := by decide
  sizes := by decide
  dom := by intro X h; cases h
  fresh := by decide
  idx := by decide

example : ∃ rows K, dualRows exEpi = .ok (rows, K) ∧ rows.length = 27 ∧ K.length = 10 := ⟨_, _, rfl, rfl, rfl⟩

end Sageopt.Props.C02
