/-
C19, part D — the SIGN-BASED COVER PRESOLVE is lossless on ℝⁿ (`sign_presolve_lossless`, `sign_presolve_iff`).
`ExpCoverHelper` creates AGE cones only for the indices whose coefficient can be negative and removes every definitely-negative
index from every cover.  For a coefficient vector `c` (the values of the coefficients under an assignment) this is the statement:
if `c` is a sum of AGE-certified vectors with FULL covers, one per index, then it is a sum of certified vectors indexed by the
negative entries `N` of `c` only, the `i`-th over the cover `{l | c_l ≥ 0}` (no other negative index) — and conversely.
Murray–Chandrasekaran–Wierman 2018, Thm 2 / Cor 5; proved here from the function-level reduction (`Lemmas/SignReduction.lean`,
an induction on the number of AGE summands) and the exactness of the certificate on ℝⁿ (`C06.ordAge_exact`).
-/
import SageoptModel.Lemmas.SignReduction
import SageoptModel.Props.C06Full

namespace Sageopt.Props.C19
open Sageopt.Analysis Sageopt.Props.C06
open scoped BigOperators

set_option linter.unusedVariables false

variable {ι : Type} [Fintype ι] [DecidableEq ι] {N : ℕ}

/-- a certified vector with the full cover is an AGE function -/
theorem ageF_of_cert (α : ι → Fin N → ℝ) (k : ι) (w : ι → ℝ)
    (h : OrdAgeCert α k (Finset.univ.erase k) w) : AGEf Set.univ α k w := by
  constructor
  · intro x _
    have hs := ordAge_sound α k (Finset.univ.erase k) (Finset.notMem_erase k _) w h x
    rw [Finset.add_sum_erase Finset.univ (fun j => w j * Real.exp (dotp (α j) x)) (Finset.mem_univ k)] at hs
    exact hs
  · intro j hj
    obtain ⟨ν, epi, h1, _, _⟩ := h
    have hy := expcone_y_nonneg _ _ _ (h1 j (Finset.mem_erase.mpr ⟨hj, Finset.mem_univ j⟩))
    exact (mul_nonneg_iff_of_pos_left (Real.exp_pos 1)).mp hy

/-- an AGE function that vanishes outside `S ∪ {i}` is certified over the cover `S` -/
theorem cert_of_ageF (α : ι → Fin N → ℝ) (i : ι) (S : Finset ι) (hi : i ∉ S) (w : ι → ℝ) (h : AGEf Set.univ α i w)
    (hzero : ∀ l, l ∉ S → l ≠ i → w l = 0) : OrdAgeCert α i S w := by
  apply ordAge_complete α i S w (fun j hj => h.2 j (fun e => hi (e ▸ hj)))
  intro x
  have hx := h.1 x (Set.mem_univ x)
  have hsplit : ∑ j, w j * Real.exp (dotp (α j) x)
      = w i * Real.exp (dotp (α i) x) + ∑ j ∈ S, w j * Real.exp (dotp (α j) x) := by
    rw [← Finset.add_sum_erase Finset.univ (fun j => w j * Real.exp (dotp (α j) x)) (Finset.mem_univ i)]
    congr 1
    symm
    apply Finset.sum_subset
    · intro j hj; exact Finset.mem_erase.mpr ⟨fun e => hi (e ▸ hj), Finset.mem_univ j⟩
    · intro j hj hjS
      rw [hzero j hjS (Finset.ne_of_mem_erase hj), zero_mul]
  rw [hsplit] at hx
  exact hx

/-- LOSSLESSNESS of the sign-based cover presolve: a SAGE decomposition with full covers (one certified vector per index, summing
    to `c`) yields one with AGE vectors only at the negative entries of `c`, each certified over the cover of the NONNEGATIVE entries;
    the new vectors sum to at most `c` (the `+` cone of `_age_vectors_sum_to_c`) -/
theorem sign_presolve_lossless (α : ι → Fin N → ℝ) (c : ι → ℝ) (w : ι → ι → ℝ)
    (hw : ∀ k, OrdAgeCert α k (Finset.univ.erase k) (w k)) (hsum : ∀ l, c l = ∑ k, w k l) :
    ∃ ŵ : ι → ι → ℝ,
      (∀ i, c i < 0 → OrdAgeCert α i (Finset.univ.filter (fun l => ¬ c l < 0)) (ŵ i)) ∧
      (∀ l, ∑ i ∈ Finset.univ.filter (fun i => c i < 0), ŵ i l ≤ c l) := by
  have hred := sign_reduction Set.univ α Finset.univ w (fun k _ => ageF_of_cert α k (w k) (hw k))
  have hc : (fun l => ∑ k ∈ Finset.univ, w k l) = c := funext (fun l => (hsum l).symm)
  rw [hc] at hred
  obtain ⟨ŵ, h1, h2, h3⟩ := hred
  refine ⟨ŵ, ?_, h3⟩
  intro i hi
  apply cert_of_ageF α i _ (by simp [hi]) (ŵ i) (h1 i hi)
  intro l hl hli
  have hlneg : c l < 0 := by
    by_contra h; exact hl (Finset.mem_filter.mpr ⟨Finset.mem_univ l, h⟩)
  exact h2 i l hi hlneg hli

/-- … and the converse: AGE vectors at the negative entries, certified over the nonnegative entries and zero at the other negative
    entries (as the compiled AGE vectors are), are a decomposition with full covers (the other cones take the zero vector).
    Hence both descriptions certify the same vectors: the presolve changes nothing -/
theorem sign_presolve_sound (α : ι → Fin N → ℝ) (c : ι → ℝ) (ŵ : ι → ι → ℝ)
    (hŵ : ∀ i, c i < 0 → OrdAgeCert α i (Finset.univ.filter (fun l => ¬ c l < 0)) (ŵ i))
    (hzero : ∀ i l, c i < 0 → c l < 0 → l ≠ i → ŵ i l = 0) :
    ∃ w : ι → ι → ℝ, (∀ k, OrdAgeCert α k (Finset.univ.erase k) (w k)) ∧
      (∀ l, ∑ k, w k l = ∑ i ∈ Finset.univ.filter (fun i => c i < 0), ŵ i l) := by
  refine ⟨fun k => if c k < 0 then ŵ k else (fun _ => 0), ?_, ?_⟩
  · intro k
    by_cases hk : c k < 0
    · simp only [hk, if_true]
      apply ordAge_cover_mono α k _ (Finset.univ.erase k) _ _ _ (hŵ k hk)
      · intro l hl
        have hl' : ¬ c l < 0 := by simpa using hl
        exact Finset.mem_erase.mpr ⟨fun e => hl' (e ▸ hk), Finset.mem_univ l⟩
      · intro l hl hlS
        have hlk : l ≠ k := Finset.ne_of_mem_erase hl
        have hlneg : c l < 0 := by
          by_contra h; exact hlS (Finset.mem_filter.mpr ⟨Finset.mem_univ l, h⟩)
        rw [hzero k l hk hlneg hlk]
    · simp only [hk, if_false]
      exact ⟨fun _ => 0, fun _ => 0, fun j _ => Or.inr ⟨rfl, by simp, by simp⟩, by simp, by simp⟩
  · intro l
    rw [Finset.sum_filter]
    apply Finset.sum_congr rfl
    intro k _
    by_cases hk : c k < 0 <;> simp [hk]

/-- the lossless direction with everything it delivers: the reduced vectors are also ZERO at the other negative entries (what
    `sign_presolve_sound` needs back): the two descriptions certify the same coefficient vectors -/
theorem sign_presolve_lossless_strong (α : ι → Fin N → ℝ) (c : ι → ℝ) :
    (∃ w : ι → ι → ℝ, (∀ k, OrdAgeCert α k (Finset.univ.erase k) (w k)) ∧ ∀ l, c l = ∑ k, w k l) →
    (∃ ŵ : ι → ι → ℝ,
      (∀ i, c i < 0 → OrdAgeCert α i (Finset.univ.filter (fun l => ¬ c l < 0)) (ŵ i)) ∧
      (∀ i l, c i < 0 → c l < 0 → l ≠ i → ŵ i l = 0) ∧
      (∀ l, ∑ i ∈ Finset.univ.filter (fun i => c i < 0), ŵ i l ≤ c l)) := by
  rintro ⟨w, hw, hsum⟩
  have hred := sign_reduction Set.univ α Finset.univ w (fun k _ => ageF_of_cert α k (w k) (hw k))
  have hc : (fun l => ∑ k ∈ Finset.univ, w k l) = c := funext (fun l => (hsum l).symm)
  rw [hc] at hred
  obtain ⟨ŵ, h1, h2, h3⟩ := hred
  refine ⟨ŵ, ?_, h2, h3⟩
  intro i hi
  apply cert_of_ageF α i _ (by simp [hi]) (ŵ i) (h1 i hi)
  intro l hl hli
  have hlneg : c l < 0 := by
    by_contra h; exact hl (Finset.mem_filter.mpr ⟨Finset.mem_univ l, h⟩)
  exact h2 i l hi hlneg hli

/-- IN THE SHAPE OF `ExpCoverHelper._default_covers` (before the two other reductions): `NI` is the set of DEFINITELY negative
    coefficients (constants), the coefficients that are Variables may come out negative or not under the assignment at hand; the code
    gives every possibly-negative index `i` the cover `{l | l ∉ NI, l ≠ i}`.  Whatever the assignment, a decomposition with full covers
    can be rewritten over these covers, using only the cones of the indices that ARE negative -/
theorem default_covers_lossless (α : ι → Fin N → ℝ) (c : ι → ℝ) (NI : Finset ι) (hNI : ∀ l ∈ NI, c l < 0)
    (h : ∃ w : ι → ι → ℝ, (∀ k, OrdAgeCert α k (Finset.univ.erase k) (w k)) ∧ ∀ l, c l = ∑ k, w k l) :
    ∃ ŵ : ι → ι → ℝ,
      (∀ i, c i < 0 → OrdAgeCert α i (Finset.univ.filter (fun l => l ∉ NI ∧ l ≠ i)) (ŵ i)) ∧
      (∀ l, ∑ i ∈ Finset.univ.filter (fun i => c i < 0), ŵ i l ≤ c l) := by
  obtain ⟨ŵ, h1, h2, h3⟩ := sign_presolve_lossless_strong α c h
  refine ⟨ŵ, ?_, h3⟩
  intro i hi
  apply ordAge_cover_mono α i _ _ _ (ŵ i) _ (h1 i hi)
  · intro l hl
    have hl' : ¬ c l < 0 := by simpa using hl
    exact Finset.mem_filter.mpr ⟨Finset.mem_univ l, fun hN => hl' (hNI l hN), fun e => hl' (e ▸ hi)⟩
  · intro l hl hlS
    have hli : l ≠ i := (Finset.mem_filter.mp hl).2.2
    have hlneg : c l < 0 := by
      by_contra hh; exact hlS (Finset.mem_filter.mpr ⟨Finset.mem_univ l, hh⟩)
    rw [h2 i l hi hlneg hli]

/-- THE EQUALITY FORM, for `sum_age_force_equality`: when `c` has a negative entry the reduced vectors can be chosen to sum to `c` exactly
    (so the forced-equality row of `_age_vectors_sum_to_c` is satisfiable with the automatic cones and covers whenever the full-cover
    decomposition exists) -/
theorem default_covers_lossless_eq (α : ι → Fin N → ℝ) (c : ι → ℝ) (NI : Finset ι) (hNI : ∀ l ∈ NI, c l < 0)
    (i0 : ι) (hi0 : c i0 < 0)
    (h : ∃ w : ι → ι → ℝ, (∀ k, OrdAgeCert α k (Finset.univ.erase k) (w k)) ∧ ∀ l, c l = ∑ k, w k l) :
    ∃ ŵ : ι → ι → ℝ,
      (∀ i, c i < 0 → OrdAgeCert α i (Finset.univ.filter (fun l => l ∉ NI ∧ l ≠ i)) (ŵ i)) ∧
      (∀ i l, c i < 0 → c l < 0 → l ≠ i → ŵ i l = 0) ∧
      (∀ l, ∑ i ∈ Finset.univ.filter (fun i => c i < 0), ŵ i l = c l) := by
  obtain ⟨w, hw, hsum⟩ := h
  have hred := sign_reduction Set.univ α Finset.univ w (fun k _ => ageF_of_cert α k (w k) (hw k))
  have hc : (fun l => ∑ k ∈ Finset.univ, w k l) = c := funext (fun l => (hsum l).symm)
  rw [hc] at hred
  obtain ⟨ŵ, h1, h2, h3⟩ := signReduced_eq Set.univ α c hred i0 hi0
  refine ⟨ŵ, ?_, h2, h3⟩
  intro i hi
  have hcert : OrdAgeCert α i (Finset.univ.filter (fun l => ¬ c l < 0)) (ŵ i) := by
    apply cert_of_ageF α i _ (by simp [hi]) (ŵ i) (h1 i hi)
    intro l hl hli
    have hlneg : c l < 0 := by
      by_contra hh; exact hl (Finset.mem_filter.mpr ⟨Finset.mem_univ l, hh⟩)
    exact h2 i l hi hlneg hli
  apply ordAge_cover_mono α i _ _ _ (ŵ i) _ hcert
  · intro l hl
    have hl' : ¬ c l < 0 := by simpa using hl
    exact Finset.mem_filter.mpr ⟨Finset.mem_univ l, fun hN => hl' (hNI l hN), fun e => hl' (e ▸ hi)⟩
  · intro l hl hlS
    have hli : l ≠ i := (Finset.mem_filter.mp hl).2.2
    have hlneg : c l < 0 := by
      by_contra hh; exact hlS (Finset.mem_filter.mpr ⟨Finset.mem_univ l, hh⟩)
    rw [h2 i l hi hlneg hli]

/-! ### the same over a compact box: the sign-based covers of CONDITIONAL cones -/

/-- a vector certified over the box with the full cover is an AGE function on the box -/
theorem ageF_of_boxcert (α : ι → Fin N → ℝ) (lo hi : Fin N → ℝ) (k : ι) (w : ι → ℝ)
    (h : CondAgeCert α k (Finset.univ.erase k) (boxA N) (boxb lo hi) (orthant (N + N)) w) :
    AGEf {x | ∀ l, lo l ≤ x l ∧ x l ≤ hi l} α k w := by
  constructor
  · intro x hx
    have hs := condAge_sound α k (Finset.univ.erase k) (boxA N) (boxb lo hi) (orthant (N + N)) w h x
      ((box_mem_iff lo hi x).mpr hx)
    rw [Finset.add_sum_erase Finset.univ (fun j => w j * Real.exp (dotp (α j) x)) (Finset.mem_univ k)] at hs
    exact hs
  · intro j hj
    obtain ⟨ν, epi, η, _, h1, _, _⟩ := h
    have hy := expcone_y_nonneg _ _ _ (h1 j (Finset.mem_erase.mpr ⟨hj, Finset.mem_univ j⟩))
    exact (mul_nonneg_iff_of_pos_left (Real.exp_pos 1)).mp hy

/-- LOSSLESSNESS of the sign-based covers for CONDITIONAL cones over a compact box: a decomposition into vectors certified over the
    box with full covers can be rewritten with the cones of the negative entries only, over the covers `{l ∉ N_I, l ≠ i}` -/
theorem box_default_covers_lossless (α : ι → Fin N → ℝ) (lo hi : Fin N → ℝ) (hne : ∀ l, lo l ≤ hi l) (c : ι → ℝ)
    (NI : Finset ι) (hNI : ∀ l ∈ NI, c l < 0) (w : ι → ι → ℝ)
    (hw : ∀ k, CondAgeCert α k (Finset.univ.erase k) (boxA N) (boxb lo hi) (orthant (N + N)) (w k))
    (hsum : ∀ l, c l = ∑ k, w k l) :
    ∃ ŵ : ι → ι → ℝ,
      (∀ i, c i < 0 → CondAgeCert α i (Finset.univ.filter (fun l => l ∉ NI ∧ l ≠ i)) (boxA N) (boxb lo hi) (orthant (N + N)) (ŵ i)) ∧
      (∀ l, ∑ i ∈ Finset.univ.filter (fun i => c i < 0), ŵ i l ≤ c l) := by
  have hred := sign_reduction {x | ∀ l, lo l ≤ x l ∧ x l ≤ hi l} α Finset.univ w
    (fun k _ => ageF_of_boxcert α lo hi k (w k) (hw k))
  have hc : (fun l => ∑ k ∈ Finset.univ, w k l) = c := funext (fun l => (hsum l).symm)
  rw [hc] at hred
  obtain ⟨ŵ, h1, h2, h3⟩ := hred
  refine ⟨ŵ, ?_, h3⟩
  intro i hci
  have hage := h1 i hci
  set S := Finset.univ.filter (fun l => l ∉ NI ∧ l ≠ i) with hS
  have hiS : i ∉ S := by simp [hS]
  apply box_complete α i S (ŵ i) (fun j hj => hage.2 j (fun e => hiS (e ▸ hj))) lo hi hne
  intro x hx
  have hxx := hage.1 x hx
  have hsplit : ∑ j, ŵ i j * Real.exp (dotp (α j) x)
      = ŵ i i * Real.exp (dotp (α i) x) + ∑ j ∈ S, ŵ i j * Real.exp (dotp (α j) x) := by
    rw [← Finset.add_sum_erase Finset.univ (fun j => ŵ i j * Real.exp (dotp (α j) x)) (Finset.mem_univ i)]
    congr 1
    symm
    apply Finset.sum_subset
    · intro j hj; exact Finset.mem_erase.mpr ⟨fun e => hiS (e ▸ hj), Finset.mem_univ j⟩
    · intro j hj hjS
      have hji : j ≠ i := Finset.ne_of_mem_erase hj
      have hjN : j ∈ NI := by
        by_contra hn; exact hjS (Finset.mem_filter.mpr ⟨Finset.mem_univ j, hn, hji⟩)
      rw [h2 i j hci (hNI j hjN) hji, zero_mul]
  rw [hsplit] at hxx
  exact hxx

/-- … and in EQUALITY form (for `sum_age_force_equality` on conditional cones over a box) -/
theorem box_default_covers_lossless_eq (α : ι → Fin N → ℝ) (lo hi : Fin N → ℝ) (hne : ∀ l, lo l ≤ hi l) (c : ι → ℝ)
    (NI : Finset ι) (hNI : ∀ l ∈ NI, c l < 0) (i0 : ι) (hi0 : c i0 < 0) (w : ι → ι → ℝ)
    (hw : ∀ k, CondAgeCert α k (Finset.univ.erase k) (boxA N) (boxb lo hi) (orthant (N + N)) (w k))
    (hsum : ∀ l, c l = ∑ k, w k l) :
    ∃ ŵ : ι → ι → ℝ,
      (∀ i, c i < 0 → CondAgeCert α i (Finset.univ.filter (fun l => l ∉ NI ∧ l ≠ i)) (boxA N) (boxb lo hi) (orthant (N + N)) (ŵ i)) ∧
      (∀ l, ∑ i ∈ Finset.univ.filter (fun i => c i < 0), ŵ i l = c l) := by
  have hred := sign_reduction {x | ∀ l, lo l ≤ x l ∧ x l ≤ hi l} α Finset.univ w
    (fun k _ => ageF_of_boxcert α lo hi k (w k) (hw k))
  have hc : (fun l => ∑ k ∈ Finset.univ, w k l) = c := funext (fun l => (hsum l).symm)
  rw [hc] at hred
  obtain ⟨ŵ, h1, h2, h3⟩ := signReduced_eq _ α c hred i0 hi0
  refine ⟨ŵ, ?_, h3⟩
  intro i hci
  have hage := h1 i hci
  set S := Finset.univ.filter (fun l => l ∉ NI ∧ l ≠ i) with hS
  have hiS : i ∉ S := by simp [hS]
  apply box_complete α i S (ŵ i) (fun j hj => hage.2 j (fun e => hiS (e ▸ hj))) lo hi hne
  intro x hx
  have hxx := hage.1 x hx
  have hsplit : ∑ j, ŵ i j * Real.exp (dotp (α j) x)
      = ŵ i i * Real.exp (dotp (α i) x) + ∑ j ∈ S, ŵ i j * Real.exp (dotp (α j) x) := by
    rw [← Finset.add_sum_erase Finset.univ (fun j => ŵ i j * Real.exp (dotp (α j) x)) (Finset.mem_univ i)]
    congr 1
    symm
    apply Finset.sum_subset
    · intro j hj; exact Finset.mem_erase.mpr ⟨fun e => hiS (e ▸ hj), Finset.mem_univ j⟩
    · intro j hj hjS
      have hji : j ≠ i := Finset.ne_of_mem_erase hj
      have hjN : j ∈ NI := by
        by_contra hn; exact hjS (Finset.mem_filter.mpr ⟨Finset.mem_univ j, hn, hji⟩)
      rw [h2 i j hci (hNI j hjN) hji, zero_mul]
  rw [hsplit] at hxx
  exact hxx

/-! ### non-vacuity: `1 − 2eˣ + e^{2x}` with the full-cover decomposition that puts everything into the cone of the negative term -/

example : ∃ ŵ : Fin 3 → Fin 3 → ℝ,
    (∀ i, (fun j : Fin 3 => if j = 1 then (-2 : ℝ) else 1) i < 0 →
      OrdAgeCert (fun (j : Fin 3) (_ : Fin 1) => (j : ℝ)) i
        (Finset.univ.filter (fun l => ¬ (fun j : Fin 3 => if j = 1 then (-2 : ℝ) else 1) l < 0)) (ŵ i)) ∧
    (∀ l, ∑ i ∈ Finset.univ.filter (fun i => (fun j : Fin 3 => if j = 1 then (-2 : ℝ) else 1) i < 0), ŵ i l
      ≤ (fun j : Fin 3 => if j = 1 then (-2 : ℝ) else 1) l) := by
  apply sign_presolve_lossless (fun (j : Fin 3) (_ : Fin 1) => (j : ℝ)) (fun j : Fin 3 => if j = 1 then (-2 : ℝ) else 1)
    (fun k => if k = 1 then (fun j : Fin 3 => if j = 1 then (-2 : ℝ) else 1) else (fun _ => 0))
  · intro k
    by_cases hk : k = 1
    · subst hk
      simp only [if_true]
      have e : (Finset.univ.erase (1 : Fin 3)) = {0, 2} := by decide
      rw [e]
      have h := (midpoint_circuit_exact 1 1 2 one_pos one_pos).2.mp (by simp)
      convert h using 2
      split_ifs <;> simp_all
    · simp only [hk, if_false]
      exact ⟨fun _ => 0, fun _ => 0, fun j _ => Or.inr ⟨rfl, by simp, by simp⟩, by simp, by simp⟩
  · intro l
    rw [Finset.sum_eq_single (1 : Fin 3)]
    · simp
    · intro b _ hb; simp [hb]
    · intro h; exact absurd (Finset.mem_univ _) h

end Sageopt.Props.C19
