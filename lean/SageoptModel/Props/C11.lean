/-
C11 — compiling and solving never change what a model means.
Property theorems about `Model/Recompile.lean`.
-/
import SageoptModel.Model.Recompile
import SageoptModel.Lemmas.CompileSem
import SageoptModel.Lemmas.RecompileHistory

namespace Sageopt.Props.C11
open Sageopt Sageopt.Compile Sageopt.Solvers

/-- a compilation is the one-shot compiler of C07 applied to the objects' current state … -/
theorem compileStep_output (cons : List Con) (dummy : Nat) :
    (compileStep cons dummy).map (fun r => (r.1, r.2.1)) = compileBlocks cons dummy := by
  unfold compileStep
  cases h : compileBlocks cons dummy with
  | error m => simp [bind, Except.bind, Except.map]
  | ok p => obtain ⟨rows, K⟩ := p; simp [bind, Except.bind, Except.map, pure, Except.pure]

/-- … and leaves that state exactly as it was -/
theorem compileStep_state (cons : List Con) (dummy : Nat) (rows : List CRow) (K : List Cone) (post : List Con)
    (h : compileStep cons dummy = .ok (rows, K, post)) : post = cons := by
  unfold compileStep at h
  cases hb : compileBlocks cons dummy with
  | error m => simp [bind, Except.bind, hb] at h
  | ok p =>
    obtain ⟨r, k⟩ := p
    simp [bind, Except.bind, pure, Except.pure, hb] at h
    exact h.2.2.symm

/-- RECOMPILE: compiling the same objects a second time gives the same blocks -/
theorem recompile_same (cons : List Con) (dummy : Nat) (rows : List CRow) (K : List Cone) (post : List Con)
    (h : compileStep cons dummy = .ok (rows, K, post)) : compileStep post dummy = .ok (rows, K, post) := by
  have := compileStep_state cons dummy rows K post h
  subst this; exact h

/-- all indices of every compile operation are valid positions of the pool, without repetition -/
def ValidOps (n : Nat) (ops : List Op) : Prop :=
  ∀ op ∈ ops, match op with
    | .compile idxs => (∀ i ∈ idxs, i < n) ∧ idxs.Nodup
    | .unrelated _ => True

/-- writing the unchanged post-state back changes nothing -/
theorem writeBack_pick (cons : List Con) (idxs : List Nat) (h : ∀ i ∈ idxs, i < cons.length) :
    writeBack cons idxs (pick cons idxs) = cons :=
  rc_writeBack_pick cons idxs h

theorem validOps_tail {n : Nat} {op : Op} {ops : List Op} (hv : ValidOps n (op :: ops)) :
    ValidOps n ops := fun o ho => hv o (List.mem_cons_of_mem _ ho)

/-- one step of a valid history keeps the pool -/
theorem step_cons (w : World) (op : Op) (ops : List Op) (hv : ValidOps w.cons.length (op :: ops)) :
    (step w op).1.cons = w.cons := by
  have h := hv op (by simp)
  cases op with
  | unrelated k => rfl
  | compile idxs => exact rc_step_cons w (.compile idxs) h

/-- STATE INVARIANT over all finite histories: whatever is compiled, in whatever order, interleaved with
    the creation of any number of unrelated Variables, the constraint objects keep their state -/
theorem history_state_invariant (w : World) (ops : List Op) (hv : ValidOps w.cons.length ops) :
    (run w ops).1.cons = w.cons := by
  induction ops generalizing w with
  | nil => rfl
  | cons op ops ih =>
    rw [rc_run_cons]
    have h1 : (step w op).1.cons = w.cons := step_cons w op ops hv
    have h2 := ih (step w op).1 (by rw [h1]; exact validOps_tail hv)
    simp only
    rw [h2, h1]

/-- the dummy column (id of the most recently created scalar variable; it moves whenever unrelated
    Variables are created) only carries zero entries: for any two dummies the cones are identical and the
    compiled rows have the same value under every assignment -/
theorem unrelated_vars_irrelevant (cons : List Con) (d d' : Nat) (rows : List CRow) (K : List Cone)
    (h : compileBlocks cons d = .ok (rows, K)) :
    ∃ rows', compileBlocks cons d' = .ok (rows', K) ∧
      ∀ σ : Nat → ℝ, rows'.map (crowVal σ) = rows.map (crowVal σ) := by
  obtain ⟨rows', h', hR⟩ := rc_compileBlocks cons d d' rows K h
  exact ⟨rows', h', fun σ => rc_forall₂_map hR σ⟩

/-- every compilation that occurs anywhere in any history returns the compilation of the same objects
    in their INITIAL state (a freshly built copy), up to the dummy column: same cones, rows equal under
    every assignment; and a compilation fails in the history iff it fails on the fresh copy -/
theorem history_outputs_fresh (w : World) (ops : List Op) (hv : ValidOps w.cons.length ops)
    (k : Nat) (idxs : List Nat) (hk : ops[k]? = some (.compile idxs)) :
    ∃ out, (run w ops).2[k]? = some (some out) ∧
      (match out, compileBlocks (pick w.cons idxs) 0 with
       | .ok (rows, K), .ok (rows0, K0) => K = K0 ∧ ∀ σ : Nat → ℝ, rows.map (crowVal σ) = rows0.map (crowVal σ)
       | .error _, .error _ => True
       | _, _ => False) := by
  induction ops generalizing w k with
  | nil => simp at hk
  | cons op ops ih =>
    rw [rc_run_cons]
    have h1 : (step w op).1.cons = w.cons := step_cons w op ops hv
    cases k with
    | zero =>
      simp only [List.getElem?_cons_zero, Option.some.injEq] at hk
      subst hk
      simp only [List.getElem?_cons_zero]
      rw [rc_step_out]
      refine ⟨_, rfl, ?_⟩
      rcases rc_out_cases (pick w.cons idxs) (w.counter - 1) 0 with
        ⟨rows, rows', K, h, h', hσ⟩ | ⟨m, m', h, h'⟩
      · rw [h, h']; exact ⟨rfl, hσ⟩
      · rw [h, h']; trivial
    | succ k =>
      simp only [List.getElem?_cons_succ] at hk ⊢
      have h2 := ih (step w op).1 (by rw [h1]; exact validOps_tail hv) k hk
      rw [h1] at h2
      exact h2

/-- models that mix Variables of different index generations are rejected -/
theorem generation_rejected (cols : List Nat) (vars : List VarInfo)
    (h : ∃ v ∈ vars, ∃ w ∈ vars, v.gen ≠ w.gen) : ∃ m, variableMap cols vars = .error m := by
  obtain ⟨v, hv, u, hu, hne⟩ := h
  cases vars with
  | nil => cases hv
  | cons v0 vs =>
    unfold variableMap
    simp only
    have hany : (v0 :: vs).any (fun x => x.gen != v0.gen) = true := by
      rw [List.any_eq_true]
      by_cases h1 : v.gen = v0.gen
      · refine ⟨u, hu, ?_⟩
        simp only [bne_iff_ne, ne_eq]
        rw [← h1]
        exact fun h => hne h.symm
      · exact ⟨v, hv, by simpa using h1⟩
    rw [if_pos hany]
    exact ⟨_, rfl⟩

/-! ### non-vacuity: a concrete pool and history -/

/-- pool: `|x0 - 2| - x1 ≤ 0` (elementwise `≤` row with an `abs` atom, epigraph variable 7) and
    `x0 + 2·x1 - 3 == 0` (affine `==` row) -/
def exPool : List Con :=
  [ .elem false [⟨[(.nl ⟨.abs, [⟨[(0, 1)], -2⟩], 7⟩, 1), (.var 1, -1)], 0⟩],
    .elem true [⟨[(.var 0, 1), (.var 1, 2)], -3⟩] ]

def exOps : List Op := [.compile [0, 1], .unrelated 3, .compile [1, 0], .compile [0]]

def exWorld : World := ⟨exPool, 8⟩

def outOk : Option (M (List CRow × List Cone)) → Bool
  | some (.ok _) => true
  | none => true
  | _ => false

/-- the hypothesis `ValidOps` of the history theorems is satisfiable -/
example : ValidOps exWorld.cons.length exOps := by
  intro op hop
  simp [exOps] at hop
  rcases hop with rfl | rfl | rfl | rfl <;> simp [exWorld, exPool]

/-- every compilation of the history succeeds (the `unrelated` step has no output) -/
example : (run exWorld exOps).2.map outOk = [true, true, true, true] := by with_unfolding_all decide

/-- the first and the last compilation, explicitly -/
example : (run exWorld exOps).2[0]? = some (some (.ok
    ([⟨[(1, 1), (7, -1)], 0, false⟩, ⟨[(0, -1), (1, -2)], 3, false⟩,
      ⟨[(7, 1), (0, 1)], -2, false⟩, ⟨[(7, 1), (0, -1)], 2, false⟩],
     [⟨.pos, 1⟩, ⟨.zero, 1⟩, ⟨.pos, 2⟩]))) := by with_unfolding_all decide

example : (run exWorld exOps).2[3]? = some (some (.ok
    ([⟨[(1, 1), (7, -1)], 0, false⟩, ⟨[(7, 1), (0, 1)], -2, false⟩, ⟨[(7, 1), (0, -1)], 2, false⟩],
     [⟨.pos, 1⟩, ⟨.pos, 2⟩]))) := by with_unfolding_all decide

/-- the instances of the history theorems for this history -/
example : (run exWorld exOps).1.cons = exPool :=
  history_state_invariant exWorld exOps (by
    intro op hop
    simp [exOps] at hop
    rcases hop with rfl | rfl | rfl | rfl <;> simp [exWorld, exPool])

/-- `unrelated_vars_irrelevant` is not a triviality: the compiled rows of a constant row DO depend on
    the dummy (the explicit zero entry moves), only their values do not -/
example : compileBlocks [.elem false [⟨[], -1⟩]] 5 = .ok ([⟨[(5, 0)], 1, false⟩], [⟨.pos, 1⟩]) := by with_unfolding_all decide
example : compileBlocks [.elem false [⟨[], -1⟩]] 9 = .ok ([⟨[(9, 0)], 1, false⟩], [⟨.pos, 1⟩]) := by with_unfolding_all decide

/-- `generation_rejected` is not vacuous -/
example : ∃ m, variableMap [0, 1] [⟨"x", [0], 0⟩, ⟨"y", [1], 1⟩] = .error m :=
  generation_rejected _ _ ⟨_, List.mem_cons_self, _, List.mem_cons_of_mem _ List.mem_cons_self, by decide⟩

end Sageopt.Props.C11
