/-
C11 — compiling and solving never change what a model means.
Property theorems about `Model/Recompile.lean`.
-/
import SageoptModel.Model.Recompile

namespace Sageopt.Props.C11
open Sageopt Sageopt.Compile

/-- a compilation is the one-shot compiler of C07 applied to the objects' current state … -/
theorem compileStep_output (cons : List Con) (dummy : Nat) :
    (compileStep cons dummy).map (fun r => (r.1, r.2.1)) = compileBlocks cons dummy := by
  unfold compileStep
  cases h : compileBlocks cons dummy with
  | error m => simp [bind, Except.bind, Except.map, h]
  | ok p => obtain ⟨rows, K⟩ := p; simp [bind, Except.bind, Except.map, pure, Except.pure, h]

/-- … and leaves that state exactly as it was -/
theorem compileStep_state (cons : List Con) (dummy : Nat) (rows : List CRow) (K : List Cone) (post : List Con)
    (h : compileStep cons dummy = .ok (rows, K, post)) : post = cons := by
  unfold compileStep at h
  cases hb : compileBlocks cons dummy with
  | error m => simp [bind, Except.bind, hb] at h
  | ok p =>
    obtain ⟨r, k⟩ := p
    simp [bind, Except.bind, pure, Except.pure, hb] at h
    exact h.2.2.symm

/-- RECOMPILE: compiling the same objects a second time gives the same blocks -/
theorem recompile_same (cons : List Con) (dummy : Nat) (rows : List CRow) (K : List Cone) (post : List Con)
    (h : compileStep cons dummy = .ok (rows, K, post)) : compileStep post dummy = .ok (rows, K, post) := by
  have := compileStep_state cons dummy rows K post h
  subst this; exact h

end Sageopt.Props.C11
