/-
C11 — compiling and solving never change what a model means.
Property theorems about `Model/Recompile.lean`.
-/
import SageoptModel.Model.Recompile

namespace Sageopt.Props.C11
open Sageopt Sageopt.Compile

/-- a compilation that involves no elementwise constraint collects no atoms -/
theorem collectAtomsMem_nil : collectAtomsMem [] = [] := rfl

end Sageopt.Props.C11
