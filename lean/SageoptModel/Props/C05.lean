/-
C05 — polynomial relaxations bound the minimum over all sign orthants.
Property theorems about `Model/Poly.lean`.
-/
import SageoptModel.Model.Poly
import SageoptModel.Lemmas.PolySem
import SageoptModel.Lemmas.PolyAMono
import SageoptModel.Lemmas.PolyARep
import SageoptModel.Lemmas.PolyAChar
import SageoptModel.Lemmas.PolyACont
import Mathlib.Analysis.SpecialFunctions.Log.Basic

namespace Sageopt.Props.C05
open Sageopt Sageopt.Sig Sageopt.Relax Sageopt.Poly Sageopt.Sage

/-- the signomial representative keeps the exponent rows of the polynomial, in order -/
theorem sigRep_keys (p : SigL) (chat : List Nat) : keys (sigRep p chat).1.terms = keys p.terms := by
  unfold sigRep
  suffices h : ∀ (ts : List (Exp × Lin)) (ids : List Nat), keys (sigRepTerms ts ids).1 = keys ts by
    simpa using h p.terms chat
  intro ts
  induction ts with
  | nil => intro ids; simp [sigRepTerms, keys]
  | cons t ts ih =>
    intro ids
    obtain ⟨a, c⟩ := t
    unfold sigRepTerms
    split
    · simp [keys] at ih ⊢; exact ih ids
    · split
      · simp [keys] at ih ⊢; exact ih ids
      · cases ids with
        | nil => simp [keys] at ih ⊢; exact ih []
        | cons id rest => simp [keys] at ih ⊢; exact ih rest

/-- a monomial at a point without zero coordinates: `|x^a| = e^{a·log|x|}`, and `x^a = e^{a·log|x|}` when the row is even -/
theorem mono_abs_exp (a : Exp) (x : List ℝ) (hx : NoZero x) (hl : a.length = x.length) (ha : isPolyExp a = true) :
    |monoR a x| = Real.exp (rdot a (logAbs x)) ∧ (isEvenExp a = true → monoR a x = Real.exp (rdot a (logAbs x))) :=
  ⟨pa_mono_abs a x hx hl ha, pa_mono_even a x hx hl ha⟩

/-- numeric signomial representative: `p(x) ≥ sr(log|x|)` at every point with no zero coordinate, in every orthant -/
theorem sigRepQ_minorant (f : SigQ) (hf : PolyWfQ f) (x : List ℝ) (hx : NoZero x) (hl : x.length = f.n) :
    sigR (sigRepQ f).terms (logAbs x) ≤ polyR f.terms x :=
  pa_sigRepQ_terms f.terms x hx (fun t ht => ⟨by rw [(hf t ht).1, hl], (hf t ht).2⟩)

/-- variable coefficients: for EVERY assignment satisfying the side constraints `ĉ ≤ c`, `ĉ ≤ −c` -/
theorem sigRep_minorant (p : SigL) (hp : PolyWf p) (chat : List Nat) (hc : (needVars p).length ≤ chat.length)
    (σ : Nat → Rat) (hside : SideOk σ (sigRep p chat).2) (x : List ℝ) (hx : NoZero x) (hl : x.length = p.n) :
    sigR (evalL σ (sigRep p chat).1.terms) (logAbs x) ≤ polyR (evalL σ p.terms) x := by
  rw [pa_sigRep_eq] at hside ⊢
  rw [pa_needVars_length] at hc
  exact pa_sigRepTerms_minorant p.terms chat hc σ hside x hx
    (fun t ht => ⟨by rw [(hp t ht).1, hl], (hp t ht).2.1⟩)

/-- with too few fresh ids the statement fails (the model poisons the coefficient; the code always allocates enough) -/
theorem sigRep_minorant_needs_ids :
    ∃ (p : SigL) (σ : Nat → Rat) (x : List ℝ), PolyWf p ∧ SideOk σ (sigRep p []).2 ∧ NoZero x ∧ x.length = p.n ∧
      ¬ sigR (evalL σ (sigRep p []).1.terms) (logAbs x) ≤ polyR (evalL σ p.terms) x := by
  refine ⟨⟨1, [([1], Lin.var 0)]⟩, fun _ => 1, [-1], ?_, ?_, ?_, rfl, ?_⟩
  · intro t ht
    simp only [List.mem_singleton] at ht
    subst ht
    exact ⟨rfl, by with_unfolding_all decide, rfl⟩
  · have he : isEvenExp [1] = false := by with_unfolding_all decide
    rw [pa_sigRep_eq, pa_sigRepTerms_poison [1] (Lin.var 0) [] he rfl, pa_sigRepTerms_nil]
    intro s hs
    simp at hs
  · intro t ht
    simp only [List.mem_singleton] at ht
    subst ht
    norm_num
  · have he : isEvenExp [1] = false := by with_unfolding_all decide
    have h1 : ((1 : Rat)).num.toNat = 1 := by with_unfolding_all decide
    have hv : Lin.value (fun _ => (1 : Rat)) (Lin.var 0) = 1 := pa_value_var _ 0
    have hv' : Lin.value (fun _ => (1 : Rat)) { Lin.var 0 with bad := true } = 1 := by
      simp [Lin.value, Lin.var]
    rw [pa_sigRep_eq, pa_sigRepTerms_poison [1] (Lin.var 0) [] he rfl, pa_sigRepTerms_nil]
    simp only [evalL, List.map_cons, List.map_nil, hv, hv', sigR, polyR, monoR, rdot, logAbs,
      List.zipWith_cons_cons, List.zipWith_nil_right, List.sum_cons, List.sum_nil, List.prod_cons,
      List.prod_nil, h1]
    norm_num

/-- the side constraints are exactly one pair per row in `needVars`, in order, on the supplied ids -/
theorem sigRep_side (p : SigL) (chat : List Nat) (hc : (needVars p).length ≤ chat.length) :
    (sigRep p chat).2.map (·.chat) = chat.take (needVars p).length ∧
    (sigRep p chat).2.map (·.c) = (needVars p).map fun i => (p.terms.getD i ([], Lin.const 0)).2 := by
  rw [pa_needVars_length] at hc ⊢
  rw [pa_sigRep_eq, pa_needVars_map]
  exact pa_sigRepTerms_side p.terms chat hc

/-- `create_covers`: a cover never contains its own index nor a row with an odd exponent; an index has no AGE cone
    exactly when its coefficient is a nonnegative constant on an even row -/
theorem createCovers_spec (sr : SigL) :
    (∀ pr ∈ createCovers sr, pr.2.length = sr.terms.length ∧ pr.2.getD pr.1 false = false ∧
        ∀ j, pr.2.getD j false = true → isEvenExp ((sr.terms.getD j ([], Lin.const 0)).1) = true) ∧
    (∀ i, i < sr.terms.length →
        (i ∉ (createCovers sr).map (·.1) ↔
          ((sr.terms.getD i ([], Lin.const 0)).2.isConstant = true ∧ 0 ≤ (sr.terms.getD i ([], Lin.const 0)).2.off ∧
            isEvenExp ((sr.terms.getD i ([], Lin.const 0)).1) = true))) := by
  constructor
  · intro pr hpr
    obtain ⟨q, _, _, rfl⟩ := (pa_mem_createCovers sr pr).1 hpr
    refine ⟨by simp [pa_coverRow], ?_, ?_⟩
    · rw [pa_coverRow_getD]; simp
    · intro j hj
      rw [pa_coverRow_getD] at hj
      simp only [Bool.and_eq_true] at hj
      exact hj.2.2
  · intro i hi
    have hskip : pa_skip (sr.terms.getD i ([], Lin.const 0)) = true ↔
        ((sr.terms.getD i ([], Lin.const 0)).2.isConstant = true ∧ 0 ≤ (sr.terms.getD i ([], Lin.const 0)).2.off ∧
          isEvenExp ((sr.terms.getD i ([], Lin.const 0)).1) = true) := by
      simp [pa_skip, and_assoc]
    rw [← hskip]
    have hget : sr.terms[i]? = some (sr.terms.getD i ([], Lin.const 0)) := by
      rw [List.getD_eq_getElem?_getD, List.getElem?_eq_getElem hi]; rfl
    constructor
    · intro hnot
      by_contra hs
      apply hnot
      refine List.mem_map.2 ⟨(i, pa_coverRow sr i), ?_, rfl⟩
      exact (pa_mem_createCovers sr _).2 ⟨(sr.terms.getD i ([], Lin.const 0), i),
        List.mem_zipIdx_iff_getElem?.2 hget, by simpa using hs, rfl⟩
    · intro hs hmem
      obtain ⟨pr, hpr, rfl⟩ := List.mem_map.1 hmem
      obtain ⟨q, hq, hqs, rfl⟩ := (pa_mem_createCovers sr pr).1 hpr
      have := pa_zipIdx_getD sr.terms ([], Lin.const 0) q hq
      simp only at hs
      rw [this, hqs] at hs
      exact absurd hs (by simp)

set_option linter.unusedVariables false in
/-- even-exponent modulators are nonnegative everywhere -/
theorem stdMultiplier_nonneg (f : SigQ) (hf : PolyWfQ f) (ell : Nat) (x : List ℝ) (hl : x.length = f.n) :
    0 ≤ polyR (powNat isZeroQ (stdMultiplier f) ell).terms x := by
  rw [pa_polyR_powNat x f.n (pa_std_polyWf f hf) ell, pa_std_polyR f hf x]
  exact pow_nonneg (pa_evens_nonneg f hf x) ell

set_option linter.unusedVariables false in
/-- and positive away from the coordinate hyperplanes as soon as `f` has one even row
    (without an even row the modulator is the zero polynomial: `stdMultiplier_zero`) -/
theorem stdMultiplier_pos (f : SigQ) (hf : PolyWfQ f) (hnd : (keys f.terms).Nodup) (hev : ∃ t ∈ f.terms, isEvenExp t.1 = true) (ell : Nat)
    (x : List ℝ) (hx : NoZero x) (hl : x.length = f.n) :
    0 < polyR (powNat isZeroQ (stdMultiplier f) ell).terms x := by
  rw [pa_polyR_powNat x f.n (pa_std_polyWf f hf) ell, pa_std_polyR f hf x]
  exact pow_pos (pa_evens_pos f hf hev x hx hl) ell

theorem stdMultiplier_zero (f : SigQ) (hev : ∀ t ∈ f.terms, isEvenExp t.1 = false) (x : List ℝ) :
    polyR (stdMultiplier f).terms x = 0 := by
  have h : (f.terms.filter fun t => isEvenExp t.1) = [] := by
    rw [List.filter_eq_nil_iff]
    intro t ht
    simp [hev t ht]
  have h2 : (stdMultiplier f).terms = [] := by
    unfold stdMultiplier
    rw [h]
    rfl
  rw [h2]
  exact pa_polyR_nil x

/-- the dual construction accepts the SIGNED moment vectors of every real point: with `v_j = t·x^{a_j}` and
    `aux_j = t·e^{a_j·log|x|}` one has `aux_j = v_j` on even rows and `|v_j| ≤ aux_j` on the others -/
theorem dual_signed_moments (alpha : List Exp) (x : List ℝ) (hx : NoZero x) (hw : ∀ a ∈ alpha, a.length = x.length ∧ isPolyExp a = true)
    (t : ℝ) (ht : 0 ≤ t) :
    ∀ a ∈ alpha,
      (isEvenExp a = true → t * Real.exp (rdot a (logAbs x)) = t * monoR a x) ∧
      (-(t * Real.exp (rdot a (logAbs x))) ≤ t * monoR a x ∧ t * monoR a x ≤ t * Real.exp (rdot a (logAbs x))) := by
  intro a ha
  obtain ⟨hal, hap⟩ := hw a ha
  have habs := pa_mono_abs a x hx hal hap
  refine ⟨fun he => by rw [pa_mono_even a x hx hal hap he], ?_, ?_⟩
  · rw [← habs, ← mul_neg]
    exact mul_le_mul_of_nonneg_left (neg_abs_le _) ht
  · rw [← habs]
    exact mul_le_mul_of_nonneg_left (le_abs_self _) ht

set_option linter.unusedVariables false in
/-- a bound valid at all points without zero coordinates is valid everywhere (polynomials are continuous and those
    points are dense): this is how the relaxations, which work in `log|x|`, bound `p` at points with zero coordinates -/
theorem bound_extends_to_zero_coords (ts : List (Exp × Rat)) (n : Nat) (hw : ∀ t ∈ ts, t.1.length = n) (v : ℝ)
    (h : ∀ x : List ℝ, x.length = n → NoZero x → v ≤ polyR ts x) :
    ∀ x : List ℝ, x.length = n → v ≤ polyR ts x := by
  intro x hx
  exact pa_extend ts v x (fun ε hε => h _ (by rw [pa_shift_length, hx]) hε)

/-! ### non-vacuity: every theorem above with hypotheses, instantiated on a concrete instance
(concrete values of the executable model are checked by `decide`; core `Rat` operations are irreducible,
hence `with_unfolding_all`) -/
section NonVacuity

/-- the polynomial `x₁² − 3·x₁x₂ + x₂² + 2·x₁` -/
private def fEx : SigQ := ⟨2, [([2, 0], 1), ([1, 1], -3), ([0, 2], 1), ([1, 0], 2)]⟩
/-- `x² + c·x³ + (1 − c)·x + 4·x⁵` with the scalar variable `c` (id 0) -/
private def pEx : SigL :=
  ⟨1, [([2], Lin.const 1), ([3], Lin.var 0), ([1], Lin.add (Lin.const 1) (Lin.scale (-1) (Lin.var 0))), ([5], Lin.const 4)]⟩
/-- `c = 3`, `ĉ₇ = −3`, `ĉ₈ = −2` -/
private def σEx : Nat → Rat := fun i => if i = 0 then 3 else if i = 7 then -3 else -2

private theorem fEx_wf : PolyWfQ fEx := by
  show ∀ t ∈ fEx.terms, t.1.length = fEx.n ∧ isPolyExp t.1 = true
  with_unfolding_all decide

private theorem pEx_wf : PolyWf pEx := by
  show ∀ t ∈ pEx.terms, t.1.length = pEx.n ∧ isPolyExp t.1 = true ∧ t.2.bad = false
  with_unfolding_all decide

private theorem noZeroEx : NoZero [(-1 : ℝ), 2] := by
  intro t ht
  simp only [List.mem_cons, List.not_mem_nil, or_false] at ht
  rcases ht with rfl | rfl <;> norm_num

private theorem noZeroEx1 : NoZero [(-2 : ℝ)] := by
  intro t ht
  simp only [List.mem_singleton] at ht
  subst ht
  norm_num

private theorem needEx : needVars pEx = [1, 2] := by with_unfolding_all decide

private theorem sideEx : SideOk σEx (sigRep pEx [7, 8]).2 := by
  have h : (sigRep pEx [7, 8]).2 =
      [⟨7, Lin.var 0⟩, ⟨8, Lin.add (Lin.const 1) (Lin.scale (-1) (Lin.var 0))⟩] := by
    with_unfolding_all rfl
  rw [h]
  intro s hs
  simp only [List.mem_cons, List.not_mem_nil, or_false] at hs
  rcases hs with rfl | rfl <;> with_unfolding_all decide

example : |monoR [3, 2] [-1, 2]| = Real.exp (rdot [3, 2] (logAbs [-1, 2])) :=
  (mono_abs_exp [3, 2] [-1, 2] noZeroEx rfl (by with_unfolding_all decide)).1

example : monoR [4, 2] [-1, 2] = Real.exp (rdot [4, 2] (logAbs [-1, 2])) :=
  (mono_abs_exp [4, 2] [-1, 2] noZeroEx rfl (by with_unfolding_all decide)).2 (by with_unfolding_all decide)

example : (sigRepQ fEx).terms = [([2, 0], 1), ([1, 1], -3), ([0, 2], 1), ([1, 0], -2)] := by
  with_unfolding_all decide

example : sigR (sigRepQ fEx).terms (logAbs [-1, 2]) ≤ polyR fEx.terms [-1, 2] :=
  sigRepQ_minorant fEx fEx_wf [-1, 2] noZeroEx rfl

example : sigR (evalL σEx (sigRep pEx [7, 8]).1.terms) (logAbs [-2]) ≤ polyR (evalL σEx pEx.terms) [-2] :=
  sigRep_minorant pEx pEx_wf [7, 8] (by rw [needEx]; decide) σEx sideEx [-2] noZeroEx1 rfl

example : (sigRep pEx [7, 8]).2.map (·.chat) = [7, 8] := by
  have h := (sigRep_side pEx [7, 8] (by rw [needEx]; decide)).1
  rw [needEx] at h
  exact h

example : (createCovers (sigRep pEx [7, 8]).1).map (·.1) = [1, 2, 3] ∧
    (createCovers (sigRep pEx [7, 8]).1).map (·.2) = [[true, false, false, false], [true, false, false, false], [true, false, false, false]] := by
  with_unfolding_all decide

example : (stdMultiplier fEx).terms = [([2, 0], 1), ([0, 2], 1)] := by with_unfolding_all decide

example : (powNat isZeroQ (stdMultiplier fEx) 2).terms = [([0, 4], 1), ([2, 2], 2), ([4, 0], 1)] := by
  with_unfolding_all decide

example : 0 ≤ polyR (powNat isZeroQ (stdMultiplier fEx) 2).terms [0, -1] :=
  stdMultiplier_nonneg fEx fEx_wf 2 [0, -1] rfl

example : 0 < polyR (powNat isZeroQ (stdMultiplier fEx) 2).terms [-1, 2] :=
  stdMultiplier_pos fEx fEx_wf (by with_unfolding_all decide)
    ⟨([2, 0], 1), by simp [fEx], by with_unfolding_all decide⟩ 2 [-1, 2] noZeroEx rfl

example (x : List ℝ) : polyR (stdMultiplier ⟨2, [([1, 0], 2), ([1, 1], -1)]⟩).terms x = 0 :=
  stdMultiplier_zero _ (by with_unfolding_all decide) x

example : ∀ a ∈ [[2, 0], [1, 1]],
    (isEvenExp a = true → 3 * Real.exp (rdot a (logAbs [-1, 2])) = 3 * monoR a [-1, 2]) ∧
    (-(3 * Real.exp (rdot a (logAbs [-1, 2]))) ≤ 3 * monoR a [-1, 2] ∧
      3 * monoR a [-1, 2] ≤ 3 * Real.exp (rdot a (logAbs [-1, 2]))) :=
  dual_signed_moments [[2, 0], [1, 1]] [-1, 2] noZeroEx (by with_unfolding_all decide) 3 (by norm_num)

/-- `x² − 2·x + 1 ≥ 0` away from `x = 0`, hence everywhere -/
example : ∀ x : List ℝ, x.length = 1 → (0 : ℝ) ≤ polyR [([2], 1), ([1], -2), ([0], 1)] x := by
  apply bound_extends_to_zero_coords _ 1 (by decide)
  intro x hx _
  match x, hx with
  | [t], _ =>
    have h2 : ((2 : Rat)).num.toNat = 2 := by with_unfolding_all decide
    have h1 : ((1 : Rat)).num.toNat = 1 := by with_unfolding_all decide
    have h0 : ((0 : Rat)).num.toNat = 0 := by with_unfolding_all decide
    simp only [polyR, monoR, List.map_cons, List.map_nil, List.zipWith_cons_cons, List.zipWith_nil_right,
      List.sum_cons, List.sum_nil, List.prod_cons, List.prod_nil, h2, h1, h0]
    push_cast
    nlinarith [sq_nonneg (t - 1)]

end NonVacuity

end Sageopt.Props.C05
