/-
C05 — polynomial relaxations bound the minimum over all sign orthants.
Property theorems about `Model/Poly.lean`.
-/
import SageoptModel.Model.Poly

namespace Sageopt.Props.C05
open Sageopt Sageopt.Sig Sageopt.Relax Sageopt.Poly

/-- the signomial representative keeps the exponent rows of the polynomial, in order -/
theorem sigRep_keys (p : SigL) (chat : List Nat) : keys (sigRep p chat).1.terms = keys p.terms := by
  unfold sigRep
  suffices h : ∀ (ts : List (Exp × Lin)) (ids : List Nat), keys (sigRepTerms ts ids).1 = keys ts by
    simpa using h p.terms chat
  intro ts
  induction ts with
  | nil => intro ids; simp [sigRepTerms, keys]
  | cons t ts ih =>
    intro ids
    obtain ⟨a, c⟩ := t
    unfold sigRepTerms
    split
    · simp [keys] at ih ⊢; exact ih ids
    · split
      · simp [keys] at ih ⊢; exact ih ids
      · cases ids with
        | nil => simp [keys] at ih ⊢; exact ih []
        | cons id rest => simp [keys] at ih ⊢; exact ih rest

end Sageopt.Props.C05
