/-
C01 — a satisfied primal SAGE constraint certifies nonnegativity on X.
Property theorems about `Model/Sage.lean` (analysis lemmas: `Lemmas/ExpCone.lean`).
-/
import SageoptModel.Model.Sage
import SageoptModel.Lemmas.ExpCone

namespace Sageopt.Props.C01
open Sageopt Sageopt.Sage Sageopt.Analysis

/-- the core of the certificate: an exponential-cone row `(-epi, e·c, ν) ∈ K_exp` of `sum_relent` gives
    the linear minorant `ν·t − epi ≤ c·eᵗ` for every real `t` -/
theorem expcone_row_minorant (epi c ν t : ℝ) (h : InExpCone (-epi) (Real.exp 1 * c) ν) :
    ν * t - epi ≤ c * Real.exp t := expcone_row epi c ν t h

end Sageopt.Props.C01
