/-
C01 — a satisfied primal SAGE constraint certifies nonnegativity on X.
Property theorems about `Model/Sage.lean` (analysis lemmas: `Lemmas/ExpCone.lean`; list-level and
block-level lemmas: `Lemmas/SagePrimal*.lean`).
-/
import SageoptModel.Model.Sage
import SageoptModel.Lemmas.ExpCone
import SageoptModel.Lemmas.SagePrimalMain
import SageoptModel.Lemmas.SagePrimalCover
import SageoptModel.Lemmas.SagePrimalCounterex
import Mathlib.Analysis.Complex.ExponentialBounds
import Mathlib.Tactic.NormNum

namespace Sageopt.Props.C01
open Sageopt Sageopt.Sage Sageopt.Compile Sageopt.Solvers Sageopt.Analysis

/-- the core of the certificate: an exponential-cone row `(-epi, e·c, ν) ∈ K_exp` of `sum_relent` gives
    the linear minorant `ν·t − epi ≤ c·eᵗ` for every real `t` -/
theorem expcone_row_minorant (epi c ν t : ℝ) (h : InExpCone (-epi) (Real.exp 1 * c) ν) :
    ν * t - epi ≤ c * Real.exp t := expcone_row epi c ν t h

/-- semantics of the rows `sum_relent(x, y, z, epi, y_scale = e)` emits:
    `0 ≤ −z − Σ epi_k` and `(−epi_k, e·y_k, x_k) ∈ K_exp` for every k
    (the two length hypotheses of the target statement are not needed) -/
theorem sumRelent_iff (Q : CType → List ℝ → Prop) (σ : Nat → ℝ) (x y : List AffE) (z : AffE) (epi : List Nat)
    (_hy : y.length = x.length) (_he : epi.length = x.length) :
    FeasBlocks (conP Q) (sumRelent x y z epi).2 ((sumRelent x y z epi).1.map (crowVal σ)) ↔
      (0 ≤ -(argVal σ z) - (epi.map σ).sum) ∧
      ∀ k, k < x.length →
        InExpCone (-(σ (epi.getD k 0))) (Real.exp 1 * argVal σ (y.getD k (constE 0))) (argVal σ (x.getD k (constE 0))) :=
  sp_sumRelent_iff Q σ x y z epi

/-- kernel-basis witnesses are sound as soon as the basis lies in the kernel of the balance matrix
    (a fact about the numerical SVD, audited per instance) -/
def KernelOk (inp : PrimalIn) : Prop :=
  inp.settings.kernelBasis = true → ∀ p ∈ inp.ids, p.basis ≠ [] →
    ∀ t, t < inp.n → ∀ l, l < p.nu.length →
      ((trueIdx (coverOf inp.ech p.i)).zipIdx.map fun (j, k) =>
        ((inp.alpha.getD j []).getD t 0 - (inp.alpha.getD p.i []).getD t 0) * ((p.basis.getD k []).getD l 0)).sum = 0

/-- THE PROPERTY.  For every exponent matrix, every coefficient vector (constants and affine
    expressions), every domain X given in conic form over {+,0,S,e} (possibly with lifted coordinates), every
    cover family with `i ∉ cover i` (user supplied, default, or presolved with any answers of the optimisation
    presolve), every combination of the settings, and every assignment σ satisfying the compiled rows:
    (i) the AGE vectors sum to at most c (exactly c, at every index some AGE vector reaches — `reachedB`: the
        indices of U_I and the members of the covers — under `sum_age_force_equality`; the other indices keep
        their inequality row, and equality there is false for the model: `sp_ce4`, example below),
    (ii) every entry of an AGE vector other than its own index is nonnegative,
    (iii) every AGE vector defines a signomial that is nonnegative at every point of X,
    (iv) hence the signomial with coefficients c(σ) is nonnegative on all of X.

    Two hypotheses are added to the target statement; both are facts about how the constructor creates the
    auxiliary Variables that `WfPrimal` does not record, and without either the statement is false for the
    model (counterexamples: `Lemmas/SagePrimalCounterex.lean`):
    * `hcov0`: an index has no `nu` Variable only if its cover is empty (`num_cover = 0`);
    * `hbasis`: under `kernel_basis`, a kernel basis is present exactly for ordinary (X = ℝⁿ) cones. -/
theorem primal_sound (Q : CType → List ℝ → Prop) (inp : PrimalIn) (hwf : WfPrimal inp) (hker : KernelOk inp)
    (hcov0 : ∀ p ∈ inp.ids, p.nu = [] → trueIdx (coverOf inp.ech p.i) = [])
    (hbasis : inp.settings.kernelBasis = true → ∀ p ∈ inp.ids, p.nu ≠ [] → (p.basis ≠ [] ↔ inp.X = none))
    (rows : List CRow) (K : List Cone) (h : primalRows inp = .ok (rows, K))
    (σ : Nat → ℝ) (hσ : FeasRows Q σ rows K) :
    let m := inp.alpha.length
    ((inp.ids.filter fun p => !p.nu.isEmpty) ≠ [] →
      (∀ j, j < m → (inp.ids.map fun p => ageVal σ m inp.c inp.ech p j).sum ≤ cVal σ inp.c j) ∧
      (inp.settings.sumAgeForceEquality = true →
        ∀ j, j < m → reachedB inp.ech j = true →
          (inp.ids.map fun p => ageVal σ m inp.c inp.ech p j).sum = cVal σ inp.c j) ∧
      (∀ p ∈ inp.ids, ∀ j, j < m → j ≠ p.i → 0 ≤ ageVal σ m inp.c inp.ech p j) ∧
      (∀ p ∈ inp.ids, ∀ x, InDom Q inp.X inp.n x →
        0 ≤ sigVal inp.alpha ((List.range m).map fun j => ageVal σ m inp.c inp.ech p j) x)) ∧
    (∀ x, InDom Q inp.X inp.n x → 0 ≤ sigVal inp.alpha ((List.range m).map fun j => cVal σ inp.c j) x) :=
  sp_primal_sound Q inp hwf hker hcov0 hbasis rows K h σ hσ

/-- the same statement under the `_partial` naming convention (extra hypotheses `hcov0`, `hbasis`) -/
theorem primal_sound_partial (Q : CType → List ℝ → Prop) (inp : PrimalIn) (hwf : WfPrimal inp) (hker : KernelOk inp)
    (hcov0 : ∀ p ∈ inp.ids, p.nu = [] → trueIdx (coverOf inp.ech p.i) = [])
    (hbasis : inp.settings.kernelBasis = true → ∀ p ∈ inp.ids, p.nu ≠ [] → (p.basis ≠ [] ↔ inp.X = none))
    (rows : List CRow) (K : List Cone) (h : primalRows inp = .ok (rows, K))
    (σ : Nat → ℝ) (hσ : FeasRows Q σ rows K) :
    let m := inp.alpha.length
    ((inp.ids.filter fun p => !p.nu.isEmpty) ≠ [] →
      (∀ j, j < m → (inp.ids.map fun p => ageVal σ m inp.c inp.ech p j).sum ≤ cVal σ inp.c j) ∧
      (inp.settings.sumAgeForceEquality = true →
        ∀ j, j < m → reachedB inp.ech j = true →
          (inp.ids.map fun p => ageVal σ m inp.c inp.ech p j).sum = cVal σ inp.c j) ∧
      (∀ p ∈ inp.ids, ∀ j, j < m → j ≠ p.i → 0 ≤ ageVal σ m inp.c inp.ech p j) ∧
      (∀ p ∈ inp.ids, ∀ x, InDom Q inp.X inp.n x →
        0 ≤ sigVal inp.alpha ((List.range m).map fun j => ageVal σ m inp.c inp.ech p j) x)) ∧
    (∀ x, InDom Q inp.X inp.n x → 0 ≤ sigVal inp.alpha ((List.range m).map fun j => cVal σ inp.c j) x) :=
  primal_sound Q inp hwf hker hcov0 hbasis rows K h σ hσ

/-- the target statement of `primal_sound` (hypotheses `WfPrimal`, `KernelOk` only) is false for the model:
    each of the two added hypotheses is needed (`sp_ce1`, `sp_ce3`: `hbasis`; `sp_ce2`: `hcov0`, with `hbasis` true) -/
example : ¬ ∀ (Q : CType → List ℝ → Prop) (inp : PrimalIn) (_ : WfPrimal inp) (_ : KernelOk inp)
    (rows : List CRow) (K : List Cone) (_ : primalRows inp = .ok (rows, K))
    (σ : Nat → ℝ) (_ : FeasRows Q σ rows K), sp_Concl Q inp σ :=
  fun H => sp_ce1_not_sound (fun _ _ => True)
    (H _ sp_ce1 sp_ce1_wf sp_ce1_kernelOk _ _ sp_ce1_rows sp_ce1σ (sp_ce1_feas _))

example : ¬ ∀ (Q : CType → List ℝ → Prop) (inp : PrimalIn) (_ : WfPrimal inp) (_ : KernelOk inp)
    (_ : inp.settings.kernelBasis = true → ∀ p ∈ inp.ids, p.nu ≠ [] → (p.basis ≠ [] ↔ inp.X = none))
    (rows : List CRow) (K : List Cone) (_ : primalRows inp = .ok (rows, K))
    (σ : Nat → ℝ) (_ : FeasRows Q σ rows K), sp_Concl Q inp σ :=
  fun H => sp_ce2_not_sound (fun _ _ => True)
    (H _ sp_ce2 sp_ce2_wf sp_ce2_kernelOk sp_ce2_basisOk _ _ sp_ce2_rows sp_ce2σ (sp_ce2_feas _))

example : ¬ ∀ (Q : CType → List ℝ → Prop) (inp : PrimalIn) (_ : WfPrimal inp) (_ : KernelOk inp)
    (_ : ∀ p ∈ inp.ids, p.nu = [] → trueIdx (coverOf inp.ech p.i) = [])
    (rows : List CRow) (K : List Cone) (_ : primalRows inp = .ok (rows, K))
    (σ : Nat → ℝ) (_ : FeasRows Q σ rows K), sp_Concl Q inp σ :=
  fun H => sp_ce3_not_sound (fun _ _ => True)
    (H _ sp_ce3 sp_ce3_wf sp_ce3_kernelOk sp_ce3_cov0 _ _ sp_ce3_rows sp_ce3σ (sp_ce3_feas _))

/-- part (i) cannot ask for equality at EVERY index under `sum_age_force_equality` (`sp_ConclEqAll`): with all
    the hypotheses of `primal_sound` in force, `sp_ce4` has an index no AGE vector reaches, whose row stays an
    inequality (`0 ≤ 5`) -/
example : ¬ ∀ (Q : CType → List ℝ → Prop) (inp : PrimalIn) (_ : WfPrimal inp) (_ : KernelOk inp)
    (_ : ∀ p ∈ inp.ids, p.nu = [] → trueIdx (coverOf inp.ech p.i) = [])
    (_ : inp.settings.kernelBasis = true → ∀ p ∈ inp.ids, p.nu ≠ [] → (p.basis ≠ [] ↔ inp.X = none))
    (rows : List CRow) (K : List Cone) (_ : primalRows inp = .ok (rows, K))
    (σ : Nat → ℝ) (_ : FeasRows Q σ rows K), sp_ConclEqAll Q inp σ :=
  fun H => sp_ce4_not_eqAll (fun _ _ => True)
    (H _ sp_ce4 sp_ce4_wf sp_ce4_kernelOk sp_ce4_cov0 sp_ce4_basisOk _ _ sp_ce4_rows sp_ce4σ (sp_ce4_feas _))

/-- the ordinary case without kernel basis needs only `hcov0` -/
theorem primal_sound_ord_partial (Q : CType → List ℝ → Prop) (inp : PrimalIn) (hwf : WfPrimal inp)
    (hord : inp.X = none ∧ inp.settings.kernelBasis = false)
    (hcov0 : ∀ p ∈ inp.ids, p.nu = [] → trueIdx (coverOf inp.ech p.i) = [])
    (rows : List CRow) (K : List Cone) (h : primalRows inp = .ok (rows, K))
    (σ : Nat → ℝ) (hσ : FeasRows Q σ rows K) :
    let m := inp.alpha.length
    ((inp.ids.filter fun p => !p.nu.isEmpty) ≠ [] →
      (∀ j, j < m → (inp.ids.map fun p => ageVal σ m inp.c inp.ech p j).sum ≤ cVal σ inp.c j) ∧
      (inp.settings.sumAgeForceEquality = true →
        ∀ j, j < m → reachedB inp.ech j = true →
          (inp.ids.map fun p => ageVal σ m inp.c inp.ech p j).sum = cVal σ inp.c j) ∧
      (∀ p ∈ inp.ids, ∀ j, j < m → j ≠ p.i → 0 ≤ ageVal σ m inp.c inp.ech p j) ∧
      (∀ p ∈ inp.ids, ∀ x, InDom Q inp.X inp.n x →
        0 ≤ sigVal inp.alpha ((List.range m).map fun j => ageVal σ m inp.c inp.ech p j) x)) ∧
    (∀ x, InDom Q inp.X inp.n x → 0 ≤ sigVal inp.alpha ((List.range m).map fun j => cVal σ inp.c j) x) :=
  primal_sound Q inp hwf (fun hk => by rw [hord.2] at hk; cases hk) hcov0
    (fun hk => by rw [hord.2] at hk; cases hk) rows K h σ hσ

/-- indices that get no AGE cone have nonnegative constant coefficients (what makes (iv) follow from (i)–(iii)):
    every index outside U_I is a nonnegative constant.
    Added hypothesis `hja : j < alpha.length` (U_I only ranges over the rows of `alpha`; for
    `alpha = []`, `c = [x₀]` the target statement fails at `j = 0`). -/
theorem outside_U_nonneg (alpha : List (List Rat)) (c : List AffE) (hasX : Bool) (s : Settings) (answers : List Bool)
    (j : Nat) (hj : j < c.length) (hja : j < alpha.length)
    (hnot : j ∉ (defaultEch alpha (some (c.map classify)) hasX s answers).U) :
    (c.getD j (constE 0)).co = [] ∧ 0 ≤ (c.getD j (constE 0)).off :=
  sp_outside_U_nonneg alpha c hasX s answers j hj hja hnot

theorem outside_U_nonneg_partial (alpha : List (List Rat)) (c : List AffE) (hasX : Bool) (s : Settings)
    (answers : List Bool) (j : Nat) (hj : j < c.length) (hja : j < alpha.length)
    (hnot : j ∉ (defaultEch alpha (some (c.map classify)) hasX s answers).U) :
    (c.getD j (constE 0)).co = [] ∧ 0 ≤ (c.getD j (constE 0)).off :=
  outside_U_nonneg alpha c hasX s answers j hj hja hnot

/-- the target statement of `outside_U_nonneg` (without `j < alpha.length`) is false -/
example : ¬ ∀ (alpha : List (List Rat)) (c : List AffE) (hasX : Bool) (s : Settings) (answers : List Bool)
    (j : Nat) (_ : j < c.length) (_ : j ∉ (defaultEch alpha (some (c.map classify)) hasX s answers).U),
    (c.getD j (constE 0)).co = [] ∧ 0 ≤ (c.getD j (constE 0)).off := by
  intro h
  have := (h [] [varE 0] false {} [] 0 (by decide) (by decide)).1
  revert this
  decide

/-- the default cover family never covers an index by itself and never uses a definitely-negative index,
    whatever the settings and the presolve answers: the sign / cover presolve only ever shrinks the cone -/
theorem default_covers_ok (alpha : List (List Rat)) (signs : Option (List CSign)) (hasX : Bool) (s : Settings)
    (answers : List Bool) :
    let e := defaultEch alpha signs hasX s answers
    ∀ p ∈ e.covers, p.1 ∈ e.U ∧ p.2.length = alpha.length ∧ p.1 ∉ trueIdx p.2 ∧ ∀ j ∈ trueIdx p.2, j ∉ e.N :=
  sp_default_covers_ok alpha signs hasX s answers

/-! ### non-vacuity (i): an ordinary instance, `1 − 2eˣ + e²ˣ` with the default covers -/

def exAlpha : List (List Rat) := [[0], [1], [2]]
def exC : List AffE := [constE 1, constE (-2), constE 1]
def exEch : Ech := defaultEch exAlpha (some (exC.map classify)) false {} []
def exP : PIds := { i := 1, nu := [10, 11], basis := [], cvar := [12, 13], epi := [14, 15], eta := [] }
def exInp : PrimalIn :=
  { n := 1, alpha := exAlpha, c := exC, X := none, settings := {}, ech := exEch, ids := [exP], dummy := 20 }

def exRows : List CRow :=
  [⟨[(14, -1), (15, -1)], -2, false⟩,
   ⟨[(14, -1)], 0, false⟩, ⟨[(12, 1)], 0, true⟩, ⟨[(10, 1)], 0, false⟩,
   ⟨[(15, -1)], 0, false⟩, ⟨[(13, 1)], 0, true⟩, ⟨[(11, 1)], 0, false⟩,
   ⟨[(10, -1), (11, 1)], 0, false⟩,
   ⟨[(12, -1)], 1, false⟩, ⟨[(20, 0)], 0, false⟩, ⟨[(13, -1)], 1, false⟩]
def exK : List Cone := [⟨.pos, 1⟩, ⟨.exp, 3⟩, ⟨.exp, 3⟩, ⟨.zero, 1⟩, ⟨.pos, 3⟩]

/-- U = N = [1], cover of 1 = [true, false, true] -/
theorem exEch_eq : exEch = { U := [1], N := [1], P := [0, 2], covers := [(1, [true, false, true])] } := by
  have h1 : exEch.U = [1] := by with_unfolding_all decide
  have h2 : exEch.N = [1] := by with_unfolding_all decide
  have h3 : exEch.P = [0, 2] := by with_unfolding_all decide
  have h4 : exEch.covers = [(1, [true, false, true])] := by with_unfolding_all decide
  calc exEch = ⟨exEch.U, exEch.N, exEch.P, exEch.covers⟩ := rfl
    _ = _ := by rw [h1, h2, h3, h4]

theorem exInp_rows : primalRows exInp = .ok (exRows, exK) := by with_unfolding_all decide

theorem exInp_wf : WfPrimal exInp where
  width := by with_unfolding_all decide
  clen := by with_unfolding_all decide
  idsU := by with_unfolding_all decide
  cover := by with_unfolding_all decide
  sizes := by with_unfolding_all decide
  negConst := by with_unfolding_all decide
  dom := by intro X h; cases h

theorem exInp_kernelOk : KernelOk exInp := by intro h; cases h
theorem exInp_cov0 : ∀ p ∈ exInp.ids, p.nu = [] → trueIdx (coverOf exInp.ech p.i) = [] := by
  with_unfolding_all decide
theorem exInp_basis : exInp.settings.kernelBasis = true → ∀ p ∈ exInp.ids, p.nu ≠ [] →
    (p.basis ≠ [] ↔ exInp.X = none) := by intro h; cases h

/-- ν = (1,1), c^{(1)} = (1,−2,1), epi = (−1,−1) -/
noncomputable def exσ : Nat → ℝ := fun id =>
  if id = 14 ∨ id = 15 then -1 else if id = 10 ∨ id = 11 ∨ id = 12 ∨ id = 13 then 1 else 0

theorem exInp_feas (Q : CType → List ℝ → Prop) : FeasRows Q exσ exRows exK := by
  unfold FeasRows exRows exK
  simp only [feasBlocks_cons, feasBlocks_nil, List.map_cons, List.map_nil, crowVal_false, crowVal_true,
    List.take_succ_cons, List.take_zero, List.drop_succ_cons, List.drop_zero, conP, realP, expR,
    List.sum_cons, List.sum_nil, and_true]
  simp only [exσ]
  norm_num
  exact Or.inl ⟨one_pos, by simp⟩

/-- the theorem applies: the hypotheses of `primal_sound` are jointly satisfiable, the non-degenerate
    branch is taken, and the conclusion is the nonnegativity of `1 − 2eˣ + e²ˣ` on ℝ -/
example (Q : CType → List ℝ → Prop) :
    (exInp.ids.filter fun p => !p.nu.isEmpty) ≠ [] ∧
    ∀ x : List ℝ, InDom Q exInp.X exInp.n x →
      0 ≤ sigVal exInp.alpha ((List.range exInp.alpha.length).map fun j => cVal exσ exInp.c j) x :=
  ⟨by with_unfolding_all decide,
   (primal_sound Q exInp exInp_wf exInp_kernelOk exInp_cov0 exInp_basis exRows exK exInp_rows exσ (exInp_feas Q)).2⟩

example (Q : CType → List ℝ → Prop) (t : ℝ) : 0 ≤ 1 - 2 * Real.exp t + Real.exp (2 * t) := by
  have h := (primal_sound Q exInp exInp_wf exInp_kernelOk exInp_cov0 exInp_basis exRows exK exInp_rows exσ
    (exInp_feas Q)).2 [t] ⟨rfl, trivial⟩
  simp [sigVal, rdot, cVal, exInp, exAlpha, exC, constE, argVal, List.range, List.range.loop] at h
  linarith

/-! ### non-vacuity (ii): a conditional instance, `3 − eˣ` on `X = {x ≤ 1}` (not nonnegative on ℝ) -/

def exAlphaX : List (List Rat) := [[0], [1]]
def exCX : List AffE := [constE 3, constE (-1)]
def exX : Dom := { A := [[-1]], b := [1], K := [⟨.pos, 1⟩], N := 1 }
def exEchX : Ech := defaultEch exAlphaX (some (exCX.map classify)) true {} []
def exPX : PIds := { i := 1, nu := [10], basis := [], cvar := [11], epi := [12], eta := [13] }
def exInpX : PrimalIn :=
  { n := 1, alpha := exAlphaX, c := exCX, X := some exX, settings := {}, ech := exEchX, ids := [exPX], dummy := 20 }

def exRowsX : List CRow :=
  [⟨[(13, -1), (12, -1)], -1, false⟩,
   ⟨[(12, -1)], 0, false⟩, ⟨[(11, 1)], 0, true⟩, ⟨[(10, 1)], 0, false⟩,
   ⟨[(10, -1), (13, 1)], 0, false⟩,
   ⟨[(13, 1)], 0, false⟩,
   ⟨[(11, -1)], 3, false⟩, ⟨[(20, 0)], 0, false⟩]
def exKX : List Cone := [⟨.pos, 1⟩, ⟨.exp, 3⟩, ⟨.zero, 1⟩, ⟨.pos, 1⟩, ⟨.pos, 2⟩]

theorem exInpX_rows : primalRows exInpX = .ok (exRowsX, exKX) := by with_unfolding_all decide

theorem exX_wf : domWf 1 exX := by
  unfold domWf
  with_unfolding_all decide

theorem exInpX_wf : WfPrimal exInpX where
  width := by with_unfolding_all decide
  clen := by with_unfolding_all decide
  idsU := by with_unfolding_all decide
  cover := by with_unfolding_all decide
  sizes := by with_unfolding_all decide
  negConst := by with_unfolding_all decide
  dom := by
    intro X h
    have : X = exX := by
      have h' : some exX = some X := h
      exact (Option.some.inj h').symm
    subst this
    exact ⟨exX_wf, by with_unfolding_all decide⟩

theorem exInpX_kernelOk : KernelOk exInpX := by intro h; cases h
theorem exInpX_cov0 : ∀ p ∈ exInpX.ids, p.nu = [] → trueIdx (coverOf exInpX.ech p.i) = [] := by
  with_unfolding_all decide
theorem exInpX_basis : exInpX.settings.kernelBasis = true → ∀ p ∈ exInpX.ids, p.nu ≠ [] →
    (p.basis ≠ [] ↔ exInpX.X = none) := by intro h; cases h

/-- ν = 1, c^{(1)} = (3, −1), epi = −2, η = 1 -/
noncomputable def exσX : Nat → ℝ := fun id =>
  if id = 10 ∨ id = 13 then 1 else if id = 11 then 3 else if id = 12 then -2 else 0

theorem exInpX_feas (Q : CType → List ℝ → Prop) : FeasRows Q exσX exRowsX exKX := by
  unfold FeasRows exRowsX exKX
  simp only [feasBlocks_cons, feasBlocks_nil, List.map_cons, List.map_nil, crowVal_false, crowVal_true,
    List.take_succ_cons, List.take_zero, List.drop_succ_cons, List.drop_zero, conP, realP, expR,
    List.sum_cons, List.sum_nil, and_true]
  simp only [exσX]
  norm_num
  refine Or.inl ⟨one_pos, ?_⟩
  have h3 := Real.exp_one_lt_three
  have h2 : Real.exp 2 = Real.exp 1 * Real.exp 1 := by rw [← Real.exp_add]; norm_num
  have hp := Real.exp_pos 1
  rw [one_mul, div_one, h2]
  nlinarith

/-- `3 − eᵗ ≥ 0` for `t ≤ 1`, obtained from the compiled rows through `primal_sound` -/
example (Q : CType → List ℝ → Prop) (t : ℝ) (ht : t ≤ 1) : 0 ≤ 3 - Real.exp t := by
  have hdom : InDom Q exInpX.X exInpX.n [t] := by
    refine ⟨rfl, [t], rfl, rfl, ?_⟩
    show FeasBlocks (conP Q) [⟨.pos, 1⟩] (domSlack exX [t])
    simp [feasBlocks_cons, domSlack, exX, rdot, conP, realP]
    linarith
  have h := (primal_sound Q exInpX exInpX_wf exInpX_kernelOk exInpX_cov0 exInpX_basis exRowsX exKX exInpX_rows
    exσX (exInpX_feas Q)).2 [t] hdom
  simp [sigVal, rdot, cVal, exInpX, exAlphaX, exCX, constE, argVal, List.range, List.range.loop] at h
  linarith

end Sageopt.Props.C01
