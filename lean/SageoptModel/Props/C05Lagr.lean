/-
C05, part B — the polynomial Lagrangians as FUNCTIONS on all of ℝⁿ (every sign orthant, zero coordinates
included): `modLagrangian` (`(f − γ)·modulator` of `poly_primal` / `poly_dual`), `makePolyLagrangian`
(`make_poly_lagrangian`) and `conModulator` (the even modulator of `poly_constrained_primal/dual`).
Property theorems about `Model/Poly.lean`; the semantics is `polyR` / `monoR` / `evalL` of `Lemmas/PolySem.lean`.
-/
import SageoptModel.Model.Poly
import SageoptModel.Lemmas.PolySem
import SageoptModel.Lemmas.PolyBLagr
import SageoptModel.Lemmas.LagrExec

namespace Sageopt.Props.C05
open Sageopt Sageopt.Sig Sageopt.Relax Sageopt.Poly Sageopt.Sage

/-- distinct polynomial rows of width `n` -/
def PolyWfQ' (f : SigQ) : Prop := PolyWfQ f ∧ (keys f.terms).Nodup

private theorem lagr_rows {f : SigQ} (hf : PolyWfQ' f) : pb_Rows (pb_PolyRow f.n) f.terms := hf.1

private theorem lagr_wf {f : SigQ} (hf : PolyWfQ' f) : Wf f := pb_wf_of_rows f hf.1 hf.2

private theorem lagr_of_wf {f : SigQ} (hw : Wf f) (hr : pb_Rows (pb_PolyRow f.n) f.terms) : PolyWfQ' f :=
  ⟨hr, hw.nodup⟩

set_option linter.unusedVariables false in
/-- `(f − γ)·modulator` evaluates, at EVERY real point (any orthant, zero coordinates included) and for every value of γ,
    to `(f(x) − γ)·modulator(x)` -/
theorem modLagrangian_function (f m : SigQ) (hf : PolyWfQ' f) (hm : PolyWfQ' m) (hn : m.n = f.n) (g : Nat) (σ : Nat → Rat)
    (x : List ℝ) (hl : x.length = f.n) :
    polyR (evalL σ (modLagrangian f m g).terms) x = (polyR f.terms x - (σ g : ℝ)) * polyR m.terms x := by
  obtain ⟨h1, h2, h3, h4⟩ := pb_L0_spec f (lagr_wf hf) (lagr_rows hf) g σ x
  have hmr : pb_Rows (pb_PolyRow f.n) m.terms := hn ▸ lagr_rows hm
  have h := pb_mul_embed_right f.n (pb_L0 f g) m h1 h2 h3 (lagr_wf hm) hn hmr σ x
  rw [h4] at h
  exact h

/-- the multiplier exponents are polynomial rows -/
theorem polyAlphaMult_rows (n : Nat) (alphas : List (List Exp)) (h : ∀ l ∈ alphas, ∀ a ∈ l, a.length = n ∧ isPolyExp a = true) (p : Nat) :
    ∀ a ∈ polyAlphaMult n alphas p, a.length = n ∧ isPolyExp a = true :=
  pb_polyAlphaMult_rows n alphas h p

/-- the multiplier exponents are distinct (`np.unique`) -/
theorem polyAlphaMult_nodup (n : Nat) (alphas : List (List Exp)) (p : Nat) : (polyAlphaMult n alphas p).Nodup :=
  pb_polyAlphaMult_nodup n alphas p

/-- the rows `make_poly_lagrangian` feeds to `hierarchy_e_k` are polynomial rows of width `f.n` -/
private theorem lagr_alpha_rows (f : SigQ) (gts eqs : List SigQ) (hf : PolyWfQ' f)
    (hg : ∀ g ∈ gts ++ eqs, PolyWfQ' g ∧ g.n = f.n) :
    ∀ l ∈ [keys f.terms, [zeroExp f.n]] ++ gts.map (fun g => keys g.terms) ++ eqs.map (fun g => keys g.terms),
      ∀ a ∈ l, pb_PolyRow f.n a := by
  have hk : ∀ h : SigQ, PolyWfQ' h ∧ h.n = f.n → ∀ r ∈ keys h.terms, pb_PolyRow f.n r := by
    intro h hh r hr
    obtain ⟨t, ht, rfl⟩ := List.mem_map.1 hr
    exact hh.2 ▸ hh.1.1 t ht
  intro l hl
  simp only [List.mem_append, List.mem_cons, List.not_mem_nil, or_false, List.mem_map] at hl
  rcases hl with ((rfl | rfl) | ⟨g, hgm, rfl⟩) | ⟨g, hgm, rfl⟩
  · exact hk f ⟨hf, rfl⟩
  · intro a ha
    rw [List.mem_singleton] at ha
    rw [ha]
    exact (pb_polyRow_closed f.n).zero
  · exact hk g (hg g (List.mem_append_left _ hgm))
  · exact hk g (hg g (List.mem_append_right _ hgm))

/-- the folded constraints the builder returns are again polynomials with distinct rows in `f.n` variables -/
theorem polyLagrangian_folded_wf (f : SigQ) (gts eqs : List SigQ)
    (hg : ∀ g ∈ gts ++ eqs, PolyWfQ' g ∧ g.n = f.n) (p q : Nat) (gid : Nat) (sIds zIds : List (List Nat)) :
    let lg := makePolyLagrangian f gts eqs p q gid sIds zIds
    ∀ g ∈ lg.gts ++ lg.eqs, PolyWfQ' g ∧ g.n = f.n := by
  intro lg g hgm
  have key : ∀ cons : List SigQ, (∀ g ∈ cons, PolyWfQ' g ∧ g.n = f.n) →
      ∀ pr ∈ qFold f.n cons q, PolyWfQ' pr ∧ pr.n = f.n := by
    intro cons hc pr hpr
    obtain ⟨w1, w2⟩ := pb_qFold_wf f.n cons (fun g h => ⟨lagr_wf (hc g h).1, (hc g h).2⟩) q pr hpr
    have w3 := pb_rows_qFold (pb_polyRow_closed f.n) cons
      (fun g h => ⟨(hc g h).2, (hc g h).2 ▸ lagr_rows (hc g h).1⟩) q pr hpr
    exact ⟨lagr_of_wf w1 (w2.symm ▸ w3), w2⟩
  rcases List.mem_append.1 hgm with h | h
  · exact key gts (fun g h => hg g (List.mem_append_left _ h)) g h
  · exact key eqs (fun g h => hg g (List.mem_append_right _ h)) g h

set_option linter.unusedVariables false in
/-- THE IDENTITY: for every assignment of γ and of the multiplier coefficients, at every real point,
    `L(x) = f(x) − γ − Σ_k s_k(x)·g_k(x) − Σ_k z_k(x)·h_k(x)` with `g_k`, `h_k` the q-fold products -/
theorem polyLagrangian_identity (f : SigQ) (gts eqs : List SigQ) (hf : PolyWfQ' f)
    (hg : ∀ g ∈ gts ++ eqs, PolyWfQ' g ∧ g.n = f.n) (p q : Nat) (gid : Nat) (sIds zIds : List (List Nat))
    (σ : Nat → Rat) (x : List ℝ) (hl : x.length = f.n) :
    let lg := makePolyLagrangian f gts eqs p q gid sIds zIds
    polyR (evalL σ lg.L.terms) x =
      polyR f.terms x - (σ gid : ℝ)
        - ((lg.gts.zip sIds).map fun pr => polyR (evalL σ (varSig f.n lg.alphaMult pr.2).terms) x * polyR pr.1.terms x).sum
        - ((lg.eqs.zip zIds).map fun pr => polyR (evalL σ (varSig f.n lg.alphaMult pr.2).terms) x * polyR pr.1.terms x).sum := by
  intro lg
  obtain ⟨h1, h2, _, h4⟩ := pb_L0_spec f (lagr_wf hf) (lagr_rows hf) gid σ x
  have ham : ∀ a ∈ lg.alphaMult, pb_PolyRow f.n a :=
    pb_polyAlphaMult_rows f.n _ (lagr_alpha_rows f gts eqs hf hg) p
  have hfold := polyLagrangian_folded_wf f gts eqs hg p q gid sIds zIds
  have hS : ∀ pr ∈ lg.gts.zip sIds ++ lg.eqs.zip zIds,
      (Wf (okOr (mul Lin.isZero (embed (neg isZeroQ pr.1)) (varSig f.n lg.alphaMult pr.2)) (embed pr.1)) ∧
        (okOr (mul Lin.isZero (embed (neg isZeroQ pr.1)) (varSig f.n lg.alphaMult pr.2)) (embed pr.1)).n = f.n) ∧
      polyR (evalL σ (okOr (mul Lin.isZero (embed (neg isZeroQ pr.1)) (varSig f.n lg.alphaMult pr.2))
        (embed pr.1)).terms) x =
        - (polyR (evalL σ (varSig f.n lg.alphaMult pr.2).terms) x * polyR pr.1.terms x) := by
    intro pr hpr
    have hmem : pr.1 ∈ lg.gts ++ lg.eqs := by
      rcases List.mem_append.1 hpr with h | h
      · exact List.mem_append_left _ (List.of_mem_zip h).1
      · exact List.mem_append_right _ (List.of_mem_zip h).1
    obtain ⟨w, wn⟩ := hfold pr.1 hmem
    obtain ⟨a, b, c⟩ := pb_summand f.n σ x pr.1 (lagr_wf w) wn (wn ▸ lagr_rows w) lg.alphaMult ham pr.2
    exact ⟨⟨a, b⟩, c⟩
  have hsum := pb_sum_identity f.n σ x (pb_L0 f gid) ⟨h1, h2⟩
    (fun pr : SigQ × List Nat =>
      okOr (mul Lin.isZero (embed (neg isZeroQ pr.1)) (varSig f.n lg.alphaMult pr.2)) (embed pr.1))
    (fun pr => polyR (evalL σ (varSig f.n lg.alphaMult pr.2).terms) x * polyR pr.1.terms x)
    (lg.gts.zip sIds) (lg.eqs.zip zIds)
    (fun pr hpr => hS pr (List.mem_append_left _ hpr))
    (fun pr hpr => hS pr (List.mem_append_right _ hpr))
  rw [h4] at hsum
  exact hsum

/-- Q-FOLD SOUNDNESS on all of ℝⁿ: every folded constraint is, as a function, a product of at least one and at most
    `q` members of the input list — so it is ≥ 0 (resp. = 0) at every real point where all input constraints are -/
theorem polyQFold_sound (n : Nat) (cons : List SigQ) (hc : ∀ g ∈ cons, PolyWfQ' g ∧ g.n = n) (q : Nat) :
    ∀ pr ∈ qFold n cons q, ∃ comb : List SigQ, comb ≠ [] ∧ comb.length ≤ q ∧ (∀ g ∈ comb, g ∈ cons) ∧
      ∀ x : List ℝ, polyR pr.terms x = (comb.map fun g => polyR g.terms x).prod := by
  intro pr hpr
  obtain ⟨g, gs, hlen, hmem, rfl⟩ := pb_mem_qFold n cons q pr hpr
  refine ⟨g :: gs, by simp, hlen, hmem, ?_⟩
  intro x
  have hall : ∀ y ∈ g :: gs, Wf y ∧ y.n = n ∧ pb_Rows (pb_PolyRow n) y.terms := by
    intro y hy
    obtain ⟨w, wn⟩ := hc y (hmem y hy)
    exact ⟨lagr_wf w, wn, wn ▸ lagr_rows w⟩
  rw [pb_polyR_foldl_mulQ n x gs (fun y hy => hall y (List.mem_cons_of_mem _ hy)) g
    (hall g (by simp)).1 (hall g (by simp)).2.1 (hall g (by simp)).2.2, List.map_cons, List.prod_cons]

/-- the multiplier with coefficient ids `ids` evaluates to `Σ_k σ(ids_k)·x^{a_k}` over the multiplier exponents -/
theorem varSig_polyR (n : Nat) (am : List Exp) (hnd : am.Nodup) (hrows : ∀ a ∈ am, a.length = n ∧ isPolyExp a = true)
    (ids : List Nat) (hl : ids.length = am.length) (σ : Nat → Rat) (x : List ℝ) :
    polyR (evalL σ (varSig n am ids).terms) x = (List.zipWith (fun id a => (σ id : ℝ) * monoR a x) ids am).sum := by
  have hk : keys (am.zip (ids.map Lin.var)) = am := by
    unfold keys
    rw [List.map_fst_zip]
    simp [hl]
  have ht : (varSig n am ids).terms = am.zip (ids.map Lin.var) := by
    unfold varSig
    apply Gen.mk_terms_of_wf
    · intro t ht
      exact pb_isPolyExp_onGrid (hrows _ (List.of_mem_zip ht).1).2
    · rw [hk]; exact hnd
  rw [ht]
  clear ht hk hl hnd hrows
  induction am generalizing ids with
  | nil => cases ids <;> simp [evalL]
  | cons a am ih =>
    cases ids with
    | nil => simp [evalL]
    | cons i ids =>
      have e : evalL σ ((a :: am).zip ((i :: ids).map Lin.var)) =
          (a, Lin.value σ (Lin.var i)) :: evalL σ (am.zip (ids.map Lin.var)) := rfl
      rw [e, pb_polyR_cons, ih ids, lg_value_var, List.zipWith_cons_cons, List.sum_cons]

/-- the `okOr` fallbacks of `makePolyLagrangian` are never taken: neither `f − γ` nor any product `−g · s_g` over the
    folded constraints raises -/
theorem polyLagrangian_no_fallback (f : SigQ) (gts eqs : List SigQ)
    (hg : ∀ g ∈ gts ++ eqs, PolyWfQ' g ∧ g.n = f.n) (p q : Nat) (gid : Nat) (sIds zIds : List (List Nat)) :
    let lg := makePolyLagrangian f gts eqs p q gid sIds zIds
    (∃ L0, add Lin.isZero (embed f) (const f.n (Lin.scale (-1) (Lin.var gid))) = .ok L0) ∧
    ∀ g ∈ lg.gts ++ lg.eqs, ∀ ids : List Nat,
      ∃ h, mul Lin.isZero (embed (neg isZeroQ g)) (varSig f.n lg.alphaMult ids) = .ok h := by
  intro lg
  refine ⟨⟨_, lg_add_ok f _⟩, ?_⟩
  intro g hgm ids
  exact ⟨_, lg_mul_ok f.n g (polyLagrangian_folded_wf f gts eqs hg p q gid sIds zIds g hgm).2 _ ids⟩

set_option linter.unusedVariables false in
/-- the modulator of the constrained builders has even rows only, so it is nonnegative everywhere and positive off the
    coordinate hyperplanes (when there is at least one row) -/
theorem conModulator_nonneg (n : Nat) (alphas : List (List Exp)) (h : ∀ l ∈ alphas, ∀ a ∈ l, a.length = n ∧ isPolyExp a = true)
    (ell : Nat) (x : List ℝ) (hl : x.length = n) :
    (∀ t ∈ (conModulator n alphas ell).terms, isEvenExp t.1 = true) ∧ 0 ≤ polyR (conModulator n alphas ell).terms x := by
  refine ⟨fun t ht => (pb_conModulator_rows n alphas h ell t ht).2.2, ?_⟩
  rw [pb_conModulator_eval n alphas h ell x]
  exact pow_nonneg (pb_evenSum_nonneg n alphas h x) ell

set_option linter.unusedVariables false in
theorem conModulator_pos (n : Nat) (alphas : List (List Exp)) (h : ∀ l ∈ alphas, ∀ a ∈ l, a.length = n ∧ isPolyExp a = true)
    (hne : alphas.flatten ≠ []) (ell : Nat) (x : List ℝ) (hl : x.length = n) (hx : NoZero x) :
    0 < polyR (conModulator n alphas ell).terms x := by
  rw [pb_conModulator_eval n alphas h ell x]
  exact pow_pos (pb_evenSum_pos n alphas h hne x hx) ell

/-! ### non-vacuity (two variables; concrete values are checked by `decide` on the executable model) -/
section NonVacuity

@[instance_reducible] private def decEqSig {C : Type} [DecidableEq C] : DecidableEq (SigT C) := fun a b =>
  match a, b with
  | ⟨n1, t1⟩, ⟨n2, t2⟩ =>
    if h : n1 = n2 ∧ t1 = t2 then isTrue (by rw [h.1, h.2])
    else isFalse (fun e => h (by cases e; exact ⟨rfl, rfl⟩))

attribute [local instance] decEqSig

/-- `x² − 3xy + y²` (indefinite: negative on the diagonal, positive on the antidiagonal) -/
private def fEx : SigQ := ⟨2, [([2, 0], 1), ([1, 1], -3), ([0, 2], 1)]⟩
/-- the standard multiplier of `fEx`: `x² + y²` -/
private def mEx : SigQ := ⟨2, [([2, 0], 1), ([0, 2], 1)]⟩
/-- `1 − xy ≥ 0` -/
private def gEx : SigQ := ⟨2, [([0, 0], 1), ([1, 1], -1)]⟩
/-- `(1 − xy)²` -/
private def g2Ex : SigQ := ⟨2, [([0, 0], 1), ([1, 1], -2), ([2, 2], 1)]⟩
/-- `x − y = 0` -/
private def hEx : SigQ := ⟨2, [([1, 0], 1), ([0, 1], -1)]⟩
/-- `(x − y)²` -/
private def h2Ex : SigQ := ⟨2, [([0, 2], 1), ([1, 1], -2), ([2, 0], 1)]⟩

private theorem polyWf_of {f : SigQ} (h1 : ∀ t ∈ f.terms, t.1.length = f.n ∧ isPolyExp t.1 = true)
    (h2 : (keys f.terms).Nodup) : PolyWfQ' f := ⟨h1, h2⟩

private theorem fEx_wf : PolyWfQ' fEx := polyWf_of (by with_unfolding_all decide) (by decide)
private theorem mEx_wf : PolyWfQ' mEx := polyWf_of (by with_unfolding_all decide) (by decide)
private theorem gEx_wf : PolyWfQ' gEx := polyWf_of (by with_unfolding_all decide) (by decide)
private theorem hEx_wf : PolyWfQ' hEx := polyWf_of (by with_unfolding_all decide) (by decide)

private theorem consEx_wf : ∀ g ∈ [gEx] ++ [hEx], PolyWfQ' g ∧ g.n = fEx.n := by
  intro g hg
  simp only [List.cons_append, List.nil_append, List.mem_cons, List.not_mem_nil, or_false] at hg
  rcases hg with rfl | rfl
  · exact ⟨gEx_wf, rfl⟩
  · exact ⟨hEx_wf, rfl⟩

-- `modLagrangian`: `mEx` is the standard multiplier of `fEx`; the modulated Lagrangian has γ in two coefficients
example : stdMultiplier fEx = mEx := by with_unfolding_all decide
example : (modLagrangian fEx mEx 0).terms =
    [([0, 2], ⟨0, [(0, -1)], false⟩), ([0, 4], Lin.const 1), ([1, 3], Lin.const (-3)), ([2, 0], ⟨0, [(0, -1)], false⟩),
     ([2, 2], Lin.const 2), ([3, 1], Lin.const (-3)), ([4, 0], Lin.const 1)] := by with_unfolding_all decide
example (σ : Nat → Rat) (x y : ℝ) :
    polyR (evalL σ (modLagrangian fEx mEx 0).terms) [x, y] =
      (polyR fEx.terms [x, y] - (σ 0 : ℝ)) * polyR mEx.terms [x, y] :=
  modLagrangian_function fEx mEx fEx_wf mEx_wf rfl 0 σ [x, y] rfl
-- … in particular at a point of the orthant `x < 0 < y` and at a point with a zero coordinate
example (σ : Nat → Rat) : polyR (evalL σ (modLagrangian fEx mEx 0).terms) [-1, 2] = (11 - (σ 0 : ℝ)) * 5 := by
  rw [modLagrangian_function fEx mEx fEx_wf mEx_wf rfl 0 σ [-1, 2] rfl]
  norm_num [polyR, monoR, fEx, mEx, show Int.toNat 2 = 2 from rfl]
example (σ : Nat → Rat) : polyR (evalL σ (modLagrangian fEx mEx 0).terms) [0, -3] = (9 - (σ 0 : ℝ)) * 9 := by
  rw [modLagrangian_function fEx mEx fEx_wf mEx_wf rfl 0 σ [0, -3] rfl]
  norm_num [polyR, monoR, fEx, mEx, show Int.toNat 2 = 2 from rfl]

-- the multiplier exponents `unique([2·E_p; E_p])` for `p = 0, 1`
private def alphasEx : List (List Exp) := [keys fEx.terms, [zeroExp 2]] ++ [keys gEx.terms] ++ [keys hEx.terms]
private theorem alphasEx_rows : ∀ l ∈ alphasEx, ∀ a ∈ l, a.length = 2 ∧ isPolyExp a = true := by
  with_unfolding_all decide
example : polyAlphaMult 2 alphasEx 0 = [[0, 0]] := by with_unfolding_all decide
example : polyAlphaMult 2 alphasEx 1 = [[0, 0], [0, 1], [0, 2], [0, 4], [1, 0], [1, 1], [2, 0], [2, 2], [4, 0]] := by
  with_unfolding_all decide
example : ∀ a ∈ polyAlphaMult 2 alphasEx 1, a.length = 2 ∧ isPolyExp a = true :=
  polyAlphaMult_rows 2 alphasEx alphasEx_rows 1
example : (polyAlphaMult 2 alphasEx 1).Nodup := polyAlphaMult_nodup 2 alphasEx 1

-- the folded constraints for `q = 2`: `g, g²` and `h, h²`
private theorem qFoldG : qFold 2 [gEx] 2 = [gEx, g2Ex] := by
  rw [lg_qFold_eq]
  with_unfolding_all decide
private theorem qFoldH : qFold 2 [hEx] 2 = [hEx, h2Ex] := by
  rw [lg_qFold_eq]
  with_unfolding_all decide

example : ∃ comb : List SigQ, comb ≠ [] ∧ comb.length ≤ 2 ∧ (∀ g ∈ comb, g ∈ [hEx]) ∧
    ∀ x : List ℝ, polyR h2Ex.terms x = (comb.map fun g => polyR g.terms x).prod :=
  polyQFold_sound 2 [hEx] (by intro g hg; rw [List.mem_singleton] at hg; rw [hg]; exact ⟨hEx_wf, rfl⟩) 2 h2Ex
    (by rw [qFoldH]; simp)

/-- γ has id 0; `p = 0` (constant multipliers `x₁, x₂` for `g, g²` and `x₃, x₄` for `h, h²`), `q = 2` -/
private def lgEx : PolyLagrangian := makePolyLagrangian fEx [gEx] [hEx] 0 2 0 [[1], [2]] [[3], [4]]

private theorem lgEx_gts : lgEx.gts = [gEx, g2Ex] := qFoldG
private theorem lgEx_eqs : lgEx.eqs = [hEx, h2Ex] := qFoldH
private theorem lgEx_alphaMult : lgEx.alphaMult = [[0, 0]] := by with_unfolding_all decide

-- L = (1 − x₄)x² + (−3 + x₁ + 2x₂ + 2x₄)xy + (1 − x₄)y² − (γ + x₁ + x₂) − x₂·x²y² − x₃·x + x₃·y
private theorem lgEx_L : lgEx.L = ⟨2, [([2, 0], ⟨1, [(4, -1)], false⟩), ([1, 1], ⟨-3, [(1, 1), (2, 2), (4, 2)], false⟩),
    ([0, 2], ⟨1, [(4, -1)], false⟩), ([0, 0], ⟨0, [(0, -1), (1, -1), (2, -1)], false⟩), ([2, 2], ⟨0, [(2, -1)], false⟩),
    ([1, 0], ⟨0, [(3, -1)], false⟩), ([0, 1], ⟨0, [(3, 1)], false⟩)]⟩ := by
  unfold lgEx makePolyLagrangian
  simp only [show fEx.n = 2 from rfl, qFoldG, qFoldH]
  with_unfolding_all decide

example : ∀ g ∈ lgEx.gts ++ lgEx.eqs, PolyWfQ' g ∧ g.n = fEx.n :=
  polyLagrangian_folded_wf fEx [gEx] [hEx] consEx_wf 0 2 0 [[1], [2]] [[3], [4]]

-- the identity for this instance: every assignment σ, every real point (x, y)
example (σ : Nat → Rat) (x y : ℝ) :
    polyR (evalL σ lgEx.L.terms) [x, y] =
      polyR fEx.terms [x, y] - (σ 0 : ℝ)
        - ((lgEx.gts.zip [[1], [2]]).map fun pr =>
            polyR (evalL σ (varSig 2 lgEx.alphaMult pr.2).terms) [x, y] * polyR pr.1.terms [x, y]).sum
        - ((lgEx.eqs.zip [[3], [4]]).map fun pr =>
            polyR (evalL σ (varSig 2 lgEx.alphaMult pr.2).terms) [x, y] * polyR pr.1.terms [x, y]).sum :=
  polyLagrangian_identity fEx [gEx] [hEx] fEx_wf consEx_wf 0 2 0 [[1], [2]] [[3], [4]] σ [x, y] rfl

-- both sides in closed form: `L(x, y) = f − γ − x₁·g − x₂·g² − x₃·h − x₄·h²` with `g = 1 − xy`, `h = x − y`
example (σ : Nat → Rat) (x y : ℝ) :
    polyR (evalL σ lgEx.L.terms) [x, y] =
      (x ^ 2 - 3 * x * y + y ^ 2) - σ 0 - σ 1 * (1 - x * y) - σ 2 * (1 - x * y) ^ 2
        - σ 3 * (x - y) - σ 4 * (x - y) ^ 2 := by
  rw [lgEx_L]
  simp [polyR, evalL, monoR, Lin.value, show Int.toNat 0 = 0 from rfl, show Int.toNat 1 = 1 from rfl,
    show Int.toNat 2 = 2 from rfl]
  ring
example (σ : Nat → Rat) (x y : ℝ) :
    polyR fEx.terms [x, y] - (σ 0 : ℝ)
        - ((lgEx.gts.zip [[1], [2]]).map fun pr =>
            polyR (evalL σ (varSig 2 lgEx.alphaMult pr.2).terms) [x, y] * polyR pr.1.terms [x, y]).sum
        - ((lgEx.eqs.zip [[3], [4]]).map fun pr =>
            polyR (evalL σ (varSig 2 lgEx.alphaMult pr.2).terms) [x, y] * polyR pr.1.terms [x, y]).sum =
      (x ^ 2 - 3 * x * y + y ^ 2) - σ 0 - σ 1 * (1 - x * y) - σ 2 * (1 - x * y) ^ 2
        - σ 3 * (x - y) - σ 4 * (x - y) ^ 2 := by
  have hv : ∀ i : Nat, polyR (evalL σ (varSig 2 [[0, 0]] [i]).terms) [x, y] = (σ i : ℝ) := by
    intro i
    rw [varSig_polyR 2 [[0, 0]] (by simp) (by with_unfolding_all decide) [i] rfl]
    simp [monoR]
  rw [lgEx_gts, lgEx_eqs, lgEx_alphaMult]
  simp only [List.zip_cons_cons, List.zip_nil_right, List.map_cons, List.map_nil, List.sum_cons, List.sum_nil, hv]
  simp [polyR, monoR, fEx, gEx, g2Ex, hEx, h2Ex, show Int.toNat 0 = 0 from rfl, show Int.toNat 1 = 1 from rfl,
    show Int.toNat 2 = 2 from rfl]
  ring

-- the same instance with `p = 1`, `q = 1`: nine multiplier exponents per constraint
example (σ : Nat → Rat) (x y : ℝ) :
    let lg := makePolyLagrangian fEx [gEx] [hEx] 1 1 0 [[1, 2, 3, 4, 5, 6, 7, 8, 9]] [[11, 12, 13, 14, 15, 16, 17, 18, 19]]
    polyR (evalL σ lg.L.terms) [x, y] =
      polyR fEx.terms [x, y] - (σ 0 : ℝ)
        - ((lg.gts.zip [[1, 2, 3, 4, 5, 6, 7, 8, 9]]).map fun pr =>
            polyR (evalL σ (varSig 2 lg.alphaMult pr.2).terms) [x, y] * polyR pr.1.terms [x, y]).sum
        - ((lg.eqs.zip [[11, 12, 13, 14, 15, 16, 17, 18, 19]]).map fun pr =>
            polyR (evalL σ (varSig 2 lg.alphaMult pr.2).terms) [x, y] * polyR pr.1.terms [x, y]).sum :=
  polyLagrangian_identity fEx [gEx] [hEx] fEx_wf consEx_wf 1 1 0 _ _ σ [x, y] rfl

-- the multiplier of `g` for `p = 0` is the constant `x₁`; for `p = 1` it is a polynomial with nine coefficients
example (σ : Nat → Rat) (x y : ℝ) : polyR (evalL σ (varSig 2 [[0, 0]] [1]).terms) [x, y] = (σ 1 : ℝ) := by
  rw [varSig_polyR 2 [[0, 0]] (by simp) (by with_unfolding_all decide) [1] rfl]
  simp [monoR]
example (σ : Nat → Rat) (x : List ℝ) :
    polyR (evalL σ (varSig 2 (polyAlphaMult 2 alphasEx 1) [1, 2, 3, 4, 5, 6, 7, 8, 9]).terms) x =
      (List.zipWith (fun id a => (σ id : ℝ) * monoR a x) [1, 2, 3, 4, 5, 6, 7, 8, 9] (polyAlphaMult 2 alphasEx 1)).sum :=
  varSig_polyR 2 _ (polyAlphaMult_nodup 2 alphasEx 1) (polyAlphaMult_rows 2 alphasEx alphasEx_rows 1) _
    (by with_unfolding_all decide) σ x

example : (∃ L0, add Lin.isZero (embed fEx) (const fEx.n (Lin.scale (-1) (Lin.var 0))) = .ok L0) ∧
    ∀ g ∈ lgEx.gts ++ lgEx.eqs, ∀ ids : List Nat,
      ∃ h, mul Lin.isZero (embed (neg isZeroQ g)) (varSig fEx.n lgEx.alphaMult ids) = .ok h :=
  polyLagrangian_no_fallback fEx [gEx] [hEx] consEx_wf 0 2 0 [[1], [2]] [[3], [4]]

-- the even modulator `(1 + x² + y²)²`
private def modAlphas : List (List Exp) := [[[1, 0], [0, 1]], [[0, 0]]]
private theorem modAlphas_rows : ∀ l ∈ modAlphas, ∀ a ∈ l, a.length = 2 ∧ isPolyExp a = true := by
  with_unfolding_all decide
example : (conModulator 2 modAlphas 2).terms =
    [([0, 0], 1), ([0, 2], 2), ([0, 4], 1), ([2, 0], 2), ([2, 2], 2), ([4, 0], 1)] := by with_unfolding_all decide
example (x y : ℝ) : (∀ t ∈ (conModulator 2 modAlphas 2).terms, isEvenExp t.1 = true) ∧
    0 ≤ polyR (conModulator 2 modAlphas 2).terms [x, y] :=
  conModulator_nonneg 2 modAlphas modAlphas_rows 2 [x, y] rfl
example (x y : ℝ) (hx : x ≠ 0) (hy : y ≠ 0) : 0 < polyR (conModulator 2 modAlphas 2).terms [x, y] :=
  conModulator_pos 2 modAlphas modAlphas_rows (by decide) 2 [x, y] rfl (by
    intro t ht
    simp only [List.mem_cons, List.not_mem_nil, or_false] at ht
    rcases ht with rfl | rfl <;> assumption)
-- both extra hypotheses of `conModulator_pos` are needed: without a constant row the modulator `x²` vanishes at 0,
-- and without any row it is the zero polynomial
example : polyR (conModulator 1 [[[1]]] 1).terms [0] = 0 := by
  have h : (conModulator 1 [[[1]]] 1).terms = [([2], 1)] := by with_unfolding_all decide
  rw [h]
  norm_num [polyR, monoR]
example (x : List ℝ) : polyR (conModulator 1 [] 1).terms x = 0 := by
  have h : (conModulator 1 [] 1).terms = [] := by with_unfolding_all decide
  rw [h]
  simp [polyR]

end NonVacuity

end Sageopt.Props.C05
