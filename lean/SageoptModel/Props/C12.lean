/-
C12 — Signomial and Polynomial arithmetic is pointwise arithmetic.
Property theorems about `Model/Sig.lean`.
-/
import SageoptModel.Model.Sig

namespace Sageopt.Props.C12
open Sageopt.Sig

/-- constructing from rows that are already distinct keeps their order -/
theorem consolidate_nodup_id (ts : List (Exp × Rat)) (h : hasDupKeys (keys ts) = false) :
    consolidate ts = ts := by
  simp [consolidate, h]

end Sageopt.Props.C12
