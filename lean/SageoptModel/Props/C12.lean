/-
C12 — Signomial and Polynomial arithmetic is pointwise arithmetic.
Property theorems about `Model/Sig.lean`.
-/
import SageoptModel.Lemmas.SigEq

namespace Sageopt.Props.C12
open Sageopt.Sig

/-- constructing from rows that are already distinct keeps their order -/
theorem consolidate_nodup_id (ts : List (Exp × Rat)) (h : hasDupKeys (keys ts) = false) :
    consolidate ts = ts := by
  simp [consolidate, h]

variable {C : Type} [CommRing C]

/-! rounding -/
theorem round7_idem (q : Rat) : round7 (round7 q) = round7 q := round7_idem' q

/-- the grid is closed under addition, so the rounding inside `product` is the identity on
    constructed signomials -/
theorem round7_add_grid (a b : Rat) (ha : round7 a = a) (hb : round7 b = b) : round7 (a + b) = a + b :=
  round7_add_grid' a b ha hb

theorem round7_zero : round7 0 = 0 := round7_zero'

/-- half-integers (the generated domain) are on the grid -/
theorem round7_half_int (k : Int) : round7 ((k : Rat) / 2) = (k : Rat) / 2 := round7_half_int' k

/-! construction: repeated rows are added; the result satisfies the representation invariant -/
theorem mk_wf (n : Nat) (ts : List (Exp × C)) (hw : ∀ t ∈ ts, t.1.length = n) : Wf (mk n ts) :=
  mk_wf' n ts hw

theorem mk_coeff (n : Nat) (ts : List (Exp × C)) (a : Exp) :
    coeff (mk n ts).terms a = coeff (ts.map fun t => (roundExp t.1, t.2)) a := mk_coeff' n ts a

theorem mk_eval (n : Nat) (ts : List (Exp × C)) (χ : Exp → C) :
    eval χ (mk n ts).terms = eval χ (ts.map fun t => (roundExp t.1, t.2)) := mk_eval' n ts χ

/-- on-grid, distinct rows: the constructor changes nothing (row order preserved) -/
theorem mk_id (f : SigT C) (hf : Wf f) : mk f.n f.terms = f := mk_id' f hf

/-! without_zeros -/
theorem withoutZeros_coeff (isZero : C → Bool) (hz : ∀ c, isZero c = true ↔ c = 0) (f : SigT C) (hf : Wf f) (a : Exp) :
    coeff (withoutZeros isZero f).terms a = coeff f.terms a :=
  withoutZeros_coeff' isZero hz f hf.grid a

theorem withoutZeros_wf (isZero : C → Bool) (f : SigT C) (hf : Wf f) : Wf (withoutZeros isZero f) :=
  withoutZeros_wf' isZero f hf

/-- no explicitly-zero term survives, other than the zero function's single term -/
theorem withoutZeros_no_zero (isZero : C → Bool) (hz : ∀ c, isZero c = true ↔ c = 0) (f : SigT C) (hf : Wf f) :
    (∀ t ∈ (withoutZeros isZero f).terms, t.2 ≠ 0) ∨ (withoutZeros isZero f).terms.length = 1 :=
  withoutZeros_no_zero' isZero hz f hf

/-! sums -/
theorem sum_coeff (f g : SigT C) (hf : Wf f) (hg : Wf g) (hn : f.n = g.n) (a : Exp) :
    coeff (sumList f.n [f, g]).terms a = coeff f.terms a + coeff g.terms a := by
  have := sumList_coeff' f.n [f, g] (by
    intro x hx
    simp only [List.mem_cons, List.not_mem_nil, or_false] at hx
    rcases hx with rfl | rfl <;> assumption) a
  simpa using this

theorem add_hom (isZero : C → Bool) (hz : ∀ c, isZero c = true ↔ c = 0) (f g h : SigT C) (hf : Wf f) (hg : Wf g)
    (hadd : add isZero f g = .ok h) :
    Wf h ∧ (∀ a, coeff h.terms a = coeff f.terms a + coeff g.terms a) ∧
    (∀ χ : Exp → C, eval χ h.terms = eval χ f.terms + eval χ g.terms) ∧
    ((∀ t ∈ h.terms, t.2 ≠ 0) ∨ h.terms.length = 1) := by
  unfold add at hadd
  split at hadd
  · exact absurd hadd (by simp)
  · rename_i hn
    have hn : f.n = g.n := not_not.1 hn
    simp only [Res.ok.injEq] at hadd
    subst hadd
    have hs : Wf (sumList f.n [f, g]) := by
      apply sumList_wf
      intro x hx
      simp only [List.mem_cons, List.not_mem_nil, or_false] at hx
      rcases hx with rfl | rfl
      · exact ⟨hf, rfl⟩
      · exact ⟨hg, hn.symm⟩
    have hc : ∀ a, coeff (withoutZeros isZero (sumList f.n [f, g])).terms a =
        coeff f.terms a + coeff g.terms a := by
      intro a
      rw [withoutZeros_coeff isZero hz _ hs, sum_coeff f g hf hg hn]
    exact ⟨withoutZeros_wf isZero _ hs, hc, fun χ => eval_add_of_coeff χ hc,
      withoutZeros_no_zero isZero hz _ hs⟩

theorem add_raises_iff (isZero : C → Bool) (f g : SigT C) :
    (∃ m, add isZero f g = .raises m) ↔ f.n ≠ g.n := by
  unfold add
  constructor
  · rintro ⟨m, hm⟩
    split at hm
    · assumption
    · exact absurd hm (by simp)
  · intro h
    rw [if_pos h]
    exact ⟨_, rfl⟩

set_option linter.unusedVariables false in
/-- `Signomial.sum` of any list (Lagrangian summands): coefficientwise sum -/
theorem sumList_coeff (n : Nat) (fs : List (SigT C)) (hfs : ∀ f ∈ fs, Wf f ∧ f.n = n) (hne : fs ≠ []) (a : Exp) :
    coeff (sumList n fs).terms a = (fs.map fun f => coeff f.terms a).sum :=
  sumList_coeff' n fs (fun f hf => (hfs f hf).1) a

/-! products -/
theorem product_eval (n : Nat) (χ : Exp → C) (hχ : IsChar n χ) (f g : SigT C) (hf : Wf f) (hg : Wf g)
    (hfn : f.n = n) (hgn : g.n = n) :
    eval χ (product f g).terms = eval χ f.terms * eval χ g.terms :=
  product_eval' n χ hχ f g hf hg hfn hgn

set_option linter.unusedVariables false in
theorem product_coeff (f g : SigT C) (hf : Wf f) (hg : Wf g) (hn : f.n = g.n) (a : Exp) :
    coeff (product f g).terms a =
      ((f.terms.flatMap fun t1 => g.terms.map fun t2 => if addExp t1.1 t2.1 == a then t1.2 * t2.2 else 0)).sum :=
  product_coeff' f g hf.grid hg.grid a

theorem mul_hom (isZero : C → Bool) (hz : ∀ c, isZero c = true ↔ c = 0) (n : Nat) (χ : Exp → C) (hχ : IsChar n χ)
    (f g h : SigT C) (hf : Wf f) (hg : Wf g) (hfn : f.n = n) (hmul : mul isZero f g = .ok h) :
    Wf h ∧ eval χ h.terms = eval χ f.terms * eval χ g.terms ∧
    ((∀ t ∈ h.terms, t.2 ≠ 0) ∨ h.terms.length = 1) := by
  unfold mul at hmul
  split at hmul
  · exact absurd hmul (by simp)
  · rename_i hn
    have hn : f.n = g.n := not_not.1 hn
    simp only [Res.ok.injEq] at hmul
    subst hmul
    have hp : Wf (product f g) := product_wf f g hf hg hn
    refine ⟨withoutZeros_wf isZero _ hp, ?_, withoutZeros_no_zero isZero hz _ hp⟩
    rw [withoutZeros_eval isZero hz _ hp.grid, product_eval n χ hχ f g hf hg hfn (hn ▸ hfn)]

theorem neg_hom (isZero : C → Bool) (hz : ∀ c, isZero c = true ↔ c = 0) (f : SigT C) (hf : Wf f) (a : Exp) :
    Wf (neg isZero f) ∧ coeff (neg isZero f).terms a = - coeff f.terms a := by
  unfold neg
  refine ⟨smul_wf isZero f hf _, ?_⟩
  rw [smul_coeff isZero hz f hf]
  ring

theorem sub_hom (isZero : C → Bool) (hz : ∀ c, isZero c = true ↔ c = 0) (f g h : SigT C) (hf : Wf f) (hg : Wf g)
    (hsub : sub isZero f g = .ok h) :
    Wf h ∧ (∀ a, coeff h.terms a = coeff f.terms a - coeff g.terms a) ∧
    ((∀ t ∈ h.terms, t.2 ≠ 0) ∨ h.terms.length = 1) := by
  unfold sub at hsub
  obtain ⟨h1, h2, _, h4⟩ := add_hom isZero hz f _ h hf (smul_wf isZero g hg (-1)) hsub
  refine ⟨h1, fun a => ?_, h4⟩
  rw [h2 a, smul_coeff isZero hz g hg]
  ring

theorem powNat_eval (isZero : C → Bool) (hz : ∀ c, isZero c = true ↔ c = 0) (n : Nat) (χ : Exp → C) (hχ : IsChar n χ)
    (f : SigT C) (hf : Wf f) (hfn : f.n = n) (k : Nat) :
    Wf (powNat isZero f k) ∧ eval χ (powNat isZero f k).terms = (eval χ f.terms) ^ k :=
  powNat_spec isZero hz n χ hχ f hf hfn k

/-! numeric instance: monomial powers, division, equality -/
theorem ratRoot_spec (k : Nat) (hk : 0 < k) (q r : Rat) (h : ratRoot? k q = some r) : 0 ≤ r ∧ r ^ k = q :=
  Sig.ratRoot_spec k hk q r h

theorem ratPowInt_spec (v : Rat) (hv : v ≠ 0) (p : Int) : ratPowInt v p = v ^ p :=
  Sig.ratPowInt_spec v hv p

/-- a (negative / fractional) power of a monomial is the monomial with scaled exponent and the exact
    power of the coefficient: `c' ^ p.den = c ^ p.num` -/
theorem pow_monomial (f g : SigT Rat) (p : Rat) (hp : ¬ (p.den = 1 ∧ p ≥ 0)) (h : pow f p = .ok g) :
    ∃ a c c', (f.terms.filter fun t => !(isZeroQ t.2)) = [(a, c)] ∧ c ≠ 0 ∧
      g = mk f.n [(a.map (p * ·), c')] ∧ c' ^ p.den = c ^ p.num :=
  Sig.pow_monomial f g p hp h

/-- division by a one-term signomial multiplies by its reciprocal monomial -/
theorem div_hom (n : Nat) (χ : Exp → Rat) (hχ : IsChar n χ) (f g h : SigT Rat) (hf : Wf f) (hg : Wf g)
    (hfn : f.n = n) (hgn : g.n = n) (hdiv : div f g = .ok h)
    (hgrid : ∀ t ∈ g.terms, OnGrid (t.1.map (-1 * ·))) :
    eval χ h.terms * eval χ g.terms = eval χ f.terms := by
  unfold div at hdiv
  split at hdiv
  · rename_i gi hpow
    have hp : ¬ ((-1 : Rat).den = 1 ∧ (-1 : Rat) ≥ 0) := by
      rintro ⟨_, h2⟩
      exact absurd h2 (by norm_num)
    obtain ⟨a, c, c', hfilt, hc0, hgi, hcc⟩ := pow_monomial g gi (-1) hp hpow
    have hmem : (a, c) ∈ g.terms := by
      have : (a, c) ∈ (g.terms.filter fun t => !(isZeroQ t.2)) := by rw [hfilt]; simp
      exact List.mem_of_mem_filter this
    have halen : a.length = n := by rw [← hgn]; exact hg.width _ hmem
    have hgiw : Wf gi := by
      rw [hgi]
      apply mk_wf
      intro t ht
      simp only [List.mem_singleton] at ht
      rw [ht]
      simpa using hg.width _ hmem
    have hgit : gi.terms = [(a.map (-1 * ·), c')] := by
      rw [hgi]
      apply mk_terms_of_wf
      · intro t ht
        simp only [List.mem_singleton] at ht
        rw [ht]
        exact hgrid _ hmem
      · simp [keys]
    obtain ⟨_, hev, _⟩ := mul_hom isZeroQ isZeroQ_iff n χ hχ f gi h hf hgiw hfn hdiv
    have hevg : eval χ g.terms = c * χ a := by
      have h1 : eval χ g.terms = eval χ (keepNZ isZeroQ g) :=
        eval_congr_coeff χ (fun b => (keepNZ_coeff isZeroQ isZeroQ_iff g b).symm)
      have h2 : keepNZ isZeroQ g = [(a, c)] := hfilt
      rw [h1, h2, eval_cons]
      simp
    have hcc' : c' * c = 1 := by
      have e1 : (-1 : Rat).den = 1 := rfl
      have e2 : (-1 : Rat).num = -1 := rfl
      rw [e1, e2, pow_one, zpow_neg_one] at hcc
      rw [hcc]
      exact inv_mul_cancel₀ hc0
    have hχ1 : χ (a.map (-1 * ·)) * χ a = 1 := by
      rw [← hχ.add _ _ (by simpa using halen) halen, addExp_neg, halen, hχ.zero]
    rw [hev, hevg, hgit, eval_cons]
    simp only [eval_nil, add_zero]
    calc eval χ f.terms * (c' * χ (a.map (-1 * ·))) * (c * χ a)
        = eval χ f.terms * ((c' * c) * (χ (a.map (-1 * ·)) * χ a)) := by ring
      _ = eval χ f.terms := by rw [hcc', hχ1]; ring
  · exact absurd hdiv (by simp)

theorem eq_refl (tol : Rat) (htol : 0 ≤ tol) (f : SigT Rat) (hf : Wf f) : eqCode tol f f = true := by
  rw [eqCode_iff tol htol f f hf hf]
  intro a
  simpa using htol

theorem eq_symm (tol : Rat) (f g : SigT Rat) : eqCode tol f g = eqCode tol g f := by
  rw [eqCode_eq, eqCode_eq, Bool.and_comm]

/-- equality holds exactly when all coefficients agree up to the tolerance (at `tol = 0`: the
    coefficient functions coincide) -/
theorem eq_iff (tol : Rat) (htol : 0 ≤ tol) (f g : SigT Rat) (hf : Wf f) (hg : Wf g) :
    eqCode tol f g = true ↔ ∀ a : Exp, |coeff f.terms a - coeff g.terms a| ≤ tol :=
  eqCode_iff tol htol f g hf hg

theorem queryCoeff_eq (f : SigT Rat) (hf : Wf f) (a : Exp) : queryCoeff f a = coeff f.terms (roundExp a) :=
  queryCoeff_eq' f hf.nodup a

/-! ### non-vacuity: the hypotheses of the theorems above are satisfiable at `Rat`
(concrete values are checked by `decide` on the executable model; core `Rat` operations are
irreducible, hence `with_unfolding_all`) -/
section NonVacuity

@[instance_reducible] private def decEqSig : DecidableEq (SigT Rat) := fun a b =>
  match a, b with
  | ⟨n1, t1⟩, ⟨n2, t2⟩ =>
    if h : n1 = n2 ∧ t1 = t2 then isTrue (by rw [h.1, h.2])
    else isFalse (fun e => h (by cases e; exact ⟨rfl, rfl⟩))

@[instance_reducible] private def decEqRes : DecidableEq (Res (SigT Rat)) := fun a b =>
  match a, b with
  | .ok x, .ok y =>
    match decEqSig x y with
    | isTrue h => isTrue (by rw [h])
    | isFalse h => isFalse (fun e => h (by cases e; rfl))
  | .raises x, .raises y =>
    if h : x = y then isTrue (by rw [h]) else isFalse (fun e => h (by cases e; rfl))
  | .ok _, .raises _ => isFalse (fun e => by cases e)
  | .raises _, .ok _ => isFalse (fun e => by cases e)

attribute [local instance] decEqSig decEqRes

/-- `3·e^{x₁} − e^{x₂/2}` -/
private def fEx : SigT Rat := ⟨2, [([1, 0], 3), ([0, 1/2], -1)]⟩
/-- `e^{x₂/2} + 5·e^{2x₁}` -/
private def gEx : SigT Rat := ⟨2, [([0, 1/2], 1), ([2, 0], 5)]⟩
/-- the monomial `2·e^{x₁ + x₂/2}` -/
private def mEx : SigT Rat := ⟨2, [([1, 1/2], 2)]⟩

private theorem grid_of {ts : List (Exp × Rat)} (h : ∀ t ∈ ts, ∀ q ∈ t.1, round7 q = q) :
    ∀ t ∈ ts, OnGrid t.1 := h

private theorem fEx_wf : Wf fEx := ⟨by decide, grid_of (by with_unfolding_all decide), by decide⟩
private theorem gEx_wf : Wf gEx := ⟨by decide, grid_of (by with_unfolding_all decide), by decide⟩
private theorem mEx_wf : Wf mEx := ⟨by decide, grid_of (by with_unfolding_all decide), by decide⟩

/-- the trivial character (every basis function evaluates to 1) -/
private theorem one_isChar : IsChar 2 (fun _ => (1 : Rat)) := ⟨rfl, fun _ _ _ _ => by simp⟩

-- rounding: a value off the grid moves, values on the grid do not
example : round7 (1/3) = 3333333/10000000 := by with_unfolding_all decide
example : round7 (round7 (1/3)) = round7 (1/3) := round7_idem _
example : round7 (1/2 + 3/2) = 1/2 + 3/2 :=
  round7_add_grid _ _ (by simpa using round7_half_int 1) (by simpa using round7_half_int 3)

-- the constructor merges rows that coincide after rounding (and then sorts)
example : mk 1 [([1/3], (1 : Rat)), ([0.33333333], 2), ([0], 7)] = ⟨1, [([0], 7), ([0.3333333], 3)]⟩ := by
  with_unfolding_all decide
example : Wf (mk 1 [([1/3], (1 : Rat)), ([0.33333333], 2), ([0], 7)]) := mk_wf 1 _ (by decide)
example : mk fEx.n fEx.terms = fEx := mk_id fEx fEx_wf

-- sums: the cancelling term is dropped by `without_zeros`
private theorem addEx : add isZeroQ fEx gEx = .ok ⟨2, [([1, 0], 3), ([2, 0], 5)]⟩ := by with_unfolding_all decide
example : ∀ a, coeff [([1, 0], (3 : Rat)), ([2, 0], 5)] a = coeff fEx.terms a + coeff gEx.terms a :=
  (add_hom isZeroQ isZeroQ_iff fEx gEx _ fEx_wf gEx_wf addEx).2.1
example : ∃ m, add isZeroQ fEx ⟨3, []⟩ = .raises m := (add_raises_iff isZeroQ fEx ⟨3, []⟩).2 (by decide)
example : sub isZeroQ fEx fEx = .ok ⟨2, [([0, 0], 0)]⟩ := by with_unfolding_all decide
example : sumList 2 [fEx, gEx, fEx] = ⟨2, [([1, 0], 6), ([0, 1/2], -1), ([2, 0], 5)]⟩ := by with_unfolding_all decide

-- products, powers
private theorem mulEx : mul isZeroQ fEx gEx =
    .ok ⟨2, [([1, 1/2], 3), ([0, 1], -1), ([3, 0], 15), ([2, 1/2], -5)]⟩ := by with_unfolding_all decide
example : eval (fun _ => (1 : Rat)) [([1, 1/2], 3), ([0, 1], -1), ([3, 0], 15), ([2, 1/2], -5)] =
    eval (fun _ => 1) fEx.terms * eval (fun _ => 1) gEx.terms :=
  (mul_hom isZeroQ isZeroQ_iff 2 _ one_isChar fEx gEx _ fEx_wf gEx_wf rfl mulEx).2.1
example : powNat isZeroQ fEx 2 = ⟨2, [([0, 1], 1), ([1, 1/2], -6), ([2, 0], 9)]⟩ := by with_unfolding_all decide
example : neg isZeroQ fEx = ⟨2, [([1, 0], -3), ([0, 1/2], 1)]⟩ := by with_unfolding_all decide

-- monomial powers and division
example : ratRoot? 2 (9/4) = some (3/2) := by with_unfolding_all decide
example : ratRoot? 2 2 = none := by with_unfolding_all decide
private theorem powEx : pow ⟨2, [([1, 1/2], 4)]⟩ (-1/2) = .ok ⟨2, [([-1/2, -1/4], 1/2)]⟩ := by with_unfolding_all decide
example : ¬ ((-1/2 : Rat).den = 1 ∧ (-1/2 : Rat) ≥ 0) := by with_unfolding_all decide
private theorem divEx : div fEx mEx = .ok ⟨2, [([0, -1/2], 3/2), ([-1, 0], -1/2)]⟩ := by with_unfolding_all decide
example : eval (fun _ => (1 : Rat)) [([0, -1/2], (3/2 : Rat)), ([-1, 0], -1/2)] * eval (fun _ => 1) mEx.terms =
    eval (fun _ => 1) fEx.terms :=
  div_hom 2 _ one_isChar fEx mEx _ fEx_wf mEx_wf rfl rfl divEx
    (show ∀ t ∈ mEx.terms, ∀ q ∈ t.1.map (-1 * ·), round7 q = q by with_unfolding_all decide)

-- equality and coefficient queries
example : eqCode 0 fEx fEx = true := eq_refl 0 (le_refl 0) fEx fEx_wf
example : eqCode 0 fEx gEx = false := by with_unfolding_all decide
example : eqCode 0 fEx ⟨2, [([0, 1/2], -1), ([1, 0], 3)]⟩ = true := by with_unfolding_all decide
example : queryCoeff fEx [0, 0.50000001] = -1 := by with_unfolding_all decide

end NonVacuity

end Sageopt.Props.C12
