/-
C06, part B — the step from level `ell` to `ell + 1` of the SAGE hierarchy at the level of certificates: SAGE functions
(finite sums of certified AGE summands) are closed under sums, nonnegative scaling, multiplication by monomials and by
posynomials; hence a certificate for `(f − γ) t^ell` yields one for `(f − γ) t^(ell + 1)`, and every level certifies `γ ≤ f`.
Helper lemmas: `Lemmas/AgeLevel.lean`.
-/
import SageoptModel.Lemmas.AgeCert
import SageoptModel.Lemmas.AgeLevel
import SageoptModel.Props.C06

namespace Sageopt.Props.C06
open Sageopt.Analysis
open scoped BigOperators

set_option linter.unusedVariables false

variable {n : ℕ}

/-- one AGE summand: exponents indexed by a finite type, the distinguished index, its cover, the coefficients -/
structure AgeTerm (n : ℕ) where
  ι : Type
  α : ι → Fin n → ℝ
  i : ι
  S : Finset ι
  hi : i ∉ S
  c : ι → ℝ
  cert : OrdAgeCert α i S c

/-- the function an AGE summand stands for -/
noncomputable def AgeTerm.eval (t : AgeTerm n) (x : Fin n → ℝ) : ℝ :=
  t.c t.i * Real.exp (dotp (t.α t.i) x) + ∑ j ∈ t.S, t.c j * Real.exp (dotp (t.α j) x)

/-- a function has a SAGE certificate if it is a finite sum of certified AGE summands -/
def IsSage (f : (Fin n → ℝ) → ℝ) : Prop :=
  ∃ ts : List (AgeTerm n), ∀ x, f x = (ts.map fun t => t.eval x).sum

/-! ### operations on single summands -/

/-- the summand with all coefficients multiplied by `a > 0` -/
private def AgeTerm.scale (t : AgeTerm n) (a : ℝ) (ha : 0 < a) : AgeTerm n where
  ι := t.ι
  α := t.α
  i := t.i
  S := t.S
  hi := t.hi
  c := fun j => a * t.c j
  cert := (ordAge_scale t.α t.i t.S t.c a ha).mp t.cert

/-- the summand with all exponents shifted by `β` -/
private def AgeTerm.shift (t : AgeTerm n) (β : Fin n → ℝ) : AgeTerm n where
  ι := t.ι
  α := fun j k => t.α j k + β k
  i := t.i
  S := t.S
  hi := t.hi
  c := t.c
  cert := (ordAge_shift t.α t.i t.S t.c β).mp t.cert

private theorem AgeTerm.eval_nonneg (t : AgeTerm n) (x : Fin n → ℝ) : 0 ≤ t.eval x :=
  ordAge_sound t.α t.i t.S t.hi t.c t.cert x

private theorem AgeTerm.eval_scale (t : AgeTerm n) (a : ℝ) (ha : 0 < a) (x : Fin n → ℝ) :
    (t.scale a ha).eval x = a * t.eval x :=
  al_term_scale t.α t.i t.S t.c a x

private theorem AgeTerm.eval_shift (t : AgeTerm n) (β x : Fin n → ℝ) :
    (t.shift β).eval x = t.eval x * Real.exp (dotp β x) :=
  al_term_shift t.α t.i t.S t.c β x

/-- `IsSage` only depends on the values of the function -/
private theorem isSage_congr (f g : (Fin n → ℝ) → ℝ) (hf : IsSage f) (hfg : ∀ x, g x = f x) : IsSage g := by
  obtain ⟨ts, hts⟩ := hf
  exact ⟨ts, fun x => by rw [hfg x, hts x]⟩

/-- the zero function is SAGE (the empty list of summands) -/
private theorem isSage_zero : IsSage (fun _ : Fin n → ℝ => (0 : ℝ)) := ⟨[], fun _ => by simp⟩

/-! ### the targets -/

/-- SAGE functions are nonnegative -/
theorem isSage_nonneg (f : (Fin n → ℝ) → ℝ) (h : IsSage f) (x : Fin n → ℝ) : 0 ≤ f x := by
  obtain ⟨ts, hts⟩ := h
  rw [hts x]
  apply al_list_sum_nonneg
  intro q hq
  rw [List.mem_map] at hq
  obtain ⟨t, _, rfl⟩ := hq
  exact t.eval_nonneg x

/-- SAGE is closed under sums and nonnegative scaling -/
theorem isSage_add (f g : (Fin n → ℝ) → ℝ) (hf : IsSage f) (hg : IsSage g) : IsSage (fun x => f x + g x) := by
  obtain ⟨ts, hts⟩ := hf
  obtain ⟨us, hus⟩ := hg
  refine ⟨ts ++ us, fun x => ?_⟩
  show f x + g x = _
  rw [List.map_append, List.sum_append, hts x, hus x]

theorem isSage_smul (f : (Fin n → ℝ) → ℝ) (hf : IsSage f) (a : ℝ) (ha : 0 ≤ a) : IsSage (fun x => a * f x) := by
  rcases ha.eq_or_lt with rfl | hpos
  · exact isSage_congr _ _ isSage_zero fun x => zero_mul _
  · obtain ⟨ts, hts⟩ := hf
    refine ⟨ts.map fun t => t.scale a hpos, fun x => ?_⟩
    show a * f x = _
    rw [hts x, List.map_map]
    clear hts
    induction ts with
    | nil => simp
    | cons t ts ih =>
      rw [List.map_cons, List.sum_cons, List.map_cons, List.sum_cons, ← ih, mul_add]
      congr 1
      exact (t.eval_scale a hpos x).symm

/-- ... and under multiplication by a monomial `e^{β·x}` (every summand is shifted: `ordAge_shift`) -/
theorem isSage_mul_monomial (f : (Fin n → ℝ) → ℝ) (hf : IsSage f) (β : Fin n → ℝ) :
    IsSage (fun x => f x * Real.exp (dotp β x)) := by
  obtain ⟨ts, hts⟩ := hf
  refine ⟨ts.map fun t => t.shift β, fun x => ?_⟩
  show f x * Real.exp (dotp β x) = _
  rw [hts x, List.map_map]
  clear hts
  induction ts with
  | nil => simp
  | cons t ts ih =>
    rw [List.map_cons, List.sum_cons, List.map_cons, List.sum_cons, ← ih, add_mul]
    congr 1
    exact (t.eval_shift β x).symm

/-- hence under multiplication by a posynomial with nonnegative coefficients, in particular by the modulator
    `t(x) = Σ_{a ∈ supp} e^{a·x}` and its powers: a certificate at level `ell` yields one at level `ell + 1`, so the
    bound cannot decrease when `ell` grows (X = ℝⁿ) -/
theorem isSage_mul_posynomial (f : (Fin n → ℝ) → ℝ) (hf : IsSage f) (supp : List (Fin n → ℝ)) (w : List ℝ) (hw : ∀ q ∈ w, 0 ≤ q) :
    IsSage (fun x => f x * (List.zipWith (fun q a => q * Real.exp (dotp a x)) w supp).sum) := by
  induction w generalizing supp with
  | nil => exact isSage_congr _ _ isSage_zero fun x => by simp
  | cons q w ih =>
    cases supp with
    | nil => exact isSage_congr _ _ isSage_zero fun x => by simp
    | cons a supp =>
      have h1 : IsSage (fun x => q * (f x * Real.exp (dotp a x))) :=
        isSage_smul _ (isSage_mul_monomial f hf a) q (hw q (List.mem_cons_self ..))
      have h2 := ih supp (fun q' hq' => hw q' (List.mem_cons_of_mem _ hq'))
      refine isSage_congr _ _ (isSage_add _ _ h1 h2) fun x => ?_
      rw [List.zipWith_cons_cons, List.sum_cons]
      ring

theorem level_step (f : (Fin n → ℝ) → ℝ) (γ : ℝ) (supp : List (Fin n → ℝ)) (ell : ℕ)
    (h : IsSage (fun x => (f x - γ) * ((supp.map fun a => Real.exp (dotp a x)).sum) ^ ell)) :
    IsSage (fun x => (f x - γ) * ((supp.map fun a => Real.exp (dotp a x)).sum) ^ (ell + 1)) := by
  have h1 := isSage_mul_posynomial _ h supp (List.replicate supp.length 1)
    (fun q hq => by rw [List.eq_of_mem_replicate hq]; exact zero_le_one)
  refine isSage_congr _ _ h1 fun x => ?_
  rw [al_zipWith_ones, pow_succ, mul_assoc]

/-- and every level certifies the bound: `γ ≤ f(x)` wherever the modulator is positive (supp nonempty) -/
theorem level_bound (f : (Fin n → ℝ) → ℝ) (γ : ℝ) (supp : List (Fin n → ℝ)) (hne : supp ≠ []) (ell : ℕ)
    (h : IsSage (fun x => (f x - γ) * ((supp.map fun a => Real.exp (dotp a x)).sum) ^ ell)) (x : Fin n → ℝ) : γ ≤ f x :=
  al_bound_of_mul_pow (f x) γ _ ell (al_modulator_pos supp hne x) (isSage_nonneg _ h x)

/-! ### instances: `1 − 2eˣ + e^{2x} = (eˣ − 1)²` as a one-summand SAGE function -/

/-- the AGE summand of `1 − 2eˣ + e^{2x}`: exponents `0, 1, 2`, inner index `1`, cover `{0, 2}` -/
private def sqTerm : AgeTerm 1 where
  ι := Fin 3
  α := fun (j : Fin 3) (_ : Fin 1) => (j : ℝ)
  i := 1
  S := {0, 2}
  hi := by decide
  c := fun j => if j = 0 then 1 else if j = 1 then -(2 : ℝ) else 1
  cert := (midpoint_circuit_exact 1 1 2 one_pos one_pos).2.mp (by simp)

private theorem sqTerm_eval (x : Fin 1 → ℝ) : sqTerm.eval x = 1 - 2 * Real.exp (x 0) + Real.exp (2 * x 0) := by
  unfold AgeTerm.eval sqTerm
  simp only []
  rw [Finset.sum_pair (by decide)]
  simp [dotp]
  ring

/-- the function `1 − 2eˣ + e^{2x}` -/
private noncomputable def sqFun : (Fin 1 → ℝ) → ℝ := fun x => 1 - 2 * Real.exp (x 0) + Real.exp (2 * x 0)

/-- `IsSage` is inhabited by a genuinely non-posynomial function -/
private theorem sqFun_isSage : IsSage sqFun := ⟨[sqTerm], fun x => by simp [sqFun, sqTerm_eval]⟩

example : IsSage (fun x : Fin 1 → ℝ => 1 - 2 * Real.exp (x 0) + Real.exp (2 * x 0)) := sqFun_isSage

/-- `isSage_nonneg`: `(eˣ − 1)² ≥ 0` -/
example (x : Fin 1 → ℝ) : 0 ≤ 1 - 2 * Real.exp (x 0) + Real.exp (2 * x 0) := isSage_nonneg sqFun sqFun_isSage x

/-- `isSage_add`, `isSage_smul`, `isSage_mul_monomial` -/
example : IsSage (fun x : Fin 1 → ℝ => sqFun x + 3 * (sqFun x * Real.exp (dotp (fun _ => 7) x))) :=
  isSage_add _ _ sqFun_isSage (isSage_smul _ (isSage_mul_monomial _ sqFun_isSage (fun _ => 7)) 3 (by norm_num))

/-- `isSage_mul_posynomial`: multiplication by `2 eˣ + 5 e^{−x}` -/
example : IsSage (fun x : Fin 1 → ℝ =>
    sqFun x * (List.zipWith (fun q a => q * Real.exp (dotp a x)) [2, 5] [fun _ => 1, fun _ => -1]).sum) :=
  isSage_mul_posynomial _ sqFun_isSage [fun _ => 1, fun _ => -1] [2, 5] (by
    intro q hq
    simp only [List.mem_cons, List.not_mem_nil, or_false] at hq
    rcases hq with rfl | rfl <;> norm_num)

/-- the level-0 certificate of `f = sqFun + 4`, `γ = 4` with the modulator `1 + eˣ + e^{2x}` -/
private theorem sq_level0 :
    IsSage (fun x : Fin 1 → ℝ => ((sqFun x + 4) - 4) *
      (([fun _ => 0, fun _ => 1, fun _ => 2] : List (Fin 1 → ℝ)).map fun a => Real.exp (dotp a x)).sum ^ 0) :=
  isSage_congr _ _ sqFun_isSage fun x => by rw [pow_zero, mul_one]; ring

/-- `level_step` (twice): levels 1 and 2 -/
example :
    IsSage (fun x : Fin 1 → ℝ => ((sqFun x + 4) - 4) *
      (([fun _ => 0, fun _ => 1, fun _ => 2] : List (Fin 1 → ℝ)).map fun a => Real.exp (dotp a x)).sum ^ (0 + 1 + 1)) :=
  level_step _ 4 _ (0 + 1) (level_step _ 4 _ 0 sq_level0)

/-- `level_bound`: the level-1 certificate gives `4 ≤ sqFun x + 4` -/
example (x : Fin 1 → ℝ) : 4 ≤ sqFun x + 4 :=
  level_bound (fun x => sqFun x + 4) 4 [fun _ => 0, fun _ => 1, fun _ => 2] (by simp) (0 + 1)
    (level_step _ 4 _ 0 sq_level0) x

end Sageopt.Props.C06
