/-
C19, part E — the sign-based covers of the EXECUTABLE model (`Model/Sage.lean`, `defaultEch`, which the harness compares with the real
`ExpCoverHelper` on every run) are the covers of `default_covers_lossless` (part D):
* `signCover` is the list of booleans `_default_covers` starts from, and the index set it stands for is `{l ∉ N_I, l ≠ i}`;
* for a conditional cone with the heuristic reduction and the optimisation-based presolve switched off, `defaultEch` returns exactly these
  covers for exactly the indices that are not constants ≥ 0 (`defaultEch_covers_plain`);
* over the model's data (exponents as a list of rational rows, signs as `CSign`), a decomposition with full covers can be rewritten over
  them (`model_sign_covers_lossless`).
-/
import SageoptModel.Props.C19Sign
import SageoptModel.Props.C19Simplify
import SageoptModel.Model.Sage

namespace Sageopt.Props.C19
open Sageopt.Analysis Sageopt.Sage
open scoped BigOperators

set_option linter.unusedVariables false

/-- the cover `_default_covers` starts from for the index `i` (the `cov0` of `defaultEch`): everything except `i` itself and the
    definitely negative indices -/
def signCover (m : Nat) (Nl : List Nat) (i : Nat) : List Bool := (List.range m).map fun j => !(Nl.contains j) && j != i

theorem signCover_getD (m : Nat) (Nl : List Nat) (i : Nat) (l : Fin m) :
    (signCover m Nl i).getD l.val false = (!(Nl.contains l.val) && l.val != i) := by
  unfold signCover
  simp [List.getD_eq_getElem?_getD, l.isLt]

/-- the index set the sign cover stands for -/
theorem signCover_coverSet (m : Nat) (Nl : List Nat) (i : Nat) :
    coverSet m (signCover m Nl i) = Finset.univ.filter (fun l : Fin m => l.val ∉ Nl ∧ l.val ≠ i) := by
  unfold coverSet
  ext l
  simp only [Finset.mem_filter, Finset.mem_univ, true_and, signCover_getD]
  simp

/-- conditional cone, heuristic reduction and optimisation-based presolve off: the executable cover helper returns the sign covers, for
    the indices whose coefficient is not a constant ≥ 0 -/
theorem defaultEch_covers_plain (alpha : List (List Rat)) (sg : List CSign) (s : Settings)
    (hh : s.heuristicReduction = false) (hp : s.presolveTrivial = false) :
    let e := defaultEch alpha (some sg) true s []
    e.N = (List.range alpha.length).filter (fun i => sg.getD i .zero == .neg) ∧
    e.U = (List.range alpha.length).filter (fun i => sg.getD i .zero == .nonconst || sg.getD i .zero == .neg) ∧
    e.covers = e.U.map fun i => (i, signCover alpha.length e.N i) := by
  simp [defaultEch, hh, hp, signCover]

/-- LOSSLESSNESS over the model's data: exponent rows `alpha`, sign information `sg` that is right about the definitely negative
    coefficients of the vector `c` at hand: a decomposition of `c` with full covers can be rewritten with the cones of the negative
    entries only, over the covers the model (and the code) builds -/
theorem model_sign_covers_lossless (alpha : List (List Rat)) (n : Nat) (sg : List CSign) (c : Fin alpha.length → ℝ)
    (hneg : ∀ l : Fin alpha.length, sg.getD l.val .zero = .neg → c l < 0)
    (h : ∃ w : Fin alpha.length → Fin alpha.length → ℝ,
      (∀ k, OrdAgeCert (alphaR alpha n) k (Finset.univ.erase k) (w k)) ∧ ∀ l, c l = ∑ k, w k l) :
    ∃ ŵ : Fin alpha.length → Fin alpha.length → ℝ,
      (∀ i, c i < 0 → OrdAgeCert (alphaR alpha n) i
        (coverSet alpha.length (signCover alpha.length ((List.range alpha.length).filter (fun j => sg.getD j .zero == .neg)) i.val)) (ŵ i)) ∧
      (∀ l, ∑ i ∈ Finset.univ.filter (fun i => c i < 0), ŵ i l ≤ c l) := by
  set Nl := (List.range alpha.length).filter (fun j => sg.getD j .zero == .neg) with hNl
  obtain ⟨ŵ, h1, h2⟩ := default_covers_lossless (alphaR alpha n) c
    (Finset.univ.filter (fun l : Fin alpha.length => l.val ∈ Nl))
    (by
      intro l hl
      have hmem : l.val ∈ Nl := (Finset.mem_filter.mp hl).2
      rw [hNl, List.mem_filter] at hmem
      apply hneg l
      have hb := hmem.2
      revert hb
      cases sg.getD l.val CSign.zero <;> simp <;> decide) h
  refine ⟨ŵ, ?_, h2⟩
  intro i hi
  rw [signCover_coverSet]
  have hset : Finset.univ.filter (fun l : Fin alpha.length => l.val ∉ Nl ∧ l.val ≠ i.val)
      = Finset.univ.filter (fun l : Fin alpha.length =>
          l ∉ Finset.univ.filter (fun l : Fin alpha.length => l.val ∈ Nl) ∧ l ≠ i) := by
    apply Finset.filter_congr
    intro l _
    simp [Fin.ext_iff]
  rw [hset]
  exact h1 i hi

/-- the same for a CONDITIONAL cone over a compact box (where `defaultEch_covers_plain` says the executable helper returns the sign covers,
    heuristic reduction and optimisation-based presolve being off): a decomposition into vectors certified over the box with full covers
    can be rewritten over the covers the model (and the code) builds -/
theorem model_box_sign_covers_lossless (alpha : List (List Rat)) (n : Nat) (lo hi : Fin n → ℝ) (hne : ∀ l, lo l ≤ hi l)
    (sg : List CSign) (c : Fin alpha.length → ℝ)
    (hneg : ∀ l : Fin alpha.length, sg.getD l.val .zero = .neg → c l < 0)
    (w : Fin alpha.length → Fin alpha.length → ℝ)
    (hw : ∀ k, Sageopt.Props.C06.CondAgeCert (alphaR alpha n) k (Finset.univ.erase k) (Sageopt.Props.C06.boxA n)
      (Sageopt.Props.C06.boxb lo hi) (Sageopt.Props.C06.orthant (n + n)) (w k))
    (hsum : ∀ l, c l = ∑ k, w k l) :
    ∃ ŵ : Fin alpha.length → Fin alpha.length → ℝ,
      (∀ i, c i < 0 → Sageopt.Props.C06.CondAgeCert (alphaR alpha n) i
        (coverSet alpha.length (signCover alpha.length ((List.range alpha.length).filter (fun j => sg.getD j .zero == .neg)) i.val))
        (Sageopt.Props.C06.boxA n) (Sageopt.Props.C06.boxb lo hi) (Sageopt.Props.C06.orthant (n + n)) (ŵ i)) ∧
      (∀ l, ∑ i ∈ Finset.univ.filter (fun i => c i < 0), ŵ i l ≤ c l) := by
  set Nl := (List.range alpha.length).filter (fun j => sg.getD j .zero == .neg) with hNl
  obtain ⟨ŵ, h1, h2⟩ := box_default_covers_lossless (alphaR alpha n) lo hi hne c
    (Finset.univ.filter (fun l : Fin alpha.length => l.val ∈ Nl))
    (by
      intro l hl
      have hmem : l.val ∈ Nl := (Finset.mem_filter.mp hl).2
      rw [hNl, List.mem_filter] at hmem
      apply hneg l
      have hb := hmem.2
      revert hb
      cases sg.getD l.val CSign.zero <;> simp <;> decide) w hw hsum
  refine ⟨ŵ, ?_, h2⟩
  intro i hi
  rw [signCover_coverSet]
  have hset : Finset.univ.filter (fun l : Fin alpha.length => l.val ∉ Nl ∧ l.val ≠ i.val)
      = Finset.univ.filter (fun l : Fin alpha.length =>
          l ∉ Finset.univ.filter (fun l : Fin alpha.length => l.val ∈ Nl) ∧ l ≠ i) := by
    apply Finset.filter_congr
    intro l _
    simp [Fin.ext_iff]
  rw [hset]
  exact h1 i hi

/-! ### non-vacuity -/

example : signCover 4 [1, 3] 0 = [false, false, true, false] := by decide

example : (defaultEch [[0], [1], [2]] (some [.pos, .neg, .nonconst]) true { heuristicReduction := false } []).covers
    = [(1, [true, false, true]), (2, [true, false, false])] := by decide

end Sageopt.Props.C19
