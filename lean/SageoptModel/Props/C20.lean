/-
C20 — Variables keep their identity: unique indices, faithful pickling.
Property theorems about `Model/Vars.lean`.
-/
import SageoptModel.Model.Vars
import SageoptModel.Lemmas.VarsSym
import SageoptModel.Lemmas.VarsAlloc
import SageoptModel.Lemmas.VarsHist
import SageoptModel.Lemmas.VarsRelink

namespace Sageopt.Props.C20
open Sageopt.Vars

/-- index clearing starts a new generation -/
theorem clear_new_generation (a : Alloc) : (clear a).gen = a.gen + 1 ∧ (clear a).counter = 0 := by
  simp [clear]

/-- symmetric layout: mirrored entries share an index, nothing else does, and exactly n(n+1)/2 indices are used -/
theorem symId_symm (n i j : Nat) : symId n i j = symId n j i := symId_symm' n i j

theorem symId_lt (n i j : Nat) (hi : i < n) (hj : j < n) : symId n i j < n * (n + 1) / 2 :=
  symId_lt' n i j hi hj

theorem symId_inj (n i j i' j' : Nat) (hi : i < n) (hj : j < n) (hi' : i' < n) (hj' : j' < n)
    (h : symId n i j = symId n i' j') : (i = i' ∧ j = j') ∨ (i = j' ∧ j = i') :=
  symId_inj' n i j i' j' hi hj hi' hj' h

/-- a created Variable gets exactly the indices [counter, counter'), is proper, and carries the current generation -/
theorem create_spec (a a' : Alloc) (shape : List Nat) (name : Option String) (sym : Bool) (v : VarObj)
    (h : create a shape name sym = some (a', v)) :
    v.proper = true ∧ v.gen = a.gen ∧ a'.gen = a.gen ∧ a.counter ≤ a'.counter ∧ v.shape = shape ∧
    v.ids.length = size shape ∧
    (∀ id ∈ v.ids, a.counter ≤ id ∧ id < a'.counter) ∧
    (sym = false → v.ids.Nodup) :=
  create_spec' a a' shape name sym v h

/-- UNIQUE INDICES, for every history of a session: two different proper Variables of the same generation
    never share a scalar index -/
theorem ids_unique (a : Alloc) (ops : List HOp) (i j : Nat) (v w : VarObj)
    (hv : (runH a ops).2[i]? = some v) (hw : (runH a ops).2[j]? = some w) (hij : i ≠ j) (hg : v.gen = w.gen) :
    ∀ id ∈ v.ids, id ∉ w.ids :=
  ids_unique' ops a i j v w hv hw hij hg

/-- generations of a session stay within the session's window above its initial value -/
theorem gen_window (a : Alloc) (ops : List HOp) :
    ∀ v ∈ (runH a ops).2, a.gen ≤ v.gen ∧ v.gen ≤ a.gen + ops.length := by
  intro v hv
  obtain ⟨h1, h2, _⟩ := runH_inv ops a v hv
  exact ⟨h1, h2⟩

/-- ACROSS SESSIONS: if two sessions start at different multiples of 2^16 (the random per-session offsets) and
    each clears its indices fewer than 2^16 times, no Variable of one shares a generation with a Variable of the
    other — so a loaded Variable can never collide with one created in the loading session -/
theorem sessions_disjoint (sA sB : Nat) (hne : sA ≠ sB) (opsA opsB : List HOp)
    (hA : opsA.length < 2 ^ 16) (hB : opsB.length < 2 ^ 16)
    (v w : VarObj) (hv : v ∈ (runH { gen := sA * 2 ^ 16 } opsA).2) (hw : w ∈ (runH { gen := sB * 2 ^ 16 } opsB).2) :
    v.gen ≠ w.gen := by
  have h1 := gen_window { gen := sA * 2 ^ 16 } opsA v hv
  have h2 := gen_window { gen := sB * 2 ^ 16 } opsB w hw
  simp only at h1 h2
  omega

/-- slices share the components of their parent (same indices at the selected positions, same generation, same
    name) and are improper -/
theorem slice_shares_components (v : VarObj) (pos : List Nat) (shape : List Nat) (hp : ∀ p ∈ pos, p < v.ids.length) :
    (slice v pos shape).proper = false ∧ (slice v pos shape).gen = v.gen ∧ (slice v pos shape).name = v.name ∧
    (∀ id ∈ (slice v pos shape).ids, id ∈ v.ids) ∧
    (slice v pos shape).ids.length = pos.length := by
  refine ⟨rfl, rfl, rfl, ?_, ?_⟩
  · intro id hid
    simp only [slice, List.mem_map] at hid
    obtain ⟨p, hpm, rfl⟩ := hid
    have hlt := hp p hpm
    rw [List.getD_eq_getElem?_getD, List.getElem?_eq_getElem hlt]
    exact List.getElem_mem hlt
  · simp [slice]

/-- PICKLE ROUND TRIP, parent links: for EVERY order in which `__setstate__` runs over the array objects of an
    unpickled graph, every scalar variable that belongs to a proper Variable of the graph ends up with that
    Variable as its parent (never with a slice), provided indices are unique among the graph's proper Variables -/
theorem relink_proper_wins (objs : List VarObj) (order : List Nat) (hperm : order.Perm (List.range objs.length))
    (p : Nat) (o : VarObj) (hp : objs[p]? = some o) (hprop : o.proper = true) (id : Nat) (hid : id ∈ o.ids)
    (huniq : ∀ q o', objs[q]? = some o' → o'.proper = true → id ∈ o'.ids → q = p) :
    parentOf (relink objs order) id = some p := by
  have hlt : p < objs.length := by
    rcases Nat.lt_or_ge p objs.length with h | h
    · exact h
    · rw [List.getElem?_eq_none h] at hp; exact absurd hp (by simp)
  have hmem : p ∈ order := hperm.mem_iff.mpr (List.mem_range.mpr hlt)
  rw [relink_eq_foldl]
  exact foldl_relinkStep_establish objs p o hp hprop id hid huniq order hmem []

/-- loading never changes the allocator of the loading session -/
theorem load_keeps_alloc (a : Alloc) (graph : List VarObj) : graph.foldl loadAdvance a = a := by
  induction graph with
  | nil => rfl
  | cons g gs ih => exact ih

/-! ### non-vacuity: concrete instances evaluated by the kernel -/

/-- the concrete session history used below -/
def demoHist : List HOp :=
  [.create [2] (some "x") false, .create [2, 2] none true, .clear, .create [3] none false]

example : (runH {} demoHist).2.map (·.ids) = [[0, 1], [2, 3, 3, 4], [0, 1, 2]] := by decide
example : (runH {} demoHist).2.map (·.gen) = [0, 0, 1] := by decide
example : (runH {} demoHist).2.map (·.proper) = [true, true, true] := by decide
example : (runH {} demoHist).2.map (·.shape) = [[2], [2, 2], [3]] := by decide
example : (runH {} demoHist).1.counter = 3 ∧ (runH {} demoHist).1.gen = 1 ∧ (runH {} demoHist).1.unnamed = 2 := by
  decide
/-- the hypotheses of `ids_unique` are satisfiable on this history (i = 0, j = 1, same generation) -/
example : ∃ v w, (runH {} demoHist).2[0]? = some v ∧ (runH {} demoHist).2[1]? = some w ∧ v.gen = w.gen ∧
    ∀ id ∈ v.ids, id ∉ w.ids := by
  refine ⟨_, _, rfl, rfl, ?_, ?_⟩
  · decide
  · exact ids_unique {} demoHist 0 1 _ _ rfl rfl (by decide) (by decide)
/-- indices ARE reused across generations (so the generation hypothesis of `ids_unique` is needed) -/
example : ((runH {} demoHist).2.map (·.ids))[0]? = some [0, 1] ∧
    ((runH {} demoHist).2.map (·.ids))[2]? = some [0, 1, 2] := by decide
/-- a symmetric create succeeds and a zero-size create fails -/
example : (create {} [3, 3] none true).map (·.2.ids) = some [0, 1, 2, 1, 3, 4, 2, 4, 5] := by decide
example : create {} [3, 0] none false = none := by decide
example : symId 3 1 2 = 4 ∧ symId 3 2 1 = 4 := by decide

/-- a concrete pickled graph: a slice listed before its proper parent -/
def demoVar : VarObj := ⟨"x", [2], [0, 1], 0, true⟩
def demoGraph : List VarObj := [slice demoVar [0] [1], demoVar]

example : relink demoGraph [1, 0] = [(1, 1), (0, 1)] := by decide
example : relink demoGraph [0, 1] = [(1, 1), (0, 1)] := by decide
example : parentOf (relink demoGraph [1, 0]) 0 = some 1 ∧ parentOf (relink demoGraph [0, 1]) 0 = some 1 := by
  decide
/-- the hypotheses of `relink_proper_wins` are satisfiable on this graph, for both orders -/
example : parentOf (relink demoGraph [0, 1]) 0 = some 1 :=
  relink_proper_wins demoGraph [0, 1] (by decide) 1 demoVar rfl rfl 0 (by decide) (by
    intro q o' hq hpr _
    match q, hq with
    | 0, hq => simp [demoGraph, slice] at hq; subst hq; simp at hpr
    | 1, _ => rfl
    | q + 2, hq => simp [demoGraph] at hq)
example : parentOf (relink demoGraph [1, 0]) 0 = some 1 :=
  relink_proper_wins demoGraph [1, 0] (by decide) 1 demoVar rfl rfl 0 (by decide) (by
    intro q o' hq hpr _
    match q, hq with
    | 0, hq => simp [demoGraph, slice] at hq; subst hq; simp at hpr
    | 1, _ => rfl
    | q + 2, hq => simp [demoGraph] at hq)
example : (slice demoVar [0] [1]).ids = [0] ∧ (slice demoVar [0] [1]).proper = false := by decide

end Sageopt.Props.C20
