/-
C20 — Variables keep their identity: unique indices, faithful pickling.
Property theorems about `Model/Vars.lean`.
-/
import SageoptModel.Model.Vars

namespace Sageopt.Props.C20
open Sageopt.Vars

/-- index clearing starts a new generation -/
theorem clear_new_generation (a : Alloc) : (clear a).gen = a.gen + 1 ∧ (clear a).counter = 0 := by
  simp [clear]

end Sageopt.Props.C20
