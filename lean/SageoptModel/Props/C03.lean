/-
C03 — sig_relaxation gives a valid lower bound; primal and dual forms agree.
Property theorems about `Model/Relax.lean`.
-/
import SageoptModel.Model.Relax
import SageoptModel.Props.C13
import SageoptModel.Props.C16
import SageoptModel.Lemmas.SageSem
import SageoptModel.Lemmas.RelaxSigCalc
import SageoptModel.Lemmas.RelaxSigBuild
import SageoptModel.Lemmas.RelaxSigDual

namespace Sageopt.Props.C03
open Sageopt Sageopt.Sig Sageopt.Relax Sageopt.Sage Sageopt.RelaxSig Sageopt.Sig.Hom

/-- the primal builder produces one coefficient per exponent row of the modulated Lagrangian -/
theorem sigPrimal_shapes (f : SigQ) (ell : Nat) (ms : Option (List Exp)) (g : Nat) :
    (sigPrimal f ell ms g).alpha.length = (sigPrimal f ell ms g).c.length := by
  simp [sigPrimal, keys]

noncomputable section

/-- real value of a rational-coefficient signomial at a real point -/
def sigR (ts : List (Exp × Rat)) (x : List ℝ) : ℝ := (ts.map fun t => (t.2 : ℝ) * Real.exp (rdot t.1 x)).sum

/-- the coefficient vector of the primal SAGE constraint under an assignment σ of (γ and other) variables -/
def primalCoeffs (d : PrimalData) (σ : Nat → Rat) : List (Exp × Rat) := d.alpha.zip (d.c.map (Lin.value σ))

/-- modulator used by the builders -/
def modOf (f : SigQ) (ell : Nat) (ms : Option (List Exp)) (g : Nat) : SigQ :=
  let f' := withoutZeros isZeroQ f
  let L := okOr (add Lin.isZero (embed f') (const f'.n (Lin.scale (-1) (Lin.var g)))) (embed f')
  modulator f'.n (ms.getD (keys L.terms)) ell

/-! ### glue between the statement-level definitions and `Lemmas/RelaxSig*.lean` -/

private theorem sigR_eq (ts : List (Exp × Rat)) (x : List ℝ) :
    sigR ts x = eval (rs_chi x) (mapT rs_cast ts) := by
  unfold sigR eval mapT rs_chi rs_cast
  rw [List.map_map]
  rfl

private theorem modOf_eq (f : SigQ) (ell : Nat) (ms : Option (List Exp)) (g : Nat) :
    modOf f ell ms g = rsT f ell ms g := rfl

private theorem primalCoeffs_eq (f : SigQ) (ell : Nat) (ms : Option (List Exp)) (g : Nat) (σ : Nat → Rat) :
    primalCoeffs (sigPrimal f ell ms g) σ = mapT (Lin.value σ) (rsS f ell ms g).terms := by
  unfold primalCoeffs
  rw [rs_sigPrimal_eq]
  exact rs_zip_keys (Lin.value σ) _

private theorem sigR_withoutZeros (f : SigQ) (hf : Wf f) (x : List ℝ) :
    sigR (withoutZeros isZeroQ f).terms x = sigR f.terms x := by
  rw [sigR_eq, sigR_eq]
  exact rs_eval_withoutZeros x f hf

/-- the `okOr` fallbacks of the builders are never taken (the numbers of variables always agree — for EVERY
    input, well-formed or not): the Lagrangian is the model's sum `f' + (−γ)` and the constrained signomial is
    the model's product `L·t` -/
theorem okOr_never (f : SigQ) (ell : Nat) (ms : Option (List Exp)) (g : Nat) :
    let f' := withoutZeros isZeroQ f
    ∃ L s, add Lin.isZero (embed f') (const f'.n (Lin.scale (-1) (Lin.var g))) = .ok L ∧
      mul Lin.isZero L (embed (modOf f ell ms g)) = .ok s ∧
      (sigPrimal f ell ms g).alpha = keys s.terms ∧ (sigPrimal f ell ms g).c = s.terms.map (·.2) ∧
      (sigDual f ell ms g).alpha = keys s.terms ∧ (sigDual f ell ms g).c = s.terms.map (·.2) :=
  ⟨rsL f g, rsS f ell ms g, rs_L_add f g, rs_S_mul f ell ms g, rfl, rfl, rfl, rfl⟩

/-- STRUCTURE of the primal problem: under every assignment the constrained coefficient vector is the
    coefficient vector of `(f − γ)·t^ell`, as functions of x (for every real x) -/
theorem sigPrimal_function (f : SigQ) (hf : Wf f) (ell : Nat) (ms : Option (List Exp)) (hms : ∀ s, ms = some s → ∀ r ∈ s, r.length = f.n)
    (g : Nat) (σ : Nat → Rat) (x : List ℝ) (hx : x.length = f.n) :
    sigR (primalCoeffs (sigPrimal f ell ms g) σ) x
      = (sigR f.terms x - (σ g : ℝ)) * sigR (modOf f ell ms g).terms x := by
  have _ := hx
  have hF := rs_F_wf f hf
  have hT := rs_T_wf f hf ell ms hms g
  have hTn := rs_T_n f hf ell ms hms g
  have hlin : ∀ a, coeff (mapT rs_cast (mapT (Lin.value σ) (rsS f ell ms g).terms)) a =
      coeff (mapT rs_cast (prodTerms (rsF f).terms (rsT f ell ms g).terms)) a -
        rs_cast (σ g) * coeff (mapT rs_cast (rsT f ell ms g).terms) a := by
    intro a
    rw [rs_coeff_cast, rs_coeff_cast, rs_coeff_cast, rs_S_coeff f hf ell ms hms g σ a]
    simp [rs_cast]
  rw [primalCoeffs_eq, modOf_eq, ← sigR_withoutZeros f hf x, sigR_eq, sigR_eq, sigR_eq,
    rs_eval_lin (rs_chi x) (rs_cast (σ g)) hlin,
    rs_eval_prodTerms x f.n _ _ (fun t ht => by rw [hF.width t ht, rs_F_n])
      (fun t ht => by rw [hT.width t ht, hTn])]
  show _ = (eval (rs_chi x) (mapT rs_cast (rsF f).terms) - rs_cast (σ g)) * _
  ring

/-- the modulator is positive everywhere (its support is nonempty: it contains the exponents of `f − γ`, or the
    given rows) -/
theorem modulator_pos (f : SigQ) (hf : Wf f) (ell : Nat) (ms : Option (List Exp)) (hms : ∀ s, ms = some s → s ≠ [] ∧ ∀ r ∈ s, r.length = f.n)
    (g : Nat) (x : List ℝ) (hx : x.length = f.n) : 0 < sigR (modOf f ell ms g).terms x := by
  have _ := hx
  rw [modOf_eq, sigR_eq]
  exact rs_T_pos f hf ell ms hms g x

/-- PRIMAL BOUND: whenever the coefficient vector of the constraint defines a signomial that is nonnegative on a
    set S (which is what a satisfied primal SAGE constraint certifies for S = X, C01.primal_sound (iv)), the
    objective value γ is a lower bound of f on S — at every hierarchy level and for every modulator support -/
theorem primal_bound (f : SigQ) (hf : Wf f) (ell : Nat) (ms : Option (List Exp))
    (hms : ∀ s, ms = some s → s ≠ [] ∧ ∀ r ∈ s, r.length = f.n) (g : Nat) (σ : Nat → Rat) (S : List ℝ → Prop)
    (hS : ∀ x, S x → x.length = f.n)
    (hcert : ∀ x, S x → 0 ≤ sigR (primalCoeffs (sigPrimal f ell ms g) σ) x) :
    ∀ x, S x → (σ g : ℝ) ≤ sigR f.terms x := by
  intro x hx
  have h := hcert x hx
  rw [sigPrimal_function f hf ell ms (fun s hs => (hms s hs).2) g σ x (hS x hx)] at h
  have hpos := modulator_pos f hf ell ms hms g x (hS x hx)
  have h' : 0 ≤ sigR f.terms x - (σ g : ℝ) := nonneg_of_mul_nonneg_left h hpos
  linarith

/-- COUNTEREXAMPLE to `primal_dual_coeffs` as originally stated (without `hms`): a custom modulator support
    whose rows do not have width `f.n` (`f = e^x`, support rows `[]` and `[0,5]`, `ell = 1`).  `zipWith`
    truncation in `addExp` and in `rowMatch` then places the coefficients of `t` and of `f·t` at the wrong
    rows: row 1 of the primal constraint has coefficient `−γ` while `obj_1 − γ·a_1 = 0`. -/
theorem primal_dual_coeffs_needs_hms :
    Wf (⟨1, [([1], 1)]⟩ : SigQ) ∧
    (sigPrimal ⟨1, [([1], 1)]⟩ 1 (some [[], [0, 5]]) 0).alpha = [[], [0], [1]] ∧
    (sigPrimal ⟨1, [([1], 1)]⟩ 1 (some [[], [0, 5]]) 0).c =
      [⟨1, [(0, -1)], false⟩, ⟨0, [(0, -1)], false⟩, ⟨1, [], false⟩] ∧
    (sigDual ⟨1, [([1], 1)]⟩ 1 (some [[], [0, 5]]) 0).a = [1, 0, 0] ∧
    (sigDual ⟨1, [([1], 1)]⟩ 1 (some [[], [0, 5]]) 0).obj = [1, 0, 0] ∧
    ¬ (∀ σ : Nat → Rat, ∀ j, j < (sigPrimal ⟨1, [([1], 1)]⟩ 1 (some [[], [0, 5]]) 0).alpha.length →
      Lin.value σ ((sigPrimal ⟨1, [([1], 1)]⟩ 1 (some [[], [0, 5]]) 0).c.getD j 0)
        = (sigDual ⟨1, [([1], 1)]⟩ 1 (some [[], [0, 5]]) 0).obj.getD j 0
          - σ 0 * (sigDual ⟨1, [([1], 1)]⟩ 1 (some [[], [0, 5]]) 0).a.getD j 0) := by
  have hα : (sigPrimal ⟨1, [([1], 1)]⟩ 1 (some [[], [0, 5]]) 0).alpha = [[], [0], [1]] := by
    with_unfolding_all decide
  have hc : (sigPrimal ⟨1, [([1], 1)]⟩ 1 (some [[], [0, 5]]) 0).c =
      [⟨1, [(0, -1)], false⟩, ⟨0, [(0, -1)], false⟩, ⟨1, [], false⟩] := by with_unfolding_all decide
  have ha : (sigDual ⟨1, [([1], 1)]⟩ 1 (some [[], [0, 5]]) 0).a = [1, 0, 0] := by with_unfolding_all decide
  have ho : (sigDual ⟨1, [([1], 1)]⟩ 1 (some [[], [0, 5]]) 0).obj = [1, 0, 0] := by with_unfolding_all decide
  refine ⟨⟨by decide, ?_, by decide⟩, hα, hc, ha, ho, ?_⟩
  · intro t ht q hq
    simp only [List.mem_singleton] at ht
    subst ht
    simp only [List.mem_singleton] at hq
    subst hq
    exact (round7_fix_iff 1).2 ⟨10000000, by norm_num [decimals]⟩
  · intro h
    have h1 := h (fun _ => 1) 1 (by rw [hα]; decide)
    rw [hc, ha, ho] at h1
    revert h1
    with_unfolding_all decide

/-- the primal and dual builders use the same exponent rows, and the coefficient vector of the primal constraint
    is `obj − γ·a` row by row.
    (`_partial`: the hypothesis `hms` — custom modulator rows have width `f.n` — is ADDED; without it the
    statement is false, see `primal_dual_coeffs_needs_hms`.) -/
theorem primal_dual_coeffs_partial (f : SigQ) (hf : Wf f) (ell : Nat) (ms : Option (List Exp))
    (hms : ∀ s, ms = some s → ∀ r ∈ s, r.length = f.n) (g : Nat) (σ : Nat → Rat) :
    (sigDual f ell ms g).alpha = (sigPrimal f ell ms g).alpha ∧
    ∀ j, j < (sigPrimal f ell ms g).alpha.length →
      Lin.value σ ((sigPrimal f ell ms g).c.getD j 0)
        = (sigDual f ell ms g).obj.getD j 0 - σ g * (sigDual f ell ms g).a.getD j 0 := by
  refine ⟨rfl, ?_⟩
  intro j hj
  have hj' : j < (rsS f ell ms g).terms.length := by
    rw [rs_sigPrimal_eq] at hj
    simpa [keys] using hj
  exact rs_primal_dual f hf ell ms hms g σ j hj'

/-- the default call (`modulator_support=None`): no side condition at all -/
theorem primal_dual_coeffs_none (f : SigQ) (hf : Wf f) (ell : Nat) (g : Nat) (σ : Nat → Rat) :
    (sigDual f ell none g).alpha = (sigPrimal f ell none g).alpha ∧
    ∀ j, j < (sigPrimal f ell none g).alpha.length →
      Lin.value σ ((sigPrimal f ell none g).c.getD j 0)
        = (sigDual f ell none g).obj.getD j 0 - σ g * (sigDual f ell none g).a.getD j 0 :=
  primal_dual_coeffs_partial f hf ell none (fun _ h => by cases h) g σ

/-- DUAL ATTAINS f: for every real x the vector `v_j = e^{α_j·x} / t(x)` satisfies the normalisation `a·v = 1` and
    has objective value `obj·v = f(x)`; being a nonnegative multiple of the moment vector of x it satisfies the
    dual SAGE constraint whenever x ∈ X (C02.dual_admits_moments).  Hence the dual optimal value is at most f(x) for
    every x ∈ X, and the dual problem is feasible whenever X is nonempty. -/
theorem dual_attains (f : SigQ) (hf : Wf f) (ell : Nat) (ms : Option (List Exp))
    (hms : ∀ s, ms = some s → s ≠ [] ∧ ∀ r ∈ s, r.length = f.n) (g : Nat) (x : List ℝ) (hx : x.length = f.n) :
    let d := sigDual f ell ms g
    let tx := sigR (modOf f ell ms g).terms x
    let v := d.alpha.map fun a => Real.exp (rdot a x) / tx
    (List.zipWith (fun (a : Rat) (vj : ℝ) => (a : ℝ) * vj) d.a v).sum = 1 ∧
    (List.zipWith (fun (o : Rat) (vj : ℝ) => (o : ℝ) * vj) d.obj v).sum = sigR (withoutZeros isZeroQ f).terms x ∧
    ∀ vj ∈ v, 0 ≤ vj := by
  intro d tx v
  have hms' : ∀ s, ms = some s → ∀ r ∈ s, r.length = f.n := fun s hs => (hms s hs).2
  have htx : 0 < tx := modulator_pos f hf ell ms hms g x hx
  have htxe : tx = eval (rs_chi x) (mapT rs_cast (rsT f ell ms g).terms) := by
    show sigR (modOf f ell ms g).terms x = _
    rw [modOf_eq, sigR_eq]
  obtain ⟨_, hnd⟩ := rs_S_rows f hf ell ms hms' g
  have hF := rs_F_wf f hf
  have hT := rs_T_wf f hf ell ms hms' g
  have hTn := rs_T_n f hf ell ms hms' g
  -- a generic tabulated sum
  have key : ∀ (ts : List (Exp × Rat)), (∀ u ∈ ts, u.2 ≠ 0 → u.1 ∈ keys (rsS f ell ms g).terms) →
      (List.zipWith (fun (a : Rat) (vj : ℝ) => (a : ℝ) * vj)
        ((keys (rsS f ell ms g).terms).map (coeff ts))
        ((keys (rsS f ell ms g).terms).map fun a => Real.exp (rdot a x) / tx)).sum =
      eval (rs_chi x) (mapT rs_cast ts) / tx := by
    intro ts hsupp
    have hs : ∀ u ∈ mapT rs_cast ts, u.2 ≠ 0 → u.1 ∈ keys (rsS f ell ms g).terms := by
      intro u hu hne
      obtain ⟨t, ht, rfl⟩ := (mem_mapT rs_cast).1 hu
      apply hsupp t ht
      intro h0
      apply hne
      show rs_cast t.2 = 0
      rw [h0]; simp [rs_cast]
    rw [div_eq_mul_inv, ← SymCorr.sc_sum_coeff_eval (mapT rs_cast ts) _ hnd hs (rs_chi x),
      ← List.sum_map_mul_right, List.zipWith_map_left, List.zipWith_map_right, List.zipWith_self]
    congr 1
    apply List.map_congr_left
    intro a _
    rw [rs_coeff_cast]
    simp only [rs_cast, rs_chi]
    ring
  refine ⟨?_, ?_, ?_⟩
  · show (List.zipWith _ (sigDual f ell ms g).a ((keys (rsS f ell ms g).terms).map _)).sum = 1
    rw [rs_a_eq f hf ell ms hms' g, key _ (rs_supp_T f hf ell ms hms' g), ← htxe]
    exact div_self htx.ne'
  · show (List.zipWith _ (sigDual f ell ms g).obj ((keys (rsS f ell ms g).terms).map _)).sum = _
    obtain ⟨hw, _, hc⟩ := rs_fmod_spec f hf ell ms hms' g
    have hobj : (sigDual f ell ms g).obj =
        (keys (rsS f ell ms g).terms).map (coeff (mulQ (rsF f) (rsT f ell ms g)).terms) := by
      rw [rs_obj_eq f hf ell ms hms' g]
      apply List.map_congr_left
      intro a _
      exact (hc a).symm
    have hev : eval (rs_chi x) (mapT rs_cast (mulQ (rsF f) (rsT f ell ms g)).terms) =
        eval (rs_chi x) (mapT rs_cast (rsF f).terms) * tx := by
      rw [htxe, ← rs_eval_prodTerms x f.n _ _ (fun t ht => by rw [hF.width t ht, rs_F_n])
        (fun t ht => by rw [hT.width t ht, hTn])]
      apply eval_congr_coeff
      intro a
      rw [rs_coeff_cast, rs_coeff_cast, hc a]
    rw [hobj, key _ (rs_supp_fmod f hf ell ms hms' g), hev, sigR_eq]
    exact mul_div_cancel_right₀ _ htx.ne'
  · intro vj hvj
    obtain ⟨a, _, rfl⟩ := List.mem_map.1 hvj
    exact div_nonneg (Real.exp_pos _).le htx.le

/-- WEAK DUALITY of the two built problems, given the pairing inequality between the primal and dual SAGE
    models (`0 ≤ c·v` for c in the primal model and v in the dual model — proved for the compiled ordinary cones
    in `ord_age_pairing`): every primal feasible γ is at most every dual feasible objective value.
    (`_partial`: the hypothesis `hms` is ADDED, as in `primal_dual_coeffs_partial`; without it the statement is
    false for the same instance, see `weak_duality_needs_hms`.) -/
theorem weak_duality_partial (f : SigQ) (hf : Wf f) (ell : Nat) (ms : Option (List Exp))
    (hms : ∀ s, ms = some s → ∀ r ∈ s, r.length = f.n) (g : Nat) (σ : Nat → Rat) (v : List ℝ)
    (hv : v.length = (sigDual f ell ms g).alpha.length)
    (hpair : 0 ≤ (List.zipWith (fun (c : Lin) (vj : ℝ) => (Lin.value σ c : ℝ) * vj) (sigPrimal f ell ms g).c v).sum)
    (hnorm : (List.zipWith (fun (a : Rat) (vj : ℝ) => (a : ℝ) * vj) (sigDual f ell ms g).a v).sum = 1) :
    (σ g : ℝ) ≤ (List.zipWith (fun (o : Rat) (vj : ℝ) => (o : ℝ) * vj) (sigDual f ell ms g).obj v).sum := by
  have hα : (sigDual f ell ms g).alpha.length = (rsS f ell ms g).terms.length := by
    rw [rs_sigDual_eq]; simp [keys]
  have hlc : (sigPrimal f ell ms g).c.length = v.length := by
    rw [hv, hα, rs_sigPrimal_eq]; simp
  have hla : (sigDual f ell ms g).a.length = v.length := by
    rw [rs_a_eq f hf ell ms hms g, hv, hα]; simp [keys]
  have hlo : (sigDual f ell ms g).obj.length = v.length := by
    rw [rs_obj_eq f hf ell ms hms g, hv, hα]; simp [keys]
  have halg := rs_weak_alg σ (σ g) v _ _ _ hlc hla hlo (fun j hj =>
    rs_primal_dual f hf ell ms hms g σ j (by rw [← hα, ← hv]; exact hj))
  rw [halg, hnorm] at hpair
  linarith

/-- the default call (`modulator_support=None`): no side condition at all -/
theorem weak_duality_none (f : SigQ) (hf : Wf f) (ell : Nat) (g : Nat) (σ : Nat → Rat) (v : List ℝ)
    (hv : v.length = (sigDual f ell none g).alpha.length)
    (hpair : 0 ≤ (List.zipWith (fun (c : Lin) (vj : ℝ) => (Lin.value σ c : ℝ) * vj) (sigPrimal f ell none g).c v).sum)
    (hnorm : (List.zipWith (fun (a : Rat) (vj : ℝ) => (a : ℝ) * vj) (sigDual f ell none g).a v).sum = 1) :
    (σ g : ℝ) ≤ (List.zipWith (fun (o : Rat) (vj : ℝ) => (o : ℝ) * vj) (sigDual f ell none g).obj v).sum :=
  weak_duality_partial f hf ell none (fun _ h => by cases h) g σ v hv hpair hnorm

/-- COUNTEREXAMPLE to `weak_duality` as originally stated (without `hms`): the instance of
    `primal_dual_coeffs_needs_hms` with `γ = 2`, `v = (1, 0, 1)`: the pairing is `(1−γ)·1 − γ·0 + 1·1 = 0 ≥ 0`,
    the normalisation is `1·1 = 1`, but the dual objective is `1·1 = 1 < 2 = γ`. -/
theorem weak_duality_needs_hms :
    ∃ (σ : Nat → Rat) (v : List ℝ),
      v.length = (sigDual ⟨1, [([1], 1)]⟩ 1 (some [[], [0, 5]]) 0).alpha.length ∧
      0 ≤ (List.zipWith (fun (c : Lin) (vj : ℝ) => (Lin.value σ c : ℝ) * vj)
        (sigPrimal ⟨1, [([1], 1)]⟩ 1 (some [[], [0, 5]]) 0).c v).sum ∧
      (List.zipWith (fun (a : Rat) (vj : ℝ) => (a : ℝ) * vj)
        (sigDual ⟨1, [([1], 1)]⟩ 1 (some [[], [0, 5]]) 0).a v).sum = 1 ∧
      ¬ ((σ 0 : ℝ) ≤ (List.zipWith (fun (o : Rat) (vj : ℝ) => (o : ℝ) * vj)
        (sigDual ⟨1, [([1], 1)]⟩ 1 (some [[], [0, 5]]) 0).obj v).sum) := by
  obtain ⟨_, hα, hc, ha, ho, _⟩ := primal_dual_coeffs_needs_hms
  have hα' : (sigDual ⟨1, [([1], 1)]⟩ 1 (some [[], [0, 5]]) 0).alpha = [[], [0], [1]] := hα
  have v1 : Lin.value (fun _ => 2) ⟨1, [(0, -1)], false⟩ = -1 := by with_unfolding_all decide
  have v2 : Lin.value (fun _ => 2) ⟨0, [(0, -1)], false⟩ = -2 := by with_unfolding_all decide
  have v3 : Lin.value (fun _ => 2) ⟨1, [], false⟩ = 1 := by with_unfolding_all decide
  refine ⟨fun _ => 2, [1, 0, 1], ?_, ?_, ?_, ?_⟩
  · rw [hα']; rfl
  · rw [hc]
    simp only [List.zipWith_cons_cons, List.zipWith_nil_right, List.sum_cons, List.sum_nil, v1, v2, v3]
    norm_num
  · rw [ha]
    simp
  · rw [ho]
    simp

/-! ### non-vacuity: the hypotheses hold on concrete data, and the builders produce what the code produces

Instance: `f = e^{2x} − 2e^{x} + 3` (one variable; `min f = 2` at `x = 0`).  Concrete values are checked by
`decide` on the executable model (core `Rat` operations are irreducible, hence `with_unfolding_all`). -/
section NonVacuity

private def fEx : SigQ := ⟨1, [([0], 3), ([1], -2), ([2], 1)]⟩

private theorem grid_of {ts : List (Exp × Rat)} (h : ∀ t ∈ ts, ∀ q ∈ t.1, round7 q = q) :
    ∀ t ∈ ts, OnGrid t.1 := h

private theorem fEx_wf : Wf fEx := ⟨by decide, grid_of (by with_unfolding_all decide), by decide⟩

private theorem none_hms (n : Nat) : ∀ s, (none : Option (List Exp)) = some s → s ≠ [] ∧ ∀ r ∈ s, r.length = n :=
  fun _ h => by cases h

-- level 0: the constraint is on `f − γ` itself (γ = scalar variable 0)
private theorem primalEx0 :
    (sigPrimal fEx 0 none 0).alpha = [[0], [1], [2]] ∧
    (sigPrimal fEx 0 none 0).c = [⟨3, [(0, -1)], false⟩, ⟨-2, [], false⟩, ⟨1, [], false⟩] := by
  with_unfolding_all decide

-- level 1: the constraint is on `(f − γ)·(1 + e^x + e^{2x})`
private theorem primalEx1 :
    (sigPrimal fEx 1 none 0).alpha = [[0], [1], [2], [3], [4]] ∧
    (sigPrimal fEx 1 none 0).c = [⟨3, [(0, -1)], false⟩, ⟨1, [(0, -1)], false⟩, ⟨2, [(0, -1)], false⟩,
      ⟨-1, [], false⟩, ⟨1, [], false⟩] := by
  with_unfolding_all decide

private theorem dualEx0 :
    (sigDual fEx 0 none 0).alpha = [[0], [1], [2]] ∧
    (sigDual fEx 0 none 0).c = [⟨3, [(0, -1)], false⟩, ⟨-2, [], false⟩, ⟨1, [], false⟩] ∧
    (sigDual fEx 0 none 0).a = [1, 0, 0] ∧
    (sigDual fEx 0 none 0).obj = [3, -2, 1] := by
  with_unfolding_all decide

private theorem dualEx1 :
    (sigDual fEx 1 none 0).alpha = [[0], [1], [2], [3], [4]] ∧
    (sigDual fEx 1 none 0).a = [1, 1, 1, 0, 0] ∧
    (sigDual fEx 1 none 0).obj = [3, 1, 2, -1, 1] := by
  with_unfolding_all decide

example : (modOf fEx 0 none 0).terms = [([0], 1)] := by with_unfolding_all decide
example : (modOf fEx 1 none 0).terms = [([0], 1), ([1], 1), ([2], 1)] := by with_unfolding_all decide
-- a custom modulator support; level 2: t² = (1 + e^{x/2})²
example : (modOf fEx 2 (some [[0], [1/2]]) 0).terms = [([0], 1), ([1/2], 2), ([1], 1)] := by
  with_unfolding_all decide
-- an explicit zero term is dropped first
example : (sigPrimal ⟨1, [([0], 3), ([5], 0), ([1], -2), ([2], 1)]⟩ 0 none 0).alpha = [[0], [1], [2]] := by
  with_unfolding_all decide

-- the theorems apply to the instance (at both levels, for every assignment and every real point)
example (σ : Nat → Rat) (y : ℝ) :
    sigR (primalCoeffs (sigPrimal fEx 1 none 0) σ) [y]
      = (sigR fEx.terms [y] - (σ 0 : ℝ)) * sigR (modOf fEx 1 none 0).terms [y] :=
  sigPrimal_function fEx fEx_wf 1 none (fun _ h => by cases h) 0 σ [y] rfl

example (y : ℝ) : 0 < sigR (modOf fEx 1 none 0).terms [y] :=
  modulator_pos fEx fEx_wf 1 none (none_hms _) 0 [y] rfl

example (σ : Nat → Rat) (j : Nat) (hj : j < 5) :
    Lin.value σ ((sigPrimal fEx 1 none 0).c.getD j 0)
      = (sigDual fEx 1 none 0).obj.getD j 0 - σ 0 * (sigDual fEx 1 none 0).a.getD j 0 :=
  (primal_dual_coeffs_partial fEx fEx_wf 1 none (fun _ h => by cases h) 0 σ).2 j (by rw [primalEx1.1]; exact hj)

/-- the certificate hypothesis of `primal_bound` is satisfiable with the OPTIMAL value: at `γ = 2` the level-0
    coefficient vector is `1 − 2e^x + e^{2x} = (e^x − 1)² ≥ 0` -/
private theorem certEx (x : List ℝ) (hx : x.length = 1) :
    0 ≤ sigR (primalCoeffs (sigPrimal fEx 0 none 0) (fun _ => 2)) x := by
  have v1 : Lin.value (fun _ => 2) ⟨3, [(0, -1)], false⟩ = 1 := by with_unfolding_all decide
  have v2 : Lin.value (fun _ => 2) ⟨-2, [], false⟩ = -2 := by with_unfolding_all decide
  have v3 : Lin.value (fun _ => 2) ⟨1, [], false⟩ = 1 := by with_unfolding_all decide
  match x, hx with
  | [y], _ =>
    have he : Real.exp (2 * y) = Real.exp y * Real.exp y := by
      rw [← Real.exp_add]; ring_nf
    unfold primalCoeffs
    rw [primalEx0.1, primalEx0.2]
    simp only [List.map_cons, List.map_nil, List.zip_cons_cons, List.zip_nil_right, v1, v2, v3, sigR, rdot,
      List.zipWith_cons_cons, List.zipWith_nil_right, List.sum_cons, List.sum_nil]
    push_cast
    simp only [zero_mul, one_mul, add_zero, Real.exp_zero, he]
    nlinarith [sq_nonneg (Real.exp y - 1)]

/-- hence `2 ≤ f(x)` for every real `x` (and `f(0) = 2`: the bound is attained) -/
example : ∀ x : List ℝ, x.length = 1 → ((2 : Rat) : ℝ) ≤ sigR fEx.terms x :=
  primal_bound fEx fEx_wf 0 none (none_hms _) 0 (fun _ => 2) (fun x => x.length = 1) (fun _ h => h) certEx

example : sigR fEx.terms [0] = 2 := by
  simp only [sigR, fEx, rdot, List.map_cons, List.map_nil, List.zipWith_cons_cons, List.zipWith_nil_right,
    List.sum_cons, List.sum_nil]
  norm_num

-- the dual attains `f(x)` at the scaled moment vector of every real point
example (y : ℝ) :
    let d := sigDual fEx 1 none 0
    let tx := sigR (modOf fEx 1 none 0).terms [y]
    let v := d.alpha.map fun a => Real.exp (rdot a [y]) / tx
    (List.zipWith (fun (a : Rat) (vj : ℝ) => (a : ℝ) * vj) d.a v).sum = 1 ∧
    (List.zipWith (fun (o : Rat) (vj : ℝ) => (o : ℝ) * vj) d.obj v).sum = sigR (withoutZeros isZeroQ fEx).terms [y] ∧
    ∀ vj ∈ v, 0 ≤ vj :=
  dual_attains fEx fEx_wf 1 none (none_hms _) 0 [y] rfl

/-- the hypotheses of weak duality are satisfiable, with equality in the conclusion: `γ = 2` and the moment vector
    `v = (1,1,1)` of `x = 0` at level 0 — pairing `(3−2) − 2 + 1 = 0`, normalisation `1`, dual objective `3 − 2 + 1 = 2` -/
example : ((2 : Rat) : ℝ) ≤ (List.zipWith (fun (o : Rat) (vj : ℝ) => (o : ℝ) * vj) (sigDual fEx 0 none 0).obj [1, 1, 1]).sum := by
  have v1 : Lin.value (fun _ => 2) ⟨3, [(0, -1)], false⟩ = 1 := by with_unfolding_all decide
  have v2 : Lin.value (fun _ => 2) ⟨-2, [], false⟩ = -2 := by with_unfolding_all decide
  have v3 : Lin.value (fun _ => 2) ⟨1, [], false⟩ = 1 := by with_unfolding_all decide
  refine weak_duality_partial fEx fEx_wf 0 none (fun _ h => by cases h) 0 (fun _ => 2) [1, 1, 1] ?_ ?_ ?_
  · rw [dualEx0.1]; rfl
  · rw [primalEx0.2]
    simp only [List.zipWith_cons_cons, List.zipWith_nil_right, List.sum_cons, List.sum_nil, v1, v2, v3]
    norm_num
  · rw [dualEx0.2.2.1]
    simp

end NonVacuity

end

end Sageopt.Props.C03
