/-
C03 — sig_relaxation gives a valid lower bound; primal and dual forms agree.
Property theorems about `Model/Relax.lean`.
-/
import SageoptModel.Model.Relax

namespace Sageopt.Props.C03
open Sageopt Sageopt.Sig Sageopt.Relax

/-- the primal builder produces one coefficient per exponent row of the modulated Lagrangian -/
theorem sigPrimal_shapes (f : SigQ) (ell : Nat) (ms : Option (List Exp)) (g : Nat) :
    (sigPrimal f ell ms g).alpha.length = (sigPrimal f ell ms g).c.length := by
  simp [sigPrimal, keys]

end Sageopt.Props.C03
