/-
C05, part D — the constrained polynomial bound over ALL sign orthants: the Lagrangian of `make_poly_lagrangian` is, at every
real point, `f − γ − Σ s·g − Σ z·h` (part B, `polyLagrangian_identity`) with `g`, `h` products of the input constraints
(`polyQFold_sound`), so nonnegativity of the Lagrangian and of the inequality multipliers at a feasible point gives `γ ≤ f(x)`;
those two nonnegativity facts are what the SAGE-polynomial constraints certify through the signomial representative
(part A, `sigRep_minorant`), and the multipliers are polynomials in the sense required there.
Property theorems about `makePolyLagrangian` / `varSig` / `sigRep` of `Model/Poly.lean`; semantics: `Lemmas/PolySem.lean`.
-/
import SageoptModel.Props.C05
import SageoptModel.Props.C05Lagr
import SageoptModel.Lemmas.PolyDBound

namespace Sageopt.Props.C05
open Sageopt Sageopt.Sig Sageopt.Relax Sageopt.Poly Sageopt.Sage

/-- THE BOUND (ell = 0) at a real point of ANY orthant: if, under an assignment of γ and the multiplier coefficients, the Lagrangian and
    every inequality multiplier are nonnegative at a point x that satisfies all the original constraints, then γ ≤ p(x) -/
theorem poly_constrained_bound (f : SigQ) (gts eqs : List SigQ) (hf : PolyWfQ' f)
    (hg : ∀ g ∈ gts ++ eqs, PolyWfQ' g ∧ g.n = f.n) (p q : Nat) (gid : Nat) (sIds zIds : List (List Nat))
    (σ : Nat → Rat) (x : List ℝ) (hl : x.length = f.n) :
    let lg := makePolyLagrangian f gts eqs p q gid sIds zIds
    0 ≤ polyR (evalL σ lg.L.terms) x →
    (∀ ids ∈ sIds, 0 ≤ polyR (evalL σ (varSig f.n lg.alphaMult ids).terms) x) →
    (∀ g ∈ gts, 0 ≤ polyR g.terms x) → (∀ h ∈ eqs, polyR h.terms x = 0) →
    (σ gid : ℝ) ≤ polyR f.terms x := by
  intro lg hL hs hgt heq
  have hid := polyLagrangian_identity f gts eqs hf hg p q gid sIds zIds σ x hl
  -- every folded inequality is nonnegative at x
  have hgfold : ∀ pr ∈ lg.gts, 0 ≤ polyR pr.terms x := by
    intro pr hpr
    obtain ⟨comb, _, _, hmem, he⟩ :=
      polyQFold_sound f.n gts (fun g h => hg g (List.mem_append_left _ h)) q pr hpr
    rw [he x]
    exact pd_comb_nonneg gts comb x hmem hgt
  -- every folded equality vanishes at x
  have hefold : ∀ pr ∈ lg.eqs, polyR pr.terms x = 0 := by
    intro pr hpr
    obtain ⟨comb, hne, _, hmem, he⟩ :=
      polyQFold_sound f.n eqs (fun g h => hg g (List.mem_append_right _ h)) q pr hpr
    rw [he x]
    exact pd_comb_zero eqs comb x hne hmem heq
  exact pd_bound_of_identity (lg.gts.zip sIds) (lg.eqs.zip zIds)
    (fun pr => polyR (evalL σ (varSig f.n lg.alphaMult pr.2).terms) x) (fun pr => polyR pr.1.terms x)
    (fun pr => polyR (evalL σ (varSig f.n lg.alphaMult pr.2).terms) x) (fun pr => polyR pr.1.terms x)
    _ _ _ hid hL
    (fun pr hpr => ⟨hs pr.2 (List.of_mem_zip hpr).2, hgfold pr.1 (List.of_mem_zip hpr).1⟩)
    (fun pr hpr => hefold pr.1 (List.of_mem_zip hpr).1)

/-- nonnegativity of a polynomial with variable coefficients at a real point without zero coordinate follows from nonnegativity of its
    signomial representative at log|x| (this is how the SAGE-polynomial constraints on the Lagrangian and on the multipliers, which
    live in log-magnitudes, certify the two nonnegativity hypotheses of `poly_constrained_bound` in every orthant) -/
theorem poly_nonneg_of_sigrep (pl : SigL) (hp : PolyWf pl) (chat : List Nat) (hc : (needVars pl).length ≤ chat.length)
    (σ : Nat → Rat) (hside : SideOk σ (sigRep pl chat).2) (x : List ℝ) (hx : NoZero x) (hl : x.length = pl.n)
    (h : 0 ≤ sigR (evalL σ (sigRep pl chat).1.terms) (logAbs x)) :
    0 ≤ polyR (evalL σ pl.terms) x :=
  le_trans h (sigRep_minorant pl hp chat hc σ hside x hx hl)

/-- the multipliers are polynomials in the sense of `PolyWf` (so `poly_nonneg_of_sigrep` applies to them) -/
theorem multiplier_polyWf (n : Nat) (alphaMult : List Exp) (h : ∀ a ∈ alphaMult, a.length = n ∧ isPolyExp a = true)
    (hnd : alphaMult.Nodup) (ids : List Nat) :
    PolyWf (varSig n alphaMult ids) ∧ (varSig n alphaMult ids).n = n := by
  refine ⟨?_, lg_varSig_n n alphaMult ids⟩
  intro t ht
  obtain ⟨hrow, i, _, hti⟩ := pd_varSig_mem n alphaMult h hnd ids t ht
  rw [lg_varSig_n]
  exact ⟨(h t.1 hrow).1, (h t.1 hrow).2, by rw [hti]; exact pd_var_bad i⟩

/-! ### non-vacuity: minimise `p(x) = x` subject to `g(x) = 1 − x² ≥ 0` (one variable; the minimum `−1` is attained at the
NEGATIVE point `x = −1`), `p = 0`, `q = 1`; γ is the scalar variable 0 and the (constant) multiplier of `g` the scalar variable 1.
Under `γ = −1`, `s = 1/2` the Lagrangian is `x + 1 − (1 − x²)/2 = (x + 1)²/2`.  Concrete values of the executable model are
checked by `decide` (core `Rat` operations are irreducible, hence `with_unfolding_all`). -/
section NonVacuity

@[instance_reducible] private def decEqSigD {C : Type} [DecidableEq C] : DecidableEq (SigT C) := fun a b =>
  match a, b with
  | ⟨n1, t1⟩, ⟨n2, t2⟩ =>
    if h : n1 = n2 ∧ t1 = t2 then isTrue (by rw [h.1, h.2])
    else isFalse (fun e => h (by cases e; exact ⟨rfl, rfl⟩))

attribute [local instance] decEqSigD

/-- `x` -/
private def fD : SigQ := ⟨1, [([1], 1)]⟩
/-- `1 − x²` -/
private def gD : SigQ := ⟨1, [([0], 1), ([2], -1)]⟩
private def lgD : PolyLagrangian := makePolyLagrangian fD [gD] [] 0 1 0 [[1]] []
/-- γ = −1, s = 1/2 -/
private def σD : Nat → Rat := fun i => if i = 0 then -1 else 1 / 2

private theorem fD_wf : PolyWfQ' fD :=
  ⟨by
    show ∀ t ∈ fD.terms, t.1.length = fD.n ∧ isPolyExp t.1 = true
    with_unfolding_all decide, by decide⟩

private theorem gD_wf : PolyWfQ' gD :=
  ⟨by
    show ∀ t ∈ gD.terms, t.1.length = gD.n ∧ isPolyExp t.1 = true
    with_unfolding_all decide, by decide⟩

private theorem hgD : ∀ g ∈ [gD] ++ ([] : List SigQ), PolyWfQ' g ∧ g.n = fD.n := by
  intro g hg
  simp only [List.append_nil, List.mem_singleton] at hg
  rw [hg]
  exact ⟨gD_wf, rfl⟩

private theorem lgD_alphaMult : lgD.alphaMult = [[0]] := by with_unfolding_all decide

-- L = x − (γ + s) + s·x²
private theorem lgD_L : lgD.L = ⟨1, [([1], Lin.const 1), ([0], ⟨0, [(0, -1), (1, -1)], false⟩), ([2], ⟨0, [(1, 1)], false⟩)]⟩ := by
  with_unfolding_all decide

private theorem h0D : ((0 : Rat)).num.toNat = 0 := by with_unfolding_all decide
private theorem h1D : ((1 : Rat)).num.toNat = 1 := by with_unfolding_all decide
private theorem h2D : ((2 : Rat)).num.toNat = 2 := by with_unfolding_all decide

private theorem fD_val (t : ℝ) : polyR fD.terms [t] = t := by
  simp [polyR, monoR, fD]

private theorem gD_val (t : ℝ) : polyR gD.terms [t] = 1 - t ^ 2 := by
  simp [polyR, monoR, gD]
  ring

/-- under `σD` the Lagrangian is `(t + 1)²/2`: nonnegative at EVERY real point, in particular on the negative half-line -/
private theorem lgD_L_val (t : ℝ) : polyR (evalL σD lgD.L.terms) [t] = (t + 1) ^ 2 / 2 := by
  have v1 : Lin.value σD (Lin.const 1) = 1 := by with_unfolding_all decide
  have v2 : Lin.value σD ⟨0, [(0, -1), (1, -1)], false⟩ = 1 / 2 := by with_unfolding_all decide
  have v3 : Lin.value σD ⟨0, [(1, 1)], false⟩ = 1 / 2 := by with_unfolding_all decide
  rw [lgD_L]
  simp only [evalL, polyR, monoR, List.map_cons, List.map_nil, List.zipWith_cons_cons, List.zipWith_nil_right,
    List.sum_cons, List.sum_nil, List.prod_cons, List.prod_nil, v1, v2, v3, h0D, h1D, h2D]
  push_cast
  ring

/-- the multiplier of `g` is the constant `s = 1/2 ≥ 0` -/
private theorem multD_nonneg (t : ℝ) : ∀ ids ∈ [[1]], 0 ≤ polyR (evalL σD (varSig fD.n lgD.alphaMult ids).terms) [t] := by
  intro ids hids
  rw [List.mem_singleton] at hids
  rw [hids, lgD_alphaMult]
  show 0 ≤ polyR (evalL σD (varSig 1 [[0]] [1]).terms) [t]
  rw [varSig_polyR 1 [[0]] (by simp) (by with_unfolding_all decide) [1] rfl]
  have hσ : σD 1 = 1 / 2 := by with_unfolding_all decide
  simp only [List.zipWith_cons_cons, List.zipWith_nil_right, List.sum_cons, List.sum_nil, monoR, List.prod_cons,
    List.prod_nil, h0D, hσ]
  push_cast
  norm_num

/-- ALL hypotheses of `poly_constrained_bound` hold for the instance at every feasible real point `1 − t² ≥ 0` (of either sign);
    the conclusion is `−1 ≤ t` -/
example (t : ℝ) (ht : 0 ≤ 1 - t ^ 2) : ((-1 : Rat) : ℝ) ≤ t := by
  have h := poly_constrained_bound fD [gD] [] fD_wf hgD 0 1 0 [[1]] [] σD [t] rfl
    (by
      show 0 ≤ polyR (evalL σD lgD.L.terms) [t]
      rw [lgD_L_val]
      positivity)
    (multD_nonneg t)
    (by
      intro g hg
      rw [List.mem_singleton] at hg
      rw [hg, gD_val]
      exact ht)
    (by intro h hh; simp at hh)
  rw [fD_val] at h
  exact h

/-- … in particular at the minimiser `x = −1`, a point of the negative orthant, where the bound is tight -/
example : ((-1 : Rat) : ℝ) ≤ polyR fD.terms [-1] :=
  poly_constrained_bound fD [gD] [] fD_wf hgD 0 1 0 [[1]] [] σD [-1] rfl
    (by
      show 0 ≤ polyR (evalL σD lgD.L.terms) [-1]
      rw [lgD_L_val]
      norm_num)
    (multD_nonneg (-1))
    (by
      intro g hg
      rw [List.mem_singleton] at hg
      rw [hg, gD_val]
      norm_num)
    (by intro h hh; simp at hh)

/-- the multiplier of the instance is a polynomial in the sense of `PolyWf` -/
example : PolyWf (varSig 1 lgD.alphaMult [1]) ∧ (varSig 1 lgD.alphaMult [1]).n = 1 :=
  multiplier_polyWf 1 lgD.alphaMult (by rw [lgD_alphaMult]; with_unfolding_all decide) (by rw [lgD_alphaMult]; simp) [1]

/-- `poly_nonneg_of_sigrep` on `x² + c·x³ + 4` with the scalar variable `c` (id 0), `c = 3`, `ĉ₇ = −3`, at the negative point `x = −1`:
    the representative `e^{2y} + ĉ·e^{3y} + 4` is `1 − 3 + 4 = 2 ≥ 0` at `y = log|−1| = 0`, hence `p(−1) ≥ 0` -/
private def pD : SigL := ⟨1, [([2], Lin.const 1), ([3], Lin.var 0), ([0], Lin.const 4)]⟩
private def τD : Nat → Rat := fun i => if i = 0 then 3 else -3

private theorem pD_wf : PolyWf pD := by
  show ∀ t ∈ pD.terms, t.1.length = pD.n ∧ isPolyExp t.1 = true ∧ t.2.bad = false
  with_unfolding_all decide

private theorem pD_rep : sigRep pD [7] = (⟨1, [([2], Lin.const 1), ([3], Lin.var 7), ([0], Lin.const 4)]⟩, [⟨7, Lin.var 0⟩]) := by
  with_unfolding_all rfl

example : 0 ≤ polyR (evalL τD pD.terms) [-1] := by
  apply poly_nonneg_of_sigrep pD pD_wf [7] (by
      have h : needVars pD = [1] := by with_unfolding_all decide
      rw [h]; decide) τD
  · rw [pD_rep]
    intro s hs
    simp only [List.mem_singleton] at hs
    subst hs
    with_unfolding_all decide
  · intro t ht
    simp only [List.mem_singleton] at ht
    subst ht
    norm_num
  · rfl
  · have v1 : Lin.value τD (Lin.const 1) = 1 := by with_unfolding_all decide
    have v2 : Lin.value τD (Lin.var 7) = -3 := by with_unfolding_all decide
    have v3 : Lin.value τD (Lin.const 4) = 4 := by with_unfolding_all decide
    rw [pD_rep]
    simp only [evalL, sigR, logAbs, rdot, List.map_cons, List.map_nil, List.zipWith_cons_cons, List.zipWith_nil_right,
      List.sum_cons, List.sum_nil, v1, v2, v3]
    norm_num

end NonVacuity

end Sageopt.Props.C05
