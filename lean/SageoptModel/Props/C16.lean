/-
C16 — moment-reduction matrices express multiplier products exactly.
Property theorems about `Model/SymCorr.lean`.
-/
import SageoptModel.Model.SymCorr

namespace Sageopt.Props.C16
open Sageopt.Sig Sageopt.SymCorr

/-- a row always matches itself, for every positive tolerance -/
theorem rowMatch_self (tol : Rat) (htol : 0 < tol) (row : Exp) : rowMatch tol row row = true := by
  induction row with
  | nil => simp [rowMatch]
  | cons a as ih =>
    simp only [rowMatch, List.zipWith_cons_cons, List.all_cons, Bool.and_eq_true] at ih ⊢
    refine ⟨?_, ih⟩
    have h0 : a - a = 0 := Rat.sub_self
    simp [absQ, h0, htol]

end Sageopt.Props.C16
