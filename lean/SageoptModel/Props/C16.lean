/-
C16 — moment-reduction matrices express multiplier products exactly.
Property theorems about `Model/SymCorr.lean`.
-/
import SageoptModel.Model.SymCorr
import SageoptModel.Lemmas.SigSem
import SageoptModel.Lemmas.SymCorrMatch
import SageoptModel.Lemmas.SymCorrRcv
import SageoptModel.Lemmas.SymCorrMra
import SageoptModel.Lemmas.SymCorrExample

namespace Sageopt.Props.C16
open Sageopt.Sig Sageopt.SymCorr

/-- a row always matches itself, for every positive tolerance -/
theorem rowMatch_self (tol : Rat) (htol : 0 < tol) (row : Exp) : rowMatch tol row row = true := by
  induction row with
  | nil => simp [rowMatch]
  | cons a as ih =>
    simp only [rowMatch, List.zipWith_cons_cons, List.all_cons, Bool.and_eq_true] at ih ⊢
    refine ⟨?_, ih⟩
    simp [absQ, htol]

/-- the tolerance the code uses: 10^-(7+1) -/
def tol8 : Rat := 1 / (10 ^ (decimals + 1) : Nat)

/-- on 7-decimal-rounded rows tolerance matching is exact matching: two distinct grid points differ by
    at least 1e-7 > 1e-8 -/
theorem tol_match_exact (r1 r2 : Exp) (h1 : OnGrid r1) (h2 : OnGrid r2) (hl : r1.length = r2.length) :
    rowMatch tol8 r1 r2 = true ↔ r1 = r2 := by
  have tol8_eq : tol8 = scTol := rfl
  rw [tol8_eq]; exact sc_rowMatch_iff r1 r2 h1 h2 hl

/-- `row_correspondence` returns exactly the rows of alpha1 that occur in alpha2, with the index of the
    FIRST occurrence -/
theorem row_correspondence_spec (n : Nat) (a1 a2 : List Exp)
    (h1 : ∀ r ∈ a1, OnGrid r ∧ r.length = n) (h2 : ∀ r ∈ a2, OnGrid r ∧ r.length = n) :
    let res := rowCorrespondence tol8 a1 a2
    res.1.length = res.2.length ∧
    (∀ p ∈ res.1.zip res.2, a1.getD p.1 [] = a2.getD p.2 [] ∧ p.1 < a1.length ∧ p.2 < a2.length ∧
        ∀ j < p.2, a2.getD j [] ≠ a1.getD p.1 []) ∧
    (∀ i < a1.length, a1.getD i [] ∈ a2 → i ∈ res.1) := by
  intro res
  have hres : res = ((scPairs scTol a1 a2).map (·.1), (scPairs scTol a1 a2).map (·.2)) := rfl
  rw [hres]
  refine ⟨by simp, ?_, ?_⟩
  · intro p hp
    rw [sc_zip_pairs, sc_mem_pairs] at hp
    obtain ⟨hlt, hf⟩ := hp
    rw [sc_findRow_some n _ a2 (h1 _ (List.getElem_mem hlt)) h2] at hf
    obtain ⟨hlt2, heq, hfirst⟩ := hf
    rw [sc_getD_lt _ _ _ hlt, sc_getD_lt _ _ _ hlt2]
    refine ⟨heq.symm, hlt, hlt2, ?_⟩
    intro j hj
    rw [sc_getD_lt _ _ _ (show j < a2.length by omega)]
    exact hfirst j hj
  · intro i hi hmem
    rw [sc_getD_lt _ _ _ hi] at hmem
    obtain ⟨loc, hloc⟩ := sc_findRow_isSome_of_mem _ a2 hmem
    simp only [List.mem_map]
    exact ⟨(i, loc), (sc_mem_pairs _ _ _ _).mpr ⟨hi, hloc⟩, rfl⟩

variable {C : Type} [CommRing C]

/-- relative_coeff_vector places g's coefficients at the matching rows of alpha and zero elsewhere.
    Stated row by row, hence independent of the order of the rows of `ref` (and of g). -/
theorem rcv_placement (n : Nat) (g : SigT C) (hg : Wf g) (hn : g.n = n) (ref : List Exp)
    (href : ∀ r ∈ ref, OnGrid r ∧ r.length = n) (hnd : ref.Nodup) :
    (relativeCoeffVector tol8 g.terms ref).length = ref.length ∧
    ∀ k < ref.length, (relativeCoeffVector tol8 g.terms ref).getD k 0 = coeff g.terms (ref.getD k []) := by
  have tol8_eq : tol8 = scTol := rfl
  rw [tol8_eq]
  refine ⟨sc_rcv_length _ _ _, ?_⟩
  intro k hk
  rw [sc_rcv_eq_map n g.terms (sc_wf_rows hg hn) hg.nodup ref href hnd]
  rw [sc_getD_lt _ _ _ (by simpa using hk), sc_getD_lt _ _ _ hk]
  simp

/-- row-order independence, explicitly: permuting the reference rows permutes the result -/
theorem rcv_perm (n : Nat) (g : SigT C) (hg : Wf g) (hn : g.n = n) (ref ref' : List Exp)
    (href : ∀ r ∈ ref, OnGrid r ∧ r.length = n) (hnd : ref.Nodup) (hp : ref'.Perm ref) :
    ∀ k < ref'.length, ∀ k' < ref.length, ref'.getD k [] = ref.getD k' [] →
      (relativeCoeffVector tol8 g.terms ref').getD k 0 = (relativeCoeffVector tol8 g.terms ref).getD k' 0 := by
  intro k hk k' hk' heq
  have href' : ∀ r ∈ ref', OnGrid r ∧ r.length = n := fun r hr => href r (hp.mem_iff.mp hr)
  have hnd' : ref'.Nodup := hp.nodup_iff.mpr hnd
  rw [(rcv_placement n g hg hn ref href hnd).2 k' hk', (rcv_placement n g hg hn ref' href' hnd').2 k hk, heq]

/-- if supp g ⊆ ref then  Σ_k (relCoeff g ref)_k · χ(ref_k) = g  (evaluated against any χ) -/
theorem rcv_eval (n : Nat) (g : SigT C) (hg : Wf g) (hn : g.n = n) (ref : List Exp)
    (href : ∀ r ∈ ref, OnGrid r ∧ r.length = n) (hnd : ref.Nodup)
    (hsupp : ∀ t ∈ g.terms, t.2 ≠ 0 → t.1 ∈ ref) (χ : Exp → C) :
    ((List.zipWith (fun c r => c * χ r) (relativeCoeffVector tol8 g.terms ref) ref)).sum = eval χ g.terms := by
  have tol8_eq : tol8 = scTol := rfl
  rw [tol8_eq]
  exact sc_rcv_eval n g.terms (sc_wf_rows hg hn) hg.nodup ref href hnd hsupp χ

/-- a missing exponent is an error, never silently dropped -/
theorem mra_missing_is_error (n : Nat) (shKeys shhKeys : List Exp) (h : SigT Rat) (Lkeys : List Exp) :
    (∃ m, momentReductionArray tol8 n shKeys shhKeys h Lkeys = .raises m) ↔ ∃ r ∈ shhKeys, r ∉ Lkeys := by
  unfold momentReductionArray
  by_cases hall : (shhKeys.all fun r => Lkeys.contains r) = true
  · rw [if_pos hall]
    simp only [List.all_eq_true, List.contains_iff_mem] at hall
    constructor
    · rintro ⟨m, hm⟩; cases hm
    · rintro ⟨r, hr, hnr⟩; exact absurd (hall r hr) hnr
  · rw [if_neg hall]
    simp only [List.all_eq_true, List.contains_iff_mem, not_forall] at hall
    obtain ⟨r, hr, hnr⟩ := hall
    exact ⟨fun _ => ⟨r, hr, hnr⟩, fun _ => ⟨_, rfl⟩⟩

/-- the moment-reduction identity: for EVERY coefficient vector `sc` of the multiplier,
    s(x)·h(x) = sc · (C G_L(x)), where G_L lists L's monomials — for every character χ -/
theorem mra_identity (n : Nat) (χ : Exp → Rat) (hχ : IsChar n χ)
    (shKeys : List Exp) (h : SigT Rat) (hh : Wf h) (hhn : h.n = n) (Lkeys : List Exp)
    (hsh : ∀ r ∈ shKeys, OnGrid r ∧ r.length = n) (hL : ∀ r ∈ Lkeys, OnGrid r ∧ r.length = n) (hLnd : Lkeys.Nodup)
    (shhKeys : List Exp) (Cm : List (List Rat))
    (hC : momentReductionArray tol8 n shKeys shhKeys h Lkeys = .ok Cm)
    (hcontained : ∀ a ∈ shKeys, ∀ t ∈ h.terms, t.2 ≠ 0 → addExp t.1 a ∈ Lkeys)
    (sc : List Rat) (hsc : sc.length = shKeys.length) :
    Cm.length = shKeys.length ∧
    (List.zipWith (fun s row => s * (List.zipWith (fun c r => c * χ r) row Lkeys).sum) sc Cm).sum
      = (List.zipWith (fun s a => s * χ a) sc shKeys).sum * eval χ h.terms := by
  have _ := hsc
  exact sc_mra_identity_grid n χ (sc_gridChar_of_isChar hχ) shKeys h hh hhn Lkeys hsh hL hLnd shhKeys Cm hC
    hcontained sc

/-! ### non-vacuity: the hypotheses hold on concrete data

Instance (defined in `Lemmas/SymCorrExample.lean`):  `h = 2·x^(1/2) + 3`, multiplier rows
`[[0],[1/2]]`, `L` rows `[[0],[1/2],[1]]`; the model returns `[[3,2,0],[0,3,2]]`. -/

/-- grid rows (one fractional entry) that differ are NOT matched … -/
example : rowMatch tol8 [1/2, 3] [1/2, 4] ≠ true := by
  have h1 : OnGrid [(1/2 : Rat), 3] := sc_onGrid_of_scaled _ (by
    intro q hq
    simp only [List.mem_cons, List.not_mem_nil, or_false] at hq
    rcases hq with rfl | rfl
    · exact ⟨5000000, by norm_num⟩
    · exact ⟨30000000, by norm_num⟩)
  have h2 : OnGrid [(1/2 : Rat), 4] := sc_onGrid_of_scaled _ (by
    intro q hq
    simp only [List.mem_cons, List.not_mem_nil, or_false] at hq
    rcases hq with rfl | rfl
    · exact ⟨5000000, by norm_num⟩
    · exact ⟨40000000, by norm_num⟩)
  rw [Ne, tol_match_exact _ _ h1 h2 rfl]
  norm_num

/-- … and equal ones are -/
example : rowMatch tol8 [1/2] [1/2] = true :=
  (tol_match_exact _ _ sc_ex_half.1 sc_ex_half.1 rfl).mpr rfl

/-- `row_correspondence_spec` on `alpha1 = h`'s rows, `alpha2 = L` -/
example :=
  row_correspondence_spec 1 (keys scExH.terms) scExL
    (fun r hr => by
      obtain ⟨t, ht, rfl⟩ := List.mem_map.mp hr
      exact sc_wf_rows sc_exH_wf rfl t ht)
    sc_exL_rows

example := rcv_placement 1 scExH sc_exH_wf rfl scExL sc_exL_rows sc_exL_nodup

/-- a genuine permutation of the reference rows -/
example := rcv_perm 1 scExH sc_exH_wf rfl scExL [[1/2], [0], [1]] sc_exL_rows sc_exL_nodup
  (by unfold scExL; exact List.Perm.swap _ _ _)

example (χ : Exp → Rat) := rcv_eval 1 scExH sc_exH_wf rfl scExL sc_exL_rows sc_exL_nodup sc_exH_supp χ

/-- a product row missing from `L` raises -/
example : ∃ m, momentReductionArray tol8 1 scExSh [[0], [2]] scExH scExL = .raises m :=
  (mra_missing_is_error 1 scExSh [[0], [2]] scExH scExL).mpr ⟨[2], by simp, by simp [scExL]; norm_num⟩

/-- all hypotheses of `mra_identity` hold on the instance (with the trivial character — over `Rat`
    it is the only `IsChar`; see `sc_mra_identity_grid` below for non-trivial `χ`) -/
example (s0 s1 : Rat) :=
  mra_identity 1 (fun _ => 1) (sc_isChar_one 1) scExSh scExH sc_exH_wf rfl scExL sc_exSh_rows sc_exL_rows
    sc_exL_nodup scExShh scExCm sc_ex_mra sc_ex_contained [s0, s1] rfl

/-- the same instance against the non-trivial grid character `χ a = ∏ⱼ 2^(aⱼ·10⁷)`
    (i.e. `x = 2^(10⁷)`), through the stronger helper form -/
example (s0 s1 : Rat) :=
  sc_mra_identity_grid 1 (scPowChar 2) (sc_powChar_gridChar 1 2 (by norm_num)) scExSh scExH sc_exH_wf rfl
    scExL sc_exSh_rows sc_exL_rows sc_exL_nodup scExShh scExCm sc_ex_mra sc_ex_contained [s0, s1]


/-- The moment-reduction identity in the form that matters for real evaluation points: for EVERY
    coefficient vector `sc` and every `χ` that is multiplicative on the rows that can occur (width `n`,
    on the 7-decimal grid) — e.g. `χ a = e^{a·x}` restricted to such rows, or the non-trivial rational
    character `scPowChar c` (`sc_powChar_gridChar`).  `mra_identity` is the special case of a `χ` that is
    multiplicative on all rational rows. -/
theorem mra_identity_grid (n : Nat) (χ : Exp → Rat) (hχ : scGridChar n χ)
    (shKeys : List Exp) (h : SigT Rat) (hh : Wf h) (hhn : h.n = n) (Lkeys : List Exp)
    (hsh : ∀ r ∈ shKeys, OnGrid r ∧ r.length = n) (hL : ∀ r ∈ Lkeys, OnGrid r ∧ r.length = n) (hLnd : Lkeys.Nodup)
    (shhKeys : List Exp) (Cm : List (List Rat))
    (hC : momentReductionArray tol8 n shKeys shhKeys h Lkeys = .ok Cm)
    (hcontained : ∀ a ∈ shKeys, ∀ t ∈ h.terms, t.2 ≠ 0 → addExp t.1 a ∈ Lkeys)
    (sc : List Rat) :
    Cm.length = shKeys.length ∧
    (List.zipWith (fun s row => s * (List.zipWith (fun c r => c * χ r) row Lkeys).sum) sc Cm).sum
      = (List.zipWith (fun s a => s * χ a) sc shKeys).sum * eval χ h.terms :=
  sc_mra_identity_grid n χ hχ shKeys h hh hhn Lkeys hsh hL hLnd shhKeys Cm hC hcontained sc

end Sageopt.Props.C16
