/-
C19 — presolve and compile options never change what is being certified.
Property theorems about `Model/Sage.lean` and `Model/SageKernel.lean`.
-/
import SageoptModel.Model.Sage
import SageoptModel.Model.SageKernel
import SageoptModel.Lemmas.ExpCone
import SageoptModel.Lemmas.SageSem
import SageoptModel.Props.C02
import SageoptModel.Lemmas.OptCone
import SageoptModel.Lemmas.OptDualForms
import SageoptModel.Lemmas.OptKernel
import SageoptModel.Lemmas.OptRankC
import SageoptModel.Lemmas.OptForce
import SageoptModel.Lemmas.OptForceEq
import SageoptModel.Lemmas.CompileAtoms

namespace Sageopt.Props.C19
open Sageopt Sageopt.Sage Sageopt.Compile Sageopt.Solvers Sageopt.Analysis

/-- the exponential cone is monotone in its first coordinate: this is what makes the compact dual rows
    `(−(α_i−α_j)·μ, v_j, v_i) ∈ K_exp` equivalent to the epigraph form `(−epi, v_j, v_i) ∈ K_exp ∧ epi ≤ (α_i−α_j)·μ` -/
theorem expcone_mono_first (x x' y z : ℝ) (h : InExpCone x y z) (hx : x' ≤ x) : InExpCone x' y z := by
  rcases h with ⟨hz, h⟩ | ⟨hz, hx0, hy⟩
  · left
    refine ⟨hz, le_trans ?_ h⟩
    apply mul_le_mul_of_nonneg_left _ hz.le
    exact Real.exp_le_exp.mpr (div_le_div_of_nonneg_right hx hz.le)
  · right; exact ⟨hz, le_trans hx hx0, hy⟩

/-- non-vacuity of `expcone_mono_first`: `(0, 1, 1) ∈ K_exp` (`1·e⁰ ≤ 1`), hence `(−1, 1, 1) ∈ K_exp` -/
example : InExpCone (-1) 1 1 :=
  expcone_mono_first 0 (-1) 1 1 (Or.inl ⟨one_pos, by simp⟩) (by norm_num)

/-! ### compact vs epigraph dual rows (`compact_dual`) -/

def withCompact (inp : DualIn) (b : Bool) : DualIn := { inp with settings := { inp.settings with compactDual := b } }

/-- every point of the epigraph form is a point of the compact form (the same assignment) -/
theorem compact_of_epigraph (Q : CType → List ℝ → Prop) (inp : DualIn) (hwf : C02.WfDual (withCompact inp false))
    (rowsE : List CRow) (KE : List Cone) (hE : dualRows (withCompact inp false) = .ok (rowsE, KE))
    (rowsC : List CRow) (KC : List Cone) (hC : dualRows (withCompact inp true) = .ok (rowsC, KC))
    (σ : Nat → ℝ) (hσ : FeasRows Q σ rowsE KE) : FeasRows Q σ rowsC KC := by
  rw [opt_dualRows_sem Q (opt_withCompact inp false) hwf.dom rowsE KE hE] at hσ
  rw [opt_dualRows_sem Q (opt_withCompact inp true) hwf.dom rowsC KC hC]
  exact opt_dualSem_compact_of_epi Q inp σ hσ

/-- every point of the compact form extends (on the epigraph variables only) to a point of the epigraph form -/
theorem epigraph_of_compact (Q : CType → List ℝ → Prop) (inp : DualIn) (hwf : C02.WfDual (withCompact inp false))
    (rowsE : List CRow) (KE : List Cone) (hE : dualRows (withCompact inp false) = .ok (rowsE, KE))
    (rowsC : List CRow) (KC : List Cone) (hC : dualRows (withCompact inp true) = .ok (rowsC, KC))
    (σ : Nat → ℝ) (hσ : FeasRows Q σ rowsC KC) :
    ∃ σ' : Nat → ℝ, (∀ id, id ∉ inp.ids.flatMap (·.epi) → σ' id = σ id) ∧ FeasRows Q σ' rowsE KE := by
  rw [opt_dualRows_sem Q (opt_withCompact inp true) hwf.dom rowsC KC hC] at hσ
  obtain ⟨h1, h2⟩ := opt_dualSem_epi_of_compact Q inp hwf.vlen
    (fun p hp => ⟨(hwf.cover p hp).1, (hwf.cover p hp).2.1⟩) (fun p hp => (hwf.sizes p hp).2 rfl)
    hwf.fresh.1 hwf.fresh.2 σ hσ
  refine ⟨_, h1, ?_⟩
  rw [opt_dualRows_sem Q (opt_withCompact inp false) hwf.dom rowsE KE hE]
  exact h2

/-! non-vacuity: the epigraph-form instance of C02 (`α = (0, 1, 2)ᵀ`, `v` a Variable, full covers) -/

private theorem exEpi_wf : C02.WfDual (withCompact C02.exEpi false) := C02.exEpi_wf

/-- both forms compile -/
example : ∃ rows K, dualRows (withCompact C02.exEpi false) = .ok (rows, K) ∧ rows.length = 27 ∧ K.length = 10 :=
  ⟨_, _, rfl, rfl, rfl⟩
example : dualRows (withCompact C02.exEpi true) = .ok (C02.exOrdRows, ⟨.pos, 3⟩ :: List.replicate 6 ⟨.exp, 3⟩) := by
  with_unfolding_all decide

/-- the epigraph form has a point (a moment vector, by C02), which is then a point of the compact form -/
example (Q : CType → List ℝ → Prop) (rowsE : List CRow) (KE : List Cone) (rowsC : List CRow) (KC : List Cone)
    (hE : dualRows (withCompact C02.exEpi false) = .ok (rowsE, KE))
    (hC : dualRows (withCompact C02.exEpi true) = .ok (rowsC, KC)) :
    ∃ σ : Nat → ℝ, FeasRows Q σ rowsE KE ∧ FeasRows Q σ rowsC KC := by
  obtain ⟨_, _, h3⟩ := C02.dual_moment_extension Q C02.exEpi C02.exEpi_wf _ _ hE [0] [0] rfl rfl 1 zero_le_one
    (fun _ => 1) (by
      intro j hj
      have hj' : j = 0 ∨ j = 1 ∨ j = 2 := by have : j < 3 := hj; omega
      rcases hj' with rfl | rfl | rfl <;> simp [C02.exEpi, C02.exOrd, C02.exV, C02.exAlpha, varE, argVal, rdot])
  exact ⟨_, h3, compact_of_epigraph Q C02.exEpi exEpi_wf _ _ hE _ _ hC _ h3⟩

/-- and every point of the compact form of that instance extends to the epigraph form -/
example (Q : CType → List ℝ → Prop) (rowsE : List CRow) (KE : List Cone) (rowsC : List CRow) (KC : List Cone)
    (hE : dualRows (withCompact C02.exEpi false) = .ok (rowsE, KE))
    (hC : dualRows (withCompact C02.exEpi true) = .ok (rowsC, KC)) (σ : Nat → ℝ) (hσ : FeasRows Q σ rowsC KC) :
    ∃ σ' : Nat → ℝ, σ' 0 = σ 0 ∧ σ' 1 = σ 1 ∧ σ' 2 = σ 2 ∧ σ' 3 = σ 3 ∧ FeasRows Q σ' rowsE KE := by
  obtain ⟨σ', h1, h2⟩ := epigraph_of_compact Q C02.exEpi exEpi_wf rowsE KE hE rowsC KC hC σ hσ
  exact ⟨σ', h1 0 (by decide), h1 1 (by decide), h1 2 (by decide), h1 3 (by decide), h2⟩

/-- the hypothesis `hσ` of the previous example is satisfiable: the compact rows `C02.exOrdRows` have the point
    `v = (1, 1, 1)`, `μ = 0` -/
example (Q : CType → List ℝ → Prop) :
    FeasRows Q (fun id => if id ≤ 2 then 1 else 0) C02.exOrdRows (⟨.pos, 3⟩ :: List.replicate 6 ⟨.exp, 3⟩) := by
  unfold FeasRows C02.exOrdRows
  simp only [List.replicate, feasBlocks_cons, feasBlocks_nil, List.map_cons, List.map_nil, crowVal_false,
    List.take_succ_cons, List.take_zero, List.drop_succ_cons, List.drop_zero, conP, realP, expR,
    List.sum_cons, List.sum_nil, and_true]
  norm_num [InExpCone]

/-! ### forced equality of the AGE sum (`sum_age_force_equality`) -/

def withForce (inp : PrimalIn) (b : Bool) : PrimalIn := { inp with settings := { inp.settings with sumAgeForceEquality := b } }

/-- equality is stronger: a point of the forced-equality system is a point of the inequality system -/
theorem ineq_of_force_eq (Q : CType → List ℝ → Prop) (inp : PrimalIn) (hwf : WfPrimal inp)
    (rowsT : List CRow) (KT : List Cone) (hT : primalRows (withForce inp true) = .ok (rowsT, KT))
    (rowsF : List CRow) (KF : List Cone) (hF : primalRows (withForce inp false) = .ok (rowsF, KF))
    (σ : Nat → ℝ) (hσ : FeasRows Q σ rowsT KT) : FeasRows Q σ rowsF KF :=
  opt_ineq_of_force_eq Q inp hwf.dom rowsT KT hT rowsF KF hF σ hσ

/-! non-vacuity: the ordinary instance `1 − 2eˣ + e²ˣ` of C01 (default covers: `U = N = [1]`, cover `{0, 2}`) -/

def fxAlpha : List (List Rat) := [[0], [1], [2]]
def fxC : List AffE := [constE 1, constE (-2), constE 1]
def fxEch : Ech := { U := [1], N := [1], P := [0, 2], covers := [(1, [true, false, true])] }
def fxP : PIds := { i := 1, nu := [10, 11], basis := [], cvar := [12, 13], epi := [14, 15], eta := [] }
def fxInp : PrimalIn :=
  { n := 1, alpha := fxAlpha, c := fxC, X := none, settings := {}, ech := fxEch, ids := [fxP], dummy := 20 }

/-- these are the covers `ExpCoverHelper` computes -/
example : (defaultEch fxAlpha (some (fxC.map classify)) false {} []).covers = fxEch.covers ∧
    (defaultEch fxAlpha (some (fxC.map classify)) false {} []).U = fxEch.U ∧
    (defaultEch fxAlpha (some (fxC.map classify)) false {} []).N = fxEch.N := by with_unfolding_all decide

def fxBlock : List CRow :=
  [⟨[(14, -1), (15, -1)], -2, false⟩,
   ⟨[(14, -1)], 0, false⟩, ⟨[(12, 1)], 0, true⟩, ⟨[(10, 1)], 0, false⟩,
   ⟨[(15, -1)], 0, false⟩, ⟨[(13, 1)], 0, true⟩, ⟨[(11, 1)], 0, false⟩,
   ⟨[(10, -1), (11, 1)], 0, false⟩]
def fxSum : List CRow := [⟨[(12, -1)], 1, false⟩, ⟨[(20, 0)], 0, false⟩, ⟨[(13, -1)], 1, false⟩]
def fxKT : List Cone := [⟨.pos, 1⟩, ⟨.exp, 3⟩, ⟨.exp, 3⟩, ⟨.zero, 1⟩, ⟨.zero, 3⟩]
def fxKF : List Cone := [⟨.pos, 1⟩, ⟨.exp, 3⟩, ⟨.exp, 3⟩, ⟨.zero, 1⟩, ⟨.pos, 3⟩]

private theorem fxInp_rowsT : primalRows (withForce fxInp true) = .ok (fxBlock ++ fxSum, fxKT) := by with_unfolding_all decide
private theorem fxInp_rowsF : primalRows (withForce fxInp false) = .ok (fxBlock ++ fxSum, fxKF) := by with_unfolding_all decide

private theorem fxInp_wf : WfPrimal fxInp where
  width := by with_unfolding_all decide
  clen := by with_unfolding_all decide
  idsU := by with_unfolding_all decide
  cover := by with_unfolding_all decide
  sizes := by with_unfolding_all decide
  negConst := by with_unfolding_all decide
  dom := by intro X h; cases h

/-- ν = (1,1), c^{(1)} = (1,−2,1), epi = (−1,−1): all three sums are exact -/
noncomputable def fxσ : Nat → ℝ := fun id =>
  if id = 14 ∨ id = 15 then -1 else if id = 10 ∨ id = 11 ∨ id = 12 ∨ id = 13 then 1 else 0

private theorem fxInp_feasT (Q : CType → List ℝ → Prop) : FeasRows Q fxσ (fxBlock ++ fxSum) fxKT := by
  unfold FeasRows fxBlock fxSum fxKT
  simp only [List.cons_append, List.nil_append, feasBlocks_cons, feasBlocks_nil, List.map_cons, List.map_nil,
    crowVal_false, crowVal_true,
    List.take_succ_cons, List.take_zero, List.drop_succ_cons, List.drop_zero, conP, realP, expR,
    List.sum_cons, List.sum_nil, and_true]
  simp only [fxσ]
  norm_num
  exact Or.inl ⟨one_pos, by simp⟩

/-- `ineq_of_force_eq` applies: the point of the forced-equality system is a point of the inequality system -/
example (Q : CType → List ℝ → Prop) : FeasRows Q fxσ (fxBlock ++ fxSum) fxKF :=
  ineq_of_force_eq Q fxInp fxInp_wf _ _ fxInp_rowsT _ _ fxInp_rowsF fxσ (fxInp_feasT Q)

/-- the relative-entropy block of one AGE cone is monotone: raising the `y` arguments (the cover entries of the
    AGE vector) and lowering `z` (raising the own entry) keeps it feasible.  This is why slack can be absorbed. -/
theorem relent_block_mono (z z' : ℝ) (epi x y y' : List ℝ) (hy : y.length = y'.length)
    (hyy : ∀ k, k < y.length → y.getD k 0 ≤ y'.getD k 0) (hz : z' ≤ z)
    (h0 : 0 ≤ -z - epi.sum)
    (h : ∀ k, k < x.length → InExpCone (-(epi.getD k 0)) (Real.exp 1 * y.getD k 0) (x.getD k 0)) :
    0 ≤ -z' - epi.sum ∧ ∀ k, k < x.length → InExpCone (-(epi.getD k 0)) (Real.exp 1 * y'.getD k 0) (x.getD k 0) := by
  refine ⟨by linarith, fun k hk => ?_⟩
  apply opt_expcone_mono_second _ _ _ _ (h k hk)
  exact mul_le_mul_of_nonneg_left (opt_getD_le_of_length hy hyy k) (Real.exp_pos 1).le

/-- non-vacuity of `relent_block_mono`: the block `(−0, e·1, 1) ∈ K_exp`, `0 ≤ 1 − 0` stays feasible when the
    cover entry is raised to `2` and the own entry to `3` -/
example : 0 ≤ -(-3 : ℝ) - ([0] : List ℝ).sum ∧
    ∀ k, k < ([1] : List ℝ).length →
      InExpCone (-(([0] : List ℝ).getD k 0)) (Real.exp 1 * ([2] : List ℝ).getD k 0) (([1] : List ℝ).getD k 0) := by
  apply relent_block_mono (-1) (-3) [0] [1] [1] [2] rfl
  · intro k hk
    have : k = 0 := by simpa using hk
    subst this; norm_num
  · norm_num
  · norm_num
  · intro k hk
    have : k = 0 := by simpa using hk
    subst this
    left
    simp

/-- abstract absorption: if every cone `A i` is monotone at the indices it reaches, then "sum ≤ c" and
    "sum = c at reached indices, ≤ elsewhere" certify the same vectors `c`.  (`F7`: before the repair the code
    demanded equality at ALL indices, which is NOT equivalent — see `force_eq_all_indices_differs`.) -/
theorem absorb_slack (m : Nat) (U : List Nat) (reach : Nat → Nat → Bool) (A : Nat → (Nat → ℝ) → Prop)
    (hmono : ∀ i ∈ U, ∀ a j (s : ℝ), reach i j = true → 0 ≤ s → A i a → A i (Function.update a j (a j + s)))
    (c : Nat → ℝ) :
    (∃ ages : Nat → Nat → ℝ, (∀ i ∈ U, A i (ages i)) ∧ ∀ j, j < m → (U.map fun i => ages i j).sum ≤ c j) ↔
    (∃ ages : Nat → Nat → ℝ, (∀ i ∈ U, A i (ages i)) ∧ ∀ j, j < m →
        if U.any (fun i => reach i j) then (U.map fun i => ages i j).sum = c j else (U.map fun i => ages i j).sum ≤ c j) := by
  constructor
  · rintro ⟨ages, hA, hle⟩
    obtain ⟨ages', hA', hc, _⟩ := opt_absorb_aux U reach A hmono c m ages hA hle
    exact ⟨ages', hA', hc⟩
  · rintro ⟨ages, hA, hc⟩
    refine ⟨ages, hA, fun j hj => ?_⟩
    have := hc j hj
    split at this
    · exact this.le
    · exact this

/-- non-vacuity of `absorb_slack`: `U = [1]`, `reach 1 j = (j ≤ 1)`, the cone "nonnegative at 0 and 1, zero
    elsewhere" is monotone at the reached indices, and the inequality side holds for `c = (1, 2, 3)` -/
example : ∃ ages : Nat → Nat → ℝ,
    (∀ i ∈ [1], (fun (_ : Nat) (a : Nat → ℝ) => 0 ≤ a 0 ∧ 0 ≤ a 1 ∧ ∀ j, 2 ≤ j → a j = 0) i (ages i)) ∧
    ∀ j, j < 3 →
      if [1].any (fun i => (fun (_ j : Nat) => decide (j ≤ 1)) i j) then ([1].map fun i => ages i j).sum = ((j : ℝ) + 1)
      else ([1].map fun i => ages i j).sum ≤ ((j : ℝ) + 1) := by
  refine (absorb_slack 3 [1] (fun _ j => decide (j ≤ 1))
    (fun _ a => 0 ≤ a 0 ∧ 0 ≤ a 1 ∧ ∀ j, 2 ≤ j → a j = 0) ?_ (fun j => (j : ℝ) + 1)).1 ?_
  · intro i _ a j s hr hs ⟨h0, h1, h2⟩
    have hj : j ≤ 1 := by simpa using hr
    refine ⟨?_, ?_, fun j' hj' => ?_⟩
    · by_cases h : j = 0
      · subst h; simp; linarith
      · rw [Function.update_of_ne (Ne.symm h)]; exact h0
    · by_cases h : j = 1
      · subst h; simp; linarith
      · rw [Function.update_of_ne (Ne.symm h)]; exact h1
    · rw [Function.update_of_ne (by omega)]; exact h2 j' hj'
  · refine ⟨fun _ _ => 0, ?_, ?_⟩
    · intro i _; simp
    · intro j _; simp; positivity

/-- the pre-repair behaviour (equality at every index) is genuinely different: with `U = [1]`, `reach 1 j = (j ≤ 1)`
    and cones that vanish off the reached indices, `c = (0, 0, 1)` is certified by the inequality form only -/
theorem force_eq_all_indices_differs :
    ∃ (A : Nat → (Nat → ℝ) → Prop) (c : Nat → ℝ),
      (∃ ages : Nat → Nat → ℝ, A 1 (ages 1) ∧ ∀ j, j < 3 → ages 1 j ≤ c j) ∧
      ¬ (∃ ages : Nat → Nat → ℝ, A 1 (ages 1) ∧ ∀ j, j < 3 → ages 1 j = c j) := by
  refine ⟨fun _ a => 0 ≤ a 0 ∧ 0 ≤ a 1 ∧ ∀ j, 2 ≤ j → a j = 0, fun j => if j = 2 then 1 else 0, ?_, ?_⟩
  · refine ⟨fun _ _ => 0, ⟨le_refl _, le_refl _, fun _ _ => rfl⟩, fun j _ => ?_⟩
    by_cases h : j = 2
    · simp [h]
    · simp [h]
  · rintro ⟨ages, ⟨_, _, h2⟩, heq⟩
    have h := heq 2 (by norm_num)
    rw [h2 2 (le_refl 2)] at h
    simp at h

/-! ### the converse at the row level: a point of the inequality system becomes a point of the forced-equality
    system by raising `c^{(i)}` variables -/

/-- `FreshC` = the ids of the `c^{(i)}` Variables are pairwise distinct and occur neither in `c` nor among the
    `nu`/`epi`/`eta` ids (the constructor creates them fresh); the indices of `ids` are pairwise distinct -/
def FreshC (inp : PrimalIn) : Prop :=
  (inp.ids.flatMap (·.cvar)).Nodup ∧
  (∀ id ∈ inp.ids.flatMap (·.cvar), (∀ cj ∈ inp.c, id ∉ cj.co.map (·.1)) ∧
      id ∉ inp.ids.flatMap (fun p => p.nu ++ p.epi ++ p.eta)) ∧
  (inp.ids.map (·.i)).Nodup

/-- counterexample input: the cover list carries a stray entry `(7, …)` for an index outside `U_I = [1]`;
    it makes index 3 "reached" although no AGE vector touches it (`c_3 = 1`) -/
def cxInp : PrimalIn :=
  { n := 1, alpha := [[0], [1], [2], [3]], c := [constE 0, varE 100, constE 0, constE 1], X := none,
    settings := {},
    ech := { U := [1], N := [], P := [3], covers := [(1, [true, false, true, false]), (7, [false, false, false, true])] },
    ids := [{ i := 1, nu := [10, 11], basis := [], cvar := [12, 13, 16], epi := [14, 15], eta := [] }], dummy := 20 }

def cxRows : List CRow :=
  [⟨[(16, 1), (14, -1), (15, -1)], 0, false⟩,
   ⟨[(14, -1)], 0, false⟩, ⟨[(12, 1)], 0, true⟩, ⟨[(10, 1)], 0, false⟩,
   ⟨[(15, -1)], 0, false⟩, ⟨[(13, 1)], 0, true⟩, ⟨[(11, 1)], 0, false⟩,
   ⟨[(10, -1), (11, 1)], 0, false⟩,
   ⟨[(12, -1)], 0, false⟩, ⟨[(16, -1), (100, 1)], 0, false⟩, ⟨[(13, -1)], 0, false⟩, ⟨[(20, 0)], 1, false⟩]

private theorem cxInp_rowsT : primalRows (withForce cxInp true) =
    .ok (cxRows, [⟨.pos, 1⟩, ⟨.exp, 3⟩, ⟨.exp, 3⟩, ⟨.zero, 1⟩, ⟨.zero, 4⟩]) := by with_unfolding_all decide
private theorem cxInp_rowsF : primalRows (withForce cxInp false) =
    .ok (cxRows, [⟨.pos, 1⟩, ⟨.exp, 3⟩, ⟨.exp, 3⟩, ⟨.zero, 1⟩, ⟨.pos, 4⟩]) := by with_unfolding_all decide

private theorem cxInp_wf : WfPrimal cxInp where
  width := by with_unfolding_all decide
  clen := by with_unfolding_all decide
  idsU := by with_unfolding_all decide
  cover := by with_unfolding_all decide
  sizes := by with_unfolding_all decide
  negConst := by with_unfolding_all decide
  dom := by intro X h; cases h

private theorem cxInp_fresh : FreshC cxInp := by
  unfold FreshC
  with_unfolding_all decide

/-- the target statement of `force_eq_of_ineq` (hypotheses `WfPrimal`, `FreshC`, `hcov0` only) is false for the
    model: nothing in them says that the cover list has entries for the indices of `U_I` only.  On `cxInp` the
    all-zero assignment satisfies the inequality system, while the forced-equality system contains the row
    `1 = 0` (index 3, "reached" through the stray entry) -/
theorem force_eq_of_ineq_needs_covers :
    ¬ ∀ (Q : CType → List ℝ → Prop) (inp : PrimalIn) (_ : WfPrimal inp) (_ : FreshC inp)
      (_ : ∀ p ∈ inp.ids, p.nu = [] → trueIdx (coverOf inp.ech p.i) = [])
      (rowsT : List CRow) (KT : List Cone) (_ : primalRows (withForce inp true) = .ok (rowsT, KT))
      (rowsF : List CRow) (KF : List Cone) (_ : primalRows (withForce inp false) = .ok (rowsF, KF))
      (σ : Nat → ℝ) (_ : FeasRows Q σ rowsF KF),
      ∃ σ' : Nat → ℝ, (∀ id, id ∉ inp.ids.flatMap (·.cvar) → σ' id = σ id) ∧ FeasRows Q σ' rowsT KT := by
  intro h
  have hF : FeasRows (fun _ _ => True) (fun _ => 0) cxRows [⟨.pos, 1⟩, ⟨.exp, 3⟩, ⟨.exp, 3⟩, ⟨.zero, 1⟩, ⟨.pos, 4⟩] := by
    unfold FeasRows cxRows
    simp only [feasBlocks_cons, feasBlocks_nil, List.map_cons, List.map_nil, crowVal_false, crowVal_true,
      List.take_succ_cons, List.take_zero, List.drop_succ_cons, List.drop_zero, conP, realP, expR,
      List.sum_cons, List.sum_nil, and_true]
    norm_num [InExpCone]
  obtain ⟨σ', _, hT⟩ := h (fun _ _ => True) cxInp cxInp_wf cxInp_fresh (by with_unfolding_all decide)
    _ _ cxInp_rowsT _ _ cxInp_rowsF (fun _ => 0) hF
  unfold FeasRows cxRows at hT
  simp only [feasBlocks_cons, feasBlocks_nil, List.map_cons, List.map_nil, crowVal_false, crowVal_true,
    List.take_succ_cons, List.take_zero, List.drop_succ_cons, List.drop_zero, conP, realP, expR,
    List.sum_cons, List.sum_nil, and_true] at hT
  have := hT.2.2.2.2 (((0 : Rat) : ℝ) * σ' 20 + 0 + ((1 : Rat) : ℝ)) (by simp)
  norm_num at this

/-- STRETCH (row level, the converse of `ineq_of_force_eq`): a point of the inequality system can be changed on
    the `c^{(i)}` variables only so that it satisfies the forced-equality system.  Extra hypothesis `hkeys`: the
    cover list has exactly one entry per index of `U_I`, in the order of `U_I` — what `ExpCoverHelper` builds
    (see the doc-string of `Ech.covers`) and what every presolve step, `kernelPrune` included, preserves. -/
theorem force_eq_of_ineq_partial (Q : CType → List ℝ → Prop) (inp : PrimalIn) (hwf : WfPrimal inp) (hfresh : FreshC inp)
    (hcov0 : ∀ p ∈ inp.ids, p.nu = [] → trueIdx (coverOf inp.ech p.i) = [])
    (hkeys : inp.ech.covers.map (·.1) = inp.ech.U)
    (rowsT : List CRow) (KT : List Cone) (hT : primalRows (withForce inp true) = .ok (rowsT, KT))
    (rowsF : List CRow) (KF : List Cone) (hF : primalRows (withForce inp false) = .ok (rowsF, KF))
    (σ : Nat → ℝ) (hσ : FeasRows Q σ rowsF KF) :
    ∃ σ' : Nat → ℝ, (∀ id, id ∉ inp.ids.flatMap (·.cvar) → σ' id = σ id) ∧ FeasRows Q σ' rowsT KT :=
  opt_force_eq_of_ineq Q inp ⟨hwf, hfresh, hcov0, hkeys⟩ rowsT KT hT rowsF KF hF σ hσ

/-! non-vacuity: `2 − 2eˣ + e²ˣ` — the certificate of `1 − 2eˣ + e²ˣ` leaves slack `1` at index 0 -/

def gxInp : PrimalIn := { fxInp with c := [constE 2, constE (-2), constE 1] }
def gxSum : List CRow := [⟨[(12, -1)], 2, false⟩, ⟨[(20, 0)], 0, false⟩, ⟨[(13, -1)], 1, false⟩]

private theorem gxInp_rowsT : primalRows (withForce gxInp true) = .ok (fxBlock ++ gxSum, fxKT) := by
  with_unfolding_all decide
private theorem gxInp_rowsF : primalRows (withForce gxInp false) = .ok (fxBlock ++ gxSum, fxKF) := by
  with_unfolding_all decide

private theorem gxInp_wf : WfPrimal gxInp where
  width := by with_unfolding_all decide
  clen := by with_unfolding_all decide
  idsU := by with_unfolding_all decide
  cover := by with_unfolding_all decide
  sizes := by with_unfolding_all decide
  negConst := by with_unfolding_all decide
  dom := by intro X h; cases h

private theorem gxInp_fresh : FreshC gxInp := by
  unfold FreshC
  with_unfolding_all decide

private theorem gxInp_feasF (Q : CType → List ℝ → Prop) : FeasRows Q fxσ (fxBlock ++ gxSum) fxKF := by
  unfold FeasRows fxBlock gxSum fxKF
  simp only [List.cons_append, List.nil_append, feasBlocks_cons, feasBlocks_nil, List.map_cons, List.map_nil,
    crowVal_false, crowVal_true,
    List.take_succ_cons, List.take_zero, List.drop_succ_cons, List.drop_zero, conP, realP, expR,
    List.sum_cons, List.sum_nil, and_true]
  simp only [fxσ]
  norm_num
  exact Or.inl ⟨one_pos, by simp⟩

/-- `fxσ` is NOT a point of the forced-equality system (`2 − 1 ≠ 0`) … -/
example (Q : CType → List ℝ → Prop) : ¬ FeasRows Q fxσ (fxBlock ++ gxSum) fxKT := by
  unfold FeasRows fxBlock gxSum fxKT
  simp only [List.cons_append, List.nil_append, feasBlocks_cons, feasBlocks_nil, List.map_cons, List.map_nil,
    crowVal_false, crowVal_true,
    List.take_succ_cons, List.take_zero, List.drop_succ_cons, List.drop_zero, conP, realP, expR,
    List.sum_cons, List.sum_nil, and_true]
  simp only [fxσ]
  norm_num

/-- … but `force_eq_of_ineq_partial` moves it (on the ids 12, 13 of `c^{(1)}` only) to one -/
example (Q : CType → List ℝ → Prop) :
    ∃ σ' : Nat → ℝ, σ' 10 = 1 ∧ σ' 11 = 1 ∧ σ' 14 = -1 ∧ σ' 15 = -1 ∧ FeasRows Q σ' (fxBlock ++ gxSum) fxKT := by
  obtain ⟨σ', h1, h2⟩ := force_eq_of_ineq_partial Q gxInp gxInp_wf gxInp_fresh (by with_unfolding_all decide) rfl
    _ _ gxInp_rowsT _ _ gxInp_rowsF fxσ (gxInp_feasF Q)
  refine ⟨σ', ?_, ?_, ?_, ?_, h2⟩
  · rw [h1 10 (by decide)]; simp [fxσ]
  · rw [h1 11 (by decide)]; simp [fxσ]
  · rw [h1 14 (by decide)]; simp [fxσ]
  · rw [h1 15 (by decide)]; simp [fxσ]

/-! ### kernel-basis witnesses (`kernel_basis`): pruning a cone with a trivial kernel -/

/-- when the model (exact elimination) says the kernel is trivial, the balance equations force `ν = 0` -/
theorem kernelTrivial_sound (n : Nat) (alpha : List (List Rat)) (i : Nat) (cov : List Bool)
    (hw : ∀ r ∈ alpha, r.length = n)
    (h : kernelTrivial n alpha i cov = true) (ν : List ℝ) (hν : ν.length = (trueIdx cov).length)
    (hbal : ∀ t, t < n → (((trueIdx cov).zip ν).map fun (j, v) =>
        ((((alpha.getD j []).getD t 0 - (alpha.getD i []).getD t 0 : Rat)) : ℝ) * v).sum = 0) :
    ∀ k, k < ν.length → ν.getD k 0 = 0 :=
  opt_kernelTrivial_sound n alpha i cov hw h ν hν hbal

/-- non-vacuity of `kernelTrivial_sound`: `α = ((0,0), (1,0), (0,1))`, `i = 0`, cover `{1, 2}`: the differences
    `(1,0)`, `(0,1)` are independent, the model says "trivial", and the theorem applies to every `ν` -/
example : kernelTrivial 2 [[0, 0], [1, 0], [0, 1]] 0 [false, true, true] = true := by with_unfolding_all decide

example (ν : List ℝ) (hν : ν.length = (trueIdx [false, true, true]).length)
    (hbal : ∀ t, t < 2 → (((trueIdx [false, true, true]).zip ν).map fun (j, v) =>
        (((([[0, 0], [1, 0], [0, 1]] : List (List Rat)).getD j []).getD t 0
          - (([[0, 0], [1, 0], [0, 1]] : List (List Rat)).getD 0 []).getD t 0 : Rat) : ℝ) * v).sum = 0) :
    ∀ k, k < ν.length → ν.getD k 0 = 0 :=
  kernelTrivial_sound 2 [[0, 0], [1, 0], [0, 1]] 0 [false, true, true]
    (by intro r hr; simp at hr; rcases hr with rfl | rfl | rfl <;> rfl)
    (by with_unfolding_all decide) ν hν hbal

/-- the hypotheses of the instance are satisfiable (by `ν = (0, 0)`) -/
example : ∃ ν : List ℝ, ν.length = (trueIdx [false, true, true]).length ∧
    ∀ t, t < 2 → (((trueIdx [false, true, true]).zip ν).map fun (j, v) =>
        (((([[0, 0], [1, 0], [0, 1]] : List (List Rat)).getD j []).getD t 0
          - (([[0, 0], [1, 0], [0, 1]] : List (List Rat)).getD 0 []).getD t 0 : Rat) : ℝ) * v).sum = 0 :=
  ⟨[0, 0], by simp [trueIdx], by intro t _; simp [trueIdx]⟩

/-- the dependent family `(1,0), (2,0)` is (correctly) not declared trivial -/
example : kernelTrivial 2 [[0, 0], [1, 0], [2, 0]] 0 [false, true, true] = false := by with_unfolding_all decide

/-- with `ν = 0` a relative-entropy block only says that the cover entries and the own entry are nonnegative:
    the cone is the nonnegative orthant, which is what the code's "empty cover" branch imposes -/
theorem relent_block_zero_nu (z : ℝ) (epi y : List ℝ) (he : epi.length = y.length)
    (h0 : 0 ≤ -z - epi.sum)
    (h : ∀ k, k < y.length → InExpCone (-(epi.getD k 0)) (Real.exp 1 * y.getD k 0) 0) :
    0 ≤ -z ∧ ∀ k, k < y.length → 0 ≤ y.getD k 0 := by
  have hepi : 0 ≤ epi.sum := by
    apply opt_sum_nonneg_of_getD
    intro k hk
    have := (opt_expcone_zero _ _ (h k (he ▸ hk))).1
    linarith
  refine ⟨by linarith, fun k hk => ?_⟩
  have := (opt_expcone_zero _ _ (h k hk)).2
  exact nonneg_of_mul_nonneg_right this (Real.exp_pos 1)

/-- non-vacuity of `relent_block_zero_nu` -/
example : 0 ≤ -(-1 : ℝ) ∧ ∀ k, k < ([2] : List ℝ).length → 0 ≤ ([2] : List ℝ).getD k 0 := by
  apply relent_block_zero_nu (-1) [1] [2] rfl
  · norm_num
  · intro k hk
    have : k = 0 := by simpa using hk
    subst this
    right
    refine ⟨rfl, by norm_num, ?_⟩
    have := Real.exp_pos 1
    simp; linarith

/-- the target statement of `kernelPrune_spec` (no hypothesis on `e`) is false: if the cover list carries two
    entries for the same index (the constructor never produces that: one entry per `i ∈ U_I`, in the order of
    `U_I`), "the entry of index `p.1`" is ambiguous -/
theorem kernelPrune_spec_needs_nodup :
    ¬ ∀ (n : Nat) (alpha : List (List Rat)) (hasX : Bool) (s : Settings) (e : Ech),
      let e' := kernelPrune n alpha hasX s e
      e'.U = e.U ∧ e'.N = e.N ∧ e'.P = e.P ∧ e'.covers.map (·.1) = e.covers.map (·.1) ∧
      ∀ p ∈ e.covers, ∀ p' ∈ e'.covers, p'.1 = p.1 →
        p'.2 = p.2 ∨ (s.kernelBasis = true ∧ hasX = false ∧ kernelTrivial n alpha p.1 p.2 = true ∧
          p'.2 = p.2.map fun _ => false) := by
  intro h
  have h1 := (h 0 [] false {} ⟨[], [], [], [(0, [true]), (0, [false])]⟩).2.2.2.2
    (0, [true]) (by simp) (0, [false]) (by simp [kernelPrune]) rfl
  simp at h1

/-- `kernelPrune` only ever empties covers, and only when the kernel is trivial (the cover list has one entry
    per index, as the constructor guarantees) -/
theorem kernelPrune_spec_partial (n : Nat) (alpha : List (List Rat)) (hasX : Bool) (s : Settings) (e : Ech)
    (hnd : (e.covers.map (·.1)).Nodup) :
    let e' := kernelPrune n alpha hasX s e
    e'.U = e.U ∧ e'.N = e.N ∧ e'.P = e.P ∧ e'.covers.map (·.1) = e.covers.map (·.1) ∧
    ∀ p ∈ e.covers, ∀ p' ∈ e'.covers, p'.1 = p.1 →
      p'.2 = p.2 ∨ (s.kernelBasis = true ∧ hasX = false ∧ kernelTrivial n alpha p.1 p.2 = true ∧ p'.2 = p.2.map fun _ => false) :=
  opt_kernelPrune_spec n alpha hasX s e hnd

/-- non-vacuity of `kernelPrune_spec_partial`: on the instance above the cover of index 0 is emptied -/
example : (kernelPrune 2 [[0, 0], [1, 0], [0, 1]] false { kernelBasis := true }
    ⟨[0], [], [], [(0, [false, true, true])]⟩).covers = [(0, [false, false, false])] := by with_unfolding_all decide

example : ∀ p' ∈ (kernelPrune 2 [[0, 0], [1, 0], [0, 1]] false { kernelBasis := true }
      ⟨[0], [], [], [(0, [false, true, true])]⟩).covers, p'.1 = 0 →
    p'.2 = [false, true, true] ∨ p'.2 = [false, false, false] := by
  intro p' hp' h0
  rcases (kernelPrune_spec_partial 2 [[0, 0], [1, 0], [0, 1]] false { kernelBasis := true }
    ⟨[0], [], [], [(0, [false, true, true])]⟩ (by decide)).2.2.2.2 (0, [false, true, true]) (by simp) p' hp' h0
    with h | ⟨_, _, _, h⟩
  · exact Or.inl h
  · exact Or.inr h

/-- with a domain present nothing is pruned -/
example : (kernelPrune 2 [[0, 0], [1, 0], [0, 1]] true { kernelBasis := true }
    ⟨[0], [], [], [(0, [false, true, true])]⟩).covers = [(0, [false, true, true])] := by with_unfolding_all decide

end Sageopt.Props.C19
