/-
C19 — presolve and compile options never change what is being certified.
Property theorems about `Model/Sage.lean`.
-/
import SageoptModel.Model.Sage
import SageoptModel.Lemmas.ExpCone

namespace Sageopt.Props.C19
open Sageopt Sageopt.Sage Sageopt.Analysis

/-- the exponential cone is monotone in its first coordinate: this is what makes the compact dual rows
    `(−(α_i−α_j)·μ, v_j, v_i) ∈ K_exp` equivalent to the epigraph form `(−epi, v_j, v_i) ∈ K_exp ∧ epi ≤ (α_i−α_j)·μ` -/
theorem expcone_mono_first (x x' y z : ℝ) (h : InExpCone x y z) (hx : x' ≤ x) : InExpCone x' y z := by
  rcases h with ⟨hz, h⟩ | ⟨hz, hx0, hy⟩
  · left
    refine ⟨hz, le_trans ?_ h⟩
    apply mul_le_mul_of_nonneg_left _ hz.le
    exact Real.exp_le_exp.mpr (div_le_div_of_nonneg_right hx hz.le)
  · right; exact ⟨hz, le_trans hx hx0, hy⟩

end Sageopt.Props.C19
