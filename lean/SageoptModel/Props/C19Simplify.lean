/-
C19 (part E) — the sign-pattern cover reduction `_simplify_age_cone` (model: `simplifyCover`) is lossless for ordinary SAGE
constraints: with nonnegative exponents, pairwise distinct rows and `zeroLoc` the zero row, dropping from the cover of `i` every
`j ≠ zeroLoc` with `⟨α_i, α_j⟩ = 0` does not change the set of AGE certificates.  Without distinct rows it does.
Helper lemmas: `Lemmas/CoverSimpReal.lean` (semantic half), `Lemmas/CoverSimpList.lean` (list half).
-/
import SageoptModel.Model.Sage
import SageoptModel.Lemmas.AgeCert
import SageoptModel.Lemmas.CoverSimpReal
import SageoptModel.Lemmas.CoverSimpList
import Mathlib.Data.Real.Basic
import Mathlib.Tactic.FinCases
import Mathlib.Tactic.NormNum

namespace Sageopt.Props.C19
open Sageopt Sageopt.Sage Sageopt.Analysis
open scoped BigOperators

variable {ι : Type} {n : ℕ}

/-- (semantic) exponents nonnegative, `α_i` and `α_j` have disjoint supports and `α_j ≠ 0`: every AGE certificate for `i` with a
    cover containing `j` has `ν_j = 0`, so it is a certificate for the cover without `j` -/
theorem drop_disjoint_lossless [DecidableEq ι] (α : ι → Fin n → ℝ) (hα : ∀ l k, 0 ≤ α l k) (i j : ι) (S : Finset ι) (hj : j ∈ S)
    (hdot : ∑ k, α i k * α j k = 0) (hnz : ∃ k, 0 < α j k) (c : ι → ℝ) (h : OrdAgeCert α i S c) :
    OrdAgeCert α i (S.erase j) c :=
  cs_drop_lossless α hα i j S hj hdot hnz c h

/-- (semantic) conversely a certificate for the smaller cover is one for the larger cover as soon as `c_j ≥ 0` -/
theorem drop_disjoint_conv [DecidableEq ι] (α : ι → Fin n → ℝ) (i j : ι) (S : Finset ι) (hj : j ∈ S) (c : ι → ℝ) (hc : 0 ≤ c j)
    (h : OrdAgeCert α i (S.erase j) c) : OrdAgeCert α i S c :=
  cs_drop_conv α i j S hj c hc h

/-- the exponent matrix of the model as a real function (rows beyond the list / entries beyond the row are 0) -/
def alphaR (alpha : List (List Rat)) (n : Nat) : Fin alpha.length → Fin n → ℝ :=
  fun l k => (((alpha.getD l.val []).getD k.val 0 : Rat) : ℝ)

/-- the index set a cover (list of booleans) stands for -/
def coverSet (m : Nat) (cov : List Bool) : Finset (Fin m) := Finset.univ.filter (fun j => cov.getD j.val false = true)

/-- what `simplifyCover` (the model of `_simplify_age_cone`) computes, entry by entry -/
theorem simplifyCover_getD (alpha : List (List Rat)) (zeroLoc i : Nat) (cov : List Bool) (j : Nat) :
    (simplifyCover alpha zeroLoc i cov).getD j false =
      (cov.getD j false && !(j != zeroLoc && dotQ (alpha.getD i []) (alpha.getD j []) == 0)) :=
  cs_simplifyCover_getD alpha zeroLoc i cov j

/-- THE REDUCTION IS LOSSLESS (model level): nonnegative exponents with pairwise distinct rows, `zeroLoc` the zero row: for every
    coefficient vector that is nonnegative on the cover, the AGE certificates for `i` over the cover and over the simplified cover
    are the same -/
theorem simplifyCover_lossless (alpha : List (List Rat)) (n : Nat) (hw : ∀ r ∈ alpha, r.length = n)
    (hnn : ∀ r ∈ alpha, ∀ q ∈ r, 0 ≤ q) (hnd : alpha.Nodup) (zeroLoc : Nat) (hzl : zeroLoc < alpha.length)
    (hz : ∀ q ∈ alpha.getD zeroLoc [], q = 0) (i : Fin alpha.length) (cov : List Bool) (hc : cov.length = alpha.length)
    (c : Fin alpha.length → ℝ) (hpos : ∀ j ∈ coverSet alpha.length cov, 0 ≤ c j) :
    OrdAgeCert (alphaR alpha n) i (coverSet alpha.length cov) c ↔
      OrdAgeCert (alphaR alpha n) i (coverSet alpha.length (simplifyCover alpha zeroLoc i.val cov)) c := by
  have hα : ∀ l k, 0 ≤ alphaR alpha n l k := by
    intro l k
    unfold alphaR
    exact_mod_cast cs_getD_nonneg _ (cs_row_nonneg alpha hnn l.val) k.val
  -- the set of dropped indices
  let D : Finset (Fin alpha.length) := (coverSet alpha.length cov).filter
    (fun j => (j.val != zeroLoc && dotQ (alpha.getD i.val []) (alpha.getD j.val []) == 0) = true)
  have hset : coverSet alpha.length (simplifyCover alpha zeroLoc i.val cov) = coverSet alpha.length cov \ D := by
    ext j
    simp only [coverSet, D, Finset.mem_filter, Finset.mem_univ, true_and, Finset.mem_sdiff, cs_simplifyCover_getD]
    generalize (j.val != zeroLoc && dotQ (alpha.getD i.val []) (alpha.getD j.val []) == 0) = X
    cases cov.getD j.val false <;> cases X <;> simp
  rw [hset]
  apply cs_drop_set _ hα i c _ D (Finset.filter_subset _ _)
  intro j hj
  obtain ⟨hjS, hjP⟩ := Finset.mem_filter.mp hj
  simp only [Bool.and_eq_true, bne_iff_ne, beq_iff_eq, ne_eq] at hjP
  obtain ⟨hjz, hdot⟩ := hjP
  refine ⟨?_, ?_, hpos j hjS⟩
  · apply Finset.sum_eq_zero
    intro k _
    unfold alphaR
    have := cs_dotQ_eq_zero _ _ (cs_row_nonneg alpha hnn i.val) (cs_row_nonneg alpha hnn j.val) hdot k.val
    exact_mod_cast this
  · have hrj : alpha.getD j.val [] = alpha[j.val] := by
      rw [List.getD_eq_getElem?_getD, List.getElem?_eq_getElem j.isLt, Option.getD_some]
    have hrz : alpha.getD zeroLoc [] = alpha[zeroLoc] := by
      rw [List.getD_eq_getElem?_getD, List.getElem?_eq_getElem hzl, Option.getD_some]
    have hne : alpha[j.val] ≠ alpha[zeroLoc] := fun h => hjz ((List.Nodup.getElem_inj_iff hnd).mp h)
    obtain ⟨k, hk, hkpos⟩ := cs_pos_entry alpha[j.val] alpha[zeroLoc] n (hw _ (List.getElem_mem _))
      (hw _ (List.getElem_mem _)) (hrz ▸ hz) (hnn _ (List.getElem_mem _)) hne
    refine ⟨⟨k, hk⟩, ?_⟩
    unfold alphaR
    rw [hrj]
    exact_mod_cast hkpos

/-- `simplifyCover_lossless` is not vacuous: exponents (0,0), (2,0), (0,2), (1,0), `zeroLoc = 0`, `i = 3`, cover {0, 1, 2}:
    index 2 (exponent (0,2), orthogonal to (1,0)) is dropped, and the certificates over {0,1,2} and {0,1} coincide -/
example :
    let alpha : List (List Rat) := [[0, 0], [2, 0], [0, 2], [1, 0]]
    let cov : List Bool := [true, true, true, false]
    simplifyCover alpha 0 3 cov = [true, true, false, false] ∧
    ∀ c : Fin alpha.length → ℝ, (∀ j ∈ coverSet alpha.length cov, 0 ≤ c j) →
      (OrdAgeCert (alphaR alpha 2) ⟨3, by decide⟩ (coverSet alpha.length cov) c ↔
        OrdAgeCert (alphaR alpha 2) ⟨3, by decide⟩ (coverSet alpha.length [true, true, false, false]) c) := by
  intro alpha cov
  have hs : simplifyCover alpha 0 3 cov = [true, true, false, false] := by
    simp [alpha, cov, simplifyCover, dotQ, List.zipIdx]
  refine ⟨hs, ?_⟩
  intro c hpos
  have h := simplifyCover_lossless alpha 2 (by decide) (by decide) (by decide) 0 (by decide) (by decide)
    ⟨3, by decide⟩ cov (by decide) c hpos
  rw [hs] at h
  exact h

/-- WITHOUT distinct rows the reduction loses certificates: exponents (0), (0), (1), (2) (a duplicated zero row), `i = 2`,
    `c = (1/2, 1/2, -2, 1)`: `1/2 + 1/2 - 2 e^x + e^{2x} = (e^x - 1)^2` has a certificate over the full cover {0, 1, 3}, none over the
    simplified cover {0, 3} -/
theorem simplifyCover_needs_nodup :
    let alpha : List (List Rat) := [[0], [0], [1], [2]]
    let cov : List Bool := [true, true, false, true]
    let c : Fin 4 → ℝ := fun j => if j.val = 0 then 1/2 else if j.val = 1 then 1/2 else if j.val = 2 then -2 else 1
    simplifyCover alpha 0 2 cov = [true, false, false, true] ∧
    OrdAgeCert (alphaR alpha 1) (⟨2, by decide⟩ : Fin alpha.length) (coverSet 4 cov) c ∧
    ¬ OrdAgeCert (alphaR alpha 1) (⟨2, by decide⟩ : Fin alpha.length) (coverSet 4 [true, false, false, true]) c := by
  intro alpha cov c
  have hS1 : coverSet 4 cov = {0, 1, 3} := by decide
  have hS2 : coverSet 4 [true, false, false, true] = {0, 3} := by decide
  refine ⟨?_, ?_, ?_⟩
  · simp [alpha, cov, simplifyCover, dotQ, List.zipIdx]
  · rw [hS1]
    refine ⟨fun j => if j.val = 0 then 1/2 else if j.val = 1 then 1/2 else 1,
      fun j => if j.val = 0 then -1/2 else if j.val = 1 then -1/2 else -1, ?_, ?_, ?_⟩
    · intro j hj
      left
      fin_cases j
      · simp [c]
        exact le_of_eq (mul_comm _ _)
      · simp [c]
        exact le_of_eq (mul_comm _ _)
      · exact absurd hj (by decide)
      · simp [c]
    · simp [c, alpha]
      norm_num
    · intro k
      fin_cases k
      simp [alphaR, alpha]
      norm_num
  · rw [hS2]
    rintro ⟨ν, epi, hrows, hlin, hbal⟩
    have h := ord_age_sound (alphaR alpha 1) (⟨2, by decide⟩ : Fin alpha.length) {0, 3} (by decide) c ν epi hrows hlin hbal
      (fun _ => 0)
    simp [dotp, c] at h
    norm_num at h

end Sageopt.Props.C19
