/-
C07 — the compiled conic system is equivalent to the high-level constraints.
Property theorems about `Model/Compile.lean`.
-/
import SageoptModel.Model.Compile
import SageoptModel.Lemmas.CompileBasic
import SageoptModel.Lemmas.CompileAtoms
import SageoptModel.Lemmas.CompileRows
import SageoptModel.Lemmas.CompileEquiv
import SageoptModel.Lemmas.CompileCounterex
import Mathlib.Tactic.NormNum
import Mathlib.Tactic.Positivity

namespace Sageopt.Props.C07
open Sageopt Sageopt.Compile Sageopt.Solvers Sageopt.Analysis

-- some target statements carry hypotheses their proofs do not need (`haff` in `elem_rows_residual`,
-- `Q` in `primal_rows_iff`, `hnd` in `colOf_spec`); the statements are kept verbatim
set_option linter.unusedVariables false

/-- the assembled system has one row of A and one entry of b per compiled row -/
theorem assemble_dims (rows : List CRow) (K : List Cone) :
    (assemble rows K).A.length = rows.length ∧ (assemble rows K).b.length = rows.length := by
  simp [assemble]

/-! ### per-atom epigraph rows: `rows ∈ K ↔ atom(σ) ≤ epi` (also with constant arguments, whose rows
    carry a zero entry on the dummy column) -/
theorem epiRows_iff (Q : CType → List ℝ → Prop) (σ : Nat → ℝ) (a : NlAtom) (dummy : Nat)
    (rows : List CRow) (k : Cone) (h : epiRows a dummy = .ok (rows, k)) :
    FeasBlocks (conP Q) [k] (rows.map (crowVal σ)) ↔ AtomLe σ a (σ a.epi) :=
  epiRows_sem Q σ a dummy rows k h

/-- every atom with a nonempty epigraph has a least epigraph value (its value) -/
theorem atom_has_value (σ : Nat → ℝ) (a : NlAtom) (t : ℝ) (h : AtomLe σ a t) : ∃ v, IsVal σ a v :=
  atom_has_value' σ a t h
theorem atomLe_mono (σ : Nat → ℝ) (a : NlAtom) (t t' : ℝ) (h : AtomLe σ a t) (ht : t ≤ t') : AtomLe σ a t' :=
  atomLe_mono' σ a t t' h ht
/-- the epigraph relation only depends on (kind, args): atoms that the code identifies have the same value -/
theorem atomLe_same (σ : Nat → ℝ) (a b : NlAtom) (h : a.same b = true) (t : ℝ) : AtomLe σ a t ↔ AtomLe σ b t :=
  atomLe_congr σ a b h t

/-! ### affine constraints: the residual rows equal the slack identically -/
theorem elem_rows_residual (σ : Nat → ℝ) (dummy : Nat) (isEq : Bool) (rows : List SRow)
    (haff : ∀ r ∈ rows, rowAtoms r = []) (crows : List CRow) (K : List Cone)
    (h : conRows dummy (.elem isEq rows) = .ok (crows, K)) :
    crows.map (crowVal σ) = rows.map (fun r => - affVal σ r) ∧
    K = [⟨if isEq then .zero else .pos, rows.length⟩] :=
  elem_rows_residual' σ dummy isEq rows crows K h

/-! ### set-membership classes -/
theorem primal_rows_iff (Q : CType → List ℝ → Prop) (σ : Nat → ℝ) (dummy : Nat) (y : List SRow) (K : List Cone)
    (crows : List CRow) (K' : List Cone) (h : conRows dummy (.primal y K) = .ok (crows, K')) :
    K' = K ∧ crows.map (crowVal σ) = y.map (affVal σ) ∧ ∀ r ∈ y, rowAtoms r = [] :=
  primal_rows' σ dummy y K crows K' h

/-- the rows `DualProductCone.conic_form` emits hold iff `y ∈ K*`, for every sequence over {+,0,S,e}
    (uses `exp_dual_iff`: (u,v,w) ∈ K_exp* ↔ (−w, e·v, −u) ∈ K_exp — the factor e is in the code) -/
theorem dual_rows_iff (Q : CType → List ℝ → Prop) (σ : Nat → ℝ) (dummy : Nat) (y : List SRow) (K : List Cone)
    (hK : ∀ co ∈ K, co.type ∈ [CType.zero, .pos, .soc, .exp]) (hlen : y.length = (K.map (·.len)).sum)
    (crows : List CRow) (K' : List Cone) (h : conRows dummy (.dual y K) = .ok (crows, K')) :
    (∀ r ∈ y, rowAtoms r = []) →
    (FeasBlocks (conP Q) K' (crows.map (crowVal σ)) ↔ FeasBlocks (dualP Q) K (y.map (affVal σ))) :=
  fun _ => (dual_rows_sem Q σ dummy y K hK hlen crows K' h).2

/-- second-order cone self-duality (justifies treating `S` as its own dual in `dualP`) -/
theorem soc_self_dual (y : List ℝ) :
    socR y ↔ ∀ s : List ℝ, s.length = y.length → socR s → 0 ≤ dot s y :=
  soc_self_dual' y

/-! ### the compiler: equivalence with the high-level constraints -/
/-- For every constraint list satisfying the curvature condition `Convex` (and with fresh epigraph
    variables), an assignment of the user's variables satisfies every constraint by its mathematical
    definition iff it extends, by some values of the epigraph variables, to a point of the compiled
    system.

    The target statement `compile_equiv` is FALSE without the two extra hypotheses `hkeys`, `hdual`
    (`Compile.compile_equiv_false_dupkeys`, `Compile.compile_equiv_false_dualzero` in
    `Lemmas/CompileCounterex.lean` refute it):
    * `hkeys`: the nonlinear keys of one ScalarExpression are pairwise distinct under the code's atom
      identity `same` (true of every Python dict; `SRow.terms` is a list and does not enforce it —
      `substRow` keeps the first coefficient and deletes all duplicates);
    * `hdual`: the rows of the argument of a `DualProductCone` are affine (`Holds` demands it, but
      `dualMap` drops the rows of a `'0'` block without ever looking at them). -/
theorem compile_equiv_partial (Q : CType → List ℝ → Prop) (cons : List Con) (dummy : Nat)
    (hconv : ∀ c ∈ cons, Convex c = true) (hfresh : EpiFresh cons)
    (hwf : ∀ c ∈ cons, match c with
      | .primal y K => y.length = (K.map (·.len)).sum
      | .dual y K => y.length = (K.map (·.len)).sum ∧ ∀ co ∈ K, co.type ∈ [CType.zero, .pos, .soc, .exp]
      | _ => True)
    (hkeys : ∀ c ∈ cons, ∀ r ∈ elemRowsOf c, (rowAtoms r).Pairwise (fun a b => a.same b = false))
    (hdual : ∀ c ∈ cons, match c with
      | .dual y _ => ∀ r ∈ y, rowAtoms r = []
      | _ => True)
    (rows : List CRow) (K : List Cone) (h : compileBlocks cons dummy = .ok (rows, K)) (σ : Nat → ℝ) :
    (∀ c ∈ cons, Holds Q σ c) ↔
      ∃ σ' : Nat → ℝ,
        (∀ id, id ∉ (collectAtoms ((cons.filter isElem).flatMap elemRowsOf)).map (·.epi) → σ' id = σ id) ∧
        FeasRows Q σ' rows K := by
  refine compile_equiv_core Q cons dummy hconv hfresh hkeys ?_ rows K h σ
  intro c hc _
  have h1 := hwf c hc
  have h2 := hdual c hc
  cases c with
  | elem isEq rws => trivial
  | primal y K => exact h1
  | dual y K => exact ⟨h1, fun r hr => h2 r (dualZeroRows_subset K y r hr)⟩
  | pow w z => trivial
  | psd arg => trivial

/-- the same with the weakest hypothesis on `DualProductCone`s: only the rows inside `'0'` blocks
    (`Compile.dualZeroRows`, the rows the code never looks at) are assumed affine — for all other rows
    affineness follows from the success of the compiler -/
theorem compile_equiv_partial_sharp (Q : CType → List ℝ → Prop) (cons : List Con) (dummy : Nat)
    (hconv : ∀ c ∈ cons, Convex c = true) (hfresh : EpiFresh cons)
    (hwf : ∀ c ∈ cons, match c with
      | .primal y K => y.length = (K.map (·.len)).sum
      | .dual y K => y.length = (K.map (·.len)).sum ∧ ∀ co ∈ K, co.type ∈ [CType.zero, .pos, .soc, .exp]
      | _ => True)
    (hkeys : ∀ c ∈ cons, ∀ r ∈ elemRowsOf c, (rowAtoms r).Pairwise (fun a b => a.same b = false))
    (hdual : ∀ c ∈ cons, match c with
      | .dual y K => ∀ r ∈ dualZeroRows y K, rowAtoms r = []
      | _ => True)
    (rows : List CRow) (K : List Cone) (h : compileBlocks cons dummy = .ok (rows, K)) (σ : Nat → ℝ) :
    (∀ c ∈ cons, Holds Q σ c) ↔
      ∃ σ' : Nat → ℝ,
        (∀ id, id ∉ (collectAtoms ((cons.filter isElem).flatMap elemRowsOf)).map (·.epi) → σ' id = σ id) ∧
        FeasRows Q σ' rows K := by
  refine compile_equiv_core Q cons dummy hconv hfresh hkeys ?_ rows K h σ
  intro c hc _
  have h1 := hwf c hc
  have h2 := hdual c hc
  cases c with
  | elem isEq rws => trivial
  | primal y K => exact h1
  | dual y K => exact ⟨h1, h2⟩
  | pow w z => trivial
  | psd arg => trivial

/-- for lists of elementwise constraints only, the dictionary invariant `hkeys` is the one extra hypothesis -/
theorem compile_equiv_elem_partial (Q : CType → List ℝ → Prop) (cons : List Con) (dummy : Nat)
    (helem : ∀ c ∈ cons, isElem c = true)
    (hconv : ∀ c ∈ cons, Convex c = true) (hfresh : EpiFresh cons)
    (hkeys : ∀ c ∈ cons, ∀ r ∈ elemRowsOf c, (rowAtoms r).Pairwise (fun a b => a.same b = false))
    (rows : List CRow) (K : List Cone) (h : compileBlocks cons dummy = .ok (rows, K)) (σ : Nat → ℝ) :
    (∀ c ∈ cons, Holds Q σ c) ↔
      ∃ σ' : Nat → ℝ,
        (∀ id, id ∉ (collectAtoms ((cons.filter isElem).flatMap elemRowsOf)).map (·.epi) → σ' id = σ id) ∧
        FeasRows Q σ' rows K := by
  refine compile_equiv_core Q cons dummy hconv hfresh hkeys ?_ rows K h σ
  intro c hc hne
  rw [helem c hc] at hne
  cases hne

/-- row dimensions of the compiled system agree -/
theorem compile_dims (cons : List Con) (dummy : Nat) (vars : List VarInfo) (c : Compiled) (vm : List (String × List Int))
    (h : compile cons dummy vars = .ok (c, vm)) :
    c.A.length = (c.K.map (·.len)).sum ∧ c.b.length = (c.K.map (·.len)).sum ∧ ∀ r ∈ c.A, r.length = c.cols.length :=
  compile_dims' cons dummy vars c vm h

/-! ### assembly and the variable map -/
/-- the assembled dense row applied to `x_j = σ(cols_j)` is the compiled row's value (duplicates in the
    triplet list are summed) -/
theorem assemble_correct (rows : List CRow) (K : List Cone) (σ : Nat → ℝ) (i : Nat) (hi : i < rows.length) :
    let c := assemble rows K
    (List.zipWith (fun (a : Rat) (cid : Nat) => (a : ℝ) * σ cid) (c.A.getD i []) c.cols).sum + ((c.b.getD i 0 : Rat) : ℝ)
      = ((rows.getD i ⟨[], 0, false⟩).entries.map fun e => (e.2 : ℝ) * σ e.1).sum
          + (((rows.getD i ⟨[], 0, false⟩).const : Rat) : ℝ) :=
  assemble_val rows K σ i hi

/-- columns are the sorted distinct ids that occur with a nonzero value (zero-valued placeholder entries
    create no column): distinct components get distinct columns -/
theorem cols_sorted (rows : List CRow) : (sortedCols rows).Pairwise (· < ·) ∧
    ∀ id, id ∈ sortedCols rows ↔ ∃ r ∈ rows, ∃ e ∈ r.entries, e.1 = id ∧ e.2 ≠ 0 :=
  sortedCols_spec rows

/-- `-1` exactly for ids that occur nowhere; otherwise the column that carries the id -/
theorem colOf_spec (cols : List Nat) (hnd : cols.Nodup) (id : Nat) :
    (colOf cols id = -1 ↔ id ∉ cols) ∧
    (∀ j : Nat, colOf cols id = (j : Int) → cols.getD j 0 = id ∧ j < cols.length) ∧
    (id ∈ cols → ∃ j : Nat, colOf cols id = (j : Int)) :=
  colOf_spec' cols id

theorem variable_map_correct (cols : List Nat) (vars : List VarInfo) (vm : List (String × List Int))
    (h : variableMap cols vars = .ok vm) :
    (∀ v ∈ vars, (v.name, v.ids.map (colOf cols)) ∈ vm) ∧ vm.length = vars.length ∧
    (∀ v ∈ vars, ∀ w ∈ vars, v.gen = w.gen) :=
  variableMap_ok cols vars vm h

/-- mixed generations are rejected -/
theorem variable_map_rejects (cols : List Nat) (vars : List VarInfo)
    (h : ∃ v ∈ vars, ∃ w ∈ vars, v.gen ≠ w.gen) : ∃ m, variableMap cols vars = .error m :=
  variableMap_rejects cols vars h


/-! ### non-vacuity -/

/-- `‖(x₀, 2x₁+1)‖₂ − x₂ ≤ 0`, `3|x₀ − x₁| + x₂ − 4 ≤ 0`, `x₀ + x₁ − 1 = 0` -/
def exCons : List Con :=
  [.elem false
     [⟨[(.nl ⟨.norm2, [⟨[(0, 1)], 0⟩, ⟨[(1, 2)], 1⟩], 10⟩, 1), (.var 2, -1)], 0⟩,
      ⟨[(.nl ⟨.abs, [⟨[(0, 1), (1, -1)], 0⟩], 11⟩, 3), (.var 2, 1)], -4⟩],
   .elem true [⟨[(.var 0, 1), (.var 1, 1)], -1⟩]]

def exRows : List CRow :=
  [⟨[(2, 1), (10, -1)], 0, false⟩, ⟨[(2, -1), (11, -3)], 4, false⟩, ⟨[(0, -1), (1, -1)], 1, false⟩,
   ⟨[(10, 1)], 0, false⟩, ⟨[(0, 1)], 0, false⟩, ⟨[(1, 2)], 1, false⟩,
   ⟨[(11, 1), (0, 1), (1, -1)], 0, false⟩, ⟨[(11, 1), (0, -1), (1, 1)], 0, false⟩]

def exK : List Cone := [⟨.pos, 2⟩, ⟨.zero, 1⟩, ⟨.soc, 3⟩, ⟨.pos, 2⟩]

example : ∀ c ∈ exCons, Convex c = true := by decide
theorem exCons_fresh : EpiFresh exCons := by unfold EpiFresh; with_unfolding_all decide
theorem exCons_compiled : compileBlocks exCons 12 = .ok (exRows, exK) := by with_unfolding_all decide
theorem exCons_atoms : (collectAtoms ((exCons.filter isElem).flatMap elemRowsOf)).map (·.epi) = [10, 11] := by
  with_unfolding_all decide

/-- the equivalence applies to the example: all its hypotheses hold -/
theorem exCons_equiv (Q : CType → List ℝ → Prop) (σ : Nat → ℝ) :
    (∀ c ∈ exCons, Holds Q σ c) ↔
      ∃ σ' : Nat → ℝ, (∀ id, id ∉ [10, 11] → σ' id = σ id) ∧ FeasRows Q σ' exRows exK := by
  rw [← exCons_atoms]
  refine compile_equiv_partial Q exCons 12 (by decide) exCons_fresh (by simp [exCons]) ?_ (by simp [exCons])
    exRows exK exCons_compiled σ
  simp [exCons, elemRowsOf, rowAtoms]

/-- … and it is not vacuous: `x = (1/2, 1/2, 3)` satisfies the three constraints, shown through the
    compiled system with `epi₁₀ = 3`, `epi₁₁ = 0` -/
example (Q : CType → List ℝ → Prop) :
    ∀ c ∈ exCons, Holds Q (fun id => if id = 2 then 3 else 1 / 2) c := by
  rw [exCons_equiv]
  refine ⟨fun id => if id = 10 then 3 else if id = 11 then 0 else if id = 2 then 3 else 1 / 2, ?_, ?_⟩
  · intro id hid
    have h10 : id ≠ 10 := fun e => hid (by simp [e])
    have h11 : id ≠ 11 := fun e => hid (by simp [e])
    simp [h10, h11]
  · unfold FeasRows exRows exK
    simp only [List.map_cons, List.map_nil, crowVal_false, List.sum_cons, List.sum_nil, feasBlocks_cons,
      feasBlocks_nil, and_true, List.take, List.drop, conP, realP, socR, List.mem_cons, List.not_mem_nil,
      or_false, forall_eq_or_imp, forall_eq]
    norm_num



/-- `y = (x₀, x₁ + 1, x₂, 2x₃ − 1, x₄) ∈ (K_exp × R₊ × {0})*` -/
def exDualY : List SRow :=
  [⟨[(.var 0, 1)], 0⟩, ⟨[(.var 1, 1)], 1⟩, ⟨[(.var 2, 1)], 0⟩, ⟨[(.var 3, 2)], -1⟩, ⟨[(.var 4, 1)], 0⟩]
def exDualK : List Cone := [⟨.exp, 3⟩, ⟨.pos, 1⟩, ⟨.zero, 1⟩]
def exDual : Con := .dual exDualY exDualK

/-- the rows `(−y₂, e·y₁, −y₀) ∈ K_exp`, `y₃ ≥ 0`; the `'0'` block has the free cone as dual: no rows -/
def exDualRows : List CRow :=
  [⟨[(2, -1)], 0, false⟩, ⟨[(1, 1)], 1, true⟩, ⟨[(0, -1)], 0, false⟩, ⟨[(3, 2)], -1, false⟩]

theorem exDual_conRows : conRows 9 exDual = .ok (exDualRows, [⟨.exp, 3⟩, ⟨.pos, 1⟩]) := by
  with_unfolding_all decide

theorem exDual_compiled : compileBlocks [exDual] 9 = .ok (exDualRows, [⟨.exp, 3⟩, ⟨.pos, 1⟩]) := by
  with_unfolding_all decide

/-- `dual_rows_iff` applies, and says what it should -/
example (Q : CType → List ℝ → Prop) (σ : Nat → ℝ) :
    FeasBlocks (conP Q) [⟨.exp, 3⟩, ⟨.pos, 1⟩] (exDualRows.map (crowVal σ)) ↔
      InExpDual (σ 0) (σ 1 + 1) (σ 2) ∧ 0 ≤ 2 * σ 3 - 1 := by
  rw [dual_rows_iff Q σ 9 exDualY exDualK (by decide) (by decide) _ _ exDual_conRows
    (by simp [exDualY, rowAtoms])]
  simp only [exDualY, exDualK, List.map_cons, List.map_nil, feasBlocks_cons, feasBlocks_nil, and_true,
    List.take, List.drop, dualP, realP, dexpR, List.mem_cons, List.not_mem_nil, or_false, forall_eq]
  simp [affVal, rowValWith]

/-- the equivalence applies to `[exDual]`, and `y = (0, 1, 0, 1, 0)` is in the dual cone -/
example (Q : CType → List ℝ → Prop) :
    ∀ c ∈ [exDual], Holds Q (fun id => if id = 3 then 1 else 0) c := by
  rw [compile_equiv_partial Q [exDual] 9 (by decide) (by unfold EpiFresh; with_unfolding_all decide)
    (by simp [exDual, exDualY, exDualK]) (by simp [exDual, elemRowsOf]) (by simp [exDual, exDualY, rowAtoms])
    _ _ exDual_compiled]
  refine ⟨_, fun _ _ => rfl, ?_⟩
  unfold FeasRows exDualRows
  simp only [List.map_cons, List.map_nil, crowVal_false, crowVal_true, List.sum_cons, List.sum_nil,
    feasBlocks_cons, feasBlocks_nil, and_true, List.take, List.drop, conP, realP, expR, InExpCone,
    List.mem_cons, List.not_mem_nil, or_false, forall_eq]
  norm_num
  positivity

end Sageopt.Props.C07
