/-
C07 — the compiled conic system is equivalent to the high-level constraints.
Property theorems about `Model/Compile.lean`.
-/
import SageoptModel.Model.Compile

namespace Sageopt.Props.C07
open Sageopt Sageopt.Compile

/-- the assembled system has one row of A and one entry of b per compiled row -/
theorem assemble_dims (rows : List CRow) (K : List Cone) :
    (assemble rows K).A.length = rows.length ∧ (assemble rows K).b.length = rows.length := by
  simp [assemble]

end Sageopt.Props.C07
