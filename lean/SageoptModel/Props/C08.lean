/-
C08 — Expressions behave exactly like numpy arrays of affine functions.
Property theorems about `Model/Wiring.lean` (+ `Model/Lin.lean`).
-/
import SageoptModel.Model.Wiring

namespace Sageopt.Props.C08
open Sageopt Sageopt.Wiring

/-- a wiring produces one output cell per row, on affine forms and on numbers alike (shape agreement) -/
theorem apply_lengths (w : Wire) (ins : List Lin) (xs : List Rat) :
    (applyLin w ins).length = (applyNum w xs).length := by
  simp [applyLin, applyNum]

end Sageopt.Props.C08
