/-
C08 — Expressions behave exactly like numpy arrays of affine functions.
Property theorems about `Model/Wiring.lean` (+ `Model/Lin.lean`).
-/
import SageoptModel.Model.Wiring
import SageoptModel.Lemmas.LinValue
import SageoptModel.Lemmas.WiringNatural
import SageoptModel.Lemmas.WiringNF
import SageoptModel.Lemmas.WiringIntro

namespace Sageopt.Props.C08
open Sageopt Sageopt.Wiring

/-- a wiring produces one output cell per row, on affine forms and on numbers alike (shape agreement) -/
theorem apply_lengths (w : Wire) (ins : List Lin) (xs : List Rat) :
    (applyLin w ins).length = (applyNum w xs).length := by
  simp [applyLin, applyNum]

/-- NATURALITY: any operator given by a wiring commutes with evaluation, for EVERY assignment:
    the value of the Expression result is the numeric operator applied to the values of the arguments -/
theorem wiring_natural (w : Wire) (ins : List Lin) (σ : Nat → Rat) :
    (applyLin w ins).map (Lin.value σ) = applyNum w (ins.map (Lin.value σ)) :=
  applyLin_value w ins σ

/-- wirings compose (numerically) … -/
theorem wiring_comp (w2 w1 : Wire) (hlen : w1.rows.length = w1.off.length) (xs : List Rat) :
    applyNum (compose w2 w1) xs = applyNum w2 (applyNum w1 xs) :=
  applyNum_compose w2 w1 hlen xs

/-- … hence naturality holds for every straight-line program: running the steps one after another on
    Expressions and then evaluating equals running them on the values -/
def runLin (prog : List Wire) (ins : List Lin) : List Lin := prog.foldl (fun acc w => applyLin w acc) ins
def runNum (prog : List Wire) (xs : List Rat) : List Rat := prog.foldl (fun acc w => applyNum w acc) xs

theorem program_natural (prog : List Wire) (ins : List Lin) (σ : Nat → Rat) :
    (runLin prog ins).map (Lin.value σ) = runNum prog (ins.map (Lin.value σ)) := by
  unfold runLin runNum
  induction prog generalizing ins with
  | nil => rfl
  | cons w prog ih =>
    rw [List.foldl_cons, List.foldl_cons, ih, wiring_natural]

/-- normal form of an affine cell: variables strictly increasing, no zero coefficient, not poisoned -/
def NF (x : Lin) : Prop := x.co.Pairwise (fun p q => p.1 < q.1) ∧ (∀ p ∈ x.co, p.2 ≠ 0) ∧ x.bad = false

/-- `NF` is the bundled predicate of `Lemmas/WiringNF.lean` -/
theorem nf_iff (x : Lin) : NF x ↔ NFco x := Iff.rfl

/-- the arithmetic keeps cells in normal form (so introspection is meaningful on every result) -/
theorem add_nf (x y : Lin) (hx : NF x) (hy : NF y) : NF (Lin.add x y) := add_nfco x y hx hy

theorem scale_nf (q : Rat) (x : Lin) (hx : NF x) : NF (Lin.scale q x) := scale_nfco q x hx

theorem applyLin_nf (w : Wire) (ins : List Lin) (h : ∀ x ∈ ins, NF x) : ∀ y ∈ applyLin w ins, NF y :=
  applyLin_nfco w ins h

/-- INTROSPECTION = support of the value function: the value depends on a scalar variable iff it is reported -/
theorem depends_iff (x : Lin) (hx : NF x) (i : Nat) :
    i ∈ support x ↔ ∃ σ : Nat → Rat, ∃ t : Rat, Lin.value (Function.update σ i t) x ≠ Lin.value σ x :=
  depends_iff_co x hx.1 hx.2.1 i

theorem constant_iff (x : Lin) (hx : NF x) :
    isAffineConst x = true ↔ ∀ σ σ' : Nat → Rat, Lin.value σ x = Lin.value σ' x :=
  constant_iff_co x hx.1 hx.2.1

/-- the symbolic equivalence test at zero tolerance: True only for functionally equal cells, and always for them -/
theorem cellEquiv_sound (x y : Lin) (h : cellEquiv 0 0 x y = true) : ∀ σ : Nat → Rat, Lin.value σ x = Lin.value σ y :=
  cellEquiv_sound_co x y h

theorem cellEquiv_complete (x y : Lin) (hx : NF x) (hy : NF y)
    (h : ∀ σ : Nat → Rat, Lin.value σ x = Lin.value σ y) : cellEquiv 0 0 x y = true :=
  cellEquiv_complete_co x y hx.1 hx.2.1 hy.1 hy.2.1 h

/-! ### non-vacuity: `A @ x + b` with `A = [[1,2],[0,-1]]`, `b = [1,0]` on the cells `[x0 + 1, 2·x1]` -/

/-- the wiring of `fun x => A @ x + b` (the explicit zero entry of `A` is kept) -/
def wAb : Wire := { rows := [[(0, 1), (1, 2)], [(0, 0), (1, -1)]], off := [1, 0] }

/-- the argument cells `x0 + 1` and `2·x1` -/
def cells : List Lin := [⟨1, [(0, 1)], false⟩, ⟨0, [(1, 2)], false⟩]

/-- the cells are what the arithmetic of `Lin` builds -/
example : cells = [Lin.add (Lin.var 0) (Lin.const 1), Lin.scale 2 (Lin.var 1)] := by
  with_unfolding_all decide

/-- `A @ [x0+1, 2·x1] + b = [x0 + 4·x1 + 2, -2·x1]` -/
example : applyLin wAb cells = [⟨2, [(0, 1), (1, 4)], false⟩, ⟨0, [(1, -2)], false⟩] := by
  with_unfolding_all decide

/-- the same wiring on numbers: `A @ [3, 10] + b = [24, -10]` -/
example : applyNum wAb [3, 10] = [24, -10] := by
  with_unfolding_all decide

/-- naturality on this instance, at `x0 = 2`, `x1 = 5` (cells evaluate to `[3, 10]`) -/
example : (applyLin wAb cells).map (Lin.value fun i => if i = 0 then 2 else 5) = [24, -10] := by
  with_unfolding_all decide

/-- the argument cells are in normal form … -/
theorem cells_nf : ∀ x ∈ cells, NF x := by
  intro x hx
  simp only [cells, List.mem_cons, List.not_mem_nil, or_false] at hx
  rcases hx with rfl | rfl
  · refine ⟨by simp, ?_, rfl⟩
    intro p hp
    simp only [List.mem_cons, List.not_mem_nil, or_false] at hp
    subst hp
    with_unfolding_all decide
  · refine ⟨by simp, ?_, rfl⟩
    intro p hp
    simp only [List.mem_cons, List.not_mem_nil, or_false] at hp
    subst hp
    with_unfolding_all decide

/-- … hence so are the results (instance of `applyLin_nf`), and the introspection reports exactly the
    variables the results depend on -/
example : ∀ y ∈ applyLin wAb cells, NF y := applyLin_nf wAb cells cells_nf

example : (applyLin wAb cells).map support = [[0, 1], [1]] := by
  with_unfolding_all decide

/-- a cell that is not in normal form (zero coefficient): the reported support is wrong -/
example : ¬ NF ⟨0, [(0, 0)], false⟩ := by
  intro h
  exact h.2.1 (0, 0) List.mem_cons_self rfl

/-- a two-step program: first `A @ x + b`, then the row sum `y0 + y1` -/
def wSum : Wire := { rows := [[(0, 1), (1, 1)]], off := [0] }

example : runLin [wAb, wSum] cells = [⟨2, [(0, 1), (1, 2)], false⟩] := by
  with_unfolding_all decide

example : runNum [wAb, wSum] [3, 10] = [14] := by
  with_unfolding_all decide

/-- the composed wiring is the one-step operator `x ↦ x0 + x1 + 1` (with the explicit zero product kept) -/
example : applyNum (compose wSum wAb) [3, 10] = [14] := by
  with_unfolding_all decide

/-- `cellEquiv` at zero tolerance on the program's result -/
example : cellEquiv 0 0 ((runLin [wAb, wSum] cells).getD 0 (Lin.const 0)) ⟨2, [(0, 1), (1, 2)], false⟩ = true := by
  with_unfolding_all decide

end Sageopt.Props.C08
