/-
C18 — GF(2) linear algebra and sign-pattern recovery are exact.
Property theorems about `Model/GF2.lean` (helper lemmas are in `Lemmas/GF2.lean`).
-/
import SageoptModel.Lemmas.GF2

namespace Sageopt.Props.C18
open Sageopt.GF2

/-- Forward elimination (`mod2rref(A, forward_only=True)`) returns a matrix with exactly the same
    solutions of `A x = 0 (mod 2)`, for every matrix size. -/
theorem rref_forward_row_equiv (n : Nat) (A : Mat) (x : Row) :
    Sol (rref n A true).1 x ↔ Sol A x := by
  have h := fwd_sol n 0 A [] [] x
  simpa [rref, Sol] using h

example : (rref 3 [[true,true,false],[true,false,true],[false,true,true]] true).1
    = [[true,true,false],[false,true,true],[false,false,false]] := by decide

end Sageopt.Props.C18
