/-
C18 — GF(2) linear algebra and sign-pattern recovery are exact.
Property theorems about `Model/GF2.lean` (helper lemmas are in `Lemmas/GF2*.lean`).
-/
import SageoptModel.Lemmas.GF2Sign
set_option linter.unusedVariables false

namespace Sageopt.Props.C18
open Sageopt.GF2

/-- Forward elimination (`mod2rref(A, forward_only=True)`) returns a matrix with exactly the same
    solutions of `A x = 0 (mod 2)`, for every matrix size. -/
theorem rref_forward_row_equiv (n : Nat) (A : Mat) (x : Row) :
    Sol (rref n A true).1 x ↔ Sol A x := by
  have h := fwd_sol n 0 A [] [] x
  simpa [rref, Sol] using h

example : (rref 3 [[true,true,false],[true,false,true],[false,true,true]] true).1
    = [[true,true,false],[false,true,true],[false,false,false]] := by decide

/-- T1: both modes of mod2rref return a row-equivalent matrix (same solution set) -/
theorem rref_row_equiv (n : Nat) (A : Mat) (f : Bool) (x : Row) (hA : WF n A) :
    Sol (rref n A f).1 x ↔ Sol A x :=
  rref_sol n A f x hA

/-- T2: pivot columns are strictly increasing and in range -/
theorem rref_pivots_sorted (n : Nat) (A : Mat) (f : Bool) :
    ((rref n A f).2).Pairwise (· < ·) ∧ ∀ c ∈ (rref n A f).2, c < n := by
  rw [rref_snd]
  obtain ⟨h1, h2⟩ := fwd_pivots n 0 A
  exact ⟨h1, fun c hc => by have := h2 c hc; omega⟩

/-- T3: echelon structure.  Row i (i < number of pivots) has its leading 1 in pivot column p[i];
    rows past the rank are zero; in the reduced form pivot columns are unit columns. -/
theorem rref_echelon (n : Nat) (A : Mat) (f : Bool) (hA : WF n A) :
    let R := (rref n A f).1
    let p := (rref n A f).2
    R.length = A.length ∧ WF n R ∧ p.length ≤ R.length ∧
    (∀ i, i < p.length → entry (R.getD i []) (p.getD i 0) = true ∧
        ∀ j, j < p.getD i 0 → entry (R.getD i []) j = false) ∧
    (∀ i, p.length ≤ i → i < R.length → ∀ j, entry (R.getD i []) j = false) ∧
    (f = false → ∀ i i', i < p.length → i' < R.length → i' ≠ i →
        entry (R.getD i' []) (p.getD i 0) = false) := by
  intro R p
  obtain ⟨h1, h2, h3⟩ := fwd_full n A hA
  cases f with
  | true =>
    have hR : R = (fwd n 0 A [] []).1 := by simp [R, rref_true]
    have hp : p = (fwd n 0 A [] []).2 := by simp [p, rref_true]
    rw [hR, hp]
    exact ⟨h3, h2, h1.len, h1.lead, fun i hi _ => h1.zero i hi, by simp⟩
  | false =>
    have hi := rref_false_inv n A hA
    have hr := rref_false_rref n A hA
    exact ⟨hi.len.trans h3, hi.wf, hi.ech.len, hi.ech.lead, fun i hi' _ => hi.ech.zero i hi',
      fun _ i i' h _ hne => hr.unit i i' h hne⟩

example : WF 3 [[true,true,false],[true,false,true],[false,true,true]] := by decide
example : rref 3 [[true,true,false],[true,false,true],[false,true,true]] false
    = ([[true,false,true],[false,true,true],[false,false,false]], [0, 1]) := by decide

/-- T4: a returned vector solves the system -/
theorem linsolve_sound (n : Nat) (A : Mat) (b x : Row) (hA : WF n A) (hb : b.length = A.length) :
    linsolve n A b = some x → x.length = n ∧ Solves A b x :=
  linsolve_sound' n A b x hA

/-- T5: `None` is returned only when no solution exists -/
theorem linsolve_complete (n : Nat) (A : Mat) (b : Row) (hA : WF n A) (hb : b.length = A.length) :
    linsolve n A b = none → ∀ x : Row, ¬ Solves A b x :=
  linsolve_complete' n A b hA

example : linsolve 3 [[true,true,false],[true,false,true],[false,true,true]] [true,false,true]
    = some [false,true,false] := by decide
example : Solves [[true,true,false],[true,false,true],[false,true,true]] [true,false,true]
    [false,true,false] := by decide
example : linsolve 3 [[true,true,false],[true,false,true],[false,true,true]] [true,false,false]
    = none := by decide

/-- T6: the enumerated null space is exactly the solution set of A x = 0 -/
theorem nullspace_sound (n : Nat) (A : Mat) (hA : WF n A) (v : Row) :
    v ∈ nullspace n (rref n A false).1 (rref n A false).2 → v.length = n ∧ Sol A v := by
  intro hv
  obtain ⟨h1, h2⟩ := nullspace_sol (rref_false_rref n A hA) v hv
  exact ⟨h1, (rref_sol n A false v hA).mp h2⟩

theorem nullspace_complete (n : Nat) (A : Mat) (hA : WF n A) (x : Row) (hx : x.length = n) :
    Sol A x → x ∈ nullspace n (rref n A false).1 (rref n A false).2 := by
  intro hs
  exact nullspace_complete_rref (rref_false_rref n A hA) x hx ((rref_sol n A false x hA).mpr hs)

/-- number of enumerated vectors = 2^(n - rank) (no duplicates as a list) -/
theorem nullspace_card (n : Nat) (A : Mat) (hA : WF n A) :
    (nullspace n (rref n A false).1 (rref n A false).2).length = 2 ^ (n - (rref n A false).2.length)
    ∧ (nullspace n (rref n A false).1 (rref n A false).2).Nodup := by
  obtain ⟨h1, h2⟩ := rref_pivots_sorted n A false
  exact nullspace_card_rref h1 h2

example : nullspace 3 (rref 3 [[true,true,false],[true,false,true],[false,true,true]] false).1
    (rref 3 [[true,true,false],[true,false,true],[false,true,true]] false).2
    = [[false,false,false],[true,true,true]] := by decide

/-! sign patterns.  `alphaOdd[i][j]` = (alpha[i,j] is odd); `nz[i]` = (moments[i] ≠ 0);
    `neg[i]` = (moments[i] < 0); a sign vector is its negativity indicator.
    (`Consistent`, `EvenNonneg`, `signProd` are defined in `Lemmas/GF2Sign.lean`.) -/

theorem sign_patterns_sound (n : Nat) (α : Mat) (nz neg : Row) (all : Bool) (hα : WF n α)
    (hpos : EvenNonneg α nz neg) (y : Row) :
    y ∈ variableSignPatterns n α nz neg all → y.length = n ∧ Consistent α nz neg y :=
  vsp_sound all hα hpos y

theorem sign_patterns_none_iff (n : Nat) (α : Mat) (nz neg : Row) (all : Bool) (hα : WF n α)
    (hpos : EvenNonneg α nz neg) :
    variableSignPatterns n α nz neg all = [] ↔ ¬ ∃ y : Row, Consistent α nz neg y :=
  vsp_nil_iff all hα hpos

/-- with all_signs, every consistent pattern is returned up to the coordinates that are irrelevant to
    signs (coordinates that are odd in no row with a nonzero moment) -/
theorem sign_patterns_complete (n : Nat) (α : Mat) (nz neg : Row) (hα : WF n α)
    (hpos : EvenNonneg α nz neg) (y : Row) (hy : y.length = n) (hc : Consistent α nz neg y) :
    ∃ y' ∈ variableSignPatterns n α nz neg true,
      ∀ j, j < n → (∃ i, i < α.length ∧ entry nz i = true ∧ entry (α.getD i []) j = true) →
        entry y' j = entry y j :=
  vsp_complete hα hpos y hy hc

/-- the reduction of sign consistency to GF(2): for y ∈ {-1,+1}^n (as negativity indicator `ng`)
    the sign of prod_j y_j^(alpha_j) is -1 iff an odd number of odd exponents sit at negative
    coordinates -/
theorem sign_reduction (ng : List Bool) (a : List Nat) :
    signProd ng a = if dotB (a.map (· % 2 = 1)) ng then -1 else 1 :=
  signProd_eq ng a

-- non-vacuity: alpha = [[1,1,0],[0,1,1],[2,0,2]] (odd pattern below), moments (-, +, +)
example : WF 3 [[true,true,false],[false,true,true],[false,false,false]] := by decide
example : EvenNonneg [[true,true,false],[false,true,true],[false,false,false]]
    [true,true,true] [true,false,false] := by decide
example : variableSignPatterns 3 [[true,true,false],[false,true,true],[false,false,false]]
    [true,true,true] [true,false,false] true
    = [[true,false,false],[false,true,true]] := by decide
example : Consistent [[true,true,false],[false,true,true],[false,false,false]]
    [true,true,true] [true,false,false] [false,true,true] := by decide
-- an infeasible instance: rows (1,1) with moments of opposite sign
example : EvenNonneg [[true,true],[true,true]] [true,true] [true,false] := by decide
example : variableSignPatterns 2 [[true,true],[true,true]] [true,true] [true,false] true = [] := by
  decide
example : signProd [true,false,true] [3,1,2] = -1 := by decide

end Sageopt.Props.C18
