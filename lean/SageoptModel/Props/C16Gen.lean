/-
C16 — obligation over the constant regenerated from `symbolic_correspondences.py` on every run:
the row-matching tolerance is 10^-(7+1), strictly below the 1e-7 grid spacing of rounded exponents
(which is what makes tolerance matching exact matching, `tol_match_exact`).
-/
import SageoptModel.Generated.SymCorrConsts

namespace Sageopt.Props.C16

theorem row_tol_value :
    Generated.SymCorrConsts.rowTolNum = 1 ∧ Generated.SymCorrConsts.rowTolDen = 100000000 := by decide

/-- the matching code still has the shape the model `SymCorr.rowMatch` describes (a strict comparison with the tolerance) -/
theorem row_match_shape : Generated.SymCorrConsts.rowMatchShape = true := by decide

end Sageopt.Props.C16
