/-
C15 — inferred and user-specified domains represent the intended set.
Property theorems about `Model/Domain.lean`.
-/
import SageoptModel.Model.Domain

namespace Sageopt.Props.C15
open Sageopt Sageopt.Sig Sageopt.Relax Sageopt.Domain

/-- reordering columns keeps the rows (and hence `b` and `K`) in place -/
theorem reorderCols_length (A : List (List Rat)) (ncols : Nat) (selector : List Int) :
    (reorderCols A ncols selector).length = A.length := by
  simp [reorderCols]

end Sageopt.Props.C15
