/-
C15 — inferred and user-specified domains represent the intended set.
Property theorems about `Model/Domain.lean`.  Helper lemmas: `Lemmas/Dom*.lean` (prefix `dm_`).
-/
import SageoptModel.Model.Domain
import SageoptModel.Lemmas.DomainSem
import SageoptModel.Lemmas.SigSem
import SageoptModel.Lemmas.DomInfer
import SageoptModel.Lemmas.DomReorder

namespace Sageopt.Props.C15
open Sageopt Sageopt.Sig Sageopt.Relax Sageopt.Poly Sageopt.Sage Sageopt.Domain

/-- normalising an inequality (dividing by its single positive monomial) does not change the set -/
theorem posyIneq_keep_iff (g g' : SigQ) (hg : SigWf g) (hgrid : ∀ t ∈ g.terms, OnGrid t.1) (h : posyIneq g = .keep g')
    (y : List ℝ) (hy : y.length = g.n) :
    0 ≤ sigR g.terms y ↔ 0 ≤ sigR g'.terms y :=
  dm_posyIneq_keep_iff g g' (dm_wf_of g hg hgrid) h y

/-- a constraint that is skipped is simply not used: the inferred set can only be larger; a constraint with no positive
    term and some negative term is reported as infeasible, and it is (no point satisfies it) -/
theorem posyIneq_raise_infeasible (g : SigQ) (h : posyIneq g = .raises "RuntimeError: infeasible signomial inequality")
    (y : List ℝ) : sigR g.terms y < 0 :=
  dm_sig_neg_of_raise g h y

/-- normalising an equation does not change the set -/
theorem monoEq_keep_iff (g g' : SigQ) (hg : SigWf g) (hgrid : ∀ t ∈ g.terms, OnGrid t.1) (h : monoEq g = .keep g')
    (y : List ℝ) (hy : y.length = g.n) :
    sigR g.terms y = 0 ↔ sigR g'.terms y = 0 :=
  dm_monoEq_keep_iff g g' (dm_wf_of g hg hgrid) h y

/-- the generated log-space constraints of a standard-form inequality describe exactly `g ≥ 0` -/
theorem clconGt_iff (g : SigQ) (hg : StdGt g) (y : List ℝ) (hy : y.length = g.n) :
    (∀ c ∈ clconGt g, LogCon.holds y c) ↔ 0 ≤ sigR g.terms y :=
  dm_clconGt_iff g hg y

/-- the generated log-space constraint of a standard-form equation describes exactly `g = 0` -/
theorem clconEq_iff (g : SigQ) (hg : StdEq g) (y : List ℝ) (hy : y.length = g.n) :
    (∀ c ∈ clconEq g, LogCon.holds y c) ↔ sigR g.terms y = 0 :=
  dm_clconEq_iff g hg y

/-- what `posyIneq` keeps is in standard form (so `clconGt_iff` applies to it) -/
theorem posyIneq_keep_std (g g' : SigQ) (hg : SigWf g) (hgrid : ∀ t ∈ g.terms, OnGrid t.1) (h : posyIneq g = .keep g') : StdGt g' :=
  dm_posyIneq_keep_std g g' (dm_wf_of g hg hgrid) h

/-- what `monoEq` keeps: either in standard form, or a single positive constant (the equation `c e^{a·y} = 0`, for which
    `clconEq` raises: the code raises IndexError there, pre-finding F14) -/
theorem monoEq_keep_std (g g' : SigQ) (hg : SigWf g) (hgrid : ∀ t ∈ g.terms, OnGrid t.1) (h : monoEq g = .keep g') :
    StdEq g' ∨ g'.terms.length ≤ 1 :=
  dm_monoEq_keep_std g g' (dm_wf_of g hg hgrid) h

/-- EXACTNESS: the inferred set is exactly the set cut out by the kept constraints `X.gts`, `X.eqs` -/
theorem inferSig_exact (gts eqs : List SigQ) (hw : ∀ g ∈ gts ++ eqs, SigWf g ∧ ∀ t ∈ g.terms, OnGrid t.1) (n : Nat)
    (hn : ∀ g ∈ gts ++ eqs, g.n = n) (r : Inferred) (h : inferSig gts eqs = .ok (some r)) (y : List ℝ) (hy : y.length = n) :
    (∀ c ∈ r.cons, LogCon.holds y c) ↔ ((∀ g ∈ r.gts, 0 ≤ sigR g.terms y) ∧ (∀ g ∈ r.eqs, sigR g.terms y = 0)) := by
  obtain ⟨hgts, heqs, hcons, hno⟩ := dm_inferSig_ok gts eqs r h
  have hkg : ∀ g' ∈ r.gts, StdGt g' := by
    intro g' hg'
    rw [hgts] at hg'
    obtain ⟨g, hg, hk⟩ := (dm_mem_keptOf_map gts posyIneq g').1 hg'
    obtain ⟨h1, h2⟩ := hw g (List.mem_append_left _ hg)
    exact dm_posyIneq_keep_std g g' (dm_wf_of g h1 h2) hk
  have hke : ∀ g' ∈ r.eqs, StdEq g' := by
    intro g' hg'
    have hg'' := hg'
    rw [heqs] at hg''
    obtain ⟨g, hg, hk⟩ := (dm_mem_keptOf_map eqs monoEq g').1 hg''
    obtain ⟨h1, h2⟩ := hw g (List.mem_append_right _ hg)
    rcases dm_monoEq_keep_std g g' (dm_wf_of g h1 h2) hk with hs | hs
    · exact hs
    · exfalso
      obtain ⟨m, hm⟩ := dm_clconEq_raises g' hs
      refine hno (.raises m) ?_ m rfl
      rw [hcons]
      exact List.mem_append_right _ (List.mem_flatMap.2 ⟨g', hg', by rw [hm]; simp⟩)
  rw [hcons]
  exact dm_cons_iff r.gts r.eqs hkg hke y

/-- CONTAINMENT: every point satisfying all of gts and eqs lies in the inferred set -/
theorem inferSig_contains (gts eqs : List SigQ) (hw : ∀ g ∈ gts ++ eqs, SigWf g ∧ ∀ t ∈ g.terms, OnGrid t.1) (n : Nat)
    (hn : ∀ g ∈ gts ++ eqs, g.n = n) (r : Inferred) (h : inferSig gts eqs = .ok (some r)) (y : List ℝ) (hy : y.length = n)
    (hg : ∀ g ∈ gts, 0 ≤ sigR g.terms y) (he : ∀ g ∈ eqs, sigR g.terms y = 0) :
    ∀ c ∈ r.cons, LogCon.holds y c := by
  obtain ⟨hgts, heqs, _, _⟩ := dm_inferSig_ok gts eqs r h
  apply (inferSig_exact gts eqs hw n hn r h y hy).2
  constructor
  · intro g' hg'
    rw [hgts] at hg'
    obtain ⟨g, hgm, hk⟩ := (dm_mem_keptOf_map gts posyIneq g').1 hg'
    obtain ⟨h1, h2⟩ := hw g (List.mem_append_left _ hgm)
    exact (dm_posyIneq_keep_iff g g' (dm_wf_of g h1 h2) hk y).1 (hg g hgm)
  · intro g' hg'
    rw [heqs] at hg'
    obtain ⟨g, hgm, hk⟩ := (dm_mem_keptOf_map eqs monoEq g').1 hg'
    obtain ⟨h1, h2⟩ := hw g (List.mem_append_right _ hgm)
    exact (dm_monoEq_keep_iff g g' (dm_wf_of g h1 h2) hk y).1 (he g hgm)

/-- polynomials with even exponents only: `g(x) = g_sig(log|x|)` at every point without zero coordinate, in every orthant -/
theorem even_poly_logabs (g : SigQ) (hg : PolyWfQ g) (he : allEven g = true) (x : List ℝ) (hx : NoZero x) (hl : x.length = g.n) :
    polyR g.terms x = sigR g.terms (logAbs x) :=
  dm_even_poly g hg he x hx hl

/-- EXACTNESS for polynomials: `log|x|` lies in the inferred set iff `x` satisfies the kept polynomial constraints -/
theorem inferPoly_exact (gts eqs : List SigQ) (hw : ∀ g ∈ gts ++ eqs, PolyWfQ g ∧ (keys g.terms).Nodup) (n : Nat)
    (hn : ∀ g ∈ gts ++ eqs, g.n = n) (r : Inferred) (h : inferPoly gts eqs = .ok (some r)) (x : List ℝ) (hx : NoZero x) (hl : x.length = n) :
    (∀ c ∈ r.cons, LogCon.holds (logAbs x) c) ↔ ((∀ g ∈ r.gts, 0 ≤ polyR g.terms x) ∧ (∀ g ∈ r.eqs, polyR g.terms x = 0)) := by
  obtain ⟨hgts, heqs, hlg, hle, hcons, _⟩ := dm_inferPoly_ok gts eqs r h
  -- every kept polynomial inequality: well formed, one positive term, even
  have hG : ∀ g ∈ r.gts, Wf g ∧ PolyWfQ g ∧ g.n = n ∧ allEven g = true ∧ ∃ p, posTerms g = [p] := by
    intro g hg
    rw [hgts] at hg
    obtain ⟨g0, hg0, hk⟩ := (dm_mem_keptOf_map gts gpPolyIneq g).1 hg
    obtain ⟨rfl, hp, hev⟩ := dm_gpPolyIneq_keep g0 g hk
    obtain ⟨h1, h2⟩ := hw g (List.mem_append_left _ hg0)
    exact ⟨dm_polyWf_wf g h1 h2, h1, hn g (List.mem_append_left _ hg0), hev, hp⟩
  have hE : ∀ g ∈ r.eqs, Wf g ∧ PolyWfQ g ∧ g.n = n ∧ allEven g = true ∧ nonzeroCount g = 2 ∧
      ∃ p, posTerms g = [p] := by
    intro g hg
    rw [heqs] at hg
    obtain ⟨g0, hg0, hk⟩ := (dm_mem_keptOf_map eqs gpPolyEq g).1 hg
    obtain ⟨rfl, hp, hev, h2c⟩ := dm_gpPolyEq_keep g0 g hk
    obtain ⟨h1, h2⟩ := hw g (List.mem_append_right _ hg0)
    exact ⟨dm_polyWf_wf g h1 h2, h1, hn g (List.mem_append_right _ hg0), hev, h2c, hp⟩
  have hkg : ∀ g' ∈ r.logGts, StdGt g' := by
    intro g' hg'
    rw [hlg] at hg'
    obtain ⟨g, hg, hk⟩ := (dm_mem_keptOf_map r.gts posyIneq g').1 hg'
    exact dm_posyIneq_keep_std g g' (hG g hg).1 hk
  have hke : ∀ g' ∈ r.logEqs, StdEq g' := by
    intro g' hg'
    rw [hle] at hg'
    obtain ⟨g, hg, hk⟩ := (dm_mem_keptOf_map r.eqs monoEq g').1 hg'
    exact dm_monoEq_keep_std2 g g' (hE g hg).1 hk (hE g hg).2.2.2.2.1
  rw [hcons, dm_cons_iff r.logGts r.logEqs hkg hke (logAbs x)]
  constructor
  · rintro ⟨h1, h2⟩
    constructor
    · intro g hg
      obtain ⟨hwf, hpw, hgn, hev, p, hp⟩ := hG g hg
      have hk := dm_posyIneq_of_single g p hp
      have hm : mulQ g (monomial g.n (negExp p.1)) ∈ r.logGts := by
        rw [hlg]; exact (dm_mem_keptOf_map r.gts posyIneq _).2 ⟨g, hg, hk⟩
      rw [dm_even_poly g hpw hev x hx (by rw [hl, hgn])]
      exact (dm_posyIneq_keep_iff g _ hwf hk (logAbs x)).2 (h1 _ hm)
    · intro g hg
      obtain ⟨hwf, hpw, hgn, hev, h2c, p, hp⟩ := hE g hg
      have hk := dm_monoEq_of_single g p hp h2c
      have hm : mulQ g (monomial g.n (negExp p.1)) ∈ r.logEqs := by
        rw [hle]; exact (dm_mem_keptOf_map r.eqs monoEq _).2 ⟨g, hg, hk⟩
      rw [dm_even_poly g hpw hev x hx (by rw [hl, hgn])]
      exact (dm_monoEq_keep_iff g _ hwf hk (logAbs x)).2 (h2 _ hm)
  · rintro ⟨h1, h2⟩
    constructor
    · intro g' hg'
      rw [hlg] at hg'
      obtain ⟨g, hg, hk⟩ := (dm_mem_keptOf_map r.gts posyIneq g').1 hg'
      obtain ⟨hwf, hpw, hgn, hev, _⟩ := hG g hg
      apply (dm_posyIneq_keep_iff g g' hwf hk (logAbs x)).1
      rw [← dm_even_poly g hpw hev x hx (by rw [hl, hgn])]
      exact h1 g hg
    · intro g' hg'
      rw [hle] at hg'
      obtain ⟨g, hg, hk⟩ := (dm_mem_keptOf_map r.eqs monoEq g').1 hg'
      obtain ⟨hwf, hpw, hgn, hev, _⟩ := hE g hg
      apply (dm_monoEq_keep_iff g g' hwf hk (logAbs x)).1
      rw [← dm_even_poly g hpw hev x hx (by rw [hl, hgn])]
      exact h2 g hg

/-- CONTAINMENT for polynomials, in log|x| -/
theorem inferPoly_contains (gts eqs : List SigQ) (hw : ∀ g ∈ gts ++ eqs, PolyWfQ g ∧ (keys g.terms).Nodup) (n : Nat)
    (hn : ∀ g ∈ gts ++ eqs, g.n = n) (r : Inferred) (h : inferPoly gts eqs = .ok (some r)) (x : List ℝ) (hx : NoZero x) (hl : x.length = n)
    (hg : ∀ g ∈ gts, 0 ≤ polyR g.terms x) (he : ∀ g ∈ eqs, polyR g.terms x = 0) :
    ∀ c ∈ r.cons, LogCon.holds (logAbs x) c := by
  obtain ⟨hgts, heqs, _, _, _, _⟩ := dm_inferPoly_ok gts eqs r h
  apply (inferPoly_exact gts eqs hw n hn r h x hx hl).2
  constructor
  · intro g hgm
    rw [hgts] at hgm
    obtain ⟨g0, hg0, hk⟩ := (dm_mem_keptOf_map gts gpPolyIneq g).1 hgm
    obtain ⟨rfl, _, _⟩ := dm_gpPolyIneq_keep g0 g hk
    exact hg g hg0
  · intro g hgm
    rw [heqs] at hgm
    obtain ⟨g0, hg0, hk⟩ := (dm_mem_keptOf_map eqs gpPolyEq g).1 hgm
    obtain ⟨rfl, _, _⟩ := dm_gpPolyEq_keep g0 g hk
    exact he g hg0

/-- COLUMN REORDERING.  `selector` lists, for each component of `x`, its column in the compiled system or −1; when the columns
    of the `x` components that occur are exactly the first `used` columns (the auxiliary variables are created later, hence
    numbered after them), a row of the reordered matrix applied to `(x, aux)` equals the original row applied to the assignment
    that puts `x_i` in column `selector[i]` and `aux_k` in column `used + k` -/
theorem reorderCols_row (row : List Rat) (ncols : Nat) (hrow : row.length = ncols) (selector : List Int)
    (hsel : ∀ s ∈ selector, s = -1 ∨ (0 ≤ s ∧ s.toNat < (selector.filter (· != -1)).length))
    (hinj : ((selector.filter (· != -1)).map Int.toNat).Nodup)
    (hused : (selector.filter (· != -1)).length ≤ ncols)
    (x aux : List ℝ) (hx : x.length = selector.length) (haux : aux.length = ncols - (selector.filter (· != -1)).length) :
    let used := (selector.filter (· != -1)).length
    let σ : Nat → ℝ := fun col =>
      if col < used then
        match (selector.zip x).find? (fun p => p.1 == (col : Int)) with
        | some p => p.2
        | none => 0
      else aux.getD (col - used) 0
    (List.zipWith (fun (q : Rat) (t : ℝ) => (q : ℝ) * t) ((reorderCols [row] ncols selector).headD []) (x ++ aux)).sum
      = ((List.range ncols).map fun col => ((row.getD col 0 : Rat) : ℝ) * σ col).sum := by
  intro used σ
  apply dm_reorder_sum row ncols hrow selector hsel hinj hused x aux hx haux σ
  · intro p hp
    obtain ⟨h1, h2⟩ := dm_find_spec selector x hx hsel hinj p hp
    simp only [σ, used, if_pos h1, h2]
  · intro k
    simp [σ, used]

/-! ### non-vacuity: the hypotheses hold on concrete data, and the model produces what the code produces

Signomials in two variables `(x, y)`:
`gA = 6e^{-x} − 3e^{-2x} − 1 − e^{x}` (normalises to `6 − 3e^{-x} − e^{x} − e^{2x}`: an `lse` constraint),
`gB = 5 − 2e^{x+y}` (a `lin` constraint), `gS = e^{x} + e^{y} − 1` (two positive terms: skipped),
`gZ = 2e^{x} + 0·e^{y} − e^{2x}` (an explicit zero coefficient: dropped by the normalisation),
`gR = −2e^{x} + 0` (no positive term: infeasible), `hA = 3e^{x} − 2e^{y}` (an equation).
Polynomials: `pA = 4 − x²y²`, `pS = 1 − x` (odd exponent: skipped), `pE = x² − 4y²` (an equation).
Concrete values are checked by evaluation of the executable model (`with_unfolding_all`: core `Rat` operations are
irreducible). -/
section NonVacuity

private def gA : SigQ := ⟨2, [([-1, 0], 6), ([-2, 0], -3), ([0, 0], -1), ([1, 0], -1)]⟩
private def gA' : SigQ := ⟨2, [([0, 0], 6), ([-1, 0], -3), ([1, 0], -1), ([2, 0], -1)]⟩
private def gB : SigQ := ⟨2, [([0, 0], 5), ([1, 1], -2)]⟩
private def gS : SigQ := ⟨2, [([1, 0], 1), ([0, 1], 1), ([0, 0], -1)]⟩
private def gZ : SigQ := ⟨2, [([1, 0], 2), ([0, 1], 0), ([2, 0], -1)]⟩
private def gZ' : SigQ := ⟨2, [([0, 0], 2), ([1, 0], -1)]⟩
private def gR : SigQ := ⟨2, [([1, 0], -2), ([0, 0], 0)]⟩
private def hA : SigQ := ⟨2, [([1, 0], 3), ([0, 1], -2)]⟩
private def hA' : SigQ := ⟨2, [([0, 0], 3), ([-1, 1], -2)]⟩
private def pA : SigQ := ⟨2, [([0, 0], 4), ([2, 2], -1)]⟩
private def pS : SigQ := ⟨2, [([0, 0], 1), ([1, 0], -1)]⟩
private def pE : SigQ := ⟨2, [([2, 0], 1), ([0, 2], -4)]⟩
private def pE' : SigQ := ⟨2, [([0, 0], 1), ([-2, 2], -4)]⟩

private theorem grid_of {ts : List (Exp × Rat)} (h : ∀ t ∈ ts, ∀ q ∈ t.1, round7 q = q) :
    ∀ t ∈ ts, OnGrid t.1 := h

private theorem gA_wf : SigWf gA := ⟨by with_unfolding_all decide, by with_unfolding_all decide⟩
private theorem gA_grid : ∀ t ∈ gA.terms, OnGrid t.1 := grid_of (by with_unfolding_all decide)
private theorem gZ_wf : SigWf gZ := ⟨by with_unfolding_all decide, by with_unfolding_all decide⟩
private theorem gZ_grid : ∀ t ∈ gZ.terms, OnGrid t.1 := grid_of (by with_unfolding_all decide)
private theorem gB_wf : SigWf gB := ⟨by with_unfolding_all decide, by with_unfolding_all decide⟩
private theorem gB_grid : ∀ t ∈ gB.terms, OnGrid t.1 := grid_of (by with_unfolding_all decide)
private theorem hA_wf : SigWf hA := ⟨by with_unfolding_all decide, by with_unfolding_all decide⟩
private theorem hA_grid : ∀ t ∈ hA.terms, OnGrid t.1 := grid_of (by with_unfolding_all decide)

-- what the selectors return
private theorem gA_keep : posyIneq gA = .keep gA' := by with_unfolding_all rfl
private theorem gB_keep : posyIneq gB = .keep gB := by with_unfolding_all rfl
private theorem gZ_keep : posyIneq gZ = .keep gZ' := by with_unfolding_all rfl
private theorem gR_raise : posyIneq gR = .raises "RuntimeError: infeasible signomial inequality" := by
  with_unfolding_all rfl
private theorem hA_keep : monoEq hA = .keep hA' := by with_unfolding_all rfl
example : posyIneq gS = .skip := by with_unfolding_all rfl
example : monoEq gS = .skip := by with_unfolding_all rfl
-- the zero signomial and a single positive monomial used as an equation (`c e^{a·y} = 0`)
example : posyIneq ⟨2, [([1, 0], 0)]⟩ = .raises "IndexError" := by with_unfolding_all rfl
example : monoEq ⟨2, [([1, 0], 7)]⟩ = .keep ⟨2, [([0, 0], 7)]⟩ := by with_unfolding_all rfl
example : clconEq ⟨2, [([0, 0], 7)]⟩ = [.raises "IndexError"] := by with_unfolding_all rfl

-- normalisation keeps the set
example (y : List ℝ) (hy : y.length = 2) : 0 ≤ sigR gA.terms y ↔ 0 ≤ sigR gA'.terms y :=
  posyIneq_keep_iff gA gA' gA_wf gA_grid gA_keep y hy
example (y : List ℝ) (hy : y.length = 2) : 0 ≤ sigR gZ.terms y ↔ 0 ≤ sigR gZ'.terms y :=
  posyIneq_keep_iff gZ gZ' gZ_wf gZ_grid gZ_keep y hy
example (y : List ℝ) (hy : y.length = 2) : sigR hA.terms y = 0 ↔ sigR hA'.terms y = 0 :=
  monoEq_keep_iff hA hA' hA_wf hA_grid hA_keep y hy
example (y : List ℝ) : sigR gR.terms y < 0 := posyIneq_raise_infeasible gR gR_raise y

-- what is kept is in standard form
private theorem gA'_std : StdGt gA' := posyIneq_keep_std gA gA' gA_wf gA_grid gA_keep
private theorem gB_std : StdGt gB := posyIneq_keep_std gB gB gB_wf gB_grid gB_keep
private theorem gZ'_std : StdGt gZ' := posyIneq_keep_std gZ gZ' gZ_wf gZ_grid gZ_keep
private theorem hA'_std : StdEq hA' := by
  rcases monoEq_keep_std hA hA' hA_wf hA_grid hA_keep with h | h
  · exact h
  · exact absurd h (by decide)

-- the generated constraints, and what they mean
private theorem gA'_clcon : clconGt gA' = [.lse [3, 1, 1] [[-1, 0], [1, 0], [2, 0]] 6] := by with_unfolding_all rfl
private theorem gB_clcon : clconGt gB = [.lin [1, 1] 5 2] := by with_unfolding_all rfl
private theorem hA'_clcon : clconEq hA' = [.eq [-1, 1] 3 2] := by with_unfolding_all rfl

/-- `3e^{-x} + e^{x} + e^{2x} ≤ 6  ⟺  6 − 3e^{-x} − e^{x} − e^{2x} ≥ 0` -/
example (y : List ℝ) (hy : y.length = 2) :
    LogCon.holds y (.lse [3, 1, 1] [[-1, 0], [1, 0], [2, 0]] 6) ↔ 0 ≤ sigR gA'.terms y := by
  have h := clconGt_iff gA' gA'_std y hy
  rw [gA'_clcon] at h
  simpa using h

/-- `x + y ≤ log(5/2)  ⟺  5 − 2e^{x+y} ≥ 0` -/
example (y : List ℝ) (hy : y.length = 2) : LogCon.holds y (.lin [1, 1] 5 2) ↔ 0 ≤ sigR gB.terms y := by
  have h := clconGt_iff gB gB_std y hy
  rw [gB_clcon] at h
  simpa using h

/-- `−x + y = log(3/2)  ⟺  3 − 2e^{−x+y} = 0` -/
example (y : List ℝ) (hy : y.length = 2) : LogCon.holds y (.eq [-1, 1] 3 2) ↔ sigR hA'.terms y = 0 := by
  have h := clconEq_iff hA' hA'_std y hy
  rw [hA'_clcon] at h
  simpa using h

-- domain inference for signomials: `gS` is skipped, everything else is kept in normalised form
private def rS : Inferred :=
  ⟨[gA', gB, gZ'], [hA'], [gA', gB, gZ'], [hA'],
    [.lse [3, 1, 1] [[-1, 0], [1, 0], [2, 0]] 6, .lin [1, 1] 5 2, .lin [1, 0] 2 1, .eq [-1, 1] 3 2]⟩

private theorem inferS : inferSig [gA, gS, gB, gZ] [hA] = .ok (some rS) := by with_unfolding_all rfl

private theorem hwS : ∀ g ∈ [gA, gS, gB, gZ] ++ [hA], SigWf g ∧ ∀ t ∈ g.terms, OnGrid t.1 := by
  intro g hg
  simp only [List.cons_append, List.nil_append, List.mem_cons, List.not_mem_nil, or_false] at hg
  rcases hg with rfl | rfl | rfl | rfl | rfl <;>
    exact ⟨⟨by with_unfolding_all decide, by with_unfolding_all decide⟩, grid_of (by with_unfolding_all decide)⟩

private theorem hnS : ∀ g ∈ [gA, gS, gB, gZ] ++ [hA], g.n = 2 := by
  intro g hg
  simp only [List.cons_append, List.nil_append, List.mem_cons, List.not_mem_nil, or_false] at hg
  rcases hg with rfl | rfl | rfl | rfl | rfl <;> rfl

example (y : List ℝ) (hy : y.length = 2) :
    (∀ c ∈ rS.cons, LogCon.holds y c) ↔
      ((∀ g ∈ [gA', gB, gZ'], 0 ≤ sigR g.terms y) ∧ (∀ g ∈ [hA'], sigR g.terms y = 0)) :=
  inferSig_exact [gA, gS, gB, gZ] [hA] hwS 2 hnS rS inferS y hy

/-- a point that satisfies every given constraint (so the hypotheses of `inferSig_contains` are satisfiable): `(0, log(3/2))` -/
private theorem pointS :
    (∀ g ∈ [gA, gS, gB, gZ], 0 ≤ sigR g.terms [0, Real.log (3 / 2)]) ∧
    (∀ g ∈ [hA], sigR g.terms [0, Real.log (3 / 2)] = 0) := by
  have hexp : Real.exp (Real.log (3 / 2)) = 3 / 2 := Real.exp_log (by norm_num)
  constructor
  · intro g hg
    simp only [List.mem_cons, List.not_mem_nil, or_false] at hg
    rcases hg with rfl | rfl | rfl | rfl <;>
      simp only [gA, gS, gB, gZ, sigR, rdot, List.map_cons, List.map_nil, List.zipWith_cons_cons,
        List.zipWith_nil_right, List.sum_cons, List.sum_nil] <;>
      norm_num [hexp]
  · intro g hg
    simp only [List.mem_cons, List.not_mem_nil, or_false] at hg
    subst hg
    simp only [hA, sigR, rdot, List.map_cons, List.map_nil, List.zipWith_cons_cons,
      List.zipWith_nil_right, List.sum_cons, List.sum_nil]
    norm_num [hexp]

example : ∀ c ∈ rS.cons, LogCon.holds [0, Real.log (3 / 2)] c :=
  inferSig_contains [gA, gS, gB, gZ] [hA] hwS 2 hnS rS inferS _ rfl pointS.1 pointS.2

-- polynomials
private theorem polyWfQ_of {g : SigQ} (h : ∀ t ∈ g.terms, t.1.length = g.n ∧ isPolyExp t.1 = true) : PolyWfQ g := h

private theorem pA_wf : PolyWfQ pA := polyWfQ_of (by with_unfolding_all decide)

example (x : List ℝ) (hx : NoZero x) (hl : x.length = 2) : polyR pA.terms x = sigR pA.terms (logAbs x) :=
  even_poly_logabs pA pA_wf (by with_unfolding_all decide) x hx hl

example : gpPolyIneq pA = .keep pA := by with_unfolding_all rfl
example : gpPolyIneq pS = .skip := by with_unfolding_all rfl
example : gpPolyEq pE = .keep pE := by with_unfolding_all rfl
-- no positive term: dropped with a warning when `g(0) = 0`, infeasible otherwise
example : gpPolyIneq ⟨2, [([2, 0], -1)]⟩ = .skip := by with_unfolding_all rfl
example : gpPolyIneq ⟨2, [([2, 0], -1), ([0, 0], -3)]⟩ = .raises "RuntimeError: infeasible polynomial inequality" := by
  with_unfolding_all rfl

/-- `X.gts`, `X.eqs` hold the polynomials themselves; the log-space forms are the normalised ones -/
private def rP : Inferred :=
  ⟨[pA], [pE], [pA], [pE'], [.lin [2, 2] 4 1, .eq [-2, 2] 1 4]⟩

private theorem inferP : inferPoly [pA, pS] [pE] = .ok (some rP) := by with_unfolding_all rfl

private theorem hwP : ∀ g ∈ [pA, pS] ++ [pE], PolyWfQ g ∧ (keys g.terms).Nodup := by
  intro g hg
  simp only [List.cons_append, List.nil_append, List.mem_cons, List.not_mem_nil, or_false] at hg
  rcases hg with rfl | rfl | rfl <;>
    exact ⟨polyWfQ_of (by with_unfolding_all decide), by with_unfolding_all decide⟩

private theorem hnP : ∀ g ∈ [pA, pS] ++ [pE], g.n = 2 := by
  intro g hg
  simp only [List.cons_append, List.nil_append, List.mem_cons, List.not_mem_nil, or_false] at hg
  rcases hg with rfl | rfl | rfl <;> rfl

example (x : List ℝ) (hx : NoZero x) (hl : x.length = 2) :
    (∀ c ∈ rP.cons, LogCon.holds (logAbs x) c) ↔
      ((∀ g ∈ [pA], 0 ≤ polyR g.terms x) ∧ (∀ g ∈ [pE], polyR g.terms x = 0)) :=
  inferPoly_exact [pA, pS] [pE] hwP 2 hnP rP inferP x hx hl

/-- a point outside the positive orthant satisfying every given polynomial constraint: `(−2, 1)` -/
private theorem pointP :
    NoZero [-2, 1] ∧ (∀ g ∈ [pA, pS], 0 ≤ polyR g.terms [-2, 1]) ∧ (∀ g ∈ [pE], polyR g.terms [-2, 1] = 0) := by
  have e0 : (0 : Rat).num.toNat = 0 := by with_unfolding_all decide
  have e1 : (1 : Rat).num.toNat = 1 := by with_unfolding_all decide
  have e2 : (2 : Rat).num.toNat = 2 := by with_unfolding_all decide
  refine ⟨?_, ?_, ?_⟩
  · intro t ht
    simp only [List.mem_cons, List.not_mem_nil, or_false] at ht
    rcases ht with rfl | rfl <;> norm_num
  · intro g hg
    simp only [List.mem_cons, List.not_mem_nil, or_false] at hg
    rcases hg with rfl | rfl <;>
      simp only [pA, pS, polyR, monoR, List.map_cons, List.map_nil, List.zipWith_cons_cons,
        List.zipWith_nil_right, List.sum_cons, List.sum_nil, List.prod_cons, List.prod_nil, e0, e1, e2] <;>
      norm_num
  · intro g hg
    simp only [List.mem_cons, List.not_mem_nil, or_false] at hg
    subst hg
    simp only [pE, polyR, monoR, List.map_cons, List.map_nil, List.zipWith_cons_cons,
      List.zipWith_nil_right, List.sum_cons, List.sum_nil, List.prod_cons, List.prod_nil, e0, e2]
    norm_num

example : ∀ c ∈ rP.cons, LogCon.holds (logAbs [-2, 1]) c :=
  inferPoly_contains [pA, pS] [pE] hwP 2 hnP rP inferP _ pointP.1 rfl pointP.2.1 pointP.2.2

-- column reordering: `x₀` sits in column 1, `x₁` occurs nowhere, `x₂` sits in column 0; two auxiliary columns
example : reorderCols [[1, 2, 3, 4]] 4 [1, -1, 0] = [[2, 0, 1, 3, 4]] := by with_unfolding_all decide

example (x0 x1 x2 u0 u1 : ℝ) :=
  reorderCols_row [1, 2, 3, 4] 4 rfl [1, -1, 0] (by decide) (by decide) (by decide) [x0, x1, x2] [u0, u1] rfl rfl

end NonVacuity

end Sageopt.Props.C15
