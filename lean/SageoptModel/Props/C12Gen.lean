/-
C12 — obligations over constants regenerated from `sageopt/symbolic/signomials.py` on every run
(`harness/translate.py`): the model's rounding constant and equality tolerance are the source's.
-/
import SageoptModel.Model.Sig
import SageoptModel.Generated.SigConsts

namespace Sageopt.Props.C12
open Sageopt

/-- the model rounds exponents to the number of decimals the source uses -/
theorem decimals_match : Generated.SigConsts.decimals = Sig.decimals := by decide

/-- the source's fixed coefficient tolerance of `==` is 1e-8 -/
theorem eq_tol_value :
    Generated.SigConsts.eqTolNum = 1 ∧ Generated.SigConsts.eqTolDen = 100000000 := by decide

/-- the numeric scalar types the arithmetic accepts -/
theorem numeric_types :
    Generated.SigConsts.numericTypes =
      ["int", "float", "np.int32", "np.int64", "np.float32", "np.float64", "np.longdouble"] := by decide

/-- the equality test and the exponent rounding still have the shape the model describes -/
theorem eq_shape : Generated.SigConsts.eqShape = true := by decide

theorem round_shape : Generated.SigConsts.roundShape = true := by decide

end Sageopt.Props.C12
