/-
C03 (part B) — `sig_relaxation` with REAL-valued assignments (what a solver returns), and the end-to-end
composition with C01: an assignment satisfying the compiled rows of the primal SAGE constraint on the
modulated Lagrangian certifies `γ ≤ f(x)` on X.
Property theorems about `Model/Relax.lean` + `Model/Sage.lean`; helper lemmas: `Lemmas/RelaxReal.lean`.
-/
import SageoptModel.Props.C03
import SageoptModel.Props.C01
import SageoptModel.Lemmas.RelaxReal

namespace Sageopt.Props.C03
open Sageopt Sageopt.Sig Sageopt.Relax Sageopt.Sage Sageopt.Compile Sageopt.Solvers

noncomputable section

/-- value of an affine form under a REAL assignment of the scalar variables (what a solver returns) -/
def valueR (σ : Nat → ℝ) (l : Lin) : ℝ := (l.co.map fun p => ((p.2 : Rat) : ℝ) * σ p.1).sum + ((l.off : Rat) : ℝ)

/-- coefficients of the primal SAGE constraint under a real assignment -/
def primalCoeffsR (d : PrimalData) (σ : Nat → ℝ) : List (Exp × ℝ) := d.alpha.zip (d.c.map (valueR σ))

def sigRR (ts : List (Exp × ℝ)) (x : List ℝ) : ℝ := (ts.map fun t => t.2 * Real.exp (rdot t.1 x)).sum

/-! ### glue between the statement-level definitions and `Lemmas/RelaxReal.lean` -/

open Sageopt.RelaxSig Sageopt.Sig.Hom in
private theorem valueR_eq (σ : Nat → ℝ) : valueR σ = rr_value σ := rfl

open Sageopt.RelaxSig Sageopt.Sig.Hom in
private theorem sigRR_eq (ts : List (Exp × ℝ)) (x : List ℝ) : sigRR ts x = eval (rs_chi x) ts := rfl

open Sageopt.RelaxSig Sageopt.Sig.Hom in
private theorem sigR_eq' (ts : List (Exp × Rat)) (x : List ℝ) :
    sigR ts x = eval (rs_chi x) (mapT rs_cast ts) := by
  unfold sigR eval mapT rs_chi rs_cast
  rw [List.map_map]
  rfl

open Sageopt.RelaxSig Sageopt.Sig.Hom in
private theorem primalCoeffsR_eq (f : SigQ) (ell : Nat) (ms : Option (List Exp)) (g : Nat) (σ : Nat → ℝ) :
    primalCoeffsR (sigPrimal f ell ms g) σ = mapT (rr_value σ) (rsS f ell ms g).terms := by
  unfold primalCoeffsR
  rw [rs_sigPrimal_eq, valueR_eq]
  exact rr_zip_keys (rr_value σ) _

/-! ### the affine-form operations mean what they say under a real assignment -/

theorem valueR_const (σ : Nat → ℝ) (q : Rat) : valueR σ (Lin.const q) = (q : ℝ) :=
  RelaxSig.rr_value_const σ q

theorem valueR_var (σ : Nat → ℝ) (i : Nat) : valueR σ (Lin.var i) = σ i := RelaxSig.rr_value_var σ i

theorem valueR_add (σ : Nat → ℝ) (x y : Lin) : valueR σ (Lin.add x y) = valueR σ x + valueR σ y :=
  RelaxSig.rr_value_add' σ x y

theorem valueR_scale (σ : Nat → ℝ) (q : Rat) (x : Lin) : valueR σ (Lin.scale q x) = (q : ℝ) * valueR σ x :=
  RelaxSig.rr_value_scale σ q x

theorem valueR_mul_const_left (σ : Nat → ℝ) (q : Rat) (x : Lin) :
    valueR σ (Lin.mul (Lin.const q) x) = (q : ℝ) * valueR σ x := RelaxSig.rr_value_mul_const_left σ q x

/-- on assignments that are casts of rational ones, `valueR` is the cast of `Lin.value` -/
theorem valueR_cast (σ : Nat → Rat) (l : Lin) :
    valueR (fun i => ((σ i : Rat) : ℝ)) l = ((Lin.value σ l : Rat) : ℝ) := RelaxSig.rr_value_cast σ l

/-- STRUCTURE of the primal problem under a real assignment: the constrained coefficient vector is the
    coefficient vector of `(f − γ)·t^ell`, as functions of x (for every real x) -/
theorem sigPrimal_function_real (f : SigQ) (hf : Wf f) (ell : Nat) (ms : Option (List Exp))
    (hms : ∀ s, ms = some s → ∀ r ∈ s, r.length = f.n) (g : Nat) (σ : Nat → ℝ) (x : List ℝ) :
    sigRR (primalCoeffsR (sigPrimal f ell ms g) σ) x
      = (sigR f.terms x - σ g) * sigR (modOf f ell ms g).terms x := by
  have hmod : modOf f ell ms g = RelaxSig.rsT f ell ms g := rfl
  rw [primalCoeffsR_eq, sigRR_eq, hmod, sigR_eq', sigR_eq',
    ← RelaxSig.rs_eval_withoutZeros x f hf]
  exact RelaxSig.rr_S_eval f hf ell ms hms g σ x

/-- `primal_bound` for real assignments: nonnegativity of the modulated Lagrangian on `S` gives `γ ≤ f` on `S` -/
theorem primal_bound_real (f : SigQ) (hf : Wf f) (ell : Nat) (ms : Option (List Exp))
    (hms : ∀ s, ms = some s → s ≠ [] ∧ ∀ r ∈ s, r.length = f.n) (g : Nat) (σ : Nat → ℝ) (S : List ℝ → Prop)
    (hS : ∀ x, S x → x.length = f.n)
    (hcert : ∀ x, S x → 0 ≤ sigRR (primalCoeffsR (sigPrimal f ell ms g) σ) x) :
    ∀ x, S x → σ g ≤ sigR f.terms x := by
  intro x hx
  have h := hcert x hx
  rw [sigPrimal_function_real f hf ell ms (fun s hs => (hms s hs).2) g σ x] at h
  have hpos := modulator_pos f hf ell ms hms g x (hS x hx)
  have h' : 0 ≤ sigR f.terms x - σ g := nonneg_of_mul_nonneg_left h hpos
  linarith

/-- the coefficient vector of `sigPrimal` as the model of `PrimalSageCone` takes it -/
def linToAffE (l : Lin) : AffE := ⟨l.co, l.off⟩

/-- the compiled-row semantics of an affine argument (`argVal`, `Lemmas/CompileSem.lean`) agrees with `valueR` -/
theorem argVal_linToAffE (σ : Nat → ℝ) (l : Lin) : argVal σ (linToAffE l) = valueR σ l := rfl

/-- the `sigVal` form of C01's certificate, on the data of `sigPrimal`, is the `sigRR` form of `primal_bound_real` -/
theorem sigVal_primalCoeffsR (d : PrimalData) (hd : d.alpha.length = d.c.length) (σ : Nat → ℝ) (x : List ℝ) :
    sigVal d.alpha ((List.range d.alpha.length).map fun j => cVal σ (d.c.map linToAffE) j) x =
      sigRR (primalCoeffsR d σ) x := by
  have h := RelaxSig.rr_sigVal_range (constE 0) (argVal σ) d.alpha (d.c.map linToAffE)
    (by rw [List.length_map]; exact hd) x
  unfold cVal
  rw [h, List.map_map]
  rfl

/-- END TO END (primal form): an assignment that satisfies the COMPILED ROWS of the SAGE constraint which `sig_relaxation` puts on the
    modulated Lagrangian certifies `γ ≤ f(x)` at every point of X — for every settings combination and cover family (C01), every
    level `ell` and modulator support (C03).  Hypotheses: `inp` is the `PrimalSageCone` input built from `sigPrimal`'s data, plus C01's
    well-formedness facts about the constructor's auxiliary Variables. -/
theorem sig_relaxation_primal_sound (Q : CType → List ℝ → Prop) (f : SigQ) (hf : Wf f) (ell : Nat) (ms : Option (List Exp))
    (hms : ∀ s, ms = some s → s ≠ [] ∧ ∀ r ∈ s, r.length = f.n) (g : Nat)
    (inp : PrimalIn)
    (hα : inp.alpha = (sigPrimal f ell ms g).alpha) (hc : inp.c = (sigPrimal f ell ms g).c.map linToAffE) (hn : inp.n = f.n)
    (hwf : WfPrimal inp) (hker : C01.KernelOk inp)
    (hcov0 : ∀ p ∈ inp.ids, p.nu = [] → trueIdx (coverOf inp.ech p.i) = [])
    (hbasis : inp.settings.kernelBasis = true → ∀ p ∈ inp.ids, p.nu ≠ [] → (p.basis ≠ [] ↔ inp.X = none))
    (rows : List CRow) (K : List Cone) (h : primalRows inp = .ok (rows, K))
    (σ : Nat → ℝ) (hσ : FeasRows Q σ rows K) :
    ∀ x, InDom Q inp.X inp.n x → σ g ≤ sigR f.terms x := by
  have hcert := (C01.primal_sound Q inp hwf hker hcov0 hbasis rows K h σ hσ).2
  apply primal_bound_real f hf ell ms hms g σ (fun x => InDom Q inp.X inp.n x)
  · intro x hx
    rw [← hn]
    exact hx.1
  · intro x hx
    have h1 := hcert x hx
    rw [hα, hc, sigVal_primalCoeffsR _ (sigPrimal_shapes f ell ms g) σ x] at h1
    exact h1

/-! ### non-vacuity: the hypotheses of `primal_bound_real` hold on concrete data, with an IRRATIONAL-capable
assignment type (`σ : Nat → ℝ`).  Instance: `f = e^{2x} − 2e^{x} + 3` (one variable; `min f = 2` at `x = 0`),
level `ell = 0`, default modulator support, `γ = σ 0 = 2`: the certificate is `(e^x − 1)² ≥ 0`. -/
section NonVacuity

private def fExR : SigQ := ⟨1, [([0], 3), ([1], -2), ([2], 1)]⟩

private theorem grid_ofR {ts : List (Exp × Rat)} (h : ∀ t ∈ ts, ∀ q ∈ t.1, round7 q = q) :
    ∀ t ∈ ts, OnGrid t.1 := h

private theorem fExR_wf : Wf fExR := ⟨by decide, grid_ofR (by with_unfolding_all decide), by decide⟩

private theorem none_hmsR (n : Nat) :
    ∀ s, (none : Option (List Exp)) = some s → s ≠ [] ∧ ∀ r ∈ s, r.length = n :=
  fun _ h => by cases h

private theorem primalExR0 :
    (sigPrimal fExR 0 none 0).alpha = [[0], [1], [2]] ∧
    (sigPrimal fExR 0 none 0).c = [⟨3, [(0, -1)], false⟩, ⟨-2, [], false⟩, ⟨1, [], false⟩] := by
  with_unfolding_all decide

/-- the certificate hypothesis of `primal_bound_real` is satisfiable with the OPTIMAL value: at `γ = 2` the
    level-0 coefficient vector is `1 − 2e^x + e^{2x} = (e^x − 1)² ≥ 0` -/
private theorem certExR (x : List ℝ) (hx : x.length = 1) :
    0 ≤ sigRR (primalCoeffsR (sigPrimal fExR 0 none 0) (fun _ => 2)) x := by
  match x, hx with
  | [y], _ =>
    have he : Real.exp (2 * y) = Real.exp y * Real.exp y := by
      rw [← Real.exp_add]; ring_nf
    unfold primalCoeffsR
    rw [primalExR0.1, primalExR0.2]
    simp only [List.map_cons, List.map_nil, List.zip_cons_cons, List.zip_nil_right, valueR, sigRR, rdot,
      List.zipWith_cons_cons, List.zipWith_nil_right, List.sum_cons, List.sum_nil]
    push_cast
    simp only [zero_mul, one_mul, add_zero, Real.exp_zero, he]
    nlinarith [sq_nonneg (Real.exp y - 1)]

/-- hence `2 ≤ f(x)` for every real `x` (and `f(0) = 2`: the bound is attained) -/
example : ∀ x : List ℝ, x.length = 1 → (2 : ℝ) ≤ sigR fExR.terms x :=
  primal_bound_real fExR fExR_wf 0 none (none_hmsR _) 0 (fun _ => 2) (fun x => x.length = 1) (fun _ h => h) certExR

example : sigR fExR.terms [0] = 2 := by
  simp only [sigR, fExR, rdot, List.map_cons, List.map_nil, List.zipWith_cons_cons, List.zipWith_nil_right,
    List.sum_cons, List.sum_nil]
  norm_num

-- the structure theorem applies at level 1 with a genuinely real (irrational) value of γ
example (y : ℝ) :
    sigRR (primalCoeffsR (sigPrimal fExR 1 none 0) (fun _ => Real.exp 1)) [y]
      = (sigR fExR.terms [y] - Real.exp 1) * sigR (modOf fExR 1 none 0).terms [y] :=
  sigPrimal_function_real fExR fExR_wf 1 none (fun _ h => by cases h) 0 (fun _ => Real.exp 1) [y]

/-! end to end: the `PrimalSageCone` input built from `sigPrimal fExR 0 none 0` (γ = scalar variable 0; the
coefficient `3 − γ` of the constant term is non-constant, so `U = [0, 1]`, `N = [1]`; the cover of index 0 is
emptied by the single-cover rule, index 1 is covered by `{0, 2}`), the rows its `conic_form` emits, and a real
assignment with `γ = 2` that satisfies them: ν = (1,1), c^{(0)} = 0, c^{(1)} = (1,−2,1), epi = (−1,−1). -/

private def e2eAlpha : List (List Rat) := (sigPrimal fExR 0 none 0).alpha
private def e2eC : List AffE := (sigPrimal fExR 0 none 0).c.map linToAffE
private def e2eEch : Ech := defaultEch e2eAlpha (some (e2eC.map classify)) false {} []
private def e2eP0 : PIds := { i := 0, nu := [], basis := [], cvar := [5], epi := [], eta := [] }
private def e2eP1 : PIds := { i := 1, nu := [10, 11], basis := [], cvar := [12, 13], epi := [14, 15], eta := [] }
private def e2eInp : PrimalIn :=
  { n := 1, alpha := e2eAlpha, c := e2eC, X := none, settings := {}, ech := e2eEch, ids := [e2eP0, e2eP1], dummy := 20 }

private def e2eRows : List CRow :=
  [⟨[(5, 1)], 0, false⟩,
   ⟨[(14, -1), (15, -1)], -2, false⟩,
   ⟨[(14, -1)], 0, false⟩, ⟨[(12, 1)], 0, true⟩, ⟨[(10, 1)], 0, false⟩,
   ⟨[(15, -1)], 0, false⟩, ⟨[(13, 1)], 0, true⟩, ⟨[(11, 1)], 0, false⟩,
   ⟨[(10, -1), (11, 1)], 0, false⟩,
   ⟨[(5, -1), (12, -1), (0, -1)], 3, false⟩, ⟨[(20, 0)], 0, false⟩, ⟨[(13, -1)], 1, false⟩]
private def e2eK : List Cone := [⟨.pos, 1⟩, ⟨.pos, 1⟩, ⟨.exp, 3⟩, ⟨.exp, 3⟩, ⟨.zero, 1⟩, ⟨.pos, 3⟩]

private theorem e2e_ech : e2eEch.U = [0, 1] ∧ e2eEch.N = [1] ∧
    e2eEch.covers = [(0, [false, false, false]), (1, [true, false, true])] := by
  with_unfolding_all decide

private theorem e2e_rows : primalRows e2eInp = .ok (e2eRows, e2eK) := by with_unfolding_all decide

private theorem e2e_wf : WfPrimal e2eInp where
  width := by with_unfolding_all decide
  clen := by with_unfolding_all decide
  idsU := by with_unfolding_all decide
  cover := by with_unfolding_all decide
  sizes := by with_unfolding_all decide
  negConst := by with_unfolding_all decide
  dom := by intro X h; cases h

private theorem e2e_kernelOk : C01.KernelOk e2eInp := by intro h; cases h
private theorem e2e_cov0 : ∀ p ∈ e2eInp.ids, p.nu = [] → trueIdx (coverOf e2eInp.ech p.i) = [] := by
  with_unfolding_all decide
private theorem e2e_basis : e2eInp.settings.kernelBasis = true → ∀ p ∈ e2eInp.ids, p.nu ≠ [] →
    (p.basis ≠ [] ↔ e2eInp.X = none) := by intro h; cases h

private def e2eσ : Nat → ℝ := fun id =>
  if id = 0 then 2 else if id = 14 ∨ id = 15 then -1 else if id = 10 ∨ id = 11 ∨ id = 12 ∨ id = 13 then 1 else 0

private theorem e2e_feas (Q : CType → List ℝ → Prop) : FeasRows Q e2eσ e2eRows e2eK := by
  unfold FeasRows e2eRows e2eK
  simp only [feasBlocks_cons, feasBlocks_nil, List.map_cons, List.map_nil, crowVal_false, crowVal_true,
    List.take_succ_cons, List.take_zero, List.drop_succ_cons, List.drop_zero, conP, realP, expR,
    List.sum_cons, List.sum_nil, and_true]
  simp only [e2eσ]
  norm_num
  exact Or.inl ⟨one_pos, by simp⟩

/-- the hypotheses of `sig_relaxation_primal_sound` are jointly satisfiable, and its conclusion on the instance is
    `2 ≤ e^{2t} − 2e^{t} + 3` for every real `t` — obtained from the compiled rows alone -/
example (Q : CType → List ℝ → Prop) (t : ℝ) : (2 : ℝ) ≤ sigR fExR.terms [t] := by
  have h := sig_relaxation_primal_sound Q fExR fExR_wf 0 none (none_hmsR _) 0 e2eInp rfl rfl rfl
    e2e_wf e2e_kernelOk e2e_cov0 e2e_basis e2eRows e2eK e2e_rows e2eσ (e2e_feas Q) [t] ⟨rfl, trivial⟩
  have hg : e2eσ 0 = 2 := by simp [e2eσ]
  rw [hg] at h
  exact h

end NonVacuity

end

end Sageopt.Props.C03
