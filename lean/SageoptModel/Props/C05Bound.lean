/-
C05, part C — the bound theorems of the polynomial relaxations, composed from part A (`Props/C05.lean`: the signomial
representative is a minorant in every orthant, the standard multiplier is positive off the coordinate hyperplanes, bounds
extend to points with zero coordinates), part B (`Props/C05Lagr.lean`: `(f − γ)·modulator` as a function on ℝⁿ) and the
signomial bound `C03.primal_bound`.
Property theorems about `polyPrimal` of `Model/Poly.lean`.
-/
import SageoptModel.Props.C05
import SageoptModel.Props.C05Lagr
import SageoptModel.Props.C03
import SageoptModel.Lemmas.PolyCBound

namespace Sageopt.Props.C05
open Sageopt Sageopt.Sig Sageopt.Relax Sageopt.Poly Sageopt.Sage

/-- `poly_ell = 0` (primal): the problem is `sig_primal` of the signomial representative.  If the certified signomial is nonnegative on a
    set `S` of log-magnitudes, then `γ ≤ p(x)` at every real point without zero coordinate whose `log|x|` lies in `S` -/
theorem poly_primal_bound_ell0 (f : SigQ) (hf : PolyWfQ' f) (sigrepEll g : Nat) (chat : List Nat) (σ : Nat → Rat)
    (d : PrimalData) (hd : polyPrimal f 0 sigrepEll g chat = .viaSig d)
    (S : List ℝ → Prop) (hS : ∀ y, S y → y.length = f.n)
    (hcert : ∀ y, S y → 0 ≤ sigR (d.alpha.zip (d.c.map (Lin.value σ))) y)
    (x : List ℝ) (hx : NoZero x) (hl : x.length = f.n) (hxs : S (logAbs x)) :
    (σ g : ℝ) ≤ polyR f.terms x := by
  rw [pc_polyPrimal_ell0] at hd
  injection hd with hd
  subst hd
  have hb : (σ g : ℝ) ≤ C03.sigR (sigRepQ f).terms (logAbs x) :=
    C03.primal_bound (sigRepQ f) (pc_sigRepQ_wf f hf.1 hf.2) sigrepEll none (fun s h => by cases h) g σ S hS hcert
      (logAbs x) hxs
  exact le_trans hb (sigRepQ_minorant f hf.1 x hx hl)

/-- `poly_ell > 0`, `sigrep_ell = 0` (primal): the SAGE-polynomial constraint on `(f − γ)·modulator`.  For every assignment satisfying the side
    constraints, nonnegativity of the representative on `S` gives `γ ≤ p(x)`, provided `f` has an even monomial (otherwise the
    modulator is the zero polynomial and the builders raise) -/
theorem poly_primal_bound_cone (f : SigQ) (hf : PolyWfQ' f) (hev : ∃ t ∈ f.terms, isEvenExp t.1 = true) (polyEll : Nat) (hpe : 0 < polyEll)
    (g : Nat) (chat : List Nat) (σ : Nat → Rat)
    (d : PolyCone) (hd : polyPrimal f polyEll 0 g chat = .cone d)
    (hids : (needVars (modLagrangian f (powNat isZeroQ (stdMultiplier f) polyEll) g)).length ≤ chat.length)
    (hside : SideOk σ d.side)
    (S : List ℝ → Prop)
    (hcert : ∀ y, S y → 0 ≤ sigR (d.alpha.zip (d.c.map (Lin.value σ))) y)
    (x : List ℝ) (hx : NoZero x) (hl : x.length = f.n) (hxs : S (logAbs x)) :
    (σ g : ℝ) ≤ polyR f.terms x := by
  rw [pc_polyPrimal_cone f polyEll hpe] at hd
  injection hd with hd
  subst hd
  have hfw : Wf f := pb_wf_of_rows f hf.1 hf.2
  obtain ⟨hmw, hmn, hmr⟩ := pc_stdPow_spec f hf.1 polyEll
  have hm : PolyWfQ' (powNat isZeroQ (stdMultiplier f) polyEll) :=
    ⟨fun t ht => by rw [hmn]; exact hmr t ht, hmw.nodup⟩
  obtain ⟨hln, hlw⟩ := pc_modLagrangian_spec f _ hfw hf.1 hmn hmr g
  rw [pc_polyCone_side] at hside
  have h0 := hcert (logAbs x) hxs
  rw [pc_polyCone_coeffs] at h0
  have h1 := sigRep_minorant _ hlw chat hids σ hside x hx (by rw [hln, hl])
  have h2 : 0 ≤ (polyR f.terms x - (σ g : ℝ)) * polyR (powNat isZeroQ (stdMultiplier f) polyEll).terms x := by
    rw [← modLagrangian_function f _ hf hm hmn g σ x hl]
    exact le_trans h0 h1
  have hpos := stdMultiplier_pos f hf.1 hf.2 hev polyEll x hx hl
  have h3 : 0 ≤ polyR f.terms x - (σ g : ℝ) := nonneg_of_mul_nonneg_left h2 hpos
  linarith

/-- X = ℝⁿ: a bound certified on all log-magnitudes holds at EVERY real point, zero coordinates included -/
theorem poly_primal_bound_everywhere (f : SigQ) (hf : PolyWfQ' f) (sigrepEll g : Nat) (chat : List Nat) (σ : Nat → Rat)
    (d : PrimalData) (hd : polyPrimal f 0 sigrepEll g chat = .viaSig d)
    (hcert : ∀ y : List ℝ, y.length = f.n → 0 ≤ sigR (d.alpha.zip (d.c.map (Lin.value σ))) y)
    (x : List ℝ) (hl : x.length = f.n) :
    (σ g : ℝ) ≤ polyR f.terms x := by
  apply bound_extends_to_zero_coords f.terms f.n (fun t ht => (hf.1 t ht).1) _ _ x hl
  intro z hzl hz
  exact poly_primal_bound_ell0 f hf sigrepEll g chat σ d hd (fun y => y.length = f.n) (fun _ h => h) hcert z hz hzl
    (by rw [pa_logAbs_length, hzl])

/-! ### non-vacuity: the three theorems on `p(x) = x² − 2x + 3` (one variable, `min p = 2` at `x = 1`), with `γ` the scalar
variable 0 and the assignment `γ = 2`.  Concrete values of the executable model are checked by `decide`
(core `Rat` operations are irreducible, hence `with_unfolding_all`). -/
section NonVacuity

private def pEx : SigQ := ⟨1, [([0], 3), ([1], -2), ([2], 1)]⟩

private theorem pEx_wf : PolyWfQ' pEx :=
  ⟨by
    show ∀ t ∈ pEx.terms, t.1.length = pEx.n ∧ isPolyExp t.1 = true
    with_unfolding_all decide, by decide⟩

private theorem pEx_even : ∃ t ∈ pEx.terms, isEvenExp t.1 = true :=
  ⟨([2], 1), by simp [pEx], by with_unfolding_all decide⟩

/-- `poly_ell = 0`: the problem data is `sig_primal` of the representative `3 − 2e^y + e^{2y}` -/
private def dEx0 : PrimalData := sigPrimal (sigRepQ pEx) 0 none 0

private theorem dEx0_hd : polyPrimal pEx 0 0 0 [] = .viaSig dEx0 := by with_unfolding_all rfl

private theorem dEx0_val :
    dEx0.alpha = [[0], [1], [2]] ∧ dEx0.c = [⟨3, [(0, -1)], false⟩, ⟨-2, [], false⟩, ⟨1, [], false⟩] := by
  with_unfolding_all decide

/-- the certificate hypothesis is satisfiable with the OPTIMAL value: at `γ = 2` the certified signomial is
    `1 − 2e^y + e^{2y} = (e^y − 1)² ≥ 0` -/
private theorem certEx0 (y : List ℝ) (hy : y.length = 1) :
    0 ≤ sigR (dEx0.alpha.zip (dEx0.c.map (Lin.value fun _ => 2))) y := by
  have v1 : Lin.value (fun _ => 2) ⟨3, [(0, -1)], false⟩ = 1 := by with_unfolding_all decide
  have v2 : Lin.value (fun _ => 2) ⟨-2, [], false⟩ = -2 := by with_unfolding_all decide
  have v3 : Lin.value (fun _ => 2) ⟨1, [], false⟩ = 1 := by with_unfolding_all decide
  match y, hy with
  | [t], _ =>
    have he : Real.exp (2 * t) = Real.exp t * Real.exp t := by
      rw [← Real.exp_add]; ring_nf
    rw [dEx0_val.1, dEx0_val.2]
    simp only [List.map_cons, List.map_nil, List.zip_cons_cons, List.zip_nil_right, v1, v2, v3, sigR, rdot,
      List.zipWith_cons_cons, List.zipWith_nil_right, List.sum_cons, List.sum_nil]
    push_cast
    simp only [zero_mul, one_mul, add_zero, Real.exp_zero, he]
    nlinarith [sq_nonneg (Real.exp t - 1)]

/-- `2 ≤ x² − 2x + 3` at every `x ≠ 0` (here: on the negative half-line and on the positive one) -/
example (x : ℝ) (hx : x ≠ 0) : ((2 : Rat) : ℝ) ≤ polyR pEx.terms [x] :=
  poly_primal_bound_ell0 pEx pEx_wf 0 0 [] (fun _ => 2) dEx0 dEx0_hd (fun y => y.length = 1) (fun _ h => h) certEx0 [x]
    (by
      intro t ht
      rw [List.mem_singleton] at ht
      rw [ht]; exact hx) rfl rfl

/-- … and at every real `x`, `x = 0` included -/
example (x : ℝ) : ((2 : Rat) : ℝ) ≤ polyR pEx.terms [x] :=
  poly_primal_bound_everywhere pEx pEx_wf 0 0 [] (fun _ => 2) dEx0 dEx0_hd certEx0 [x] rfl

/-- `poly_ell = 1`: the modulator is `1 + x²`, the Lagrangian `(p − γ)(1 + x²) = (3 − γ) − 2x + (4 − γ)x² − 2x³ + x⁴` -/
private def dEx1 : PolyCone := polyCone (modLagrangian pEx (powNat isZeroQ (stdMultiplier pEx) 1) 0) []

private theorem dEx1_hd : polyPrimal pEx 1 0 0 [] = .cone dEx1 := by with_unfolding_all rfl

private theorem dEx1_val :
    dEx1.alpha = [[0], [1], [2], [3], [4]] ∧
    dEx1.c = [⟨3, [(0, -1)], false⟩, ⟨-2, [], false⟩, ⟨4, [(0, -1)], false⟩, ⟨-2, [], false⟩, ⟨1, [], false⟩] ∧
    dEx1.side = [] ∧ dEx1.evens = [true, false, true, false, true] ∧
    dEx1.covers = [(0, [false, false, true, false, true]), (1, [true, false, true, false, true]),
      (2, [true, false, false, false, true]), (3, [true, false, true, false, true])] := by
  with_unfolding_all decide

private theorem idsEx1 : (needVars (modLagrangian pEx (powNat isZeroQ (stdMultiplier pEx) 1) 0)).length ≤ ([] : List Nat).length := by
  with_unfolding_all decide

private theorem sideEx1 : SideOk (fun _ => 2) dEx1.side := by
  rw [dEx1_val.2.2.1]
  intro s hs
  cases hs

/-- at `γ = 2` the certified signomial is `1 − 2t + 2t² − 2t³ + t⁴ = (t² + 1)(t − 1)² ≥ 0` with `t = e^y` -/
private theorem certEx1 (y : List ℝ) (hy : y.length = 1) :
    0 ≤ sigR (dEx1.alpha.zip (dEx1.c.map (Lin.value fun _ => 2))) y := by
  have v1 : Lin.value (fun _ => 2) ⟨3, [(0, -1)], false⟩ = 1 := by with_unfolding_all decide
  have v2 : Lin.value (fun _ => 2) ⟨-2, [], false⟩ = -2 := by with_unfolding_all decide
  have v3 : Lin.value (fun _ => 2) ⟨4, [(0, -1)], false⟩ = 2 := by with_unfolding_all decide
  have v4 : Lin.value (fun _ => 2) ⟨1, [], false⟩ = 1 := by with_unfolding_all decide
  match y, hy with
  | [t], _ =>
    have he2 : Real.exp (2 * t) = Real.exp t ^ 2 := by
      rw [← Real.exp_nat_mul]; norm_num
    have he3 : Real.exp (3 * t) = Real.exp t ^ 3 := by
      rw [← Real.exp_nat_mul]; norm_num
    have he4 : Real.exp (4 * t) = Real.exp t ^ 4 := by
      rw [← Real.exp_nat_mul]; norm_num
    rw [dEx1_val.1, dEx1_val.2.1]
    simp only [List.map_cons, List.map_nil, List.zip_cons_cons, List.zip_nil_right, v1, v2, v3, v4, sigR, rdot,
      List.zipWith_cons_cons, List.zipWith_nil_right, List.sum_cons, List.sum_nil]
    push_cast
    simp only [zero_mul, one_mul, add_zero, Real.exp_zero, he2, he3, he4]
    have hpos := Real.exp_pos t
    nlinarith [mul_nonneg (add_nonneg (sq_nonneg (Real.exp t)) zero_le_one) (sq_nonneg (Real.exp t - 1))]

/-- the cone form certifies the same bound `2 ≤ x² − 2x + 3` at every `x ≠ 0` -/
example (x : ℝ) (hx : x ≠ 0) : ((2 : Rat) : ℝ) ≤ polyR pEx.terms [x] :=
  poly_primal_bound_cone pEx pEx_wf pEx_even 1 (by decide) 0 [] (fun _ => 2) dEx1 dEx1_hd idsEx1 sideEx1
    (fun y => y.length = 1) certEx1 [x]
    (by
      intro t ht
      rw [List.mem_singleton] at ht
      rw [ht]; exact hx) rfl rfl

/-- the bound is attained: `p(1) = 2` -/
example : polyR pEx.terms [1] = 2 := by
  simp only [polyR, monoR, pEx, List.map_cons, List.map_nil, List.zipWith_cons_cons, List.zipWith_nil_right,
    List.sum_cons, List.sum_nil, List.prod_cons, List.prod_nil]
  norm_num

end NonVacuity

end Sageopt.Props.C05
