/-
C06 — SAGE is exact on one-negative-term signomials; bounds ignore reparametrisation.
Property theorems about the semantic AGE certificate (`Lemmas/AgeCert.lean`).
-/
import SageoptModel.Lemmas.AgeCert

namespace Sageopt.Props.C06
open Sageopt.Analysis
open scoped BigOperators

variable {ι : Type} {n : ℕ}

/-- soundness: a certified coefficient vector defines a function that is nonnegative everywhere -/
theorem ordAge_sound (α : ι → Fin n → ℝ) (i : ι) (S : Finset ι) (hi : i ∉ S) (c : ι → ℝ) (h : OrdAgeCert α i S c)
    (x : Fin n → ℝ) :
    0 ≤ c i * Real.exp (dotp (α i) x) + ∑ j ∈ S, c j * Real.exp (dotp (α j) x) := by
  obtain ⟨ν, epi, h1, h2, h3⟩ := h
  exact ord_age_sound α i S hi c ν epi h1 h2 h3 x

end Sageopt.Props.C06
