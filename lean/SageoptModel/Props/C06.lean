/-
C06 — SAGE is exact on one-negative-term signomials; bounds ignore reparametrisation.
Property theorems about the semantic AGE certificate (`Lemmas/AgeCert.lean`).
-/
import SageoptModel.Lemmas.AgeCert
import SageoptModel.Lemmas.AgeInvBasic
import SageoptModel.Lemmas.AgeInvCircuit
import Mathlib.Analysis.SpecialFunctions.Pow.Real

namespace Sageopt.Props.C06
open Sageopt.Analysis
open scoped BigOperators

set_option linter.unusedVariables false

variable {ι : Type} {n : ℕ}

/-- soundness: a certified coefficient vector defines a function that is nonnegative everywhere -/
theorem ordAge_sound (α : ι → Fin n → ℝ) (i : ι) (S : Finset ι) (hi : i ∉ S) (c : ι → ℝ) (h : OrdAgeCert α i S c)
    (x : Fin n → ℝ) :
    0 ≤ c i * Real.exp (dotp (α i) x) + ∑ j ∈ S, c j * Real.exp (dotp (α j) x) := by
  obtain ⟨ν, epi, h1, h2, h3⟩ := h
  exact ord_age_sound α i S hi c ν epi h1 h2 h3 x

/-- TRANSLATION `x ↦ x + t` multiplies the coefficient of `e^{α_j·x}` by `e^{α_j·t}`: the certificate is invariant -/
theorem ordAge_translate (α : ι → Fin n → ℝ) (i : ι) (S : Finset ι) (c : ι → ℝ) (t : Fin n → ℝ) :
    OrdAgeCert α i S c ↔ OrdAgeCert α i S (fun j => c j * Real.exp (dotp (α j) t)) :=
  ai_translate α i S c t

/-- LINEAR CHANGE OF VARIABLES `x = M y` replaces the exponents by `α M`: a certificate is carried along -/
theorem ordAge_linear {m : ℕ} (α : ι → Fin n → ℝ) (i : ι) (S : Finset ι) (c : ι → ℝ) (M : Fin n → Fin m → ℝ)
    (h : OrdAgeCert α i S c) :
    OrdAgeCert (fun j l => ∑ k, α j k * M k l) i S c :=
  ai_linear α i S c M h

/-- for an INVERTIBLE change of variables the certificates correspond exactly -/
theorem ordAge_linear_iff (α : ι → Fin n → ℝ) (i : ι) (S : Finset ι) (c : ι → ℝ) (M Minv : Fin n → Fin n → ℝ)
    (hinv : ∀ k k', ∑ l, M k l * Minv l k' = if k = k' then 1 else 0) :
    OrdAgeCert α i S c ↔ OrdAgeCert (fun j l => ∑ k, α j k * M k l) i S c :=
  ai_linear_iff α i S c M Minv hinv

/-- POSITIVE SCALING -/
theorem ordAge_scale (α : ι → Fin n → ℝ) (i : ι) (S : Finset ι) (c : ι → ℝ) (a : ℝ) (ha : 0 < a) :
    OrdAgeCert α i S c ↔ OrdAgeCert α i S (fun j => a * c j) :=
  ai_scale α i S c a ha

/-- SHIFT of all exponents by `β` (multiplication of the signomial by the monomial `e^{β·x}`: the step from ell to ell + 1
    multiplies by a sum of such monomials) -/
theorem ordAge_shift (α : ι → Fin n → ℝ) (i : ι) (S : Finset ι) (c : ι → ℝ) (β : Fin n → ℝ) :
    OrdAgeCert α i S c ↔ OrdAgeCert (fun j k => α j k + β k) i S c :=
  ai_shift α i S c β

/-- RE-INDEXING (permutation of the terms) -/
theorem ordAge_reindex {ι' : Type} (e : ι' ≃ ι) (α : ι → Fin n → ℝ) (i : ι) (S : Finset ι) (c : ι → ℝ) :
    OrdAgeCert α i S c ↔ OrdAgeCert (fun j => α (e j)) (e.symm i) (S.map e.symm.toEmbedding) (fun j => c (e j)) :=
  ai_reindex e α i S c

/-- a LARGER COVER only helps, as long as the added coefficients are nonnegative: cover reductions can lose certificates,
    never create wrong ones -/
theorem ordAge_cover_mono (α : ι → Fin n → ℝ) (i : ι) (S S' : Finset ι) (hS : S ⊆ S') (c : ι → ℝ)
    (hc : ∀ j ∈ S', j ∉ S → 0 ≤ c j) (h : OrdAgeCert α i S c) : OrdAgeCert α i S' c :=
  ai_cover_mono α i S S' hS c hc h

/-- CIRCUIT COMPLETENESS (closed form): if the inner exponent is the convex combination `Σ λ_j α_j` of the outer ones with positive
    weights, the outer coefficients are positive and the inner coefficient is at least `−∏ (c_j/λ_j)^{λ_j}` (minus the circuit number),
    then a certificate exists -/
theorem circuit_complete (α : ι → Fin n → ℝ) (i : ι) (S : Finset ι) (hSne : S.Nonempty) (c lam : ι → ℝ)
    (hlam : ∀ j ∈ S, 0 < lam j) (hsum : ∑ j ∈ S, lam j = 1)
    (hconv : ∀ k : Fin n, α i k = ∑ j ∈ S, lam j * α j k)
    (hc : ∀ j ∈ S, 0 < c j)
    (hbeta : -(c i) ≤ ∏ j ∈ S, (c j / lam j) ^ (lam j)) :
    OrdAgeCert α i S c :=
  ai_circuit_complete α i S c lam hlam hsum hconv hc hbeta

/-! ### the midpoint circuit `c₀ + c₂ e^{2x} − β eˣ` (exponents 0, 1, 2 in one variable) -/

/-- exponents `0, 1, 2` in one variable -/
private def mα : Fin 3 → Fin 1 → ℝ := fun j _ => (j : ℝ)

/-- coefficients `c₀, −β, c₂` -/
private def mc (c0 c2 β : ℝ) : Fin 3 → ℝ := fun j => if j = 0 then c0 else if j = 1 then -β else c2

private theorem mc_0 (c0 c2 β : ℝ) : mc c0 c2 β 0 = c0 := by simp [mc]
private theorem mc_1 (c0 c2 β : ℝ) : mc c0 c2 β 1 = -β := by simp [mc]
private theorem mc_2 (c0 c2 β : ℝ) : mc c0 c2 β 2 = c2 := by simp [mc]

private theorem mα_dot (j : Fin 3) (x : ℝ) : dotp (mα j) (fun _ => x) = (j : ℝ) * x := by
  simp [dotp, mα]

/-- what soundness says on the midpoint circuit -/
private theorem midpoint_sound (c0 c2 β : ℝ) (h : OrdAgeCert mα 1 {0, 2} (mc c0 c2 β)) (x : ℝ) :
    0 ≤ c0 + c2 * Real.exp (2 * x) - β * Real.exp x := by
  have hs := ordAge_sound mα 1 {0, 2} (by decide) (mc c0 c2 β) h (fun _ => x)
  rw [Finset.sum_pair (by decide), mα_dot, mα_dot, mα_dot, mc_0, mc_1, mc_2] at hs
  have e0 : (((0 : Fin 3) : ℕ) : ℝ) * x = 0 := by simp
  have e1 : (((1 : Fin 3) : ℕ) : ℝ) * x = x := by simp
  have e2 : (((2 : Fin 3) : ℕ) : ℝ) * x = 2 * x := by simp
  rw [e0, e1, e2, Real.exp_zero] at hs
  linarith

/-- and completeness on the midpoint circuit -/
private theorem midpoint_cert (c0 c2 β : ℝ) (h0 : 0 < c0) (h2 : 0 < c2) (hβ : β ≤ 2 * Real.sqrt (c0 * c2)) :
    OrdAgeCert mα 1 {0, 2} (mc c0 c2 β) := by
  apply ai_midpoint_cert mα 1 0 2 (by decide) (mc c0 c2 β)
  · rw [mc_0]; exact h0
  · rw [mc_2]; exact h2
  · intro k; simp [mα]
  · rw [mc_0, mc_1, mc_2, neg_neg]; exact hβ

/-- the converse fails: dropping an index from the cover can destroy the certificate (this is F10's mechanism):
    with exponents 0, 1, 2 and coefficients 1, −2, 1 the full cover {0, 2} certifies `(eˣ − 1)² ≥ 0`, the cover {0} does not -/
theorem ordAge_cover_drop_loses :
    ∃ (α : Fin 3 → Fin 1 → ℝ) (c : Fin 3 → ℝ),
      OrdAgeCert α 1 {0, 2} c ∧ ¬ OrdAgeCert α 1 {0} c := by
  refine ⟨mα, mc 1 1 2, ?_, ?_⟩
  · -- ν₀ = ν₂ = 1, epi₀ = epi₂ = −1
    refine ⟨fun _ => 1, fun _ => -1, ?_, ?_, ?_⟩
    · intro j hj
      have hcj : mc 1 1 2 j = 1 := by
        rw [Finset.mem_insert, Finset.mem_singleton] at hj
        rcases hj with rfl | rfl
        · exact mc_0 _ _ _
        · exact mc_2 _ _ _
      rw [hcj]
      left
      refine ⟨one_pos, ?_⟩
      simp
    · rw [Finset.sum_pair (by decide), mc_1]; norm_num
    · intro k
      rw [Finset.sum_pair (by decide)]
      simp [mα]; norm_num
  · rintro ⟨ν, epi, h1, h2, h3⟩
    have hb := h3 0
    rw [Finset.sum_singleton] at hb
    have hν : ν 0 = 0 := by
      have e : ν 0 * (mα 0 0 - mα 1 0) = -(ν 0) := by simp [mα]
      rw [e] at hb; linarith
    have hrow := h1 0 (Finset.mem_singleton_self 0)
    rw [Finset.sum_singleton, mc_1] at h2
    rcases hrow with ⟨hpos, _⟩ | ⟨_, hx, _⟩
    · rw [hν] at hpos; exact lt_irrefl _ hpos
    · linarith

/-- and the circuit number is sharp on the midpoint circuit `c₀ + c₂ e^{2x} − β eˣ`: nonnegative on ℝ iff `β ≤ 2 √(c₀ c₂)` iff certified -/
theorem midpoint_circuit_exact (c0 c2 β : ℝ) (h0 : 0 < c0) (h2 : 0 < c2) :
    ((∀ x : ℝ, 0 ≤ c0 + c2 * Real.exp (2 * x) - β * Real.exp x) ↔ β ≤ 2 * Real.sqrt (c0 * c2)) ∧
    (β ≤ 2 * Real.sqrt (c0 * c2) ↔
      OrdAgeCert (fun (j : Fin 3) (_ : Fin 1) => (j : ℝ)) 1 {0, 2} (fun j => if j = 0 then c0 else if j = 1 then -β else c2)) := by
  refine ⟨ai_midpoint_nonneg_iff c0 c2 β h0 h2, fun hβ => midpoint_cert c0 c2 β h0 h2 hβ, fun h => ?_⟩
  exact (ai_midpoint_nonneg_iff c0 c2 β h0 h2).mp (midpoint_sound c0 c2 β h)

/-! ### instances: the circuit `1 + e^{2x} − 2 eˣ = (eˣ − 1)²` (the extremal case `β = 2 √(c₀ c₂)`) and relatives -/

private theorem two_le : (2 : ℝ) ≤ 2 * Real.sqrt (1 * 1) := by simp

/-- the certificate of `1 + e^{2x} − 2 eˣ` -/
private theorem sq_cert : OrdAgeCert mα 1 {0, 2} (mc 1 1 2) := midpoint_cert 1 1 2 one_pos one_pos two_le

/-- `midpoint_circuit_exact` at `c₀ = c₂ = 1`, `β = 2`: all three statements hold; at `β = 3` all three fail -/
example : (∀ x : ℝ, 0 ≤ 1 + 1 * Real.exp (2 * x) - 2 * Real.exp x) ∧ OrdAgeCert mα 1 {0, 2} (mc 1 1 2) :=
  ⟨(midpoint_circuit_exact 1 1 2 one_pos one_pos).1.mpr two_le, (midpoint_circuit_exact 1 1 2 one_pos one_pos).2.mp two_le⟩

example : ¬ OrdAgeCert mα 1 {0, 2} (mc 1 1 3) := by
  intro h
  have := (midpoint_circuit_exact 1 1 3 one_pos one_pos).2.mpr h
  simp at this
  linarith

/-- `ordAge_sound`: the certificate gives `(eˣ − 1)² ≥ 0` in expanded form -/
example (x : Fin 1 → ℝ) :
    0 ≤ mc 1 1 2 1 * Real.exp (dotp (mα 1) x) + ∑ j ∈ ({0, 2} : Finset (Fin 3)), mc 1 1 2 j * Real.exp (dotp (mα j) x) :=
  ordAge_sound mα 1 {0, 2} (by decide) (mc 1 1 2) sq_cert x

/-- `ordAge_translate`: `x ↦ x + 5` turns the coefficients into `1, −2e⁵, e¹⁰` -/
example : OrdAgeCert mα 1 {0, 2} (fun j => mc 1 1 2 j * Real.exp (dotp (mα j) (fun _ => 5))) :=
  (ordAge_translate mα 1 {0, 2} (mc 1 1 2) (fun _ => 5)).mp sq_cert

/-- `ordAge_linear`: `x = y₀ + 3 y₁` -/
example : OrdAgeCert (fun j l => ∑ k, mα j k * (fun (_ : Fin 1) (l : Fin 2) => if l = 0 then (1 : ℝ) else 3) k l) 1 {0, 2} (mc 1 1 2) :=
  ordAge_linear mα 1 {0, 2} (mc 1 1 2) _ sq_cert

/-- `ordAge_linear_iff`: `x = 2 y`, inverse `y = x / 2` -/
example : OrdAgeCert (fun j l => ∑ k, mα j k * (fun (_ _ : Fin 1) => (2 : ℝ)) k l) 1 {0, 2} (mc 1 1 2) :=
  (ordAge_linear_iff mα 1 {0, 2} (mc 1 1 2) (fun _ _ => 2) (fun _ _ => 1 / 2)
    (by intro k k'; simp [Subsingleton.elim k k'])).mp sq_cert

/-- `ordAge_scale`: `3 + 3 e^{2x} − 6 eˣ` -/
example : OrdAgeCert mα 1 {0, 2} (fun j => 3 * mc 1 1 2 j) :=
  (ordAge_scale mα 1 {0, 2} (mc 1 1 2) 3 (by norm_num)).mp sq_cert

/-- `ordAge_shift`: multiplication by `e^{7x}` -/
example : OrdAgeCert (fun j k => mα j k + (fun _ => (7 : ℝ)) k) 1 {0, 2} (mc 1 1 2) :=
  (ordAge_shift mα 1 {0, 2} (mc 1 1 2) (fun _ => 7)).mp sq_cert

/-- `ordAge_reindex`: swapping the terms 0 and 1 (the inner term becomes term 0, the cover `{1, 2}`) -/
example : OrdAgeCert (fun j => mα (Equiv.swap 0 1 j)) 0 {1, 2} (fun j => mc 1 1 2 (Equiv.swap 0 1 j)) := by
  have h := (ordAge_reindex (Equiv.swap (0 : Fin 3) 1) mα 1 {0, 2} (mc 1 1 2)).mp sq_cert
  have e1 : (Equiv.swap (0 : Fin 3) 1).symm 1 = 0 := by decide
  have e2 : ({0, 2} : Finset (Fin 3)).map (Equiv.swap (0 : Fin 3) 1).symm.toEmbedding = {1, 2} := by decide
  rw [e1, e2] at h
  exact h

/-- exponents `0, 1, 2, 3` in one variable and the coefficients `1, −2, 1, 5` of `1 − 2eˣ + e^{2x} + 5e^{3x}` -/
private def qα : Fin 4 → Fin 1 → ℝ := fun j _ => (j : ℝ)
private def qc : Fin 4 → ℝ := fun j => if j = 1 then -2 else if j = 3 then 5 else 1

private theorem q_cert : OrdAgeCert qα 1 {0, 2} qc := by
  apply ai_midpoint_cert qα 1 0 2 (by decide) qc
  · simp [qc]
  · simp [qc]
  · intro k; simp [qα]
  · simp [qc]

/-- `ordAge_cover_mono`: the cover `{0, 2}` is enlarged by the term `5 e^{3x}` -/
example : OrdAgeCert qα 1 {0, 2, 3} qc :=
  ordAge_cover_mono qα 1 {0, 2} {0, 2, 3} (by decide) qc
    (by
      intro j hj hj'
      have : j = 3 := by revert j; decide
      subst this; simp [qc])
    q_cert

/-- `circuit_complete`: weights `½, ½` on the cover `{0, 2}` of `1 − 2eˣ + e^{2x}`; the circuit number is `2` -/
example : OrdAgeCert mα 1 {0, 2} (mc 1 1 2) :=
  circuit_complete mα 1 {0, 2} ⟨0, by decide⟩ (mc 1 1 2) (fun _ => 1 / 2)
    (by intro j _; norm_num)
    (by rw [Finset.sum_pair (by decide)]; norm_num)
    (by intro k; rw [Finset.sum_pair (by decide)]; simp [mα])
    (by
      intro j hj
      rw [Finset.mem_insert, Finset.mem_singleton] at hj
      rcases hj with rfl | rfl
      · rw [mc_0]; exact one_pos
      · rw [mc_2]; exact one_pos)
    (by
      rw [Finset.prod_pair (by decide), mc_0, mc_1, mc_2, ai_midpoint_theta 1 1 one_pos one_pos]
      simp)

end Sageopt.Props.C06
