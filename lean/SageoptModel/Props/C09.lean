/-
C09 — Problem.solve reports the true status, value and a feasible optimal point.
Property theorems about `Model/SolveGlue.lean`; the exit-flag table is regenerated on every run by
EXECUTING the real `ECOS.parse_result` (harness/translate.py → `Generated/EcosTable.lean`).
-/
import SageoptModel.Model.SolveGlue
import SageoptModel.Generated.EcosTable
import SageoptModel.Lemmas.SolveGlue

namespace Sageopt.Props.C09
open Sageopt Sageopt.Glue

def statusOf (s : String) : Option Status :=
  if s == Generated.EcosTable.solved then some .solved
  else if s == Generated.EcosTable.inaccurate then some .inaccurate
  else if s == Generated.EcosTable.failed then some .failed
  else none

def kindOf : String → Option VKind
  | "pcost" => some .pcost | "pinf" => some .pinf | "minf" => some .minf | "nan" => some .nan
  | _ => none

/-- the model's exit-flag mapping IS what the source's `parse_result` does, for every flag in −20…20:
    0 ↦ (solved, pcost, load), 1 ↦ (solved, +∞), 2 ↦ (solved, −∞), 10/11/12 ↦ the inaccurate analogues,
    everything else ↦ (failed, NaN, no values) -/
theorem parse_table :
    ∀ row ∈ Generated.EcosTable.table,
      statusOf row.2.1 = some (parseFlag row.1).1 ∧ kindOf row.2.2.1 = some (parseFlag row.1).2.1 ∧
      row.2.2.2 = (parseFlag row.1).2.2 := by decide

/-- the generated table covers every flag from −20 to 20 -/
theorem table_flags : Generated.EcosTable.table.map (·.1) = (List.range 41).map (fun (k : Nat) => Int.ofNat k - 20) := by decide

/-- outside the six recognised flags the result is a failure with value NaN and no variable values -/
theorem parse_else (flag : Int) (h : flag ∉ [0, 1, 2, 10, 11, 12]) : parseFlag flag = (.failed, .nan, false) := by
  simp only [List.mem_cons, List.not_mem_nil, or_false, not_or] at h
  obtain ⟨h0, h1, h2, h10, h11, h12⟩ := h
  simp [parseFlag, h0, h1, h2, h10, h11, h12]

/-- infeasible ↦ +∞ (MIN) / −∞ (MAX); unbounded ↦ −∞ / +∞ -/
theorem infeasible_unbounded_signs :
    reported .min .solved .pinf = .pinf ∧ reported .max .solved .pinf = .minf ∧
    reported .min .solved .minf = .minf ∧ reported .max .solved .minf = .pinf := by decide

/-- a solver failure is reported with value NaN, whatever the sense -/
theorem failure_is_nan (s : Sense) (vk : VKind) : reported s .failed vk = .nan := by
  cases s <;> cases vk <;> rfl

/-- the sense is honoured on finite values: MAX negates the solver's (minimisation) objective value back -/
theorem sense_flip : reported .min .solved .pcost = .fin false ∧ reported .max .solved .pcost = .fin true := by decide

/-- the cone types the ECOS interface accepts -/
theorem ecos_cones : Generated.EcosTable.allowedCones = ["+", "0", "S", "e"] := by decide

/-! ### the value store over histories of solves -/

/-- a Problem's variable map is consistent: a scalar id is paired with one column only (mirrored entries of a
    symmetric Variable repeat the same pair) -/
def Consistent (s : Solve) : Prop :=
  ∀ v ∈ s.vars, ∀ w ∈ s.vars, ∀ p ∈ v.ids.zip v.cols, ∀ q ∈ w.ids.zip w.cols, p.1 = q.1 → p.2 = q.2

/-- one solve overwrites every component of every Variable of its Problem -/
theorem applySolve_spec (k : Nat) (st : Store) (s : Solve) (hc : Consistent s)
    (v : PVar) (hv : v ∈ s.vars) (p : Nat × Int) (hp : p ∈ v.ids.zip v.cols) :
    (applySolve k st s).get p.1 = cellFor k s.loads p.2 := by
  rw [applySolve_eq_writeAll]
  apply writeAll_get
  · intro q hq hqp
    obtain ⟨w, hw, hqw⟩ := Solve.mem_writes.1 hq
    rw [hc w hw v hv q hqw p hp hqp]
  · exact Or.inr ⟨p, Solve.mem_writes.2 ⟨v, hv, hp⟩, rfl⟩

/-- … and touches nothing else -/
theorem applySolve_frame (k : Nat) (st : Store) (s : Solve) (id : Nat)
    (h : ∀ v ∈ s.vars, id ∉ v.ids.take v.cols.length) : (applySolve k st s).get id = st.get id := by
  rw [applySolve_eq_writeAll]
  apply writeAll_frame
  intro p hp hpid
  obtain ⟨v, hv, hpv⟩ := Solve.mem_writes.1 hp
  exact h v hv (hpid ▸ fst_mem_take_of_mem_zip hpv)

/-- SOLVE HISTORY: after ANY finite sequence of solves (any problems sharing Variables, any outcomes including
    forced failures) followed by a solve `s` of a Problem P: if values were loaded, every component of every
    Variable of P holds the entry of THIS solve's solution at its column (0 for non-participating components);
    otherwise every component is NaN — no value of an earlier solve survives. -/
theorem solve_history (hist : List Solve) (s : Solve) (hc : Consistent s)
    (v : PVar) (hv : v ∈ s.vars) (p : Nat × Int) (hp : p ∈ v.ids.zip v.cols) :
    (runSolves (hist ++ [s])).get p.1 = cellFor hist.length s.loads p.2 := by
  rw [runSolves_snoc]
  exact applySolve_spec _ _ s hc v hv p hp

theorem no_stale_values (hist : List Solve) (s : Solve) (hc : Consistent s) (hfail : s.loads = false)
    (v : PVar) (hv : v ∈ s.vars) (id : Nat) (hid : id ∈ v.ids.take v.cols.length) :
    (runSolves (hist ++ [s])).get id = .nan := by
  obtain ⟨col, hcol⟩ := exists_mem_zip_of_mem_take hid
  have := solve_history hist s hc v hv (id, col) hcol
  rw [this, hfail]
  rfl

theorem nonparticipating_zero (hist : List Solve) (s : Solve) (hc : Consistent s) (hl : s.loads = true)
    (v : PVar) (hv : v ∈ s.vars) (p : Nat × Int) (hp : p ∈ v.ids.zip v.cols) (hneg : p.2 < 0) :
    (runSolves (hist ++ [s])).get p.1 = .zero := by
  rw [solve_history hist s hc v hv p hp, hl]
  simp [cellFor, hneg]

/-! ### non-vacuity: three solves over two Variables sharing ids -/

/-- Variable `x` = ids 0,1,2 (component 2 does not participate);
    symmetric Variable `y` = ids 3,4,4,5 (the mirrored entry repeats the pair (4, 1)) -/
def exX : PVar := ⟨[0, 1, 2], [0, 1, -1]⟩
def exY : PVar := ⟨[3, 4, 4, 5], [2, 3, 3, 4]⟩
/-- in another Problem the same `y` sits at other columns -/
def exY' : PVar := ⟨[3, 4, 4, 5], [0, 1, 1, -1]⟩

def exS0 : Solve := ⟨[exX, exY], true⟩      -- Problem P (x and y), loads
def exS1 : Solve := ⟨[exY'], false⟩         -- Problem Q (y only), forced failure
def exS2 : Solve := ⟨[exX, exY], true⟩      -- Problem P again, loads

example : Consistent exS0 ∧ Consistent exS1 ∧ Consistent exS2 := by
  unfold Consistent; decide

/-- after the failed solve of Q: `y` is NaN everywhere (nothing of solve 0 survives in it), `x` keeps solve 0 -/
example : (List.range 6).map (runSolves [exS0, exS1]).get =
    [.x 0 0, .x 0 1, .zero, .nan, .nan, .nan] := by decide

/-- after the third solve every component holds the entry of solve 2 (or 0 for the non-participating one) -/
example : (List.range 6).map (runSolves ([exS0, exS1] ++ [exS2])).get =
    [.x 2 0, .x 2 1, .zero, .x 2 2, .x 2 3, .x 2 4] := by decide

/-- the history theorem instantiated at the example (hypotheses are satisfiable) -/
example : (runSolves ([exS0, exS1] ++ [exS2])).get 4 = .x 2 3 :=
  solve_history [exS0, exS1] exS2 (by unfold Consistent; decide) exY (by simp [exS2]) (4, 3) (by decide)

/-- an INCONSISTENT map really breaks the specification: the hypothesis `Consistent` is needed -/
example : ¬ Consistent ⟨[⟨[0, 0], [0, 1]⟩], true⟩ ∧
    (applySolve 0 [] ⟨[⟨[0, 0], [0, 1]⟩], true⟩).get 0 ≠ cellFor 0 true 0 := by
  unfold Consistent; decide

end Sageopt.Props.C09

