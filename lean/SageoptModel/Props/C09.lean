/-
C09 — Problem.solve reports the true status, value and a feasible optimal point.
Property theorems about `Model/SolveGlue.lean`; the exit-flag table is regenerated on every run by
EXECUTING the real `ECOS.parse_result` (harness/translate.py → `Generated/EcosTable.lean`).
-/
import SageoptModel.Model.SolveGlue
import SageoptModel.Generated.EcosTable

namespace Sageopt.Props.C09
open Sageopt Sageopt.Glue

def statusOf (s : String) : Option Status :=
  if s == Generated.EcosTable.solved then some .solved
  else if s == Generated.EcosTable.inaccurate then some .inaccurate
  else if s == Generated.EcosTable.failed then some .failed
  else none

def kindOf : String → Option VKind
  | "pcost" => some .pcost | "pinf" => some .pinf | "minf" => some .minf | "nan" => some .nan
  | _ => none

/-- the model's exit-flag mapping IS what the source's `parse_result` does, for every flag in −20…20:
    0 ↦ (solved, pcost, load), 1 ↦ (solved, +∞), 2 ↦ (solved, −∞), 10/11/12 ↦ the inaccurate analogues,
    everything else ↦ (failed, NaN, no values) -/
theorem parse_table :
    ∀ row ∈ Generated.EcosTable.table,
      statusOf row.2.1 = some (parseFlag row.1).1 ∧ kindOf row.2.2.1 = some (parseFlag row.1).2.1 ∧
      row.2.2.2 = (parseFlag row.1).2.2 := by decide

/-- the generated table covers every flag from −20 to 20 -/
theorem table_flags : Generated.EcosTable.table.map (·.1) = (List.range 41).map (fun (k : Nat) => Int.ofNat k - 20) := by decide

/-- outside the six recognised flags the result is a failure with value NaN and no variable values -/
theorem parse_else (flag : Int) (h : flag ∉ [0, 1, 2, 10, 11, 12]) : parseFlag flag = (.failed, .nan, false) := by
  simp only [List.mem_cons, List.not_mem_nil, or_false, not_or] at h
  obtain ⟨h0, h1, h2, h10, h11, h12⟩ := h
  simp [parseFlag, h0, h1, h2, h10, h11, h12]

/-- infeasible ↦ +∞ (MIN) / −∞ (MAX); unbounded ↦ −∞ / +∞ -/
theorem infeasible_unbounded_signs :
    reported .min .solved .pinf = .pinf ∧ reported .max .solved .pinf = .minf ∧
    reported .min .solved .minf = .minf ∧ reported .max .solved .minf = .pinf := by decide

/-- a solver failure is reported with value NaN, whatever the sense -/
theorem failure_is_nan (s : Sense) (vk : VKind) : reported s .failed vk = .nan := by
  cases s <;> cases vk <;> rfl

/-- the sense is honoured on finite values: MAX negates the solver's (minimisation) objective value back -/
theorem sense_flip : reported .min .solved .pcost = .fin false ∧ reported .max .solved .pcost = .fin true := by decide

/-- the cone types the ECOS interface accepts -/
theorem ecos_cones : Generated.EcosTable.allowedCones = ["+", "0", "S", "e"] := by decide

end Sageopt.Props.C09
