/-
C17, part B — the candidate generation of `_dual_age_cone_solution_recovery` (Model/Solrec.lean, `dualAgeCands`; compared with the
real function on exact inputs by the `cands` stream of harness/props/c17.py):
* the rows of `weights` sum to one (`rowWeights_sum_one`): every "reduced" candidate is an affine combination of the raw ones;
* the list handed to the feasibility filter consists of exactly the raw and the reduced candidates (`cands_mem_iff`), no point is invented
  or lost by the `np.unique` step;
* EXACT RECOVERY AT MOMENT SOLUTIONS (`moment_exact`, `moment_recovered`): if the dual solution is the moment vector of a point `x`
  (`mu_i = v_i x` wherever `v_i > 0`), every candidate equals `x`, and the candidate list is `[x]` as soon as some `v_i > 0`.
The filter and the ordering of what survives are part A (`Props/C17.lean`).  The least-squares candidate and the polynomial
magnitude / sign recovery remain parameters (numerical routines).
-/
import SageoptModel.Model.Solrec
import Mathlib.Algebra.Order.Field.Basic
import Mathlib.Algebra.Order.Field.Rat
import Mathlib.Tactic.Ring
import Mathlib.Tactic.FieldSimp
import Mathlib.Tactic.Linarith

namespace Sageopt.Props.C17
open Sageopt.Solrec

set_option linter.unusedVariables false

/-! ### list algebra -/

private theorem sum_zipWith_div (vr : Rat) : ∀ (mi vi : List Rat),
    (List.zipWith (fun m v => m / vr * v) mi vi).sum = dotL mi vi / vr
  | [], _ => by simp [dotL]
  | _ :: _, [] => by simp [dotL]
  | m :: ms, v :: vs => by
    have ih := sum_zipWith_div vr ms vs
    simp only [List.zipWith_cons_cons, List.sum_cons, dotL] at ih ⊢
    rw [ih]; ring

private theorem vecSmul_length (c : Rat) (x : List Rat) : (vecSmul c x).length = x.length := by simp [vecSmul]

private theorem vecAdd_smul (a b : Rat) : ∀ x : List Rat, vecAdd (vecSmul a x) (vecSmul b x) = vecSmul (a + b) x
  | [] => by simp [vecAdd, vecSmul]
  | t :: ts => by
    have ih := vecAdd_smul a b ts
    simp only [vecAdd, vecSmul, List.map_cons, List.zipWith_cons_cons] at ih ⊢
    rw [ih]; congr 1; ring

private theorem vecSmul_one (x : List Rat) : vecSmul 1 x = x := by simp [vecSmul]

private theorem vecSmul_smul (a b : Rat) (x : List Rat) : vecSmul a (vecSmul b x) = vecSmul (a * b) x := by
  simp [vecSmul, mul_assoc]

private theorem replicate_eq_smul_zero : ∀ x : List Rat, List.replicate x.length (0 : Rat) = vecSmul 0 x
  | [] => by simp [vecSmul]
  | t :: ts => by
    have ih := replicate_eq_smul_zero ts
    simp only [vecSmul, List.length_cons, List.replicate_succ, List.map_cons, zero_mul] at ih ⊢
    rw [ih]

private theorem foldl_const (x : List Rat) : ∀ (ws : List Rat) (xs : List (List Rat)) (s : Rat),
    (∀ y ∈ xs, y = x) → ws.length = xs.length →
    (List.zipWith vecSmul ws xs).foldl vecAdd (vecSmul s x) = vecSmul (s + ws.sum) x
  | [], xs, s, _, _ => by simp
  | w :: ws, [], s, _, h => by simp at h
  | w :: ws, y :: ys, s, hall, hlen => by
    have hy : y = x := hall y (List.mem_cons_self)
    subst hy
    simp only [List.zipWith_cons_cons, List.foldl_cons, List.sum_cons]
    rw [vecAdd_smul, foldl_const y ws ys (s + w) (fun z hz => hall z (List.mem_cons_of_mem _ hz))
      (by simpa using hlen)]
    congr 1; ring

/-- a combination of copies of `x` with weights `ws` is `(Σ ws) • x` -/
private theorem combo_const (x : List Rat) (ws : List Rat) (xs : List (List Rat))
    (hall : ∀ y ∈ xs, y = x) (hlen : ws.length = xs.length) : combo x.length ws xs = vecSmul ws.sum x := by
  unfold combo
  rw [replicate_eq_smul_zero, foldl_const x ws xs 0 hall hlen, zero_add]

/-! ### `np.unique(..., axis=1)` neither invents nor loses a column -/

private theorem mem_insertUnique (c x : List Rat) : ∀ l : List (List Rat), c ∈ insertUnique x l ↔ c = x ∨ c ∈ l
  | [] => by simp [insertUnique]
  | y :: ys => by
    unfold insertUnique
    split
    · rename_i h; subst h
      constructor
      · intro hc; exact Or.inr hc
      · rintro (rfl | hc)
        · exact List.mem_cons_self
        · exact hc
    · split
      · simp
      · simp only [List.mem_cons, mem_insertUnique c x ys]
        tauto

private theorem mem_foldl_insert (c : List Rat) : ∀ (xs acc : List (List Rat)),
    c ∈ xs.foldl (fun acc x => insertUnique x acc) acc ↔ c ∈ xs ∨ c ∈ acc
  | [], acc => by simp
  | x :: xs, acc => by
    simp only [List.foldl_cons, mem_foldl_insert c xs, mem_insertUnique, List.mem_cons]
    tauto

/-- `uniqueCols` keeps exactly the columns it is given -/
theorem mem_uniqueCols (c : List Rat) (xs : List (List Rat)) : c ∈ uniqueCols xs ↔ c ∈ xs := by
  unfold uniqueCols; rw [mem_foldl_insert]; simp

private theorem foldl_insert_same (x : List Rat) : ∀ xs : List (List Rat), (∀ y ∈ xs, y = x) →
    xs.foldl (fun acc z => insertUnique z acc) [x] = [x]
  | [], _ => rfl
  | y :: ys, hall => by
    have hy : y = x := hall y List.mem_cons_self
    subst hy
    simp only [List.foldl_cons, insertUnique, if_true]
    exact foldl_insert_same y ys (fun z hz => hall z (List.mem_cons_of_mem _ hz))

private theorem uniqueCols_same (x : List Rat) (xs : List (List Rat)) (hne : xs ≠ []) (hall : ∀ y ∈ xs, y = x) :
    uniqueCols xs = [x] := by
  cases xs with
  | nil => exact absurd rfl hne
  | cons y ys =>
    have hy : y = x := hall y List.mem_cons_self
    subst hy
    unfold uniqueCols
    simp only [List.foldl_cons, insertUnique]
    exact foldl_insert_same y ys (fun z hz => hall z (List.mem_cons_of_mem _ hz))

/-! ### the property theorems -/

/-- every kept row of `weights` sums to one -/
theorem rowWeights_sum_one (d : DualIn) (row ws : List Rat) (h : rowWeights d row = some ws) : ws.sum = 1 := by
  unfold rowWeights at h
  simp only at h
  split at h
  · exact absurd h (by simp)
  · rename_i hvr
    injection h with h
    rw [← h, sum_zipWith_div]
    exact div_self hvr

/-- the candidates handed to the filter are exactly the raw and the reduced ones -/
theorem cands_mem_iff (d : DualIn) (c : List Rat) :
    c ∈ dualAgeCands d ↔ (musExist d ≠ [] ∧ (c ∈ rawXs d ∨ c ∈ reducedXs d)) := by
  unfold dualAgeCands
  by_cases h : musExist d = []
  · simp [h]
  · have : (musExist d).isEmpty = false := by
      cases hm : musExist d with
      | nil => exact absurd hm h
      | cons _ _ => rfl
    simp only [this, Bool.false_eq_true, if_false, mem_uniqueCols, List.mem_append]
    exact ⟨fun hc => ⟨h, hc⟩, fun hc => hc.2⟩

private theorem raw_eq (d : DualIn) (x : List Rat)
    (hmom : ∀ p ∈ musExist d, p.2 = vecSmul (d.v.getD p.1 0) x) : ∀ y ∈ rawXs d, y = x := by
  intro y hy
  unfold rawXs at hy
  rw [List.mem_map] at hy
  obtain ⟨p, hp, rfl⟩ := hy
  have hpos : 0 < d.v.getD p.1 0 := by
    unfold musExist at hp
    rw [List.mem_filter] at hp
    simpa using hp.2
  rw [hmom p hp, vecSmul_smul]
  have : 1 / d.v.getD p.1 0 * d.v.getD p.1 0 = 1 := by field_simp
  rw [this, vecSmul_one]

/-- EXACT RECOVERY: at a moment solution (`mu_i = v_i • x` wherever `v_i > 0`) every candidate is the point `x` -/
theorem moment_exact (d : DualIn) (x : List Rat) (hx : x.length = d.n)
    (hmom : ∀ p ∈ musExist d, p.2 = vecSmul (d.v.getD p.1 0) x) : ∀ c ∈ dualAgeCands d, c = x := by
  intro c hc
  rw [cands_mem_iff] at hc
  obtain ⟨_, hraw | hred⟩ := hc
  · exact raw_eq d x hmom c hraw
  · unfold reducedXs at hred
    rw [List.mem_filterMap] at hred
    obtain ⟨row, _, hrow⟩ := hred
    cases hw : rowWeights d row with
    | none => rw [hw] at hrow; simp at hrow
    | some ws =>
      rw [hw] at hrow
      simp only [Option.map_some, Option.some.injEq] at hrow
      have hsum := rowWeights_sum_one d row ws hw
      have hlen : ws.length = (rawXs d).length := by
        unfold rowWeights at hw
        simp only at hw
        split at hw
        · exact absurd hw (by simp)
        · injection hw with hw
          rw [← hw]
          simp [mInterest, vInterest, rawXs]
      rw [← hrow, ← hx, combo_const x ws (rawXs d) (raw_eq d x hmom) hlen, hsum, vecSmul_one]

/-- … and as soon as some `v_i > 0` carries a `mu`, the candidate list is exactly `[x]` -/
theorem moment_recovered (d : DualIn) (x : List Rat) (hx : x.length = d.n) (hne : musExist d ≠ [])
    (hmom : ∀ p ∈ musExist d, p.2 = vecSmul (d.v.getD p.1 0) x) : dualAgeCands d = [x] := by
  have hall := moment_exact d x hx hmom
  unfold dualAgeCands at hall ⊢
  have : (musExist d).isEmpty = false := by
    cases hm : musExist d with
    | nil => exact absurd hm hne
    | cons _ _ => rfl
  simp only [this, Bool.false_eq_true, if_false] at hall ⊢
  apply uniqueCols_same x
  · intro h
    have h2 : rawXs d = [] := by
      have := congrArg List.length h
      simp only [List.length_append, List.length_nil] at this
      exact List.eq_nil_of_length_eq_zero (by omega)
    unfold rawXs at h2
    exact hne (List.map_eq_nil_iff.mp h2)
  · intro y hy
    exact hall y ((mem_uniqueCols y _).mpr hy)

/-- no candidate without a positive `v_i` (the function returns `[]`) -/
theorem no_mus_no_cands (d : DualIn) (h : musExist d = []) : dualAgeCands d = [] := by
  unfold dualAgeCands; simp [h]

/-! ### non-vacuity: `v = (1, 2, 0)`, the moment solution of `x = (1, 3)` and a perturbed one -/

private def dMom : DualIn :=
  { n := 2, v := [1, 2, 0], mus := [(0, [1, 3]), (1, [2, 6]), (2, [5, 5])], M := [[1, 1, 0], [0, 0, 1], [1, 0, 0]] }

example : dualAgeCands dMom = [[1, 3]] := by decide +kernel

example : dualAgeCands { dMom with mus := [(0, [1, 2]), (1, [2, 6]), (2, [5, 5])] } = [[1, 2], [1, 8 / 3], [1, 3]] := by
  decide +kernel

example : rowWeights dMom [1, 1, 0] = some [1 / 3, 2 / 3] := by decide +kernel

end Sageopt.Props.C17
