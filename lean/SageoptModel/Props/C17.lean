/-
C17 — recovered solutions are feasible, ordered and consistent with the bound.
Property theorems about `Model/Solrec.lean`.
-/
import SageoptModel.Model.Solrec
import SageoptModel.Lemmas.SolrecBasic
import SageoptModel.Lemmas.SolrecSelect

namespace Sageopt.Props.C17
open Sageopt Sageopt.Solrec

/-- NaN never passes a single comparison of the filter -/
theorem nan_rejected (tol : Rat) : geNegTol tol .nan = false ∧ absLeTol tol .nan = false := ⟨rfl, rfl⟩

/-- what a `true` verdict of the filter means: every inequality value is a number `≥ −ineq_tol` (or +∞), every equality
    value is a number within `eq_tol` of zero; in particular no value is NaN -/
theorem isFeasible_iff (itol etol : Rat) (gt eq : List FV) :
    isFeasible itol etol gt eq = true ↔
      (∀ v ∈ gt, v = .pinf ∨ ∃ q, v = .num q ∧ -itol ≤ q) ∧ (∀ v ∈ eq, ∃ q, v = .num q ∧ -etol ≤ q ∧ q ≤ etol) :=
  sr_isFeasible_iff itol etol gt eq

/-- a NaN constraint value is always a violation (the defect F8 was exactly the failure of this statement) -/
theorem nan_never_feasible (itol etol : Rat) (gt eq : List FV) (h : FV.nan ∈ gt ∨ FV.nan ∈ eq) :
    isFeasible itol etol gt eq = false := by
  cases hf : isFeasible itol etol gt eq
  · rfl
  · rw [isFeasible_iff] at hf
    rcases h with h | h
    · rcases hf.1 _ h with h' | ⟨q, h', _⟩ <;> cases h'
    · obtain ⟨q, h', _⟩ := hf.2 _ h
      cases h'

/-- every returned point passed the filter -/
theorem select_feasible (itol etol : Rat) (cands : List Cand) :
    ∀ i ∈ select itol etol cands, ∃ c, cands[i]? = some c ∧ isFeasible itol etol c.gt c.eq = true :=
  fun i hi => (sr_mem_select itol etol cands i).1 hi

/-- every candidate that passes the filter is returned, exactly once -/
theorem select_complete (itol etol : Rat) (cands : List Cand) :
    (select itol etol cands).Nodup ∧
    ∀ i c, cands[i]? = some c → isFeasible itol etol c.gt c.eq = true → i ∈ select itol etol cands :=
  ⟨sr_select_nodup itol etol cands, fun i c h1 h2 => (sr_mem_select itol etol cands i).2 ⟨c, h1, h2⟩⟩

/-- the returned list is sorted by nondecreasing objective value (whenever no surviving objective value is NaN) -/
theorem select_sorted (itol etol : Rat) (cands : List Cand)
    (hnum : ∀ c ∈ cands, isFeasible itol etol c.gt c.eq = true → c.obj ≠ .nan) :
    (select itol etol cands).Pairwise fun i j =>
      ¬ fvLt ((cands.getD j ⟨[], [], .nan⟩).obj) ((cands.getD i ⟨[], [], .nan⟩).obj) = true := by
  have _ := hnum
  exact (sr_select_order itol etol cands ⟨[], [], .nan⟩).imp fun h => ne_true_of_eq_false h.1

/-- stability: candidates with equal objective values keep the order in which they were examined -/
theorem select_stable (itol etol : Rat) (cands : List Cand)
    (hnum : ∀ c ∈ cands, isFeasible itol etol c.gt c.eq = true → c.obj ≠ .nan) :
    (select itol etol cands).Pairwise fun i j =>
      (cands.getD i ⟨[], [], .nan⟩).obj = (cands.getD j ⟨[], [], .nan⟩).obj → i < j := by
  have _ := hnum
  exact (sr_select_order itol etol cands ⟨[], [], .nan⟩).imp fun h => h.2

/-- larger tolerances only add points -/
theorem select_mono (itol etol itol' etol' : Rat) (h1 : itol ≤ itol') (h2 : etol ≤ etol') (cands : List Cand) :
    ∀ i ∈ select itol etol cands, i ∈ select itol' etol' cands := by
  intro i hi
  obtain ⟨c, hc, hf⟩ := (sr_mem_select itol etol cands i).1 hi
  exact (sr_mem_select itol' etol' cands i).2 ⟨c, hc, sr_isFeasible_mono h1 h2 hf⟩

/-! ### additional facts -/

/-- membership in the returned list, in one statement -/
theorem select_mem_iff (itol etol : Rat) (cands : List Cand) (i : Nat) :
    i ∈ select itol etol cands ↔ ∃ c, cands[i]? = some c ∧ isFeasible itol etol c.gt c.eq = true :=
  sr_mem_select itol etol cands i

/-- the two order statements hold for the model with no assumption on the objective values (a NaN key is never smaller
    than anything, so it is inserted last and nothing is inserted in front of it on its account); the hypothesis of
    `select_sorted` / `select_stable` is what makes the model agree with `list.sort`, not what makes them true -/
theorem select_order_unconditional (itol etol : Rat) (cands : List Cand) :
    (select itol etol cands).Pairwise fun i j =>
      fvLt ((cands.getD j ⟨[], [], .nan⟩).obj) ((cands.getD i ⟨[], [], .nan⟩).obj) = false ∧
      ((cands.getD i ⟨[], [], .nan⟩).obj = (cands.getD j ⟨[], [], .nan⟩).obj → i < j) :=
  sr_select_order itol etol cands ⟨[], [], .nan⟩

/-- when no surviving objective value is NaN, two returned points neither of which is smaller than the other have the
    same objective value, so "sorted + stable" determines the returned list -/
theorem select_ties_equal (itol etol : Rat) (cands : List Cand)
    (hnum : ∀ c ∈ cands, isFeasible itol etol c.gt c.eq = true → c.obj ≠ .nan)
    (i j : Nat) (hi : i ∈ select itol etol cands) (hj : j ∈ select itol etol cands)
    (h1 : fvLt ((cands.getD i ⟨[], [], .nan⟩).obj) ((cands.getD j ⟨[], [], .nan⟩).obj) = false)
    (h2 : fvLt ((cands.getD j ⟨[], [], .nan⟩).obj) ((cands.getD i ⟨[], [], .nan⟩).obj) = false) :
    (cands.getD i ⟨[], [], .nan⟩).obj = (cands.getD j ⟨[], [], .nan⟩).obj := by
  obtain ⟨ci, hci, hfi⟩ := (sr_mem_select itol etol cands i).1 hi
  obtain ⟨cj, hcj, hfj⟩ := (sr_mem_select itol etol cands j).1 hj
  have ei : cands.getD i ⟨[], [], .nan⟩ = ci := by rw [List.getD_eq_getElem?_getD, hci]; rfl
  have ej : cands.getD j ⟨[], [], .nan⟩ = cj := by rw [List.getD_eq_getElem?_getD, hcj]; rfl
  rw [ei, ej] at h1 h2 ⊢
  exact sr_fvLt_incomp (hnum ci (List.mem_of_getElem? hci) hfi) (hnum cj (List.mem_of_getElem? hcj) hfj) h1 h2

/-! ### instances -/

/-- five candidates: NaN inequality value; equality violated; feasible with objective 5; feasible with objective 2;
    feasible (inside the tolerances only) with objective 5 again -/
private def exCands : List Cand :=
  [ ⟨[.num 1, .nan], [.num 0], .num 1⟩,
    ⟨[.num 1, .pinf], [.num (1/2)], .num 0⟩,
    ⟨[.num 0, .pinf], [.num 0], .num 5⟩,
    ⟨[.num 3], [.num 0, .num 0], .num 2⟩,
    ⟨[.num (-1/1000)], [.num (1/1000)], .num 5⟩ ]

private theorem exCands_num (itol etol : Rat) :
    ∀ c ∈ exCands, isFeasible itol etol c.gt c.eq = true → c.obj ≠ .nan := by
  intro c hc _
  simp only [exCands, List.mem_cons, List.not_mem_nil, or_false] at hc
  rcases hc with rfl | rfl | rfl | rfl | rfl <;> simp

private theorem exSel_tol : select (1/100) (1/100) exCands = [3, 2, 4] := by with_unfolding_all decide
private theorem exSel_zero : select 0 0 exCands = [3, 2] := by with_unfolding_all decide

example : isFeasible (1/100) (1/100) [.num 1, .nan] [.num 0] = false :=
  nan_never_feasible (1/100) (1/100) [.num 1, .nan] [.num 0] (.inl (by simp))

example : [3, 2, 4].Pairwise fun i j =>
    ¬ fvLt ((exCands.getD j ⟨[], [], .nan⟩).obj) ((exCands.getD i ⟨[], [], .nan⟩).obj) = true := by
  have h := select_sorted (1/100) (1/100) exCands (exCands_num _ _)
  rwa [exSel_tol] at h

example : [3, 2, 4].Pairwise fun i j =>
    (exCands.getD i ⟨[], [], .nan⟩).obj = (exCands.getD j ⟨[], [], .nan⟩).obj → i < j := by
  have h := select_stable (1/100) (1/100) exCands (exCands_num _ _)
  rwa [exSel_tol] at h

example : ∀ i ∈ [3, 2], i ∈ [3, 2, 4] := by
  have h := select_mono 0 0 (1/100) (1/100) (by with_unfolding_all decide) (by with_unfolding_all decide) exCands
  rwa [exSel_zero, exSel_tol] at h

example : (exCands.getD 2 ⟨[], [], .nan⟩).obj = (exCands.getD 4 ⟨[], [], .nan⟩).obj :=
  select_ties_equal (1/100) (1/100) exCands (exCands_num _ _) 2 4 (by rw [exSel_tol]; simp) (by rw [exSel_tol]; simp)
    (by with_unfolding_all decide) (by with_unfolding_all decide)

end Sageopt.Props.C17
