/-
C17 — recovered solutions are feasible, ordered and consistent with the bound.
Property theorems about `Model/Solrec.lean`.
-/
import SageoptModel.Model.Solrec

namespace Sageopt.Props.C17
open Sageopt Sageopt.Solrec

/-- NaN never passes a single comparison of the filter -/
theorem nan_rejected (tol : Rat) : geNegTol tol .nan = false ∧ absLeTol tol .nan = false := ⟨rfl, rfl⟩

end Sageopt.Props.C17
