/-
C14 — derivatives, shifts, conversions and composition are exact.
Property theorems about `Model/SigCalc.lean`.
-/
import SageoptModel.Model.SigCalc

namespace Sageopt.Props.C14
open Sageopt.Sig

/-- the gradient has one entry per variable -/
theorem grad_length (poly : Bool) (f : SigT Rat) : (grad poly f).length = f.n := by
  simp [grad]

end Sageopt.Props.C14
