/-
C14 — derivatives, shifts, conversions and composition are exact.
Property theorems about `Model/SigCalc.lean`.
-/
import SageoptModel.Lemmas.SigCalcComp
import SageoptModel.Lemmas.SigCalcReal

namespace Sageopt.Props.C14
open Sageopt.Sig

/-- the gradient has one entry per variable -/
theorem grad_length (poly : Bool) (f : SigT Rat) : (grad poly f).length = f.n := by
  simp [grad]

/-- `evalWith` (the driver's left fold) is `eval` -/
theorem evalWith_eq_eval (χ : Exp → Rat) (f : SigT Rat) : evalWith χ f = eval χ f.terms :=
  evalWith_eq_eval' χ f

/-! ### symbolic derivatives, coefficient level -/

/-- ∂/∂x_i of Σ c_a e^{a·x} has coefficient a_i·c_a at exponent a -/
theorem partialSig_coeff (f : SigT Rat) (hf : Wf f) (i : Nat) (a : Exp) :
    coeff (partialSig f i).terms a = a.getD i 0 * coeff f.terms a :=
  partialSig_coeff' f hf i a

theorem partialSig_wf (f : SigT Rat) (hf : Wf f) (i : Nat) : Wf (partialSig f i) ∧ (partialSig f i).n = f.n :=
  ⟨partialSig_wf' f hf i, partialSig_n f i⟩

def incExp (b : Exp) (i : Nat) : Exp := b.set i (b.getD i 0 + 1)

set_option linter.unusedVariables false in
/-- ∂/∂x_i of Σ c_a x^a has coefficient (b_i+1)·c_{b+e_i} at exponent b (the formal partial derivative) -/
theorem partialPoly_coeff (f : SigT Rat) (hf : Wf f) (hp : polyOk f = true) (i : Nat) (hi : i < f.n)
    (b : Exp) (hb : b.length = f.n) (hbp : isPolyExp b = true) :
    coeff (partialPoly f i).terms b = (b.getD i 0 + 1) * coeff f.terms (incExp b i) :=
  partialPoly_coeff' f hf i hi b hb hbp

set_option linter.unusedVariables false in
theorem partialPoly_wf (f : SigT Rat) (hf : Wf f) (hp : polyOk f = true) (i : Nat) (hi : i < f.n) :
    Wf (partialPoly f i) ∧ (partialPoly f i).n = f.n ∧ polyOk (partialPoly f i) = true :=
  ⟨partialPoly_wf' f hf i, partialPoly_n f i, partialPoly_polyOk f hf hp i⟩

/-- mixed partials commute (so the mirrored Hessian is the Hessian), signomials -/
theorem partialSig_comm (f : SigT Rat) (hf : Wf f) (i j : Nat) (a : Exp) :
    coeff (partialSig (partialSig f i) j).terms a = coeff (partialSig (partialSig f j) i).terms a := by
  rw [partialSig_coeff _ (partialSig_wf f hf i).1, partialSig_coeff _ (partialSig_wf f hf j).1,
    partialSig_coeff f hf, partialSig_coeff f hf]
  ring

set_option linter.unusedVariables false in
/-- … and polynomials -/
theorem partialPoly_comm (f : SigT Rat) (hf : Wf f) (hp : polyOk f = true) (i j : Nat) (hi : i < f.n) (hj : j < f.n)
    (b : Exp) (hb : b.length = f.n) (hbp : isPolyExp b = true) :
    coeff (partialPoly (partialPoly f i) j).terms b = coeff (partialPoly (partialPoly f j) i).terms b :=
  partialPoly_comm' f hf i j hi hj b hb hbp

/-- every entry of `hess` is the iterated partial derivative, in either order -/
theorem hess_entry (poly : Bool) (f : SigT Rat) (i j : Nat) (hi : i < f.n) (hj : j < f.n) :
    ((hess poly f).getD i []).getD j (mk 0 []) =
      (if j ≤ i then partialOf poly (partialOf poly f i) j else partialOf poly (partialOf poly f j) i) :=
  hess_entry' poly f i j hi hj

/-! ### the grad_val / hess_val formulas are the values of the symbolic derivatives -/
theorem gradValSig_eq (χ : Exp → Rat) (f : SigT Rat) (hf : Wf f) (i : Nat) (hi : i < f.n) :
    (gradValSig χ f).getD i 0 = evalWith χ (partialSig f i) :=
  gradValSig_eq' χ f hf i hi

theorem hessValSig_eq (χ : Exp → Rat) (f : SigT Rat) (hf : Wf f) (i k : Nat) (hi : i < f.n) (hk : k < f.n) :
    ((hessValSig χ f).getD i []).getD k 0 = evalWith χ (partialSig (partialSig f i) k) :=
  hessValSig_eq' χ f hf i k hi hk

theorem hessValSig_symm (χ : Exp → Rat) (f : SigT Rat) (i k : Nat) (hi : i < f.n) (hk : k < f.n) :
    ((hessValSig χ f).getD i []).getD k 0 = ((hessValSig χ f).getD k []).getD i 0 :=
  hessValSig_symm' χ f i k hi hk

/-! ### shift_coordinates -/
/-- if `w a = e^{a·x0}` then the shifted signomial evaluated at `x` is `f` evaluated at `x + x0`
    (`χ' a = χ a · w a` is exactly `e^{a·(x+x0)} = e^{a·x} e^{a·x0}`) -/
theorem shiftBy_eval (χ χ' w : Exp → Rat) (hw : ∀ a, χ' a = χ a * w a) (f : SigT Rat) (hf : Wf f) :
    evalWith χ (shiftBy w f) = evalWith χ' f :=
  shiftBy_eval' χ χ' w hw f hf

/-! ### conversions keep the representation -/
theorem conv_id (f : SigT Rat) (hf : Wf f) : mk f.n f.terms = f := mk_id' f hf

/-! ### composition -/
/-- multiplicative on polynomial rows (nonnegative integer exponents) of width `n`: what evaluation at a
    point `x` is (`monoAt_polyChar`).  (Multiplicativity on ALL rational rows would force `χ ≡ 1` over `Rat`.) -/
structure IsPolyChar (n : Nat) (χ : Exp → Rat) : Prop where
  zero : χ (zeroExp n) = 1
  add : ∀ a b : Exp, a.length = n → b.length = n → isPolyExp a = true → isPolyExp b = true →
    χ (addExp a b) = χ a * χ b

theorem monoAt_polyChar (x : List Rat) : IsPolyChar x.length (monoAt x) :=
  ⟨(monoAt_polyChar' x).zero, (monoAt_polyChar' x).add⟩

set_option linter.unusedVariables false in
/-- `p(z)` evaluates to `Σ_a c_a ∏_i z_i(·)^{a_i}` at every point of the inner variables -/
theorem compose_eval (nz : Nat) (χ : Exp → Rat) (hχ : IsPolyChar nz χ) (p : SigT Rat) (hp : Wf p) (hpp : polyOk p = true)
    (zs : List (SigT Rat)) (hz : ∀ z ∈ zs, Wf z ∧ z.n = nz ∧ polyOk z = true) (hlen : zs.length = p.n) (hpos : 0 < p.n)
    (r : SigT Rat) (hr : compose p zs = some r) :
    evalWith χ r =
      (p.terms.map fun t => t.2 * (List.zipWith (fun z ai => (evalWith χ z) ^ ai.num.toNat) zs t.1).prod).sum :=
  compose_eval' nz χ ⟨hχ.zero, hχ.add⟩ p zs hz r hr

/-- numeric evaluation of a polynomial at a rational point, spelled out:
    `p(x) = Σ_a c_a ∏_i x_i^{a_i}` -/
theorem evalWith_monoAt (x : List Rat) (p : SigT Rat) :
    evalWith (monoAt x) p = (p.terms.map fun t => t.2 * monoAt x t.1).sum :=
  evalWith_monoAt' x p

/-! ### real analysis: the symbolic partial derivative IS the derivative (signomials) -/
/-- real evaluation of a rational-coefficient signomial at `x : ℕ → ℝ` (coordinates beyond n unused) -/
noncomputable def evalR (f : SigT Rat) (x : Nat → ℝ) : ℝ :=
  (f.terms.map fun t => (t.2 : ℝ) * Real.exp ((t.1.zipIdx.map fun p => (p.1 : ℝ) * x p.2).sum)).sum

set_option linter.unusedVariables false in
theorem sig_hasDerivAt (f : SigT Rat) (hf : Wf f) (i : Nat) (hi : i < f.n) (x : Nat → ℝ) :
    HasDerivAt (fun s : ℝ => evalR f (Function.update x i s)) (evalR (partialSig f i) x) (x i) :=
  sig_hasDerivAt' f hf i x

/-! ### non-vacuity: the hypotheses of the theorems above are satisfiable at `Rat`
(concrete values are checked by `decide` on the executable model; core `Rat` operations are
irreducible, hence `with_unfolding_all`) -/
section NonVacuity

@[instance_reducible] private def decEqSig : DecidableEq (SigT Rat) := fun a b =>
  match a, b with
  | ⟨n1, t1⟩, ⟨n2, t2⟩ =>
    if h : n1 = n2 ∧ t1 = t2 then isTrue (by rw [h.1, h.2])
    else isFalse (fun e => h (by cases e; exact ⟨rfl, rfl⟩))

attribute [local instance] decEqSig

private theorem grid_of {ts : List (Exp × Rat)} (h : ∀ t ∈ ts, ∀ q ∈ t.1, round7 q = q) :
    ∀ t ∈ ts, OnGrid t.1 := h

/-- the signomial `3·e^{x₁} − e^{x₂/2} + 2·e^{x₁ + x₂/2}` -/
private def sEx : SigT Rat := ⟨2, [([1, 0], 3), ([0, 1/2], -1), ([1, 1/2], 2)]⟩
/-- the polynomial `3·x₁²x₂ + 5·x₁x₂ + 7·x₂³ + 2·x₁` -/
private def pEx : SigT Rat := ⟨2, [([2, 1], 3), ([1, 1], 5), ([0, 3], 7), ([1, 0], 2)]⟩
/-- the inner polynomials `x − 1`, `x + 1` -/
private def z1 : SigT Rat := ⟨1, [([1], 1), ([0], -1)]⟩
private def z2 : SigT Rat := ⟨1, [([1], 1), ([0], 1)]⟩

private theorem sEx_wf : Wf sEx :=
  ⟨by decide, grid_of (by with_unfolding_all decide), by with_unfolding_all decide⟩
private theorem pEx_wf : Wf pEx := ⟨by decide, grid_of (by with_unfolding_all decide), by decide⟩
private theorem z1_wf : Wf z1 := ⟨by decide, grid_of (by with_unfolding_all decide), by decide⟩
private theorem z2_wf : Wf z2 := ⟨by decide, grid_of (by with_unfolding_all decide), by decide⟩
private theorem pEx_poly : polyOk pEx = true := by with_unfolding_all decide

-- signomial derivatives: the term without `x₁` is dropped; coefficients are `a_i · c_a`
example : partialSig sEx 0 = ⟨2, [([1, 0], 3), ([1, 1/2], 2)]⟩ := by with_unfolding_all decide
example : partialSig sEx 1 = ⟨2, [([0, 1/2], -1/2), ([1, 1/2], 1)]⟩ := by with_unfolding_all decide
example : partialSig (partialSig sEx 0) 0 = ⟨2, [([1, 0], 3), ([1, 1/2], 2)]⟩ := by with_unfolding_all decide
example : partialSig ⟨2, [([0, 1], 4)]⟩ 0 = ⟨2, [([0, 0], 0)]⟩ := by with_unfolding_all decide
example : coeff (partialSig sEx 1).terms [1, 1/2] = (1/2 : Rat) * coeff sEx.terms [1, 1/2] := by
  have := partialSig_coeff sEx sEx_wf 1 [1, 1/2]
  simpa using this
example : Wf (partialSig sEx 1) ∧ (partialSig sEx 1).n = 2 := partialSig_wf sEx sEx_wf 1

-- polynomial derivatives: rows are decremented and merged in insertion order, coefficients kept
example : partialPoly pEx 0 = ⟨2, [([1, 1], 6), ([0, 1], 5), ([0, 0], 2)]⟩ := by with_unfolding_all decide
example : partialPoly pEx 1 = ⟨2, [([2, 0], 3), ([1, 0], 5), ([0, 2], 21)]⟩ := by with_unfolding_all decide
example : partialPoly (partialPoly pEx 0) 1 = partialPoly (partialPoly pEx 1) 0 := by with_unfolding_all decide
example : partialPoly ⟨1, [([0], 4)]⟩ 0 = ⟨1, [([0], 0)]⟩ := by with_unfolding_all decide
example : incExp [1, 1] 0 = [2, 1] := by with_unfolding_all decide
example : coeff (partialPoly pEx 0).terms [1, 1] = ((1 : Rat) + 1) * coeff pEx.terms (incExp [1, 1] 0) := by
  have := partialPoly_coeff pEx pEx_wf pEx_poly 0 (by decide) [1, 1] (by decide) (by with_unfolding_all decide)
  simpa using this
example : Wf (partialPoly pEx 0) ∧ (partialPoly pEx 0).n = 2 ∧ polyOk (partialPoly pEx 0) = true :=
  partialPoly_wf pEx pEx_wf pEx_poly 0 (by decide)
example : coeff (partialPoly (partialPoly pEx 0) 1).terms [1, 0] =
    coeff (partialPoly (partialPoly pEx 1) 0).terms [1, 0] :=
  partialPoly_comm pEx pEx_wf pEx_poly 0 1 (by decide) (by decide) [1, 0] (by decide) (by with_unfolding_all decide)

-- gradient / Hessian
example : grad true pEx = [partialPoly pEx 0, partialPoly pEx 1] := by with_unfolding_all decide
example : ((hess true pEx).getD 0 []).getD 1 (mk 0 []) = ⟨2, [([1, 0], 6), ([0, 0], 5)]⟩ := by
  with_unfolding_all decide
example : ((hess false sEx).getD 0 []).getD 1 (mk 0 []) = partialSig (partialSig sEx 1) 0 := by
  rw [hess_entry false sEx 0 1 (by decide) (by decide)]
  rfl

-- grad_val / hess_val against the trivial table (every basis function evaluates to 1)
example : gradValSig (fun _ => 1) sEx = [5, 1/2] := by with_unfolding_all decide
example : hessValSig (fun _ => 1) sEx = [[5, 1], [1, 1/4]] := by with_unfolding_all decide
example : (gradValSig (fun _ => 1) sEx).getD 1 0 = evalWith (fun _ => 1) (partialSig sEx 1) :=
  gradValSig_eq _ sEx sEx_wf 1 (by decide)
example : ((hessValSig (fun _ => 1) sEx).getD 0 []).getD 1 0 =
    evalWith (fun _ => 1) (partialSig (partialSig sEx 0) 1) :=
  hessValSig_eq _ sEx sEx_wf 0 1 (by decide) (by decide)

-- shift_coordinates with `x0 = ln 4 · (1, 2)` (so `w a = 4^{a·(1,2)}`, exact on half-integer rows)
example : shiftBy (expAt4 [1, 2]) sEx = ⟨2, [([1, 0], 12), ([0, 1/2], -4), ([1, 1/2], 32)]⟩ := by
  with_unfolding_all decide
example : evalWith (fun _ => 1) (shiftBy (expAt4 [1, 2]) sEx) = evalWith (expAt4 [1, 2]) sEx :=
  shiftBy_eval (fun _ => 1) (expAt4 [1, 2]) (expAt4 [1, 2]) (fun a => by simp) sEx sEx_wf
example : mk pEx.n pEx.terms = pEx := conv_id pEx pEx_wf

-- numeric evaluation and composition
example : IsPolyChar 2 (monoAt [2, 3]) := monoAt_polyChar [2, 3]
example : evalWith (monoAt [2, 3]) pEx = 259 := by with_unfolding_all decide
private theorem composeEx : compose pEx [z1, z2] = some ⟨1, [([0], 3), ([1], 20), ([2], 23), ([3], 10)]⟩ := by
  with_unfolding_all decide
example : compose ⟨2, [([0, 0], 3), ([1, 1], 0), ([1, 0], 1), ([0, 1], -1)]⟩ [z1, z1] =
    some ⟨1, [([0], 3), ([1], 0)]⟩ := by with_unfolding_all decide
example : evalWith (monoAt [2]) ⟨1, [([0], 3), ([1], 20), ([2], 23), ([3], 10)]⟩ =
    (pEx.terms.map fun t => t.2 *
      (List.zipWith (fun z ai => (evalWith (monoAt [2]) z) ^ ai.num.toNat) [z1, z2] t.1).prod).sum :=
  compose_eval 1 (monoAt [2]) (monoAt_polyChar [2]) pEx pEx_wf pEx_poly [z1, z2]
    (by
      intro z hz
      simp only [List.mem_cons, List.not_mem_nil, or_false] at hz
      rcases hz with rfl | rfl
      · exact ⟨z1_wf, rfl, by with_unfolding_all decide⟩
      · exact ⟨z2_wf, rfl, by with_unfolding_all decide⟩)
    rfl (by decide) _ composeEx

-- the real derivative of the example signomial
example (x : Nat → ℝ) :
    HasDerivAt (fun s : ℝ => evalR sEx (Function.update x 1 s)) (evalR (partialSig sEx 1) x) (x 1) :=
  sig_hasDerivAt sEx sEx_wf 1 (by decide) x

end NonVacuity

end Sageopt.Props.C14
