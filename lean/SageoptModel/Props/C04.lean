/-
C04 — constrained signomial relaxations bound the constrained minimum; the Lagrangian identity.
Property theorems about `Model/Relax.lean`.
-/
import SageoptModel.Model.Relax

namespace Sageopt.Props.C04
open Sageopt Sageopt.Sig Sageopt.Relax

/-- with q = 1 (or no constraints) the folded list is the list itself -/
theorem qFold_one (n : Nat) (cons : List SigQ) : qFold n cons 1 = cons := by
  simp [qFold]

end Sageopt.Props.C04
