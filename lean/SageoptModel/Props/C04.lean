/-
C04 — constrained signomial relaxations bound the constrained minimum; the Lagrangian identity.
Property theorems about `Model/Relax.lean`.
-/
import SageoptModel.Model.Relax
import SageoptModel.Props.C13
import SageoptModel.Lemmas.LagrIdent
import SageoptModel.Lemmas.LagrExec
import SageoptModel.Lemmas.LagrClean

namespace Sageopt.Props.C04
open Sageopt Sageopt.Sig Sageopt.Relax Sageopt.Props.C13

/-- with q = 1 (or no constraints) the folded list is the list itself -/
theorem qFold_one (n : Nat) (cons : List SigQ) : qFold n cons 1 = cons := by
  simp [qFold]

/-- substitute values for the variables in every coefficient, and evaluate against a grid character -/
def evalσ (χ : Exp → Rat) (σ : Nat → Rat) (f : SigL) : Rat := eval χ (mapσ σ f).terms

/-- `combinations_with_replacement`: every enumerated multiset has the requested size and only members of `xs` -/
theorem combsWithRep_spec {α : Type} (k : Nat) (xs : List α) :
    ∀ comb ∈ combsWithRep k xs, comb.length = k ∧ ∀ g ∈ comb, g ∈ xs :=
  lg_combsWithRep_spec k xs

/-- Q-FOLD SOUNDNESS: every folded constraint is a product of at least one and at most q members of the input
    list — so it is ≥ 0 (resp. = 0) wherever all input constraints are -/
theorem qfold_sound (n : Nat) (χ : Exp → Rat) (hχ : IsGridChar n χ) (cons : List SigQ)
    (hc : ∀ g ∈ cons, Wf g ∧ g.n = n) (q : Nat) (hq : 1 ≤ q) :
    ∀ pr ∈ qFold n cons q, ∃ comb : List SigQ, comb ≠ [] ∧ comb.length ≤ q ∧ (∀ g ∈ comb, g ∈ cons) ∧
      eval χ pr.terms = (comb.map fun g => eval χ g.terms).prod := by
  intro pr hpr
  obtain ⟨g, gs, hlen, hmem, rfl⟩ := lg_mem_qFold n cons q hq pr hpr
  refine ⟨g :: gs, by simp, hlen, hmem, ?_⟩
  obtain ⟨_, _, h3⟩ := lg_foldl_mulQ n χ hχ gs
    (fun x hx => hc x (hmem x (List.mem_cons_of_mem _ hx))) g (hc g (hmem g (by simp))).1
    (hc g (hmem g (by simp))).2
  rw [h3, List.map_cons, List.prod_cons]

/-- well-formedness of the multiplier id lists: one list of ids per folded constraint, each as long as alpha_hat -/
def IdsOk (lg : Lagrangian) (sIds zIds : List (List Nat)) : Prop :=
  sIds.length = lg.gts.length ∧ zIds.length = lg.eqs.length ∧
  (∀ ids ∈ sIds ++ zIds, ids.length = lg.alphaHat.length)

/-- `hierarchy_e_k` returns distinct rows on the grid, of the right width -/
theorem hierarchyEk_wf (n : Nat) (alphas : List (List Exp)) (hw : ∀ a ∈ alphas, ∀ r ∈ a, r.length = n ∧ OnGrid r) (k : Nat) :
    (hierarchyEk n alphas k).Nodup ∧ ∀ r ∈ hierarchyEk n alphas k, r.length = n ∧ OnGrid r :=
  lg_hierarchyEk_wf n alphas hw k

/-- the multiplier with coefficient ids `ids` evaluates to `Σ_k σ(ids_k)·χ(alpha_hat_k)` -/
theorem varSig_eval (n : Nat) (alphaHat : List Exp) (hnd : alphaHat.Nodup) (hgrid : ∀ r ∈ alphaHat, OnGrid r ∧ r.length = n)
    (ids : List Nat) (hl : ids.length = alphaHat.length) (χ : Exp → Rat) (σ : Nat → Rat) :
    evalσ χ σ (varSig n alphaHat ids) = (List.zipWith (fun id a => σ id * χ a) ids alphaHat).sum :=
  lg_varSig_eval n alphaHat hnd (fun r hr => (hgrid r hr).1) ids hl χ σ

/-- the rows `make_sig_lagrangian` feeds to `hierarchy_e_k` have the right width and are on the grid -/
theorem alphaHat_rows (f : SigQ) (gts eqs : List SigQ)
    (hg : ∀ g ∈ gts ++ eqs, Wf g ∧ g.n = f.n) (L0 : SigL) (hL0 : Wf L0 ∧ L0.n = f.n) :
    ∀ a ∈ [keys L0.terms] ++ gts.map (fun g => keys g.terms) ++ eqs.map (fun g => keys g.terms),
      ∀ r ∈ a, r.length = f.n ∧ OnGrid r := by
  have hk : ∀ (C : Type) (h : SigT C), Wf h ∧ h.n = f.n → ∀ r ∈ keys h.terms, r.length = f.n ∧ OnGrid r := by
    intro C h hh r hr
    obtain ⟨t, ht, rfl⟩ := List.mem_map.1 hr
    exact ⟨by rw [hh.1.width t ht, hh.2], hh.1.grid t ht⟩
  intro a ha
  simp only [List.mem_append, List.mem_singleton, List.mem_map] at ha
  rcases ha with (rfl | ⟨g, hgm, rfl⟩) | ⟨g, hgm, rfl⟩
  · exact hk _ L0 hL0
  · exact hk _ g (hg g (List.mem_append_left _ hgm))
  · exact hk _ g (hg g (List.mem_append_right _ hgm))

/-- THE LAGRANGIAN IDENTITY: for all f, gts, eqs, p, q and EVERY assignment σ of γ and of the multiplier
    coefficients, as functions (against every grid character χ, e.g. evaluation at a point):
      L = f − γ − Σ_{(s,g)} s·g − Σ_{(z,h)} z·h
    over exactly the folded constraints the builder returns -/
theorem lagrangian_identity (f : SigQ) (hf : Wf f) (gts eqs : List SigQ)
    (hg : ∀ g ∈ gts ++ eqs, Wf g ∧ g.n = f.n) (p q : Nat) (hq : 1 ≤ q) (gammaId : Nat) (sIds zIds : List (List Nat))
    (χ : Exp → Rat) (hχ : IsGridChar f.n χ) (σ : Nat → Rat) :
    let lg := makeLagrangian f gts eqs p q gammaId sIds zIds
    IdsOk lg sIds zIds →
    evalσ χ σ lg.L =
      eval χ f.terms - σ gammaId
        - ((lg.gts.zip sIds).map fun pr => evalσ χ σ (varSig f.n lg.alphaHat pr.2) * eval χ pr.1.terms).sum
        - ((lg.eqs.zip zIds).map fun pr => evalσ χ σ (varSig f.n lg.alphaHat pr.2) * eval χ pr.1.terms).sum := by
  intro lg _
  obtain ⟨hL0w, hL0n, hL0e⟩ := lg_L0 f hf χ hχ σ gammaId
  have hrows := (hierarchyEk_wf f.n _ (alphaHat_rows f gts eqs hg _ ⟨hL0w, hL0n⟩) p).2
  have hfg := lg_qFold_wf f.n gts (fun g h => hg g (List.mem_append_left _ h)) q hq
  have hfe := lg_qFold_wf f.n eqs (fun g h => hg g (List.mem_append_right _ h)) q hq
  have hsum := lg_sum_identity f.n χ σ _ ⟨hL0w, hL0n⟩
    (fun pr : SigQ × List Nat =>
      okOr (mul Lin.isZero (embed (neg isZeroQ pr.1)) (varSig f.n lg.alphaHat pr.2)) (embed pr.1))
    (fun pr => evalσ χ σ (varSig f.n lg.alphaHat pr.2) * eval χ pr.1.terms)
    (lg.gts.zip sIds) (lg.eqs.zip zIds)
    (fun pr hpr => by
      obtain ⟨h1, h2⟩ := hfg pr.1 (List.of_mem_zip hpr).1
      obtain ⟨a, b, c⟩ := lg_summand f.n χ hχ σ pr.1 h1 h2 lg.alphaHat (fun r hr => (hrows r hr).1) pr.2
      exact ⟨⟨a, b⟩, c⟩)
    (fun pr hpr => by
      obtain ⟨h1, h2⟩ := hfe pr.1 (List.of_mem_zip hpr).1
      obtain ⟨a, b, c⟩ := lg_summand f.n χ hχ σ pr.1 h1 h2 lg.alphaHat (fun r hr => (hrows r hr).1) pr.2
      exact ⟨⟨a, b⟩, c⟩)
  rw [hL0e] at hsum
  exact hsum

/-- the `okOr` fallbacks of `makeLagrangian` are never taken: neither `f − γ` nor any product `−g · s_g`
    over the folded constraints raises (all operands have `f.n` variables) -/
theorem lagrangian_no_fallback (f : SigQ) (gts eqs : List SigQ)
    (hg : ∀ g ∈ gts ++ eqs, Wf g ∧ g.n = f.n) (p q : Nat) (hq : 1 ≤ q) (gammaId : Nat) (sIds zIds : List (List Nat)) :
    let lg := makeLagrangian f gts eqs p q gammaId sIds zIds
    (∃ L0, add Lin.isZero (embed f) (const f.n (Lin.scale (-1) (Lin.var gammaId))) = .ok L0) ∧
    ∀ g ∈ lg.gts ++ lg.eqs, ∀ ids : List Nat,
      ∃ h, mul Lin.isZero (embed (neg isZeroQ g)) (varSig f.n lg.alphaHat ids) = .ok h := by
  intro lg
  refine ⟨⟨_, lg_add_ok f _⟩, ?_⟩
  intro g hgm ids
  have hfg := lg_qFold_wf f.n gts (fun g h => hg g (List.mem_append_left _ h)) q hq
  have hfe := lg_qFold_wf f.n eqs (fun g h => hg g (List.mem_append_right _ h)) q hq
  have hgn : g.n = f.n := by
    rcases List.mem_append.1 hgm with h | h
    · exact (hfg g h).2
    · exact (hfe g h).2
  exact ⟨_, lg_mul_ok f.n g hgn _ ids⟩

/-- the Lagrangian is never poisoned: every coefficient product formed has a constant (numeric) factor,
    i.e. the code's `ScalarExpression.__mul__` never rejects -/
theorem lagrangian_clean (f : SigQ) (gts eqs : List SigQ)
    (hg : ∀ g ∈ gts ++ eqs, Wf g ∧ g.n = f.n) (p q : Nat) (hq : 1 ≤ q) (gammaId : Nat) (sIds zIds : List (List Nat)) :
    Clean (makeLagrangian f gts eqs p q gammaId sIds zIds).L := by
  have hfg := lg_qFold_wf f.n gts (fun g h => hg g (List.mem_append_left _ h)) q hq
  have hfe := lg_qFold_wf f.n eqs (fun g h => hg g (List.mem_append_right _ h)) q hq
  unfold makeLagrangian
  apply lg_cleanT_sumList
  intro x hx
  simp only [List.mem_append, List.mem_singleton, List.mem_map] at hx
  rcases hx with (rfl | ⟨pr, hpr, rfl⟩) | ⟨pr, hpr, rfl⟩
  · exact lg_L0_clean f gammaId
  · exact lg_summand_clean f.n pr.1 (hfg pr.1 (List.of_mem_zip hpr).1).2 _ pr.2
  · exact lg_summand_clean f.n pr.1 (hfe pr.1 (List.of_mem_zip hpr).1).2 _ pr.2

/-! ### non-vacuity: `f = e^{2x} + 1`, one inequality `g = 3 − e^{x} ≥ 0`, `p = 0`, `q = 2`
(concrete values are checked by `decide` on the executable model; core `Rat` operations and the
well-founded `Lin.merge` are irreducible, hence `with_unfolding_all`; `combsWithRep` is compiled by
well-founded recursion on a lexicographic measure, which does not reduce in the kernel, so `qFold` is
first rewritten to its structurally recursive form `lg_qFoldS` by the theorem `lg_qFold_eq`) -/
section NonVacuity

@[instance_reducible] private def decEqSig {C : Type} [DecidableEq C] : DecidableEq (SigT C) := fun a b =>
  match a, b with
  | ⟨n1, t1⟩, ⟨n2, t2⟩ =>
    if h : n1 = n2 ∧ t1 = t2 then isTrue (by rw [h.1, h.2])
    else isFalse (fun e => h (by cases e; exact ⟨rfl, rfl⟩))

attribute [local instance] decEqSig

/-- `e^{2x} + 1` -/
private def fEx : SigQ := ⟨1, [([2], 1), ([0], 1)]⟩
/-- `3 − e^{x}` -/
private def gEx : SigQ := ⟨1, [([0], 3), ([1], -1)]⟩
/-- `g² = 9 − 6e^{x} + e^{2x}` -/
private def g2Ex : SigQ := ⟨1, [([0], 9), ([1], -6), ([2], 1)]⟩
/-- γ has id 0; the multipliers of `g` and `g²` have the single coefficients `x₁`, `x₂` -/
private def lgEx : Lagrangian := makeLagrangian fEx [gEx] [] 0 2 0 [[1], [2]] []

private theorem grid_of {ts : List (Exp × Rat)} (h : ∀ t ∈ ts, ∀ q ∈ t.1, round7 q = q) :
    ∀ t ∈ ts, OnGrid t.1 := h

private theorem fEx_wf : Wf fEx := ⟨by decide, grid_of (by with_unfolding_all decide), by decide⟩
private theorem gEx_wf : Wf gEx := ⟨by decide, grid_of (by with_unfolding_all decide), by decide⟩

-- the folded list has two members: `g` and `g²`
private theorem qFoldEx : qFold 1 [gEx] 2 = [gEx, g2Ex] := by
  rw [lg_qFold_eq]
  with_unfolding_all decide

private theorem qFoldEx' : qFold fEx.n [gEx] 2 = [gEx, g2Ex] := qFoldEx

example : combsWithRep 2 [1, 2, 3] = [[1, 1], [1, 2], [1, 3], [2, 2], [2, 3], [3, 3]] := by
  rw [lg_combs_eq]
  decide
example : ∀ comb ∈ combsWithRep 2 [1, 2, 3], comb.length = 2 ∧ ∀ g ∈ comb, g ∈ [1, 2, 3] :=
  combsWithRep_spec 2 [1, 2, 3]

-- a product that cancels to a single term is filtered out; repeated constraints are identified
example : qFold 1 [⟨1, [([1], 1)]⟩, ⟨1, [([1], 1), ([0], 1)]⟩] 2 =
    [⟨1, [([1], 1), ([0], 1)]⟩, ⟨1, [([2], 1), ([1], 1)]⟩, ⟨1, [([0], 1), ([1], 2), ([2], 1)]⟩] := by
  rw [lg_qFold_eq]
  with_unfolding_all decide
example : qFold 1 [gEx, gEx] 2 = [gEx, g2Ex] := by
  rw [lg_qFold_eq]
  with_unfolding_all decide

-- `g²` is the product of two members of the input list, against the non-trivial character `pow2Char`
example : ∃ comb : List SigQ, comb ≠ [] ∧ comb.length ≤ 2 ∧ (∀ g ∈ comb, g ∈ [gEx]) ∧
    eval pow2Char g2Ex.terms = (comb.map fun g => eval pow2Char g.terms).prod :=
  qfold_sound 1 pow2Char (pow2Char_isGridChar 1) [gEx]
    (by intro g hg; rw [List.mem_singleton] at hg; rw [hg]; exact ⟨gEx_wf, rfl⟩) 2 (by decide) g2Ex
    (by rw [qFoldEx]; simp)

-- `hierarchy_e_k`: p = 0 gives the single zero row; p = 1 the distinct rows of f − γ and g
example : hierarchyEk 1 [[[2], [0]], [[0], [1]]] 0 = [[0]] := by with_unfolding_all decide
example : hierarchyEk 1 [[[2], [0]], [[0], [1]]] 1 = [[0], [1], [2]] := by with_unfolding_all decide
example : hierarchyEk 1 [[[2], [0]], [[0], [1]]] 2 = [[0], [1], [2], [3], [4]] := by with_unfolding_all decide

-- the Lagrangian  L = (1 − x₂)·e^{2x} + (1 − γ − 3x₁ − 9x₂) + (x₁ + 6x₂)·e^{x}
private theorem lgEx_L : lgEx.L = ⟨1, [([2], ⟨1, [(2, -1)], false⟩), ([0], ⟨1, [(0, -1), (1, -3), (2, -9)], false⟩),
    ([1], ⟨0, [(1, 1), (2, 6)], false⟩)]⟩ := by
  unfold lgEx makeLagrangian
  simp only [qFoldEx', lg_qFold_eq fEx.n []]
  with_unfolding_all decide
private theorem lgEx_alphaHat : lgEx.alphaHat = [[0]] := by with_unfolding_all decide
private theorem lgEx_gts : lgEx.gts = [gEx, g2Ex] := qFoldEx
private theorem lgEx_eqs : lgEx.eqs = [] := by
  show qFold 1 [] 2 = []
  rw [lg_qFold_eq]
  decide

private theorem idsOkEx : IdsOk lgEx [[1], [2]] [] := by
  unfold IdsOk
  rw [lgEx_gts, lgEx_eqs, lgEx_alphaHat]
  decide

example : Clean lgEx.L := by
  rw [lgEx_L]
  unfold Clean
  decide
example : Clean lgEx.L :=
  lagrangian_clean fEx [gEx] []
    (by intro g hg; simp only [List.append_nil, List.mem_singleton] at hg; rw [hg]; exact ⟨gEx_wf, rfl⟩)
    0 2 (by decide) 0 [[1], [2]] []

-- the identity for this instance, for every assignment σ, against the non-trivial character `pow2Char`
example (σ : Nat → Rat) :
    evalσ pow2Char σ lgEx.L =
      eval pow2Char fEx.terms - σ 0
        - ((lgEx.gts.zip [[1], [2]]).map fun pr =>
            evalσ pow2Char σ (varSig 1 lgEx.alphaHat pr.2) * eval pow2Char pr.1.terms).sum
        - ((lgEx.eqs.zip ([] : List (List Nat))).map fun pr =>
            evalσ pow2Char σ (varSig 1 lgEx.alphaHat pr.2) * eval pow2Char pr.1.terms).sum :=
  lagrangian_identity fEx fEx_wf [gEx] []
    (by intro g hg; simp only [List.append_nil, List.mem_singleton] at hg; rw [hg]; exact ⟨gEx_wf, rfl⟩)
    0 2 (by decide) 0 [[1], [2]] [] pow2Char (pow2Char_isGridChar 1) σ idsOkEx

-- the multiplier of `g` is the constant `x₁` (alpha_hat is the zero row)
example (σ : Nat → Rat) : evalσ pow2Char σ (varSig 1 [[0]] [1]) = σ 1 := by
  rw [varSig_eval 1 [[0]] (by simp) (by
    intro r hr
    rw [List.mem_singleton] at hr
    rw [hr]
    exact ⟨onGrid_zeroExp 1, rfl⟩) [1] rfl]
  simp [pow2Char]

end NonVacuity

end Sageopt.Props.C04
