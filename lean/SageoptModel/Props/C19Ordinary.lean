/-
C19, part F — the AUTOMATIC COVERS OF AN ORDINARY SAGE CONSTRAINT, as the executable cover helper computes them, are lossless.
For X = ℝⁿ and without the optimisation-based presolve, `defaultEch` (the model of `ExpCoverHelper.__init__`, compared with the real
class on every run) ends with the cover `ordFinal alpha N_I i` for every possibly-negative index `i`: the sign cover, simplified by
`_simplify_age_cone` where its guard holds (nonnegative exponents, a zero row), emptied if a single index is left
(`defaultEch_covers_ordinary`).  For exponent rows that are pairwise distinct and of one length, an AGE certificate over the sign cover
exists exactly when one over `ordFinal` does (`ordFinal_lossless`), and with the sign reduction of part D / E: whatever is certified with
FULL covers is certified with the automatic covers (`model_ordinary_covers_lossless`) — the clause "with the automatic covers replaced
by full covers" of the property, at the level of the model.
-/
import SageoptModel.Props.C19SignModel
import SageoptModel.Props.C19Cover
import SageoptModel.Lemmas.CoverOrdList

namespace Sageopt.Props.C19
open Sageopt.Analysis Sageopt.Sage
open scoped BigOperators

set_option linter.unusedVariables false

/-- the guard of the sign-pattern simplification and the row it takes for the zero row, as `defaultEch` computes them -/
def simpGuard (alpha : List (List Rat)) : Bool :=
  let rowSums := alpha.map fun r => r.foldl (· + ·) 0
  (alpha.all fun r => r.all fun q => 0 ≤ q) &&
    ((rowSums.foldl (fun acc q => if q < acc then q else acc) (rowSums.headD 0)) == 0) && !rowSums.isEmpty

def simpZeroLoc (alpha : List (List Rat)) : Nat :=
  (((alpha.map fun r => r.foldl (· + ·) 0).findIdx? (· == 0))).getD 0

/-- the cover an ordinary `defaultEch` ends with for the index `i` (no optimisation-based presolve) -/
def ordFinal (alpha : List (List Rat)) (Nl : List Nat) (i : Nat) : List Bool :=
  let c0 := signCover alpha.length Nl i
  let c1 := if simpGuard alpha then (if i == simpZeroLoc alpha then c0 else simplifyCover alpha (simpZeroLoc alpha) i c0) else c0
  if countTrueB c1 == 1 then c1.map fun _ => false else c1

/-- WHAT THE EXECUTABLE COVER HELPER RETURNS for an ordinary constraint -/
theorem defaultEch_covers_ordinary (alpha : List (List Rat)) (sg : List CSign) (s : Settings) (hp : s.presolveTrivial = false) :
    let e := defaultEch alpha (some sg) false s []
    e.covers = e.U.map fun i => (i, ordFinal alpha e.N i) := by
  unfold defaultEch
  simp only [hp, Bool.not_false, Bool.true_or, Bool.true_and, Bool.false_eq_true, if_false]
  by_cases hg : simpGuard alpha = true
  · have hg' := hg
    unfold simpGuard at hg'
    simp only [hg', if_true, List.map_map]
    apply List.map_congr_left
    intro i _
    simp only [Function.comp, ordFinal, hg, if_true, simpZeroLoc, signCover]
    split_ifs <;> simp_all
  · have hg' : simpGuard alpha = false := by simpa using hg
    have hg'' := hg'
    unfold simpGuard at hg''
    simp only [hg'', Bool.false_eq_true, if_false, List.map_map]
    apply List.map_congr_left
    intro i _
    simp only [Function.comp, ordFinal, hg', Bool.false_eq_true, if_false, signCover]
    split_ifs <;> simp_all

/-! ### the guard produces a zero row -/

private theorem guard_facts (alpha : List (List Rat)) (h : simpGuard alpha = true) :
    (∀ r ∈ alpha, ∀ q ∈ r, 0 ≤ q) ∧ simpZeroLoc alpha < alpha.length ∧ (∀ q ∈ alpha.getD (simpZeroLoc alpha) [], q = 0) := by
  unfold simpGuard at h
  simp only [Bool.and_eq_true, Bool.not_eq_true', List.all_eq_true, decide_eq_true_eq, beq_iff_eq] at h
  obtain ⟨⟨hnn, hmin⟩, hne⟩ := h
  refine ⟨hnn, ?_⟩
  set rs := alpha.map fun r => r.foldl (· + ·) 0 with hrs
  have hne' : rs ≠ [] := by
    intro h0; rw [h0] at hne; simp at hne
  have hhead : rs.headD 0 ∈ rs := by
    cases hr : rs with
    | nil => exact absurd hr hne'
    | cons x xs => simp
  have h0mem : (0 : Rat) ∈ rs := by
    rcases co_foldl_min_mem rs (rs.headD 0) with h1 | h1
    · rw [h1] at hmin; rw [← hmin]; exact hhead
    · rw [hmin] at h1; exact h1
  obtain ⟨k, hk1, hk2, hk3⟩ := co_findIdx rs h0mem
  have hz : simpZeroLoc alpha = k := by
    unfold simpZeroLoc; rw [← hrs, hk1]; rfl
  have hklen : k < alpha.length := by simpa [hrs] using hk2
  rw [hz]
  refine ⟨hklen, ?_⟩
  have hrow : (alpha.getD k []).foldl (· + ·) 0 = 0 := by
    have : rs.getD k 1 = (alpha.getD k []).foldl (· + ·) 0 := by
      simp [hrs, List.getD_eq_getElem?_getD, hklen]
    rw [← this]; exact hk3
  have hrowmem : alpha.getD k [] ∈ alpha := by
    simp [List.getD_eq_getElem?_getD, hklen]
  exact co_sum_zero_all_zero _ (hnn _ hrowmem) hrow

/-! ### a cover with exactly one index -/

private theorem coverSet_single (m : Nat) (cov : List Bool) (hlen : cov.length = m) (h : countTrueB cov = 1) :
    ∃ j : Fin m, coverSet m cov = {j} := by
  obtain ⟨j, hj1, hj2, hj3⟩ := co_single cov h
  refine ⟨⟨j, by omega⟩, ?_⟩
  ext l
  simp only [coverSet, Finset.mem_filter, Finset.mem_univ, true_and, Finset.mem_singleton]
  constructor
  · intro hl; exact Fin.ext (hj3 l.val hl)
  · intro hl; rw [hl]; exact hj2

private theorem coverSet_allFalse (m : Nat) (cov : List Bool) : coverSet m (cov.map fun _ => false) = ∅ := by
  ext l
  simp only [coverSet, Finset.mem_filter, Finset.mem_univ, true_and, Finset.notMem_empty, iff_false]
  have : (cov.map fun _ => false).getD l.val false = false := by
    simp only [List.getD_eq_getElem?_getD, List.getElem?_map]
    cases cov[l.val]? <;> rfl
  rw [this]; decide

/-- distinct rows of one length are distinct exponent vectors -/
private theorem alphaR_ne (alpha : List (List Rat)) (n : Nat) (hw : ∀ r ∈ alpha, r.length = n) (hnd : alpha.Nodup)
    (i j : Fin alpha.length) (hij : j ≠ i) : alphaR alpha n j ≠ alphaR alpha n i := by
  intro heq
  have hri : alpha.getD i.val [] = alpha[i.val] := by simp [List.getD_eq_getElem?_getD]
  have hrj : alpha.getD j.val [] = alpha[j.val] := by simp [List.getD_eq_getElem?_getD]
  have hli : (alpha[i.val]).length = n := hw _ (List.getElem_mem _)
  have hlj : (alpha[j.val]).length = n := hw _ (List.getElem_mem _)
  have hrows : alpha[j.val] = alpha[i.val] := by
    apply List.ext_getElem (by rw [hli, hlj])
    intro k hk1 hk2
    have hq := congrFun heq ⟨k, by omega⟩
    unfold alphaR at hq
    simp only [hri, hrj, List.getD_eq_getElem?_getD] at hq
    have e1 : (alpha[j.val])[k]? = some (alpha[j.val])[k] := List.getElem?_eq_getElem hk1
    have e2 : (alpha[i.val])[k]? = some (alpha[i.val])[k] := List.getElem?_eq_getElem hk2
    rw [e1, e2] at hq
    simp only [Option.getD_some] at hq
    exact_mod_cast hq
  have := (List.Nodup.getElem_inj_iff hnd).mp hrows
  exact hij (Fin.ext this)

/-- THE AUTOMATIC COVER IS LOSSLESS for one cone: exponent rows pairwise distinct and of one length; for every coefficient vector that
    is nonnegative on the sign cover, an AGE certificate over the sign cover exists exactly when one over the final cover does -/
theorem ordFinal_lossless (alpha : List (List Rat)) (n : Nat) (hw : ∀ r ∈ alpha, r.length = n) (hnd : alpha.Nodup)
    (Nl : List Nat) (i : Fin alpha.length) (c : Fin alpha.length → ℝ)
    (hpos : ∀ j ∈ coverSet alpha.length (signCover alpha.length Nl i.val), 0 ≤ c j) :
    OrdAgeCert (alphaR alpha n) i (coverSet alpha.length (signCover alpha.length Nl i.val)) c ↔
      OrdAgeCert (alphaR alpha n) i (coverSet alpha.length (ordFinal alpha Nl i.val)) c := by
  set c0 := signCover alpha.length Nl i.val with hc0
  have hlen0 : c0.length = alpha.length := by simp [hc0, signCover]
  -- step A: the sign-pattern simplification
  set c1 := (if simpGuard alpha then (if i.val == simpZeroLoc alpha then c0 else simplifyCover alpha (simpZeroLoc alpha) i.val c0) else c0)
    with hc1
  have hlen1 : c1.length = alpha.length := by
    rw [hc1]; split_ifs <;> simp [hlen0, simplifyCover]
  have hsub : ∀ j, c1.getD j false = true → c0.getD j false = true := by
    intro j hj
    rw [hc1] at hj
    split_ifs at hj
    · exact hj
    · rw [simplifyCover_getD] at hj
      simp only [Bool.and_eq_true] at hj
      exact hj.1
    · exact hj
  have hA : OrdAgeCert (alphaR alpha n) i (coverSet alpha.length c0) c ↔ OrdAgeCert (alphaR alpha n) i (coverSet alpha.length c1) c := by
    rw [hc1]
    by_cases hg : simpGuard alpha = true
    · simp only [hg, if_true]
      by_cases hiz : (i.val == simpZeroLoc alpha) = true
      · simp only [hiz, if_true]
      · simp only [hiz, Bool.false_eq_true, if_false]
        obtain ⟨hnn, hzl, hz⟩ := guard_facts alpha hg
        exact simplifyCover_lossless alpha n hw hnn hnd (simpZeroLoc alpha) hzl hz i c0 hlen0 c hpos
    · simp only [hg, Bool.false_eq_true, if_false]
  -- step B: a single index left
  have hB : OrdAgeCert (alphaR alpha n) i (coverSet alpha.length c1) c ↔
      OrdAgeCert (alphaR alpha n) i (coverSet alpha.length (if countTrueB c1 == 1 then c1.map fun _ => false else c1)) c := by
    by_cases h1 : countTrueB c1 = 1
    · have hb : (countTrueB c1 == 1) = true := by simp [h1]
      simp only [hb, if_true]
      obtain ⟨j, hj⟩ := coverSet_single alpha.length c1 hlen1 h1
      rw [hj, coverSet_allFalse]
      have hjmem : j ∈ coverSet alpha.length c1 := by rw [hj]; exact Finset.mem_singleton_self j
      have hj1 : c1.getD j.val false = true := by
        simpa [coverSet] using hjmem
      have hj0 : j ∈ coverSet alpha.length c0 := by
        simp only [coverSet, Finset.mem_filter, Finset.mem_univ, true_and]
        exact hsub j.val hj1
      have hji : j ≠ i := by
        intro e
        have h0 : c0.getD j.val false = true := hsub j.val hj1
        rw [hc0, e, signCover_getD] at h0
        simp at h0
      constructor
      · intro hcert
        have := single_cover_trivial (alphaR alpha n) i j (alphaR_ne alpha n hw hnd i j hji) c hcert
        exact empty_cover_le (alphaR alpha n) i ∅ c this.1 (by simp)
      · intro hcert
        obtain ⟨_, _, _, hlin, _⟩ := hcert
        have hci : 0 ≤ c i := by simpa using hlin
        exact empty_cover_le (alphaR alpha n) i {j} c hci
          (by intro l hl; rw [Finset.mem_singleton] at hl; subst hl; exact hpos l hj0)
    · have hb : (countTrueB c1 == 1) = false := by simp [h1]
      simp only [hb, Bool.false_eq_true, if_false]
  have hfin : ordFinal alpha Nl i.val = (if countTrueB c1 == 1 then c1.map fun _ => false else c1) := by
    simp only [ordFinal, hc1, hc0]
  rw [hfin]
  exact hA.trans hB

/-- WHATEVER IS CERTIFIED WITH FULL COVERS IS CERTIFIED WITH THE AUTOMATIC COVERS of the executable cover helper (ordinary constraint,
    no optimisation-based presolve): exponent rows pairwise distinct and of one length, sign information right about the definitely
    negative coefficients -/
theorem model_ordinary_covers_lossless (alpha : List (List Rat)) (n : Nat) (hw : ∀ r ∈ alpha, r.length = n) (hnd : alpha.Nodup)
    (sg : List CSign) (c : Fin alpha.length → ℝ)
    (hneg : ∀ l : Fin alpha.length, sg.getD l.val .zero = .neg → c l < 0)
    (h : ∃ w : Fin alpha.length → Fin alpha.length → ℝ,
      (∀ k, OrdAgeCert (alphaR alpha n) k (Finset.univ.erase k) (w k)) ∧ ∀ l, c l = ∑ k, w k l) :
    ∃ ŵ : Fin alpha.length → Fin alpha.length → ℝ,
      (∀ i, c i < 0 → OrdAgeCert (alphaR alpha n) i
        (coverSet alpha.length (ordFinal alpha ((List.range alpha.length).filter (fun j => sg.getD j .zero == .neg)) i.val)) (ŵ i)) ∧
      (∀ l, ∑ i ∈ Finset.univ.filter (fun i => c i < 0), ŵ i l ≤ c l) := by
  obtain ⟨ŵ, h1, h2⟩ := model_sign_covers_lossless alpha n sg c hneg h
  refine ⟨ŵ, ?_, h2⟩
  intro i hi
  have hcert := h1 i hi
  refine (ordFinal_lossless alpha n hw hnd _ i (ŵ i) ?_).mp hcert
  intro j hj
  obtain ⟨ν, epi, hrows, _, _⟩ := hcert
  have hy := expcone_y_nonneg _ _ _ (hrows j hj)
  exact (mul_nonneg_iff_of_pos_left (Real.exp_pos 1)).mp hy

/-- … AND CONVERSELY: AGE vectors certified over the automatic covers (nonnegative on the sign cover and zero outside it, as the compiled
    AGE vectors are) are a decomposition with full covers; so the automatic covers certify exactly what full covers certify -/
theorem model_ordinary_covers_sound (alpha : List (List Rat)) (n : Nat) (hw : ∀ r ∈ alpha, r.length = n) (hnd : alpha.Nodup)
    (Nl : List Nat) (c : Fin alpha.length → ℝ) (ŵ : Fin alpha.length → Fin alpha.length → ℝ)
    (hŵ : ∀ i, c i < 0 → OrdAgeCert (alphaR alpha n) i (coverSet alpha.length (ordFinal alpha Nl i.val)) (ŵ i))
    (hpos : ∀ i, c i < 0 → ∀ j ∈ coverSet alpha.length (signCover alpha.length Nl i.val), 0 ≤ ŵ i j)
    (hzero : ∀ i l, c i < 0 → l ≠ i → l ∉ coverSet alpha.length (signCover alpha.length Nl i.val) → ŵ i l = 0) :
    ∃ w : Fin alpha.length → Fin alpha.length → ℝ,
      (∀ k, OrdAgeCert (alphaR alpha n) k (Finset.univ.erase k) (w k)) ∧
      (∀ l, ∑ k, w k l = ∑ i ∈ Finset.univ.filter (fun i => c i < 0), ŵ i l) := by
  refine ⟨fun k => if c k < 0 then ŵ k else (fun _ => 0), ?_, ?_⟩
  · intro k
    by_cases hk : c k < 0
    · simp only [hk, if_true]
      have h1 := (ordFinal_lossless alpha n hw hnd Nl k (ŵ k) (hpos k hk)).mpr (hŵ k hk)
      apply Sageopt.Props.C06.ordAge_cover_mono (alphaR alpha n) k _ (Finset.univ.erase k) _ _ _ h1
      · intro l hl
        refine Finset.mem_erase.mpr ⟨?_, Finset.mem_univ l⟩
        intro e
        rw [e] at hl
        have h0 : (signCover alpha.length Nl k.val).getD k.val false = true := by
          simpa [coverSet] using hl
        rw [signCover_getD] at h0
        simp at h0
      · intro l hl hlS
        rw [hzero k l hk (Finset.ne_of_mem_erase hl) hlS]
    · simp only [hk, if_false]
      exact ⟨fun _ => 0, fun _ => 0, fun j _ => Or.inr ⟨rfl, by simp, by simp⟩, by simp, by simp⟩
  · intro l
    rw [Finset.sum_filter]
    apply Finset.sum_congr rfl
    intro k _
    by_cases hk : c k < 0 <;> simp [hk]

/-! ### non-vacuity: exponents (0,0), (2,0), (0,2), (1,0): the guard holds, the cone of index 3 loses the index 2 -/

example : simpGuard [[0, 0], [2, 0], [0, 2], [1, 0]] = true ∧ simpZeroLoc [[0, 0], [2, 0], [0, 2], [1, 0]] = 0 := by decide +kernel

example : ordFinal [[0, 0], [2, 0], [0, 2], [1, 0]] [3] 3 = [true, true, false, false] := by decide +kernel

example : (defaultEch [[0, 0], [2, 0], [0, 2], [1, 0]] (some [.pos, .pos, .pos, .neg]) false {} []).covers
    = [(3, [true, true, false, false])] := by decide +kernel

end Sageopt.Props.C19
