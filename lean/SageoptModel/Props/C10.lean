/-
C10 — solver standard forms describe the same optimisation problem.
Property theorems about `Model/Solvers.lean`.
-/
import SageoptModel.Model.Solvers

namespace Sageopt.Props.C10
open Sageopt Sageopt.Solvers

/-- dualisation maps the cone list to the dual cones, type by type -/
theorem dualize_cones (n : Nat) (c : Vec Rat) (A : Mat Rat) (b : Vec Rat) (K : List Cone) :
    (dualize n c A b K).Kd = K.map dualCone := rfl

end Sageopt.Props.C10
