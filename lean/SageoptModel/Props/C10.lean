/-
C10 — solver standard forms describe the same optimisation problem.
Property theorems about `Model/Solvers.lean` (helper lemmas are in `Lemmas/Solvers*.lean`).
-/
import SageoptModel.Lemmas.SolversEcos
import SageoptModel.Lemmas.SolversDual
import SageoptModel.Lemmas.SolversSep
import SageoptModel.Lemmas.SolversMosekP
import SageoptModel.Lemmas.SolversMosekD
import SageoptModel.Lemmas.RealCones
import SageoptModel.Lemmas.SolversDemo

namespace Sageopt.Props.C10
open Sageopt Sageopt.Solvers

/-- dualisation maps the cone list to the dual cones, type by type -/
theorem dualize_cones (n : Nat) (c : Vec Rat) (A : Mat Rat) (b : Vec Rat) (K : List Cone) :
    (dualize n c A b K).Kd = K.map dualCone := rfl

set_option linter.unusedSectionVars false
set_option linter.unusedVariables false

variable {R : Type} [CommRing R] [LinearOrder R] [IsStrictOrderedRing R]

/-- T1 (the property's first sentence, ECOS part): for EVERY cone sequence over {0,+,S,e} — including
    adjacent cones of equal type — the ECOS data describe exactly the coniclifts feasible set
    (and the objective vector is passed through unchanged). -/
theorem ecos_equiv (S : ConeSem R) (n : Nat) (c : Vec R) (A : Mat R) (b : Vec R) (K : List Cone)
    (d : EcosData R) (x : Vec R) (hwf : WFSys n A b K) (hx : x.length = n)
    (hd : ecosApply c A b K = some d) :
    d.c = c ∧ (FeasBlocks S.P K (slack A b x) ↔ FeasECOS S.P d x) := by
  unfold ecosApply at hd
  split at hd
  · rename_i hall
    simp only [Option.some.injEq] at hd
    subst hd
    refine ⟨rfl, ?_⟩
    have hsl : (slack A b x).length = totalLen K := by
      rw [length_slack, hwf.rows, hwf.rhs]; simp [totalLen]
    rw [ecos_feas_iff S c A b K x hwf.rows hwf.rhs hwf.exp3, feasBlocks_four S K _ hall hsl]
  · simp at hd

/-- ECOS.apply raises exactly on cone sequences with a type outside {0,+,S,e} -/
theorem ecos_rejects_iff (c : Vec R) (A : Mat R) (b : Vec R) (K : List Cone) :
    ecosApply c A b K = none ↔ ∃ co ∈ K, co.type ∉ [CType.zero, .pos, .soc, .exp] := by
  unfold ecosApply
  split
  · rename_i hall
    simp only [reduceCtorEq, false_iff, not_exists, not_and, not_not]
    intro co hco
    have := List.all_eq_true.mp hall co hco
    revert this
    cases co.type <;> simp [ecosAllowed]
  · rename_i hall
    simp only [true_iff]
    rw [List.all_eq_true] at hall
    push Not at hall
    obtain ⟨co, hco, hna⟩ := hall
    refine ⟨co, hco, ?_⟩
    revert hna
    cases co.type <;> simp [ecosAllowed]

/-- T3: dualisation.  f = -b, G = Aᵀ, h = c, Kd = dual cones; weak duality for every pair of
    feasible points, given the pairing inequality of each cone with its dual (proved for the concrete
    cones over ℝ in `exp_pairing`, `soc_pairing`). -/
theorem weak_duality (S Sd : ConeSem R) (n : Nat) (c : Vec R) (A : Mat R) (b : Vec R) (K : List Cone)
    (x y : Vec R) (hwf : WFSys n A b K) (hx : x.length = n) (hc : c.length = n)
    (pair : ∀ co ∈ K, ∀ s y : List R, s.length = co.len → y.length = co.len →
        S.P co.type s → Sd.P (dualCone co).type y → 0 ≤ dot s y)
    (hp : FeasBlocks S.P K (slack A b x))
    (hy : y.length = A.length)
    (hd : FeasBlocks Sd.P (dualize n c A b K).Kd y)
    (hG : mulVec (dualize n c A b K).G y = (dualize n c A b K).h) :
    dot (dualize n c A b K).f y ≤ dot c x := by
  simp only [dualize] at hd hG ⊢
  have := weak_duality_core S Sd n A b K x y hwf pair hp hy hd
  rw [hG] at this
  rw [dot_neg_left]
  linarith

/-- zero gap ⇒ both optimal -/
theorem zero_gap_optimal (S Sd : ConeSem R) (n : Nat) (c : Vec R) (A : Mat R) (b : Vec R) (K : List Cone)
    (x y : Vec R) (hwf : WFSys n A b K) (hx : x.length = n) (hc : c.length = n)
    (pair : ∀ co ∈ K, ∀ s y : List R, s.length = co.len → y.length = co.len →
        S.P co.type s → Sd.P (dualCone co).type y → 0 ≤ dot s y)
    (hp : FeasBlocks S.P K (slack A b x)) (hy : y.length = A.length)
    (hd : FeasBlocks Sd.P (dualize n c A b K).Kd y)
    (hG : mulVec (dualize n c A b K).G y = (dualize n c A b K).h)
    (hgap : dot (dualize n c A b K).f y = dot c x) :
    (∀ x' : Vec R, x'.length = n → FeasBlocks S.P K (slack A b x') → dot c x ≤ dot c x') ∧
    (∀ y' : Vec R, y'.length = A.length → FeasBlocks Sd.P (dualize n c A b K).Kd y' →
        mulVec (dualize n c A b K).G y' = (dualize n c A b K).h →
        dot (dualize n c A b K).f y' ≤ dot (dualize n c A b K).f y) := by
  constructor
  · intro x' hx' hp'
    rw [← hgap]
    exact weak_duality S Sd n c A b K x' y hwf hx' hc pair hp' hy hd hG
  · intro y' hy' hd' hG'
    rw [hgap]
    exact weak_duality S Sd n c A b K x y' hwf hx hc pair hp hy' hd' hG'

/-- T2: slack separation preserves the projection onto the original columns, for every dont_sep;
    the `col mapping` annotations point at exactly the slack columns, and only allowed cone types
    remain in the affine part. -/
theorem separate_equiv (S : ConeSem R) (n : Nat) (A : Mat R) (b : Vec R) (K : List Cone)
    (dontSep : CType → Bool) (x : Vec R) (hwf : WFSys n A b K) (hx : x.length = n) :
    let r := separate n A b K dontSep
    (∀ co ∈ r.K, co.type = .zero ∨ dontSep co.type = true) ∧
    (FeasBlocks S.P K (slack A b x) ↔
      ∃ y : Vec R, y.length = (r.slacks.map (·.len)).sum ∧
        FeasBlocks S.P r.K (slack r.A r.b (x ++ y)) ∧
        ∀ sc ∈ r.slacks, S.P sc.type (sc.cols.map fun k => (x ++ y).getD k 0)) := by
  intro r
  have hsl : (slack A b x).length = totalLen K := by
    rw [length_slack, hwf.rows, hwf.rhs]; simp [totalLen]
  have hA : A.length = totalLen K := hwf.rows
  constructor
  · intro co hco
    rcases sepPlan_K_types (sepAllowed dontSep) n K 0 co hco with h | h
    · exact Or.inl h
    · simp only [sepAllowed, Bool.or_eq_true, beq_iff_eq] at h
      exact h
  · simp only [r, separate_K, separate_slacks, separate_b, separate_A n A b K dontSep hA]
    constructor
    · intro hp
      refine ⟨sepSel (sepAllowed dontSep) K (slack A b x),
        sepSel_length (sepAllowed dontSep) n K 0 _ hsl, ?_⟩
      rw [slack_sep n _ A b _ x _ hwf.width hx (sepSel_length (sepAllowed dontSep) n K 0 _ hsl)]
      have := sepEq_sepSel (sepAllowed dontSep) K 0 (slack A b x) [] rfl hsl
      exact (sep_iff S (sepAllowed dontSep) n x _ hx K 0 _ hsl).mpr ⟨hp, this⟩
    · rintro ⟨y, hy, hfb, hsc⟩
      rw [slack_sep n _ A b _ x y hwf.width hx hy] at hfb
      exact ((sep_iff S (sepAllowed dontSep) n x y hx K 0 _ hsl).mp ⟨hfb, hsc⟩).1

/-- T4: MOSEK primal form.  `PM` = MOSEK's cones; hypotheses relate them to the coniclifts cones
    (quad = S in the same order; pexp (x1,x2,x3) = coniclifts e at (x3,x1,x2)). -/
theorem mosek_primal_equiv (S : ConeSem R) (PM : MosekConeKind → List R → Prop)
    (hquad : ∀ v, PM .quad v ↔ S.P .soc v)
    (hpexp : ∀ x1 x2 x3, PM .pexp [x1, x2, x3] ↔ S.P .exp [x3, x1, x2])
    (n : Nat) (c : Vec R) (A : Mat R) (b : Vec R) (K : List Cone) (x : Vec R)
    (hwf : WFSys n A b K) (hx : x.length = n) (hc : c.length = n)
    (hK : ∀ co ∈ K, co.type ∈ [CType.zero, .pos, .soc, .exp])
    (t : MosekTask R) (ht : mosekPrimalTask (mosekPrimalApply n c A b K) = some t) :
    (FeasBlocks S.P K (slack A b x) ↔ ∃ y : Vec R, TaskFeas PM t (x ++ y)) ∧
    (∀ y : Vec R, (x ++ y).length = t.nvars → dot t.obj (x ++ y) = dot c x) ∧ t.maximize = false := by
  refine ⟨?_, ?_, ?_⟩
  · rw [(separate_equiv S n A b K (fun t => t == .zero || t == .pos) x hwf hx).2]
    constructor
    · rintro ⟨y, hy, hfb, hsc⟩
      refine ⟨y, (mosek_primal_task_feas S PM hquad hpexp n c A b K hwf hc t ht (x ++ y)).mpr
        ⟨by rw [List.length_append, hx, hy], hfb, hsc⟩⟩
    · rintro ⟨y, hy⟩
      obtain ⟨hl, hfb, hsc⟩ :=
        (mosek_primal_task_feas S PM hquad hpexp n c A b K hwf hc t ht (x ++ y)).mp hy
      refine ⟨y, ?_, hfb, hsc⟩
      rw [List.length_append, hx] at hl
      omega
  · intro y _
    rw [mosekPrimalTask_eq] at ht
    obtain ⟨cones, hm, rfl⟩ := Option.map_eq_some_iff.mp ht
    show dot (c ++ List.replicate _ 0) (x ++ y) = dot c x
    rw [dot_append _ _ _ _ (by rw [hc, hx]), dot_replicate_zero, add_zero]
  · rw [mosekPrimalTask_eq] at ht
    obtain ⟨cones, hm, rfl⟩ := Option.map_eq_some_iff.mp ht
    rfl

/-- T5: MOSEK dual form: the task's feasible points are exactly the regrouped (+, S, de, fr) dual
    feasible points of `dualize`, with the same objective.
    `regroup` lists the blocks of y by type in the order +, S, e(→de), 0(→fr). -/
def regroup (K : List Cone) (y : Vec R) : Vec R :=
  selectBy (selector K .pos) y ++ selectBy (selector K .soc) y ++ selectBy (selector K .exp) y
    ++ selectBy (selector K .zero) y

theorem mosek_dual_equiv (Sd : ConeSem R) (PM : MosekConeKind → List R → Prop)
    (hquad : ∀ v, PM .quad v ↔ Sd.P .soc v)
    (hdexp : ∀ s1 s2 s3, PM .dexp [s1, s2, s3] ↔ Sd.P .dexp [s3, s1, s2])
    (n : Nat) (c : Vec R) (A : Mat R) (b : Vec R) (K : List Cone) (y : Vec R)
    (hwf : WFSys n A b K) (hc : c.length = n) (hy : y.length = A.length)
    (hK : ∀ co ∈ K, co.type ∈ [CType.zero, .pos, .soc, .exp]) :
    let D := dualize n c A b K
    let t := mosekDualTask (mosekDualApply n c A b K)
    ((FeasBlocks Sd.P D.Kd y ∧ mulVec D.G y = D.h) ↔ TaskFeas PM t (regroup K y)) ∧
    dot t.obj (regroup K y) = dot D.f y ∧ t.maximize = true := by
  intro D t
  have hOK : DualOK K := ⟨hK, hwf.exp3⟩
  have hr : regroup K y = regroupBy K y := rfl
  refine ⟨?_, ?_, ?_⟩
  · rw [hr]
    exact (mosek_dual_task_feas Sd PM hquad hdexp n c A b K y hwf hc hy hOK).symm
  · have ht : t.obj = regroupBy K (negVec b) := by
      simp only [t, mosekDualTask_eq]
      exact mosekDualApply_f n c A b K hOK
    rw [ht, hr]
    exact dot_regroup K hK (negVec b) y (by simp [negVec, hwf.rhs]; rfl) (by rw [hy, hwf.rows]; rfl)
  · rfl

/-! ### the concrete cones over ℝ: weak duality without a pairing hypothesis -/

/-- weak duality for the actual cones over ℝ (second-order cone, exponential cone and its dual),
    for every cone sequence over {0,+,S,e}: no pairing hypothesis. -/
theorem weak_duality_real (n : Nat) (c : Vec ℝ) (A : Mat ℝ) (b : Vec ℝ) (K : List Cone)
    (x y : Vec ℝ) (hwf : WFSys n A b K) (hx : x.length = n) (hc : c.length = n)
    (hK : ∀ co ∈ K, co.type ∈ [CType.zero, .pos, .soc, .exp])
    (hp : FeasBlocks primalSemR.P K (slack A b x))
    (hy : y.length = A.length)
    (hd : FeasBlocks dualSemR.P (dualize n c A b K).Kd y)
    (hG : mulVec (dualize n c A b K).G y = (dualize n c A b K).h) :
    dot (dualize n c A b K).f y ≤ dot c x :=
  weak_duality primalSemR dualSemR n c A b K x y hwf hx hc
    (fun co hco s y _ _ hs hy => real_pairing co (hK co hco) s y hs hy) hp hy hd hG

/-- zero gap ⇒ both optimal, for the actual cones over ℝ -/
theorem zero_gap_optimal_real (n : Nat) (c : Vec ℝ) (A : Mat ℝ) (b : Vec ℝ) (K : List Cone)
    (x y : Vec ℝ) (hwf : WFSys n A b K) (hx : x.length = n) (hc : c.length = n)
    (hK : ∀ co ∈ K, co.type ∈ [CType.zero, .pos, .soc, .exp])
    (hp : FeasBlocks primalSemR.P K (slack A b x)) (hy : y.length = A.length)
    (hd : FeasBlocks dualSemR.P (dualize n c A b K).Kd y)
    (hG : mulVec (dualize n c A b K).G y = (dualize n c A b K).h)
    (hgap : dot (dualize n c A b K).f y = dot c x) :
    (∀ x' : Vec ℝ, x'.length = n → FeasBlocks primalSemR.P K (slack A b x') → dot c x ≤ dot c x') ∧
    (∀ y' : Vec ℝ, y'.length = A.length → FeasBlocks dualSemR.P (dualize n c A b K).Kd y' →
        mulVec (dualize n c A b K).G y' = (dualize n c A b K).h →
        dot (dualize n c A b K).f y' ≤ dot (dualize n c A b K).f y) :=
  zero_gap_optimal primalSemR dualSemR n c A b K x y hwf hx hc
    (fun co hco s y _ _ hs hy => real_pairing co (hK co hco) s y hs hy) hp hy hd hG hgap

/-! ### non-vacuity: the hypotheses of every theorem hold on concrete non-trivial systems
(systems 1, 2 over ℚ and system 3 over ℝ are defined in `Lemmas/SolversDemo.lean`) -/

section NonVacuity
open Sageopt.Solvers.Demo

/-! ECOS -/

example : ecosApply c1 A1 b1 K1 = some d1 := rfl

example (S : ConeSem ℚ) (x : Vec ℚ) (hx : x.length = 2) :
    FeasBlocks S.P K1 (slack A1 b1 x) ↔ FeasECOS S.P d1 x :=
  (ecos_equiv S 2 c1 A1 b1 K1 d1 x wf1 hx rfl).2

example : ∃ d, ecosApply c2 A2 b2 K2 = some d ∧ d.l = 1 ∧ d.q = [2, 2] ∧ d.e = 1 ∧
    d.h = [3, 2, 0, 2, 0, 0, 1, 0] ∧ d.b = [-0] :=
  ⟨_, rfl, rfl, rfl, rfl, rfl, rfl⟩

example (S : ConeSem ℚ) (x : Vec ℚ) (hx : x.length = 2) :
    ∃ d, FeasBlocks S.P K2 (slack A2 b2 x) ↔ FeasECOS S.P d x :=
  ⟨_, (ecos_equiv S 2 c2 A2 b2 K2 _ x wf2 hx rfl).2⟩

example : ecosApply c1 A1 b1 [⟨.soc, 2⟩, ⟨.pow, 3⟩] = none :=
  (ecos_rejects_iff c1 A1 b1 _).mpr ⟨⟨.pow, 3⟩, by simp, by simp⟩

/-! separate_cone_constraints -/

example : (separate 2 A2 b2 K2 (fun t => t == .pos)).slacks =
    [⟨.exp, 3, [2, 3, 4]⟩, ⟨.soc, 2, [5, 6]⟩, ⟨.soc, 2, [7, 8]⟩] := rfl

example (S : ConeSem ℚ) (x : Vec ℚ) (hx : x.length = 2) :=
  separate_equiv S 2 A2 b2 K2 (fun t => t == .pos) x wf2 hx

/-! dualisation: a primal/dual optimal pair with zero gap for system 1 -/

example : dot (dualize 2 c1 A1 b1 K1).f y1 ≤ dot c1 x1 :=
  weak_duality demoSem demoSem 2 c1 A1 b1 K1 x1 y1 wf1 rfl rfl pair1 primal_feas1 rfl
    dual_feas1 dual_eq1

/-- `x1 = (-1, -1)` is optimal for system 1 -/
example : ∀ x' : Vec ℚ, x'.length = 2 → FeasBlocks demoSem.P K1 (slack A1 b1 x') →
    dot c1 x1 ≤ dot c1 x' :=
  (zero_gap_optimal demoSem demoSem 2 c1 A1 b1 K1 x1 y1 wf1 rfl rfl pair1 primal_feas1 rfl
    dual_feas1 dual_eq1 gap1).1

/-! MOSEK, primal form -/

example : ∃ t, mosekPrimalTask (mosekPrimalApply 2 c2 A2 b2 K2) = some t ∧ t.nvars = 9 ∧
    t.cones = [(.pexp, [3, 4, 2]), (.quad, [5, 6]), (.quad, [7, 8])] :=
  ⟨_, rfl, rfl, rfl⟩

example (S : ConeSem ℚ) (x : Vec ℚ) (hx : x.length = 2) :
    ∃ t, (FeasBlocks S.P K2 (slack A2 b2 x) ↔ ∃ y : Vec ℚ, TaskFeas (pmOf S.P) t (x ++ y)) :=
  ⟨_, (mosek_primal_equiv S (pmOf S.P) (fun _ => Iff.rfl) (fun _ _ _ => Iff.rfl) 2 c2 A2 b2 K2 x
    wf2 hx rfl (by decide) _ rfl).1⟩

/-! MOSEK, dual form -/

example : regroup K2 ([10, 11, 12, 20, 21, 30, 40, 41, 50] : Vec ℚ)
    = [50, 20, 21, 40, 41, 10, 11, 12, 30] := rfl

example : (mosekDualTask (mosekDualApply 2 c2 A2 b2 K2)).cones
    = [(.quad, [1, 2]), (.quad, [3, 4]), (.dexp, [6, 7, 5])] := rfl

example (Sd : ConeSem ℚ) (y : Vec ℚ) (hy : y.length = 9) :=
  mosek_dual_equiv Sd (pmOf Sd.P) (fun _ => Iff.rfl) (fun _ _ _ => Iff.rfl) 2 c2 A2 b2 K2 y
    wf2 rfl hy (by decide)

/-- the optimal multiplier of system 1 is feasible for the MOSEK dual task -/
example : TaskFeas (pmOf demoSem.P) (mosekDualTask (mosekDualApply 2 c1 A1 b1 K1)) (regroup K1 y1) :=
  (mosek_dual_equiv demoSem (pmOf demoSem.P) (fun _ => Iff.rfl) (fun _ _ _ => Iff.rfl) 2 c1 A1 b1
    K1 y1 wf1 rfl rfl (by decide)).1.mp ⟨dual_feas1, dual_eq1⟩

/-! the real cones: `min -x s.t. (x, 1, 1) ∈ K_exp` (i.e. `exp x ≤ 1`), optimal at `x = 0` with the
    dual certificate `(-1, 1, -1) ∈ K_exp*` -/

/-- `x = 0` minimises `-x` subject to `exp x ≤ 1` -/
example : ∀ x' : Vec ℝ, x'.length = 1 → FeasBlocks primalSemR.P K3 (slack A3 b3 x') →
    dot c3 x3 ≤ dot c3 x' :=
  (zero_gap_optimal_real 1 c3 A3 b3 K3 x3 y3 wf3 rfl rfl (by decide) primal_feas3 rfl
    dual_feas3 dual_eq3 (by simp [dualize, negVec, dot, b3, y3, c3, x3])).1

example : dot (dualize 1 c3 A3 b3 K3).f y3 ≤ dot c3 x3 :=
  weak_duality_real 1 c3 A3 b3 K3 x3 y3 wf3 rfl rfl (by decide) primal_feas3 rfl dual_feas3 dual_eq3

end NonVacuity

end Sageopt.Props.C10
