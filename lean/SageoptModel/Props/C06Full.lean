/-
C06, part D — COMPLETENESS of the ordinary AGE certificate on all of ℝⁿ, without any attainment hypothesis:
a signomial with nonnegative coefficients on the cover (at most one negative term, at index `i`) that is nonnegative on ℝⁿ has
the relative-entropy certificate `PrimalSageCone._ordsage_conic_form` compiles (`ordAge_complete`); with soundness (C01):
the AGE cone IS the set of nonnegative one-negative-term signomials (`ordAge_exact`) — the mechanism the property anchors
("AGE cone = nonnegative signomials with one negative term").
Proof (no convex-duality library is needed): over the box `[-R, R]ⁿ` the normalised function has a minimiser, whose first-order
conditions give `ν^R_j = c_j e^{(α_j−α_i)·x_R}` with  Σ_j ν_j log(ν_j / (e c_j)) + R · ‖Σ_j ν_j (α_j − α_i)‖₁ ≤ c_i  and
`0 ≤ ν^R_j ≤ g(0) − c_i` (`box_entropy_cert`); the relative entropy is bounded below, so the balance defect is `O(1/R)`;
a convergent subsequence of `ν^R` (R = 0, 1, 2, …) has a limit with zero defect and the same entropy bound (continuity of
`t ↦ t log t`), which is a certificate (`ordAge_of_entropy`).
-/
import SageoptModel.Props.C06Complete
import Mathlib.Analysis.SpecialFunctions.Log.NegMulLog
import Mathlib.Topology.Sequences
import Mathlib.Analysis.SpecificLimits.Basic

namespace Sageopt.Props.C06
open Sageopt.Analysis
open scoped BigOperators
open Filter Topology

set_option linter.unusedVariables false

variable {ι : Type} {N : ℕ}

/-- the relative-entropy term `ν log(ν / (e c))` (zero at `ν = 0`) -/
noncomputable def ent (ν c : ℝ) : ℝ := ν * Real.log (ν / (Real.exp 1 * c))

theorem ent_zero (c : ℝ) : ent 0 c = 0 := by simp [ent]

/-- `ν log(ν/(e c)) ≥ −c` -/
theorem ent_ge (ν c : ℝ) (hν : 0 ≤ ν) (hc : 0 ≤ c) (h0 : c = 0 → ν = 0) : -c ≤ ent ν c := by
  rcases hν.lt_or_eq with hpos | hzero
  · have hcpos : 0 < c := by
      rcases hc.lt_or_eq with h | h
      · exact h
      · exact absurd (h0 h.symm) hpos.ne'
    have := age_key c ν 0 hcpos hpos
    simp only [mul_zero, Real.exp_zero, mul_one, zero_sub] at this
    unfold ent; linarith
  · rw [← hzero, ent_zero]; linarith

theorem ent_continuous (c : ℝ) (hc : 0 < c) : Continuous (fun ν => ent ν c) := by
  have h : (fun ν => ent ν c) = fun ν => ν * Real.log ν - ν * Real.log (Real.exp 1 * c) := by
    funext ν
    unfold ent
    by_cases hν : ν = 0
    · subst hν; simp
    · rw [Real.log_div hν (by positivity)]; ring
  rw [h]
  exact Real.continuous_mul_log.sub (continuous_id.mul continuous_const)

/-- the entropy term of the explicit multiplier `ν = c e^u` -/
theorem ent_explicit (c u : ℝ) (hc : 0 ≤ c) : ent (c * Real.exp u) c = c * Real.exp u * (u - 1) := by
  rcases hc.lt_or_eq with hpos | hzero
  · unfold ent
    have : c * Real.exp u / (Real.exp 1 * c) = Real.exp (u - 1) := by
      rw [Real.exp_sub]; field_simp
    rw [this, Real.log_exp]
  · subst hzero; simp [ent]

/-- a certificate in entropy form is a certificate -/
theorem ordAge_of_entropy (α : ι → Fin N → ℝ) (i : ι) (S : Finset ι) (c ν : ι → ℝ)
    (hν : ∀ j ∈ S, 0 ≤ ν j) (hc : ∀ j ∈ S, 0 ≤ c j) (h0 : ∀ j ∈ S, c j = 0 → ν j = 0)
    (hbal : ∀ l : Fin N, ∑ j ∈ S, ν j * (α j l - α i l) = 0)
    (hent : ∑ j ∈ S, ent (ν j) (c j) ≤ c i) : OrdAgeCert α i S c := by
  refine ⟨ν, fun j => ent (ν j) (c j), ?_, by linarith, hbal⟩
  intro j hj
  rcases (hν j hj).lt_or_eq with hpos | hzero
  · have hcpos : 0 < c j := by
      rcases (hc j hj).lt_or_eq with h | h
      · exact h
      · exact absurd (h0 j hj h.symm) hpos.ne'
    left
    refine ⟨hpos, ?_⟩
    unfold ent
    have h1 : -(ν j * Real.log (ν j / (Real.exp 1 * c j))) / ν j = -Real.log (ν j / (Real.exp 1 * c j)) := by
      field_simp
    rw [h1, Real.exp_neg, Real.exp_log (by positivity)]
    have : ν j * (ν j / (Real.exp 1 * c j))⁻¹ = Real.exp 1 * c j := by
      field_simp
    rw [this]
  · right
    refine ⟨hzero.symm, ?_, ?_⟩
    · show -(ent (ν j) (c j)) ≤ 0
      rw [← hzero, ent_zero]; simp
    · exact mul_nonneg (Real.exp_pos 1).le (hc j hj)

private theorem sum_update' (d xs : Fin N → ℝ) (l : Fin N) (v : ℝ) :
    ∑ l', d l' * (Function.update xs l v l' - xs l') = d l * (v - xs l) := by
  rw [Finset.sum_eq_single l]
  · simp
  · intro l' _ hne; simp [Function.update_of_ne hne]
  · intro h; exact absurd (Finset.mem_univ l) h

/-- THE BOX STEP: for every `R ≥ 0` there are multipliers, bounded independently of `R`, whose relative entropy plus `R` times the
    ℓ¹ balance defect is at most `c_i` -/
theorem box_entropy_cert [DecidableEq ι] (α : ι → Fin N → ℝ) (i : ι) (S : Finset ι) (c : ι → ℝ) (hc : ∀ j ∈ S, 0 ≤ c j)
    (hnn : ∀ x, 0 ≤ gfun α i S c x) (R : ℝ) (hR : 0 ≤ R) :
    ∃ ν : ι → ℝ, (∀ j ∈ S, 0 ≤ ν j ∧ ν j ≤ gfun α i S c 0 - c i) ∧ (∀ j, j ∉ S → ν j = 0) ∧
      (∀ j ∈ S, c j = 0 → ν j = 0) ∧
      ∑ j ∈ S, ent (ν j) (c j) + R * ∑ l, |∑ j ∈ S, ν j * (α j l - α i l)| ≤ c i := by
  set lo : Fin N → ℝ := fun _ => -R with hlo_def
  set hi : Fin N → ℝ := fun _ => R with hhi_def
  have hcomp : IsCompact (Set.Icc lo hi) := isCompact_Icc
  have hbox : ∀ x : Fin N → ℝ, x ∈ Set.Icc lo hi ↔ ∀ l, -R ≤ x l ∧ x l ≤ R := by
    intro x; rw [Set.mem_Icc, Pi.le_def, Pi.le_def]
    exact ⟨fun h l => ⟨h.1 l, h.2 l⟩, fun h => ⟨fun l => (h l).1, fun l => (h l).2⟩⟩
  have h0mem : (0 : Fin N → ℝ) ∈ Set.Icc lo hi := by
    rw [hbox]; intro l; simp only [Pi.zero_apply]; constructor <;> linarith
  have hcont : Continuous (gfun α i S c) := by unfold gfun dotp; fun_prop
  obtain ⟨xs, hxs, hmin⟩ := hcomp.exists_isMinOn ⟨0, h0mem⟩ hcont.continuousOn
  have hxs' := (hbox xs).mp hxs
  have hfo := first_order α i S c (Set.Icc lo hi) xs
    (by
      intro x hx t ht0 ht1
      have hx' := (hbox x).mp hx
      rw [hbox]; intro l
      have a1 := (hxs' l).1; have a2 := (hxs' l).2; have b1 := (hx' l).1; have b2 := (hx' l).2
      constructor <;> nlinarith)
    (fun x hx => hmin hx)
  set u : ι → ℝ := fun j => dotp (α j) xs - dotp (α i) xs with hu
  set d : Fin N → ℝ := fun l => ∑ j ∈ S, c j * Real.exp (u j) * (α j l - α i l) with hd
  have hlo : ∀ l, 0 ≤ d l * (-R - xs l) := by
    intro l
    have hmem : Function.update xs l (-R) ∈ Set.Icc lo hi := by
      rw [hbox]; intro l'
      by_cases h : l' = l
      · subst h; simp; linarith
      · rw [Function.update_of_ne h]; exact hxs' l'
    have h1 := hfo _ hmem
    rw [sum_update' d xs l (-R)] at h1; exact h1
  have hhi : ∀ l, 0 ≤ d l * (R - xs l) := by
    intro l
    have hmem : Function.update xs l R ∈ Set.Icc lo hi := by
      rw [hbox]; intro l'
      by_cases h : l' = l
      · subst h; simp; linarith
      · rw [Function.update_of_ne h]; exact hxs' l'
    have h1 := hfo _ hmem
    rw [sum_update' d xs l R] at h1; exact h1
  have hdx : ∀ l, d l * xs l ≤ -(R * |d l|) := by
    intro l
    rcases le_total 0 (d l) with h | h
    · rw [abs_of_nonneg h]; have := hlo l; nlinarith
    · rw [abs_of_nonpos h]; have := hhi l; nlinarith
  have hgsum : ∑ j ∈ S, c j * Real.exp (u j) = gfun α i S c xs - c i := by
    unfold gfun; ring
  refine ⟨fun j => if j ∈ S then c j * Real.exp (u j) else 0, ?_, ?_, ?_, ?_⟩
  · intro j hj
    simp only [hj, if_true]
    refine ⟨mul_nonneg (hc j hj) (Real.exp_pos _).le, ?_⟩
    have h1 : c j * Real.exp (u j) ≤ ∑ j' ∈ S, c j' * Real.exp (u j') :=
      Finset.single_le_sum (f := fun j' => c j' * Real.exp (u j'))
        (fun j' hj' => mul_nonneg (hc j' hj') (Real.exp_pos _).le) hj
    have h2 : gfun α i S c xs ≤ gfun α i S c 0 := hmin h0mem
    linarith
  · intro j hj; simp [hj]
  · intro j hj hcj; simp [hj, hcj]
  · have e1 : ∑ j ∈ S, ent (if j ∈ S then c j * Real.exp (u j) else 0) (c j)
        = ∑ j ∈ S, c j * Real.exp (u j) * (u j - 1) := by
      apply Finset.sum_congr rfl; intro j hj
      simp only [hj, if_true]; exact ent_explicit (c j) (u j) (hc j hj)
    have e2 : ∀ l, ∑ j ∈ S, (if j ∈ S then c j * Real.exp (u j) else 0) * (α j l - α i l) = d l := by
      intro l; apply Finset.sum_congr rfl; intro j hj; simp only [hj, if_true]
    rw [e1]
    simp_rw [e2]
    have e3 : ∑ j ∈ S, c j * Real.exp (u j) * (u j - 1) = (∑ l, d l * xs l) - (gfun α i S c xs - c i) :=
      explicit_epi_sum α i S c xs
    rw [e3]
    have hsum : ∑ l, d l * xs l ≤ -(R * ∑ l, |d l|) := by
      rw [Finset.mul_sum, ← Finset.sum_neg_distrib]
      exact Finset.sum_le_sum (fun l _ => hdx l)
    have hg := hnn xs
    linarith

/-- COMPLETENESS on ℝⁿ: nonnegative coefficients on the cover and `f ≥ 0` everywhere give the ordinary AGE certificate -/
theorem ordAge_complete [Fintype ι] [DecidableEq ι] (α : ι → Fin N → ℝ) (i : ι) (S : Finset ι) (c : ι → ℝ)
    (hc : ∀ j ∈ S, 0 ≤ c j)
    (hnn : ∀ x, 0 ≤ c i * Real.exp (dotp (α i) x) + ∑ j ∈ S, c j * Real.exp (dotp (α j) x)) :
    OrdAgeCert α i S c := by
  have hg : ∀ x, 0 ≤ gfun α i S c x := fun x => (ffun_nonneg_iff α i S c x).mp (hnn x)
  choose ν hν using fun m : ℕ => box_entropy_cert α i S c hc hg (m : ℝ) (Nat.cast_nonneg m)
  set B : ℝ := gfun α i S c 0 - c i with hB
  have hB0 : 0 ≤ B := by
    rw [hB]; unfold gfun
    have : 0 ≤ ∑ j ∈ S, c j * Real.exp (dotp (α j) 0 - dotp (α i) 0) :=
      Finset.sum_nonneg (fun j hj => mul_nonneg (hc j hj) (Real.exp_pos _).le)
    linarith
  have hK : IsCompact (Set.Icc (0 : ι → ℝ) (fun _ => B)) := isCompact_Icc
  have hmem : ∀ m, ν m ∈ Set.Icc (0 : ι → ℝ) (fun _ => B) := by
    intro m
    rw [Set.mem_Icc, Pi.le_def, Pi.le_def]
    constructor
    · intro j
      by_cases hj : j ∈ S
      · exact ((hν m).1 j hj).1
      · rw [(hν m).2.1 j hj]; simp
    · intro j
      by_cases hj : j ∈ S
      · exact ((hν m).1 j hj).2
      · rw [(hν m).2.1 j hj]; exact hB0
  obtain ⟨νs, _, φ, hφ, hlim⟩ := hK.tendsto_subseq hmem
  have hcoord : ∀ j, Tendsto (fun m => ν (φ m) j) atTop (𝓝 (νs j)) := fun j => (tendsto_pi_nhds.mp hlim) j
  -- the limit is nonnegative and vanishes where c does
  have hνs : ∀ j ∈ S, 0 ≤ νs j := fun j hj =>
    ge_of_tendsto' (hcoord j) (fun m => ((hν (φ m)).1 j hj).1)
  have h0s : ∀ j ∈ S, c j = 0 → νs j = 0 := by
    intro j hj hcj
    have hconst : (fun m => ν (φ m) j) = fun _ => (0 : ℝ) := by
      funext m; exact (hν (φ m)).2.2.1 j hj hcj
    have := hcoord j
    rw [hconst] at this
    exact tendsto_nhds_unique this tendsto_const_nhds
  -- entropy bound in the limit
  have hentm : ∀ m, ∑ j ∈ S, ent (ν m j) (c j) ≤ c i := by
    intro m
    have h := (hν m).2.2.2
    have : 0 ≤ (m : ℝ) * ∑ l, |∑ j ∈ S, ν m j * (α j l - α i l)| :=
      mul_nonneg (Nat.cast_nonneg m) (Finset.sum_nonneg (fun l _ => abs_nonneg _))
    linarith
  have hent_lim : Tendsto (fun m => ∑ j ∈ S, ent (ν (φ m) j) (c j)) atTop (𝓝 (∑ j ∈ S, ent (νs j) (c j))) := by
    apply tendsto_finsetSum; intro j hj
    rcases (hc j hj).lt_or_eq with hpos | hzero
    · exact ((ent_continuous (c j) hpos).tendsto (νs j)).comp (hcoord j)
    · have hconst : (fun m => ent (ν (φ m) j) (c j)) = fun _ => (0 : ℝ) := by
        funext m; rw [(hν (φ m)).2.2.1 j hj hzero.symm, ent_zero]
      rw [hconst, h0s j hj hzero.symm, ent_zero]
      exact tendsto_const_nhds
  have hent : ∑ j ∈ S, ent (νs j) (c j) ≤ c i := le_of_tendsto' hent_lim (fun m => hentm (φ m))
  -- the balance defect vanishes in the limit
  set C : ℝ := c i + ∑ j ∈ S, c j with hC
  have hdefm : ∀ (m : ℕ) (l : Fin N), (m : ℝ) * |∑ j ∈ S, ν m j * (α j l - α i l)| ≤ C := by
    intro m l
    have h := (hν m).2.2.2
    have hlow : -(∑ j ∈ S, c j) ≤ ∑ j ∈ S, ent (ν m j) (c j) := by
      rw [← Finset.sum_neg_distrib]
      exact Finset.sum_le_sum (fun j hj => ent_ge _ _ ((hν m).1 j hj).1 (hc j hj) ((hν m).2.2.1 j hj))
    have hsingle : |∑ j ∈ S, ν m j * (α j l - α i l)| ≤ ∑ l', |∑ j ∈ S, ν m j * (α j l' - α i l')| :=
      Finset.single_le_sum (f := fun l' => |∑ j ∈ S, ν m j * (α j l' - α i l')|) (fun _ _ => abs_nonneg _) (Finset.mem_univ l)
    have hm : (0 : ℝ) ≤ m := Nat.cast_nonneg m
    have := mul_le_mul_of_nonneg_left hsingle hm
    rw [hC]; linarith
  have hbal : ∀ l : Fin N, ∑ j ∈ S, νs j * (α j l - α i l) = 0 := by
    intro l
    have hdl : Tendsto (fun m => ∑ j ∈ S, ν (φ m) j * (α j l - α i l)) atTop (𝓝 (∑ j ∈ S, νs j * (α j l - α i l))) := by
      apply tendsto_finsetSum; intro j _
      exact (hcoord j).mul_const _
    have habs := hdl.abs
    have hφtop : Tendsto (fun m => ((φ m : ℕ) : ℝ)) atTop atTop :=
      tendsto_natCast_atTop_atTop.comp hφ.tendsto_atTop
    have hzero : Tendsto (fun m => C / ((φ m : ℕ) : ℝ)) atTop (𝓝 0) := hφtop.const_div_atTop C
    have hle : ∀ᶠ m in atTop, |∑ j ∈ S, ν (φ m) j * (α j l - α i l)| ≤ C / ((φ m : ℕ) : ℝ) := by
      filter_upwards [eventually_gt_atTop 0] with m hm
      have hpos : (0 : ℝ) < ((φ m : ℕ) : ℝ) := by
        have : 0 < φ m := lt_of_lt_of_le hm (hφ.id_le m)
        exact_mod_cast this
      rw [le_div_iff₀ hpos, mul_comm]
      exact hdefm (φ m) l
    have h0 : |∑ j ∈ S, νs j * (α j l - α i l)| ≤ 0 := le_of_tendsto_of_tendsto habs hzero hle
    exact abs_eq_zero.mp (le_antisymm h0 (abs_nonneg _))
  exact ordAge_of_entropy α i S c νs hνs hc h0s hbal hent

/-- THE AGE CONE IS THE CONE OF NONNEGATIVE ONE-NEGATIVE-TERM SIGNOMIALS: with nonnegative coefficients on the cover, the compiled
    relative-entropy certificate exists exactly when the signomial is nonnegative on ℝⁿ -/
theorem ordAge_exact [Fintype ι] [DecidableEq ι] (α : ι → Fin N → ℝ) (i : ι) (S : Finset ι) (hi : i ∉ S) (c : ι → ℝ)
    (hc : ∀ j ∈ S, 0 ≤ c j) :
    OrdAgeCert α i S c ↔ ∀ x, 0 ≤ c i * Real.exp (dotp (α i) x) + ∑ j ∈ S, c j * Real.exp (dotp (α j) x) :=
  ⟨fun h x => ordAge_sound α i S hi c h x, fun h => ordAge_complete α i S c hc h⟩

/-- consequence for the level-0 bound of a posynomial plus a constant on ℝⁿ (constant term at index `i`, `α_i = 0`): `f − γ` is
    certified exactly when `γ` is a lower bound of `f`; so the bound is `inf f`, attained or not -/
theorem ordAge_bound_exact [Fintype ι] [DecidableEq ι] (α : ι → Fin N → ℝ) (i : ι) (S : Finset ι) (hiS : i ∉ S)
    (hi0 : ∀ l, α i l = 0) (c : ι → ℝ) (hc : ∀ j ∈ S, 0 ≤ c j) (γ : ℝ) :
    OrdAgeCert α i S (fun j => if j = i then c i - γ else c j) ↔
      ∀ x : Fin N → ℝ, γ ≤ c i + ∑ j ∈ S, c j * Real.exp (dotp (α j) x) := by
  have hc' : ∀ j ∈ S, 0 ≤ (fun j => if j = i then c i - γ else c j) j := by
    intro j hj
    have : j ≠ i := fun h => hiS (h ▸ hj)
    simp only [this, if_false]; exact hc j hj
  rw [ordAge_exact α i S hiS _ hc']
  have hdot : ∀ x : Fin N → ℝ, dotp (α i) x = 0 := by
    intro x; unfold dotp; apply Finset.sum_eq_zero; intro l _; rw [hi0 l, zero_mul]
  have hsum : ∀ x : Fin N → ℝ, ∑ j ∈ S, (if j = i then c i - γ else c j) * Real.exp (dotp (α j) x)
      = ∑ j ∈ S, c j * Real.exp (dotp (α j) x) := by
    intro x; apply Finset.sum_congr rfl; intro j hj
    have : j ≠ i := fun h => hiS (h ▸ hj)
    simp only [this, if_false]
  constructor
  · intro h x
    have := h x
    rw [hdot, Real.exp_zero, hsum] at this
    simp only [if_true, mul_one] at this
    linarith
  · intro h x
    have := h x
    rw [hdot, Real.exp_zero, hsum]
    simp only [if_true, mul_one]
    linarith

/-- THE LEVEL-0 BOUND OF A POSYNOMIAL PLUS A CONSTANT IS ITS INFIMUM: the set of certified `γ` is exactly `(-∞, inf f]` -/
theorem ordAge_bound_eq_inf [Fintype ι] [DecidableEq ι] (α : ι → Fin N → ℝ) (i : ι) (S : Finset ι) (hiS : i ∉ S)
    (hi0 : ∀ l, α i l = 0) (c : ι → ℝ) (hc : ∀ j ∈ S, 0 ≤ c j) (γ : ℝ) :
    OrdAgeCert α i S (fun j => if j = i then c i - γ else c j) ↔
      γ ≤ ⨅ x : Fin N → ℝ, (c i + ∑ j ∈ S, c j * Real.exp (dotp (α j) x)) := by
  rw [ordAge_bound_exact α i S hiS hi0 c hc γ]
  have hbdd : BddBelow (Set.range fun x : Fin N → ℝ => c i + ∑ j ∈ S, c j * Real.exp (dotp (α j) x)) := by
    refine ⟨c i, ?_⟩
    rintro _ ⟨x, rfl⟩
    have : 0 ≤ ∑ j ∈ S, c j * Real.exp (dotp (α j) x) :=
      Finset.sum_nonneg (fun j hj => mul_nonneg (hc j hj) (Real.exp_pos _).le)
    simp only; linarith
  exact (le_ciInf_iff hbdd).symm

/-! ### non-vacuity: `eˣ` (infimum 0, NOT attained) plus a constant — the case the attainment hypothesis of part C excludes -/

example : OrdAgeCert (fun (j : Fin 2) (_ : Fin 1) => (j : ℝ)) 0 {1} (fun j => if j = 0 then 0 else 1) := by
  apply ordAge_complete
  · intro j hj
    rw [Finset.mem_singleton] at hj; subst hj; simp
  · intro x
    rw [Finset.sum_singleton]
    simp only [if_true]
    have : (if (1 : Fin 2) = 0 then (0 : ℝ) else 1) = 1 := by simp
    rw [this]
    have := Real.exp_pos (dotp (fun (_ : Fin 1) => (((1 : Fin 2) : ℕ) : ℝ)) x)
    linarith

end Sageopt.Props.C06
