/-
C06, part C — COMPLETENESS of the AGE certificate for one-negative-term signomials, where the property quantifies over it:
* on all of ℝⁿ whenever the normalised function `g = e^{−α_i·x} f` attains its minimum (`ordAge_complete_of_min`,
  `ordAge_iff_nonneg_of_attained`): the certificate is `ν_j = c_j e^{(α_j − α_i)·x*}`;
* on every compact BOX `{lo ≤ x ≤ hi}` (`box_complete`, `box_exact`): the conditional certificate of
  `PrimalSageCone._condsage_conic_form` over the conic form `A = [I; −I]`, `b = [−lo; hi]`, `K = ℝ₊^{2N}` exists exactly
  when the signomial is nonnegative on the box; hence the level-0 bound of a posynomial plus a constant over a box is its
  minimum (`box_bound_exact`).
The attainment hypothesis is REMOVED in part D (`Props/C06Full.lean`: `ordAge_complete`, `ordAge_exact`, by a limit over growing boxes);
what is still outside are convex domains other than boxes and ℝⁿ.
Helper lemmas: `Lemmas/AgeComplete.lean`.
-/
import SageoptModel.Lemmas.AgeComplete
import SageoptModel.Props.C06
import SageoptModel.Model.Domain

namespace Sageopt.Props.C06
open Sageopt.Analysis
open scoped BigOperators

set_option linter.unusedVariables false

variable {ι : Type} {N : ℕ}

/-! ### all of ℝⁿ, minimum attained -/

/-- the gradient of the normalised function at `xs` -/
private noncomputable def grad (α : ι → Fin N → ℝ) (i : ι) (S : Finset ι) (c : ι → ℝ) (xs : Fin N → ℝ) (l : Fin N) : ℝ :=
  ∑ j ∈ S, c j * Real.exp (dotp (α j) xs - dotp (α i) xs) * (α j l - α i l)

private theorem sum_update (d xs : Fin N → ℝ) (l : Fin N) (v : ℝ) :
    ∑ l', d l' * (Function.update xs l v l' - xs l') = d l * (v - xs l) := by
  rw [Finset.sum_eq_single l]
  · simp
  · intro l' _ hne; simp [Function.update_of_ne hne]
  · intro h; exact absurd (Finset.mem_univ l) h

/-- COMPLETENESS on ℝⁿ at an attained minimum: if the coefficients on the cover are nonnegative, the normalised function
    `g(x) = c_i + Σ_{j∈S} c_j e^{(α_j − α_i)·x}` attains its minimum at `xs` and is nonnegative there, then the ordinary
    AGE certificate exists -/
theorem ordAge_complete_of_min (α : ι → Fin N → ℝ) (i : ι) (S : Finset ι) (c : ι → ℝ)
    (hc : ∀ j ∈ S, 0 ≤ c j) (xs : Fin N → ℝ)
    (hmin : ∀ x, gfun α i S c xs ≤ gfun α i S c x) (hnn : 0 ≤ gfun α i S c xs) :
    OrdAgeCert α i S c := by
  have hfo := first_order α i S c Set.univ xs (fun _ _ _ _ _ => Set.mem_univ _) (fun x _ => hmin x)
  have hgrad : ∀ l, grad α i S c xs l = 0 := by
    intro l
    have h1 := hfo (Function.update xs l (xs l + 1)) (Set.mem_univ _)
    have h2 := hfo (Function.update xs l (xs l - 1)) (Set.mem_univ _)
    have e1 := sum_update (grad α i S c xs) xs l (xs l + 1)
    have e2 := sum_update (grad α i S c xs) xs l (xs l - 1)
    unfold grad at e1 e2 ⊢
    rw [e1] at h1; rw [e2] at h2
    linarith
  refine ⟨fun j => c j * Real.exp (dotp (α j) xs - dotp (α i) xs),
    fun j => c j * Real.exp (dotp (α j) xs - dotp (α i) xs) * ((dotp (α j) xs - dotp (α i) xs) - 1), ?_, ?_, ?_⟩
  · intro j hj
    exact explicit_row (c j) _ (hc j hj)
  · rw [explicit_epi_sum]
    have : ∑ l, (∑ j ∈ S, c j * Real.exp (dotp (α j) xs - dotp (α i) xs) * (α j l - α i l)) * xs l = 0 := by
      apply Finset.sum_eq_zero; intro l _
      have := hgrad l; unfold grad at this; rw [this, zero_mul]
    rw [this]; linarith
  · intro k
    have := hgrad k; unfold grad at this; exact this

/-- EXACTNESS on ℝⁿ when the minimum of the normalised function is attained: certified ⇔ nonnegative everywhere -/
theorem ordAge_iff_nonneg_of_attained (α : ι → Fin N → ℝ) (i : ι) (S : Finset ι) (hi : i ∉ S) (c : ι → ℝ)
    (hc : ∀ j ∈ S, 0 ≤ c j) (xs : Fin N → ℝ) (hmin : ∀ x, gfun α i S c xs ≤ gfun α i S c x) :
    OrdAgeCert α i S c ↔ ∀ x, 0 ≤ c i * Real.exp (dotp (α i) x) + ∑ j ∈ S, c j * Real.exp (dotp (α j) x) := by
  constructor
  · intro h x; exact ordAge_sound α i S hi c h x
  · intro h
    apply ordAge_complete_of_min α i S c hc xs hmin
    exact (ffun_nonneg_iff α i S c xs).mp (h xs)

/-! ### compact boxes -/

/-- the conditional AGE certificate, exactly the hypotheses of `cond_age_sound` (rows of `_condsage_conic_form`) -/
def CondAgeCert {r : ℕ} (α : ι → Fin N → ℝ) (i : ι) (S : Finset ι) (A : Fin r → Fin N → ℝ) (b : Fin r → ℝ)
    (Kset : Set (Fin r → ℝ)) (c : ι → ℝ) : Prop :=
  ∃ (ν epi : ι → ℝ) (η : Fin r → ℝ),
    (∀ s ∈ Kset, 0 ≤ ∑ k, η k * s k) ∧
    (∀ j ∈ S, InExpCone (-(epi j)) (Real.exp 1 * c j) (ν j)) ∧
    0 ≤ c i - (∑ k, η k * b k) - ∑ j ∈ S, epi j ∧
    ∀ l : Fin N, ∑ j ∈ S, ν j * (α j l - α i l) = ∑ k, A k l * η k

/-- soundness, restated on the predicate -/
theorem condAge_sound {r : ℕ} (α : ι → Fin N → ℝ) (i : ι) (S : Finset ι) (A : Fin r → Fin N → ℝ) (b : Fin r → ℝ)
    (Kset : Set (Fin r → ℝ)) (c : ι → ℝ) (h : CondAgeCert α i S A b Kset c)
    (x : Fin N → ℝ) (hx : (fun k => dotp (A k) x + b k) ∈ Kset) :
    0 ≤ c i * Real.exp (dotp (α i) x) + ∑ j ∈ S, c j * Real.exp (dotp (α j) x) := by
  obtain ⟨ν, epi, η, h1, h2, h3, h4⟩ := h
  exact cond_age_sound α i S A b Kset c ν epi η h1 h2 h3 h4 x hx

/-- the conic form of the box `lo ≤ x ≤ hi`: rows `x_l − lo_l ≥ 0` then `hi_l − x_l ≥ 0` -/
def boxA (N : ℕ) : Fin (N + N) → Fin N → ℝ := fun k l =>
  Fin.addCases (fun k' : Fin N => if k' = l then (1 : ℝ) else 0) (fun k' : Fin N => if k' = l then (-1 : ℝ) else 0) k

def boxb (lo hi : Fin N → ℝ) : Fin (N + N) → ℝ :=
  Fin.addCases (fun k' : Fin N => -lo k') (fun k' : Fin N => hi k')

/-- the nonnegative orthant -/
def orthant (r : ℕ) : Set (Fin r → ℝ) := {s | ∀ k, 0 ≤ s k}

private theorem dotp_boxA_left (x : Fin N → ℝ) (k : Fin N) : dotp (boxA N (Fin.castAdd N k)) x = x k := by
  unfold dotp boxA; simp only [Fin.addCases_left]; simp

private theorem dotp_boxA_right (x : Fin N → ℝ) (k : Fin N) : dotp (boxA N (Fin.natAdd N k)) x = -x k := by
  unfold dotp boxA; simp only [Fin.addCases_right]; simp

/-- the conic form describes the box -/
theorem box_mem_iff (lo hi x : Fin N → ℝ) :
    (fun k => dotp (boxA N k) x + boxb lo hi k) ∈ orthant (N + N) ↔ ∀ l, lo l ≤ x l ∧ x l ≤ hi l := by
  unfold orthant
  simp only [Set.mem_ofPred_eq]
  constructor
  · intro h l
    have h1 := h (Fin.castAdd N l)
    have h2 := h (Fin.natAdd N l)
    rw [dotp_boxA_left] at h1; rw [dotp_boxA_right] at h2
    simp only [boxb, Fin.addCases_left, Fin.addCases_right] at h1 h2
    constructor <;> linarith
  · intro h k
    refine Fin.addCases (fun l => ?_) (fun l => ?_) k
    · rw [dotp_boxA_left]; simp only [boxb, Fin.addCases_left]; linarith [(h l).1]
    · rw [dotp_boxA_right]; simp only [boxb, Fin.addCases_right]; linarith [(h l).2]

/-- TIE TO THE EXECUTABLE MODEL: row `k` of `Domain.boxRowsF` (what the driver prints and the harness compares with the
    `(A, b)` the real `SigDomain` of a box compiles to) is row `k` of `boxA`, `boxb` -/
theorem boxRows_get (lo hi : Fin N → ℚ) (k : Fin (N + N)) :
    ∃ row, (Sageopt.Domain.boxRowsF lo hi)[k.val]? = some row ∧
      (∀ l : Fin N, ((row.1.getD l.val 0 : ℚ) : ℝ) = boxA N k l) ∧
      ((row.2 : ℚ) : ℝ) = boxb (fun l => (lo l : ℝ)) (fun l => (hi l : ℝ)) k := by
  unfold Sageopt.Domain.boxRowsF
  refine Fin.addCases (fun l => ?_) (fun l => ?_) k
  · refine ⟨(List.ofFn fun l' : Fin N => if l = l' then (1 : ℚ) else 0, -lo l), ?_, ?_, ?_⟩
    · rw [List.getElem?_append_left (by simp)]
      simp only [Fin.val_castAdd, List.getElem?_ofFn, l.isLt, dite_true]
    · intro l'
      simp only [boxA, Fin.addCases_left, List.getD_eq_getElem?_getD, List.getElem?_ofFn, l'.isLt, dite_true,
        Option.getD_some, Fin.eta]
      split_ifs <;> simp
    · simp [boxb]
  · refine ⟨(List.ofFn fun l' : Fin N => if l = l' then (-1 : ℚ) else 0, hi l), ?_, ?_, ?_⟩
    · rw [List.getElem?_append_right (by simp)]
      simp only [Fin.val_natAdd, List.length_ofFn, Nat.add_sub_cancel_left, List.getElem?_ofFn, l.isLt, dite_true]
    · intro l'
      simp only [boxA, Fin.addCases_right, List.getD_eq_getElem?_getD, List.getElem?_ofFn, l'.isLt, dite_true,
        Option.getD_some, Fin.eta]
      split_ifs <;> simp
    · simp only [boxb, Fin.addCases_right]

private theorem gfun_continuous (α : ι → Fin N → ℝ) (i : ι) (S : Finset ι) (c : ι → ℝ) :
    Continuous (gfun α i S c) := by
  unfold gfun dotp
  fun_prop

/-- COMPLETENESS on a compact box: nonnegative coefficients on the cover and `f ≥ 0` on the (nonempty) box give the
    conditional AGE certificate over the box's conic form -/
theorem box_complete (α : ι → Fin N → ℝ) (i : ι) (S : Finset ι) (c : ι → ℝ) (hc : ∀ j ∈ S, 0 ≤ c j)
    (lo hi : Fin N → ℝ) (hne : ∀ l, lo l ≤ hi l)
    (hnn : ∀ x : Fin N → ℝ, (∀ l, lo l ≤ x l ∧ x l ≤ hi l) →
      0 ≤ c i * Real.exp (dotp (α i) x) + ∑ j ∈ S, c j * Real.exp (dotp (α j) x)) :
    CondAgeCert α i S (boxA N) (boxb lo hi) (orthant (N + N)) c := by
  -- a minimiser of g over the box
  have hcomp : IsCompact (Set.Icc lo hi) := isCompact_Icc
  have hnonempty : (Set.Icc lo hi).Nonempty := ⟨lo, Set.left_mem_Icc.mpr (fun l => hne l)⟩
  obtain ⟨xs, hxs, hmin⟩ := hcomp.exists_isMinOn hnonempty (gfun_continuous α i S c).continuousOn
  have hbox : ∀ x : Fin N → ℝ, x ∈ Set.Icc lo hi ↔ ∀ l, lo l ≤ x l ∧ x l ≤ hi l := by
    intro x; rw [Set.mem_Icc, Pi.le_def, Pi.le_def]; exact ⟨fun h l => ⟨h.1 l, h.2 l⟩, fun h => ⟨fun l => (h l).1, fun l => (h l).2⟩⟩
  have hxs' := (hbox xs).mp hxs
  have hgnn : 0 ≤ gfun α i S c xs := (ffun_nonneg_iff α i S c xs).mp (hnn xs hxs')
  -- first-order optimality over the box
  have hfo := first_order α i S c (Set.Icc lo hi) xs
    (by
      intro x hx t ht0 ht1
      have hx' := (hbox x).mp hx
      rw [hbox]; intro l
      have a1 := (hxs' l).1; have a2 := (hxs' l).2; have b1 := (hx' l).1; have b2 := (hx' l).2
      constructor <;> nlinarith)
    (fun x hx => hmin hx)
  set d : Fin N → ℝ := grad α i S c xs with hd
  have hlo : ∀ l, 0 ≤ d l * (lo l - xs l) := by
    intro l
    have hmem : Function.update xs l (lo l) ∈ Set.Icc lo hi := by
      rw [hbox]; intro l'
      by_cases h : l' = l
      · subst h; simp [hne l']
      · rw [Function.update_of_ne h]; exact hxs' l'
    have h1 := hfo _ hmem
    have e1 := sum_update d xs l (lo l)
    simp only [hd, grad] at e1
    rw [e1] at h1; exact h1
  have hhi : ∀ l, 0 ≤ d l * (hi l - xs l) := by
    intro l
    have hmem : Function.update xs l (hi l) ∈ Set.Icc lo hi := by
      rw [hbox]; intro l'
      by_cases h : l' = l
      · subst h; simp [hne l']
      · rw [Function.update_of_ne h]; exact hxs' l'
    have h1 := hfo _ hmem
    have e1 := sum_update d xs l (hi l)
    simp only [hd, grad] at e1
    rw [e1] at h1; exact h1
  -- the certificate
  refine ⟨fun j => c j * Real.exp (dotp (α j) xs - dotp (α i) xs),
    fun j => c j * Real.exp (dotp (α j) xs - dotp (α i) xs) * ((dotp (α j) xs - dotp (α i) xs) - 1),
    Fin.addCases (fun l : Fin N => max (d l) 0) (fun l : Fin N => max (-(d l)) 0), ?_, ?_, ?_, ?_⟩
  · intro s hs
    apply Finset.sum_nonneg; intro k _
    refine mul_nonneg ?_ (hs k)
    refine Fin.addCases (fun l => ?_) (fun l => ?_) k
    · simp only [Fin.addCases_left]; exact le_max_right _ _
    · simp only [Fin.addCases_right]; exact le_max_right _ _
  · intro j hj
    exact explicit_row (c j) _ (hc j hj)
  · rw [explicit_epi_sum, Fin.sum_univ_add]
    simp only [Fin.addCases_left, Fin.addCases_right, boxb]
    have hsum : ∑ l, (∑ j ∈ S, c j * Real.exp (dotp (α j) xs - dotp (α i) xs) * (α j l - α i l)) * xs l
        = ∑ l, d l * xs l := rfl
    rw [hsum]
    have hterm : ∀ l, 0 ≤ max (d l) 0 * lo l - max (-(d l)) 0 * hi l - d l * xs l := by
      intro l
      rcases le_total 0 (d l) with h | h
      · rw [max_eq_left h, max_eq_right (by linarith)]
        have := hlo l; nlinarith
      · rw [max_eq_right h, max_eq_left (by linarith)]
        have := hhi l; nlinarith
    have htot : 0 ≤ ∑ l, (max (d l) 0 * lo l - max (-(d l)) 0 * hi l - d l * xs l) :=
      Finset.sum_nonneg (fun l _ => hterm l)
    rw [Finset.sum_sub_distrib, Finset.sum_sub_distrib] at htot
    have e1 : ∑ l, max (d l) 0 * -lo l = -∑ l, max (d l) 0 * lo l := by
      rw [← Finset.sum_neg_distrib]; apply Finset.sum_congr rfl; intro l _; ring
    rw [e1]
    linarith
  · intro l
    rw [Fin.sum_univ_add]
    simp only [Fin.addCases_left, Fin.addCases_right, boxA]
    have e1 : ∑ k : Fin N, (if k = l then (1 : ℝ) else 0) * max (d k) 0 = max (d l) 0 := by
      simp
    have e2 : ∑ k : Fin N, (if k = l then (-1 : ℝ) else 0) * max (-(d k)) 0 = -max (-(d l)) 0 := by
      simp
    rw [e1, e2]
    have : max (d l) 0 + -max (-(d l)) 0 = d l := by
      rcases le_total 0 (d l) with h | h
      · rw [max_eq_left h, max_eq_right (by linarith)]; ring
      · rw [max_eq_right h, max_eq_left (by linarith)]; ring
    rw [this]
    rfl

/-- EXACTNESS on compact boxes (the property's quantifier): a one-negative-term signomial is certified over the box
    exactly when it is nonnegative on the box -/
theorem box_exact (α : ι → Fin N → ℝ) (i : ι) (S : Finset ι) (c : ι → ℝ) (hc : ∀ j ∈ S, 0 ≤ c j)
    (lo hi : Fin N → ℝ) (hne : ∀ l, lo l ≤ hi l) :
    CondAgeCert α i S (boxA N) (boxb lo hi) (orthant (N + N)) c ↔
      ∀ x : Fin N → ℝ, (∀ l, lo l ≤ x l ∧ x l ≤ hi l) →
        0 ≤ c i * Real.exp (dotp (α i) x) + ∑ j ∈ S, c j * Real.exp (dotp (α j) x) := by
  constructor
  · intro h x hx
    exact condAge_sound α i S (boxA N) (boxb lo hi) (orthant (N + N)) c h x ((box_mem_iff lo hi x).mpr hx)
  · intro h; exact box_complete α i S c hc lo hi hne h

/-- MONOTONICITY IN X for boxes: a certificate over a box is a certificate over every sub-box (so every X-SAGE decomposition stays one
    when the box shrinks, and the bound can only go up) -/
theorem box_cert_mono (α : ι → Fin N → ℝ) (i : ι) (S : Finset ι) (c : ι → ℝ) (hc : ∀ j ∈ S, 0 ≤ c j)
    (lo hi lo' hi' : Fin N → ℝ) (hne' : ∀ l, lo' l ≤ hi' l) (hlo : ∀ l, lo l ≤ lo' l) (hhi : ∀ l, hi' l ≤ hi l)
    (h : CondAgeCert α i S (boxA N) (boxb lo hi) (orthant (N + N)) c) :
    CondAgeCert α i S (boxA N) (boxb lo' hi') (orthant (N + N)) c := by
  apply box_complete α i S c hc lo' hi' hne'
  intro x hx
  exact condAge_sound α i S (boxA N) (boxb lo hi) (orthant (N + N)) c h x
    ((box_mem_iff lo hi x).mpr (fun l => ⟨le_trans (hlo l) (hx l).1, le_trans (hx l).2 (hhi l)⟩))

/-- the LEVEL-0 BOUND of a posynomial plus a constant over a box is its minimum: with the constant term at index `i`
    (`α_i = 0`), `f − γ` is certified over the box exactly when `γ ≤ f(x)` at every point of the box -/
theorem box_bound_exact [DecidableEq ι] (α : ι → Fin N → ℝ) (i : ι) (S : Finset ι) (hi0 : ∀ l, α i l = 0) (c : ι → ℝ)
    (hc : ∀ j ∈ S, 0 ≤ c j) (hiS : i ∉ S) (lo hi : Fin N → ℝ) (hne : ∀ l, lo l ≤ hi l) (γ : ℝ) :
    CondAgeCert α i S (boxA N) (boxb lo hi) (orthant (N + N)) (fun j => if j = i then c i - γ else c j) ↔
      ∀ x : Fin N → ℝ, (∀ l, lo l ≤ x l ∧ x l ≤ hi l) →
        γ ≤ c i + ∑ j ∈ S, c j * Real.exp (dotp (α j) x) := by
  have hc' : ∀ j ∈ S, 0 ≤ (fun j => if j = i then c i - γ else c j) j := by
    intro j hj
    have : j ≠ i := fun h => hiS (h ▸ hj)
    simp only [this, if_false]; exact hc j hj
  rw [box_exact α i S _ hc' lo hi hne]
  have hdot : ∀ x : Fin N → ℝ, dotp (α i) x = 0 := by
    intro x; unfold dotp; apply Finset.sum_eq_zero; intro l _; rw [hi0 l, zero_mul]
  have hsum : ∀ x : Fin N → ℝ, ∑ j ∈ S, (if j = i then c i - γ else c j) * Real.exp (dotp (α j) x)
      = ∑ j ∈ S, c j * Real.exp (dotp (α j) x) := by
    intro x; apply Finset.sum_congr rfl; intro j hj
    have : j ≠ i := fun h => hiS (h ▸ hj)
    simp only [this, if_false]
  constructor
  · intro h x hx
    have := h x hx
    rw [hdot, Real.exp_zero, hsum] at this
    simp only [if_true, mul_one] at this
    linarith
  · intro h x hx
    have := h x hx
    rw [hdot, Real.exp_zero, hsum]
    simp only [if_true, mul_one]
    linarith

/-! ### non-vacuity: the box `[0, 1]` and `f = 2 − eˣ + e^{2x}` (nonnegative there: `f ≥ 7/4`) -/

example : CondAgeCert (fun (j : Fin 3) (_ : Fin 1) => (j : ℝ)) 1 {0, 2}
    (boxA 1) (boxb (fun _ => 0) (fun _ => 1)) (orthant (1 + 1)) (fun j => if j = 1 then -1 else if j = 0 then 2 else 1) := by
  apply box_complete
  · intro j hj
    rw [Finset.mem_insert, Finset.mem_singleton] at hj
    rcases hj with rfl | rfl <;> simp
  · intro l; norm_num
  · intro x hx
    have e21 : ((2 : Fin 3) = 1) = False := by decide
    have e20 : ((2 : Fin 3) = 0) = False := by decide
    have e01 : ((0 : Fin 3) = 1) = False := by decide
    rw [Finset.sum_pair (by decide)]
    simp only [dotp, Finset.univ_unique, Finset.sum_singleton, e21, e20, e01, if_true, if_false]
    have h1 : Real.exp (((2 : Fin 3) : ℕ) * x default) = Real.exp (x default) ^ 2 := by
      rw [← Real.exp_nat_mul]; norm_num
    have h0 : Real.exp (((0 : Fin 3) : ℕ) * x default) = 1 := by simp
    have h1' : Real.exp (((1 : Fin 3) : ℕ) * x default) = Real.exp (x default) := by simp
    rw [h1, h0, h1']
    nlinarith [sq_nonneg (Real.exp (x default) - 1 / 2), Real.exp_pos (x default)]

/-- (superseded by `ordAge_complete` of part D, which proves completeness on ℝⁿ outright; kept because it isolates what the explicit
    certificate needs) a failure of completeness could only come from non-attainment: if there were nonnegative data without a
    certificate, the normalised function would have no minimiser -/
theorem completeness_gap (α : ι → Fin N → ℝ) (i : ι) (S : Finset ι) (hi : i ∉ S) (c : ι → ℝ) (hc : ∀ j ∈ S, 0 ≤ c j)
    (hnn : ∀ x, 0 ≤ c i * Real.exp (dotp (α i) x) + ∑ j ∈ S, c j * Real.exp (dotp (α j) x))
    (hno : ¬ OrdAgeCert α i S c) :
    ∀ xs, ∃ x, gfun α i S c x < gfun α i S c xs := by
  intro xs
  by_contra hcon; push Not at hcon
  exact hno ((ordAge_iff_nonneg_of_attained α i S hi c hc xs hcon).mpr hnn)

end Sageopt.Props.C06

#print axioms Sageopt.Props.C06.ordAge_complete_of_min
#print axioms Sageopt.Props.C06.ordAge_iff_nonneg_of_attained
#print axioms Sageopt.Props.C06.condAge_sound
#print axioms Sageopt.Props.C06.box_mem_iff
#print axioms Sageopt.Props.C06.boxRows_get
#print axioms Sageopt.Props.C06.box_complete
#print axioms Sageopt.Props.C06.box_exact
#print axioms Sageopt.Props.C06.box_cert_mono
#print axioms Sageopt.Props.C06.box_bound_exact
#print axioms Sageopt.Props.C06.completeness_gap
