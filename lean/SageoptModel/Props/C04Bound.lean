/-
C04, part B — the signomial Lagrangian of `make_sig_lagrangian` as a FUNCTION on ℝⁿ, and the bound it gives:
the identity `L = f − γ − Σ s·g − Σ z·h` at every real point, q-fold soundness at every real point, and
`γ ≤ f(x)` at every feasible `x` whenever the Lagrangian and the inequality multipliers are nonnegative there.
Property theorems about `Model/Relax.lean`; the semantics is `sigR` / `evalL` of `Lemmas/PolySem.lean`.
-/
import SageoptModel.Props.C04
import SageoptModel.Lemmas.PolySem
import SageoptModel.Lemmas.LagrReal
import SageoptModel.Lemmas.LagrExec

namespace Sageopt.Props.C04
open Sageopt Sageopt.Sig Sageopt.Relax Sageopt.Poly Sageopt.Sage

set_option linter.unusedVariables false in
/-- the identity as functions on ℝⁿ -/
theorem lagrangian_identity_real (f : SigQ) (hf : Wf f) (gts eqs : List SigQ)
    (hg : ∀ g ∈ gts ++ eqs, Wf g ∧ g.n = f.n) (p q : Nat) (hq : 1 ≤ q) (gid : Nat) (sIds zIds : List (List Nat))
    (σ : Nat → Rat) (x : List ℝ) (hx : x.length = f.n) :
    let lg := makeLagrangian f gts eqs p q gid sIds zIds
    IdsOk lg sIds zIds →
    sigR (evalL σ lg.L.terms) x =
      sigR f.terms x - (σ gid : ℝ)
        - ((lg.gts.zip sIds).map fun pr => sigR (evalL σ (varSig f.n lg.alphaHat pr.2).terms) x * sigR pr.1.terms x).sum
        - ((lg.eqs.zip zIds).map fun pr => sigR (evalL σ (varSig f.n lg.alphaHat pr.2).terms) x * sigR pr.1.terms x).sum := by
  intro lg _
  obtain ⟨hL0w, hL0n, hL0e⟩ := lr_L0_spec f hf gid σ x
  have hrows := (hierarchyEk_wf f.n _ (alphaHat_rows f gts eqs hg _ ⟨hL0w, hL0n⟩) p).2
  have hfg := lg_qFold_wf f.n gts (fun g h => hg g (List.mem_append_left _ h)) q hq
  have hfe := lg_qFold_wf f.n eqs (fun g h => hg g (List.mem_append_right _ h)) q hq
  have hsum := lr_sum_identity f.n σ x (lr_L0 f gid) ⟨hL0w, hL0n⟩
    (fun pr : SigQ × List Nat =>
      okOr (mul Lin.isZero (embed (neg isZeroQ pr.1)) (varSig f.n lg.alphaHat pr.2)) (embed pr.1))
    (fun pr => sigR (evalL σ (varSig f.n lg.alphaHat pr.2).terms) x * sigR pr.1.terms x)
    (lg.gts.zip sIds) (lg.eqs.zip zIds)
    (fun pr hpr => by
      obtain ⟨h1, h2⟩ := hfg pr.1 (List.of_mem_zip hpr).1
      obtain ⟨a, b, c⟩ := lr_summand f.n σ x pr.1 h1 h2 lg.alphaHat (fun r hr => (hrows r hr).1) pr.2
      exact ⟨⟨a, b⟩, c⟩)
    (fun pr hpr => by
      obtain ⟨h1, h2⟩ := hfe pr.1 (List.of_mem_zip hpr).1
      obtain ⟨a, b, c⟩ := lr_summand f.n σ x pr.1 h1 h2 lg.alphaHat (fun r hr => (hrows r hr).1) pr.2
      exact ⟨⟨a, b⟩, c⟩)
  rw [hL0e] at hsum
  exact hsum

set_option linter.unusedVariables false in
/-- folded constraints at real points: products of at most q (and at least one) members of the input list -/
theorem qfold_sound_real (n : Nat) (cons : List SigQ) (hc : ∀ g ∈ cons, Wf g ∧ g.n = n) (q : Nat) (hq : 1 ≤ q)
    (x : List ℝ) (hx : x.length = n) :
    ∀ pr ∈ qFold n cons q, ∃ comb : List SigQ, comb ≠ [] ∧ comb.length ≤ q ∧ (∀ g ∈ comb, g ∈ cons) ∧
      sigR pr.terms x = (comb.map fun g => sigR g.terms x).prod := by
  intro pr hpr
  obtain ⟨g, gs, hlen, hmem, rfl⟩ := lg_mem_qFold n cons q hq pr hpr
  refine ⟨g :: gs, by simp, hlen, hmem, ?_⟩
  rw [lr_sigR_foldl_mulQ n x gs (fun y hy => hc y (hmem y (List.mem_cons_of_mem _ hy))) g
    (hc g (hmem g (by simp))).1 (hc g (hmem g (by simp))).2, List.map_cons, List.prod_cons]

/-- THE BOUND (level ell = 0): if, under an assignment of γ and the multiplier coefficients, the Lagrangian and every inequality
    multiplier are nonnegative at a point x that satisfies all the original constraints, then γ ≤ f(x).  (Nonnegativity on X of the
    Lagrangian and of the multipliers is what the SAGE constraints of `sig_constrained_primal` certify: C01.) -/
theorem constrained_primal_bound (f : SigQ) (hf : Wf f) (gts eqs : List SigQ)
    (hg : ∀ g ∈ gts ++ eqs, Wf g ∧ g.n = f.n) (p q : Nat) (hq : 1 ≤ q) (gid : Nat) (sIds zIds : List (List Nat))
    (σ : Nat → Rat) (x : List ℝ) (hx : x.length = f.n) :
    let lg := makeLagrangian f gts eqs p q gid sIds zIds
    IdsOk lg sIds zIds →
    0 ≤ sigR (evalL σ lg.L.terms) x →
    (∀ ids ∈ sIds, 0 ≤ sigR (evalL σ (varSig f.n lg.alphaHat ids).terms) x) →
    (∀ g ∈ gts, 0 ≤ sigR g.terms x) → (∀ h ∈ eqs, sigR h.terms x = 0) →
    (σ gid : ℝ) ≤ sigR f.terms x := by
  intro lg hids hL hs hgt heq
  have hid := lagrangian_identity_real f hf gts eqs hg p q hq gid sIds zIds σ x hx hids
  -- every folded inequality is nonnegative at x
  have hgfold : ∀ pr ∈ lg.gts, 0 ≤ sigR pr.terms x := by
    intro pr hpr
    obtain ⟨comb, _, _, hmem, he⟩ := qfold_sound_real f.n gts (fun g h => hg g (List.mem_append_left _ h)) q hq
      x hx pr hpr
    rw [he]
    apply lr_prod_nonneg
    intro v hv
    obtain ⟨g, hgm, rfl⟩ := List.mem_map.1 hv
    exact hgt g (hmem g hgm)
  -- every folded equality vanishes at x
  have hefold : ∀ pr ∈ lg.eqs, sigR pr.terms x = 0 := by
    intro pr hpr
    obtain ⟨comb, hne, _, hmem, he⟩ := qfold_sound_real f.n eqs (fun g h => hg g (List.mem_append_right _ h)) q hq
      x hx pr hpr
    rw [he]
    apply lr_prod_zero _ (by simpa using hne)
    intro v hv
    obtain ⟨g, hgm, rfl⟩ := List.mem_map.1 hv
    exact heq g (hmem g hgm)
  have h1 : 0 ≤ ((lg.gts.zip sIds).map fun pr =>
      sigR (evalL σ (varSig f.n lg.alphaHat pr.2).terms) x * sigR pr.1.terms x).sum :=
    lr_sum_nonneg _ _ (fun pr hpr =>
      mul_nonneg (hs pr.2 (List.of_mem_zip hpr).2) (hgfold pr.1 (List.of_mem_zip hpr).1))
  have h2 : ((lg.eqs.zip zIds).map fun pr =>
      sigR (evalL σ (varSig f.n lg.alphaHat pr.2).terms) x * sigR pr.1.terms x).sum = 0 :=
    lr_sum_zero _ _ (fun pr hpr => by rw [hefold pr.1 (List.of_mem_zip hpr).1, mul_zero])
  rw [h2] at hid
  linarith

/-! ### non-vacuity: `f = e^{2x} + 1`, one inequality `g = 3 − e^{x} ≥ 0`, `p = 0`, `q = 2`, `γ = 1`, zero multipliers
(the instance of `Props/C04.lean`; its facts are private there, hence restated) -/
section NonVacuity

@[instance_reducible] private def decEqSigB {C : Type} [DecidableEq C] : DecidableEq (SigT C) := fun a b =>
  match a, b with
  | ⟨n1, t1⟩, ⟨n2, t2⟩ =>
    if h : n1 = n2 ∧ t1 = t2 then isTrue (by rw [h.1, h.2])
    else isFalse (fun e => h (by cases e; exact ⟨rfl, rfl⟩))

attribute [local instance] decEqSigB

/-- `e^{2x} + 1` -/
private def fB : SigQ := ⟨1, [([2], 1), ([0], 1)]⟩
/-- `3 − e^{x}` -/
private def gB : SigQ := ⟨1, [([0], 3), ([1], -1)]⟩
/-- `g² = 9 − 6e^{x} + e^{2x}` -/
private def g2B : SigQ := ⟨1, [([0], 9), ([1], -6), ([2], 1)]⟩
/-- γ has id 0; the multipliers of `g` and `g²` have the single coefficients `x₁`, `x₂` -/
private def lgB : Lagrangian := makeLagrangian fB [gB] [] 0 2 0 [[1], [2]] []
/-- γ = 1, both multipliers zero -/
private def σB : Nat → Rat := fun i => if i = 0 then 1 else 0

private theorem gridB {ts : List (Exp × Rat)} (h : ∀ t ∈ ts, ∀ q ∈ t.1, round7 q = q) :
    ∀ t ∈ ts, OnGrid t.1 := h

private theorem fB_wf : Wf fB := ⟨by decide, gridB (by with_unfolding_all decide), by decide⟩
private theorem gB_wf : Wf gB := ⟨by decide, gridB (by with_unfolding_all decide), by decide⟩

private theorem qFoldB : qFold fB.n [gB] 2 = [gB, g2B] := by
  rw [lg_qFold_eq]
  with_unfolding_all decide

private theorem lgB_L : lgB.L = ⟨1, [([2], ⟨1, [(2, -1)], false⟩), ([0], ⟨1, [(0, -1), (1, -3), (2, -9)], false⟩),
    ([1], ⟨0, [(1, 1), (2, 6)], false⟩)]⟩ := by
  unfold lgB makeLagrangian
  simp only [qFoldB, lg_qFold_eq fB.n []]
  with_unfolding_all decide
private theorem lgB_alphaHat : lgB.alphaHat = [[0]] := by with_unfolding_all decide
private theorem lgB_gts : lgB.gts = [gB, g2B] := qFoldB
private theorem lgB_eqs : lgB.eqs = [] := by
  show qFold 1 [] 2 = []
  rw [lg_qFold_eq]
  decide

private theorem idsOkB : IdsOk lgB [[1], [2]] [] := by
  unfold IdsOk
  rw [lgB_gts, lgB_eqs, lgB_alphaHat]
  decide

private theorem hgB : ∀ g ∈ [gB] ++ ([] : List SigQ), Wf g ∧ g.n = fB.n := by
  intro g hg
  simp only [List.append_nil, List.mem_singleton] at hg
  rw [hg]
  exact ⟨gB_wf, rfl⟩

private theorem varSigB (i : Nat) : (varSig 1 [[0]] [i]).terms = [([0], Lin.var i)] := by
  unfold varSig
  apply Gen.mk_terms_of_wf
  · intro t ht
    simp only [List.map_cons, List.map_nil, List.zip_cons_cons, List.zip_nil_right, List.mem_singleton] at ht
    rw [ht]
    exact onGrid_zeroExp 1
  · simp [keys]

-- the Lagrangian under `σB` is `e^{2x}`: nonnegative at every real point
private theorem lgB_L_nonneg (t : ℝ) : 0 ≤ sigR (evalL σB lgB.L.terms) [t] := by
  rw [lgB_L]
  simp only [evalL, sigR, Lin.value, σB, List.map_cons, List.map_nil, List.foldl_cons, List.foldl_nil]
  norm_num
  positivity

-- both multipliers vanish under `σB`
private theorem multB_nonneg (t : ℝ) : ∀ ids ∈ [[1], [2]],
    0 ≤ sigR (evalL σB (varSig fB.n lgB.alphaHat ids).terms) [t] := by
  intro ids hids
  rw [lgB_alphaHat]
  simp only [List.mem_cons, List.not_mem_nil, or_false] at hids
  rcases hids with rfl | rfl
  · show 0 ≤ sigR (evalL σB (varSig 1 [[0]] [1]).terms) [t]
    rw [varSigB]
    simp [evalL, sigR, lg_value_var, σB]
  · show 0 ≤ sigR (evalL σB (varSig 1 [[0]] [2]).terms) [t]
    rw [varSigB]
    simp [evalL, sigR, lg_value_var, σB]

private theorem gB_val (t : ℝ) : sigR gB.terms [t] = 3 - Real.exp t := by
  simp [sigR, gB, rdot]
  ring

private theorem fB_val (t : ℝ) : sigR fB.terms [t] = Real.exp (2 * t) + 1 := by
  simp [sigR, fB, rdot]

/-- all hypotheses of `constrained_primal_bound` hold for the instance (γ = 1, zero multipliers) at every feasible
    point `e^t ≤ 3`; the conclusion is `1 ≤ e^{2t} + 1` -/
example (t : ℝ) (ht : Real.exp t ≤ 3) : ((1 : Rat) : ℝ) ≤ Real.exp (2 * t) + 1 := by
  have h := constrained_primal_bound fB fB_wf [gB] [] hgB 0 2 (by decide) 0 [[1], [2]] [] σB [t] rfl
    idsOkB (lgB_L_nonneg t) (multB_nonneg t)
    (by
      intro g hg
      rw [List.mem_singleton] at hg
      rw [hg, gB_val]
      linarith)
    (by intro h hh; simp at hh)
  rw [fB_val] at h
  exact h

-- the folded constraint `g²` is the square of `g` at every real point
example (t : ℝ) : ∃ comb : List SigQ, comb ≠ [] ∧ comb.length ≤ 2 ∧ (∀ g ∈ comb, g ∈ [gB]) ∧
    sigR g2B.terms [t] = (comb.map fun g => sigR g.terms [t]).prod :=
  qfold_sound_real 1 [gB] (fun g hg => hgB g (by simpa using hg)) 2 (by decide) [t] rfl g2B
    (by
      have h := qFoldB
      change qFold 1 [gB] 2 = [gB, g2B] at h
      rw [h]; simp)

-- the identity for the instance, at every real point and for every assignment
example (σ : Nat → Rat) (t : ℝ) :
    sigR (evalL σ lgB.L.terms) [t] =
      sigR fB.terms [t] - (σ 0 : ℝ)
        - ((lgB.gts.zip [[1], [2]]).map fun pr =>
            sigR (evalL σ (varSig 1 lgB.alphaHat pr.2).terms) [t] * sigR pr.1.terms [t]).sum
        - ((lgB.eqs.zip ([] : List (List Nat))).map fun pr =>
            sigR (evalL σ (varSig 1 lgB.alphaHat pr.2).terms) [t] * sigR pr.1.terms [t]).sum :=
  lagrangian_identity_real fB fB_wf [gB] [] hgB 0 2 (by decide) 0 [[1], [2]] [] σ [t] rfl idsOkB

end NonVacuity

end Sageopt.Props.C04
