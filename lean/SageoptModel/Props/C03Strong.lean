/-
C03, part C — STRONG DUALITY where it can be proved here: the level-0 relaxation of a posynomial plus a constant over ℝⁿ
(`f = c_i + Σ_{j∈S} c_j e^{α_j·x}`, `c_j ≥ 0`, the constant term at index `i`).  On the semantic rows of the two compiled problems
(primal: the relative-entropy certificate of `f − γ`, C01; dual: the dual AGE rows for the index `i` with the normalisation `v_i = 1`, C02):
* weak duality: every primal-feasible `γ` is at most every dual objective value (`posy_weak_duality`, from the pairing lemma);
* the dual attains `f(x)` at the moment vector of every `x` (`posy_dual_attains`);
* the primal optimum is ATTAINED at `γ* = inf f` and equals the dual infimum (`posy_strong_duality`): the two forms agree, whether or not
  the infimum of `f` is attained.
For general signomials (several negative terms after subtracting `γ`) strong duality needs the closedness of the SAGE cone and a
separation argument; it stays an audit.
-/
import SageoptModel.Props.C06Full

namespace Sageopt.Props.C03
open Sageopt.Analysis Sageopt.Props.C06
open scoped BigOperators

set_option linter.unusedVariables false

variable {ι : Type} [Fintype ι] [DecidableEq ι] {N : ℕ}

/-- the objective, as a function -/
noncomputable def posyF (α : ι → Fin N → ℝ) (i : ι) (S : Finset ι) (c : ι → ℝ) (x : Fin N → ℝ) : ℝ :=
  c i + ∑ j ∈ S, c j * Real.exp (dotp (α j) x)

/-- primal feasibility of `γ`: `f − γ` carries the AGE certificate (the rows of `PrimalSageCone` for the single cone `i`) -/
def PrimalFeas (α : ι → Fin N → ℝ) (i : ι) (S : Finset ι) (c : ι → ℝ) (γ : ℝ) : Prop :=
  OrdAgeCert α i S (fun j => if j = i then c i - γ else c j)

/-- dual feasibility of `(v, μ)`: normalisation `v_i = 1` (the modulator is the constant 1), nonnegativity, and the dual AGE rows of the
    cone `i` (the rows of `DualSageCone`) -/
def DualFeas (α : ι → Fin N → ℝ) (i : ι) (S : Finset ι) (v : ι → ℝ) (μ : Fin N → ℝ) : Prop :=
  v i = 1 ∧ (∀ j ∈ S, 0 ≤ v j) ∧ ∀ j ∈ S, InExpCone (-(dotp (α i) μ - dotp (α j) μ)) (v j) (v i)

/-- the dual objective `⟨c, v⟩` -/
noncomputable def dualObj (i : ι) (S : Finset ι) (c v : ι → ℝ) : ℝ := c i * v i + ∑ j ∈ S, c j * v j

/-- WEAK DUALITY -/
theorem posy_weak_duality (α : ι → Fin N → ℝ) (i : ι) (S : Finset ι) (hiS : i ∉ S) (c : ι → ℝ) (γ : ℝ)
    (hp : PrimalFeas α i S c γ) (v : ι → ℝ) (μ : Fin N → ℝ) (hd : DualFeas α i S v μ) :
    γ ≤ dualObj i S c v := by
  obtain ⟨ν, epi, h1, h2, h3⟩ := hp
  obtain ⟨hv1, hv2, hv3⟩ := hd
  have hpair := ord_age_pairing α i S (fun j => if j = i then c i - γ else c j) ν epi h1 h2 h3 v μ (by rw [hv1]; norm_num) hv3
  have hsum : ∑ j ∈ S, (if j = i then c i - γ else c j) * v j = ∑ j ∈ S, c j * v j := by
    apply Finset.sum_congr rfl; intro j hj
    have : j ≠ i := fun h => hiS (h ▸ hj)
    simp only [this, if_false]
  simp only [if_true] at hpair
  rw [hsum, hv1] at hpair
  unfold dualObj
  rw [hv1]; linarith

/-- THE DUAL ATTAINS f: the moment vector of any point is dual feasible with objective value `f(x)` -/
theorem posy_dual_attains (α : ι → Fin N → ℝ) (i : ι) (S : Finset ι) (hi0 : ∀ l, α i l = 0) (c : ι → ℝ) (x : Fin N → ℝ) :
    DualFeas α i S (fun j => Real.exp (dotp (α j) x)) x ∧
      dualObj i S c (fun j => Real.exp (dotp (α j) x)) = posyF α i S c x := by
  have hdot : dotp (α i) x = 0 := by
    unfold dotp; apply Finset.sum_eq_zero; intro l _; rw [hi0 l, zero_mul]
  refine ⟨⟨by simp only; rw [hdot, Real.exp_zero], fun j _ => (Real.exp_pos _).le, ?_⟩, ?_⟩
  · intro j _
    left
    simp only [hdot, Real.exp_zero]
    refine ⟨one_pos, ?_⟩
    simp
  · unfold dualObj posyF
    simp only [hdot, Real.exp_zero, mul_one]

/-- STRONG DUALITY: `γ* = inf f` is primal feasible and optimal, no dual value is below it, and the dual values come arbitrarily close
    (they contain every `f(x)`): primal optimum = dual infimum = `inf f` -/
theorem posy_strong_duality (α : ι → Fin N → ℝ) (i : ι) (S : Finset ι) (hiS : i ∉ S) (hi0 : ∀ l, α i l = 0) (c : ι → ℝ)
    (hc : ∀ j ∈ S, 0 ≤ c j) :
    PrimalFeas α i S c (⨅ x, posyF α i S c x) ∧
    (∀ γ, PrimalFeas α i S c γ → γ ≤ ⨅ x, posyF α i S c x) ∧
    (∀ v μ, DualFeas α i S v μ → (⨅ x, posyF α i S c x) ≤ dualObj i S c v) ∧
    (∀ x, ∃ v μ, DualFeas α i S v μ ∧ dualObj i S c v = posyF α i S c x) := by
  have hiff := fun γ => ordAge_bound_eq_inf α i S hiS hi0 c hc γ
  refine ⟨(hiff _).mpr le_rfl, fun γ hγ => (hiff γ).mp hγ, ?_, ?_⟩
  · intro v μ hd
    exact posy_weak_duality α i S hiS c _ ((hiff _).mpr le_rfl) v μ hd
  · intro x
    exact ⟨_, x, (posy_dual_attains α i S hi0 c x).1, (posy_dual_attains α i S hi0 c x).2⟩

/-! ### non-vacuity: `f = 1 + eˣ` (infimum 1, not attained): primal optimum 1 = dual infimum -/

example : PrimalFeas (fun (j : Fin 2) (_ : Fin 1) => (j : ℝ)) 0 {1} (fun _ => 1)
    (⨅ x, posyF (fun (j : Fin 2) (_ : Fin 1) => (j : ℝ)) 0 {1} (fun _ => 1) x) :=
  (posy_strong_duality (fun (j : Fin 2) (_ : Fin 1) => (j : ℝ)) 0 {1} (by decide) (by intro l; simp) (fun _ => 1)
    (by intro j _; norm_num)).1

end Sageopt.Props.C03
