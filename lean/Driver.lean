/-
Line-protocol driver: one JSON object per input line, one JSON object per output line.
Run:  lake env lean --run Driver.lean < ops.jsonl
-/
import SageoptModel.Drv.All

partial def loop (hin : IO.FS.Stream) (hout : IO.FS.Stream) : IO Unit := do
  let line ← hin.getLine
  if line.isEmpty then return ()
  let l := line.trimAscii.toString
  if l.isEmpty then
    hout.putStrLn "{}"
  else
    hout.putStrLn (Sageopt.Drv.dispatch l)
  loop hin hout

def main : IO Unit := do
  let hin ← IO.getStdin
  let hout ← IO.getStdout
  loop hin hout
  hout.flush
