#!/usr/bin/env python3
"""Validate MANIFEST.json and evidence/*.json against the schemas (run with python3-vt)."""
import glob
import json
import sys
import jsonschema
ok = True
ms = json.load(open('/root/.vp/MANIFEST.schema.json'))
es = json.load(open('/root/.vp/EVIDENCE.schema.json'))
try:
    jsonschema.validate(json.load(open('/verif/MANIFEST.json')), ms)
    print('MANIFEST ok')
except Exception as e:
    ok = False
    print('MANIFEST INVALID', str(e)[:500])
for f in sorted(glob.glob('/verif/evidence/*.json')):
    try:
        jsonschema.validate(json.load(open(f)), es)
        print(f, 'ok')
    except Exception as e:
        ok = False
        print(f, 'INVALID', str(e)[:500])
sys.exit(0 if ok else 1)
