#!/usr/bin/env python3
"""
Run registered checks against a seeded change:  tools/mutest.py <patch.diff> <PROP> [<PROP> ...] [--tier quick|thorough] [--suite]

Applies the patch to /repo (which must be clean), optionally runs the pinned suite, runs `harness/vcheck.py <PROP>` for each
property, ALWAYS restores /repo (git checkout -- .) and regenerates the Lean files that are generated from the source, and prints
one JSON line per check: {"patch":..., "prop":..., "rc":..., "violations":[...], "wall_s":...}.
Never used by a registered check; evidence written while a patch is applied is restored from git afterwards.

With --scratch the patch is NOT applied to /repo: a scratch worktree of /repo and a scratch copy of /verif (with its Lean build) are
made under /tmp/pm_<pid>, the checks run there (SAGEOPT_REPO points the harness at the worktree), and both are removed afterwards;
several such runs can go on at the same time, and next to a run of the registered checks.
"""
import json
import os
import subprocess
import sys
import time

HERE = os.path.dirname(os.path.abspath(__file__))
VERIF = os.path.dirname(HERE)
REPO = os.environ.get('VERIF_REPO', '/repo')
PY = '/venv/bin/python'


def sh(cmd, **kw):
    return subprocess.run(cmd, shell=True, stdout=subprocess.PIPE, stderr=subprocess.STDOUT, text=True, **kw)


def main():
    args = [a for a in sys.argv[1:] if not a.startswith('--')]
    tier = 'quick'
    if '--tier' in sys.argv:
        tier = sys.argv[sys.argv.index('--tier') + 1]
        args.remove(tier)
    patch, props = os.path.abspath(args[0]), args[1:]
    if '--scratch' in sys.argv:
        return scratch(patch, props, tier)
    if sh('git -C %s status --porcelain' % REPO).stdout.strip():
        print('refusing: %s is not clean' % REPO)
        return 2
    r = sh('git -C %s apply %s' % (REPO, patch))
    if r.returncode != 0:
        print('patch does not apply:', r.stdout)
        return 2
    out = []
    try:
        if '--suite' in sys.argv:
            r = sh('%s/tools/suite.sh %s' % (VERIF, REPO))
            print('suite:', r.stdout.strip().splitlines()[-1])
        for p in props:
            t0 = time.time()
            env = dict(os.environ, PYTHONDONTWRITEBYTECODE='1')
            r = sh('%s %s/harness/vcheck.py %s --tier %s' % (PY, VERIF, p, tier), cwd=VERIF, env=env, timeout=3600)
            viol = [l for l in r.stdout.splitlines() if l.startswith('VIOLATION')]
            rec = {'patch': os.path.relpath(patch, VERIF), 'prop': p, 'tier': tier, 'rc': r.returncode, 'violations': viol[:4],
                   'tail': r.stdout.strip().splitlines()[-1:] if r.stdout.strip() else [], 'wall_s': round(time.time() - t0, 1)}
            # what the violation says
            for l in viol[:1]:
                rp = l.split('replay=')[1].split()[0]
                try:
                    d = json.load(open(os.path.join(VERIF, rp)))
                    v = d['violations'][0] if 'violations' in d else d
                    rec['what'] = (v.get('what') or '')[:300]
                except Exception as e:  # noqa: BLE001
                    rec['what'] = 'unreadable replay: %s' % e
            out.append(rec)
            print(json.dumps(rec))
    finally:
        sh('git -C %s checkout -- .' % REPO)
        sh('git -C %s clean -fdq -- sageopt' % REPO)
        sh('%s %s/harness/translate.py' % (PY, VERIF), cwd=VERIF)
        sh('git -C %s checkout -- evidence' % VERIF)
        sh('cd %s/lean && lake build SageoptModel.Drv.All' % VERIF)
    return 0


def scratch(patch, props, tier):
    S = '/tmp/pm_%d' % os.getpid()
    sh('rm -rf %s; mkdir -p %s' % (S, S))
    try:
        r = sh('git -C %s worktree add -q --detach %s/repo HEAD' % (REPO, S))
        if r.returncode != 0:
            print('worktree failed:', r.stdout)
            return 2
        sh('rsync -a --exclude .git --exclude replays %s/ %s/verif/; mkdir -p %s/verif/replays' % (VERIF, S, S))
        r = sh('git -C %s/repo apply %s' % (S, patch))
        if r.returncode != 0:
            print('patch does not apply:', r.stdout)
            return 2
        for p in props:
            t0 = time.time()
            env = dict(os.environ, PYTHONDONTWRITEBYTECODE='1', SAGEOPT_REPO=S + '/repo')
            r = sh('%s %s/verif/harness/vcheck.py %s --tier %s' % (PY, S, p, tier), cwd=S + '/verif', env=env, timeout=3600)
            viol = [l for l in r.stdout.splitlines() if l.startswith('VIOLATION')]
            rec = {'patch': os.path.relpath(patch, VERIF), 'prop': p, 'tier': tier, 'rc': r.returncode, 'violations': viol[:4],
                   'tail': r.stdout.strip().splitlines()[-1:] if r.stdout.strip() else [], 'wall_s': round(time.time() - t0, 1)}
            for l in viol[:1]:
                rp = l.split('replay=')[1].split()[0]
                try:
                    d = json.load(open(os.path.join(S, 'verif', rp)))
                    v = d['violations'][0] if 'violations' in d else d
                    rec['what'] = (v.get('what') or '')[:300]
                except Exception as e:  # noqa: BLE001
                    rec['what'] = 'unreadable replay: %s' % e
            # the replay of the first concrete violation: must fail on the changed tree and pass on the unchanged one
            conc = [l for l in viol if 'no-failing-input-found' not in l]
            if conc:
                rp = os.path.join(S, 'verif', conc[0].split('replay=')[1].split()[0])
                r1 = sh('%s %s/verif/harness/vcheck.py %s --replay %s' % (PY, S, p, rp), cwd=S + '/verif', env=env, timeout=1200)
                r0 = sh('%s %s/harness/vcheck.py %s --replay %s' % (PY, VERIF, p, rp), cwd=VERIF,
                        env=dict(os.environ, PYTHONDONTWRITEBYTECODE='1'), timeout=1200)
                rec['replay_rc'] = [r1.returncode, r0.returncode]
                if '--save-corpus' in sys.argv and rec['replay_rc'] == [1, 0]:
                    d = json.load(open(rp))
                    sid = os.path.basename(os.path.dirname(patch))
                    os.makedirs(os.path.join(VERIF, 'corpus', p), exist_ok=True)
                    dst = os.path.join(VERIF, 'corpus', p, 'regress-%s.json' % sid)
                    with open(dst + '.tmp', 'w') as fh:          # (atomic: checks may be reading the corpus right now)
                        json.dump({'regress': 'seeded change %s' % sid, 'what': d.get('what'), 'replay': d['replay']}, fh, indent=1)
                    os.replace(dst + '.tmp', dst)
                    rec['saved'] = 'corpus/%s/regress-%s.json' % (p, sid)
            print(json.dumps(rec), flush=True)
    finally:
        sh('git -C %s worktree remove --force %s/repo' % (REPO, S))
        sh('rm -rf %s; git -C %s worktree prune' % (S, REPO))
    return 0


if __name__ == '__main__':
    sys.exit(main())
