#!/bin/sh
# run the pinned test suite of /repo (or $1) and print the pass/fail counts
R=${1:-/repo}
cd "$R" && PYTHONDONTWRITEBYTECODE=1 /venv/bin/python -m pytest -q -p no:cacheprovider --timeout=900 --continue-on-collection-errors 2>&1 | tail -3
