#!/usr/bin/env python3
"""tools/seed_table.py <results.jsonl> : write seeded/RESULTS.md from mutest output lines and seeded/*/meta.json"""
import glob
import json
import os
import sys

VERIF = os.path.dirname(os.path.dirname(os.path.abspath(__file__)))
res = {}
for l in open(sys.argv[1]):
    if l.startswith('{'):
        d = json.loads(l)
        res[d['patch'].split('/')[1]] = d
lines = ['# Seeded changes and what reports them', '',
         'Each change keeps the pinned suite unchanged (125 passed, 1 failed, 19 skipped) and breaks the property named in its id;',
         'confirmed in a scratch worktree by `tools/seed_verify.sh`.  Reports below: `tools/mutest.py seeded/<id>/patch.diff <PROP>` (quick tier, seed 0).', '',
         '| id | change | files | reported by | kind | what the check says |', '|---|---|---|---|---|---|']
for d in sorted(glob.glob(os.path.join(VERIF, 'seeded', 'C*-*'))):
    sid = os.path.basename(d)
    meta = json.load(open(os.path.join(d, 'meta.json')))
    r = res.get(sid)
    if meta.get('superseded_by_fix'):
        rep, kind = 'no longer breaks the property', 'superseded by fix %s' % meta['superseded_by_fix']
        what = 'demo.py exits 0 with the patch applied on the repaired tree; the check reports nothing (rc=%s)' % (r['rc'] if r else '?')
    elif r is None:
        rep, kind, what = '(not run)', '', ''
    elif r['rc'] == 1 and r['violations']:
        rep = r['prop']
        kind = 'no-failing-input-found' if all('no-failing-input-found' in v for v in r['violations']) else 'concrete input'
        what = (r.get('what') or '').replace('|', '/').replace('\n', ' ')[:160]
    else:
        rep, kind, what = 'MISSED (rc=%s)' % r['rc'], '', ''
    lines.append('| %s | %s | %s | %s | %s | %s |' % (sid, meta.get('summary', '').replace('|', '/').replace('\n', ' ')[:220],
                                                ', '.join(os.path.basename(f) for f in meta.get('files', [])), rep, kind, what))
open(os.path.join(VERIF, 'seeded', 'RESULTS.md'), 'w').write('\n'.join(lines) + '\n')
print('wrote seeded/RESULTS.md with %d rows' % (len(lines) - 7))
