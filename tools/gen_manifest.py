#!/usr/bin/env python3
"""Regenerate /verif/MANIFEST.json from the table below (keeps the manifest valid at all times)."""
import json
import os

VERIF = os.path.dirname(os.path.dirname(os.path.abspath(__file__)))

NOTE_COMMON = ('Trusted: Lean 4.33 kernel + Mathlib as checked by it (axioms propext, Classical.choice, Quot.sound only; '
               'no sorry/native_decide/bv_decide/own axioms - audited on every run), the statements in '
               'lean/SageoptModel/Props/{id}.lean, the correspondence harness (harness/props/{lid}.py, Driver.lean) and '
               'its generators, harness/translate.py for generated constants. ')

# id -> dict(text, note, technique, design_ref)
CLAIMED = {
    'C18': dict(
        text='Theorems (unbounded sizes) about a Lean model of mod2rref/mod2linsolve/mod2nullspace/'
             'variable_sign_patterns that makes the same pivot and update choices as the numpy code; the model is '
             'tied to the code by an exhaustive (small sizes) + random differential test, entry by entry. '
             'A brute-force oracle over {0,1}^n confirms any disagreement on the implementation.',
        note='greedy heuristic fallback not modelled (excluded by the property); numpy integer arithmetic trusted.',
        technique='Lean 4 proof (induction over elimination steps) + model/implementation correspondence check',
        design_ref='DESIGN.md 4/C18'),
    'C10': dict(
        text='Theorems about a Lean model (generic in the scalar ring) of ECOS.apply, separate_cone_constraints, '
             'dualize_problem, Mosek._primal_apply/_dual_apply and the MOSEK tasks: feasible-set equivalence for every '
             'cone sequence, projection equivalence of slack separation for every dont_sep, weak duality / zero-gap '
             'optimality of the dualised form.  The model is tied to the code by an exhaustive (all cone sequences '
             'up to a length) + random differential test with exact rational data; the MOSEK calls are recorded '
             'by a stub module.  Cone-membership sampling and constructed primal/dual pairs confirm a failure on the '
             'implementation.',
        note='MOSEK API semantics are those of harness/stubs/mosek.py and the published cone definitions; existence of '
             'strong duality (a fact about cones, not the code) is not proved; scipy.sparse row selection trusted.',
        technique='Lean 4 proof (list induction over cone sequences, generic ring) + model/implementation correspondence check',
        design_ref='DESIGN.md 4/C10'),
    'C12': dict(
        text='Homomorphism theorems (coefficient level and evaluation against any multiplicative character of the exponent '
             'monoid) and representation invariants about a Lean model of Signomial/Polynomial construction, sum, product, '
             'without_zeros, +,-,*,/,**, ==, query_coeff that reproduces the row ORDER of alpha/c the numpy code produces. '
             'Tied to the code by random expression trees compared at representation level; constants (7-decimal rounding, '
             '1e-8 tolerance, numeric types) are regenerated from the source and pinned by theorems. An exact rational '
             'reference confirms failures on the implementation.',
        note='function equality is decided at coefficient level (linear independence of distinct exponentials not formalised); '
             'float64 arithmetic is exact on the generated domain by construction of the generator; mixed Signomial/Polynomial '
             'operands are not claimed.',
        technique='Lean 4 proof (list induction, commutative-ring algebra) + generated constants + model/implementation correspondence check',
        design_ref='DESIGN.md 4/C12'),
    'C13': dict(
        text='Theorems about the signomial model instantiated at affine-form coefficients (Lin): substitution of Variable '
             'values commutes with +, -, *, Signomial.sum, upcasting and without_zeros at the level of coefficient '
             'functions; the zero test used for dropping terms takes no value store as input (history independence is '
             'structural) and accepts only the identically-zero form. Tied to the code by random trees mixing numeric and '
             'Expression-coefficient operands evaluated under adversarial stored Variable values (0, NaN, leftovers), '
             'compared at representation level. Substitute-then-compute reference confirms failures.',
        note='coefficients are affine in ScalarVariables (no nonlinear atoms); assignments are rational; a ScalarExpression '
             'on the LEFT of a Signomial operator is rejected by coniclifts itself and is not claimed.',
        technique='Lean 4 proof (homomorphism lemmas over the Lin model) + model/implementation correspondence check',
        design_ref='DESIGN.md 4/C13'),
    'C16': dict(
        text='Theorems about a Lean model of row_correspondence / relative_coeff_vector / moment_reduction_array: tolerance '
             'matching is exact matching on 7-decimal rows, coefficients are placed row by row (hence order independent), '
             'the moment-reduction identity holds for every coefficient vector and every character, a missing exponent is an '
             'error. The tolerance constant is regenerated from the source and pinned by a theorem. Tied to the code by '
             'random and permuted triples (Variable and numeric multipliers), exact diff; exact expansion of s*h as oracle.',
        note='rows of g absent from alpha contribute nothing in relative_coeff_vector (adjudicated as intended: sig_solrec '
             'relies on it; see DESIGN F15).',
        technique='Lean 4 proof + generated constant + model/implementation correspondence check',
        design_ref='DESIGN.md 4/C16'),
    'C14': dict(
        text='Theorems about a Lean model of _partial/grad/hess, the grad_val/hess_val formulas, shift_coordinates, '
             'as_polynomial/as_signomial and Polynomial.__call__ on polynomial vectors: symbolic partials are the formal '
             'derivatives at coefficient level (and, for signomials, the real derivative via Mathlib HasDerivAt), mixed '
             'partials commute, the value formulas equal the values of the symbolic derivatives, shifting multiplies '
             'coefficients by the character of x0, composition evaluates to the composed polynomial. Tied to the code by '
             'representation-level diffs and by value comparisons at points where exponentials are exact powers of two.',
        note='signomial VALUES are compared at 1e-9 relative tolerance (numpy exp is not modelled); shift_coordinates claimed '
             'for Signomials only.',
        technique='Lean 4 proof (list algebra + Mathlib calculus) + model/implementation correspondence check',
        design_ref='DESIGN.md 4/C14'),
    'C07': dict(
        text='Theorems about a Lean model of the coniclifts compiler (epigraph substitution, per-atom epigraph rows, elementwise / '
             'product-cone / dual-product-cone / pow / PSD rows, triplet assembly, variable map): per-atom epigraph lemmas over R, '
             'dual-cone rows via exp_dual_iff, and compile_equiv (satisfying assignments = projections of the compiled system) under '
             'the decidable curvature condition Convex; variable-map and dimension theorems. The model reads the serialised STATE of '
             'real constraint objects built through the API and is compared exactly with compile_constrained_system (cols, A, b, K, '
             'variable_map). Definition-vs-system sampling (closed-form aux values, ECOS only to confirm) finds failing inputs.',
        note='Convex hypothesis forced by the proof: the excluded point is known finding F9 (nonconvex constraints silently relaxed, '
             'curvature check off by default); pow/PSD cones are abstract predicates; float semantics in the oracle use margins.',
        technique='Lean 4 proof (compiler-correctness style, Mathlib real analysis) + model/implementation correspondence check',
        design_ref='DESIGN.md 4/C07'),
    'C11': dict(
        text='Theorems about compilation as a state transformer on constraint objects and about finite histories of '
             'compilations interleaved with unrelated Variable creation: the objects keep their state (invariant by induction '
             'over all histories), every compile in any history equals the compile of a fresh copy up to the zero-valued dummy '
             'column, mixed index generations are rejected. Tied to the code by random histories over shared objects (compile '
             'sub-lists, Problem+solve, pickle round trips, clear_variable_indices, SAGE default flips): blocks, variable map and '
             'the serialised post-state of the objects are compared with the model; each compile/solve is also compared with a '
             'freshly rebuilt copy.',
        note='optimal values come from ECOS (1e-5 relative, failures inconclusive); CPython pickle trusted; the SAGE '
             'settings-snapshot clause is checked on the implementation (construct, flip default, compile vs fresh); SAGE models over the '
             'same exponents are interleaved in one process against fresh-process references; F23 (generation mix between objective and '
             'constraints compiled silently) repaired in /repo (3a96307).',
        technique='Lean 4 proof (induction over operation histories) + model/implementation correspondence check on histories',
        design_ref='DESIGN.md 4/C11'),
    'C01': dict(
        text='Theorems about a Lean model of ExpCoverHelper and PrimalSageCone.conic_form (ordinary, kernel-basis, conditional incl. '
             'lifted coordinates, forced equality, every cover family with i not in cover(i), any presolve answers): every assignment '
             'satisfying the compiled rows yields AGE vectors that sum to at most c, have nonnegative off-index entries and define '
             'signomials nonnegative on all of X, hence the certified signomial is nonnegative on X (ord_age_sound / cond_age_sound + '
             'row semantics). The model is compared exactly with the real constraint (cover helper, rows, ids) over random instances x '
             'settings; solved instances are audited against the certificate facts on sampled points of X.',
        note='exact sigma (solver tolerance outside the theorem; audit turns residuals into a delta); kernel basis needs mat@B=0 '
             '(checked on every constructed cone, with range B = ker mat by an exact rational rank; F26 repaired in /repo db10f52: '
             'absolute rank threshold made certificates unsound for small exponents); ECOS only in the audit.',
        technique='Lean 4 proof (Mathlib real analysis: exp/log convexity) + model/implementation correspondence check + certificate audit',
        design_ref='DESIGN.md 4/C01'),
    'C02': dict(
        text='Theorems about a Lean model of DualSageCone.conic_form (compact and epigraph form, perspective rows of X, sign '
             'information, covers): for every x in X (with lift), every t >= 0 and every assignment under which v is the moment vector '
             't*exp(alpha x), the assignment extends by mu_i = v_i x~ (and epi) to a point of the compiled system - including the t = 0 '
             'corner of the closed exponential cone. Model compared exactly with the real constraint; moment assignments of sampled '
             'points of X are plugged into the REAL compiled system.',
        note='membership of moment assignments in the real system is decided in floating point with a margin (moment vectors satisfy '
             'the relative-entropy rows with equality; on-boundary points are accepted).',
        technique='Lean 4 proof (constructed witness assignment, closed exponential cone) + model/implementation correspondence check',
        design_ref='DESIGN.md 4/C02'),
    'C20': dict(
        text='Theorems about the allocator state machine (index uniqueness within a generation by induction over all session '
             'histories, the symmetric layout, generation windows of sessions with random offsets are disjoint, slices share '
             'components, and for EVERY unpickling order the proper Variable ends up as the parent of its components). Tied to the '
             'code by random histories executed in fresh interpreter processes (one per session) with pickled graphs carried across; '
             'ids, names, generations, allocator counters and parent links are compared with the model; identity oracles (duplicate '
             'ids, improper parents, probe LP optimum, duplicate names in builder Problems) run on the implementation.',
        note='F25 repaired in /repo (d17d5c1: duplicate multiplier names when a constraint object is listed twice). per-session generation offsets are random 40-bit numbers: cross-session disjointness holds unless two sessions draw the '
             'same offset (probability 2^-40 per pair); CPython pickle trusted.',
        technique='Lean 4 proof (invariants over operation histories) + model/implementation correspondence check across interpreter sessions',
        design_ref='DESIGN.md 4/C20'),
    'C09': dict(
        text='Theorems about the glue around the solver: the exit-flag table (regenerated on every run by EXECUTING the real '
             'ECOS.parse_result for flags -20..20 and checked by decide against the model), the MIN/MAX sense flip incl. the signs of '
             'infeasible/unbounded, failure => NaN, and the value store as a state machine over ALL finite solve histories (every '
             'component of the solved Problem holds this solve\'s entry, 0 when not participating, NaN after any non-optimal outcome: '
             'no stale value survives). Tied to the code by random solve histories over Variable-sharing problems with forced failures; '
             'closed-form optima, constraint violations and objective values are checked on the implementation.',
        note='"equals the true optimum" is relative to the ECOS contract (exit flag 0 => optimal), checked per instance against '
             'closed forms; known finding F22: a primal-and-dual infeasible problem is reported as unbounded (ECOS flag 2).',
        technique='Lean 4 proof (decide over a table regenerated by executing the source; induction over solve histories) + correspondence check',
        design_ref='DESIGN.md 4/C09'),
    'C08': dict(
        text='Theorems about wirings (the normal form of an affine array operator: each output cell a linear combination of input '
             'cells plus a constant) over affine forms: naturality w.r.t. evaluation for EVERY assignment, composition, hence '
             'naturality of every straight-line program; normal forms are preserved; introspection = support of the value function; '
             'the equivalence test is sound and complete on affine cells. Tied to the code by random straight-line programs over '
             '44 operators: the wiring of every step is EXTRACTED from numpy by running the same numpy function on probe objects '
             '(validated on floats), the model applies it to the canonical affine forms of the real inputs, and the result is '
             'compared exactly with the real Expression; values under random assignments are compared with numpy; nonlinear '
             'operators with repeated / constant arguments against their definitions; are_equivalent on fixed pairs.',
        note='numpy\'s array algorithms are modelled, not verified (their wirings are extracted per run); scalar-level arithmetic with '
             'numpy scalar types outside __REAL_TYPES__ raises and is not claimed.',
        technique='Lean 4 proof (linear-algebraic naturality over Lin) + wiring extraction from numpy + correspondence check',
        design_ref='DESIGN.md 4/C08'),
    'C03': dict(
        text='PARTIAL (strong duality is proved only for posynomial-plus-constant objectives at level 0 over R^n - Props/C03Strong: the primal optimum is attained at inf f and equals the dual infimum, on the semantic rows of both compiled problems; for general signomials it is observed). Theorems about a Lean model of sig_primal / sig_dual: the constrained coefficient '
             'vector is that of (f - gamma) t^ell as a function of the real point, the modulator is positive, hence gamma <= f on X '
             'whenever the SAGE constraint certifies nonnegativity (C01); the dual attains f(x) at the scaled moment vector of every x '
             '(feasible by C02), so the dual value is <= f on X and the dual is feasible for nonempty X; weak duality given the cone '
             'pairing. The built Problem\'s data (exponent rows, coefficient vector affine in gamma, normalisation and objective vectors) '
             'are compared exactly with the model; both forms are solved and audited on sampled points of X.',
        note='equality of primal and dual values when both are finite (strong duality) is observed per instance, not proved; ECOS '
             'only in the audit.',
        technique='Lean 4 proof (composition of C01/C02/C12/C13/C16 results, real evaluation) + model/implementation correspondence check',
        design_ref='DESIGN.md 4/C03'),
    'C04': dict(
        text='PARTIAL (strong duality is not proved). Theorems about a Lean model of hierarchy_e_k, up_to_q_fold_cons and '
             'make_sig_lagrangian: every folded constraint is a product of at most q inputs, and the Lagrangian identity '
             'L = f - gamma - sum s_g g - sum z_h h holds as a function for EVERY assignment of gamma and the multiplier coefficients; '
             'at real points and real assignments the identity plus nonnegative Lagrangian and inequality multipliers give gamma <= f at every '
             'feasible point (constrained_primal_bound). '
             'The real make_sig_lagrangian output (q-fold sets, alpha_hat, every coefficient of L as an affine form) is compared '
             'exactly with the model; the identity is also checked on the real objects under random assignments; solved constrained '
             'relaxations are audited against f at sampled feasible points and primal <= dual; the Lagrangian a built Problem exposes in its metadata '
             'is checked against the identity with the builder\'s own multipliers at every level ell.',
        note='the code collects folded constraints in a Python set (order unspecified): compared as sets; bound theorems for the '
             'constrained builders reuse C03/C01/C02; strong duality observed only.',
        technique='Lean 4 proof (signomial algebra with symbolic coefficients) + model/implementation correspondence check',
        design_ref='DESIGN.md 4/C04'),
    'C19': dict(
        text='PARTIAL (what stays outside: the optimisation-based presolve answers and kernel_basis() are inputs; for conditional cones the heuristic reduction is the known finding F10; equality of solver VALUES is audited). The exclusion of definitely-negative indices from every cover and the restriction of AGE cones to possibly-negative indices is PROVED lossless on R^n (Props/C19Sign: sign_presolve_lossless / _sound - Murray-Chandrasekaran-Wierman Thm 2 / Cor 5 - from a function-level reduction by induction on the number of AGE summands and the exactness of the certificate, C06.ordAge_exact), and composed with the two other automatic reductions ON THE EXECUTABLE COVER HELPER (Props/C19Ordinary: defaultEch_covers_ordinary, ordFinal_lossless, model_ordinary_covers_lossless: what is certified with full covers is certified with the automatic covers, for pairwise distinct exponent rows). Theorems about the Lean model of the SAGE row generators '
             'with the five settings as inputs: compact and epigraph dual rows have the same feasible set (projection off the epigraph '
             'variables), forced equality of the AGE sum is equivalent to the inequality form exactly because equality is only demanded '
             'at reached indices, a trivial kernel forces nu = 0 (exact elimination), the sign-pattern cover simplification is lossless for nonnegative '
             'exponents with pairwise distinct rows (every certificate has nu_j = 0 at a dropped index; lossy when the zero row is duplicated, '
             'proved and reproduced), a single-index cover is trivial, and soundness (C01/C02) holds for every settings combination. The real constructors are run under all 32 settings (thorough) / 8 (quick), given globally and as per-constraint '
             'override, with automatic / full / user covers, and cover helper + rows are compared with the model; ECOS values are '
             'compared across the lattice.',
        note='F16 and F7 repaired in /repo (fadbad9, e1a32de); F10 (default heuristic reduction turns a feasible conditional certificate '
             'problem infeasible) is a recorded known finding; kernel_basis() itself (SVD/QR) is an input of the model.',
        technique='Lean 4 proof (option equivalences on the row model, exp-cone monotonicity, exact rank; sign-pattern reduction of SAGE decompositions via AGE completeness) + model/implementation correspondence check across the option lattice',
        design_ref='DESIGN.md 4/C19'),
    'C05': dict(
        text='PARTIAL (strong duality observed only; extension to zero coordinates proved for X = R^n). Theorems about a Lean model of '
             'Polynomial.sig_rep, create_covers, standard_multiplier, poly_primal / poly_dual and make_poly_lagrangian: the signomial '
             'representative is a minorant of p at every real point without zero coordinates, in every orthant, for numeric coefficients and '
             'for EVERY assignment of variable coefficients satisfying the side constraints; covers never contain odd rows; even modulators '
             'are nonnegative; the dual construction admits the signed moment vectors of every real point; a bound valid off the coordinate '
             'hyperplanes extends to all of R^n; for the constrained builders the Lagrangian identity at real points of ANY orthant plus nonnegative '
             'multipliers give gamma <= p at every feasible point (poly_constrained_bound). The real sig_rep / create_covers / poly_relaxation / make_poly_lagrangian outputs are '
             'compared exactly with the model; solved relaxations are audited at points of every orthant including zero coordinates.',
        note='composition with C01/C02/C03 (SAGE soundness, moments) gives the bound; strong duality observed only.',
        technique='Lean 4 proof (real analysis of monomials on orthants, signomial-representative algebra) + model/implementation correspondence check',
        design_ref='DESIGN.md 4/C05'),
    'C17': dict(
        text='PARTIAL (the least-squares candidate, COBYLA refinement and the polynomial magnitude / sign recovery are inputs of the model; the '
             'dual-AGE-cone candidate generation is modelled exactly: weights sum to one, the unique step neither invents nor loses a candidate, '
             'and at a moment solution mu_i = v_i x the candidate list is exactly [x] - Props/C17Cands; the real '
             '_dual_age_cone_solution_recovery is compared with the model on float-exact inputs). Theorems about a Lean model of the final stage of sig_solrec / '
             'poly_solrec over float-like values (numbers, +-inf, NaN): a candidate passes the filter iff every inequality value is a number '
             '>= -ineq_tol and every equality value a number within eq_tol (NaN never passes); exactly the passing candidates are returned, '
             'each once, sorted stably by objective. The real is_feasible is compared with the model on synthetic values; the real '
             'sig_solrec / poly_solrec are run on solved dual relaxations (X none / plain / with auxiliary columns, option grid) with a recorder '
             'around is_feasible, and verdicts and output order are compared with the model; every returned point is re-evaluated independently.',
        note='F8 repaired in /repo (c86e180 lifted PolyDomain crash, cfea74b NaN passes the filter); F24 repaired in /repo (d08cc1e: recovery raised when a constraint was absent from the Lagrangian, e.g. x_i >= 0 at q = 2).',
        technique='Lean 4 proof (filter / stable-sort model over float-like values; exact candidate-generation model over rationals) + model/implementation correspondence check with recorded candidates',
        design_ref='DESIGN.md 4/C17'),
    'C15': dict(
        text='PARTIAL (the compiled form of the generated constraints is C07\'s subject; emptiness detection relies on the solver). Theorems '
             'about a Lean model of valid_posynomial_inequalities / valid_monomial_equations / valid_gp_representable_poly_* / '
             'clcons_from_standard_gprep / infer_domain and of the column reordering in parse_coniclifts_constraints: normalisation keeps '
             'the set, the generated log-space constraints describe exactly the kept constraints, every point satisfying all of gts and eqs '
             'lies in the inferred set (polynomials: in log|x|, every orthant), the reordered matrix applied to (x, aux) is the compiled row. '
             'The real infer_domain (kept constraints, every generated coniclifts constraint with its data) and the real SigDomain / PolyDomain '
             'parsing (A, b, K) are compared with the model; random points are audited: constraints vs X.gts/X.eqs vs check_membership vs '
             'conic data with the first n columns as x; suppfunc on boxes; emptiness at construction.',
        note='F14 (degenerate constraints raise IndexError) is modelled as raising: it does not produce a wrong set.',
        technique='Lean 4 proof (real analysis of posynomial normalisation, log-space forms, column reordering) + model/implementation correspondence check',
        design_ref='DESIGN.md 4/C15'),
    'C06': dict(
        text='PARTIAL (completeness of AGE certificates is PROVED on all of R^n - ordAge_exact: the compiled relative-entropy certificate '
             'exists iff the one-negative-term signomial is nonnegative, ordAge_bound_exact: level-0 bound of posynomial + constant = inf f, attained '
             'or not; proof by a limit of explicit box certificates - and on compact boxes - box_exact, box_bound_exact, by '
             'first-order optimality with the explicit certificate; on convex domains other than R^n and boxes it is not proved; monotonicity in ell / X is audited; the box\'s conic form of the theorem is tied to the real SigDomain through the driver). '
             'Theorems about the semantic AGE certificate (the predicate the compiled rows express, C01): soundness; invariance under '
             'translation, invertible linear change of variables, positive scaling, exponent shift and re-indexing; larger covers only help and '
             'dropping a cover index can lose a certificate; circuit completeness with the closed-form circuit number, sharp on the midpoint '
             'circuit. The real cover helper is compared with the model on circuits and their transformed copies; the real solver is audited: '
             'feasibility on circuits at 0.5 / 0.98 / 1.02 / 1.5 x circuit number, level-0 bounds vs closed forms, one-negative-term signomials '
             'over boxes vs rigorous grid + Lipschitz enclosures, bounds under permutation / unimodular change / translation / affine scaling, '
             'ell 0 vs 1, box vs sub-box.',
        note='F10 (default heuristic reduction loses exactness over boxes) is a recorded known finding shared with C19.',
        technique='Lean 4 proof (real analysis of relative-entropy certificates: invariances, circuit number, completeness on boxes by compactness + first-order optimality) + model/implementation correspondence of the cover presolve and of the box conic form + metamorphic solver audit',
        design_ref='DESIGN.md 4/C06'),
}

NOT_YET = 'check not built yet in this session (planned, see DESIGN.md section 6); not claimed until its theorems and correspondence exist'


def main():
    props = [json.loads(l) for l in open(os.path.join(VERIF, 'properties.jsonl'))]
    checks, na = [], []
    for p in props:
        pid = p['id']
        if pid in CLAIMED:
            c = CLAIMED[pid]
            checks.append({
                'property_id': pid,
                'quick_cmd': '/venv/bin/python harness/vcheck.py %s --tier quick' % pid,
                'thorough_cmd': '/venv/bin/python harness/vcheck.py %s --tier thorough' % pid,
                'evidence_file': 'evidence/%s.json' % pid,
                'replay_cmd_template': '/venv/bin/python harness/vcheck.py %s --replay {path}' % pid,
                'engine': 'lean4-model+correspondence',
                'level_claimed': {'category': 'proof', 'text': c['text'], 'design_ref': c['design_ref']},
                'level_note': NOTE_COMMON.format(id=pid, lid=pid.lower()) + c['note'],
                'technique': c['technique'],
            })
        else:
            na.append({'property_id': pid, 'reason': NOT_YET})
    man = {
        'version': 1,
        'setup_cmd': 'sh tools/setup.sh',
        'hooks': {
            'guard': 'SAGEOPT_VERIF',
            'enable': 'no source hooks are needed: the harness imports sageopt from /repo in-process and reaches '
                      'counters, settings and solver parameters through public attributes',
            'baseline_off_cmd': 'cd /repo && /venv/bin/python -m pytest -ra -q -p no:cacheprovider --timeout=900 '
                                '--continue-on-collection-errors',
            'source_commits': [],
            'add_only': True,
        },
        'engines': [{
            'name': 'lean4-model+correspondence',
            'path': 'lean/ (lake project SageoptModel), harness/vcheck.py',
            'serves_properties': sorted(CLAIMED),
            'kind_free_text': 'Lean 4 theorems about an executable model; the model is run (lake env lean --run '
                              'Driver.lean) against the real Python implementation on generated inputs; constants and '
                              'tables are regenerated from the source by harness/translate.py',
        }],
        'checks': checks,
        'notes': 'See DESIGN.md. known_findings.json lists genuine defects (known / fixed).',
        'not_applicable': na,
    }
    with open(os.path.join(VERIF, 'MANIFEST.json'), 'w') as f:
        json.dump(man, f, indent=1)
    print('claimed:', sorted(CLAIMED), 'unclaimed:', len(na))


if __name__ == '__main__':
    main()
