#!/bin/sh
# tools/run_all.sh [quick|thorough] [seed]: run every claimed check once, print one line per property
TIER=${1:-quick}; SEED=${2:-0}
cd "$(dirname "$0")/.."
for P in C01 C02 C03 C04 C05 C06 C07 C08 C09 C10 C11 C12 C13 C14 C15 C16 C17 C18 C19 C20; do
  START=$(date +%s)
  OUT=$(VERIF_SEED=$SEED /venv/bin/python harness/vcheck.py $P --tier $TIER 2>&1)
  RC=$?
  END=$(date +%s)
  echo "$P rc=$RC $((END-START))s $(echo "$OUT" | grep -c '^VIOLATION') violations, $(echo "$OUT" | grep -c '^KNOWN-FINDING') known | $(echo "$OUT" | tail -1)"
done
