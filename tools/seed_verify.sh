#!/bin/sh
# tools/seed_verify.sh <PROP> <k> [worktree-prefix out-prefix stored-index]: confirm a seeded change in its scratch worktree /tmp/mut_<PROP>:
# patch applies, suite unchanged, demo exits 1 with the patch and 0 without; then store it under seeded/<PROP>-<k>/
P=$1; K=$2; WT=/tmp/${3:-mut}_$P; OUT=/tmp/${4:-mutout}_$P; ID=${5:-$K}
cd $WT || exit 2
git checkout -q -- . ; git clean -fdq -- sageopt
/venv/bin/python $OUT/demo$K.py > /tmp/seedv_${P}_$K.clean.txt 2>&1; RC0=$?
git apply $OUT/patch$K.diff || { echo "$P-$K: patch does not apply"; exit 1; }
SUITE=$(PYTHONDONTWRITEBYTECODE=1 /venv/bin/python -m pytest -q -p no:cacheprovider --timeout=900 --continue-on-collection-errors 2>&1 | tail -1)
/venv/bin/python $OUT/demo$K.py > /tmp/seedv_${P}_$K.mut.txt 2>&1; RC1=$?
git checkout -q -- . ; git clean -fdq -- sageopt
echo "$P-$K: demo clean rc=$RC0 mutated rc=$RC1 suite: $SUITE"
case "$SUITE" in *"1 failed, 125 passed, 19 skipped"*) OKS=1;; *) OKS=0;; esac
if [ "$RC0" = 0 ] && [ "$RC1" = 1 ] && [ "$OKS" = 1 ]; then
  D=/verif/seeded/$P-$ID; mkdir -p $D
  cp $OUT/patch$K.diff $D/patch.diff; cp $OUT/demo$K.py $D/demo.py; cp $OUT/meta$K.json $D/meta.json
  tail -5 /tmp/seedv_${P}_$K.mut.txt > $D/demo_output_mutated.txt
  echo "$P-$K: CONFIRMED -> $D"
else
  echo "$P-$K: NOT confirmed"
fi
