#!/bin/sh
# MANIFEST.setup_cmd: build the Lean project from files on disk only (offline): the driver and every property file.
set -e
cd "$(dirname "$0")/.."
PYTHONDONTWRITEBYTECODE=1 /venv/bin/python harness/translate.py
cd lean
lake build
MODS=$(ls SageoptModel/Props/*.lean | sed 's|/|.|g; s|\.lean$||')
lake build $MODS
