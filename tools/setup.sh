#!/bin/sh
# MANIFEST.setup_cmd: build the Lean project from files on disk only (offline).
set -e
cd "$(dirname "$0")/.."
PYTHONDONTWRITEBYTECODE=1 /venv/bin/python harness/translate.py
cd lean
lake build
