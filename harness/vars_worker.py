"""
Session worker for C20 histories.  Every interpreter SESSION of a history runs in its own fresh Python process
(`python vars_worker.py`): the process imports sageopt, reads ONE request (a JSON list of operations + pickled
blobs carried over from earlier sessions), executes it and prints one JSON line with the observations.
The harness keeps a pool of pre-started workers so that the interpreter start-up overlaps.
"""
import base64
import json
import os
import pickle
import sys
import warnings

warnings.filterwarnings('ignore')
sys.dont_write_bytecode = True
# the implementation is imported from the working tree under check (SAGEOPT_REPO, default /repo), never from an installed copy
sys.path.insert(0, os.environ.get('SAGEOPT_REPO', '/repo'))

import numpy as np  # noqa: E402
import sageopt.coniclifts as cl  # noqa: E402
from sageopt.coniclifts.base import ScalarVariable, Variable  # noqa: E402


def alloc_state():
    return {'counter': int(ScalarVariable._SCALAR_VARIABLE_COUNTER), 'gen': int(Variable._VARIABLE_GENERATION),
            'unnamed': int(Variable._UNNAMED_VARIABLE_CALL_COUNT)}


def info(v):
    return {'name': v.name, 'ids': [int(i) for i in v.scalar_variable_ids], 'gen': int(v.generation), 'proper': bool(v.is_proper()),
            'shape': list(v.shape)}


def run_session(ops, blobs):
    objs = {}        # handle -> object
    out = []
    for op in ops:
        k = op['k']
        try:
            if k == 'create':
                kw = {}
                if op.get('name') is not None:
                    kw['name'] = op['name']
                if op.get('sym'):
                    kw['var_properties'] = ['symmetric']
                v = cl.Variable(shape=tuple(op['shape']), **kw)
                objs[op['h']] = v
                out.append({'var': info(v), 'alloc': alloc_state()})
            elif k == 'clear':
                cl.clear_variable_indices()
                out.append({'alloc': alloc_state()})
            elif k == 'slice':
                v = objs[op['of']]
                if v.ndim == 1:
                    s = v[op['a']:op['b']]
                else:
                    s = v[op['a'] % v.shape[0]]          # a row (or, for 0-d, never generated)
                objs[op['h']] = s
                out.append({'var': info(s)})
            elif k == 'dump':
                graph = [objs[h] for h in op['hs']]
                blobs[op['slot']] = base64.b64encode(pickle.dumps(graph)).decode()
                out.append({'dumped': len(graph)})
            elif k == 'load':
                graph = pickle.loads(base64.b64decode(blobs[op['slot']]))
                res = []
                for h, o in zip(op['hs'], graph):
                    objs[h] = o
                    res.append(info(o))
                # parent links: for every scalar variable reachable, which loaded object is its parent?
                links = {}
                for gi, o in enumerate(graph):
                    for tup in np.ndindex(*o.shape):
                        sv = list(o[tup].atoms_to_coeffs)[0]
                        par = sv.parent
                        pi = None
                        for gj, o2 in enumerate(graph):
                            if par is o2:
                                pi = gj
                        links[int(sv.id)] = pi
                out.append({'vars': res, 'links': sorted(links.items()), 'alloc': alloc_state()})
            elif k == 'solve':
                # min sum of all listed variables subject to v >= offset_k: detects index collisions
                vs = [objs[h] for h in op['hs']]
                offs = op['offs']
                obj = None
                cons = []
                for v, o in zip(vs, offs):
                    e = cl.sum(v) if v.ndim > 0 else v
                    obj = e if obj is None else obj + e
                    cons.append(v >= o)
                p = cl.Problem(cl.MIN, obj, cons)
                st, val = p.solve(solver='ECOS', verbose=False)
                names = [v.name for v in p.all_variables]
                out.append({'status': st, 'value': float(val), 'names': names})
            else:
                out.append({'error': 'unknown op'})
        except Exception as e:  # noqa: BLE001
            out.append({'raises': type(e).__name__, 'msg': str(e)[:160], 'alloc': alloc_state()})
    return out, blobs


def main():
    print(json.dumps({'ready': alloc_state()}))
    sys.stdout.flush()
    line = sys.stdin.readline()
    if not line.strip():
        return
    req = json.loads(line)
    try:
        out, blobs = run_session(req['ops'], req.get('blobs', {}))
        payload = json.dumps({'out': out, 'blobs': blobs})
    except Exception as e:  # noqa: BLE001
        payload = json.dumps({'fatal': '%s: %s' % (type(e).__name__, e)})
    sys.stdout.write(payload + '\n')
    sys.stdout.flush()


if __name__ == '__main__':
    main()
