"""
Relaxation builders: instance generators, extraction of the built problem's data from the real coniclifts Problem, canonical
forms (rows of the exponent matrix sorted), and numerical helpers for the bound audits.  Shared by C03, C04, C05, C06, C17, C19.
"""
import math
from fractions import Fraction as F

import numpy as np

import sigtree as st
from common import frac_str


def fr(x):
    return frac_str(F(float(x)))


def sig_leaf(alpha, c, poly=False):
    n = len(alpha[0])
    return {'k': 'sig', 'poly': poly, 'n': n, 'alpha': [[frac_str(F(x)) for x in r] for r in alpha], 'c': [frac_str(F(x)) for x in c]}


def gen_sig(rng, n=None, m=None, bounded=True, near=False):
    """a small signomial; with `bounded` the negative terms lie inside the convex hull of positive ones (so that SAGE bounds are
    finite often enough for the audits)"""
    n = n or rng.randint(1, 2)
    m = m or rng.randint(2, 5)
    rows, seen = [], set()
    corners = [[F(0)] * n] + [[F(2 * rng.randint(1, 2)) if j == i else F(0) for j in range(n)] for i in range(n)]
    for r in corners:
        if tuple(r) not in seen and len(rows) < m:
            seen.add(tuple(r))
            rows.append(r)
    tries = 0
    while len(rows) < m and tries < 100:
        tries += 1
        r = [F(rng.randint(0, 4), 2) for _ in range(n)] if bounded else [F(rng.randint(-2, 4), 2) for _ in range(n)]
        if tuple(r) not in seen:
            seen.add(tuple(r))
            rows.append(r)
    if near and len(rows) >= 2 and rng.random() < 0.25:
        # an exponent that differs from another one only in the 6th decimal: distinct after the 7-decimal rounding
        base = list(rows[rng.randrange(len(rows))])
        base[rng.randrange(n)] += F(5, 10 ** 6)
        if tuple(base) not in seen:
            rows.append(base)
    c = []
    for i, r in enumerate(rows):
        if i < len(corners):
            c.append(F(rng.choice([1, 2, 3])))
        else:
            c.append(F(rng.choice([-3, -2, -1, 1, 2])))
    if rng.random() < 0.3:
        c[0] = F(rng.choice([0, -1, 2]))          # constant term absent / negative
    return sig_leaf(rows, c)


def gen_box(rng, n, eq=False, eqfirst=False):
    if eq and n == 2 and rng.random() < 0.3:
        lo = F(rng.randint(-2, 0))
        return {'eqbox': [frac_str(lo), frac_str(lo + rng.randint(1, 3))]}
    lo = [F(rng.randint(-2, 0)) for _ in range(n)]
    hi = [l + rng.randint(1, 3) for l in lo]
    if eqfirst and n >= 2 and rng.random() < 0.3:
        # a degenerate box: coordinate j is fixed, by an EQUALITY that is listed before the inequalities of the other coordinates
        j = rng.randrange(n)
        lo[j] = hi[j] = F(rng.randint(-4, 4), 4)
        return {'lo': [frac_str(x) for x in lo], 'hi': [frac_str(x) for x in hi], 'eqfirst': j}
    return {'lo': [frac_str(x) for x in lo], 'hi': [frac_str(x) for x in hi]}


def build_sig_domain(n, box):
    """SigDomain {lo <= x <= hi} (or {a_k . x <= b_k} for box = {'lin': [[a_k, b_k], ...]}) through coniclifts constraints, with
    gts/eqs for membership tests"""
    import sageopt.coniclifts as cl
    from sageopt.symbolic.signomials import SigDomain
    if box is None:
        return None
    x = cl.Variable(shape=(n,), name='relax_box_x_%d' % build_sig_domain.k)
    build_sig_domain.k += 1
    if 'eqbox' in box:
        # {x0 + x1 == 0, lo <= x0 <= hi}, the EQUALITY listed first
        lo, hi = float(F(box['eqbox'][0])), float(F(box['eqbox'][1]))
        return SigDomain(n, coniclifts_cons=[x[0] + x[1] == 0, x[0] >= lo, x[0] <= hi],
                         gts=[lambda z: z[0] - lo, lambda z: hi - z[0]], eqs=[lambda z: z[0] + z[1]])
    if 'lin' in box:
        rows = [(np.array([float(F(v)) for v in a]), float(F(b))) for a, b in box['lin']]
        return SigDomain(n, coniclifts_cons=[(a @ x) <= b for a, b in rows],
                         gts=[(lambda z, a=a, b=b: b - a @ z) for a, b in rows], eqs=[])
    lo = np.array([float(F(x)) for x in box['lo']])
    hi = np.array([float(F(x)) for x in box['hi']])
    if 'eqfirst' in box:
        j = box['eqfirst']
        rest = [i for i in range(n) if i != j]
        cons = [x[j] == lo[j]] + [x[i] >= lo[i] for i in rest] + [x[i] <= hi[i] for i in rest]
        return SigDomain(n, coniclifts_cons=cons,
                         gts=[(lambda z, i=i: z[i] - lo[i]) for i in rest] + [(lambda z, i=i: hi[i] - z[i]) for i in rest],
                         eqs=[lambda z: z[j] - lo[j]])
    X = SigDomain(n, coniclifts_cons=[x >= lo, x <= hi],
                  gts=[(lambda z, i=i: z[i] - lo[i]) for i in range(n)] + [(lambda z, i=i: hi[i] - z[i]) for i in range(n)], eqs=[])
    return X


build_sig_domain.k = 0


def box_points(rng, n, box, count):
    if box is None:
        return [[rng.randint(-6, 6) / 4.0 for _ in range(n)] for _ in range(count)]
    if 'eqbox' in box:
        lo, hi = float(F(box['eqbox'][0])), float(F(box['eqbox'][1]))
        out = []
        for _ in range(count):
            x0 = lo + (hi - lo) * rng.randint(0, 8) / 8.0
            out.append([x0, -x0] + [0.0] * (n - 2))
        return out
    lo = [float(F(x)) for x in box['lo']]
    hi = [float(F(x)) for x in box['hi']]
    pts = [[lo[i] + (hi[i] - lo[i]) * rng.randint(0, 8) / 8.0 for i in range(n)] for _ in range(count)]
    pts.append(lo)
    pts.append(hi)
    return pts


def sig_eval_leaf(leaf, x):
    a = np.array([[float(F(v)) for v in r] for r in leaf['alpha']], dtype=float)
    c = np.array([float(F(v)) for v in leaf['c']], dtype=float)
    return float(c @ np.exp(a @ np.asarray(x, dtype=float)))


# ------------------------------------------------------------------------------------------------
# extraction from real Problems
# ------------------------------------------------------------------------------------------------

def lin_cell(se, id2k):
    from sageopt.coniclifts.base import ScalarExpression
    if not isinstance(se, ScalarExpression):
        return {'off': fr(se), 'co': []}
    acc = {}
    for a, c in se.atoms_to_coeffs.items():
        k = id2k[a.id]
        acc[k] = acc.get(k, F(0)) + F(float(c))
    return {'off': fr(se.offset), 'co': [[k, frac_str(v)] for k, v in sorted(acc.items()) if v != 0]}


def sort_rows(alpha, *cols):
    """sort exponent rows lexicographically (as Fractions) and permute the companion vectors accordingly"""
    keyed = sorted(range(len(alpha)), key=lambda i: [F(x) for x in alpha[i]])
    return [alpha[i] for i in keyed], [[col[i] for i in keyed] for col in cols]


def mat_json7(alpha):
    """exponent rows as exact rationals on the 10^-7 grid (what the constructor's np.round(., 7) means)"""
    out = []
    for row in np.asarray(alpha, dtype=float).tolist():
        out.append([frac_str(F(round(F(float(v)) * 10 ** 7), 10 ** 7)) for v in row])
    return out


def extract_primal(prob):
    con = prob.constraints[0]
    gamma = [v for v in prob.all_variables if v.name == 'gamma'][0]
    id2k = {gamma.scalar_variable_ids[0]: 0}
    alpha = mat_json7(con.alpha)
    c = [lin_cell(se, id2k) for se in con.c.flat]
    alpha, (c,) = sort_rows(alpha, c)
    return {'alpha': alpha, 'c': c}


def extract_dual(prob):
    con = prob.constraints[0]
    v = con.v
    vids = [int(i) for i in v.scalar_variable_ids]
    id2pos = {sid: k for k, sid in enumerate(vids)}
    alpha = mat_json7(con.alpha)
    gammas = {}
    cells = []
    from sageopt.coniclifts.base import ScalarExpression
    for se in con.c.flat:
        if isinstance(se, ScalarExpression):
            for a in se.atoms_to_coeffs:
                gammas.setdefault(a.id, 0)
        cells.append(lin_cell(se, {g: 0 for g in gammas} if gammas else {}))
    eq = prob.constraints[1]
    a = ['0'] * len(vids)
    se = eq.expr.flat[0]
    for atom, co in se.atoms_to_coeffs.items():
        a[id2pos[atom.id]] = fr(co)
    rhs = fr(-se.offset)
    obj = ['0'] * len(vids)
    ose = prob.objective_expr.ravel()[0]
    for atom, co in ose.atoms_to_coeffs.items():
        obj[id2pos[atom.id]] = fr(co)
    alpha, (cells, a, obj) = sort_rows(alpha, cells, a, obj)
    return {'alpha': alpha, 'c': cells, 'a': a, 'obj': obj, 'rhs': rhs}


def canon_model_primal(mo):
    alpha, (c,) = sort_rows(mo['alpha'], mo['c'])
    return {'alpha': alpha, 'c': c}


def canon_model_dual(mo):
    alpha, (c, a, obj) = sort_rows(mo['alpha'], mo['c'], mo['a'], mo['obj'])
    return {'alpha': alpha, 'c': c, 'a': a, 'obj': obj, 'rhs': '1'}


def _solve_ecos_here(prob):
    try:
        st_, val = prob.solve(solver='ECOS', verbose=False)
        return st_, float(val)
    except Exception as e:  # noqa: BLE001
        return 'raised:' + type(e).__name__, float('nan')


def solve_ecos(prob):
    """(status, value) of the real Problem.solve with ECOS, computed in a forked child (the solver may crash)"""
    import common
    kind, res = common.forked(_solve_ecos_here, prob, timeout=120)
    if kind == 'ok':
        return res
    return 'solver-%s' % kind, float('nan')
