"""
C05 -- polynomial relaxations bound the minimum over all sign orthants.

Model: lean/SageoptModel/Model/Poly.lean (sigRep, createCovers, stdMultiplier, polyPrimal, polyDual, makePolyLagrangian);
theorems: Props/C05.lean.
Tie (structure):
  sigrep      random polynomials with numeric AND affine (symbolic) coefficients -> the real Polynomial.sig_rep (signomial
              representative, side constraints) and create_covers, compared exactly with the model;
  relaxation  random numeric polynomials, (poly_ell, sigrep_ell, form, X) -> the real poly_relaxation Problem: exponents and
              coefficient cells of the SAGE constraint, covers, side constraints, even/odd structure of the dual, a, obj;
  lagrangian  make_poly_lagrangian(f, gts, eqs, p, q): q-fold lists (sets), multiplier exponents, every coefficient of L.
Oracle / audit: p(x) >= sr(log|x|) on the real objects at random points of every orthant under random assignments satisfying the
side constraints; solved relaxations vs p at sampled real points of all orthants INCLUDING zero coordinates; primal <= dual.
"""
import itertools
import math
from fractions import Fraction as F

import numpy as np

import common
import relaxmodel as rm
import sigtree as st
from common import frac_str, run_driver

TRUSTED = [
    'Lean 4.33.0 kernel; axioms of every theorem in Props/C05*.lean within {propext, Classical.choice, Quot.sound}',
    'harness/relaxmodel.py, harness/sigtree.py, harness/props/c05.py (extraction of the built Problem\'s data; the expected shape of the '
    'three elementwise constraints of relative_dual_sage_poly_cone is rebuilt from the model\'s even/odd mask)',
    'ECOS in the audit stream only (statuses other than solved are inconclusive; tolerance 1e-5 relative)',
]
ASSUME = [
    'strong duality is observed, not proved (partial)',
    'the bound theorems compose the polynomial-specific facts proved here with C01/C02/C03 (SAGE soundness, moments); for a PolyDomain '
    'the extension to points with zero coordinates is proved for X = R^n only and observed for domains',
]

CHAT0 = 1000


def gen_poly(rng, n=None, m=None, bounded=True):
    """numeric polynomial leaf: nonnegative integer exponents <= 4, even and odd monomials mixed"""
    n = n or rng.randint(1, 2)
    m = m or rng.randint(2, 5)
    rows, seen = [], set()
    corners = [[F(0)] * n] + [[F(rng.choice([2, 4])) if j == i else F(0) for j in range(n)] for i in range(n)]
    for r in corners:
        if tuple(r) not in seen and len(rows) < m:
            seen.add(tuple(r))
            rows.append(r)
    tries = 0
    while len(rows) < m and tries < 100:
        tries += 1
        r = [F(rng.randint(0, 3)) for _ in range(n)]
        if tuple(r) not in seen:
            seen.add(tuple(r))
            rows.append(r)
    c = []
    for i, r in enumerate(rows):
        if i < len(corners):
            c.append(F(rng.choice([1, 2, 3])))
        else:
            c.append(F(rng.choice([-3, -2, -1, 1, 2])))
    if rng.random() < 0.25:
        c[0] = F(rng.choice([0, -1, 2]))
    if not bounded and rng.random() < 0.5 and len(c) > 1:
        c[1] = F(-1)
    return rm.sig_leaf(rows, c, poly=True)


def gen_sym_poly(rng):
    n = rng.randint(1, 2)
    m = min(rng.randint(1, 5), 4 ** n)
    rows, seen = [], set()
    while len(rows) < m:
        r = tuple(F(rng.randint(0, 3)) for _ in range(n))
        if r not in seen:
            seen.add(r)
            rows.append(list(r))
    nv = rng.randint(1, 3)
    c = [st.lin_spec(rng, nv, p_const=0.45) for _ in rows]
    return {'k': 'sigL', 'poly': True, 'n': n, 'alpha': [[frac_str(x) for x in r] for r in rows], 'c': c}, nv


def cells_with_chat(c_expr, env_map):
    """cells of an Expression; scalar variables not in env_map are numbered CHAT0, CHAT0+1, ... in order of first appearance"""
    from sageopt.coniclifts.base import ScalarExpression
    chat = {}
    cells = []
    for se in (c_expr.flat if hasattr(c_expr, 'flat') else c_expr):
        if isinstance(se, np.ndarray):
            se = se.item()
        if not isinstance(se, ScalarExpression):
            cells.append({'off': rm.fr(se), 'co': []})
            continue
        acc = {}
        for a, co in se.atoms_to_coeffs.items():
            if a.id in env_map:
                k = env_map[a.id]
            else:
                k = chat.setdefault(a.id, CHAT0 + len(chat))
            acc[k] = acc.get(k, F(0)) + F(float(co))
        cells.append({'off': rm.fr(se.offset), 'co': [[k, frac_str(v)] for k, v in sorted(acc.items()) if v != 0]})
    return cells, chat


def side_json(cons, env_map, chat):
    """the two elementwise constraints c_hat <= c, c_hat <= -c  ->  [{'chat': id, 'c': cell}] (checked for shape)"""
    if not cons:
        return []
    assert len(cons) == 2, 'expected two side constraints'
    full = dict(env_map)
    full.update(chat)
    out = []
    c1 = [rm.lin_cell(se, full) for se in cons[0].expr.flat]        # c_hat - c <= 0
    c2 = [rm.lin_cell(se, full) for se in cons[1].expr.flat]        # c_hat + c <= 0
    assert cons[0].operator == '<=' and cons[1].operator == '<='
    for a, b in zip(c1, c2):
        ka = [k for k, _ in a['co'] if k >= CHAT0]
        assert len(ka) == 1, 'one c_hat per row'
        k = ka[0]
        ca = {kk: F(v) for kk, v in a['co']}
        cb = {kk: F(v) for kk, v in b['co']}
        assert ca.pop(k) == 1 and cb.pop(k) == 1
        # a = chat - c  =>  c = -(a - chat);  b = chat + c
        c_from_a = {'off': frac_str(-F(a['off'])), 'co': [[kk, frac_str(-v)] for kk, v in sorted(ca.items())]}
        c_from_b = {'off': frac_str(F(b['off'])), 'co': [[kk, frac_str(v)] for kk, v in sorted(cb.items())]}
        if c_from_a != c_from_b:
            raise AssertionError('side constraints are not (c_hat <= c, c_hat <= -c): %r vs %r' % (c_from_a, c_from_b))
        out.append({'chat': k, 'c': c_from_a})
    return out


def covers_json(covers):
    return [[int(i), [1 if x else 0 for x in covers[i]]] for i in sorted(covers)]


def model_cone_canon(mo, with_covers=True):
    out = {'alpha': mo['alpha'], 'c': mo['c'], 'side': mo['side']}
    if with_covers:
        out['covers'] = mo['covers']
    return out


# ------------------------------------------------------------------------------------------------

def stream_sigrep(ctx, rng, N, given=None):
    from sageopt.relaxations import sage_polys
    cases, lines, outs = [], [], []
    for leaf, nv in (given if given is not None else [gen_sym_poly(rng) for _ in range(N)]):
        env = st.SymEnv([nv])
        try:
            p = st.build_sym(leaf, env)
            sr, cons = p.sig_rep
            env_map = {sid: vid for sid, vid in env.id2vid.items()}
            cells, chat = cells_with_chat(sr.c, env_map)
            io = {'alpha': st.mat_json(sr.alpha), 'c': cells, 'side': side_json(cons, env_map, chat),
                  'covers': covers_json(sage_polys.create_covers(sr))}
            # the polynomial the code actually holds (zero rows may have been dropped by the constructor)
            pcells = [rm.lin_cell(se, env_map) for se in (p.c.flat if hasattr(p.c, 'flat') else p.c)]
            line = {'op': 'poly.sigrep', 'p': {'k': 'sigL', 'poly': True, 'n': leaf['n'], 'alpha': st.mat_json(p.alpha), 'c': pcells},
                    'chat': [CHAT0 + k for k in range(8)]}
            oracle = sigrep_oracle(rng, p, sr, cons, env)
            if not oracle:
                # the same polynomial scaled AFTER its representative was computed (what `-f`, `2 * f` of an already relaxed f are): the
                # representative of the product is a minorant of the product
                for kk in (-1.0, 3.0, -2.0):
                    q = kk * p if kk != -1.0 else -p
                    srq, consq = q.sig_rep
                    o2 = sigrep_oracle(rng, q, srq, consq, env)
                    if o2:
                        oracle = 'after p.sig_rep had been used, for %g * p: %s' % (kk, o2)
                        break
        except Exception as e:  # noqa: BLE001
            io = {'raises': type(e).__name__, 'msg': str(e)[:120]}
            line = {'op': 'poly.sigrep', 'p': leaf, 'chat': [CHAT0 + k for k in range(8)]}
            oracle = None
        cases.append((leaf, oracle, nv))
        lines.append(line)
        outs.append(io)
    mouts = run_driver(lines)
    for (leaf, oracle, nv), io, mo in zip(cases, outs, mouts):
        if isinstance(mo, dict) and 'error' in mo:
            raise common.DriverError(mo['error'])
        ctx.case({'stream': 'sigrep', 'p': leaf}, nontrivial=len(leaf['c']) >= 2)
        ctx.count('stream:sigrep')
        if 'raises' in io or 'raises' in mo:
            if ('raises' in io) != ('raises' in mo):
                ctx.disagreement('sigrep', leaf, io, mo)
            else:
                ctx.traces_validated += 1
            continue
        ctx.count('sigrep:side=%d' % len(io['side']))
        m = model_cone_canon(mo)
        if common.canon_json(io) != common.canon_json(m):
            ctx.disagreement('sigrep', leaf, io, m)
        else:
            ctx.traces_validated += 1
        if oracle:
            ctx.violation('signomial representative: ' + oracle, {'stream': 'sigrep', 'p': leaf, 'nv': nv})


def sigrep_oracle(rng, p, sr, cons, env):
    """p(x) >= sr(log|x|) at random points of random orthants, under a random assignment of the Variables in p.c and the largest
    c_hat the side constraints allow (c_hat = -|c|)"""
    vals = [F(rng.randint(-4, 4), 2) for _ in env.scalars]
    env.set_values([float(v) for v in vals])
    pc = np.asarray(p.c.value if hasattr(p.c, 'value') else p.c, dtype=float).ravel()
    # c_hat := -|c| on the rows that need variables
    if cons:
        chat_var = cons[0].lhs.variables()[0] if hasattr(cons[0].lhs, 'variables') else None
        need = [i for i, row in enumerate(p.alpha) if np.any(row % 2 != 0) and not isinstance(p.c[i], (int, float, np.floating)) and not p.c[i].is_constant()]
        chat_var.value = np.array([-abs(pc[i]) for i in need])
    sc = np.asarray(sr.c.value if hasattr(sr.c, 'value') else sr.c, dtype=float).ravel()
    for _ in range(12):
        x = np.array([rng.choice([-1, 1]) * rng.choice([0.25, 0.5, 1.0, 1.5, 2.0]) for _ in range(p.n)])
        pv = float(np.sum(pc * np.prod(np.power(x, p.alpha), axis=1)))
        sv = float(np.sum(sc * np.exp(sr.alpha @ np.log(np.abs(x)))))
        if pv < sv - 1e-9 * max(1.0, abs(sv)):
            return 'p(x) = %.9g < sr(log|x|) = %.9g at x = %s (coefficients p.c = %s, sr.c = %s)' % (pv, sv, x.tolist(), pc.tolist(), sc.tolist())
    return None


def build_poly_domain(n, box):
    """PolyDomain {lo <= log|x| <= hi}"""
    import sageopt.coniclifts as cl
    from sageopt.symbolic.polynomials import PolyDomain
    if box is None:
        return None
    lo = np.array([float(F(x)) for x in box['lo']])
    hi = np.array([float(F(x)) for x in box['hi']])
    y = cl.Variable(shape=(n,), name='poly_box_y_%d' % build_poly_domain.k)
    build_poly_domain.k += 1
    free = box.get('free', [])
    if free:
        # some coordinates occur in no constraint at all
        idx = [i for i in range(n) if i not in free]
        return PolyDomain(n, logspace_cons=[y[i] >= lo[i] for i in idx] + [y[i] <= hi[i] for i in idx],
                          gts=[(lambda z, i=i: abs(z[i]) - math.exp(lo[i])) for i in idx] + [(lambda z, i=i: math.exp(hi[i]) - abs(z[i])) for i in idx],
                          eqs=[])
    return PolyDomain(n, logspace_cons=[y >= lo, y <= hi],
                      gts=[(lambda z, i=i: abs(z[i]) - math.exp(lo[i])) for i in range(n)] + [(lambda z, i=i: math.exp(hi[i]) - abs(z[i])) for i in range(n)],
                      eqs=[])


build_poly_domain.k = 0


def relax_build(case, form):
    import sageopt as so
    f = st.build(case['f'])
    X = build_poly_domain(case['f']['n'], case['box'])
    return so.poly_relaxation(f, X=X, form=form, poly_ell=case['poly_ell'], sigrep_ell=case['sigrep_ell'])


def dual_aux_expected(evens):
    """canonical description of the elementwise constraints relative_dual_sage_poly_cone adds, from the even/odd mask"""
    ev = [j for j, e in enumerate(evens) if e]
    od = [j for j, e in enumerate(evens) if not e]
    if not od:
        return None
    return {'eq': [[j, j] for j in ev],                 # aux_v[j] - v[j] == 0
            'le1': [[j, j] for j in od],                # -aux_v[j] - v[j] <= 0
            'le2': [[j, j] for j in od]}                # v[j] - aux_v[j] <= 0


def dual_aux_real(cons, aux, v):
    """the three elementwise constraints as index pairs, with the coefficient pattern checked"""
    aid = {int(s): k for k, s in enumerate(aux.scalar_variable_ids)}
    vid = {int(s): k for k, s in enumerate(v.scalar_variable_ids)}

    def rows(con, pa, pv):
        out = []
        for se in con.expr.flat:
            a = [(aid[x.id], c) for x, c in se.atoms_to_coeffs.items() if x.id in aid and c != 0]
            w = [(vid[x.id], c) for x, c in se.atoms_to_coeffs.items() if x.id in vid and c != 0]
            assert len(a) == 1 and len(w) == 1 and se.offset == 0 and len(se.atoms_to_coeffs) == 2, 'unexpected row %r' % se
            assert a[0][1] == pa and w[0][1] == pv, 'unexpected coefficients %r %r' % (a, w)
            out.append([a[0][0], w[0][0]])
        return out
    assert cons[0].operator == '==' and cons[1].operator == '<=' and cons[2].operator == '<='
    return {'eq': rows(cons[0], 1.0, -1.0), 'le1': rows(cons[1], -1.0, -1.0), 'le2': rows(cons[2], -1.0, 1.0)}


def extract_relaxation(prob, form, case):
    """data of the built poly_relaxation Problem in the model's vocabulary"""
    gamma = [w for w in prob.all_variables if w.name == 'gamma' or w.name.startswith('unnamed')]
    con = prob.constraints[0]
    out = {}
    if form == 'primal':
        gam = [w for w in prob.all_variables if w.name == 'gamma'][0]
        env_map = {int(gam.scalar_variable_ids[0]): 0}
        cells, chat = cells_with_chat(con.c, env_map)
        out['alpha'], out['c'] = st.mat_json(con.alpha), cells
        extra = prob.constraints[1:]
        out['side'] = side_json(extra, env_map, chat)
        out['covers'] = covers_json({i: con.ech.covers[i] for i in con.ech.U_I}) if case['poly_ell'] > 0 and case['sigrep_ell'] == 0 else None
        return out
    # dual
    from sageopt.coniclifts.base import ScalarExpression
    v = [w for w in prob.all_variables if w.name == 'v'][0]
    vids = {int(s): k for k, s in enumerate(v.scalar_variable_ids)}
    gam_ids = {}
    for se in con.c.flat:
        if isinstance(se, ScalarExpression):
            for a in se.atoms_to_coeffs:
                gam_ids.setdefault(a.id, 0)
    cells, chat = cells_with_chat(con.c, gam_ids)
    out['alpha'], out['c'] = st.mat_json(con.alpha), cells
    out['side'] = []
    eqcon = prob.constraints[-1]
    a = ['0'] * len(vids)
    se = eqcon.expr.flat[0]
    for atom, co in se.atoms_to_coeffs.items():
        a[vids[atom.id]] = rm.fr(co)
    out['a'] = a
    assert rm.fr(-se.offset) == '1'
    obj = ['0'] * len(vids)
    ose = prob.objective_expr.ravel()[0]
    for atom, co in ose.atoms_to_coeffs.items():
        obj[vids[atom.id]] = rm.fr(co)
    out['obj'] = obj
    if case['poly_ell'] > 0:
        out['covers'] = covers_json({i: con.ech.covers[i] for i in con.ech.U_I})
        mid = prob.constraints[1:-1]
        if mid:
            aux = con.v if hasattr(con.v, 'scalar_variable_ids') else None
            out['aux'] = dual_aux_real(mid, con.v, v)
        else:
            out['aux'] = None
    return out


def canon_relax_model(mo, form, case):
    out = {'alpha': mo['alpha'], 'c': mo['c']}
    if form == 'primal':
        out['side'] = mo.get('side', [])
        out['covers'] = None
        if mo['kind'] == 'cone':
            out['covers'] = user_covers_after_verify(mo)
        return out
    out['side'] = []
    out['a'], out['obj'] = mo['a'], mo['obj']
    if mo['kind'] == 'cone':
        out['covers'] = user_covers_after_verify(mo)
        out['aux'] = dual_aux_expected(mo['evens'])
    return out


def user_covers_after_verify(mo):
    """the cone keeps covers[i] only for i in U_I (nonconstant or negative coefficient)"""
    U = []
    for i, c in enumerate(mo['c']):
        if c['co'] or F(c['off']) < 0:
            U.append(i)
    cov = dict((i, row) for i, row in mo['covers'])
    return [[i, cov[i]] for i in U if i in cov]


def sort_relax(d):
    """sort rows of alpha and permute everything indexed by rows"""
    order = sorted(range(len(d['alpha'])), key=lambda i: [F(x) for x in d['alpha'][i]])
    inv = {old: new for new, old in enumerate(order)}
    out = dict(d)
    out['alpha'] = [d['alpha'][i] for i in order]
    for k in ('c', 'a', 'obj'):
        if d.get(k) is not None:
            out[k] = [d[k][i] for i in order]
    if d.get('covers') is not None:
        out['covers'] = sorted([[inv[i], [row[j] for j in order]] for i, row in d['covers']])
    if d.get('aux') is not None:
        out['aux'] = {k: sorted([[inv[a], inv[b]] for a, b in rows]) for k, rows in d['aux'].items()}
    return out


def gen_relax_case(rng):
    f = gen_poly(rng)
    n = f['n']
    box = rm.gen_box(rng, n) if rng.random() < 0.35 else None
    if box is not None and n >= 2 and rng.random() < 0.4:
        box['free'] = [rng.randrange(n)]
    pe = rng.choice([0, 0, 1, 1, 2])
    se = rng.choice([0, 0, 1])
    return {'f': f, 'box': box, 'poly_ell': pe, 'sigrep_ell': se}


def stream_relax(ctx, rng, N):
    cases = [gen_relax_case(rng) for _ in range(N)]
    lines, impl = [], []
    for c in cases:
        for form in ('primal', 'dual'):
            try:
                prob = relax_build(c, form)
                io = extract_relaxation(prob, form, c)
            except NotImplementedError:
                io = {'raises': 'NotImplementedError'}
            except AssertionError as e:
                io = {'unexpected-shape': str(e)[:200]}
            except Exception as e:  # noqa: BLE001
                io = {'raises': type(e).__name__, 'msg': str(e)[:120]}
            lines.append({'op': 'poly.' + form, 'f': st.strip_types(c['f']), 'poly_ell': c['poly_ell'], 'sigrep_ell': c['sigrep_ell'],
                          'gamma': 0, 'chat': [CHAT0 + k for k in range(40)]})
            impl.append((c, form, io))
    mouts = run_driver(lines)
    for (c, form, io), mo in zip(impl, mouts):
        if isinstance(mo, dict) and 'error' in mo:
            raise common.DriverError(mo['error'])
        ctx.case({'stream': 'relaxation', 'form': form, 'case': c}, nontrivial=len(c['f']['c']) >= 2)
        ctx.count('stream:relaxation:' + form)
        ctx.count('ells:%d,%d' % (c['poly_ell'], c['sigrep_ell']))
        if 'unexpected-shape' in io:
            ctx.disagreement('relaxation', {'form': form, 'case': c}, io, mo)
            continue
        if 'raises' in io or 'raises' in mo:
            # builders that raise produce no bound; the model has no notion of the constructor errors for degenerate inputs
            # (no even monomial => empty modulator): only NotImplementedError is modelled
            if ('raises' in mo) and not ('raises' in io):
                ctx.disagreement('relaxation', {'form': form, 'case': c}, io, mo)
            elif 'raises' in io and io['raises'] == 'NotImplementedError' and 'raises' not in mo:
                ctx.disagreement('relaxation', {'form': form, 'case': c}, io, mo)
            else:
                ctx.count('relaxation:raises:' + io.get('raises', '?'))
                ctx.traces_validated += 1
            continue
        a = sort_relax(io)
        m = sort_relax(canon_relax_model(mo, form, c))
        if common.canon_json(a) != common.canon_json(m):
            ctx.disagreement('relaxation', {'form': form, 'case': c}, a, m)
        else:
            ctx.traces_validated += 1
    return cases


# ------------------------------------------------------------------------------------------------
# Lagrangian
# ------------------------------------------------------------------------------------------------

def gen_con_case(rng):
    n = rng.randint(1, 2)
    f = gen_poly(rng, n=n, m=rng.randint(2, 4))
    gts, eqs = [], []
    for _ in range(rng.randint(0, 2)):
        if rng.random() < 0.6:
            # R - sum x_i^2 >= 0 or c - x_0 x_1 ... style
            rows = [[F(0)] * n] + [[F(2) if j == i else F(0) for j in range(n)] for i in range(n)]
            c = [F(rng.randint(2, 9))] + [F(-1)] * n
            gts.append(rm.sig_leaf(rows, c, poly=True))
        else:
            gts.append(gen_poly(rng, n=n, m=rng.randint(1, 3), bounded=False))
    if rng.random() < 0.35:
        rows = [[F(0)] * n, [F(rng.choice([1, 2]))] + [F(0)] * (n - 1)]
        eqs.append(rm.sig_leaf(rows, [F(-1), F(1)], poly=True))         # x_0^k = 1
    return {'f': f, 'gts': gts, 'eqs': eqs, 'p': rng.choice([0, 0, 1]), 'q': rng.choice([1, 1, 2]), 'ell': rng.choice([0, 0, 1])}


def gen_odd_case(rng):
    """even monomials plus an ODD linear term, over boxes / discs given by inequality constraints, with NON-CONSTANT multipliers
    (p = 1): the minimum sits in an orthant with a negative coordinate, and the multipliers have odd monomials of their own"""
    n = 2
    j = rng.randrange(n)
    rows = [[F(2), F(0)], [F(0), F(2)]]
    c = [F(rng.choice([1, 1, 2])), F(rng.choice([1, 1, 2]))]
    if rng.random() < 0.4:
        rows.append([F(2), F(2)])
        c.append(F(1))
    if rng.random() < 0.3:
        rows.append([F(1), F(1)])
        c.append(F(rng.choice([1, -1])))
    rows.append([F(1) if k == j else F(0) for k in range(n)])
    c.append(F(rng.choice([1, -1, 2])))
    f = rm.sig_leaf(rows, c, poly=True)
    r = F(rng.choice([1, 4]))
    box = [rm.sig_leaf([[F(0)] * n, [F(2) if k == i else F(0) for k in range(n)]], [r, F(-1)], poly=True) for i in range(n)]
    disc = rm.sig_leaf([[F(0)] * n] + [[F(2) if k == i else F(0) for k in range(n)] for i in range(n)], [F(4)] + [F(-1)] * n, poly=True)
    gts = rng.choice([box, [disc], box + [disc], [box[j]]])
    return {'f': f, 'gts': gts, 'eqs': [], 'p': 1, 'q': rng.choice([1, 1, 2]), 'ell': 0}


def stream_lagrangian(ctx, rng, N, given=None):
    import props.c04 as c04
    from sageopt.relaxations.sage_polys import make_poly_lagrangian
    from sageopt.coniclifts.base import Expression
    cases = given if given is not None else [gen_con_case(rng) for _ in range(N)]
    reals = []
    for c in cases:
        try:
            f = st.build(c['f'])
            gts = [st.build(g) for g in c['gts']]
            eqs = [st.build(g) for g in c['eqs']]
            L, ineq, eq, gamma = make_poly_lagrangian(f, gts, eqs, c['p'], c['q'])
            reals.append((f, gts, eqs, L, ineq, eq, gamma))
        except Exception as e:  # noqa: BLE001
            reals.append({'raises': type(e).__name__, 'msg': str(e)[:120]})
    fold_lines = []
    for c in cases:
        fold_lines.append({'op': 'relax.qfold', 'n': c['f']['n'], 'cons': [st.strip_types(g) for g in c['gts']], 'q': c['q']})
        fold_lines.append({'op': 'relax.qfold', 'n': c['f']['n'], 'cons': [st.strip_types(g) for g in c['eqs']], 'q': c['q']})
    folds = run_driver(fold_lines)
    lag_lines, plans = [], []
    for k, (c, real) in enumerate(zip(cases, reals)):
        mg, me = folds[2 * k]['fold'], folds[2 * k + 1]['fold']
        ctx.case({'stream': 'lagrangian', 'case': c}, nontrivial=bool(c['gts'] or c['eqs']))
        ctx.count('stream:lagrangian')
        if isinstance(real, dict):
            ctx.disagreement('lagrangian', c, real, {'fold_gts': mg})
            plans.append(None)
            continue
        f, gts, eqs, L, ineq, eq, gamma = real
        rg = sorted(c04.sig_key(g) for _, g in ineq)
        re_ = sorted(c04.sig_key(g) for _, g in eq)
        if rg != sorted(c04.model_key(s) for s in mg) or re_ != sorted(c04.model_key(s) for s in me):
            ctx.disagreement('qfold', c, {'gts': [str(x) for x in rg], 'eqs': [str(x) for x in re_]},
                             {'gts': [str(c04.model_key(s)) for s in mg], 'eqs': [str(c04.model_key(s)) for s in me]})
            plans.append(None)
            continue
        id2k = {int(gamma.scalar_variable_ids[0]): 0}
        nxt = 1
        s_ids, z_ids = [], []
        used = set()          # two folded constraints may be the same function: each multiplier is matched once
        for lst, out, pairs in ((mg, s_ids, ineq), (me, z_ids, eq)):
            for s_model in lst:
                key = c04.model_key(s_model)
                sg = next(s for s, g in pairs if c04.sig_key(g) == key and id(s) not in used)
                used.add(id(sg))
                ids = []
                for sid in sg.c.scalar_variable_ids:
                    id2k[int(sid)] = nxt
                    ids.append(nxt)
                    nxt += 1
                out.append(ids)
        lag_lines.append({'op': 'poly.lagrangian', 'f': st.strip_types(c['f']), 'gts': [st.strip_types(g) for g in c['gts']],
                          'eqs': [st.strip_types(g) for g in c['eqs']], 'p': c['p'], 'q': c['q'], 'gamma': 0, 's_ids': s_ids, 'z_ids': z_ids})
        plans.append(id2k)
    mouts = iter(run_driver(lag_lines))
    for c, real, id2k in zip(cases, reals, plans):
        if id2k is None:
            continue
        mo = next(mouts)
        if isinstance(mo, dict) and 'error' in mo:
            raise common.DriverError(mo['error'])
        f, gts, eqs, L, ineq, eq, gamma = real
        cells = [rm.lin_cell(se, id2k) for se in (L.c.flat if isinstance(L.c, Expression) else L.c)]
        alpha, (cells,) = rm.sort_rows(st.mat_json(L.alpha), cells)
        mults = (ineq + eq)
        io = {'alpha': alpha, 'c': cells, 'alpha_mult': sorted(st.mat_json(mults[0][0].alpha)) if mults else None}
        malpha, (mc,) = rm.sort_rows(mo['alpha'], mo['c'])
        m = {'alpha': malpha, 'c': mc, 'alpha_mult': sorted(mo['alpha_mult']) if mults else None}
        if common.canon_json(io) != common.canon_json(m):
            ctx.disagreement('lagrangian', c, io, m)
        else:
            ctx.traces_validated += 1
        why = c04.identity_oracle(c, rng, f, L, ineq, eq, gamma)
        if why:
            ctx.violation('Lagrangian identity (polynomials): ' + why, {'stream': 'lagrangian', 'case': c})
    return cases


# ------------------------------------------------------------------------------------------------
# audits
# ------------------------------------------------------------------------------------------------

def real_points(rng, n, box, count):
    """points of all orthants, with zero coordinates, |x| in exp(box) when a box is given"""
    pts = []
    for _ in range(count):
        x = []
        for i in range(n):
            if box is None:
                mag = rng.choice([0.0, 0.0, 0.25, 0.5, 0.75, 1.0, 1.25, 1.5, 2.0, 3.0])
            elif i in box.get('free', []):
                mag = rng.choice([0.25, 0.5, 0.75, 1.0, 1.25, 1.5, 2.0, 3.0])
            else:
                lo, hi = float(F(box['lo'][i])), float(F(box['hi'][i]))
                mag = math.exp(lo + (hi - lo) * rng.randint(0, 8) / 8.0)
            x.append(rng.choice([-1.0, 1.0]) * mag)
        pts.append(x)
    return pts


def poly_eval(leaf, x):
    a = np.array([[float(F(v)) for v in r] for r in leaf['alpha']], dtype=float)
    c = np.array([float(F(v)) for v in leaf['c']], dtype=float)
    return float(c @ np.prod(np.power(np.asarray(x, dtype=float), a), axis=1))


def audit_relax(ctx, rng, cases, pinned=None):
    for c in cases:
        n = c['f']['n']
        vals = {}
        for form in ('primal', 'dual'):
            try:
                prob = relax_build(c, form)
            except Exception:  # noqa: BLE001
                continue
            vals[form] = rm.solve_ecos(prob)
        ctx.case({'stream': 'audit', 'case': c})
        ctx.count('stream:audit')
        pts = real_points(rng, n, c['box'], 80) + ([list(pinned)] if pinned else [])
        fmin = min(poly_eval(c['f'], x) for x in pts)
        xmin = min(pts, key=lambda z: poly_eval(c['f'], z))
        for form, (s, v) in vals.items():
            if s != 'solved':
                ctx.incon('audit: %s status %s' % (form, s))
                continue
            if math.isfinite(v) and v > fmin + 1e-4 * max(1.0, abs(fmin)):
                ctx.violation('bound: the %s polynomial relaxation value %.8g exceeds p(x) = %.8g at x = %s' % (form, v, fmin, xmin),
                              {'stream': 'audit', 'form': form, 'case': c, 'value': v, 'point': xmin})
            if v == math.inf:
                ctx.violation('bound: the %s polynomial relaxation reports +inf although p is finite on X' % form,
                              {'stream': 'audit', 'form': form, 'case': c})
        if all(k in vals and vals[k][0] == 'solved' for k in ('primal', 'dual')):
            vp, vd = vals['primal'][1], vals['dual'][1]
            if vp > vd + 1e-4 * max(1.0, abs(vd)) and not (math.isinf(vp) and math.isinf(vd)):
                ctx.violation('weak duality: primal value %.8g exceeds dual value %.8g' % (vp, vd), {'stream': 'audit', 'case': c})
            elif math.isfinite(vp) and math.isfinite(vd) and abs(vp - vd) > 1e-4 * max(1.0, abs(vd)):
                ctx.incon('audit: finite primal and dual values differ by more than 1e-4 (strong duality is only observed)')


def audit_constrained(ctx, rng, cases, pinned=None):
    import sageopt as so
    for c in cases:
        n = c['f']['n']
        f = st.build(c['f'])
        gts = [st.build(g) for g in c['gts']]
        eqs = [st.build(g) for g in c['eqs']]
        vals = {}
        try:
            for form in ('primal', 'dual'):
                prob = so.poly_constrained_relaxation(f, gts, eqs, form=form, p=c['p'], q=c['q'], ell=c['ell'])
                vals[form] = rm.solve_ecos(prob)
        except Exception as e:  # noqa: BLE001
            ctx.incon('audit: constrained builder raised %s' % type(e).__name__)
            continue
        ctx.case({'stream': 'audit-constrained', 'case': c})
        ctx.count('stream:audit-constrained')
        feas = []
        for x in real_points(rng, n, None, 300) + ([list(pinned)] if pinned else []):
            if all(float(g(np.array(x))) >= 0 for g in gts) and all(abs(float(h(np.array(x)))) <= 1e-9 for h in eqs):
                feas.append(x)
        if eqs:
            for x in real_points(rng, n, None, 80):
                for s0 in (1.0, -1.0):
                    y = [s0] + list(x[1:])
                    if all(float(g(np.array(y))) >= 0 for g in gts) and all(abs(float(h(np.array(y)))) <= 1e-9 for h in eqs):
                        feas.append(y)
        if not feas:
            continue
        fmin = min(float(f(np.array(x))) for x in feas)
        xmin = min(feas, key=lambda z: float(f(np.array(z))))
        for form, (s, v) in vals.items():
            if s != 'solved':
                ctx.incon('audit: constrained %s status %s' % (form, s))
                continue
            if math.isfinite(v) and v > fmin + 1e-4 * max(1.0, abs(fmin)):
                ctx.violation('bound: the %s constrained polynomial relaxation value %.8g exceeds p(x) = %.8g at the feasible point %s'
                              % (form, v, fmin, xmin), {'stream': 'audit-constrained', 'form': form, 'case': c, 'point': xmin})
            if v == math.inf:
                ctx.violation('bound: the %s constrained polynomial relaxation reports +inf although the feasible point %s exists' % (form, feas[0]),
                              {'stream': 'audit-constrained', 'form': form, 'case': c})
        if all(k in vals and vals[k][0] == 'solved' for k in ('primal', 'dual')):
            vp, vd = vals['primal'][1], vals['dual'][1]
            if vp > vd + 1e-4 * max(1.0, abs(vd)) and not (math.isinf(vp) and math.isinf(vd)):
                ctx.violation('weak duality (constrained): primal value %.8g exceeds dual value %.8g' % (vp, vd),
                              {'stream': 'audit-constrained', 'case': c})


def stream_conmod(ctx, rng, cases):
    """the even modulator of the constrained builders (ell > 0): prob.metadata['modulator'] vs the model"""
    import sageopt as so
    lines, impl = [], []
    for c in cases:
        ell = rng.choice([1, 1, 2])
        f = st.build(c['f'])
        gts = [st.build(g) for g in c['gts']]
        eqs = [st.build(g) for g in c['eqs']]
        for form in ('primal', 'dual'):
            try:
                prob = so.poly_constrained_relaxation(f, gts, eqs, form=form, p=0, q=1, ell=ell)
                mod = prob.metadata['modulator']
                io = {'n': int(mod.n), 'alpha': st.mat_json(mod.alpha), 'c': [rm.fr(x) for x in np.asarray(mod.c, dtype=float)]}
            except Exception as e:  # noqa: BLE001
                io = {'raises': type(e).__name__, 'msg': str(e)[:120]}
            alphas = [c['f']['alpha']] + ([[['0'] * c['f']['n']]] if form == 'dual' else []) + [g['alpha'] for g in c['gts']] + [g['alpha'] for g in c['eqs']]
            lines.append({'op': 'poly.conmod', 'n': c['f']['n'], 'alphas': alphas, 'ell': ell})
            impl.append((c, form, ell, io))
    mouts = run_driver(lines)
    for (c, form, ell, io), mo in zip(impl, mouts):
        if isinstance(mo, dict) and 'error' in mo:
            raise common.DriverError(mo['error'])
        ctx.case({'stream': 'conmod', 'form': form, 'ell': ell, 'case': c}, nontrivial=True)
        ctx.count('stream:conmod')
        if 'raises' in io:
            ctx.disagreement('conmod', {'form': form, 'ell': ell, 'case': c}, io, mo)
            continue
        a_alpha, (a_c,) = rm.sort_rows(io['alpha'], io['c'])
        m_alpha, (m_c,) = rm.sort_rows(mo['alpha'], mo['c'])
        if common.canon_json([a_alpha, a_c]) != common.canon_json([m_alpha, m_c]):
            ctx.disagreement('conmod', {'form': form, 'ell': ell, 'case': c}, {'alpha': a_alpha, 'c': a_c}, {'alpha': m_alpha, 'c': m_c})
        else:
            ctx.traces_validated += 1


def run(ctx):
    rng = ctx.rng
    ctx.lean = common.lean_check('C05')
    quick = ctx.quick()
    common.run_regressions(ctx, 'C05', recheck)
    stream_sigrep(ctx, rng, 120 if quick else 800)
    cases = stream_relax(ctx, rng, 50 if quick else 300)
    ccases = stream_lagrangian(ctx, rng, 40 if quick else 250)
    stream_conmod(ctx, rng, ccases[:20 if quick else 120])
    # unconstrained polynomials through the constrained builder with ell = 1 (the even modulator matters exactly there)
    extra = [{'f': gen_poly(rng, bounded=True), 'gts': [], 'eqs': [], 'p': 0, 'q': 1, 'ell': 1} for _ in range(14 if quick else 60)]
    for _ in range(3 if quick else 12):
        # a x^d + b x, no constant term, nothing else
        extra.append({'f': rm.sig_leaf([[F(rng.choice([2, 4]))], [F(1)]], [F(rng.choice([1, 2, 3])), F(rng.choice([1, -1, 2]))], poly=True),
                      'gts': [], 'eqs': [], 'p': 0, 'q': 1, 'ell': 1})
    for k, e in enumerate(extra):
        if k % 2 == 0 and len(e['f']['c']) > 2:
            # no constant term and an odd linear term (x^4 + x style): the modulator's rows then come from odd monomials too
            f = e['f']
            f['c'][0] = '0'
            row = ['1'] + ['0'] * (f['n'] - 1)
            if row in f['alpha']:
                f['c'][f['alpha'].index(row)] = '1'
            else:
                f['alpha'].append(row)
                f['c'].append('1')
    audit_relax(ctx, rng, cases[:30 if quick else 200])
    audit_constrained(ctx, rng, extra)
    audit_constrained(ctx, rng, [gen_odd_case(rng) for _ in range(5 if quick else 30)])
    audit_constrained(ctx, rng, ccases[:15 if quick else 100])
    if (not ctx.lean.ok or ctx.disagreements) and not ctx.violations:
        common.broken_report(ctx, 'signomial-representative oracle and bound audits over all orthants found no failing input')
    return ctx.finish(
        level='proof',
        rule='random polynomials (n <= 2, exponents <= 4, even and odd monomials, numeric and affine coefficients), poly_ell in {0,1,2}, '
             'sigrep_ell in {0,1}, X none or a log-space box PolyDomain, both forms; constrained: (p,q,ell) in {0,1}x{1,2}x{0,1}; audits at '
             'points of every orthant including zero coordinates; non-trivial = at least two terms / one constraint; distinct = distinct JSON',
        trusted=TRUSTED, assumptions=ASSUME)


def recheck(r):
    """execute the stored input of a violation again; the violation it (still) shows, or None"""
    import random
    ctx, rng = common.RecCtx(), random.Random(0)
    k = r.get('stream')
    if k == 'audit':
        audit_relax(ctx, rng, [r['case']], pinned=r.get('point'))
    elif k == 'audit-constrained':
        audit_constrained(ctx, rng, [r['case']], pinned=r.get('point'))
    elif k == 'lagrangian':
        stream_lagrangian(ctx, rng, 0, given=[r['case']])
    elif k == 'sigrep':
        stream_sigrep(ctx, rng, 0, given=[(r['p'], r.get('nv', 8))])
    return ctx.first()


def replay(obj):
    print('what:', obj['what'])
    print(common.canon_json(obj['replay'])[:1500])
    return 1
