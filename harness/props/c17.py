"""
C17 -- recovered solutions are feasible, ordered and consistent with the bound.

Model: lean/SageoptModel/Model/Solrec.lean (isFeasible over float-like values incl. NaN and +-inf; select = filter + stable sort);
theorems: Props/C17.lean.
Tie:
  filter      the real is_feasible on synthetic constraint values (numbers at / around the tolerances, NaN, +-inf) vs the model;
  select      the real sig_solrec / poly_solrec on solved dual relaxations (X none, inferred plain, inferred with auxiliary columns;
              option grid), with is_feasible wrapped by a recorder (monkeypatched from the harness, no change to /repo): the
              constraint values of every candidate examined, the verdicts, and the returned list (as indices into the examined
              candidates) are compared with the model's verdicts and output order.
Oracle: every returned point re-evaluated independently against all constraints including those defining X; sortedness; objective vs the
relaxation's value; "returns a list, does not raise".
"""
import itertools
import math
from fractions import Fraction as F

import numpy as np

import common
import relaxmodel as rm
import sigtree as st
from common import frac_str, run_driver

TRUSTED = [
    'Lean 4.33.0 kernel; axioms of every theorem in Props/C17*.lean within {propext, Classical.choice, Quot.sound}',
    'harness/props/c17.py (recorder wrapped around is_feasible, identification of returned arrays with examined candidates by object identity)',
    'ECOS (only to produce solved dual relaxations; statuses other than solved are skipped)',
]
ASSUME = [
    'the candidate generators (least squares, dual AGE cones, magnitude and sign recovery) are inputs of the model: what is proved is '
    'that whatever they propose, only points passing the filter are returned, each once, sorted; the numerical quality of the '
    'candidates is outside the model',
    'objective values that are NaN make the sort order unspecified (Python compares with <): such runs are counted inconclusive',
]


def fv(x):
    x = float(x)
    if math.isnan(x):
        return 'nan'
    if math.isinf(x):
        return 'inf' if x > 0 else '-inf'
    return frac_str(F(x))


class Recorder:
    """wraps is_feasible in both recovery modules"""

    def __init__(self):
        import sageopt.relaxations.sig_solution_recovery as ssr
        import sageopt.relaxations.poly_solution_recovery as psr
        self.mods = [ssr, psr]
        self.orig = ssr.is_feasible
        self.records = []

    def __enter__(self):
        orig = self.orig
        rec = self.records

        def wrapped(x, greater_than_zero, equal_zero, ineq_tol=1e-8, eq_tol=1e-8):
            with np.errstate(all='ignore'):
                gt = [float(np.asarray(g(x), dtype=float)) for g in greater_than_zero]
                eq = [float(np.asarray(g(x), dtype=float)) for g in equal_zero]
            verdict = orig(x, greater_than_zero, equal_zero, ineq_tol, eq_tol)
            rec.append({'x': x, 'gt': gt, 'eq': eq, 'verdict': bool(verdict), 'ineq_tol': ineq_tol, 'eq_tol': eq_tol})
            return verdict
        for m in self.mods:
            m.is_feasible = wrapped
        return self

    def __exit__(self, *a):
        for m in self.mods:
            m.is_feasible = self.orig


# ------------------------------------------------------------------------------------------------

def gen_sig_problem(rng):
    """min f s.t. posynomial-type constraints with a bounded feasible set"""
    n = rng.randint(1, 2)
    rows = [[F(0)] * n]
    for i in range(n):
        rows.append([F(2) if j == i else F(0) for j in range(n)])
        rows.append([F(-1) if j == i else F(0) for j in range(n)])
    if n == 2 and rng.random() < 0.5:
        rows.append([F(1), F(1)])
    c = [F(rng.choice([0, 1, -2]))] + [F(rng.choice([1, 2])) for _ in rows[1:]]
    if len(rows) > 2 * n + 1:
        c[-1] = F(rng.choice([-1, 1]))
    f = rm.sig_leaf(rows, c)
    gts = []
    for i in range(n):
        # e^{x_i} <= U  and  e^{x_i} >= L
        e = [F(1) if j == i else F(0) for j in range(n)]
        gts.append(rm.sig_leaf([[F(0)] * n, e], [F(rng.choice([2, 3, 4])), F(-1)]))
        gts.append(rm.sig_leaf([e, [F(0)] * n], [F(1), F(-1, rng.choice([2, 4]))]))
    if n == 2 and rng.random() < 0.4:
        gts.append(rm.sig_leaf([[F(0), F(0)], [F(1), F(0)], [F(0), F(1)]], [F(5), F(-1), F(-1)]))      # 5 - e^x - e^y >= 0 (lifted X)
    eqs = []
    if n == 2 and rng.random() < 0.3:
        eqs.append(rm.sig_leaf([[F(1), F(-1)], [F(0), F(0)]], [F(1), F(-1)]))                       # e^{x-y} = 1
    X = rng.choice(['none', 'infer', 'infer'])
    lv = rng.choice([(0, 1, 0), (0, 1, 0), (0, 1, 1), (0, 2, 0), (1, 1, 0)])
    return {'kind': 'sig', 'f': f, 'gts': gts, 'eqs': eqs, 'X': X, 'via_X_only': X == 'infer' and not eqs and rng.random() < 0.5,
            'p': lv[0], 'q': lv[1], 'ell': lv[2]}


def gen_poly_problem(rng):
    n = rng.randint(1, 2)
    rows = [[F(0)] * n]
    for i in range(n):
        rows.append([F(4) if j == i else F(0) for j in range(n)])
        rows.append([F(1) if j == i else F(0) for j in range(n)])
    if n == 2:
        rows.append([F(1), F(1)])
    c = [F(rng.choice([0, 1]))] + [F(1) for _ in rows[1:]]
    for k in range(1, len(c)):
        if k % 2 == 0 or k == len(c) - 1:
            c[k] = F(rng.choice([-3, -1, 1, 2]))
    f = rm.sig_leaf(rows, c, poly=True)
    gts = []
    for i in range(n):
        e2 = [F(2) if j == i else F(0) for j in range(n)]
        gts.append(rm.sig_leaf([[F(0)] * n, e2], [F(rng.choice([1, 4, 9])), F(-1)], poly=True))       # x_i^2 <= R
    if n == 2 and rng.random() < 0.4:
        gts.append(rm.sig_leaf([[F(0), F(0)], [F(2), F(0)], [F(0), F(2)], [F(2), F(2)]], [F(3), F(-1), F(-1), F(-1)], poly=True))
    eqs = []
    if rng.random() < 0.25:
        e2 = [F(2)] + [F(0)] * (n - 1)
        eqs.append(rm.sig_leaf([e2, [F(0)] * n], [F(1), F(-1)], poly=True))                          # x_0^2 = 1
    X = rng.choice(['none', 'infer', 'infer'])
    # hierarchy levels (the property quantifies over any p, q, ell) and sign constraints x_i >= 0 (single-monomial inequalities)
    lv = rng.choice([(0, 1, 0), (0, 1, 0), (0, 2, 0), (1, 1, 0), (0, 1, 1), (0, 2, 0)])
    if rng.random() < 0.35:
        for i in range(n):
            if rng.random() < 0.7:
                gts.append(rm.sig_leaf([[F(1) if j == i else F(0) for j in range(n)]], [F(1)], poly=True))      # x_i >= 0
    return {'kind': 'poly', 'f': f, 'gts': gts, 'eqs': eqs, 'X': X, 'via_X_only': X == 'infer' and not eqs and rng.random() < 0.5,
            'p': lv[0], 'q': lv[1], 'ell': lv[2]}


def level_families():
    """fixed members of the quantifier that a random draw of 6 problems seldom reaches: sign constraints x_i >= 0 (single-monomial
    inequalities) at q = 2 and p = 1, an equality at q = 2, signomial problems at q = 2"""
    out = []
    P = lambda rows, c: rm.sig_leaf([[F(v) for v in r] for r in rows], [F(v) for v in c], poly=True)   # noqa: E731
    S = lambda rows, c: rm.sig_leaf([[F(v) for v in r] for r in rows], [F(v) for v in c])              # noqa: E731  (F accepts 'p/q' strings)
    f2 = P([[2, 2], [1, 1], [4, 0], [2, 0], [0, 0]], [1, -2, 1, -2, 2])          # (x0 x1 - 1)^2 + (x0^2 - 1)^2
    f1 = P([[4], [1], [0]], [1, -3, 0])
    for lv in ((0, 2, 0), (1, 1, 0), (0, 1, 0)):
        out.append({'kind': 'poly', 'f': f2, 'gts': [P([[1, 0]], [1]), P([[0, 1]], [1])], 'eqs': [], 'X': 'none', 'via_X_only': False,
                    'p': lv[0], 'q': lv[1], 'ell': lv[2]})
        out.append({'kind': 'poly', 'f': f1, 'gts': [P([[1]], [1]), P([[0], [2]], [4, -1])], 'eqs': [], 'X': 'none', 'via_X_only': False,
                    'p': lv[0], 'q': lv[1], 'ell': lv[2]})
    out.append({'kind': 'poly', 'f': f2, 'gts': [P([[0, 0], [2, 0]], [4, -1]), P([[0, 0], [0, 2]], [4, -1])],
                'eqs': [P([[1, 1], [0, 0]], [1, -1])], 'X': 'none', 'via_X_only': False, 'p': 0, 'q': 2, 'ell': 0})
    fs = S([[0, 0], [2, 0], [-1, 0], [0, 2], [0, -1]], [1, 1, 2, 1, 2])
    gs = [S([[0, 0], [1, 0]], [3, -1]), S([[1, 0], [0, 0]], [1, '-1/4']), S([[0, 0], [0, 1]], [3, -1]), S([[0, 1], [0, 0]], [1, '-1/4'])]
    for lv in ((0, 2, 0), (1, 1, 0)):
        out.append({'kind': 'sig', 'f': fs, 'gts': gs, 'eqs': [], 'X': 'none', 'via_X_only': False, 'p': lv[0], 'q': lv[1], 'ell': lv[2]})
    # two exponents 5e-7 apart (distinct on the 7-decimal grid): the bound and the recovered points must be those of the function with BOTH terms
    out.append({'kind': 'sig', 'f': S([[2], [1], ['10000005/10000000']], [1, -1, -1]), 'gts': [], 'eqs': [], 'X': 'none', 'via_X_only': False,
                'p': 0, 'q': 1, 'ell': 0})
    out.append({'kind': 'sig', 'f': S([[2], [1], ['10000005/10000000'], [0]], [1, -1, -1, 3]), 'gts': [S([[0], [1]], [5, -1])], 'eqs': [], 'X': 'none',
                'via_X_only': False, 'p': 0, 'q': 1, 'ell': 0})
    # EQUALITY-ONLY problems (the inequality list is empty): every returned point must still satisfy the equalities
    circ = S([[2, 0], [0, 2], [0, 0]], [1, 1, -1])
    out.append({'kind': 'sig', 'f': S([[1, 0], [0, 1]], [-1, -1]), 'gts': [], 'eqs': [circ], 'X': 'none', 'via_X_only': False, 'p': 0, 'q': 1, 'ell': 0})
    out.append({'kind': 'sig', 'f': S([[1, 0], [0, 1]], [-1, -1]), 'gts': [], 'eqs': [circ], 'X': 'none', 'via_X_only': False, 'p': 0, 'q': 1, 'ell': 1})
    out.append({'kind': 'sig', 'f': S([[2, 0], [0, 2]], [1, 1]), 'gts': [], 'eqs': [S([[1, 1], [0, 0]], [1, -1])], 'X': 'none', 'via_X_only': False,
                'p': 0, 'q': 1, 'ell': 0})
    out.append({'kind': 'poly', 'f': P([[2, 0], [0, 2], [1, 0]], [1, 1, -3]), 'gts': [], 'eqs': [P([[1, 1], [1, 0], [0, 0]], [1, 1, -2])],
                'X': 'none', 'via_X_only': False, 'p': 1, 'q': 1, 'ell': 0})
    return out


def build_and_solve(c):
    import sageopt as so
    f = st.build(c['f'])
    gts = [st.build(g) for g in c['gts']]
    eqs = [st.build(g) for g in c['eqs']]
    X = None
    if c['X'] == 'infer':
        X = so.infer_domain(f, gts, eqs)
        if c.get('via_X_only'):
            gts, eqs = [], []           # the constraints enter ONLY through the domain
    if c['kind'] == 'sig':
        prob = so.sig_constrained_relaxation(f, gts, eqs, X=X, form='dual', p=c['p'], q=c['q'], ell=c['ell'])
    else:
        prob = so.poly_constrained_relaxation(f, gts, eqs, X=X, form='dual', p=c['p'], q=c['q'], ell=c['ell'])
    st_, val = prob.solve(solver='ECOS', verbose=False)
    return f, gts, eqs, X, prob, st_, float(val)


def option_grid(rng, kind, quick):
    tols = [(1e-8, 1e-6), (1e-3, 1e-3), (1e-9, 1e-9), (1e-6, 1e-2)]
    out = []
    for it, et in (tols[:2] if quick else tols):
        for skip in (False, True):
            if kind == 'sig':
                out.append({'ineq_tol': it, 'eq_tol': et, 'skip_ls': skip})
            else:
                for hs, als in ((True, True), (False, False)) if quick else itertools.product((True, False), repeat=2):
                    out.append({'ineq_tol': it, 'eq_tol': et, 'skip_ls': skip, 'heuristic_signs': hs, 'all_signs': als,
                                'zero_tol': rng.choice([1e-20, 1e-8])})
    return out


def all_constraints(f, gts, eqs, X):
    g2 = list(gts) + (list(X.gts) if X is not None else [])
    e2 = list(eqs) + (list(X.eqs) if X is not None else [])
    return g2, e2


def stream_select(ctx, rng, problems, quick):
    lines, metas = [], []
    for c in problems:
        # one problem = one forked child: building, solving and recovery all run ECOS in-process
        log = common.CtxLog(ctx.seed)
        grid = option_grid(rng, c['kind'], quick)
        kind, res = common.forked(lambda: (select_one(log, c, grid), log.log), timeout=600)
        if kind == 'exception':
            raise RuntimeError('solution recovery harness raised in the child: %s' % res)
        if kind != 'ok':
            ctx.incon('select: solver %s' % kind)
            continue
        (l2, m2), entries = res
        log.log = entries
        log.replay_into(ctx)
        lines += l2
        metas += m2
    mouts = run_driver(lines)
    for (c, opts, verdicts, order, has_nan), mo in zip(metas, mouts):
        if isinstance(mo, dict) and 'error' in mo:
            raise common.DriverError(mo['error'])
        if verdicts != mo['verdicts']:
            ctx.disagreement('select', {'problem': c, 'opts': opts}, {'verdicts': verdicts}, {'verdicts': mo['verdicts']})
        elif not has_nan and order != mo['order']:
            ctx.disagreement('select', {'problem': c, 'opts': opts}, {'order': order}, {'order': mo['order']})
        else:
            ctx.traces_validated += 1


def select_one(ctx, c, grid):
    import sageopt as so
    lines, metas = [], []
    for c in [c]:
        try:
            f, gts, eqs, X, prob, st_, val = build_and_solve(c)
        except Exception as e:  # noqa: BLE001
            ctx.incon('select: building / solving raised %s' % type(e).__name__)
            continue
        if st_ != 'solved' or not math.isfinite(val):
            ctx.incon('select: relaxation status %s' % st_)
            continue
        lifted = X is not None and X.A.shape[1] > c['f']['n']
        for opts in grid:
            ctx.case({'stream': 'select', 'problem': c, 'opts': opts}, nontrivial=True)
            ctx.count('stream:select:' + c['kind'])
            ctx.count('X:' + ('none' if X is None else ('lifted' if lifted else 'plain')))
            with Recorder() as rec:
                try:
                    with np.errstate(all='ignore'):
                        sols = (so.sig_solrec if c['kind'] == 'sig' else so.poly_solrec)(prob, **opts)
                except Exception as e:  # noqa: BLE001
                    ctx.violation('solution recovery raised %s (%s) on a solved dual relaxation (X %s, options %s)'
                                  % (type(e).__name__, str(e)[:80], 'none' if X is None else ('with auxiliary columns' if lifted else 'plain'), opts),
                                  {'stream': 'select', 'problem': c, 'opts': opts},
                                  tags=['F8-lifted-domain-raises'] if lifted and c['kind'] == 'poly' else [])
                    continue
            if not isinstance(sols, list):
                ctx.violation('solution recovery returned %r instead of a list' % (sols,), {'stream': 'select', 'problem': c, 'opts': opts})
                continue
            records = rec.records
            wrong = [r for r in records if r['ineq_tol'] != opts['ineq_tol'] or r['eq_tol'] != opts['eq_tol']]
            if wrong:
                ctx.violation('a candidate was checked with ineq_tol=%g, eq_tol=%g although ineq_tol=%g, eq_tol=%g were requested'
                              % (wrong[0]['ineq_tol'], wrong[0]['eq_tol'], opts['ineq_tol'], opts['eq_tol']),
                              {'stream': 'select', 'problem': c, 'opts': opts})
                continue
            ids = {id(r['x']): k for k, r in enumerate(records)}
            try:
                order = [ids[id(s)] for s in sols]
            except KeyError:
                ctx.violation('a returned point was never passed through the feasibility filter',
                              {'stream': 'select', 'problem': c, 'opts': opts})
                continue
            with np.errstate(all='ignore'):
                raw = [np.asarray(f(r['x'])).ravel()[0] for r in records]       # the sort keys (numpy long doubles)
            # rank-preserving encoding of the keys by exact pairwise comparison (the model only compares them)
            objs = []
            for v in raw:
                if v != v:
                    objs.append(float('nan'))
                elif np.isinf(v):
                    objs.append(float(v))
                else:
                    objs.append(float(sum(1 for w in set(x for x in raw if x == x and not np.isinf(x)) if w < v)))
            ctx.count('candidates', len(records))
            ctx.count('returned', len(sols))
            if any(math.isnan(objs[k]) for k in order):
                ctx.incon('select: NaN objective value among the returned points')
            # ---- oracle on the returned list
            g2, e2 = all_constraints(f, gts, eqs, X)
            prev = -math.inf
            for s in sols:
                with np.errstate(all='ignore'):
                    gv = [float(np.asarray(g(s), dtype=float)) for g in g2]
                    ev = [float(np.asarray(g(s), dtype=float)) for g in e2]
                    fx = float(np.asarray(f(s), dtype=float))
                bad = [v for v in gv if not (v >= -opts['ineq_tol'])] + [v for v in ev if not (abs(v) <= opts['eq_tol'])]
                if bad:
                    ctx.violation('returned point %s violates a constraint beyond the tolerances (values %s, ineq_tol %g, eq_tol %g)'
                                  % (np.asarray(s, dtype=float).tolist(), bad[:3], opts['ineq_tol'], opts['eq_tol']),
                                  {'stream': 'select', 'problem': c, 'opts': opts}, tags=['F8-nan-passes-filter'] if any(math.isnan(v) for v in bad) else [])
                    break
                if fx < prev:
                    ctx.violation('returned list is not sorted by objective value (%.9g after %.9g)' % (fx, prev),
                                  {'stream': 'select', 'problem': c, 'opts': opts})
                    break
                prev = fx
                slack = (1e-4 + 100 * max(opts['ineq_tol'], opts['eq_tol'])) * max(1.0, abs(val))
                if fx < val - slack:
                    ctx.violation('returned point %s has objective %.9g below the relaxation bound %.9g' % (np.asarray(s, dtype=float).tolist(), fx, val),
                                  {'stream': 'select', 'problem': c, 'opts': opts})
                    break
            lines.append({'op': 'solrec.select', 'ineq_tol': frac_str(F(opts['ineq_tol'])), 'eq_tol': frac_str(F(opts['eq_tol'])),
                          'cands': [{'gt': [fv(v) for v in r['gt']], 'eq': [fv(v) for v in r['eq']], 'obj': fv(o)} for r, o in zip(records, objs)]})
            metas.append((c, opts, [r['verdict'] for r in records], order, any(math.isnan(o) for o in objs)))
    return lines, metas


def stream_filter(ctx, rng, N):
    """the real is_feasible on synthetic constraint values"""
    import sageopt.relaxations.sig_solution_recovery as ssr
    specials = [float('nan'), float('inf'), float('-inf'), 0.0, -0.0]
    cases, lines, outs = [], [], []
    for _ in range(N):
        it = rng.choice([1e-8, 1e-6, 1e-3, 0.0])
        et = rng.choice([1e-8, 1e-6, 1e-3, 0.0])

        def val(tol):
            r = rng.random()
            if r < 0.15:
                return rng.choice(specials)
            if r < 0.45:
                return rng.choice([-tol, tol, np.nextafter(-tol, -1), np.nextafter(-tol, 1), np.nextafter(tol, 1), np.nextafter(tol, -1)])
            return rng.choice([-1.0, 1.0, 0.5, -2.0 * tol, 2.0 * tol, 1e-12, -1e-12])
        gt = [float(val(it)) for _ in range(rng.randint(0, 3))]
        eq = [float(val(et)) for _ in range(rng.randint(0, 2))]
        x = np.zeros(1)
        got = ssr.is_feasible(x, [(lambda z, v=v: v) for v in gt], [(lambda z, v=v: v) for v in eq], it, et)
        cases.append({'gt': [fv(v) for v in gt], 'eq': [fv(v) for v in eq], 'ineq_tol': frac_str(F(it)), 'eq_tol': frac_str(F(et))})
        outs.append(bool(got))
        lines.append(dict(cases[-1], op='solrec.feasible'))
    mouts = run_driver(lines)
    for c, got, mo in zip(cases, outs, mouts):
        if isinstance(mo, dict) and 'error' in mo:
            raise common.DriverError(mo['error'])
        ctx.case({'stream': 'filter', 'case': c}, nontrivial=bool(c['gt'] or c['eq']))
        ctx.count('stream:filter')
        if 'nan' in c['gt'] + c['eq']:
            ctx.count('filter:with-nan')
        if got != mo['feasible']:
            ctx.disagreement('filter', c, {'feasible': got}, mo)
        else:
            ctx.traces_validated += 1
        # oracle: the property itself
        def ok_gt(v, tol):
            return v == 'inf' or (v not in ('nan', '-inf') and F(v) >= -F(tol))

        def ok_eq(v, tol):
            return v not in ('nan', 'inf', '-inf') and abs(F(v)) <= F(tol)
        want = all(ok_gt(v, c['ineq_tol']) for v in c['gt']) and all(ok_eq(v, c['eq_tol']) for v in c['eq'])
        if got != want:
            ctx.violation('is_feasible returns %s for constraint values gts=%s eqs=%s with ineq_tol=%s eq_tol=%s'
                          % (got, c['gt'], c['eq'], c['ineq_tol'], c['eq_tol']), {'stream': 'filter', 'case': c},
                          tags=['F8-nan-passes-filter'] if 'nan' in c['gt'] + c['eq'] else [])


def _pow2(q):
    q = abs(F(q))
    return q != 0 and (q.numerator & (q.numerator - 1)) == 0 and (q.denominator & (q.denominator - 1)) == 0


def gen_cands_case(rng):
    """input of `_dual_age_cone_solution_recovery` on which float arithmetic is exact: v_i and every nonzero v_reduced are powers of two,
    mu and M are small dyadics; half of the cases are moment solutions (mu_i = v_i x)"""
    n = rng.randint(1, 3)
    m = rng.randint(1, 5)
    v = [F(rng.choice([0, 0, F(1, 4), F(1, 2), 1, 1, 2, 4])) for _ in range(m)]
    idx = [i for i in range(m) if rng.random() < 0.8]
    rng.shuffle(idx)
    moment = rng.random() < 0.5
    x = [F(rng.randint(-8, 8), 4) for _ in range(n)]
    mus = []
    for i in idx:
        if moment:
            mus.append({'i': i, 'mu': [frac_str(v[i] * t) for t in x]})
        else:
            mus.append({'i': i, 'mu': [frac_str(F(rng.randint(-8, 8), 4)) for _ in range(n)]})
    live = [i for i in idx if v[i] > 0]
    M = []
    for _ in range(rng.randint(0, 5)):
        for _try in range(30):
            row = [F(rng.choice([0, 0, 1, 1, 2, 4, -1, F(1, 2)])) if rng.random() < 0.7 else F(0) for _ in range(m)]
            vr = sum(row[i] * v[i] for i in live)
            if vr == 0 or _pow2(vr):
                M.append(row)
                break
    return {'n': n, 'v': [frac_str(t) for t in v], 'mus': mus, 'M': [[frac_str(t) for t in r] for r in M], 'moment': moment,
            'x': [frac_str(t) for t in x], 'live': len(live)}


def stream_cands(ctx, rng, N):
    """the real `_dual_age_cone_solution_recovery` (filter switched off by empty constraint lists) vs the model's `dualAgeCands`;
    oracle: at a moment solution with a positive v_i the list must be exactly [x] (`Props/C17Cands.moment_recovered`)"""
    import types
    from sageopt.relaxations.sig_solution_recovery import _dual_age_cone_solution_recovery

    def impl(c):
        m = len(c['v'])
        con = types.SimpleNamespace(mu_vars={e['i']: types.SimpleNamespace(value=np.array([float(F(t)) for t in e['mu']])) for e in c['mus']})
        v = np.array([float(F(t)) for t in c['v']])
        M = np.array([[float(F(t)) for t in r] for r in c['M']]).reshape(len(c['M']), m)
        with np.errstate(all='ignore'):
            out = _dual_age_cone_solution_recovery(con, v, M, [], [], 1e-8, 1e-6)
        return {'cands': [[frac_str(F(float(t))) for t in np.asarray(xi, dtype=float).ravel()] for xi in out]}

    cases = [gen_cands_case(rng) for _ in range(N)]
    res = common.correspond(ctx, 'cands', cases, impl,
                            lambda c: {'op': 'solrec.dual_age_cands', 'n': c['n'], 'v': c['v'], 'mus': c['mus'], 'M': c['M']},
                            nontrivial=lambda c, io: c['live'] > 0)
    for c, io, mo in res:
        if c['moment']:
            ctx.count('cands:moment')
        if c['moment'] and c['live'] > 0 and isinstance(io, dict) and 'cands' in io and io['cands'] != [c['x']]:
            ctx.violation('dual-AGE-cone recovery at the moment solution of x = %s (mu_i = v_i x) returns the candidates %s instead of [x]'
                          % (c['x'], io['cands'][:4]), {'stream': 'cands', 'case': c})


def run(ctx):
    rng = ctx.rng
    ctx.lean = common.lean_check('C17')
    quick = ctx.quick()
    common.run_regressions(ctx, 'C17', recheck)
    stream_filter(ctx, rng, 300 if quick else 3000)
    stream_cands(ctx, rng, 200 if quick else 2000)
    problems = []
    for e in common.load_corpus('C17'):
        if 'problem' in e and 'regress' not in e:
            problems.append(e['problem'])
    problems += level_families()
    for _ in range(8 if quick else 60):
        problems.append(gen_sig_problem(rng))
    for _ in range(6 if quick else 40):
        problems.append(gen_poly_problem(rng))
    stream_select(ctx, rng, problems, quick)
    if (not ctx.lean.ok or ctx.disagreements) and not ctx.violations:
        common.broken_report(ctx, 'independent re-evaluation of every returned point found no failing input')
    return ctx.finish(
        level='proof',
        rule='is_feasible on synthetic constraint values (at / around the tolerances, NaN, +-inf); sig_solrec and poly_solrec on solved dual '
             'relaxations of small bounded problems (X none / inferred plain / inferred with auxiliary columns), tolerance pairs x skip_ls x '
             '(heuristic_signs, all_signs, zero_tol); non-trivial = at least one constraint value / one solved relaxation; distinct = distinct JSON',
        trusted=TRUSTED, assumptions=ASSUME)


def recheck(r):
    """execute the stored input of a violation again; the violation it (still) shows (recorded findings excepted)"""
    k = r.get('stream')
    if k == 'select':
        log = common.RecCtx()
        # the options twice: second and later calls on the same solved problem are part of the property
        kind, res = common.forked(lambda: (select_one(log, r['problem'], [r['opts'], r['opts']]), log.violations)[1], timeout=600)
        if kind != 'ok':
            return None
        log.violations = res
        return log.first('C17')
    if k == 'filter':
        import sageopt.relaxations.sig_solution_recovery as ssr
        c = r['case']

        def num(v):
            return float(v) if v in ('nan', 'inf', '-inf') else float(F(v))
        gt, eq = [num(v) for v in c['gt']], [num(v) for v in c['eq']]
        it, et = float(F(c['ineq_tol'])), float(F(c['eq_tol']))
        got = bool(ssr.is_feasible(np.zeros(1), [(lambda z, v=v: v) for v in gt], [(lambda z, v=v: v) for v in eq], it, et))
        want = all(v >= -it for v in gt) and all(abs(v) <= et for v in eq)        # (comparisons with NaN are False)
        if got != want:
            return 'is_feasible returns %s for constraint values gts=%s eqs=%s with ineq_tol=%s eq_tol=%s' % (got, c['gt'], c['eq'], c['ineq_tol'], c['eq_tol'])
    return None


def replay(obj):
    print('what:', obj['what'])
    print(common.canon_json(obj['replay'])[:1500])
    return 1
