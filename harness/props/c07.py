"""
C07 -- the compiled conic system is equivalent to the high-level constraints.

Model: lean/SageoptModel/Model/Compile.lean; theorems: Props/C07.lean.
Tie: random constraint lists built through the real coniclifts API (affine programs, every atom kind with
variable / constant / repeated arguments, ==, <=, >=, Primal/DualProductCone over {+,0,S,e}, PowCone, LMIs);
the state of the constraint objects is serialised, compiled by the real compile_constrained_system and by
the model, and (cols, A, b, K, variable_map) are compared exactly (rows the model flags as e-scaled are
divided by e first).
Oracle: the constraints' mathematical definitions at rational points vs feasibility of A x + b in K with the
user columns fixed (aux variables by closed form t = atom value; infeasibility confirmed with ECOS).
"""
import math
import random
from fractions import Fraction as F

import numpy as np

import clmodel as clm
import common
from common import frac_str, run_driver

TRUSTED = [
    'Lean 4.33.0 kernel; axioms of every theorem in Props/C07*.lean within {propext, Classical.choice, Quot.sound}',
    'harness/clmodel.py (serialisation of constraint-object state, canonical form of compiled systems, float semantics with margins)',
    'harness/props/c07.py generators',
    'Driver.lean / Drv/Compile.lean glue; scipy.sparse triplet assembly (duplicates summed)',
    'ECOS, only to confirm infeasibility/feasibility of tiny fixed-point systems inside the failing-input search',
]
ASSUME = [
    'Convex: after normalisation to expr <= 0 every nonlinear atom has a nonnegative coefficient and equalities are affine '
    '(forced by the proof; the excluded point is known finding F9)',
    'arguments of nonlinear atoms are affine in Variables',
]


class Build:
    """one random model built through the real API"""

    def __init__(self, rng, ctx_counter, allow_nonconvex=False, only_ecos=False):
        import sageopt.coniclifts as cl
        from sageopt.coniclifts.operators.abs import abs as cl_abs
        from sageopt.coniclifts.operators.pos import pos as cl_pos
        from sageopt.coniclifts.constraints.set_membership.product_cone import DualProductCone
        from sageopt.coniclifts.constraints.set_membership.pow_cone import PowCone
        from sageopt.coniclifts.constraints.set_membership.psd_cone import PSD
        self.cl = cl
        self.cl_abs, self.cl_pos, self.DualProductCone, self.PowCone, self.PSD = cl_abs, cl_pos, DualProductCone, PowCone, PSD
        self.rng = rng
        Build._k = getattr(Build, '_k', 0) + 1
        self.vars = []
        shapes = [(), (1,), (2,), (3,), (2, 2), (2, 3), 'sym2', 'sym3']
        for i in range(rng.randint(1, 3)):
            sh = rng.choice(shapes)
            name = 'u%d_%d' % (Build._k, i)
            if isinstance(sh, str):
                n = int(sh[-1])
                v = cl.Variable(shape=(n, n), name=name, var_properties=['symmetric'])
            else:
                v = cl.Variable(shape=sh, name=name)
            self.vars.append(v)
        self.scalars = [v[tup] if v.shape != () else v[()] for v in self.vars for tup in np.ndindex(*v.shape)] \
            if True else []
        self.cons = []
        self.kinds = []
        self.allow_nonconvex = allow_nonconvex
        self.only_ecos = only_ecos
        self.nonconvex = False

    def coef(self):
        if self.rng.random() < 0.04:
            # a genuine coefficient of size 1e-9 (2^-30, exact in binary): not round-off, the component occurs in the constraint
            self.tiny = True
            return float(self.rng.choice([1, -1, 3])) * 2.0 ** -30
        return float(self.rng.choice([-3, -2, -1, 1, 2, 3, 0.5, -1.5]))

    def aff(self, p_const=0.12, p_zero_cancel=0.05):
        """random affine ScalarExpression"""
        rng = self.rng
        cl = self.cl
        if rng.random() < p_const:
            return cl.Expression([float(rng.randint(-2, 3))])[0]
        k = rng.randint(1, min(3, len(self.scalars)))
        e = cl.Expression([float(rng.choice([0, 0, 1, -1, 2]))])[0]
        picks = rng.sample(range(len(self.scalars)), k)
        for j in picks:
            e = e + self.coef() * self.scalars[j]
        if rng.random() < p_zero_cancel:
            j = rng.randrange(len(self.scalars))
            e = e + self.scalars[j] - self.scalars[j]        # cancelled atom stays in the dict with coefficient 0
        return e

    def affvec(self, n):
        return self.cl.Expression([self.aff() for _ in range(n)])

    def atom_expr(self):
        """a convex scalar expression made of one atom kind (coefficient 1)"""
        rng, cl = self.rng, self.cl
        kind = rng.choice(['abs', 'pos', 'wse', 'relent', 'norm', 'norm'])
        self.kinds.append(kind)
        if kind == 'abs':
            return self.cl_abs(self.aff())
        if kind == 'pos':
            return self.cl_pos(self.aff())
        if kind == 'wse':
            n = rng.randint(1, 3)
            x = [self.aff() for _ in range(n)]
            c = np.array([float(rng.choice([1, 2, 0.5, 0])) for _ in range(n)])
            return cl.weighted_sum_exp(c, cl.Expression(x))
        if kind == 'relent':
            n = rng.randint(1, 2)
            x = [self.aff() for _ in range(n)]
            y = [self.aff() for _ in range(n)]
            return cl.relent(cl.Expression(x), cl.Expression(y))
        n = rng.randint(1, 3)
        return cl.vector2norm(self.affvec(n))

    def add_constraint(self):
        rng, cl = self.rng, self.cl
        r = rng.random()
        if r < 0.22:
            n = rng.randint(1, 3)
            lhs, rhs = self.affvec(n), self.affvec(n)
            op = rng.choice(['==', '<=', '>='])
            self.cons.append(lhs == rhs if op == '==' else (lhs <= rhs if op == '<=' else lhs >= rhs))
            self.kinds.append('aff' + op)
        elif r < 0.62:
            e = self.atom_expr()
            if rng.random() < 0.35:
                e = e * float(rng.choice([2, 0.5, 3])) + self.atom_expr()
            if rng.random() < 0.15 and self.cons_atoms:
                e = e + rng.choice(self.cons_atoms)         # shared atom object across constraints
            self.cons_atoms.append(e)
            rhs = self.aff()
            if self.allow_nonconvex and rng.random() < 0.5:
                self.nonconvex = True
                self.cons.append(e >= rhs if rng.random() < 0.5 else -1.0 * e <= rhs)
                self.kinds.append('nonconvex')
            else:
                self.cons.append(e <= rhs if rng.random() < 0.5 else rhs >= e)
        elif r < 0.8:
            K = self.rand_K()
            m = sum(l for _, l in K)
            y = self.affvec(m)
            from sageopt.coniclifts.cones import Cone
            Kc = [Cone(t, l) for t, l in K]
            if rng.random() < 0.5:
                self.cons.append(cl.PrimalProductCone(y, Kc))
                self.kinds.append('primal')
            else:
                self.cons.append(self.DualProductCone(y, Kc))
                self.kinds.append('dual')
        elif r < 0.9 and not self.only_ecos:
            n = rng.randint(2, 3)
            w = self.affvec(n + 1)
            lamb = np.array([float(rng.choice([1, 2, 3])) for _ in range(n)] + [0.0])
            lamb[-1] = -lamb[:-1].sum()
            perm = list(range(n + 1))
            rng.shuffle(perm)
            self.cons.append(self.PowCone(w[perm], lamb[perm]))
            self.kinds.append('pow')
        elif not self.only_ecos:
            syms = [v for v in self.vars if v.ndim == 2 and v.shape[0] == v.shape[1] and 'symmetric' in getattr(v, '_var_properties', [])]
            if syms and rng.random() < 0.7:
                X = rng.choice(syms)
                n = X.shape[0]
                C = np.eye(n) * float(rng.randint(0, 2))
                self.cons.append(X >> C if rng.random() < 0.5 else X << (C + np.eye(n)))
            else:
                n = 2
                a, b_, c = self.aff(), self.aff(), self.aff()
                M = cl.Expression([[a, b_], [b_, c]])
                self.cons.append(self.PSD(M))
            self.kinds.append('psd')
        else:
            self.add_constraint()

    def rand_K(self):
        rng = self.rng
        K = []
        for _ in range(rng.randint(1, 3)):
            t = rng.choice(['+', '0', 'S', 'e'])
            K.append((t, 3 if t == 'e' else rng.randint(1, 3)))
        if all(t == '0' for t, _ in K) and rng.random() < 0.8:
            K.append(('+', 1))
        return K

    def build(self):
        self.cons_atoms = []
        for _ in range(self.rng.randint(1, 5)):
            self.add_constraint()
        return self


class CorpusBuild:
    def __init__(self, entry):
        import sageopt.coniclifts as cl
        from sageopt.coniclifts.operators.abs import abs as cl_abs
        from sageopt.coniclifts.operators.pos import pos as cl_pos
        from sageopt.coniclifts.constraints.set_membership.product_cone import DualProductCone
        from sageopt.coniclifts.constraints.set_membership.pow_cone import PowCone
        from sageopt.coniclifts.constraints.set_membership.psd_cone import PSD
        env = {'cl': cl, 'np': np, 'cl_abs': cl_abs, 'cl_pos': cl_pos, 'DualProductCone': DualProductCone, 'PowCone': PowCone, 'PSD': PSD}
        exec(entry['py'], env)          # corpus entries are this repository's own pinned replays
        self.cons, self.vars = env['cons'], env['vars']
        self.kinds = ['corpus']
        self.nonconvex = bool(entry.get('nonconvex'))


def run_case(b):
    """serialise, compile with the implementation; returns (case-json-for-model, impl-output or {'raises'})"""
    import sageopt.coniclifts as cl
    from sageopt.coniclifts.base import ScalarVariable
    ser = [clm.ser_con(c) for c in b.cons]
    # candidates: the declared user Variables + epigraph Variables of the atoms.  (Constraint.variables() is NOT called
    # here: it runs remove_zeros() on the constraint's expressions, i.e. it changes the state that is being compiled.)
    cand = [clm.var_info(v) for v in b.vars] + clm.epi_vars(ser)
    dummy = int(ScalarVariable.curr_variable_count()) - 1
    gen = b.vars[0].generation
    for v in cand:
        if v['gen'] is None:
            v['gen'] = gen
    case = {'cons': ser, 'dummy': dummy, 'vars': cand, 'kinds': sorted(set(b.kinds)), 'nonconvex': b.nonconvex,
            'user_ids': [i for v in b.vars for i in v.scalar_variable_ids]}
    rng = getattr(b, 'rng', None)
    if rng is not None and len(b.cons) >= 2 and rng.random() < 0.3:
        # the same constraint objects were compiled before, as part of another (shorter) list, i.e. at other row offsets: whatever
        # a constraint or an atom remembers of that compilation must not show in this one
        k = rng.randint(1, len(b.cons) - 1)
        try:
            cl.compile_constrained_system(b.cons[k:])
            case['precompiled_from'] = k
        except Exception:  # noqa: BLE001
            pass
    try:
        A, bb, K, vmap, variables, svid2col = cl.compile_constrained_system(b.cons)
        out = clm.canon_system(A, bb, K, svid2col, vmap)
        out['viol'] = None
    except Exception as e:  # noqa: BLE001
        out = {'raises': type(e).__name__, 'msg': str(e)[:200]}
    return case, out


def model_line(case):
    return {'op': 'compile.system', 'cons': clm.strip_for_model(case['cons']), 'dummy': case['dummy'],
            'vars': [{'name': v['name'], 'ids': v['ids'], 'gen': v['gen']} for v in case['vars']]}


# ---------------------------------------------------------------- oracle

def sample_sigmas(case, rng, k):
    ids = case['user_ids']
    out = []
    tiny = '/1073741824' in common.canon_json(case['cons'])
    for _ in range(k):
        mode = rng.random()
        if tiny and mode < 0.4:
            # some coefficient is of size 2^-30: assignments at which its term is of size one (one component huge, the others small)
            big = rng.choice(ids)
            out.append({i: (float(rng.choice([-3, -1, 1, 2, 5])) * 2.0 ** 30 if i == big else float(rng.randint(-2, 2))) for i in ids})
        elif mode < 0.3:
            out.append({i: 0.0 for i in ids})
        elif mode < 0.7:
            out.append({i: float(rng.randint(-2, 2)) for i in ids})
        elif mode < 0.9 or k < 50:
            out.append({i: rng.randint(-8, 8) / 4.0 for i in ids})
        else:
            out.append({i: rng.randint(-24, 24) / 8.0 for i in ids})
    return out


def weights_by_block(case, out):
    """power-cone weights per block index of out['K'] (the order of 'pow' blocks follows the constraint order)"""
    ws = [c['weights'] for c in case['cons'] if c['cls'] == 'pow']
    res, j = {}, 0
    for bi, (t, l) in enumerate(out['K']):
        if t == 'pow':
            res[bi] = ws[j] if j < len(ws) else None
            j += 1
    return res


def model_guided_sigmas(mo, case, rng, k=6):
    """failing-input search: assignments of the user components taken from points of the MODEL's system (found by ECOS with a zero
    objective and with a few random linear objectives); random grids rarely hit the feasible set of a list of several constraints"""
    try:
        A = [[float(F(v)) for v in row] for row in mo['A']]
        b = [float(F(v)) for v in mo['b']]
        # blocks ECOS cannot take (power cones, LMIs) are left out of the search problem: the candidates are then only points of a
        # relaxation, and the definition decides afterwards which of them satisfy everything
        keepK, keep, i = [], [], 0
        for t, l in mo['K']:
            if t not in ('pow', 'P'):
                keepK.append([t, l])
                keep += list(range(i, i + l))
            i += l
        out_m = {'A': [A[r] for r in keep], 'b': [b[r] for r in keep], 'K': keepK, 'cols': mo['cols']}
    except Exception:  # noqa: BLE001
        return []
    sig = []
    for t in range(k):
        obj = None if t == 0 else np.array([float(rng.choice([-1, 0, 0, 1])) for _ in out_m['cols']])
        r = ecos_feasible(out_m, {}, obj=obj)
        if isinstance(r, tuple) and r[0] is True:
            x = r[1]
            sig.append({cid: float(round(x[j], 6)) for j, cid in enumerate(out_m['cols']) if cid in case['user_ids']})
    ids = case['user_ids']
    out = []
    for s_ in sig:
        d = {i: 0.0 for i in ids}
        d.update(s_)
        out.append(d)
    return out


def ecos_feasible(out, fixed, obj=None):
    """feasibility of {t : A [fixed, t] + b in K} with ECOS (optionally with a linear objective over the free columns).
    True / False / None"""
    import scipy.sparse as sp
    import safe_ecos
    K = out['K']
    if any(t in ('pow', 'P') for t, _ in K):
        return None
    A = np.asarray(out['A'], dtype=float).reshape(len(out['b']), len(out['cols']))
    b = np.asarray(out['b'], dtype=float)
    free = [j for j, cid in enumerate(out['cols']) if cid not in fixed]
    fx = np.array([fixed.get(cid, 0.0) for cid in out['cols']])
    b2 = b + A @ fx
    Af = A[:, free]
    rows = {'0': [], '+': [], 'S': [], 'e': []}
    q = []
    i = 0
    for t, l in K:
        if t == 'S' and l == 1:
            rows['+'] += [i]          # a one-dimensional second-order cone is the half line
        else:
            rows[t] += list(range(i, i + l))
            if t == 'S':
                q.append(l)
        i += l
    if not free or (len(rows['+']) + len(rows['S']) + len(rows['e'])) == 0 or len(rows['e']) % 3 != 0:
        return None
    G = sp.csc_matrix(-np.vstack([Af[rows['+']], Af[rows['S']], Af[rows['e']]]).reshape(-1, len(free)))
    h = np.concatenate([b2[rows['+']], b2[rows['S']], b2[rows['e']]])
    dims = {'l': len(rows['+']), 'q': q, 'e': len(rows['e']) // 3}
    kw = {}
    if rows['0']:
        kw = {'A': sp.csc_matrix(Af[rows['0']].reshape(-1, len(free))), 'b': -b2[rows['0']]}
    sol = safe_ecos.solve(np.zeros(len(free)) if obj is None else np.asarray(obj, dtype=float)[free], G, h, dims, verbose=False, **kw)
    if sol is None:
        return None
    flag = sol['info']['exitFlag']
    if flag == 0:
        x = fx.copy()
        x[free] = sol['x']
        return True, x
    if flag == 1:
        return False, None
    return None


def oracle(case, out, rng, nsig=6, extra_sigmas=()):
    """returns (why, replay-detail, tags) or None"""
    if 'raises' in out:
        nonempty = any(not (c['cls'] == 'dual' and all(t == '0' for t, _ in c['K'])) for c in case['cons'])
        if nonempty and any(c['cls'] == 'dual' and all(t == '0' for t, _ in c['K']) for c in case['cons']):
            return ('compile raised %s for a DualProductCone whose cones are all zero cones (its dual is the free cone: no constraint)'
                    % out['raises'], {}, ['F20-dual-all-zero'])
        return None
    # dimensions
    m = len(out['b'])
    if sum(l for _, l in out['K']) != m or len(out['A']) != m:
        return 'row dimensions of A, b, K disagree', {}, []
    # variable map: every user component with a nonzero coefficient somewhere must have its own column
    used = set()
    for c in case['cons']:
        rows = c.get('rows', []) + c.get('y', []) + c.get('w', []) + c.get('z', []) + [r for rr in c.get('arg', []) for r in rr]
        if c['cls'] == 'dual':
            # rows paired with a zero cone are unconstrained (the dual is the free cone): they do not count as occurrences
            rows, i = [], 0
            for t, l in c['K']:
                if t != '0':
                    rows += c['y'][i:i + l]
                i += l
        for r in rows:
            for ref, cf in r['terms']:
                if F(cf) == 0:
                    continue
                if 'v' in ref:
                    used.add(ref['v'])
                else:
                    for a in ref['args']:
                        used.update(v for v, _ in a['co'])
    id2col = {cid: j for j, cid in enumerate(out['cols'])}
    for v in case['vars']:
        if v['name'] not in out['vmap']:
            if any(i in used for i in v['ids']) and v['ids'][0] in case['user_ids']:
                return 'Variable %s occurs in a constraint but is missing from variable_map' % v['name'], {}, []
            continue
        vm = out['vmap'][v['name']]
        for i, col in zip(v['ids'], vm):
            if i in used and col < 0:
                return 'component id %d of %s occurs in a constraint but maps to -1' % (i, v['name']), {}, []
            if col >= 0 and id2col.get(i) != col:
                return 'component id %d of %s maps to column %d which carries id %s' % (i, v['name'], col, out['cols'][col]), {}, []
            if col < 0 and i in id2col:
                return 'component id %d has column %d but maps to -1' % (i, id2col[i]), {}, []
    wb = weights_by_block(case, out)
    atoms = {}
    for a in clm.atoms_of(case['cons']):
        key = (a['kind'], common.canon_json(a['args']))
        atoms.setdefault(key, a)
    epi_of = {}
    for c in case['cons']:
        pass
    for sigma in list(extra_sigmas) + sample_sigmas(case, rng, nsig):
        holds = clm.combine([clm.con_holds(c, sigma) for c in case['cons']])
        if holds is None:
            continue
        # closed-form extension: every epigraph column gets its atom's value (first-seen atom object per identity)
        x = {}
        for a in atoms.values():
            x[a['epi']] = clm.atom_val(a, sigma)
        full = dict(x)
        full.update(sigma)
        if any(math.isinf(v) for v in full.values()):
            xs = None
        else:
            xs = [full.get(cid, 0.0) for cid in out['cols']]
        if holds:
            mem = clm.system_member(out, xs, wb) if xs is not None else None
            if mem is False:
                return ('the assignment %s satisfies every constraint by definition, but its extension by t = atom values violates A x + b in K'
                        % sigma, {'sigma': {str(k): v for k, v in sigma.items()}}, [])
        else:
            # must be infeasible for every aux; closed form first (if it is a member the system accepts an infeasible point)
            mem = clm.system_member(out, xs, wb) if xs is not None else False
            if mem is True:
                return ('the assignment %s violates a constraint by definition, but extends to a point with A x + b in K'
                        % sigma, {'sigma': {str(k): v for k, v in sigma.items()}}, nonconvex_tags(case))
            r = ecos_feasible(out, sigma)
            if isinstance(r, tuple) and r[0] is True:
                # certificate: the returned point must really be in K (guards against solver noise)
                if clm.system_member(out, r[1].tolist(), wb, margin=1e-6) is True:
                    return ('the assignment %s violates a constraint by definition, but ECOS found auxiliary values with A x + b in K'
                            % sigma, {'sigma': {str(k): v for k, v in sigma.items()}, 'x': r[1].tolist()}, nonconvex_tags(case))
    return None


def nonconvex_tags(case):
    return ['F9-nonconvex-relaxed'] if case.get('nonconvex') else []


def mentions_variable(x):
    if isinstance(x, dict):
        return 'v' in x or 'kind' in x or any(mentions_variable(v) for v in x.values())
    if isinstance(x, (list, tuple)):
        return any(mentions_variable(v) for v in x)
    return False


def run(ctx):
    rng = ctx.rng
    ctx.lean = common.lean_check('C07')
    quick = ctx.quick()
    common.run_regressions(ctx, 'C07', recheck)
    N = 300 if quick else 3000
    cases, outs = [], []
    for ci, entry in enumerate(common.load_corpus('C07')):
        case, out = run_case(CorpusBuild(entry))
        case['corpus_entry'] = ci
        cases.append(case)
        outs.append(out)
    for i in range(N):
        # every model is built from its own sub-seed, so that a stored case can be built again (recheck)
        bseed, nonconvex = rng.randrange(1 << 30), rng.random() < 0.08
        b = Build(random.Random(bseed), i, allow_nonconvex=nonconvex, only_ecos=False).build()
        case, out = run_case(b)
        case['bseed'], case['nonconvex'] = bseed, nonconvex
        cases.append(case)
        outs.append(out)
    mouts = run_driver([model_line(c) for c in cases])
    deep_left = [25]
    for c, io, mo in zip(cases, outs, mouts):
        if isinstance(mo, dict) and 'error' in mo:
            raise common.DriverError(mo['error'])
        ctx.case({'stream': 'compile', 'kinds': c['kinds'], 'ncons': len(c['cons'])},
                 nontrivial=len(c['cons']) >= 2 or bool(clm.atoms_of(c['cons'])))
        ctx.evaluations += 0
        for k in c['kinds']:
            ctx.count('kind:' + k)
        ctx.count('stream:compile')
        if 'raises' in io and 'raises' not in mo and not mentions_variable(c['cons']):
            # a constraint list in which no Variable occurs at all (constants only) cannot be compiled (IndexError): nothing to
            # be equivalent to; adjudicated as outside the property (raising is not a wrong system)
            ctx.count('skipped:no-variable-anywhere')
            continue
        if 'raises' in io or 'raises' in mo:
            if ('raises' in io) != ('raises' in mo):
                ctx.disagreement('compile', {'cons': c['cons'], 'dummy': c['dummy']}, io, mo)
            else:
                ctx.count('raises:compile')
                ctx.traces_validated += 1
        else:
            a = clm.canon_impl(io, mo.get('eRows', []))
            m = clm.canon_model(mo)
            # the model maps every candidate Variable; the implementation only those its constraints report
            extra = set(a['vmap']) - set(m['vmap'])
            if not extra:
                m['vmap'] = {k: v for k, v in m['vmap'].items() if k in a['vmap']}
            if common.canon_json(a) != common.canon_json(m):
                ctx.disagreement('compile', {'cons': c['cons'], 'dummy': c['dummy'], 'vars': c['vars']}, a, m)
            else:
                ctx.traces_validated += 1
        res = oracle(c, io, rng, nsig=4 if quick else 8)
        if not res and ctx.disagreements and ctx.disagreements[-1]['case'].get('cons') is c['cons'] and deep_left[0] > 0:
            # failing-input search on a case where model and implementation disagree: many more points
            deep_left[0] -= 1
            res = oracle(c, io, rng, nsig=150, extra_sigmas=model_guided_sigmas(mo, c, rng) if 'raises' not in mo else ())
        if res:
            why, detail, tags = res
            if detail.get('sigma'):
                detail = dict(detail, sigma_by_pos=[detail['sigma'].get(str(i)) for i in c['user_ids']])
            rep = {'case': c, 'observed': io if 'raises' in io else {'K': io['K'], 'cols': io['cols']}, 'detail': detail}
            ctx.violation('compile: ' + why, rep, tags=tags)
    # distinct count: the digest of the serialised constraint list
    ctx.nontrivial = {common.digest({'cons': clm.strip_for_model(c['cons'])}) for c in cases
                      if len(c['cons']) >= 2 or clm.atoms_of(c['cons'])}
    if (not ctx.lean.ok or ctx.disagreements) and not ctx.violations:
        common.broken_report(ctx, 'definition-vs-compiled-system sampling found no failing input among %d cases' % ctx.evaluations)
    return ctx.finish(
        level='proof',
        rule='random constraint lists (1-5 constraints over 1-3 Variables incl. 0-d, size-1, matrix and symmetric ones) built through '
             'the real API: affine ==/<=/>=, abs/pos/weighted_sum_exp/relent/vector2norm with variable, constant, repeated and '
             'cancelled arguments, shared atoms, Primal/DualProductCone over {+,0,S,e}, PowCone, LMIs, a nonconvex stream; '
             'non-trivial = at least two constraints or a nonlinear atom; distinct = distinct serialised constraint state',
        trusted=TRUSTED, assumptions=ASSUME)


def recheck(r):
    """build the stored model again from its sub-seed and decide it with many more assignments; the violation it (still) shows"""
    c = r.get('case', {})
    if 'corpus_entry' in c:
        b = CorpusBuild(common.load_corpus('C07')[c['corpus_entry']])
    elif 'bseed' in c:
        b = Build(random.Random(c['bseed']), 0, allow_nonconvex=c.get('nonconvex', False), only_ecos=False).build()
    else:
        return None
    case, out = run_case(b)
    rng = random.Random(0)
    # the stored assignment first (by position: the ids of the rebuilt Variables are other numbers)
    stored = (r.get('detail') or {}).get('sigma_by_pos')
    extra = [dict(zip(case['user_ids'], stored))] if stored and len(stored) == len(case['user_ids']) else []
    for nsig in (8, 150):
        res = oracle(case, out, rng, nsig=nsig, extra_sigmas=extra)
        known = {e.get('id') for e in common.load_known_findings('C07') if e.get('status') == 'known'}
        if res and not (set(res[2] or []) & known):            # (a recorded, unrepaired finding is that finding)
            return 'compile: ' + res[0]
    return None


def replay(obj):
    print('what:', obj['what'])
    print(common.canon_json(obj['replay'].get('detail', {})))
    return 1
