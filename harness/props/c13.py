"""
C13 -- arithmetic on symbolic coefficients commutes with substituting values.

Model: Sig.lean instantiated at coefficient type `Lin` (Model/Lin.lean); theorems: Props/C13.lean.
Tie: expression trees mixing numeric and Expression-coefficient operands (f - gamma, s_g * g,
Signomial.sum of Lagrangian summands) evaluated on the real classes with ADVERSARIAL values stored
in the Variables (0, NaN, leftovers), compared with the model at representation level
(alpha row order; each coefficient as its canonical affine form).
Oracle: substitute-then-compute with `fractions` under several random assignments.
"""
from fractions import Fraction as F

import numpy as np

import common
import sigtree as st
from common import correspond, frac_str

TRUSTED = [
    'Lean 4.33.0 kernel; axioms of every theorem in Props/C13*.lean within {propext, Classical.choice, Quot.sound}',
    'harness/props/c13.py, harness/sigtree.py (generators, canonicalisation of ScalarExpressions to affine forms)',
    'Driver.lean / Drv/SigL.lean tree evaluator',
]
ASSUME = [
    'coefficients are affine in ScalarVariables (no nonlinear atoms inside Signomial coefficients)',
    'float64 arithmetic exact on the generated domain',
]


def impl_tree(c):
    env = st.SymEnv(c['sizes'], values=c.get('stored'))
    res = st.build_sym(c['t'], env)
    return st.out_json_sym(res, env)


def line_tree(c):
    return {'op': 'sigl.eval', 't': st.strip_types(c['t'])}


def gen_symleaf(rng, n, poly, nvars, purevar_of=None):
    m = rng.randint(1, 3)
    rows = []
    seen = set()
    while len(rows) < m:
        r = tuple(F(rng.randint(0, 2)) if poly else F(rng.randint(-2, 4), 2) for _ in range(n))
        if r not in seen or rng.random() < 0.15:
            seen.add(r)
            rows.append(list(r))
    if rng.random() < 0.25:
        rows[rng.randrange(m)] = [F(0)] * n
    cs = [st.lin_spec(rng, nvars) for _ in range(m)]
    if rng.random() < 0.15:
        cs[rng.randrange(m)] = {'off': '0', 'co': []}      # identically zero coefficient
    return {'k': 'sigL', 'poly': poly, 'n': n, 'alpha': [[frac_str(x) for x in r] for r in rows], 'c': cs}


def gen_tree(rng, depth, n, poly, nvars):
    """at most one symbolic factor per product (the code rejects products of two non-constant Expressions;
    such products are generated rarely, as the malformed stream)"""
    if depth == 0 or rng.random() < 0.2:
        return gen_symleaf(rng, n, poly, nvars) if rng.random() < 0.6 else st.gen_leaf(rng, n, poly)
    op = rng.choice(['add', 'add', 'sub', 'sub', 'mul', 'mul', 'neg', 'wz', 'sum'])
    if op in ('neg', 'wz'):
        return {'k': op, 'l': gen_tree(rng, depth - 1, n, poly, nvars)}
    if op == 'sum':
        return {'k': 'sum', 'fs': [gen_tree(rng, depth - 1, n, poly, nvars) for _ in range(rng.randint(1, 4))]}
    if op == 'mul':
        r = rng.random()
        if r < 0.45:   # symbolic * numeric signomial  (s_g * g)
            l, rr = gen_tree(rng, depth - 1, n, poly, nvars), st.gen_leaf(rng, n, poly)
        elif r < 0.6:  # scalar * symbolic
            l, rr = st.gen_num(rng), gen_tree(rng, depth - 1, n, poly, nvars)
        elif r < 0.75:  # numeric signomial * ScalarExpression scalar (gamma); a ScalarExpression on the LEFT of a
            # Signomial is not supported by coniclifts (ScalarExpression.__mul__ raises) and is not claimed
            l, rr = st.gen_leaf(rng, n, poly), {'k': 'sx', 'v': st.lin_spec(rng, nvars, 0.0)}
        elif r < 0.93:
            l, rr = st.gen_leaf(rng, n, poly), gen_tree(rng, depth - 1, n, poly, nvars)
        else:          # malformed: two symbolic factors
            l, rr = gen_symleaf(rng, n, poly, nvars), gen_symleaf(rng, n, poly, nvars)
        return {'k': 'mul', 'l': l, 'r': rr}
    r = rng.random()
    l = gen_tree(rng, depth - 1, n, poly, nvars)
    if r < 0.2:   # f - gamma
        return {'k': op, 'l': l, 'r': {'k': 'sx', 'v': st.lin_spec(rng, nvars, 0.0)}}
    if r < 0.4:
        return {'k': op, 'l': l, 'r': st.gen_num(rng)}
    if r < 0.55 and op == 'sub':
        return {'k': 'sub', 'l': l, 'r': l}      # cancels identically
    return {'k': op, 'l': l, 'r': gen_tree(rng, depth - 1, n, poly, nvars)}


def scale_var(t, j, q):
    """the same tree with every coefficient on Variable component j multiplied by q"""
    def spec(sp):
        if not isinstance(sp, dict):
            return sp
        return {'off': sp['off'], 'co': [[v, frac_str(F(x) * q) if v == j else x] for v, x in sp['co']]}
    t = dict(t)
    if t['k'] == 'sigL':
        t['c'] = [spec(x) for x in t['c']]
    elif t['k'] == 'sx':
        t['v'] = spec(t['v'])
    for k in ('l', 'r'):
        if isinstance(t.get(k), dict):
            t[k] = scale_var(t[k], j, q)
    if 'fs' in t:
        t['fs'] = [scale_var(x, j, q) for x in t['fs']]
    return t


def mentions_var(t, j):
    if t['k'] == 'sigL':
        return any(isinstance(sp, dict) and any(v == j for v, _ in sp['co']) for sp in t['c'])
    if t['k'] == 'sx':
        return isinstance(t['v'], dict) and any(v == j for v, _ in t['v']['co'])
    return any(mentions_var(x, j) for x in ([t[k] for k in ('l', 'r') if isinstance(t.get(k), dict)] + t.get('fs', [])))


def has_sym(t):
    if t['k'] in ('sigL', 'sx'):
        return True
    return any(has_sym(x) for x in ([t[k] for k in ('l', 'r') if isinstance(t.get(k), dict)] + t.get('fs', [])))


# ---------------------------------------------------------------- oracle: substitute, then compute

def subst(t, sigma):
    """replace symbolic leaves by numeric ones under the assignment sigma (list of Fractions)"""
    k = t['k']

    def val(spec):
        if not isinstance(spec, dict):
            return F(spec)
        return F(spec['off']) + sum(F(q) * sigma[v] for v, q in spec['co'])
    if k == 'sx':
        return {'k': 'num', 'v': frac_str(val(t['v']))}
    if k == 'sigL':
        return {'k': 'sig', 'poly': t['poly'], 'n': t['n'], 'alpha': t['alpha'], 'c': [frac_str(val(s)) for s in t['c']]}
    out = dict(t)
    for x in ('l', 'r'):
        if isinstance(t.get(x), dict):
            out[x] = subst(t[x], sigma)
    if 'fs' in t:
        out['fs'] = [subst(x, sigma) for x in t['fs']]
    return out


def ref_eval_sum(t):
    """extend sigtree.ref_eval with the n-ary sum node"""
    if t['k'] == 'sum':
        acc = None
        for x in t['fs']:
            r = ref_eval_sum(x)
            if r[0] == 'num':
                raise st.RefError('sum of scalar')
            if acc is None:
                acc = ('fun', r[1], dict(r[2]), r[3])
            else:
                d = acc[2]
                for kk, v in r[2].items():
                    d[kk] = d.get(kk, F(0)) + v
                acc = ('fun', acc[1], st.ref_clean(d), acc[3])
        return acc
    if t['k'] in ('add', 'sub', 'mul', 'neg', 'wz'):
        # evaluate children with sum support by rewriting them to leaves
        t2 = dict(t)
        for x in ('l', 'r'):
            if isinstance(t.get(x), dict):
                r = ref_eval_sum(t[x])
                t2[x] = to_leaf(r)
        return st.ref_eval(t2)
    return st.ref_eval(t)


def to_leaf(r):
    if r[0] == 'num':
        return {'k': 'num', 'v': frac_str(r[1])}
    _, n, d, poly = r
    items = list(d.items()) or [(tuple([F(0)] * n), F(0))]
    return {'k': 'sig', 'poly': poly, 'n': n, 'alpha': [[frac_str(x) for x in k] for k, _ in items],
            'c': [frac_str(v) for _, v in items]}


def oracle(c, io, rng_seed):
    import random
    rng = random.Random(rng_seed)
    nv = sum(c['sizes'])
    if 'raises' in io:
        # raising is legitimate only when the expression is not defined (e.g. product of two symbolic factors)
        try:
            ref_eval_sum(subst(c['t'], [F(1)] * nv))
        except st.RefError:
            return None
        if c.get('two_symbolic'):
            return None
        return 'raised %s (%s) on a well-defined expression' % (io['raises'], io.get('msg', '')[:80])
    if 'alpha' not in io:
        return None
    rows = [tuple(F(x) for x in r) for r in io['alpha']]
    if len(set(rows)) != len(rows):
        return 'exponent rows of the result are not unique'
    for trial in range(4 if c.get('tinyvar') else 3):
        sigma = [F(rng.randint(-4, 4), rng.choice([1, 2])) for _ in range(nv)]
        if trial == 3:
            # one Variable component occurs with coefficients of size 2^-k only (everywhere): its terms are not identically zero,
            # and at the value 2^k (all other components 0) they are of size one
            j, k = c['tinyvar']
            sigma = [F(2) ** k if v == j else F(0) for v in range(nv)]
        try:
            ref = ref_eval_sum(subst(c['t'], sigma))
        except st.RefError:
            return None
        if ref[0] == 'num':
            return None
        got = {}
        for r, cj in zip(rows, io['c']):
            v = F(cj['off']) + sum(F(q) * sigma[vid] for vid, q in cj['co'])
            if v != 0:
                got[r] = v
        # the implementation computes coefficients in float64: results that need more than 53 bits (products of the tiny
        # coefficients the generator plants) may differ from the exact value by rounding, never by more than ~1e-14 of the
        # magnitudes involved; a dropped or misplaced term differs by at least 1e-9 of them
        size = 1 + max([abs(v) for v in list(got.values()) + list(ref[2].values())] + [0])
        keys = set(got) | set(ref[2])
        if any(abs(got.get(k, F(0)) - ref[2].get(k, F(0))) > F(1, 10 ** 13) * size for k in keys):
            return ('with Variable values %s the result evaluates to %s but computing on the substituted operands gives %s'
                    % ([str(s) for s in sigma], {str(tuple(map(str, k))): str(v) for k, v in got.items()},
                       {str(tuple(map(str, k))): str(v) for k, v in ref[2].items()}))
    return None


def two_symbolic(t):
    if t['k'] == 'mul':
        if has_sym(t['l']) and has_sym(t['r']):
            return True
    return any(two_symbolic(x) for x in ([t[k] for k in ('l', 'r') if isinstance(t.get(k), dict)] + t.get('fs', [])))


def run(ctx):
    rng = ctx.rng
    ctx.lean = common.lean_check('C13')
    common.run_regressions(ctx, 'C13', lambda r: recheck(r))
    quick = ctx.quick()
    N = 500 if quick else 5000
    maxdepth = 3 if quick else 5
    corpus = common.load_corpus('C13')
    cases = [c for c in corpus if 'regress' not in c]
    while len(cases) < N:
        n = rng.randint(1, 3)
        poly = rng.random() < 0.35
        sizes = [rng.randint(1, 3) for _ in range(rng.randint(1, 3))]
        t = gen_tree(rng, rng.randint(1, maxdepth), n, poly, sum(sizes))
        if st.tree_size(t) > 40 or not has_sym(t):
            continue
        base = {'sizes': sizes, 't': t, 'two_symbolic': two_symbolic(t)}
        if rng.random() < 0.2:
            j = rng.randrange(sum(sizes))
            if mentions_var(t, j):
                k = rng.choice([50, 70, 90])
                base['t'] = scale_var(t, j, F(1, 2 ** k))
                base['tinyvar'] = [j, k]
        # the same tree under three adversarial value stores: history independence
        stores = [None, [0] * sum(sizes), [None] * sum(sizes), [rng.choice([0, 1, -1, None, 2.5]) for _ in range(sum(sizes))]]
        for s in stores[:(2 if quick else 4)] if rng.random() < 0.5 else [rng.choice(stores)]:
            cc = dict(base)
            cc['stored'] = s
            cases.append(cc)
    for c in cases:
        ctx.count('stored:' + ('none' if c.get('stored') is None else 'zeros' if all(v == 0 for v in c['stored'])
                               else 'nan' if all(v is None for v in c['stored']) else 'mixed'))
        if c.get('two_symbolic'):
            ctx.count('malformed:two_symbolic_factors')
    # exponent rows and the structure of every coefficient are compared exactly; coefficient VALUES up to float64 rounding
    # (1e-13 relative): the tiny coefficients the generator plants make some exact results need more than 53 bits
    res = correspond(ctx, 'symtree', cases, impl_tree, line_tree,
                     nontrivial=lambda c, o: st.tree_size(c['t']) >= 3, equal=common.tolerant_equal)
    for i, (c, io, mo) in enumerate(res):
        why = oracle(c, io, ctx.seed * 7919 + i)
        if why:
            ctx.violation('symbolic arithmetic: ' + why, {'case': c, 'observed': io, 'model': mo, 'oracle_seed': ctx.seed * 7919 + i})
    # history independence on the implementation alone: same tree, different stored values => same representation
    by_tree = {}
    for c, io, mo in res:
        key = common.digest({'sizes': c['sizes'], 't': c['t']})
        by_tree.setdefault(key, []).append((c, io))
    for key, lst in by_tree.items():
        outs = {common.canon_json(common.norm_raises(io)) for _, io in lst}
        if len(outs) > 1:
            ctx.violation('symbolic arithmetic: the result depends on the values stored in the Variables',
                          {'case': lst[0][0], 'others': [c.get('stored') for c, _ in lst], 'observed': [io for _, io in lst]})
    if (not ctx.lean.ok or ctx.disagreements) and not ctx.violations:
        common.broken_report(ctx, 'substitute-then-compute reference found no failing input among %d cases' % ctx.evaluations)
    return ctx.finish(
        level='proof',
        rule='random trees (depth <= %d) mixing numeric and Expression-coefficient Signomials/Polynomials, ScalarExpression scalars, '
             'Signomial.sum, identical cancellations; each under adversarial stored Variable values (none / zeros / NaN / mixed); '
             'non-trivial = tree with >= 3 nodes containing a symbolic leaf; distinct = distinct canonical JSON' % maxdepth,
        trusted=TRUSTED, assumptions=ASSUME)


def replay(obj):
    r = obj['replay']
    c = r['case']
    out = common.impl_call(impl_tree, c)
    why = oracle(c, out, r.get('oracle_seed', 0))
    print('case:', common.canon_json(c))
    print('implementation returned:', common.canon_json(out))
    print('oracle:', why or 'ok')
    return 1 if why else 0


recheck = common.recheck_via_replay(replay)
