"""
C10 -- solver standard forms describe the same optimisation problem.

Model: lean/SageoptModel/Model/Solvers.lean (+ Cones.lean); theorems: Props/C10.lean.
Tie: exhaustive (all cone sequences of bounded length) + random differential test of ECOS.apply,
separate_cone_constraints, dualize_problem, Mosek._primal_apply/_dual_apply and the MOSEK task
recorded by harness/stubs/mosek.py, all compared exactly (small integer / dyadic data).
Oracle for the failing-input search: cone membership of sample points under both descriptions
(conemath.py) and weak duality on constructed primal/dual feasible pairs.
"""
import itertools
import sys
from fractions import Fraction as F

import numpy as np
import scipy.sparse as sp

import common
import conemath as cm
from common import correspond, frac_str

TRUSTED = [
    'Lean 4.33.0 kernel; axioms of every theorem in Props/C10*.lean within {propext, Classical.choice, Quot.sound}',
    'harness/props/c10.py generators and canonicalisation (dense matrices of exact rationals)',
    'harness/stubs/mosek.py: recording stub standing in for the MOSEK API (MOSEK cannot be installed here); '
    'MOSEK cone definitions as published (quad, pexp, dexp)',
    'Driver.lean / Drv/Solvers.lean JSON glue; scipy.sparse slicing / stacking',
]
ASSUME = [
    'MOSEK API semantics are those recorded/interpreted by the stub',
    'existence of strong duality is not a property of the code and is not proved (weak duality is)',
    'matrix data are small integers / dyadic rationals so that numpy arithmetic is exact',
]


def fr(x):
    return frac_str(F(float(x)))


def frl(v):
    return [fr(x) for x in np.asarray(v, dtype=float).ravel().tolist()]


def frm(M, ncols=None):
    M = M.toarray() if sp.issparse(M) else np.asarray(M, dtype=float)
    if M.ndim == 1:
        M = M.reshape(0, ncols or 0)
    return [[fr(x) for x in row] for row in M.tolist()]


_REUSE = [None]


def mk(c):
    from sageopt.coniclifts.cones import Cone
    if _REUSE[0] is not None:
        return _REUSE[0]           # the reuse stream hands the SAME objects to several applications in a row
    m = len(c['b'])
    A = sp.csc_matrix(np.array([[float(F(v)) for v in r] for r in c['A']], dtype=float).reshape(m, c['n']))
    b = np.array([float(F(v)) for v in c['b']], dtype=float)
    cc = np.array([float(F(v)) for v in c['c']], dtype=float)
    if c.get('alias'):
        # ONE Cone object per distinct (type, length), listed as often as it occurs (a cone list that is reused, e.g. X.K handed to
        # several product-cone constraints): what is done to one occurrence must not leak into the others
        objs = {}
        K = [objs.setdefault((t, l), Cone(t, l)) for t, l in c['K']]
    else:
        K = [Cone(t, l) for t, l in c['K']]
    return cc, A, b, K


def Kj(K):
    return [[co.type, int(co.len)] for co in K]


# ---------------------------------------------------------------- implementation runners

def impl_ecos(c):
    from sageopt.coniclifts.problems.solvers.ecos import ECOS
    cc, A, b, K = mk(c)
    data, inv = ECOS.apply(cc, A, b, K, {})
    return {'c': frl(data['c']), 'G': frm(data['G'], c['n']), 'h': frl(data['h']), 'l': int(data['cones']['l']),
            'q': [int(v) for v in data['cones']['q']], 'e': int(data['cones']['e']),
            'A': frm(data['A'], c['n']), 'b': frl(data['b'])}


def impl_separate(c):
    from sageopt.coniclifts.reformulators import separate_cone_constraints
    cc, A, b, K = mk(c)
    K0 = Kj(K)
    ds = None if c['dont_sep'] is None else set(c['dont_sep'])
    A1, b1, K1, sl = separate_cone_constraints(A, b, K, ds)
    assert Kj(K) == K0, 'input cone list was modified'
    return {'A': frm(A1, c['n']), 'b': frl(b1), 'K': Kj(K1),
            'slacks': [[co.type, int(co.len), [int(v) for v in co.annotations['col mapping']]] for co in sl]}


def impl_dualize(c):
    from sageopt.coniclifts.reformulators import dualize_problem
    cc, A, b, K = mk(c)
    f, G, h, Kd = dualize_problem(cc, A, b, K)
    return {'f': frl(f), 'G': frm(G, len(c['b'])), 'h': frl(h), 'Kd': Kj(Kd)}


class MosekStub:
    def __enter__(self):
        import stubs.mosek as stub
        self.prev = sys.modules.get('mosek')
        sys.modules['mosek'] = stub
        return stub

    def __exit__(self, *a):
        if self.prev is None:
            sys.modules.pop('mosek', None)
        else:
            sys.modules['mosek'] = self.prev


def task_json(task, stub, nvars_expected):
    bk = {stub.boundkey.fr: 'fr', stub.boundkey.up: 'up', stub.boundkey.fx: 'fx', stub.boundkey.lo: 'lo'}
    ck = {stub.conetype.quad: 'quad', stub.conetype.pexp: 'pexp', stub.conetype.dexp: 'dexp'}
    vb = []
    for j in range(task.nvars):
        k, lo, up = task.varbounds[j]
        if k in (stub.boundkey.lo, stub.boundkey.fx, stub.boundkey.up) and (lo != 0 or up != 0):
            raise AssertionError('variable bound value not 0')
        vb.append(bk[k])
    cb = []
    for i in range(task.ncons):
        k, lo, up = task.conbounds[i]
        if lo != up:
            raise AssertionError('constraint bound lo != up')
        cb.append([bk[k], fr(lo)])
    aij = [[fr(task.aij.get((i, j), 0.0)) for j in range(task.nvars)] for i in range(task.ncons)]
    obj = [fr(task.c.get(j, 0.0)) for j in range(task.nvars)]
    return {'nvars': task.nvars, 'varBounds': vb, 'cones': [[ck[t], m] for t, m in task.cones], 'ncons': task.ncons,
            'aij': aij, 'conBounds': cb, 'obj': obj, 'maximize': task.sense == stub.objsense.maximize}


def impl_mosek_primal(c):
    from sageopt.coniclifts.problems.solvers.mosek import Mosek
    cc, A, b, K = mk(c)
    data, inv = Mosek._primal_apply(cc, A, b, K)
    out = {'A': frm(data['A'], len(data['c'])), 'b': frl(data['b']), 'nIneq': int(data['K'][0].len),
           'nEq': int(data['K'][1].len),
           'sepK': [[co.type, int(co.len), [int(v) for v in co.annotations['col mapping']]] for co in data['sep_K']],
           'c': frl(data['c']), 'n': int(inv['n'])}
    assert [co.type for co in data['K']] == ['+', '0']
    with MosekStub() as stub:
        try:
            so = Mosek._primal_solve_via_data(data, {'verbose': False})
            out['task'] = task_json(so['task'], stub, len(data['c']))
        except RuntimeError as e:
            out['task'] = {'raises': True}
    return out


def impl_mosek_dual(c):
    from sageopt.coniclifts.problems.solvers.mosek import Mosek
    cc, A, b, K = mk(c)
    data, inv = Mosek._dual_apply(cc, A, b, K)
    cd = data['cone_dims']
    out = {'f': frl(data['f']), 'G': frm(data['G'], len(data['f'])), 'h': frl(data['h']), 'nPos': int(cd['+']),
           'socDims': [int(v) for v in cd['S']], 'nDexp': int(cd['de']), 'nFree': int(cd['fr'])}
    with MosekStub() as stub:
        so = Mosek._dual_solve_via_data(data, {'verbose': False})
        out['task'] = task_json(so['task'], stub, len(data['f']))
    return out


def impl_runs(c):
    from sageopt.coniclifts.utilities import contiguous_selector_lengths
    return {'runs': [int(v) for v in contiguous_selector_lengths(np.array(c['sel'], dtype=bool))]}


# ---------------------------------------------------------------- model lines

def sysline(op, c, **kw):
    d = {'op': op, 'n': c['n'], 'c': c['c'], 'A': c['A'], 'b': c['b'], 'K': c['K']}
    d.update(kw)
    return d


def canon_task(o):
    if isinstance(o, dict) and isinstance(o.get('task'), dict) and 'raises' in o['task']:
        o = dict(o)
        o['task'] = {'raises': True}
    return o


# ---------------------------------------------------------------- oracles

def Fl(v):
    return [F(x) for x in v]


def Fm(M):
    return [[F(x) for x in r] for r in M]


def sample_points(c, rng, k=8):
    """points x in Q^n: random small integers, plus (when A has full column structure) structured ones"""
    n = c['n']
    pts = [[F(rng.randint(-3, 3)) for _ in range(n)] for _ in range(k)]
    pts.append([F(0)] * n)
    return pts


def structured_case(K, rng):
    """A = I, b = 0 over the cone sequence K, with sample points assembled from per-cone points."""
    m = sum(l for _, l in K)
    A = [[1 if i == j else 0 for j in range(m)] for i in range(m)]
    case = {'n': m, 'c': [rng.randint(-2, 2) for _ in range(m)], 'A': A, 'b': [0] * m, 'K': [list(k) for k in K]}
    pts = []
    per = [cm.cone_points(t, l, rng) for t, l in K]
    for _ in range(12):
        x = []
        for (t, l), pp in zip(K, per):
            x += rng.choice(pp)[:l] if len(rng.choice(pp)) >= l else [F(0)] * l
        pts.append(x)
    # all-inside point and single-outside points
    inside = [pp[0] for pp in per]
    pts.append([v for blk in inside for v in blk])
    for i, pp in enumerate(per):
        for alt in pp[1:]:
            blks = list(inside)
            blks[i] = alt
            pts.append([v for blk in blks for v in blk])
    return case, pts


def ecos_member(out, x):
    """membership of x in the set described by ECOS data (independent reading of the ECOS format)"""
    A, b, G, h = Fm(out['A']), Fl(out['b']), Fm(out['G']), Fl(out['h'])
    if cm.matvec(A, x) != b:
        return False
    s = [hh - g for hh, g in zip(h, cm.matvec(G, x))]
    K = [('+', out['l'])] + [('S', q) for q in out['q']] + [('e', 3)] * out['e']
    if sum(l for _, l in K) != len(s):
        return 'dims'
    return cm.in_product(K, s)


def oracle_ecos(c, out, pts):
    if 'raises' in out:
        if all(t in ('0', '+', 'S', 'e') for t, _ in c['K']):
            return 'ECOS.apply raised %s on a supported cone sequence' % out['raises'], None
        return None, None
    if out['c'] != [frac_str(F(v)) for v in c['c']]:
        return 'objective vector changed', None
    A, b = Fm(c['A']), Fl(c['b'])
    for x in pts:
        s = [u + v for u, v in zip(cm.matvec(A, x), b)]
        want = cm.in_product([tuple(k) for k in c['K']], s)
        got = ecos_member(out, x)
        if got == 'dims':
            return 'cone dimensions of the ECOS data do not add up to the number of rows of G', x
        if want is None or got is None:
            continue
        if want != got:
            return ('x=%s is %s the coniclifts feasible set but %s the set described by the ECOS data (dims l=%d q=%s e=%d)'
                    % ([str(v) for v in x], 'in' if want else 'outside', 'in' if got else 'outside',
                       out['l'], out['q'], out['e'])), x
    return None, None


def sep_member(c, out, x):
    """exists y with A'[x,y]+b in K' and y in slack cones; y is forced by the equality rows"""
    n = c['n']
    A1, b1 = Fm(out['A']), Fl(out['b'])
    w = (len(A1[0]) - n) if A1 else sum(s[1] for s in out['slacks'])
    if w != sum(s[1] for s in out['slacks']):
        return 'shape'
    y = [None] * w
    s0 = [u + v for u, v in zip(cm.matvec([r[:n] for r in A1], x), b1)]
    for j in range(w):
        rows = [i for i, r in enumerate(A1) if r[n + j] != 0]
        if len(rows) != 1:
            return 'shape'
        i = rows[0]
        # row i:  s0_i + M_ij y_j = 0 must be forced by a zero cone
        y[j] = -s0[i] / A1[i][n + j]
    z = list(x) + y
    s = [u + v for u, v in zip(cm.matvec(A1, z), b1)]
    r = cm.in_product([tuple(k) for k in out['K']], s)
    if r is False:
        return False
    for t, l, cols in out['slacks']:
        if any(k < 0 or k >= len(z) for k in cols):
            return 'mapping'
        rr = cm.MEMBER[t]([z[k] for k in cols])
        if rr is False:
            return False
        if rr is None:
            r = None
    return r


def oracle_separate(c, out, pts):
    if 'raises' in out:
        return 'separate_cone_constraints raised %s' % out['raises'], None
    allowed = {'0'} | (set(c['dont_sep']) if c['dont_sep'] is not None else {'0'})
    if any(t not in allowed for t, _ in out['K']):
        return 'a cone type outside dont_sep remains in the affine part', None
    A, b = Fm(c['A']), Fl(c['b'])
    for x in pts:
        s = [u + v for u, v in zip(cm.matvec(A, x), b)]
        want = cm.in_product([tuple(k) for k in c['K']], s)
        got = sep_member(c, out, x)
        if got == 'shape':
            return 'slack columns are not one -1 per separated row', x
        if got == 'mapping':
            return 'the column mapping of a separated cone refers to a column that does not exist in the augmented system', x
        if want is None or got is None:
            continue
        if want != got:
            return ('x=%s is %s the original set but %s the projection of the separated system'
                    % ([str(v) for v in x], 'in' if want else 'outside', 'in' if got else 'outside')), x
    return None, None


DUAL_TAG = {'0': 'fr', '+': '+', 'S': 'S', 'e': 'de'}


def feasible_pair(c, rng):
    """Replace (b, c) of the case so that a known primal feasible x0 and dual feasible y0 exist."""
    K = [tuple(k) for k in c['K']]
    n = c['n']
    A = Fm(c['A'])
    x0 = [F(rng.randint(-2, 2)) for _ in range(n)]
    s0, y0 = [], []
    for t, l in K:
        pin = [p for p in cm.cone_points(t, l, rng) if cm.MEMBER[t](p[:l]) is True and len(p) >= l]
        s0 += (rng.choice(pin)[:l] if pin else [F(0)] * l)
        dt = DUAL_TAG[t]
        din = [p for p in cm.cone_points(dt, l, rng) if cm.MEMBER[dt](p[:l]) is True and len(p) >= l]
        y0 += (rng.choice(din)[:l] if din else [F(0)] * l)
    Ax = cm.matvec(A, x0)
    b = [s - a for s, a in zip(s0, Ax)]
    cvec = [cm.dot([A[i][j] for i in range(len(A))], y0) for j in range(n)]
    c2 = dict(c)
    c2['b'] = [frac_str(v) for v in b]
    c2['c'] = [frac_str(v) for v in cvec]
    return c2, x0, y0, s0


def oracle_dualize(c, out, x0, y0):
    """weak duality on the constructed pair: c.x0 >= f.y0, with y0 feasible for the returned dual data"""
    if 'raises' in out:
        return 'dualize_problem raised %s' % out['raises']
    f, G, h = Fl(out['f']), Fm(out['G']), Fl(out['h'])
    if len(G) != c['n'] or any(len(r) != len(y0) for r in G) or len(f) != len(y0):
        return 'dual data have the wrong shape'
    if cm.matvec(G, y0) != h:
        return 'y0 (constructed with A^T y0 = c) does not satisfy G y = h'
    if sum(l for _, l in out['Kd']) != len(y0):
        return 'dual cone dimensions do not add up'
    mem = cm.in_product([tuple(k) for k in out['Kd']], y0)
    if mem is False:
        return 'y0 in K* is rejected by the returned dual cones %s' % out['Kd']
    px = cm.dot(Fl(c['c']), x0)
    dy = cm.dot(f, y0)
    if px < dy:
        return 'weak duality fails: primal feasible x0 has c.x0=%s < f.y0=%s for dual feasible y0' % (px, dy)
    return None


def oracle_mosek_primal(c, out, pts):
    if 'raises' in out:
        return 'Mosek._primal_apply raised %s' % out['raises'], None
    n = c['n']
    A, b = Fm(c['A']), Fl(c['b'])
    A2, b2 = Fm(out['A']), Fl(out['b'])
    w = sum(s[1] for s in out['sepK'])
    if out['n'] != n or len(out['c']) != n + w or Fl(out['c'])[:n] != Fl(c['c']) or any(v != 0 for v in Fl(out['c'])[n:]):
        return 'objective / column bookkeeping wrong', None
    task = out['task']
    for x in pts:
        s = [u + v for u, v in zip(cm.matvec(A, x), b)]
        want = cm.in_product([tuple(k) for k in c['K']], s)
        # y forced by the equality rows: columns n.. appear with a single nonzero each
        z = list(x) + [None] * w
        ok = True
        for j in range(w):
            rows = [i for i, r in enumerate(A2) if r[n + j] != 0]
            if len(rows) != 1 or rows[0] < out['nIneq']:
                return 'slack column %d is not tied by exactly one equality row' % j, x
            i = rows[0]
            z[n + j] = (b2[i] - cm.dot(A2[i][:n], x)) / A2[i][n + j]
        lhs = cm.matvec(A2, z)
        for i in range(len(A2)):
            if i < out['nIneq']:
                ok = ok and lhs[i] <= b2[i]
            else:
                ok = ok and lhs[i] == b2[i]
        got = ok
        if ok:
            for t, l, cols in out['sepK']:
                r = cm.MEMBER[t]([z[k] for k in cols])
                if r is False:
                    got = False
                elif r is None and got:
                    got = None
        # the MOSEK task must describe the same cones (MOSEK's own member order)
        if isinstance(task, dict) and 'raises' not in task and ok:
            tg = True
            for kind, mem in task['cones']:
                v = [z[k] for k in mem]
                r = {'quad': cm.in_soc, 'pexp': cm.mosek_pexp, 'dexp': cm.mosek_dexp}[kind](v)
                if r is False:
                    tg = False
                elif r is None and tg:
                    tg = None
            if got is not None and tg is not None and tg != got:
                return 'MOSEK task cones disagree with sep_K at z=%s' % [str(v) for v in z], x
        if want is None or got is None:
            continue
        if want != got:
            return ('x=%s is %s the coniclifts set but %s MOSEK primal form' %
                    ([str(v) for v in x], 'in' if want else 'outside', 'in' if got else 'outside')), x
    return None, None


def oracle_mosek_dual(c, out, x0, y0):
    if 'raises' in out:
        return 'Mosek._dual_apply raised %s' % out['raises']
    K = [tuple(k) for k in c['K']]
    # independent regrouping: +, S, de (from e), fr (from 0), each in original order
    blocks, i = {'+': [], 'S': [], 'e': [], '0': []}, 0
    soc = []
    for t, l in K:
        blocks[t] += y0[i:i + l]
        if t == 'S':
            soc.append(l)
        i += l
    w = blocks['+'] + blocks['S'] + blocks['e'] + blocks['0']
    f, G, h = Fl(out['f']), Fm(out['G']), Fl(out['h'])
    if len(f) != len(w):
        return 'dual objective has the wrong length'
    if cm.matvec(G, w) != h:
        return 'regrouped dual feasible point violates G w = h'
    Kd = [('+', out['nPos'])] + [('S', q) for q in out['socDims']] + [('de', 3)] * out['nDexp'] + [('fr', out['nFree'])]
    if sum(l for _, l in Kd) != len(w):
        return 'cone_dims do not add up'
    if cm.in_product(Kd, w) is False:
        return 'regrouped dual feasible point rejected by cone_dims %s' % (Kd,)
    if cm.dot(Fl(c['c']), x0) < cm.dot(f, w):
        return 'weak duality fails on the MOSEK dual form'
    task = out['task']
    # task cones in MOSEK's order must accept w
    for kind, mem in task['cones']:
        v = [w[k] for k in mem]
        r = {'quad': cm.in_soc, 'pexp': cm.mosek_pexp, 'dexp': cm.mosek_dexp}[kind](v)
        if r is False:
            return 'MOSEK task cone %s over members %s rejects the dual feasible point' % (kind, mem)
    for j, bk in enumerate(task['varBounds']):
        if bk == 'lo' and w[j] < 0:
            return 'variable bound rejects dual feasible point'
        if bk == 'fx' and w[j] != 0:
            return 'variable left fixed at zero'
    covered = set(k for _, mem in task['cones'] for k in mem) | {j for j, bk in enumerate(task['varBounds']) if bk == 'lo'}
    need = set(range(out['nPos'] + sum(out['socDims']) + 3 * out['nDexp']))
    if covered != need:
        return 'MOSEK task constrains variables %s, expected %s' % (sorted(covered), sorted(need))
    return None


# ---------------------------------------------------------------- generators

CONE_OPTS = [('0', 1), ('0', 2), ('+', 1), ('+', 2), ('S', 1), ('S', 2), ('S', 3), ('e', 3)]


def rand_sys(rng, K, n=None, dens=0.6):
    m = sum(l for _, l in K)
    n = n if n is not None else rng.randint(1, 4)

    def val():
        if rng.random() > dens:
            return 0
        v = rng.choice([-3, -2, -1, 1, 2, 3, F(1, 2), F(-3, 4)])
        return frac_str(v) if isinstance(v, F) else v
    out = {'n': n, 'c': [rng.randint(-3, 3) for _ in range(n)], 'A': [[val() for _ in range(n)] for _ in range(m)],
           'b': [rng.randint(-2, 2) for _ in range(m)], 'K': [list(k) for k in K]}
    if len({tuple(k) for k in K}) < len(K) and rng.random() < 0.5:
        out['alias'] = True
    return out


def cone_sequences(maxlen):
    for L in range(0, maxlen + 1):
        for seq in itertools.product(CONE_OPTS, repeat=L):
            yield list(seq)


def rand_K(rng):
    L = rng.randint(1, 7)
    K = []
    for _ in range(L):
        t = rng.choice(['0', '+', 'S', 'S', 'e'])
        l = 3 if t == 'e' else (rng.randint(1, 5) if t == 'S' else rng.randint(1, 4))
        K.append((t, l))
    return K


DS_SETS = [None, [], ['0'], ['+'], ['0', '+'], ['S'], ['e'], ['+', 'S'], ['+', 'e'], ['S', 'e'], ['0', '+', 'S', 'e']]


def run(ctx):
    rng = ctx.rng
    ctx.lean = common.lean_check('C10')
    common.run_regressions(ctx, 'C10', lambda r: recheck(r))
    quick = ctx.quick()
    seqs = [s for s in cone_sequences(3 if quick else 4)]
    if quick:
        # all sequences up to length 2, and a third of the length-3 ones (rotating with the seed) + all S/S/x
        short = [s for s in seqs if len(s) <= 2]
        long3 = [s for s in seqs if len(s) == 3]
        pick = [s for i, s in enumerate(long3) if i % 3 == ctx.seed % 3 or sum(1 for t, _ in s if t == 'S') >= 2]
        seqs = short + pick
    ctx.extra['exhaustive_cone_sequences'] = len(seqs)
    nrand = 150 if quick else 1500
    seqs_r = [rand_K(rng) for _ in range(nrand)]
    corpus = [c for c in common.load_corpus('C10') if 'regress' not in c]

    ecos_cases = [c['case'] for c in corpus if c.get('kind') == 'ecos']
    pts_of = {}
    for c in corpus:
        if c.get('point'):
            pts_of[common.digest(c['case'])] = [[F(v) for v in c['point']]]
    sep_cases = [c['case'] for c in corpus if c.get('kind') == 'separate']
    dual_cases, mp_cases, md_cases = [], [], []
    pair_of = {}
    for K in seqs + seqs_r:
        if len(K) == 0:
            c = {'n': 2, 'c': [1, -1], 'A': [], 'b': [], 'K': []}
        else:
            c = rand_sys(rng, K)
        ecos_cases.append(c)
        mp_cases.append(c)
        if K:
            c2, x0, y0, s0 = feasible_pair(c, rng)
            pair_of[common.digest(c2)] = (x0, y0)
            dual_cases.append(c2)
            md_cases.append(c2)
        # dont_sep: all subsets on short sequences, a random one on long ones
        dss = DS_SETS if len(K) <= 2 else [rng.choice(DS_SETS)]
        for ds in dss:
            cc = dict(c)
            cc['dont_sep'] = ds
            sep_cases.append(cc)
    # structured identity-matrix cases (points inside/outside each cone)
    struct = []
    for K in (seqs if quick else seqs[:3000]):
        if K:
            sc, pts = structured_case(K, rng)
            pts_of[common.digest(sc)] = pts
            struct.append(sc)
    ecos_cases += struct
    mp_cases += struct[:400]
    for sc in struct[:400]:
        cc = dict(sc)
        cc['dont_sep'] = rng.choice(DS_SETS)
        pts_of[common.digest(cc)] = pts_of[common.digest(sc)]
        sep_cases.append(cc)
    # malformed stream for ECOS: unsupported cones
    for _ in range(20):
        K = rand_K(rng)
        K.insert(rng.randrange(len(K) + 1), (rng.choice(['P', 'pow', 'de', 'fr']), 3))
        ecos_cases.append(rand_sys(rng, K))
    # selector run lengths directly
    runs_cases = [{'sel': [rng.randint(0, 1) for _ in range(rng.randint(0, 12))]} for _ in range(200)]
    runs_cases += [{'sel': list(bits)} for L in range(0, 7) for bits in itertools.product((0, 1), repeat=L)]

    def nt_sys(c, o):
        return len(c['K']) >= 2

    r_ecos = correspond(ctx, 'ecos', ecos_cases, impl_ecos, lambda c: sysline('solv.ecos', c), nontrivial=nt_sys)
    r_sep = correspond(ctx, 'separate', sep_cases, impl_separate,
                       lambda c: sysline('solv.separate', c, dont_sep=(['0'] if c['dont_sep'] is None else c['dont_sep'])),
                       nontrivial=nt_sys)
    r_dual = correspond(ctx, 'dualize', dual_cases, impl_dualize, lambda c: sysline('solv.dualize', c), nontrivial=nt_sys)
    r_mp = correspond(ctx, 'mosek_primal', mp_cases, impl_mosek_primal, lambda c: sysline('solv.mosek_primal', c),
                      canon=canon_task, nontrivial=nt_sys)
    r_md = correspond(ctx, 'mosek_dual', md_cases, impl_mosek_dual, lambda c: sysline('solv.mosek_dual', c),
                      nontrivial=nt_sys)
    correspond(ctx, 'runs', runs_cases, impl_runs, lambda c: {'op': 'solv.runs', 'sel': c['sel']},
               nontrivial=lambda c, o: sum(c['sel']) >= 2)
    assert 'mosek' not in sys.modules, 'stub leaked'
    ctx.exhaustive = True

    # second and later applications on the SAME (c, A, b, K) objects (Problem keeps one system and hands it to every solver and
    # every re-solve): each must return what it returns on a fresh copy
    runners = {'ecos': impl_ecos, 'separate': impl_separate, 'dualize': impl_dualize, 'mosek_primal': impl_mosek_primal,
               'mosek_dual': impl_mosek_dual}
    reuse_pool = [c for c in sep_cases if len(c['K']) >= 1 and any(t in ('S', 'e') for t, _ in c['K'])]
    rng.shuffle(reuse_pool)
    for c in reuse_pool[:(120 if quick else 1200)]:
        order = [rng.choice(sorted(runners)) for _ in range(rng.randint(2, 3))]
        ctx.case({'stream': 'reuse', 'K': c['K'], 'order': order}, nontrivial=True)
        ctx.count('stream:reuse')
        try:
            fresh = [common.canon_json(runners[o](c)) for o in order]
        except Exception:  # noqa: BLE001
            ctx.count('reuse:skipped-raises')
            continue
        _REUSE[0] = mk(c)
        try:
            for k, o in enumerate(order):
                try:
                    got = common.canon_json(runners[o](c))
                except AssertionError as e:
                    got = 'AssertionError: %s' % e
                if got != fresh[k]:
                    ctx.violation('application #%d (%s) on the same (c, A, b, K) objects, after %s, returns different data than on a fresh '
                                  'copy of the system: an earlier application changed the caller\'s system (K is now %s, was %s)'
                                  % (k + 1, o, order[:k], Kj(_REUSE[0][3]), c['K']),
                                  {'kind': 'reuse', 'case': c, 'order': order})
                    break
        finally:
            _REUSE[0] = None

    # independent oracles on the implementation's outputs
    def pts_for(c):
        base = dict(c)
        return pts_of.get(common.digest(c)) or sample_points(c, rng)

    for c, io, mo in r_ecos:
        why, x = oracle_ecos(c, io, pts_for(c))
        if why:
            tags = []
            if adjacent_soc(c['K']):
                tags.append('F1-adjacent-soc-merged')
            ctx.violation('ECOS.apply: ' + why, {'kind': 'ecos', 'case': c, 'observed': io, 'model': mo,
                                                'point': None if x is None else [str(v) for v in x]}, tags=tags)
    for c, io, mo in r_sep:
        why, x = oracle_separate(c, io, pts_for(c))
        if why:
            ctx.violation('separate_cone_constraints: ' + why, {'kind': 'separate', 'case': c, 'observed': io, 'model': mo,
                                                                'point': None if x is None else [str(v) for v in x]})
    for c, io, mo in r_dual:
        x0, y0 = pair_of[common.digest(c)]
        why = oracle_dualize(c, io, x0, y0)
        if why:
            ctx.violation('dualize_problem: ' + why, {'kind': 'dualize', 'case': c, 'observed': io, 'model': mo,
                                                      'x0': [str(v) for v in x0], 'y0': [str(v) for v in y0]})
    for c, io, mo in r_mp:
        why, x = oracle_mosek_primal(c, io, pts_for(c))
        if why:
            ctx.violation('Mosek primal form: ' + why, {'kind': 'mosek_primal', 'case': c, 'observed': io, 'model': mo,
                                                        'point': None if x is None else [str(v) for v in x]})
    for c, io, mo in r_md:
        x0, y0 = pair_of[common.digest(c)]
        why = oracle_mosek_dual(c, io, x0, y0)
        if why:
            ctx.violation('Mosek dual form: ' + why, {'kind': 'mosek_dual', 'case': c, 'observed': io, 'model': mo,
                                                      'x0': [str(v) for v in x0], 'y0': [str(v) for v in y0]})
    if (not ctx.lean.ok or ctx.disagreements) and not ctx.violations:
        common.broken_report(ctx, 'cone-membership sampling and weak-duality oracles found no failing input among %d cases'
                             % ctx.evaluations)
    return ctx.finish(
        level='proof',
        rule='every cone sequence over {0:1,2; +:1,2; S:1,2,3; e:3} up to the tier length with random rational (c,A,b), '
             'identity-matrix copies with points inside/on/outside each cone, every dont_sep subset on short sequences, '
             'random longer sequences; non-trivial = at least two cones; distinct = distinct canonical JSON',
        trusted=TRUSTED, assumptions=ASSUME)


def adjacent_soc(K):
    return any(K[i][0] == 'S' and K[i + 1][0] == 'S' for i in range(len(K) - 1))


def replay(obj):
    import random
    r = obj['replay']
    c = r['case']
    rng = random.Random(0)
    kind = r['kind']
    if kind == 'reuse':
        runners = {'ecos': impl_ecos, 'separate': impl_separate, 'dualize': impl_dualize, 'mosek_primal': impl_mosek_primal,
                   'mosek_dual': impl_mosek_dual}
        fresh = [common.canon_json(runners[o](c)) for o in r['order']]
        _REUSE[0] = mk(c)
        bad = None
        try:
            for k, o in enumerate(r['order']):
                try:
                    got = common.canon_json(runners[o](c))
                except AssertionError as e:
                    got = 'AssertionError: %s' % e
                if got != fresh[k]:
                    bad = 'application #%d (%s) on the same objects differs from the fresh copy; K is now %s' % (k + 1, o, Kj(_REUSE[0][3]))
                    break
        finally:
            _REUSE[0] = None
        print('case:', common.canon_json(c), 'order:', r['order'])
        print('oracle:', bad or 'ok')
        return 1 if bad else 0
    pts = [[F(v) for v in r['point']]] if r.get('point') else sample_points(c, rng)
    if kind == 'ecos':
        out = common.impl_call(impl_ecos, c)
        why = oracle_ecos(c, out, pts)[0]
    elif kind == 'separate':
        out = common.impl_call(impl_separate, c)
        why = oracle_separate(c, out, pts)[0]
    elif kind == 'dualize':
        out = common.impl_call(impl_dualize, c)
        why = oracle_dualize(c, out, [F(v) for v in r['x0']], [F(v) for v in r['y0']])
    elif kind == 'mosek_primal':
        out = common.impl_call(impl_mosek_primal, c)
        why = oracle_mosek_primal(c, out, pts)[0]
    else:
        out = common.impl_call(impl_mosek_dual, c)
        why = oracle_mosek_dual(c, out, [F(v) for v in r['x0']], [F(v) for v in r['y0']])
    print('case:', common.canon_json(c))
    print('implementation returned:', common.canon_json(out))
    print('oracle:', why or 'ok')
    return 1 if why else 0


recheck = common.recheck_via_replay(replay)
