"""
C19 -- presolve and compile options never change what is being certified.

Model: lean/SageoptModel/Model/Sage.lean (the settings are inputs of the row generators and of the cover helper);
theorems: Props/C19.lean.
Tie (structure): every instance is built under ALL 32 settings combinations (thorough) / default + 7 others (quick), with the
settings given globally AND as a per-constraint override, with automatic / full / user covers; cover helper and rows are compared
with the model (the C01 / C02 structural comparison, run across the option lattice).
Audit: ECOS values of primal and dual problems across the option lattice: equal for ordinary SAGE constraints, and for conditional
ones equal under the options documented as exact, never above the value without heuristics.
"""
import itertools
import math
from fractions import Fraction as F

import numpy as np

import common
import relaxmodel as rm
import sagemodel as sm
import sigtree as st
from common import run_driver

TRUSTED = [
    'Lean 4.33.0 kernel; axioms of every theorem in Props/C19*.lean within {propext, Classical.choice, Quot.sound}',
    'harness/sagemodel.py, harness/props/c19.py',
    'ECOS for the values compared across settings (1e-5 relative; statuses other than solved are inconclusive)',
]
ASSUME = [
    'answers of the optimisation-based presolve are inputs of the model',
    'sign_presolve_lossless (a SAGE decomposition may avoid definitely-negative off-indices; Murray-Chandrasekaran-Wierman 2018, Cor. 5) '
    'is not proved: the automatic-vs-full-covers clause is observed only',
]


def set_global(settings):
    import sageopt.coniclifts.constraints.set_membership.sage_cones as sc
    old = dict(sc.SETTINGS)
    for k, v in settings.items():
        sc.SETTINGS[k] = v
    return old


def restore_global(old):
    import sageopt.coniclifts.constraints.set_membership.sage_cones as sc
    for k, v in old.items():
        sc.SETTINGS[k] = v


def structural(ctx, rng, count, nsett):
    lines, meta, outs = [], [], []
    alls = list(sm.all_settings())
    for k in range(count):
        primal = rng.random() < 0.5
        if k % 4 == 3:
            # mixed-sign exponents with a zero row and an orthogonal pair (the cover reduction's precondition fails)
            inst = sm.gen_instance(rng, primal=primal, m=rng.randint(4, 5), n=rng.randint(2, 3), alpha_style='mixed_zero')
            inst['X'] = None
        else:
            inst = sm.gen_instance(rng, primal=primal)
        setts = alls if nsett >= 32 else [sm.DEFAULTS] + rng.sample(alls, nsett - 1)
        for s in setts:
            for mode in ('override', 'global'):
                old = None
                try:
                    if mode == 'global':
                        old = set_global(s)
                        b = sm.build(inst, {})
                    else:
                        b = sm.build(inst, s)
                except Exception as e:  # noqa: BLE001
                    ctx.count('construct-raises:' + type(e).__name__)
                    if 'zero components' in str(e):
                        meta.append((inst, s, mode, 'F16'))
                    continue
                finally:
                    if old is not None:
                        restore_global(old)
                if not b.con.variables():
                    continue
                line = sm.model_line(inst, s, b)
                try:
                    io = sm.impl_compile(b)
                except Exception as e:  # noqa: BLE001
                    io = {'raises': type(e).__name__, 'msg': str(e)[:160]}
                lines.append(line)
                outs.append(io)
                meta.append((inst, s, mode, None))
    real_meta = [m for m in meta if m[3] is None]
    mouts = run_driver(lines)
    for (inst, s, mode, _), io, mo in zip(real_meta, outs, mouts):
        if isinstance(mo, dict) and 'error' in mo:
            raise common.DriverError(mo['error'])
        ctx.case({'stream': 'structure', 'inst': inst, 'settings': s, 'mode': mode}, nontrivial=len(inst['alpha']) >= 2)
        ctx.count('stream:structure:' + mode)
        if 'raises' in io and 'zero-size array' in io.get('msg', '') and 'raises' not in mo and not mo['A']:
            ctx.count('empty-system')          # a constraint that contributes no row at all cannot be compiled on its own
            ctx.traces_validated += 1
            continue
        if 'raises' in io or 'raises' in mo:
            if ('raises' in io) != ('raises' in mo):
                ctx.disagreement('structure', {'inst': inst, 'settings': s, 'mode': mode}, io, mo)
            else:
                ctx.traces_validated += 1
            continue
        if inst['primal'] and s['sum_age_force_equality'] and io.get('K'):
            ctx.count('force-equality:' + ('with-unreached-rows' if io['K'][-1][0] == '+' and any(k[0] == '0' for k in io['K']) else 'all-reached'))
        if s['kernel_basis'] and inst['primal'] and inst['X'] is None:
            ctx.count('kernel-basis:' + ('some-pruned' if any(not any(c[1]) for c in io['ech']['covers']) else 'none-pruned'))
        if not sm.systems_equal(io, mo):
            a, m = sm.canon_pair(io, mo)
            ctx.disagreement('structure', {'inst': inst, 'settings': s, 'mode': mode}, a, m)
        else:
            ctx.traces_validated += 1
    return [m for m in meta if m[3] == 'F16']


def value_under(case, form, settings, covers_mode, via='global'):
    """ECOS value of the level-0 relaxation under the given settings.
    covers_mode: 'auto' (sig_relaxation itself), 'hand' (the same problem built by hand from the public constraint classes, automatic
    covers), 'full' (by hand, full covers), 'fullT' (by hand, full covers written as all-True arrays: the documented correction of
    covers[i][i] applies).
    via: 'global' (the settings are the global defaults) or 'override' (the global defaults are the OPPOSITE of every boolean option
    and the settings are handed to the constraint itself; needs a hand-built problem)"""
    import sageopt as so
    import sageopt.coniclifts as cl
    if via == 'override':
        old = set_global({k: (not v) for k, v in settings.items() if isinstance(v, bool)})
        kw = {'settings': dict(settings)}
        if covers_mode == 'auto':
            covers_mode = 'hand'
    else:
        old = set_global(settings)
        kw = {}
    try:
        f = st.build(case['f'])
        X = rm.build_sig_domain(case['f']['n'], case['box'])
        if covers_mode == 'auto':
            prob = so.sig_relaxation(f, X=X, form=form)
        else:
            m = f.m
            if covers_mode == 'full':
                kw['covers'] = {i: np.array([j != i for j in range(m)]) for i in range(m)}
            elif covers_mode == 'fullT':
                kw['covers'] = {i: np.ones(m, dtype=bool) for i in range(m)}
            if form == 'primal':
                gamma = cl.Variable(name='gamma')
                L = f - gamma
                con = cl.PrimalSageCone(L.c, L.alpha, X, 'full', **kw)
                prob = cl.Problem(cl.MAX, gamma, [con])
            else:
                gamma = cl.Variable(name='gamma')
                L = f - gamma
                v = cl.Variable(shape=(L.m, 1), name='v')
                con = cl.DualSageCone(v, L.alpha, X, 'full', c=L.c, **kw)
                from sageopt.relaxations import symbolic_correspondences as sc2
                a = sc2.relative_coeff_vector(f.upcast_to_signomial(1), L.alpha).reshape(-1, 1)
                o = sc2.relative_coeff_vector(f, L.alpha).reshape(-1, 1)
                prob = cl.Problem(cl.MIN, o.T @ v, [con, a.T @ v == 1])
        if via == 'override':
            # handing options to ONE constraint must leave the global defaults as they were
            import sageopt.coniclifts.constraints.set_membership.sage_cones as sc_
            want = {k: (not v) for k, v in settings.items() if isinstance(v, bool)}
            leaked = {k: sc_.SETTINGS[k] for k in want if sc_.SETTINGS[k] != want[k]}
            if leaked:
                return 'raised:GlobalDefaultsChanged:per-constraint settings changed the global defaults %s' % sorted(leaked), float('nan')
        return rm.solve_ecos(prob)
    except Exception as e:  # noqa: BLE001
        if isinstance(e, RuntimeError) and 'This SAGE constraint is infeasible' in str(e) and form == 'primal':
            return 'solved', -math.inf         # the constructor's own way of reporting an infeasible certificate problem
        return 'raised:%s:%s' % (type(e).__name__, str(e)[:60]), float('nan')
    finally:
        restore_global(old)


def documented_covers(case):
    """the recorded finding F10 is the DOCUMENTED reduction rule applied to a conditional cone: the covers of the real constraint must
    be the ones the model (which encodes that rule) computes; any other loss of covers is a different defect"""
    from props.c06 import covers_as_documented
    try:
        return covers_as_documented(case['f'], case['box'], lagrangian=True)
    except Exception:  # noqa: BLE001
        return False


def same(a, b, tol=1e-5):
    if math.isinf(a) or math.isinf(b):
        return a == b
    return abs(a - b) <= tol * max(1.0, abs(a), abs(b))


def audit_case(ctx, rng, case, form, setts, variant=None):
    """one instance under the given settings against the reference settings (no heuristic, no presolve)"""
    box = case['box']
    # (ill-scaled data: the solver's own accuracy is what limits the comparison; a lost balance equation changes values by order one)
    tol = 1e-3 if case.get('ill') else 1e-5
    base_s = dict(sm.DEFAULTS)
    base_s['heuristic_reduction'] = False          # the reference: no heuristic, no presolve
    # the reference is computed in a forked child: whatever building it leaves behind in the process (and whatever the builds below
    # leave behind) cannot flow from one into the other; the settings that follow run in this process, heuristic ones first
    kind_, ref = common.forked(value_under, case, form, base_s, 'full' if box is None else 'auto', timeout=300)
    if kind_ != 'ok':
        ctx.incon('audit: reference %s' % kind_)
        return
    ctx.case({'stream': 'audit', 'case': case, 'form': form})
    ctx.count('stream:audit:' + ('ordinary' if box is None else 'conditional'))
    if ref[0] != 'solved':
        ctx.incon('audit: reference status %s' % ref[0])
        return
    for s in setts:
        st_, v = value_under(case, form, s, 'auto')
        if st_.startswith('raised'):
            tag = None
            what = 'options %s: building / solving the %s problem raised %s although the reference settings give %.6g' % (
                {k: s[k] for k in s if s[k] != sm.DEFAULTS[k]}, form, st_[7:], ref[1])
            if 'zero components' in st_:
                tag = 'F16-kernel-basis-trivial-kernel'
            ctx.violation('options: ' + what, {'stream': 'audit', 'case': case, 'form': form, 'settings': s}, tags=[tag] if tag else [])
            continue
        if st_ != 'solved':
            ctx.incon('audit: status %s under some settings' % st_)
            continue
        if box is None:
            # the same settings with FULL covers (built by hand from the public constraint classes)
            stf, vf = value_under(case, form, s, 'full')
            if stf == 'solved' and not same(vf, ref[1], tol):
                ctx.violation('options: ordinary SAGE %s value %.8g with full covers under %s differs from %.8g under the reference settings'
                              % (form, vf, {k: s[k] for k in s if s[k] != sm.DEFAULTS[k]}, ref[1]),
                              {'stream': 'audit', 'case': case, 'form': form, 'settings': s, 'covers': 'full'})
                continue
            # one more way of saying the same thing, rotating: full covers written as all-True arrays, and / or the settings
            # handed to the constraint itself while the global defaults say the opposite
            cm, via = variant or [('fullT', 'global'), ('full', 'override'), ('fullT', 'override'), ('hand', 'override'), ('hand', 'global')][rng.randrange(5)]
            stx, vx = value_under(case, form, s, cm, via)
            ctx.count('audit:variant:%s/%s' % (cm, via))
            if stx.startswith('raised') or (stx == 'solved' and not same(vx, ref[1], tol)):
                ctx.violation('options: ordinary SAGE %s problem with covers=%s and the options %s given as %s: %s, the reference settings give %.8g'
                              % (form, {'fullT': 'full (all-True arrays)', 'full': 'full', 'hand': 'automatic'}[cm],
                                 {k: s[k] for k in s if s[k] != sm.DEFAULTS[k]},
                                 'per-constraint settings (global defaults: the opposite)' if via == 'override' else 'global defaults',
                                 stx[7:] if stx.startswith('raised') else 'value %.8g' % vx, ref[1]),
                              {'stream': 'audit', 'case': case, 'form': form, 'settings': s, 'covers': cm, 'via': via})
                continue
            if not same(v, ref[1], tol):
                tag = []
                if s['sum_age_force_equality'] and form == 'primal' and v == -math.inf:
                    tag = ['F7-force-equality-uncovered']
                ctx.violation('options: ordinary SAGE %s value %.8g under %s differs from %.8g under full covers without presolve'
                              % (form, v, {k: s[k] for k in s if s[k] != sm.DEFAULTS[k]}, ref[1]),
                              {'stream': 'audit', 'case': case, 'form': form, 'settings': s}, tags=tag)
        else:
            # the options handed to the constraint itself (global defaults: the opposite) mean what the global defaults mean
            if rng.random() < 0.35 or variant:
                sto, vo = value_under(case, form, s, 'hand', 'override')
                ctx.count('audit:variant:hand/override:conditional')
                if sto.startswith('raised') or (sto == 'solved' and not same(vo, v, tol)):
                    ctx.violation('options: conditional SAGE %s problem with the options %s given as per-constraint settings (global '
                                  'defaults: the opposite): %s; the same options as global defaults give %.8g'
                                  % (form, {k: s[k] for k in s if s[k] != sm.DEFAULTS[k]},
                                     sto[7:] if sto.startswith('raised') else 'value %.8g' % vo, v),
                                  {'stream': 'audit', 'case': case, 'form': form, 'settings': s, 'covers': 'hand', 'via': 'override'})
                    continue
            exact = not s['heuristic_reduction'] and not s['presolve_trivial_age_cones']
            if exact and not same(v, ref[1], tol):
                tag = ['F7-force-equality-uncovered'] if (s['sum_age_force_equality'] and form == 'primal' and v == -math.inf) else []
                ctx.violation('options: conditional SAGE %s value %.8g under the exact options %s differs from the reference %.8g'
                              % (form, v, {k: s[k] for k in s if s[k] != sm.DEFAULTS[k]}, ref[1]),
                              {'stream': 'audit', 'case': case, 'form': form, 'settings': s}, tags=tag)
            if v > ref[1] + 1e-5 * max(1.0, abs(ref[1])):
                ctx.violation('options: conditional SAGE %s value %.8g under %s EXCEEDS the value %.8g without heuristics'
                              % (form, v, {k: s[k] for k in s if s[k] != sm.DEFAULTS[k]}, ref[1]),
                              {'stream': 'audit', 'case': case, 'form': form, 'settings': s})
            if math.isfinite(ref[1]) and v == -math.inf and form == 'primal' and not exact:
                # same cause as the recorded finding only if switching heuristic_reduction off ALONE restores feasibility
                tags = []
                if s['heuristic_reduction']:
                    st2, v2 = value_under(case, form, dict(s, heuristic_reduction=False), 'auto')
                    if st2 == 'solved' and math.isfinite(v2) and documented_covers(case):
                        tags = ['F10-heuristic-reduction-infeasible']
                ctx.violation('options: the heuristic options %s turn a feasible conditional certificate problem (value %.6g) infeasible'
                              % ({k: s[k] for k in s if s[k] != sm.DEFAULTS[k]}, ref[1]),
                              {'stream': 'audit', 'case': case, 'form': form, 'settings': s}, tags=tags)


def audit(ctx, rng, count, nsett):
    alls = list(sm.all_settings())
    for t in range(count):
        if t % 8 == 7:
            # two ADJACENT negative terms between positive ones (each lies in the other's full cover): 1 - a e^x - b e^{2x} + c e^{3x}
            f = rm.sig_leaf([[F(0)], [F(1)], [F(2)], [F(3)]], [F(rng.choice([1, 2, 3])), F(-rng.choice([1, 2])), F(-rng.choice([1, 2])), F(rng.choice([1, 2, 4]))])
        elif t % 8 == 3:
            # two negative terms inside the triangle of the positive ones, in the plane (each lies in the other's full cover)
            f = rm.sig_leaf([[F(0), F(0)], [F(2), F(0)], [F(0), F(2)], [F(1), F(1)], [F(1), F(1, 2)], [F(1, 2), F(1)]],
                            [F(rng.choice([1, 2])), F(rng.choice([1, 2])), F(rng.choice([1, 2])), F(rng.choice([1, 2])),
                             F(-1, rng.choice([1, 2])), F(-1, rng.choice([1, 2]))])
        elif t % 8 == 1:
            # a change of units that leaves the exponent columns six orders of magnitude apart (x in 1/2000, y in 1000; exact in the
            # 7 decimals the constructor keeps): rank decisions on the exponent differences must not depend on it
            f = rm.gen_sig(rng, n=2, m=rng.randint(3, 5))
            f['alpha'] = [[common.frac_str(F(r[0]) * 2000), common.frac_str(F(r[1]) / 1000)] for r in f['alpha']]
        elif t % 8 == 5:
            # exponents of mixed sign whose row sums are nonnegative with minimum zero: the negative term (1,1) lies between (4,0) and
            # (-2,2), which is orthogonal to it (the sign-pattern simplification is only valid for nonnegative exponents)
            k = rng.choice([1, 2])
            f = rm.sig_leaf([[F(0), F(0)], [F(4 * k), F(0)], [F(-2 * k), F(2 * k)], [F(k), F(k)]],
                            [F(rng.choice([1, 2, 3])), F(rng.choice([1, 2])), F(rng.choice([1, 2])), F(-1, rng.choice([1, 2]))])
        elif t % 8 == 2:
            # linearly INDEPENDENT exponent differences around the constant-free negative term: a e^{2x} + b e^{2y} - c e^{x} (+ d): the
            # cover of an AGE cone can then be emptied by the kernel-basis rule alone (trivial kernel), which the options that look at
            # what the OTHER cones can reach (forced equality) must see
            k = rng.choice([1, 2])
            rows = [[F(2 * k), F(0)], [F(0), F(2 * k)], [F(k), F(0)]]
            cs = [F(rng.choice([1, 2])), F(rng.choice([1, 2, 3])), F(-1, rng.choice([1, 2]))]
            if rng.random() < 0.4:
                rows.append([F(0), F(0)])
                cs.append(F(rng.choice([1, 2])))
            f = rm.sig_leaf(rows, cs)
        else:
            f = rm.gen_sig(rng, m=rng.randint(3, 5))
        two_neg = t % 8 in (3, 7, 1)           # (also the ill-scaled family gets the cover- and kernel-reading options every time)
        n = f['n']
        box = None
        if rng.random() < 0.45 and t % 8 not in (1, 2, 3, 5):
            box = rm.gen_box(rng, n) if rng.random() < 0.6 else {'lin': [[[common.frac_str(F(rng.randint(-1, 1))) for _ in range(n)], '0']]}
            if 'lin' in box and all(F(a) == 0 for a in box['lin'][0][0]):
                box['lin'][0][0][0] = '1'
        if t % 8 == 4:
            # disjoint supports on a domain where the term the heuristic reduction drops IS needed: a e^{x1} - b e^{x2} (+ d) over
            # {x2 <= x1 <= 1, x2 >= -1}; the exact choice heuristic_reduction=False is given once globally, once to the constraint itself
            cs = [F(rng.choice([1, 2])), F(-rng.choice([1, 2]))]
            rows = [[F(1), F(0)], [F(0), F(1)]]
            if rng.random() < 0.5:
                rows.append([F(0), F(0)])
                cs.append(F(rng.choice([1, 3])))
            f = rm.sig_leaf(rows, cs)
            box = {'lin': [[['-1', '1'], '0'], [['1', '0'], '1'], [['0', '-1'], '1']]}
        case = {'f': f, 'box': box}
        if t % 8 == 1:
            case['ill'] = True
        form = rng.choice(['primal', 'dual'] + (['primal', 'primal'] if two_neg else []))
        setts = alls if nsett >= 32 else [sm.DEFAULTS] + rng.sample(alls, nsett - 1)
        if two_neg and nsett < 32:
            # the options that read the covers of OTHER terms: always part of the sample for these instances
            setts = [sm.DEFAULTS, dict(sm.DEFAULTS, sum_age_force_equality=True), dict(sm.DEFAULTS, kernel_basis=True),
                     dict(sm.DEFAULTS, sum_age_force_equality=True, presolve_trivial_age_cones=True)] + setts[1:nsett - 3]
        if t % 8 == 4:
            form = rng.choice(['dual', 'dual', 'primal'])
            audit_case(ctx, rng, case, form, [dict(sm.DEFAULTS, heuristic_reduction=False), dict(sm.DEFAULTS, heuristic_reduction=False, compact_dual=False)],
                       variant=('hand', 'override'))
            continue
        if t % 8 == 2:
            form = 'primal'
            if nsett < 32:
                setts = [sm.DEFAULTS, dict(sm.DEFAULTS, kernel_basis=True, sum_age_force_equality=True),
                         dict(sm.DEFAULTS, kernel_basis=True, sum_age_force_equality=True, presolve_trivial_age_cones=True),
                         dict(sm.DEFAULTS, kernel_basis=True), dict(sm.DEFAULTS, sum_age_force_equality=True)] + setts[1:nsett - 4]
        base_s = dict(sm.DEFAULTS)
        base_s['heuristic_reduction'] = False          # the reference: no heuristic, no presolve
        audit_case(ctx, rng, case, form, setts)


def targeted(ctx, rng):
    """failing-input search on the instances where model and implementation disagree: signomials on the same exponents, solved under
    the disagreeing settings and under the reference settings"""
    seen = set()
    for d in ctx.disagreements[:80]:
        inst, s = d['case']['inst'], d['case']['settings']
        if inst['X'] is not None:
            continue
        key = common.canon_json([inst['alpha'], s, inst['primal']])
        if key in seen:
            continue
        seen.add(key)
        alpha = [[F(x) for x in r] for r in inst['alpha']]
        m = len(alpha)
        form = 'primal' if inst['primal'] else 'dual'
        base_s = dict(sm.DEFAULTS, heuristic_reduction=False)
        for t in range(8 + m):
            if t < m:
                # one negative term at index t, the others positive (an AGE function if anything is)
                c = [F(rng.choice([1, 2, 3])) for _ in range(m)]
                c[t] = F(-1)
            else:
                c = [F(rng.choice([-2, -1, 1, 1, 2, 3])) for _ in range(m)]
                for j, r in enumerate(alpha):
                    if all(x == 0 for x in r):
                        c[j] = F(rng.choice([1, 2, 4]))
            case = {'f': rm.sig_leaf(alpha, c), 'box': None}
            ref = value_under(case, form, base_s, 'full')
            got = value_under(case, form, s, 'auto')
            gotf = value_under(case, form, s, 'full')
            ctx.count('stream:targeted')
            if ref[0] == 'solved' and gotf[0] == 'solved' and not same(gotf[1], ref[1]):
                ctx.violation('options: ordinary SAGE %s value %.8g with full covers under %s differs from %.8g under the reference settings'
                              % (form, gotf[1], {k: s[k] for k in s if s[k] != sm.DEFAULTS[k]}, ref[1]),
                              {'stream': 'audit', 'case': case, 'form': form, 'settings': s, 'covers': 'full'})
                return
            if ref[0] != 'solved' or got[0] != 'solved':
                if got[0].startswith('raised') and ref[0] == 'solved':
                    ctx.violation('options: building / solving the %s problem under %s raised %s although the reference settings give %.6g'
                                  % (form, {k: s[k] for k in s if s[k] != sm.DEFAULTS[k]}, got[0][7:], ref[1]),
                                  {'stream': 'audit', 'case': case, 'form': form, 'settings': s})
                    return
                continue
            if not same(got[1], ref[1]):
                ctx.violation('options: ordinary SAGE %s value %.8g under %s differs from %.8g under full covers without presolve'
                              % (form, got[1], {k: s[k] for k in s if s[k] != sm.DEFAULTS[k]}, ref[1]),
                              {'stream': 'audit', 'case': case, 'form': form, 'settings': s})
                return


def run(ctx):
    rng = ctx.rng
    ctx.lean = common.lean_check('C19')
    quick = ctx.quick()
    common.run_regressions(ctx, 'C19', recheck)
    f16 = structural(ctx, rng, 25 if quick else 100, 8 if quick else 32)
    for inst, s, mode, _ in f16[:3]:
        ctx.violation('options: kernel_basis=True makes the constructor raise "Cannot declare Variables with zero components" '
                      '(an AGE cone whose balance matrix has a trivial kernel)', {'stream': 'structure', 'inst': inst, 'settings': s},
                      tags=['F16-kernel-basis-trivial-kernel'])
    # pinned corpus
    for e in common.load_corpus('C19'):
        if 'case' in e:
            # reference first, in a forked child (nothing it builds stays in this process); then the stored settings; then the exact
            # options once more IN this process: what the heuristic build left behind must not change them
            exact_s = dict(sm.DEFAULTS, heuristic_reduction=False)
            kind_, ref = common.forked(value_under, e['case'], e['form'], exact_s, 'auto', timeout=300)
            if kind_ != 'ok':
                ctx.incon('corpus: reference %s' % kind_)
                continue
            st_, v = value_under(e['case'], e['form'], e['settings'], 'auto')
            st3, v3 = value_under(e['case'], e['form'], exact_s, 'auto')
            ctx.case({'stream': 'corpus', 'entry': e['note']})
            if st3 == 'solved' and ref[0] == 'solved' and not same(v3, ref[1]):
                ctx.violation('options (corpus %s): the exact options give %r when the problem is built after a build under %s, and %r when it '
                              'is built alone in a fresh process' % (e['note'][:40], v3, {k: e['settings'][k] for k in e['settings'] if e['settings'][k] != sm.DEFAULTS[k]} or 'the defaults', ref[1]),
                              {'stream': 'corpus-order', 'entry': e})
                continue
            if st_.startswith('raised') or (st_ == 'solved' and ref[0] == 'solved' and not same(v, ref[1])):
                tags = []
                if e.get('tag') == 'F10-heuristic-reduction-infeasible' and e['settings']['heuristic_reduction'] and v == -math.inf:
                    st2, v2 = value_under(e['case'], e['form'], dict(e['settings'], heuristic_reduction=False), 'auto')
                    if st2 == 'solved' and math.isfinite(v2) and documented_covers(e['case']):
                        tags = [e['tag']]
                ctx.violation('options (corpus %s): value %s / %r vs reference %r' % (e['note'][:40], st_, v, ref[1]),
                              {'stream': 'corpus', 'entry': e}, tags=tags)
    targeted(ctx, rng)
    audit(ctx, rng, 25 if quick else 150, 8 if quick else 32)
    if (not ctx.lean.ok or ctx.disagreements) and not ctx.violations:
        common.broken_report(ctx, 'comparison of solved values across the option lattice found no failing instance')
    return ctx.finish(
        level='proof',
        rule='random SAGE constraints (primal and dual) under settings combinations (8 per instance quick / all 32 thorough), given '
             'globally and as per-constraint override, automatic / full / user covers; audit: values of sig_relaxation across the '
             'settings, ordinary and conditional; non-trivial = at least two terms; distinct = distinct JSON',
        trusted=TRUSTED, assumptions=ASSUME)


def recheck(r):
    """execute the stored input of a violation again; the violation it (still) shows (recorded findings excepted)"""
    import random
    ctx = common.RecCtx()
    if r.get('stream') == 'corpus-order':
        e = r['entry']
        exact_s = dict(sm.DEFAULTS, heuristic_reduction=False)
        kind_, ref = common.forked(value_under, e['case'], e['form'], exact_s, 'auto', timeout=300)
        value_under(e['case'], e['form'], e['settings'], 'auto')
        st3, v3 = value_under(e['case'], e['form'], exact_s, 'auto')
        if kind_ == 'ok' and st3 == 'solved' and ref[0] == 'solved' and not same(v3, ref[1]):
            return 'options: the exact options give %r after a build under other settings, and %r alone in a fresh process' % (v3, ref[1])
        return None
    if r.get('stream') == 'audit' and 'case' in r:
        variant = (r['covers'], r.get('via', 'global')) if r.get('covers') in ('full', 'fullT', 'hand') and 'via' in r else None
        audit_case(ctx, random.Random(0), r['case'], r['form'], [r['settings']], variant=variant)
    return ctx.first('C19')


def replay(obj):
    print('what:', obj['what'])
    print(common.canon_json(obj['replay'])[:1500])
    return 1
